(* Driver for the extracted model (trusted: I/O and number conversion only).
   Reads a case file, prints artifacts and streams in the format of the Rust hooks/runners. *)
open Lexmodel

let rec int_of_pos = function
  | XH -> 1
  | XO p -> 2 * int_of_pos p
  | XI p -> 2 * int_of_pos p + 1
let int_of_n = function N0 -> 0 | Npos p -> int_of_pos p
let rec pos_of_int i =
  if i = 1 then XH else if i land 1 = 0 then XO (pos_of_int (i lsr 1)) else XI (pos_of_int (i lsr 1))
let n_of_int i = if i = 0 then N0 else Npos (pos_of_int i)
let rec int_of_nat = function O -> 0 | S n -> 1 + int_of_nat n
let nat_of_int i = let rec go i acc = if i = 0 then acc else go (i - 1) (S acc) in go i O

let name_of_string s = List.init (String.length s) (fun i -> n_of_int (Char.code s.[i]))
let string_of_name nm = String.concat "" (List.map (fun c -> String.make 1 (Char.chr (int_of_n c))) nm)

(* ---------- s-expression parser for regexes ---------- *)
type sx = Atom of string | Lst of sx list

let parse_sx (s : string) : sx =
  let n = String.length s in
  let pos = ref 0 in
  let rec skip () = if !pos < n && s.[!pos] = ' ' then (incr pos; skip ()) in
  let rec parse () =
    skip ();
    if !pos >= n then failwith "sexp: eof";
    if s.[!pos] = '(' then begin
      incr pos;
      let items = ref [] in
      let rec loop () =
        skip ();
        if !pos >= n then failwith "sexp: unclosed";
        if s.[!pos] = ')' then incr pos
        else (items := parse () :: !items; loop ()) in
      loop ();
      Lst (List.rev !items)
    end else begin
      let st = !pos in
      while !pos < n && s.[!pos] <> ' ' && s.[!pos] <> '(' && s.[!pos] <> ')' do incr pos done;
      Atom (String.sub s st (!pos - st))
    end in
  parse ()

let cps_of_string s =
  if s = "-" then [] else List.map (fun x -> n_of_int (int_of_string x)) (String.split_on_char ',' s)

let rec regex_of_sx (x : sx) : regex =
  match x with
  | Lst [Atom "builtin"; Atom nm] -> RBuiltin (name_of_string nm)
  | Lst [Atom "var"; Atom nm] -> RVar (name_of_string nm)
  | Lst [Atom "char"; Atom c] -> RChar (n_of_int (int_of_string c))
  | Lst [Atom "str"; Atom cs] -> RString (cps_of_string cs)
  | Lst (Atom "set" :: items) ->
      RCharSet (List.map (function
        | Atom a ->
            (match String.index_opt a '-' with
             | Some i -> CRange (n_of_int (int_of_string (String.sub a 0 i)),
                                 n_of_int (int_of_string (String.sub a (i + 1) (String.length a - i - 1))))
             | None -> CChar (n_of_int (int_of_string a)))
        | _ -> failwith "set item") items)
  | Lst [Atom "star"; a] -> RStar (regex_of_sx a)
  | Lst [Atom "plus"; a] -> RPlus (regex_of_sx a)
  | Lst [Atom "opt"; a] -> ROpt (regex_of_sx a)
  | Lst [Atom "cat"; a; b] -> RCat (regex_of_sx a, regex_of_sx b)
  | Lst [Atom "or"; a; b] -> ROr (regex_of_sx a, regex_of_sx b)
  | Lst [Atom "diff"; a; b] -> RDiff (regex_of_sx a, regex_of_sx b)
  | Lst [Atom "any"] -> RAny
  | Lst [Atom "eoi"] -> REoi
  | _ -> failwith "bad regex sexp"

let regex_of_string s = regex_of_sx (parse_sx s)

(* ---------- action kinds ---------- *)
let body_of_string s =
  match String.split_on_char '.' s with
  | ["ret"; k] -> BRet (n_of_int (int_of_string k))
  | ["cont"] -> BCont
  | ["rcont"] -> BResetCont
  | ["rret"; k] -> BResetRet (n_of_int (int_of_string k))
  | ["sw"; r] -> BSwitch (nat_of_int (int_of_string r))
  | ["swret"; r; k] -> BSwitchRet (nat_of_int (int_of_string r), n_of_int (int_of_string k))
  | ["rsw"; r] -> BResetSwitch (nat_of_int (int_of_string r))
  | ["err"; k] -> BErr (n_of_int (int_of_string k))
  | _ -> failwith ("bad body " ^ s)

let kind_of_string s =
  match String.split_on_char ':' s with
  | ["skip"] -> KSkip
  | ["simple"; k] -> KSimple (n_of_int (int_of_string k))
  | ["inf"; b] -> KInf (body_of_string b)
  | ["fal"; b] -> KFal (body_of_string b)
  | ["alt"; f; b1; b2] -> KAlt (f = "1", body_of_string b1, body_of_string b2)
  | _ -> failwith ("bad kind " ^ s)

(* ---------- printing ---------- *)
let pr = Printf.printf

let join_nats (l : nat list) =
  match l with [] -> "-" | _ -> String.concat "," (List.map (fun x -> string_of_int (int_of_nat x)) l)

let tag_name (t : tag) : string =
  match t with
  | TagAddCharTransition -> "AddCharTransition" | TagAddEmptyTransition -> "AddEmptyTransition"
  | TagAddAnyTransition -> "AddAnyTransition" | TagAddEoiTransition -> "AddEoiTransition"
  | TagMakeStateAccepting -> "MakeStateAccepting" | TagUnboundVar -> "UnboundVar"
  | TagUnknownBuiltin -> "UnknownBuiltin" | TagNotCharSet -> "NotCharSet" | TagVarDepth -> "VarDepth"
  | TagDfaCharTransition -> "DfaCharTransition" | TagDfaRanges -> "DfaRanges" | TagDfaAny -> "DfaAny"
  | TagDfaEoi -> "DfaEoi" | TagBacktrackVisited -> "BacktrackVisited" | TagSimplifyPred -> "SimplifyPred"
  | TagSurrogateEndpoint -> "SurrogateEndpoint" | TagDupVar -> "DupVar" | TagDupRuleSet -> "DupRuleSet"
  | TagDupErrorType -> "DupErrorType" | TagMixedRules -> "MixedRules" | TagFirstNotInit -> "FirstNotInit"
  | TagIndex -> "Index" | TagSlice -> "Slice" | TagNoArm -> "NoArm" | TagOutOfFuel -> "OutOfFuel"

let acc_str (accs : accval list) (unit_vals : bool) =
  match accs with
  | [] -> "-"
  | _ -> String.concat "," (List.map (fun (v, ctx) ->
           (if unit_vals then "u" else string_of_int (int_of_nat v))
           ^ (match ctx with None -> "" | Some c -> "@" ^ string_of_int (int_of_nat c))) accs)

let print_nfa (n : nfa) (unit_vals : bool) =
  pr "NFA %d\n" (List.length n);
  List.iteri (fun i st ->
    (match st.n_acc with
     | None -> pr "S %d - -\n" i
     | Some (v, ctx) ->
         pr "S %d %s %s\n" i (if unit_vals then "u" else string_of_int (int_of_nat v))
           (match ctx with None -> "-" | Some c -> string_of_int (int_of_nat c)));
    if st.n_eps <> [] then pr "e %s\n" (join_nats st.n_eps);
    List.iter (fun (c, l) -> pr "c %d %s\n" (int_of_n c) (join_nats l)) st.n_chars;
    List.iter (fun r -> pr "r %d %d %s\n" (int_of_n r.r_lo) (int_of_n r.r_hi) (join_nats r.r_val)) st.n_ranges;
    if st.n_any <> [] then pr "a %s\n" (join_nats st.n_any);
    if st.n_eoi <> [] then pr "z %s\n" (join_nats st.n_eoi)) n

let print_map (m : state_map) =
  let ents = List.sort compare (List.map (fun (k, v) -> (int_of_nat v, join_nats k)) m) in
  pr "STATEMAP %d\n" (List.length ents);
  List.iter (fun (v, k) -> pr "M %d %s\n" v k) ents

let print_dfa (type t) (d : t dfa) (tv : t -> string) (unit_vals : bool) =
  pr "DFA %d\n" (List.length d);
  List.iteri (fun i st ->
    pr "S %d init=%d bt=%d acc=%s preds=%s\n" i (if st.d_init then 1 else 0) (if st.d_bt then 1 else 0)
      (acc_str st.d_acc unit_vals) (join_nats st.d_preds);
    List.iter (fun (c, t) -> pr "c %d %s\n" (int_of_n c) (tv t)) st.d_chars;
    List.iter (fun r -> pr "r %d %d %s\n" (int_of_n r.r_lo) (int_of_n r.r_hi) (tv r.r_val)) st.d_ranges;
    (match st.d_any with Some t -> pr "a %s\n" (tv t) | None -> ());
    (match st.d_eoi with Some t -> pr "z %s\n" (tv t) | None -> ())) d

let tv_nat (x : nat) = "t" ^ string_of_int (int_of_nat x)
let tv_trans (x : trans) =
  match x with TGoto n -> tv_nat n | TAccept accs -> "A[" ^ acc_str accs false ^ "]"

let loc_str (l : loc) = Printf.sprintf "%d %d %d" (int_of_n l.byte_idx) (int_of_n l.line) (int_of_n l.col)

let cps_str (l : n list) =
  match l with [] -> "e" | _ -> String.concat "," (List.map (fun c -> string_of_int (int_of_n c)) l)

let print_item pfx (i : (n, n) item) =
  match i with
  | ITok (s, t, e) -> pr "%s T %d %s %s\n" pfx (int_of_n t) (loc_str s) (loc_str e)
  | IInvalid l -> pr "%s EI %s\n" pfx (loc_str l)
  | ICustom (x, l) -> pr "%s EC %d %s\n" pfx (int_of_n x) (loc_str l)

let print_log pfx (u : ustate) =
  List.iter (fun e ->
    pr "%s A %d %s %s %s %s\n" pfx (int_of_nat e.lg_act) (loc_str e.lg_start) (loc_str e.lg_end)
      (match e.lg_peek with None -> "-" | Some c -> string_of_int (int_of_n c))
      (match e.lg_text with None -> "-" | Some t -> cps_str t)) (List.rev u.u_log)

(* ---------- running ---------- *)
let extra_calls = 2

let run_model (p : program) (kinds : akind list) (input : n list) (with_str : bool) =
  let limit = List.length input + 6 in
  let rec go l count nones =
    if count > limit then pr "M OVERRUN\n"
    else
      let (o, l') = model_next p kinds l in
      match o with
      | OPanic t -> pr "M P %s\n" (tag_name t); print_log "M" l'.l_user
      | ONone ->
          pr "M N\n";
          if nones >= extra_calls then print_log "M" l'.l_user else go l' (count + 1) (nones + 1)
      | OItem i -> print_item "M" i; if nones > 0 then pr "M RESURRECTED\n"; go l' (count + 1) nones in
  go (model_new input with_str) 0 0

let run_spec (rss : crule list list) (kinds : akind list) (input : n list) (with_str : bool) =
  let limit = List.length input + 6 in
  let rec go s count nones =
    if count > limit then pr "S OVERRUN\n"
    else
      match spec_next_inst rss kinds s with
      | None -> pr "S P OutOfFuel\n"
      | Some (None, s') ->
          pr "S N\n";
          if nones >= extra_calls then print_log "S" s'.s_user else go s' (count + 1) (nones + 1)
      | Some (Some i, s') -> print_item "S" i; go s' (count + 1) nones in
  go (spec_new input with_str) 0 0

(* ---------- case file ---------- *)
let split_first s =
  match String.index_opt s ' ' with
  | None -> (s, "")
  | Some i -> (String.sub s 0 i, String.sub s (i + 1) (String.length s - i - 1))

let parse_rule rest =
  (* <act> <sexp> | <ctx sexp or -> *)
  let (act, rest) = split_first rest in
  let i = String.index rest '|' in
  let re = String.trim (String.sub rest 0 i) in
  let ctx = String.trim (String.sub rest (i + 1) (String.length rest - i - 1)) in
  { ru_re = regex_of_string re;
    ru_ctx = (if ctx = "-" then None else Some (regex_of_string ctx));
    ru_act = nat_of_int (int_of_string act) }

(* the generated code as S-expressions (GenCode.gen_program) *)
let pairs_str (ps : (n * n) list) =
  String.concat " " (List.map (fun (a, b) -> Printf.sprintf "%d-%d" (int_of_n a) (int_of_n b)) ps)
let guard_str (g : guard) =
  match g with GChain ps -> "(chain " ^ pairs_str ps ^ ")" | GTable ps -> "(table " ^ pairs_str ps ^ ")"
let rec setacc_str (sa : setacc) =
  match sa with
  | SANone -> "(sa-none)"
  | SASet a -> Printf.sprintf "(sa-set %d)" (int_of_nat a)
  | SAIf (i, a, els) -> Printf.sprintf "(sa-if %d %d %s)" (int_of_nat i) (int_of_nat a) (setacc_str els)
let rec gcode_buf (b : Buffer.t) (g : gcode) =
  match g with
  | GSetState n -> Buffer.add_string b (Printf.sprintf "(set %d)" (int_of_nat n))
  | GReturnNone -> Buffer.add_string b "(none)"
  | GFailBacktrack -> Buffer.add_string b "(bt)"
  | GFailError -> Buffer.add_string b "(err)"
  | GIf (i, t, e) ->
      Buffer.add_string b (Printf.sprintf "(if %d " (int_of_nat i)); gcode_buf b t; Buffer.add_char b ' ';
      gcode_buf b e; Buffer.add_char b ')'
  | GAction a -> Buffer.add_string b (Printf.sprintf "(act %d)" (int_of_nat a))
  | GState (sa, eoi, cas, gas, d) ->
      Buffer.add_string b "(state "; Buffer.add_string b (setacc_str sa); Buffer.add_char b ' ';
      gcode_buf b eoi; Buffer.add_string b " (";
      List.iter (fun (cs, code) ->
        Buffer.add_string b "((";
        Buffer.add_string b (String.concat " " (List.map (fun c -> string_of_int (int_of_n c)) cs));
        Buffer.add_string b ") "; gcode_buf b code; Buffer.add_char b ')') cas;
      Buffer.add_string b ") (";
      List.iter (fun (gd, code) ->
        Buffer.add_char b '('; Buffer.add_string b (guard_str gd); Buffer.add_char b ' ';
        gcode_buf b code; Buffer.add_char b ')') gas;
      Buffer.add_string b ") "; gcode_buf b d; Buffer.add_char b ')'
let cxact_str (a : cxact) =
  match a with CXGoto n -> Printf.sprintf "(goto %d)" (int_of_nat n) | CXTrue -> "(true)" | CXFalse -> "(false)"
let cxstate_str (st : cxstate) =
  match st with
  | CXAccept -> "(cx-accept)"
  | CXMatch (eof, cas, gas, d) ->
      Printf.sprintf "(cx-match %s (%s) (%s) %s)" (cxact_str eof)
        (String.concat "" (List.map (fun (cs, a) ->
           Printf.sprintf "((%s) %s)" (String.concat " " (List.map (fun c -> string_of_int (int_of_n c)) cs)) (cxact_str a)) cas))
        (String.concat "" (List.map (fun (gd, a) -> Printf.sprintf "(%s %s)" (guard_str gd) (cxact_str a)) gas))
        (cxact_str d)
let pat_str (p : nat option) = match p with None -> "_" | Some k -> string_of_int (int_of_nat k)
let print_gencode (p : program) =
  match gen_program p with
  | Panic t -> pr "GCODE PANIC %s\n" (tag_name t)
  | Ok gp ->
      List.iter (fun (pat, code) ->
        let b = Buffer.create 256 in gcode_buf b code;
        pr "GCODE ARM %s %s\n" (pat_str pat) (Buffer.contents b)) gp.gp_arms;
      List.iteri (fun i fn ->
        List.iter (fun (pat, st) -> pr "GCODE CTX %d %s %s\n" i (pat_str pat) (cxstate_str st)) fn) gp.gp_ctxs

let print_artifacts (c : compiled) =
  List.iteri (fun i ca ->
    pr "CTXBEGIN %d\n" i; print_nfa ca.ca_nfa true; print_map ca.ca_map; print_dfa ca.ca_dfa tv_nat true;
    pr "CTXEND\n") c.c_ctxs;
  List.iter (fun ra ->
    pr "RULESET %s\n" (match ra.ra_name with None -> "-" | Some nm -> string_of_name nm);
    pr "RSBEGIN\n"; print_nfa ra.ra_nfa false; print_map ra.ra_map; print_dfa ra.ra_dfa tv_nat false;
    pr "RSEND\n") c.c_rulesets;
  pr "BACKTRACK\n"; print_dfa c.c_joined tv_nat false;
  pr "SIMPLIFIED\n"; print_dfa c.c_simplified tv_trans false;
  List.iter (fun (nm, i) -> pr "ENTRY %s %d\n" (string_of_name nm) (int_of_nat i))
    (List.sort compare c.c_entries |> List.map (fun x -> x)
     |> List.sort (fun (a, _) (b, _) -> compare (string_of_name a) (string_of_name b)));
  pr "INLINED %s\n" (join_nats c.c_program.p_inlined);
  List.iter (fun (pat, s) ->
    pr "ARM %d %s\n" (int_of_nat s) (match pat with None -> "_" | Some k -> string_of_int (int_of_nat k)))
    c.c_program.p_arms;
  List.iter (fun (nm, i) -> pr "SWITCH %s %d\n" (string_of_name nm) (int_of_nat i)) c.c_program.p_switch
  ;print_gencode c.c_program

let rec process_def (id : string) (lines : string list) ~(artifacts : bool) =
  let (d, kinds, inputs) = parse_def_lines lines in
  process_parsed id d kinds inputs ~artifacts

and parse_def_lines (lines : string list) =
  let tops = ref [] and cur_rs = ref None and kinds = ref [] and inputs = ref [] in
  List.iter (fun line ->
    let (cmd, rest) = split_first line in
    match cmd with
    | "T" ->
        let (k, rest) = split_first rest in
        (match k with
         | "ERRTYPE" -> tops := TErrorType :: !tops
         | "LET" -> let (nm, sx) = split_first rest in
             tops := TRob (RBBinding (name_of_string nm, regex_of_string sx)) :: !tops
         | "RULE" -> tops := TRob (RBRule (parse_rule rest)) :: !tops
         | "RULESET" -> cur_rs := Some (rest, [])
         | "END" -> (match !cur_rs with
                     | Some (nm, rules) -> tops := TRuleSet (name_of_string nm, List.rev rules) :: !tops; cur_rs := None
                     | None -> failwith "END without RULESET")
         | _ -> failwith ("bad T line " ^ line))
    | "R" ->
        let (k, rest) = split_first rest in
        let item = (match k with
          | "LET" -> let (nm, sx) = split_first rest in RBBinding (name_of_string nm, regex_of_string sx)
          | "RULE" -> RBRule (parse_rule rest)
          | _ -> failwith ("bad R line " ^ line)) in
        (match !cur_rs with
         | Some (nm, rules) -> cur_rs := Some (nm, item :: rules)
         | None -> failwith "R outside RULESET")
    | "KINDS" ->
        kinds := (if rest = "" then [] else List.map kind_of_string (String.split_on_char ';' rest))
    | "INPUT" ->
        let (ctor, cps) = split_first rest in
        inputs := (int_of_string ctor, cps_of_string cps) :: !inputs
    | _ -> failwith ("bad line " ^ line)) lines;
  (List.rev !tops, kinds, inputs)

and process_parsed id d kinds inputs ~artifacts =
  pr "DEF %s\n" id;
  pr "WF %d\n" (if spec_wf d && model_hyps d then 1 else 0);
  let rss = spec_rulesets d in
  (match model_compile d with
   | Panic t -> pr "PANIC %s\n" (tag_name t)
   | Ok c ->
       if artifacts then begin
         print_artifacts c;
         pr "MODELCERTS %d\n" (if model_certs c then 1 else 0)
       end;
       List.iteri (fun i (ctor, input) ->
         pr "RUN %d %d\n" i ctor;
         run_model c.c_program !kinds input (ctor < 2);
         (match rss with
          | Ok rss -> run_spec rss !kinds input (ctor < 2)
          | Panic t -> pr "S P %s\n" (tag_name t))) (List.rev !inputs));
  pr "ENDDEF\n"

(* ---------- component commands ---------- *)
let parse_triples s =
  List.filter (fun x -> String.trim x <> "") (String.split_on_char ',' s)
  |> List.map (fun t ->
       match List.filter (fun x -> x <> "") (String.split_on_char ' ' t) with
       | [a; b; c] -> (int_of_string a, int_of_string b, int_of_string c)
       | [a; b] -> (int_of_string a, int_of_string b, 0)
       | _ -> failwith "triple")

let fmt_rm (m : nat list rmap) =
  match m with
  | [] -> "[]"
  | _ -> String.concat "" (List.map (fun r ->
           Printf.sprintf "[%d %d %s]" (int_of_n r.r_lo) (int_of_n r.r_hi)
             (String.concat "," (List.map (fun x -> string_of_int (int_of_nat x)) r.r_val))) m)

let build_map triples =
  List.fold_left (fun m (a, b, v) -> rm_insert m (n_of_int a) (n_of_int b) (nat_of_int v)) [] triples

let run_rm (ops : string) =
  let m = ref [] in
  (try
    List.iter (fun op ->
      let op = String.trim op in
      if op <> "" then begin
        let kind = op.[0] and rest = String.sub op 1 (String.length op - 1) in
        (match kind with
         | 'i' -> (match parse_triples rest with
                   | [(a, b, v)] -> m := rm_insert !m (n_of_int a) (n_of_int b) (nat_of_int v)
                   | _ -> failwith "i")
         | 'I' -> (match rm_insert_ranges !m (build_map (parse_triples rest)) with
                   | Some r -> m := r | None -> raise Exit)
         | 'R' -> (match rm_remove_ranges !m (build_map (parse_triples rest)) with
                   | Some r -> m := r | None -> raise Exit)
         | _ -> failwith "op");
        pr "%s;" (fmt_rm !m)
      end) (String.split_on_char ';' ops)
  with Exit -> pr "OUTOFFUEL;");
  pr "\n"

let run_r2m (sx : string) =
  match model_r2m (regex_of_string sx) with
  | Panic _ -> pr "PANIC\n"
  | Ok m -> pr "OK %s\n" (String.concat "" (List.map (fun r -> Printf.sprintf "[%d %d]" (int_of_n r.r_lo) (int_of_n r.r_hi)) m))

let fmt_pairs (l : (n * n) list) =
  String.concat "" (List.map (fun (a, b) -> Printf.sprintf "[%d %d]" (int_of_n a) (int_of_n b)) l)

(* ---------- token trees for the regex parser ---------- *)
(* tokens separated by spaces: c<cp> s<cps> i<name> $ _ | * + ? # - ( ) [ ] o<k> *)
let parse_toks (s : string) : tok list =
  let words = List.filter (fun x -> x <> "") (String.split_on_char ' ' s) in
  let rec go ws closer : tok list * string list =
    match ws with
    | [] -> if closer = "" then ([], []) else failwith "unclosed group"
    | w :: rest ->
        if w = closer then ([], rest)
        else if w = ")" || w = "]" then failwith "unbalanced"
        else
          let (t, rest') =
            match w with
            | "(" -> let (inner, r) = go rest ")" in (TParen inner, r)
            | "[" -> let (inner, r) = go rest "]" in (TBracket inner, r)
            | "$" -> (TDollar, rest) | "_" -> (TUnderscore, rest) | "|" -> (TOr, rest)
            | "*" -> (TStar, rest) | "+" -> (TPlus, rest) | "?" -> (TQuestion, rest)
            | "#" -> (TPound, rest) | "-" -> (TMinus, rest)
            | _ ->
                let body = String.sub w 1 (String.length w - 1) in
                (match w.[0] with
                 | 'c' -> (TChar (n_of_int (int_of_string body)), rest)
                 | 's' -> (TStr (cps_of_string body), rest)
                 | 'i' -> (TIdent (name_of_string body), rest)
                 | 'o' -> (TOther (n_of_int (int_of_string body)), rest)
                 | _ -> failwith ("bad token " ^ w)) in
          let (ts, r) = go rest' closer in
          (t :: ts, r) in
  fst (go words "")

let rec sexp_of_regex (r : regex) : string =
  match r with
  | RBuiltin n -> "(builtin " ^ string_of_name n ^ ")"
  | RVar n -> "(var " ^ string_of_name n ^ ")"
  | RChar c -> Printf.sprintf "(char %d)" (int_of_n c)
  | RString s -> "(str " ^ (match s with [] -> "-" | _ -> String.concat "," (List.map (fun c -> string_of_int (int_of_n c)) s)) ^ ")"
  | RCharSet l -> "(set" ^ String.concat "" (List.map (function
        | CChar a -> Printf.sprintf " %d" (int_of_n a)
        | CRange (a, b) -> Printf.sprintf " %d-%d" (int_of_n a) (int_of_n b)) l) ^ ")"
  | RStar a -> "(star " ^ sexp_of_regex a ^ ")"
  | RPlus a -> "(plus " ^ sexp_of_regex a ^ ")"
  | ROpt a -> "(opt " ^ sexp_of_regex a ^ ")"
  | RCat (a, b) -> "(cat " ^ sexp_of_regex a ^ " " ^ sexp_of_regex b ^ ")"
  | ROr (a, b) -> "(or " ^ sexp_of_regex a ^ " " ^ sexp_of_regex b ^ ")"
  | RDiff (a, b) -> "(diff " ^ sexp_of_regex a ^ " " ^ sexp_of_regex b ^ ")"
  | RAny -> "(any)"
  | REoi -> "(eoi)"

let run_toks (s : string) =
  match (try Some (parse_toks s) with Failure _ -> None) with
  | None -> pr "ERR\n"
  | Some ts ->
      (match parse_regex ts with
       | Some (r, []) -> pr "OK %s\n" (sexp_of_regex r)
       | _ -> pr "ERR\n")

(* ---------- certificates on dumped automata (implementation's or model's own dump) ---------- *)
(* input: the lines of a dump between CHECKDUMP <id> and ENDCHECK. For every rule set / context
   block: nfa_targets_ok_b, nfa_ranges_wf_b, dfa_wf_b, dfa_closed_b; for the BACKTRACK DFA:
   flags_sound_b. The soundness theorems (ClosedChecker.dfa_closed_b_sound, props/C02.v) then
   apply to exactly these automata. *)
let nats_of s = if s = "-" then [] else List.map (fun x -> nat_of_int (int_of_string x)) (String.split_on_char ',' s)

let parse_acc_list (s : string) : accval list =
  if s = "-" then [] else
  List.map (fun item ->
    let (v, ctx) = match String.index_opt item '@' with
      | Some i -> (String.sub item 0 i, Some (nat_of_int (int_of_string (String.sub item (i + 1) (String.length item - i - 1)))))
      | None -> (item, None) in
    ((if v = "u" then O else nat_of_int (int_of_string v)), ctx)) (String.split_on_char ',' s)

(* ---- isomorphism between the model's program and the program built from the implementation's dump.
   The search below is untrusted; its result is verified by the extracted, proved-sound ProgIso.prog_iso_b. ---- *)
exception No_iso of string

let find_iso_gen (n : int) (succ_pairs : int -> int -> (int * int) list) (seeds : (int * int) list) : nat list =
  (* succ_pairs s s' : corresponding targets of corresponding states, or raises No_iso *)
  let f = Array.make n (-1) and used = Array.make n false in
  let todo = Queue.create () in
  let link a b =
    if a < 0 || a >= n || b < 0 || b >= n then raise (No_iso "target out of range");
    if f.(a) = -1 then begin
      if used.(b) then raise (No_iso "not injective");
      f.(a) <- b; used.(b) <- true; Queue.add (a, b) todo
    end else if f.(a) <> b then raise (No_iso "targets do not correspond") in
  List.iter (fun (a, b) -> link a b) seeds;
  while not (Queue.is_empty todo) do
    let (a, b) = Queue.pop todo in
    List.iter (fun (x, y) -> link x y) (succ_pairs a b)
  done;
  (* states that were not reached (none in practice) get the unused numbers in order *)
  let free = ref (List.filter (fun i -> not used.(i)) (List.init n (fun i -> i))) in
  Array.iteri (fun i v -> if v = -1 then (match !free with x :: r -> f.(i) <- x; free := r | [] -> ())) f;
  List.map nat_of_int (Array.to_list f)

let trans_pairs (t : trans option) (t' : trans option) : (int * int) list =
  match t, t' with
  | Some (TGoto a), Some (TGoto b) -> [(int_of_nat a, int_of_nat b)]
  | Some (TAccept _), Some (TAccept _) | None, None -> []
  | _ -> raise (No_iso "transition kinds differ")

let find_prog_iso (p : program) (p' : program) (seeds : (int * int) list) : nat list =
  let a = Array.of_list p.p_states and a' = Array.of_list p'.p_states in
  if Array.length a <> Array.length a' then raise (No_iso "number of states");
  find_iso_gen (Array.length a) (fun s s' ->
    let st = a.(s) and st' = a'.(s') in
    if List.length st.d_chars <> List.length st'.d_chars || List.length st.d_ranges <> List.length st'.d_ranges
    then raise (No_iso "transition counts");
    List.concat (List.map2 (fun (c, t) (c', t') ->
        if c <> c' then raise (No_iso "character keys"); trans_pairs (Some t) (Some t')) st.d_chars st'.d_chars)
    @ List.concat (List.map2 (fun r r' ->
        if r.r_lo <> r'.r_lo || r.r_hi <> r'.r_hi then raise (No_iso "range bounds");
        trans_pairs (Some r.r_val) (Some r'.r_val)) st.d_ranges st'.d_ranges)
    @ trans_pairs st.d_any st'.d_any @ trans_pairs st.d_eoi st'.d_eoi) seeds

let find_ctx_iso (d : nat dfa) (d' : nat dfa) : nat list =
  let a = Array.of_list d and a' = Array.of_list d' in
  if Array.length a <> Array.length a' then raise (No_iso "number of context states");
  let opt x y = match x, y with
    | Some u, Some v -> [(int_of_nat u, int_of_nat v)] | None, None -> [] | _ -> raise (No_iso "context transition kinds") in
  find_iso_gen (Array.length a) (fun s s' ->
    let st = a.(s) and st' = a'.(s') in
    if List.length st.d_chars <> List.length st'.d_chars || List.length st.d_ranges <> List.length st'.d_ranges
    then raise (No_iso "context transition counts");
    List.map2 (fun (c, t) (c', t') -> if c <> c' then raise (No_iso "context character keys");
                (int_of_nat t, int_of_nat t')) st.d_chars st'.d_chars
    @ List.map2 (fun r r' -> if r.r_lo <> r'.r_lo || r.r_hi <> r'.r_hi then raise (No_iso "context range bounds");
                  (int_of_nat r.r_val, int_of_nat r'.r_val)) st.d_ranges st'.d_ranges
    @ opt st.d_any st'.d_any @ opt st.d_eoi st'.d_eoi) [(0, 0)]

let check_dump (id : string) (lines : string list) =
  let arr = Array.of_list lines in
  let n = Array.length arr in
  let i = ref 0 in
  let words s = List.filter (fun x -> x <> "") (String.split_on_char ' ' s) in
  let parse_nfa () : nfa =
    let cnt = int_of_string (List.nth (words arr.(!i)) 1) in
    incr i;
    let states = ref [] in
    let cur = ref None in
    let flush () = match !cur with Some st -> states := st :: !states | None -> () in
    let continue = ref true in
    while !continue && !i < n do
      let w = words arr.(!i) in
      (match w with
       | "S" :: _ :: v :: ctx :: _ ->
           flush ();
           let acc = if v = "-" then None else
             Some ((if v = "u" then O else nat_of_int (int_of_string v)),
                   (if ctx = "-" then None else Some (nat_of_int (int_of_string ctx)))) in
           cur := Some { n_chars = []; n_ranges = []; n_eps = []; n_any = []; n_eoi = []; n_acc = acc };
           incr i
       | ["e"; t] -> (match !cur with Some st -> cur := Some { st with n_eps = nats_of t } | None -> ()); incr i
       | ["c"; c; t] -> (match !cur with Some st -> cur := Some { st with n_chars = st.n_chars @ [(n_of_int (int_of_string c), nats_of t)] } | None -> ()); incr i
       | ["r"; lo; hi; t] -> (match !cur with Some st -> cur := Some { st with n_ranges = st.n_ranges @ [{ r_lo = n_of_int (int_of_string lo); r_hi = n_of_int (int_of_string hi); r_val = nats_of t }] } | None -> ()); incr i
       | ["a"; t] -> (match !cur with Some st -> cur := Some { st with n_any = nats_of t } | None -> ()); incr i
       | ["z"; t] -> (match !cur with Some st -> cur := Some { st with n_eoi = nats_of t } | None -> ()); incr i
       | _ -> continue := false)
    done;
    flush ();
    let res = List.rev !states in
    if List.length res <> cnt then failwith "nfa count";
    res in
  let parse_map () : state_map =
    let cnt = int_of_string (List.nth (words arr.(!i)) 1) in
    incr i;
    let m = ref [] in
    for _ = 1 to cnt do
      (match words arr.(!i) with
       | ["M"; d; s] -> m := (nats_of s, nat_of_int (int_of_string d)) :: !m
       | _ -> failwith "map line");
      incr i
    done;
    List.rev !m in
  let tgt s = nat_of_int (int_of_string (String.sub s 1 (String.length s - 1))) in
  let parse_dfa () : nat dfa =
    let cnt = int_of_string (List.nth (words arr.(!i)) 1) in
    incr i;
    let states = ref [] in
    let cur = ref None in
    let flush () = match !cur with Some st -> states := st :: !states | None -> () in
    let continue = ref true in
    while !continue && !i < n do
      let w = words arr.(!i) in
      (match w with
       | "S" :: _ :: kvs ->
           flush ();
           let kv k = let p = k ^ "=" in
             let x = List.find (fun s -> String.length s >= String.length p && String.sub s 0 (String.length p) = p) kvs in
             String.sub x (String.length p) (String.length x - String.length p) in
           cur := Some { d_init = (kv "init" = "1"); d_chars = []; d_ranges = []; d_any = None; d_eoi = None;
                         d_acc = parse_acc_list (kv "acc"); d_preds = nats_of (kv "preds"); d_bt = (kv "bt" = "1") };
           incr i
       | ["c"; c; t] -> (match !cur with Some st -> cur := Some { st with d_chars = st.d_chars @ [(n_of_int (int_of_string c), tgt t)] } | None -> ()); incr i
       | ["r"; lo; hi; t] -> (match !cur with Some st -> cur := Some { st with d_ranges = st.d_ranges @ [{ r_lo = n_of_int (int_of_string lo); r_hi = n_of_int (int_of_string hi); r_val = tgt t }] } | None -> ()); incr i
       | ["a"; t] -> (match !cur with Some st -> cur := Some { st with d_any = Some (tgt t) } | None -> ()); incr i
       | ["z"; t] -> (match !cur with Some st -> cur := Some { st with d_eoi = Some (tgt t) } | None -> ()); incr i
       | _ -> continue := false)
    done;
    flush ();
    let res = List.rev !states in
    if List.length res <> cnt then failwith "dfa count";
    res in
  let ttgt s : trans =
    if String.length s > 1 && s.[0] = 'A' then TAccept (parse_acc_list (String.sub s 2 (String.length s - 3)))
    else TGoto (tgt s) in
  let parse_dfa_t () : trans dfa =
    let cnt = int_of_string (List.nth (words arr.(!i)) 1) in
    incr i;
    let states = ref [] in
    let cur = ref None in
    let flush () = match !cur with Some st -> states := st :: !states | None -> () in
    let continue = ref true in
    while !continue && !i < n do
      let w = words arr.(!i) in
      (match w with
       | "S" :: _ :: kvs ->
           flush ();
           let kv k = let p = k ^ "=" in
             let x = List.find (fun s -> String.length s >= String.length p && String.sub s 0 (String.length p) = p) kvs in
             String.sub x (String.length p) (String.length x - String.length p) in
           cur := Some { d_init = (kv "init" = "1"); d_chars = []; d_ranges = []; d_any = None; d_eoi = None;
                         d_acc = parse_acc_list (kv "acc"); d_preds = nats_of (kv "preds"); d_bt = (kv "bt" = "1") };
           incr i
       | ["c"; c; t] -> (match !cur with Some st -> cur := Some { st with d_chars = st.d_chars @ [(n_of_int (int_of_string c), ttgt t)] } | None -> ()); incr i
       | ["r"; lo; hi; t] -> (match !cur with Some st -> cur := Some { st with d_ranges = st.d_ranges @ [{ r_lo = n_of_int (int_of_string lo); r_hi = n_of_int (int_of_string hi); r_val = ttgt t }] } | None -> ()); incr i
       | ["a"; t] -> (match !cur with Some st -> cur := Some { st with d_any = Some (ttgt t) } | None -> ()); incr i
       | ["z"; t] -> (match !cur with Some st -> cur := Some { st with d_eoi = Some (ttgt t) } | None -> ()); incr i
       | _ -> continue := false)
    done;
    flush ();
    let res = List.rev !states in
    if List.length res <> cnt then failwith "dfa count";
    res in
  let ctx_dfas = ref [] and rs_names = ref [] in
  (* optional: the definition itself, so that the model's own program can be compared with the dumped one *)
  let model_def =
    let rec split acc inside = function
      | [] -> (List.rev acc, [])
      | "ENDMODELDEF" :: rest -> (List.rev acc, rest)
      | l :: rest -> if inside then split (l :: acc) true rest else split acc false rest in
    match lines with
    | "MODELDEF" :: rest -> let (dl, _) = split [] true rest in Some dl
    | _ -> None in
  pr "CHECKED %s\n" id;
  let b x = if x then 1 else 0 in
  (try
    while !i < n do
      let w = words arr.(!i) in
      (match w with
       | ("RSBEGIN" | "CTXBEGIN") :: _ ->
           let kind = List.hd w in
           incr i;
           let nfa = parse_nfa () in
           let m = parse_map () in
           let d = parse_dfa () in
           if kind = "CTXBEGIN" then ctx_dfas := d :: !ctx_dfas;
           pr "CERT %s targets=%d nranges=%d dranges=%d closed=%d shape=%d states=%d\n" kind
             (b (nfa_targets_ok_b nfa)) (b (nfa_ranges_wf_b nfa)) (b (dfa_wf_b d)) (b (dfa_closed_b nfa d m))
             (b (dfa_shape_ok_b d)) (List.length d)
       | "BACKTRACK" :: _ ->
           incr i;
           let d = parse_dfa () in
           pr "CERT FLAGS sound=%d states=%d\n" (b (flags_sound_b d)) (List.length d)
       | "SIMPLIFIED" :: _ ->
           (* the code the model's generator emits for the implementation's own simplified DFA, entry map and
              context automata: compared by harness/gencode.py with the code the macro really generated *)
           incr i;
           let d0 = parse_dfa_t () in
           let entries = ref [] in
           while !i < n do
             (match words arr.(!i) with
              | ["ENTRY"; nm; idx] -> entries := (nm, nat_of_int (int_of_string idx)) :: !entries
              | _ -> ());
             incr i
           done;
           let ordered = List.filter_map (fun nm ->
             match List.assoc_opt nm !entries with Some v -> Some (name_of_string nm, v) | None -> None) (List.rev !rs_names) in
           (match make_program mAX_GUARD_SIZE d0 ordered (List.rev !ctx_dfas) with
            | Panic t -> pr "GCODE PANIC %s\n" (tag_name t)
            | Ok p ->
                (* side conditions of GenCodeProofs (chars_nodup_b_sound, ctx_code_ok_b_sound) on these automata *)
                pr "CERT GENCODE charsok=%d ctxok=%d\n" (b (chars_nodup_b p)) (b (List.for_all ctx_code_ok_b p.p_ctxs));
                (* the dumped program is the model's program up to the names of states: checked by ProgIso.prog_iso_b,
                   so that impl_program_correct / impl_generated_code_correct apply to exactly this program *)
                (match model_def with
                 | None -> ()
                 | Some dl ->
                     (try
                        let (d, _, _) = parse_def_lines dl in
                        (match model_compile d with
                         | Panic t -> pr "CERT ISO progiso=0 reason=model-panic-%s\n" (tag_name t)
                         | Ok c ->
                             let pm = c.c_program in
                             let seeds = (0, 0) :: List.filter_map (fun (nm, v) ->
                               match List.assoc_opt (string_of_name nm) !entries with
                               | Some v' -> Some (int_of_nat v, int_of_nat v') | None -> None) c.c_entries in
                             let fl = find_prog_iso pm p seeds in
                             let gl = (if List.length pm.p_ctxs <> List.length p.p_ctxs then raise (No_iso "number of contexts");
                                       List.map2 find_ctx_iso pm.p_ctxs p.p_ctxs) in
                             pr "CERT ISO progiso=%d identity=%d\n" (b (prog_iso_b fl gl pm p))
                               (b (List.for_all2 (fun x i -> int_of_nat x = i) fl (List.init (List.length fl) (fun i -> i)))))
                      with No_iso m -> pr "CERT ISO progiso=0 reason=%s\n" (String.map (fun ch -> if ch = ' ' then '-' else ch) m)
                         | Invalid_argument m -> pr "CERT ISO progiso=0 reason=%s\n" (String.map (fun ch -> if ch = ' ' then '-' else ch) m)));
                List.iter (fun (nm, v) -> pr "GSWITCH %s %d\n" (string_of_name nm) (int_of_nat v)) p.p_switch;
                print_gencode p)
       | "RULESET" :: nm :: _ -> (if nm <> "-" then rs_names := nm :: !rs_names); incr i
       | _ -> incr i)
    done
  with Failure m -> pr "CERT ERROR %s\n" m | Not_found -> pr "CERT ERROR notfound\n" | Invalid_argument m -> pr "CERT ERROR %s\n" m);
  pr "ENDCHECKED\n"

(* ---------- definition-level token streams ---------- *)
(* as parse_toks, plus `{` `}` for a rule-set body; keywords are identifiers (ilet, irule, itype, iError) *)
let parse_dtoks (s : string) : dtok list =
  let words = List.filter (fun x -> x <> "") (String.split_on_char ' ' s) in
  (* split at top-level braces *)
  let rec go ws (cur : string list) (acc : dtok list) : dtok list =
    let flush () = List.map (fun t -> DT t) (parse_toks (String.concat " " (List.rev cur))) in
    match ws with
    | [] -> acc @ flush ()
    | "{" :: rest ->
        let rec body ws depth inner =
          (match ws with
           | [] -> failwith "unclosed brace"
           | "}" :: r when depth = 0 -> (List.rev inner, r)
           | "{" :: r -> body r (depth + 1) ("{" :: inner)
           | "}" :: r -> body r (depth - 1) ("}" :: inner)
           | w :: r -> body r depth (w :: inner)) in
        let (inner, rest') = body rest 0 [] in
        go rest' [] (acc @ flush () @ [DBrace (parse_toks (String.concat " " inner))])
    | "}" :: _ -> failwith "unbalanced brace"
    | w :: rest -> go rest (w :: cur) acc in
  go words [] []

let sexp_of_rob (x : rob) : string =
  match x with
  | RBBinding (v, re) -> Printf.sprintf "(let %s %s)" (string_of_name v) (sexp_of_regex re)
  | RBRule r -> Printf.sprintf "(rule %d %s %s)" (int_of_nat r.ru_act) (sexp_of_regex r.ru_re)
                  (match r.ru_ctx with None -> "-" | Some c -> sexp_of_regex c)

let run_dtoks (s : string) =
  match (try Some (parse_dtoks s) with Failure _ -> None) with
  | None -> pr "ERR\n"
  | Some ds ->
      (match parse_def ds with
       | None -> pr "ERR\n"
       | Some tops ->
           let d = number_tops O tops in
           pr "OK %s\n" (String.concat "" (List.map (function
             | TErrorType -> "(errtype)"
             | TRob x -> sexp_of_rob x
             | TRuleSet (nm, rules) ->
                 "(ruleset " ^ string_of_name nm ^ String.concat "" (List.map (fun r -> " " ^ sexp_of_rob r) rules) ^ ")") d)))

let () =
  let artifacts = ref true in
  let file = ref "" in
  Array.iteri (fun i a -> if i > 0 then (if a = "--no-artifacts" then artifacts := false else file := a)) Sys.argv;
  let ic = if !file = "" then stdin else open_in !file in
  let cur = ref None in
  let chk = ref None in
  (try
    while true do
      let line = input_line ic in
      let (cmd, rest) = split_first line in
      match !cur with
      | Some (id, lines) ->
          if cmd = "ENDDEF" then begin
            (try process_def id (List.rev lines) ~artifacts:!artifacts
             with Failure m -> pr "DEF %s\nDRIVER-ERROR %s\nENDDEF\n" id m);
            cur := None
          end else cur := Some (id, line :: lines)
      | None when (match !chk with Some _ -> true | None -> false) ->
          (match !chk with
           | Some (id, lines) ->
               if cmd = "ENDCHECK" then (check_dump id (List.rev lines); chk := None)
               else chk := Some (id, line :: lines)
           | None -> ())
      | None ->
          (match cmd with
           | "CHECKDUMP" -> chk := Some (rest, [])
           | "DEF" -> cur := Some (rest, [])
           | "RM" -> run_rm rest
           | "R2M" -> run_r2m rest
           | "TOKS" -> run_toks rest
           | "DTOKS" -> run_dtoks rest
           | "GEN" ->
               let bounds = List.filter (fun x -> x <> "") (String.split_on_char ' ' rest)
                            |> List.map (fun x -> n_of_int (int_of_string x)) in
               pr "%s\n" (fmt_pairs (model_generate bounds))
           | "GENTABLE" ->
               (match lookup_builtin (name_of_string rest) oracle_table with
                | Some t -> pr "%s\n" (fmt_pairs (model_generate_table t))
                | None -> pr "UNKNOWN\n")
           | "" -> ()
           | _ -> pr "UNKNOWN-COMMAND %s\n" cmd)
    done
  with End_of_file -> ())
