(* Extraction of the executable model. ExtrOcamlBasic only: bool, option, unit, list, prod,
   sumbool become OCaml's; nat, N, positive stay the extracted inductive types. *)
From Coq Require Import ExtrOcamlBasic.
From LexVerif Require Import Base CharClass RangeMap Regex Spec SpecExec LexSpec Nfa Dfa NfaToDfa
     Codegen Runtime GenCode GenCodeChecks ProgIso Driver SpecDef Harness CharGen Instance Parser DefParser NfaSem ClosedChecker RulesetSemProofs.
From LexVerif.Gen Require Import GenTables GenConsts GenOracle.
Extraction Language OCaml.
Extraction "lexmodel.ml"
  model_hyps model_certs model_compile model_new model_next spec_rulesets spec_wf spec_new spec_next_inst
  rm_insert rm_insert_ranges rm_remove_ranges model_r2m model_generate model_generate_table
  builtin_table oracle_table agree_on_scalars first_difference pairs_wf compiled_member
  binary_search guard_chain in_pairs width_of dmatch
  parse_regex print_re dfa_closed_b nfa_targets_ok_b nfa_ranges_wf_b dfa_wf_b flags_sound_b dfa_shape_ok_b parse_def number_tops gen_program make_program MAX_GUARD_SIZE chars_nodup_b ctx_code_ok_b prog_iso_b.
