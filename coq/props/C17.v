(* C17 Ill-formed definitions are rejected at expansion time: every class of static violation,
   at any position, makes the model of lexer() return Panic (is_ok = false). *)
From LexVerif Require Import Base CharClass RangeMap Regex Parser ParserProofs Spec Nfa Dfa NfaToDfa Codegen Driver DriverProofs DefParser DefParserProofs.

Theorem c17_mixed : forall benv mg d, mixed d = true -> compile benv mg d = Panic TagMixedRules.
Proof. exact reject_mixed. Qed.

Theorem c17_dup_error_type : forall benv mg pre mid post,
  is_ok (compile benv mg (pre ++ TErrorType :: mid ++ TErrorType :: post)) = false.
Proof. exact reject_dup_error_type. Qed.

Theorem c17_dup_top_var : forall benv mg pre mid post v r1 r2,
  is_ok (compile benv mg (pre ++ TRob (RBBinding v r1) :: mid ++ TRob (RBBinding v r2) :: post)) = false.
Proof. exact reject_dup_top_var. Qed.

Theorem c17_dup_local_var : forall benv mg pre post nm rpre rmid rpost v r1 r2,
  is_ok (compile benv mg (pre ++ TRuleSet nm (rpre ++ RBBinding v r1 :: rmid ++ RBBinding v r2 :: rpost) :: post)) = false.
Proof. exact reject_dup_local_var. Qed.

Theorem c17_shadow_top_var : forall benv mg pre mid post nm rpre rpost v r1 r2,
  is_ok (compile benv mg (pre ++ TRob (RBBinding v r1) :: mid ++ TRuleSet nm (rpre ++ RBBinding v r2 :: rpost) :: post)) = false.
Proof. exact reject_shadow_top_var. Qed.

Theorem c17_first_not_init : forall benv mg pre post nm rules,
  (forall t, In t pre -> match t with TRuleSet _ _ => False | _ => True end) ->
  name_eqb nm name_Init = false ->
  is_ok (compile benv mg (pre ++ TRuleSet nm rules :: post)) = false.
Proof. exact reject_first_not_init. Qed.

Theorem c17_dup_ruleset : forall benv mg pre mid post nm rules1 rules2,
  is_ok (compile benv mg (pre ++ TRuleSet nm rules1 :: mid ++ TRuleSet nm rules2 :: post)) = false.
Proof. exact reject_dup_ruleset. Qed.

Theorem c17_unbound_var_unnamed : forall benv mg pre post r v,
  (mentions_var v (ru_re r) = true \/ exists c, ru_ctx r = Some c /\ mentions_var v c = true) ->
  (forall r', ~ In (TRob (RBBinding v r')) pre) ->
  is_ok (compile benv mg (pre ++ TRob (RBRule r) :: post)) = false.
Proof. exact reject_unbound_var_unnamed. Qed.

Theorem c17_unbound_var_ruleset : forall benv mg pre post nm rpre rpost r v,
  (mentions_var v (ru_re r) = true \/ exists c, ru_ctx r = Some c /\ mentions_var v c = true) ->
  (forall r', ~ In (TRob (RBBinding v r')) pre) -> (forall r', ~ In (RBBinding v r') rpre) ->
  is_ok (compile benv mg (pre ++ TRuleSet nm (rpre ++ RBRule r :: rpost) :: post)) = false.
Proof. exact reject_unbound_var_ruleset. Qed.

Theorem c17_unknown_builtin_unnamed : forall benv mg pre post r n,
  lookup_builtin n benv = None ->
  (mentions_builtin n (ru_re r) = true \/ exists c, ru_ctx r = Some c /\ mentions_builtin n c = true) ->
  is_ok (compile benv mg (pre ++ TRob (RBRule r) :: post)) = false.
Proof. exact reject_unknown_builtin_unnamed. Qed.

Theorem c17_unknown_builtin_ruleset : forall benv mg pre post nm rpre rpost r n,
  lookup_builtin n benv = None ->
  (mentions_builtin n (ru_re r) = true \/ exists c, ru_ctx r = Some c /\ mentions_builtin n c = true) ->
  is_ok (compile benv mg (pre ++ TRuleSet nm (rpre ++ RBRule r :: rpost) :: post)) = false.
Proof. exact reject_unknown_builtin_ruleset. Qed.

Theorem c17_diff_non_class_unnamed : forall benv mg pre post r a b,
  closed (ru_re r) = true -> subterm (RDiff a b) (ru_re r) ->
  (is_class benv a = false \/ is_class benv b = false) ->
  is_ok (compile benv mg (pre ++ TRob (RBRule r) :: post)) = false.
Proof. exact reject_diff_non_class_unnamed. Qed.

Theorem c17_diff_non_class_ruleset : forall benv mg pre post nm rpre rpost r a b,
  closed (ru_re r) = true -> subterm (RDiff a b) (ru_re r) ->
  (is_class benv a = false \/ is_class benv b = false) ->
  is_ok (compile benv mg (pre ++ TRuleSet nm (rpre ++ RBRule r :: rpost) :: post)) = false.
Proof. exact reject_diff_non_class_ruleset. Qed.

(* Full strength ("at any position in the definition") is refuted on the faithful model: a
   violation inside a `let` that no rule uses is not rejected (variables are looked up lazily).
   This witness, replayed on the real macro, is the known finding of C17. *)
Theorem c17_unused_let_refuted :
  exists benv mg d v,
    (exists r, In (TRob (RBBinding [120%N] r)) d /\ mentions_var v r = true /\
               (forall r', ~ In (TRob (RBBinding v r')) d))
    /\ is_ok (compile benv mg d) = true.
Proof. exact unused_let_not_rejected. Qed.

(* ---- malformed syntax: the model of the definition parser rejects ---- *)
Theorem c17_missing_comma : forall r k rest, eoi_safe' r = true ->
  k <> P_COMMA -> k <> P_EQ -> k <> P_FATARROW -> k <> P_GT ->
  forall fuel, parse_fuel (print_re 0 r ++ TOther k :: rest) <= fuel ->
  parse_rob fuel (print_re 0 r ++ TOther k :: rest) = None.
Proof. exact reject_missing_comma. Qed.

Theorem c17_unknown_keyword : forall fuel n kw rest,
  name_eqb kw kw_let = false -> name_eqb kw kw_type = false -> name_eqb kw kw_rule = false ->
  parse_tops fuel (S n) (DT (TIdent kw) :: rest) = None.
Proof. exact reject_unknown_keyword. Qed.

Theorem c17_let_without_eq : forall fuel v t rest, t <> TOther P_EQ ->
  parse_rob fuel (TIdent kw_let :: TIdent v :: t :: rest) = None.
Proof. exact reject_let_without_eq. Qed.

Theorem c17_let_without_semi : forall fuel v r k rest, eoi_safe' r = true -> k <> P_SEMI ->
  parse_fuel (print_re 0 r ++ TOther k :: rest) <= fuel ->
  parse_rob fuel (TIdent kw_let :: TIdent v :: TOther P_EQ :: print_re 0 r ++ TOther k :: rest) = None.
Proof. exact reject_let_without_semi. Qed.

(* a malformed item anywhere inside a rule set makes the whole rule set (hence the definition) fail *)
Theorem c17_malformed_in_body : forall good bad fuel n, forallb prob_ok good = true ->
  parse_fuel (flat_map print_rob good ++ bad) <= fuel ->
  parse_rob fuel bad = None -> bad <> [] ->
  parse_robs fuel n (flat_map print_rob good ++ bad) = None.
Proof. exact reject_in_body. Qed.

Print Assumptions c17_mixed.
Print Assumptions c17_dup_error_type.
Print Assumptions c17_dup_top_var.
Print Assumptions c17_dup_local_var.
Print Assumptions c17_shadow_top_var.
Print Assumptions c17_first_not_init.
Print Assumptions c17_dup_ruleset.
Print Assumptions c17_unbound_var_unnamed.
Print Assumptions c17_unbound_var_ruleset.
Print Assumptions c17_unknown_builtin_unnamed.
Print Assumptions c17_unknown_builtin_ruleset.
Print Assumptions c17_diff_non_class_unnamed.
Print Assumptions c17_diff_non_class_ruleset.
Print Assumptions c17_unused_let_refuted.
Print Assumptions c17_missing_comma.
Print Assumptions c17_unknown_keyword.
Print Assumptions c17_let_without_eq.
Print Assumptions c17_let_without_semi.
Print Assumptions c17_malformed_in_body.
