(* C03 Rule sets are isolated and entered only by explicit switch or failure reset.
   L6: however states are dropped (simplify) or inlined (code generation), the number a `switch`
   stores selects the arm generated for the initial state of the named rule set's own DFA. *)
From LexVerif Require Import Base CharClass RangeMap Regex Nfa Dfa Codegen DispatchProofs.

(* add_dfa: the appended rule set's states keep their content, shifted by the current length;
   the returned entry is that length; earlier states are untouched *)
Theorem c03_add_dfa : forall (d other : dfa nat) s,
  s < length other ->
  dget (fst (add_dfa d other)) (length d + s) = shift_state (length d) (dget other s) /\
  snd (add_dfa d other) = length d /\
  (forall s', s' < length d -> dget (fst (add_dfa d other)) s' = dget d s').
Proof. exact add_dfa_index. Qed.

(* simplify: a kept state s ends up at index s - (number of removed states below it) *)
Theorem c03_simplify_index : forall (d : dfa nat) entries d' entries' s,
  simplify d entries = Ok (d', entries') -> s < length d -> set_mem s (empty_states d) = false ->
  let i := s - removed_below (empty_states d) s in
  i < length d' /\ simplify_state d (empty_states d) (dget d s) = Ok (dget d' i).
Proof. exact simplify_index. Qed.

Theorem c03_simplify_entries : forall (d : dfa nat) entries d' entries' nm s,
  simplify d entries = Ok (d', entries') -> In (nm, s) entries ->
  In (nm, s - removed_below (empty_states d) s) entries'.
Proof. exact simplify_entries. Qed.

(* code generation: the value stored for a non-inlined state dispatches to exactly its arm,
   whatever the number and position of inlined states, and the wildcard arm *)
Theorem c03_dispatch : forall (d : dfa trans) s,
  init_not_inlined d -> s < length d -> set_mem s (inlined_states d) = false ->
  arm_lookup (arms d) (renumber (inlined_states d) s) = Some s.
Proof. exact dispatch_correct. Qed.

Theorem c03_renumber_injective : forall (d : dfa trans) s t,
  s < length d -> t < length d ->
  set_mem s (inlined_states d) = false -> set_mem t (inlined_states d) = false ->
  renumber (inlined_states d) s = renumber (inlined_states d) t -> s = t.
Proof. exact renumber_injective. Qed.

Print Assumptions c03_add_dfa.
Print Assumptions c03_simplify_index.
Print Assumptions c03_simplify_entries.
Print Assumptions c03_dispatch.
Print Assumptions c03_renumber_injective.
