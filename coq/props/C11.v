(* C11 Character-class algebra is exact at every code point.
   Only statements, closed by `exact`, with their assumptions printed. *)
From LexVerif Require Import Base CharClass CharClassProofs RangeMap RangeMapProofs Regex Spec Nfa
     ClassAlgProofs Codegen.
From LexVerif.Gen Require Import GenTables.
From Coq Require Import ZifyBool ZifyN.

(* --- the range map (L1): every operation preserves well-formedness (sorted, disjoint, no
       inverted piece) and has its pointwise meaning, for all maps and arguments --- *)
Theorem c11_insert_wf : forall (A : Type) (merge : A -> A -> A) (rs : rmap A) lo hi v,
  wf rs = true -> (lo <= hi)%N -> wf (insert merge rs lo hi v) = true.
Proof. exact insert_wf. Qed.

Theorem c11_insert_lookup : forall (A : Type) (merge : A -> A -> A) (rs : rmap A) lo hi v c,
  wf rs = true -> (lo <= hi)%N ->
  lookup (insert merge rs lo hi v) c =
  if ((lo <=? c)%N && (c <=? hi)%N)
  then Some (match lookup rs c with Some x => merge x v | None => v end)
  else lookup rs c.
Proof. exact insert_lookup. Qed.

Theorem c11_insert_ranges : forall (A : Type) (merge : A -> A -> A) (rs1 rs2 : rmap A),
  wf rs1 = true -> wf rs2 = true ->
  exists rs, insert_ranges merge rs1 rs2 = Some rs /\ wf rs = true /\
    forall c, lookup rs c =
      match lookup rs1 c, lookup rs2 c with
      | Some a, Some b => Some (merge a b)
      | Some a, None => Some a
      | None, Some b => Some b
      | None, None => None
      end.
Proof. exact insert_ranges_correct. Qed.

Theorem c11_remove_ranges : forall (A B : Type) (old : rmap A) (removed : rmap B),
  wf old = true -> wf removed = true ->
  exists rs, remove_ranges old removed = Some rs /\ wf rs = true /\
    forall c, lookup rs c = if covered removed c then None else lookup old c.
Proof. exact remove_ranges_correct. Qed.

(* --- class expressions (L2): the range map computed for a class expression contains exactly
       the code points of its reference meaning, and is well-formed --- *)
Theorem c11_class_exact : forall benv fuel b r m,
  benv_wf benv ->
  regex_to_range_map benv fuel b r = Ok m ->
  exists r', expand fuel b r = Ok r' /\ is_class benv r' = true /\
    (ranges_ok r' = true -> wf m = true /\ forall c, covered m c = cmem benv r' c).
Proof. exact r2m_exact. Qed.

Theorem c11_class_total : forall benv fuel r,
  closed r = true -> is_class benv r = true -> exists m, regex_to_range_map benv fuel [] r = Ok m.
Proof. exact r2m_total_on_classes. Qed.

(* no empty or inverted piece; end points are members *)
Theorem c11_pieces : forall benv fuel r m p,
  benv_wf benv -> closed r = true -> ranges_ok r = true ->
  regex_to_range_map benv fuel [] r = Ok m -> In p m ->
  (r_lo p <= r_hi p)%N /\ cmem benv r (r_lo p) = true /\ cmem benv r (r_hi p) = true.
Proof. exact r2m_pieces. Qed.

(* --- both generated lookup shapes agree with plain membership on well-formed pieces --- *)
Theorem c11_lookup_shapes : forall mg t c, pairs_wf t = true -> compiled_member mg t c = in_pairs t c.
Proof. exact compiled_member_in_pairs. Qed.

(* the tables of the current source tree are well-formed (regenerated on every run) *)
Lemma builtin_tables_wf_b : forallb (fun e => pairs_wf (snd e)) builtin_table = true.
Proof. vm_compute. reflexivity. Qed.

Theorem c11_builtin_tables_wf : benv_wf builtin_table.
Proof.
  intros n t H.
  assert (In (n, t) builtin_table -> pairs_wf t = true) as K.
  { intro Hin. pose proof builtin_tables_wf_b as F. rewrite forallb_forall in F. exact (F _ Hin). }
  apply K. clear K.
  revert H. generalize builtin_table. intro e. induction e as [|[m t'] e IH]; cbn [lookup_builtin].
  - discriminate.
  - destruct (name_eqb n m) eqn:E.
    + intro H. inversion H. subst t'. left.
      f_equal. clear -E. revert m E. induction n as [|x n IHn]; destruct m as [|y m]; cbn [name_eqb]; try discriminate.
      * reflexivity.
      * intro E. apply andb_true_iff in E. destruct E as [E1 E2]. apply N.eqb_eq in E1. subst y.
        f_equal. apply IHn. exact E2.
    + intro H. right. apply IH. exact H.
Qed.

(* A piece that starts or ends at a surrogate (full-strength "end points are scalar values" is
   refuted for the range map itself: `_ # '\u{D7FF}'` has the piece 0xD800..0x10FFFF) is shrunk by
   code generation to the chars it contains: *)
Theorem c11_endpoints_scalar_refuted :
  exists r m p, regex_to_range_map builtin_table 0 [] r = Ok m /\ In p m /\ is_scalar (r_lo p) = false.
Proof.
  exists (RDiff RAny (RChar 0xD7FF)).
  exists [mkRange 0%N 0xD7FE%N tt; mkRange 0xD800%N 0x10FFFF%N tt], (mkRange 0xD800%N 0x10FFFF%N tt).
  split; [vm_compute; reflexivity|]. split; [apply in_cons, in_eq|]. reflexivity.
Qed.

Theorem c11_range_chars : forall lo hi,
  (lo <= hi)%N -> (hi <= CHAR_MAX)%N ->
  match range_chars lo hi with
  | Some (a, b) => is_scalar a = true /\ is_scalar b = true /\ (a <= b)%N /\
                   forall c, is_scalar c = true -> in_pair (a, b) c = in_pair (lo, hi) c
  | None => forall c, is_scalar c = true -> in_pair (lo, hi) c = false
  end.
Proof.
  intros lo hi Hle Hmax.
  unfold range_chars, in_surrogates, in_pair, is_scalar, SURR_LO, SURR_HI, CHAR_MAX in *.
  cbn [fst snd].
  destruct ((55296 <=? lo)%N && (lo <=? 57343)%N) eqn:E1;
  destruct ((55296 <=? hi)%N && (hi <=? 57343)%N) eqn:E2;
  match goal with |- context [if (?a <? ?b)%N then None else _] => destruct (a <? b)%N eqn:E3 end;
  try match goal with |- context [if ?x then None else _] => destruct x eqn:E4 end;
  cbn [fst snd]; repeat split; intros; lia.
Qed.

Print Assumptions c11_insert_wf.
Print Assumptions c11_insert_lookup.
Print Assumptions c11_insert_ranges.
Print Assumptions c11_remove_ranges.
Print Assumptions c11_class_exact.
Print Assumptions c11_class_total.
Print Assumptions c11_pieces.
Print Assumptions c11_lookup_shapes.
Print Assumptions c11_builtin_tables_wf.
Print Assumptions c11_endpoints_scalar_refuted.
Print Assumptions c11_range_chars.
