(* C18 The table generator emits exact, maximal, sorted ranges for any predicate. *)
From LexVerif Require Import Base CharClass CharGen CharGenProofs.

Theorem c18_exact : forall f c,
  is_scalar c = true -> in_pairs (generate_char_fn_ranges f) c = f c.
Proof. exact generate_exact. Qed.

Theorem c18_sorted_disjoint : forall f, pairs_wf (generate_char_fn_ranges f) = true.
Proof. exact generate_wf. Qed.

Theorem c18_endpoints_scalar : forall f, all_scalar_endpoints (generate_char_fn_ranges f) = true.
Proof. exact generate_endpoints_scalar. Qed.

(* maximal: two consecutive ranges are separated by a scalar value (which fails the predicate),
   never only by surrogates or by nothing *)
Theorem c18_maximal : forall f, gaps_have_scalar (generate_char_fn_ranges f).
Proof. exact generate_maximal. Qed.

(* uniqueness: the generated list is THE list with these properties *)
Theorem c18_unique : forall f t,
  pairs_wf t = true -> all_scalar_endpoints t = true -> gaps_have_scalar t ->
  (forall c, is_scalar c = true -> in_pairs t c = f c) ->
  t = generate_char_fn_ranges f.
Proof. exact generate_unique. Qed.

Print Assumptions c18_exact.
Print Assumptions c18_sorted_disjoint.
Print Assumptions c18_endpoints_scalar.
Print Assumptions c18_maximal.
Print Assumptions c18_unique.
