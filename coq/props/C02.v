(* C02 Regex operators denote their documented languages.
   L3: the NFA built for a rule accepts exactly Spec.lang of the (variable-expanded) regex, and
   leaves the rules added before untouched. L4 (certificate form): any DFA that passes the
   boolean subset-construction check against that NFA accepts, after every word, exactly the
   rules whose NFA accepts it, in rule order. Interchangeability: Spec.lang equalities. *)
From LexVerif Require Import Base CharClass RangeMap Regex Spec Nfa ClassAlgProofs Dfa NfaToDfa NfaSem
     ThompsonProofs SubsetProofs ClosedChecker.

Theorem c02_nfa_lang : forall benv b n re ctx v n' re',
  benv_wf benv -> nfa_inv n ->
  expand_top b re = Ok re' -> leaves_wf benv re' = true ->
  add_regex benv b n re ctx v = Ok n' ->
  nfa_inv n' /\
  let acc := length n in
  n_acc (nget n' acc) = Some (v, ctx) /\
  (forall w, word_ok w -> (npath n' 0 w acc <-> lang benv re' w)) /\
  (forall s w, s < length n -> word_ok w -> (npath n' 0 w s <-> npath n 0 w s)) /\
  (forall s, s < length n -> n_acc (nget n' s) = n_acc (nget n s)) /\
  (forall s, length n < s -> s < length n' -> n_acc (nget n' s) = None).
Proof. exact add_regex_correct. Qed.

Theorem c02_nfa_new : nfa_inv nfa_new.
Proof. exact nfa_inv_new. Qed.

(* every state created for a rule can still reach its accepting state: a live DFA state means a
   viable prefix *)
Theorem c02_coaccessible : forall benv b n re ctx v n' re',
  benv_wf benv -> nfa_inv n ->
  expand_top b re = Ok re' -> leaves_wf benv re' = true -> classes_nonempty benv re' ->
  add_regex benv b n re ctx v = Ok n' ->
  forall s, length n <= s < length n' -> exists w, word_ok w /\ npath n' s w (length n).
Proof. exact add_regex_coaccessible. Qed.

(* subset automaton: what a DFA satisfying dfa_closed does on every word *)
Theorem c02_dfa_run : forall n d m, nfa_targets_ok n -> dfa_closed n d m -> 0 < length d ->
  forall w, match dfa_run d 0 w with
    | Some i => i < length d /\ exists S, label_of m i = Some S /\ S <> [] /\ S = set_of_list S
                          /\ (forall t, In t S <-> npath n 0 w t)
    | None => w <> [] /\ forall t, ~ npath n 0 w t
    end.
Proof. exact dfa_closed_run. Qed.

Theorem c02_dfa_accepts : forall n d m w i, nfa_targets_ok n -> dfa_closed n d m -> 0 < length d ->
  dfa_run d 0 w = Some i -> forall a, In a (d_acc (dget d i)) <-> naccepts n w a.
Proof. exact dfa_closed_accepting. Qed.

Theorem c02_dfa_acc_order : forall n d m w i S, dfa_closed n d m -> 0 < length d ->
  dfa_run d 0 w = Some i -> label_of m i = Some S ->
  d_acc (dget d i) = set_accepting n S /\ S = set_of_list S /\ (forall t, In t S <-> npath n 0 w t).
Proof. exact dfa_closed_acc_order. Qed.

(* the checker run on the implementation's dumped automata is sound *)
Theorem c02_checker_sound : forall n d m,
  nfa_targets_ok_b n = true -> nfa_ranges_wf_b n = true -> dfa_wf_b d = true ->
  dfa_closed_b n d m = true -> dfa_closed n d m.
Proof. exact dfa_closed_b_sound. Qed.

Theorem c02_checker_accepting : forall n d m, nfa_ranges_wf_b n = true -> dfa_wf_b d = true ->
  dfa_closed_b n d m = true -> 0 < length d -> forall w,
  match dfa_run d 0 w with
  | Some i => forall a, In a (d_acc (dget d i)) <-> naccepts n w a
  | None => forall a, ~ naccepts n w a end.
Proof. exact dfa_closed_b_accepting. Qed.

(* ---- interchangeable regexes: equalities of Spec.lang ---- *)
Section Interchange.
Variable benv : builtin_env.
Notation L := (lang benv).

Lemma star_app : forall r u v, L (RStar r) u -> L (RStar r) v -> L (RStar r) (u ++ v).
Proof.
  intros r u v Hu. remember (RStar r) as s eqn:E. revert E.
  induction Hu; intros E Hv; try discriminate.
  - exact Hv.
  - inversion E. subst. rewrite <- app_assoc. apply LStarS; [assumption|]. apply IHHu2; [reflexivity|exact Hv].
Qed.

Theorem c02_plus_unfold : forall r w, L (RPlus r) w <-> L (RCat r (RStar r)) w.
Proof.
  intros r w. split; intro H; inversion H; subst.
  - apply LCat; assumption.
  - apply LPlus; assumption.
Qed.

Theorem c02_or_comm : forall a b w, L (ROr a b) w <-> L (ROr b a) w.
Proof.
  intros a b w. split; intro H; inversion H; subst; (apply LOrL; assumption) || (apply LOrR; assumption).
Qed.

Theorem c02_string_is_concat : forall c s w,
  L (RString (c :: s)) w <-> L (RCat (RChar c) (RString s)) w.
Proof.
  intros c s w. split; intro H.
  - inversion H. subst. change (map Chr (c :: s)) with ([Chr c] ++ map Chr s).
    apply LCat; constructor.
  - inversion H as [| | | | | | | | | r1 r2 u v H1 H2 | | | | |]. subst.
    inversion H1. inversion H2. subst. apply (LString benv (c :: s)).
Qed.

Theorem c02_opt_unfold : forall r w, L (ROpt r) w <-> (w = [] \/ L r w).
Proof.
  intros r w. split; intro H.
  - inversion H; subst; auto.
  - destruct H as [H|H]; [subst; constructor | apply LOpt1; exact H].
Qed.

Theorem c02_star_unfold : forall r w, L (RStar r) w <-> (w = [] \/ L (RPlus r) w).
Proof.
  intros r w. split; intro H.
  - inversion H; subst; [left; reflexivity | right; apply LPlus; assumption].
  - destruct H as [H|H]; [subst; constructor | inversion H; subst; apply LStarS; assumption].
Qed.
End Interchange.

(* a variable stands for its definition: expansion is what both the model of add_re and the
   reference semantics use (c02_nfa_lang is stated on the expanded regex) *)

Print Assumptions c02_nfa_lang.
Print Assumptions c02_nfa_new.
Print Assumptions c02_coaccessible.
Print Assumptions c02_dfa_run.
Print Assumptions c02_dfa_accepts.
Print Assumptions c02_dfa_acc_order.
Print Assumptions c02_checker_sound.
Print Assumptions c02_checker_accepting.
Print Assumptions c02_plus_unfold.
Print Assumptions c02_or_comm.
Print Assumptions c02_string_is_concat.
Print Assumptions c02_opt_unfold.
Print Assumptions c02_star_unfold.
