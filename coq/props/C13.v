(* C13 Built-in classes accept exactly the characters of their Rust predicates.
   GenTables (re-translated from char_ranges.rs / builtin.rs on every run) against GenOracle
   (truth tables of the Rust predicates from the independent enumerator), for every scalar value
   and both generated membership-test shapes. *)
From LexVerif Require Import Base CharClass CharClassProofs Regex.
From LexVerif.Gen Require Import GenTables GenOracle GenConsts.

(* one boolean decision over finite tables *)
Definition check_one (o : builtin_env) (e : name * pairs) : bool :=
  match lookup_builtin (fst e) o with
  | Some t => pairs_wf (snd e) && all_scalar_endpoints (snd e) && agree_on_scalars (snd e) t
  | None => false
  end.
Definition tables_check (b o : builtin_env) : bool :=
  (length b =? 20) && (length o =? 20) && forallb (check_one o) b.

(* evaluated by the kernel on the regenerated tables *)
Lemma tables_check_ok : tables_check builtin_table oracle_table = true.
Proof. vm_compute. reflexivity. Qed.

Section Generic.
Variables b o : builtin_env.
Hypothesis K : tables_check b o = true.

Lemma lookup_builtin_in : forall n e t, lookup_builtin n e = Some t -> exists m, In (m, t) e /\ name_eqb n m = true.
Proof.
  intros n e. induction e as [|[m t'] e IH]; cbn [lookup_builtin]; intros t H.
  - discriminate.
  - destruct (name_eqb n m) eqn:E.
    + inversion H. subst. exists m. split; [left; reflexivity | exact E].
    + destruct (IH _ H) as [m' [Hin Hm]]. exists m'. split; [right; exact Hin | exact Hm].
Qed.

Lemma name_eqb_eq : forall x y, name_eqb x y = true -> x = y.
Proof.
  induction x as [|a x IH]; destruct y as [|c y]; cbn [name_eqb]; try discriminate; intro H.
  - reflexivity.
  - apply andb_true_iff in H. destruct H as [H1 H2]. apply N.eqb_eq in H1. subst. f_equal. apply IH. exact H2.
Qed.

Lemma K_parts : length b = 20 /\ length o = 20 /\ forall e, In e b -> check_one o e = true.
Proof.
  unfold tables_check in K. apply andb_true_iff in K. destruct K as [K1 K2].
  apply andb_true_iff in K1. destruct K1 as [L1 L2]. apply Nat.eqb_eq in L1. apply Nat.eqb_eq in L2.
  rewrite forallb_forall in K2. auto.
Qed.

Lemma generic_exact : forall name tbl,
  lookup_builtin name b = Some tbl ->
  exists orc, lookup_builtin name o = Some orc /\
    forall c, is_scalar c = true ->
      (forall mg, compiled_member mg tbl c = in_pairs orc c) /\
      guard_chain tbl c = in_pairs orc c /\ binary_search tbl c = in_pairs orc c.
Proof.
  intros name tbl H.
  destruct (lookup_builtin_in _ _ _ H) as [m [Hin Hm]]. apply name_eqb_eq in Hm. subst m.
  destruct K_parts as [_ [_ Kall]]. specialize (Kall _ Hin). unfold check_one in Kall. cbn [fst snd] in Kall.
  destruct (lookup_builtin name o) as [t|] eqn:Eo; [|discriminate].
  apply andb_true_iff in Kall. destruct Kall as [K' Kagree]. apply andb_true_iff in K'. destruct K' as [Kwf _].
  exists t. split; [reflexivity|]. intros c Hc.
  pose proof (agree_on_scalars_sound _ _ Kagree c Hc) as A.
  repeat split.
  - intro mg. rewrite compiled_member_in_pairs by exact Kwf. exact A.
  - rewrite guard_chain_in_pairs. exact A.
  - rewrite binary_search_in_pairs by exact Kwf. exact A.
Qed.

Lemma generic_names : length b = 20 /\ length o = 20 /\
  forall e, In e b -> exists t, lookup_builtin (fst e) o = Some t.
Proof.
  destruct K_parts as [L1 [L2 Kall]]. repeat split; try assumption.
  intros e Hin. specialize (Kall _ Hin). unfold check_one in Kall.
  destruct (lookup_builtin (fst e) o) as [t|]; [exists t; reflexivity | discriminate].
Qed.

Lemma generic_endpoints : forall e, In e b -> all_scalar_endpoints (snd e) = true /\ pairs_wf (snd e) = true.
Proof.
  intros e Hin. destruct K_parts as [_ [_ Kall]]. specialize (Kall _ Hin). unfold check_one in Kall.
  destruct (lookup_builtin (fst e) o); [|discriminate].
  apply andb_true_iff in Kall. destruct Kall as [K' _]. apply andb_true_iff in K'. destruct K' as [A B]. auto.
Qed.
End Generic.

(* For each of the 20 names and every Unicode scalar value, the membership test the generated
   code performs - guard chain or binary-search table, for any threshold between them - gives
   the answer of the Rust predicate. *)
Theorem c13_builtin_exact : forall name tbl,
  lookup_builtin name builtin_table = Some tbl ->
  exists orc, lookup_builtin name oracle_table = Some orc /\
    forall c, is_scalar c = true ->
      (forall mg, compiled_member mg tbl c = in_pairs orc c) /\
      guard_chain tbl c = in_pairs orc c /\ binary_search tbl c = in_pairs orc c.
Proof. exact (generic_exact builtin_table oracle_table tables_check_ok). Qed.

(* all 20 documented names are present on both sides *)
Theorem c13_all_names : length builtin_table = 20 /\ length oracle_table = 20 /\
  forall e, In e builtin_table -> exists t, lookup_builtin (fst e) oracle_table = Some t.
Proof. exact (generic_names builtin_table oracle_table tables_check_ok). Qed.

(* the tables are sorted, disjoint, and have scalar end points (the macro converts them to char) *)
Theorem c13_tables_wf : forall e, In e builtin_table ->
  all_scalar_endpoints (snd e) = true /\ pairs_wf (snd e) = true.
Proof. exact (generic_endpoints builtin_table oracle_table tables_check_ok). Qed.

Print Assumptions c13_builtin_exact.
Print Assumptions c13_all_names.
Print Assumptions c13_tables_wf.
