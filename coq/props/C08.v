(* C08 After a failure the lexer resumes past the bad text, in Init, and stays there. *)
From LexVerif Require Import Base CharClass RangeMap Regex Spec SpecExec LexSpec Nfa Dfa NfaToDfa NfaSem Codegen
     Runtime ScanIface RulesetSem Driver SpecDef ClassAlgProofs RuntimeProofs RuntimeLemmas ScanOkProofs
     RulesetSemProofs LexSpecProofs LexSpecFacts SpecInvariants EndToEnd EndToEndModel Instance Harness
     GenCode GenCodeProofs GenCodeChecks ProgIso GenUtilProofs.
From LexVerif.Gen Require Import GenTables GenConsts GenUtil.

Theorem c08_state_after_failure : forall (benv : builtin_env) (width : N -> N) (tab_width : N) (T E U : Type)
    (rss : list (list crule)) (actions : nat -> action T E U) (s : sstate U) l s',
  spec_step benv width tab_width T E U rss actions s = SItem T E U (IInvalid l) s' ->
  l = s_mstart U s /\ s_rs U s' = 0 /\ s_user U s' = s_user U s /\
  s_mtext U s' = [] /\ s_mstart U s' = s_pos U s' /\
  exists n, s_rest U s' = skipn n (s_rest U s) /\
            s_pos U s' = advance_all width tab_width (s_pos U s) (firstn n (s_rest U s)) /\
            (s_rest U s <> [] -> 1 <= n).
Proof. exact spec_invalid_state. Qed.

(* ... and stays in Init: the rule set changes only by an action's switch or by a failure *)
Theorem c08_ruleset_changes : forall (benv : builtin_env) (width : N -> N) (tab_width : N) (T E U : Type)
    (rss : list (list crule)) (actions : nat -> action T E U) (s : sstate U),
  match spec_step benv width tab_width T E U rss actions s with
  | SItem _ _ _ _ s' | SCont _ _ _ s' | SEnd _ _ _ s' =>
      s_rs U s' = s_rs U s \/ s_rs U s' = 0 \/
      exists r k e v, select benv (nth (s_rs U s) rss []) (s_rest U s) = Some (r, (k, e)) /\
                      a_switch (actions (cr_act r) v (s_user U s)) = Some (s_rs U s')
  end.
Proof. exact spec_ruleset_change. Qed.

(* what is skipped: the longest viable prefix (declaratively) *)
Theorem c08_viable_prefix : forall (benv : builtin_env) rules w k ext,
  (forall r, In r rules -> rule_closed r) ->
  viable benv rules w = (k, ext) ->
  k <= length w /\
  (k = 0 \/ viable_prefix benv rules (firstn k w)) /\
  (forall k', k < k' <= length w -> ~ viable_prefix benv rules (firstn k' w)) /\
  (ext = true <-> extensible benv rules (firstn k w)).
Proof. exact viable_correct. Qed.

(* ------------------------------------------------------------------------------------------
   The run-time theorem (L7): for any program satisfying the scanner facts [scan_ok] (proved for
   every compiled definition whose automata pass the certificates: c08_compiled_scan_ok below),
   for ALL inputs of scalar values, user states and action functions, the generated next() and
   the reference semantics produce the same item and end in related states; iterated: the same
   stream. No fuel is exhausted and no Panic outcome (failed unwrap / index / slice) occurs. *)
Theorem c08_next_simulates :
  forall (benv : builtin_env) (width : N -> N) (tab_width : N) (T E U : Type) (prog : program)
         (rss : list (list crule)) (cidx : nat -> option nat) (entry : nat -> nat)
         (At : nat -> list N -> nat -> Prop) (actions : nat -> action T E U),
  scan_ok benv prog rss cidx entry At ->
  (forall (a : nat) (v : view) (u : U) (n : nat),
      a_switch (actions a v u) = Some n -> n < length (p_switch prog)) ->
  forall (l : lexer U) (s : sstate U) (fuel : positive),
  RuntimeProofs.sim T E U prog rss entry actions l s ->
  enough_fuel U fuel l ->
  exists fuel' : nat,
    match spec_next benv width tab_width T E U rss actions fuel' s with
    | Some (oi, s') =>
        exists l' : lexer U,
          next width tab_width T E U prog actions fuel l = (outcome_of T E oi, l') /\
          RuntimeProofs.sim T E U prog rss entry actions l' s'
    | None => False
    end.
Proof. exact next_simulates. Qed.

Theorem c08_stream :
  forall (benv : builtin_env) (width : N -> N) (tab_width : N) (T E U : Type) (prog : program)
         (rss : list (list crule)) (cidx : nat -> option nat) (entry : nat -> nat)
         (At : nat -> list N -> nat -> Prop) (actions : nat -> action T E U),
  scan_ok benv prog rss cidx entry At ->
  (forall (a : nat) (v : view) (u : U) (n : nat),
      a_switch (actions a v u) = Some n -> n < length (p_switch prog)) ->
  forall (whole : list N) (u : U) (with_str : bool) (n : nat) (fuel : positive),
  Forall (fun c : N => is_scalar c = true) whole ->
  (with_str = false -> RuntimeProofs.text_blind T E U actions) ->
  enough_fuel U fuel (lexer_new U whole u with_str) ->
  exists r : list (option (item T E)),
    spec_run benv width tab_width T E U rss actions n (s_init U whole u) r /\
    run_lexer width tab_width T E U prog actions n fuel (lexer_new U whole u with_str) =
    map (outcome_of T E) r.
Proof. exact lexer_stream_correct. Qed.

Theorem c08_compiled_scan_ok :
  forall (benv : builtin_env) (mg : nat) (d : def) (c : compiled) (rss : list (list crule))
         (cidx : nat -> option nat),
  compile benv mg d = Ok c ->
  length (c_rulesets c) = length rss ->
  (forall (k : nat) (ra : ruleset_art), nth_error (c_rulesets c) k = Some ra ->
      ruleset_sem benv (nth k rss []) cidx (ra_dfa ra)) ->
  (forall (k : nat) (r : crule), In r (nth k rss []) -> cidx (cr_act r) = None <-> cr_ctx r = None) ->
  (forall (k : nat) (r : crule) (i : nat) (cre : regex),
      In r (nth k rss []) -> cidx (cr_act r) = Some i -> cr_ctx r = Some cre ->
      exists ca : ctx_art, nth_error (c_ctxs c) i = Some ca /\ ctx_sem benv mg cre (ca_dfa ca)) ->
  (forall (k : nat) (r : crule), In r (nth k rss []) -> nullable (of_regex benv (cr_re r)) = false) ->
  scan_ok benv (c_program c) rss cidx (c_entry c) (c_At c).
Proof. exact compile_scan_ok_wit. Qed.

(* the per-rule-set facts follow from the Thompson theorem and the subset certificate *)
Theorem c08_ruleset_sem :
  forall (benv : builtin_env) (rules : list rob) (b : bindings) (ctxs0 : list ctx_art) (n : nfa)
         (ctxs : list ctx_art) (crules : list crule) (d : dfa nat) (m : state_map)
         (cidx : nat -> option nat),
  benv_wf benv ->
  compile_rules benv rules nfa_new b ctxs0 = Ok (n, ctxs) ->
  close_rules rules b = Ok crules ->
  Forall (fun r : crule => wf_crule benv r = true) crules ->
  Forall (fun r : crule => regex_chars_ok benv (cr_re r) = true) crules ->
  (forall (k : nat) (r : crule), nth_error crules k = Some r ->
      cidx (cr_act r) = nth k (ctx_indices (length ctxs0) crules) None) ->
  dfa_closed n d m -> 0 < length d -> dfa_shape_ok d -> ruleset_sem benv crules cidx d.
Proof. exact ruleset_sem_of_closed_wf_crule. Qed.

(* ------------------------------------------------------------------------------------------
   The generated code itself. GenCode.v describes the Rust code the macro emits as syntax trees
   (gen_arms: the arms of `match self.0.__state`, nested for inlined states) and says what running
   them does (gnext: one call of the generated next()). harness/gencode.py translates the token stream
   of the REAL macro into these trees on every run and compares them with gen_arms. Running the trees
   is running the interpreter of Runtime.v, call by call, with the same fuel; hence, for every compiled
   well-formed definition, the generated code produces the stream of the reference semantics. *)
Theorem c08_generated_next :
  forall (width : N -> N) (tab_width : N) (T E U : Type) (prog : program) (actions : nat -> action T E U)
         (arms : list (option nat * gcode)) (fuel : positive) (l : lexer U) (o : outcome T E) (l' : lexer U),
  chars_nodup prog ->
  gen_arms prog = Ok arms ->
  next width tab_width T E U prog actions fuel l = (o, l') ->
  o <> OPanic T E TagOutOfFuel ->
  gnext width tab_width T E U prog actions fuel arms l = (o, l').
Proof. exact gnext_correct. Qed.

Theorem c08_generated_code_stream :
  forall benv mg (width : N -> N) tab_width (T E U : Type) (d : def) c rss (actions : nat -> action T E U) arms,
  benv_wf benv ->
  compile benv mg d = Ok c ->
  def_rulesets d = Ok rss ->
  wf_def benv d = true ->
  def_chars_ok benv rss ->
  acts_distinct d ->
  (forall a v u n, a_switch (actions a v u) = Some n -> n < length (p_switch (c_program c))) ->
  gen_arms (c_program c) = Ok arms ->
  forall whole u with_str,
    Forall (fun ch => is_scalar ch = true) whole ->
    (with_str = false -> RuntimeProofs.text_blind T E U actions) ->
  forall n fuel, enough_fuel U fuel (lexer_new U whole u with_str) ->
  exists r, spec_run benv width tab_width T E U rss actions n (s_init U whole u) r /\
            grun_lexer width tab_width T E U (c_program c) actions arms n fuel (lexer_new U whole u with_str)
              = map (outcome_of T E) r.
Proof. exact generated_code_correct_model. Qed.

(* The IMPLEMENTATION's program. The real macro numbers the states of its automata differently from the model for
   some definitions (hash-map iteration order). The check builds the program P' from the implementation's own dumped
   simplified DFA, finds a renaming of states (untrusted search) and verifies it with the boolean prog_iso_b
   (sound: c08_prog_iso_checker_sound). For every such P' the interpreter and the generated code produce the stream
   of the reference semantics - the end-to-end theorems about exactly the program the real generated code runs. *)
Theorem c08_prog_iso_checker_sound : forall fl gl P P',
  prog_iso_b fl gl P P' = true -> prog_iso (fun s => nth s fl 0) P P'.
Proof. exact prog_iso_b_sound. Qed.

Theorem c08_impl_program_correct :
  forall benv mg (width : N -> N) tab_width (T E U : Type) (d : def) c rss
         (actions : nat -> action T E U) fl gl P',
  benv_wf benv -> compile benv mg d = Ok c -> def_rulesets d = Ok rss -> wf_def benv d = true ->
  def_chars_ok benv rss -> acts_distinct d ->
  prog_iso_b fl gl (c_program c) P' = true ->
  (forall a v u n, a_switch (actions a v u) = Some n -> n < length (p_switch P')) ->
  forall whole u with_str,
    Forall (fun ch => is_scalar ch = true) whole ->
    (with_str = false -> RuntimeProofs.text_blind T E U actions) ->
  forall n fuel, enough_fuel U fuel (lexer_new U whole u with_str) ->
  exists r, spec_run benv width tab_width T E U rss actions n (s_init U whole u) r /\
            run_lexer width tab_width T E U P' actions n fuel (lexer_new U whole u with_str)
              = map (outcome_of T E) r.
Proof. exact impl_program_correct. Qed.

Theorem c08_impl_generated_code_correct :
  forall benv mg (width : N -> N) tab_width (T E U : Type) (d : def) c rss
         (actions : nat -> action T E U) fl gl P' arms,
  benv_wf benv -> compile benv mg d = Ok c -> def_rulesets d = Ok rss -> wf_def benv d = true ->
  def_chars_ok benv rss -> acts_distinct d ->
  prog_iso_b fl gl (c_program c) P' = true ->
  (forall a v u n, a_switch (actions a v u) = Some n -> n < length (p_switch P')) ->
  chars_nodup_b P' = true -> gen_arms P' = Ok arms ->
  forall whole u with_str,
    Forall (fun ch => is_scalar ch = true) whole ->
    (with_str = false -> RuntimeProofs.text_blind T E U actions) ->
  forall n fuel, enough_fuel U fuel (lexer_new U whole u with_str) ->
  exists r, spec_run benv width tab_width T E U rss actions n (s_init U whole u) r /\
            grun_lexer width tab_width T E U P' actions arms n fuel (lexer_new U whole u with_str)
              = map (outcome_of T E) r.
Proof. exact impl_generated_code_correct. Qed.

(* the side condition of c08_generated_next is decided by a boolean the check evaluates on the automata
   the real macro dumped *)
Theorem c08_generated_code_side_condition : forall p, chars_nodup_b p = true -> chars_nodup p.
Proof. exact chars_nodup_b_sound. Qed.

(* ------------------------------------------------------------------------------------------
   The run-time library. gen/GenUtil.v is the translation of crates/lexgen_util/src/lib.rs, regenerated on every
   run (harness/gen_util.py, statement by statement); the methods generated code calls are exactly the operations
   the interpreter and the generated-code semantics use: reading a character with its location update (tab width
   as found in the source), the rewind point, backtrack() in both outcomes, reset_match, and the constructors. *)
Theorem c08_library_next : forall (width : N -> N) (U : Type) (l : lexer U),
  util_next width U l = read_char width TAB_WIDTH U l.
Proof. exact util_next_ok. Qed.

Theorem c08_library_backtrack : forall (T E U : Type) (prog : program) (actions : nat -> action T E U) (l : lexer U),
  exec_backtrack T E U prog actions l =
  match util_backtrack U l with
  | (inl loc, l1) => inr (OItem T E (IInvalid loc), reset_match U l1)
  | (inr a, l1) => run_action T E U prog actions l1 a
  end.
Proof. exact util_backtrack_ok. Qed.

Theorem c08_library_rewind_point : forall (U : Type) (l : lexer U) (a : nat),
  util_set_accepting_state U l a = set_last U l (Some (l_mstart U l, l_iter U l, a, l_mend U l)) /\
  util_reset_accepting_state U l = set_last U l None /\
  util_reset_match U l = reset_match U l /\
  util_match_loc U l = (l_mstart U l, l_mend U l) /\
  util_peek U l = hd_error (l_iter U l).
Proof. intros U l a. repeat split. Qed.

Theorem c08_library_constructors : forall (U : Type) (input : list N) (u : U),
  util_new_with_state U input u = lexer_new U input u true /\
  util_new_from_iter_with_state U input u = lexer_new U input u false.
Proof. intros U input u. split; reflexivity. Qed.

Theorem c08_library_match_text : forall (U : Type) (l : lexer U) (inp : list N),
  l_input U l = Some inp ->
  make_view U l = match util_match_ U l with
                  | Some t => Ok (mkView t (l_mstart U l) (l_mend U l) (util_peek U l))
                  | None => Panic TagSlice
                  end.
Proof. exact util_match_ok. Qed.

Print Assumptions c08_state_after_failure.
Print Assumptions c08_ruleset_changes.
Print Assumptions c08_viable_prefix.
Print Assumptions c08_next_simulates.
Print Assumptions c08_stream.
Print Assumptions c08_compiled_scan_ok.
Print Assumptions c08_ruleset_sem.
Print Assumptions c08_generated_next.
Print Assumptions c08_generated_code_stream.
Print Assumptions c08_prog_iso_checker_sound.
Print Assumptions c08_impl_program_correct.
Print Assumptions c08_impl_generated_code_correct.
Print Assumptions c08_generated_code_side_condition.
Print Assumptions c08_library_next.
Print Assumptions c08_library_backtrack.
Print Assumptions c08_library_rewind_point.
Print Assumptions c08_library_constructors.
Print Assumptions c08_library_match_text.
