(* C01 Longest match with first-rule priority, recovered by backtracking.
   Here: the backtrack-elision analysis (L5). The for-all-inputs run-time theorem is in the
   second part of this file once RuntimeProofs/ScanOkProofs are in the build (see DESIGN.md). *)
From LexVerif Require Import Base CharClass RangeMap Regex Nfa Dfa BacktrackProofs.

(* soundness of the "no rewind needed" decision: whenever an edge s -> t leaves a state that is
   accepting or itself flagged, t is flagged; so a state with flag = false and no accepting list
   is only reachable along paths without any accepting state, where last_match = None *)
Theorem c01_flags_sound : forall d d',
  targets_ok d -> update_backtracks d = Ok d' -> same_but_flags d d' /\ flags_sound d'.
Proof. exact update_backtracks_sound. Qed.

(* precision: a flag is set only when some path from an initial state really passes through an
   accepting state before *)
Theorem c01_flags_precise : forall d d' t,
  update_backtracks d = Ok d' -> t < length d -> d_bt (dget d' t) = true -> reach_acc d t true.
Proof. exact update_backtracks_precise. Qed.

(* the hypothesis targets_ok is necessary (the statement without it is refuted) *)
Theorem c01_flags_sound_needs_targets_ok :
  exists d d', update_backtracks d = Ok d' /\ ~ flags_sound d'.
Proof. exact sound_needs_targets_ok. Qed.

Print Assumptions c01_flags_sound.
Print Assumptions c01_flags_precise.
Print Assumptions c01_flags_sound_needs_targets_ok.
