(* C12 Macro expansion terminates, is deterministic, and its output compiles.
   Termination of the work-list algorithms of the model for all inputs (the fuel bounds built
   into the model always suffice); determinism is by construction (the model is a function).
   That rustc accepts the generated code is decided by running rustc (correspondence check). *)
From LexVerif Require Import Base CharClass RangeMap RangeMapProofs Regex Parser ParserProofs Nfa Dfa NfaToDfa
     NfaSem ThompsonProofs SubsetProofs BacktrackProofs NfaToDfaProofs SubsetTermination.

(* The subset construction (nfa_to_dfa.rs, a `while let Some(..) = work_list.pop()` loop with no bound in
   the Rust) terminates for every NFA: some number of iterations of the loop body reaches the final
   configuration, which is never a panic; the automaton has at most 2^|NFA| states; the constant fuel of the
   executable model is an artefact (it is the reason for a failure only if more than 2^32 iterations are needed,
   and whenever k <= 2^32 iterations suffice the model returns exactly the loop's result). *)
Theorem c12_subset_construction_terminates : forall n init,
  nfa_inv n -> nfa_trans_wf n -> closure n [0] = Ok init ->
  exists k d m, iter_nat k (n2d_step n) (mkN2D dfa_new [(init, 0)] [init] []) = inr (Ok (d, m)).
Proof. exact subset_construction_terminates. Qed.

Theorem c12_subset_construction_size : forall n d m,
  nfa_inv n -> nfa_trans_wf n -> nfa_to_dfa_map n = Ok (d, m) -> length d <= 2 ^ length n.
Proof. exact subset_construction_size. Qed.

Theorem c12_out_of_fuel_only_when_huge : forall n init,
  nfa_inv n -> nfa_trans_wf n -> closure n [0] = Ok init ->
  nfa_to_dfa_map n = Panic TagOutOfFuel ->
  exists k, Pos.to_nat n2d_fuel < k /\
    exists d m, iter_nat k (n2d_step n) (mkN2D dfa_new [(init, 0)] [init] []) = inr (Ok (d, m)).
Proof. exact out_of_fuel_only_when_huge. Qed.

Theorem c12_backtrack_terminates : forall d,
  targets_ok d -> update_backtracks d <> Panic TagOutOfFuel.
Proof. exact update_backtracks_terminates. Qed.

Theorem c12_closure_terminates : forall n S, nfa_targets_ok n -> exists C, closure n S = Ok C.
Proof. exact closure_total_strong. Qed.

(* merging and subtracting range maps always terminate on well-formed maps *)
Theorem c12_insert_ranges_terminates : forall (A : Type) (merge : A -> A -> A) (rs1 rs2 : rmap A),
  wf rs1 = true -> wf rs2 = true -> exists rs, insert_ranges merge rs1 rs2 = Some rs.
Proof. intros A merge rs1 rs2 H1 H2. destruct (insert_ranges_correct A merge rs1 rs2 H1 H2) as [rs [E _]]. exists rs. exact E. Qed.

Theorem c12_remove_ranges_terminates : forall (A B : Type) (old : rmap A) (removed : rmap B),
  wf old = true -> wf removed = true -> exists rs, remove_ranges old removed = Some rs.
Proof. intros A B o r H1 H2. destruct (remove_ranges_correct A B o r H1 H2) as [rs [E _]]. exists rs. exact E. Qed.

(* the regex parser needs only fuel linear in the size of its input *)
Theorem c12_parser_fuel : forall fuel fuel' level ts res,
  fuel <= fuel' -> parse_re fuel level ts = Some res -> parse_re fuel' level ts = Some res.
Proof. exact parse_re_fuel_mono. Qed.

Print Assumptions c12_subset_construction_terminates.
Print Assumptions c12_subset_construction_size.
Print Assumptions c12_out_of_fuel_only_when_huge.
Print Assumptions c12_backtrack_terminates.
Print Assumptions c12_closure_terminates.
Print Assumptions c12_insert_ranges_terminates.
Print Assumptions c12_remove_ranges_terminates.
Print Assumptions c12_parser_fuel.
