(* C12 Macro expansion terminates, is deterministic, and its output compiles.
   Termination of the work-list algorithms of the model for all inputs (the fuel bounds built
   into the model always suffice); determinism is by construction (the model is a function).
   That rustc accepts the generated code is decided by running rustc (correspondence check). *)
From LexVerif Require Import Base CharClass RangeMap RangeMapProofs Regex Parser ParserProofs Nfa Dfa NfaToDfa
     NfaSem SubsetProofs BacktrackProofs.

Theorem c12_backtrack_terminates : forall d,
  targets_ok d -> update_backtracks d <> Panic TagOutOfFuel.
Proof. exact update_backtracks_terminates. Qed.

Theorem c12_closure_terminates : forall n S, nfa_targets_ok n -> exists C, closure n S = Ok C.
Proof. exact closure_total_strong. Qed.

(* merging and subtracting range maps always terminate on well-formed maps *)
Theorem c12_insert_ranges_terminates : forall (A : Type) (merge : A -> A -> A) (rs1 rs2 : rmap A),
  wf rs1 = true -> wf rs2 = true -> exists rs, insert_ranges merge rs1 rs2 = Some rs.
Proof. intros A merge rs1 rs2 H1 H2. destruct (insert_ranges_correct A merge rs1 rs2 H1 H2) as [rs [E _]]. exists rs. exact E. Qed.

Theorem c12_remove_ranges_terminates : forall (A B : Type) (old : rmap A) (removed : rmap B),
  wf old = true -> wf removed = true -> exists rs, remove_ranges old removed = Some rs.
Proof. intros A B o r H1 H2. destruct (remove_ranges_correct A B o r H1 H2) as [rs [E _]]. exists rs. exact E. Qed.

(* the regex parser needs only fuel linear in the size of its input *)
Theorem c12_parser_fuel : forall fuel fuel' level ts res,
  fuel <= fuel' -> parse_re fuel level ts = Some res -> parse_re fuel' level ts = Some res.
Proof. exact parse_re_fuel_mono. Qed.

Print Assumptions c12_backtrack_terminates.
Print Assumptions c12_closure_terminates.
Print Assumptions c12_insert_ranges_terminates.
Print Assumptions c12_remove_ranges_terminates.
Print Assumptions c12_parser_fuel.
