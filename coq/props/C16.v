(* C16 Definitions are read with the documented precedence. Round-trip of the grammar
   `|` < concatenation < postfix < `#` < atom (left associative) through the minimal-parentheses
   printer and through any printer with redundant parentheses. *)
From LexVerif Require Import Base CharClass Regex Parser ParserProofs Driver DefParser DefParserProofs.

Theorem c16_roundtrip_min : forall r rest,
  eoi_safe' r = true -> stops rest ->
  forall fuel, parse_fuel (print_re 0 r ++ rest) <= fuel ->
  parse_re fuel 0 (print_re 0 r ++ rest) = Some (r, rest).
Proof. exact roundtrip_min. Qed.

Theorem c16_roundtrip_min_top : forall r, eoi_safe' r = true -> parse_regex (print_re 0 r) = Some (r, []).
Proof. exact roundtrip_min_top. Qed.

Theorem c16_roundtrip_any : forall extra r rest,
  eoi_safe' r = true -> stops rest ->
  forall fuel, parse_fuel (print_any extra 0 r ++ rest) <= fuel ->
  parse_re fuel 0 (print_any extra 0 r ++ rest) = Some (r, rest).
Proof. exact roundtrip_any. Qed.

Theorem c16_roundtrip_any_top : forall extra r,
  eoi_safe' r = true -> parse_regex (print_any extra 0 r) = Some (r, []).
Proof. exact roundtrip_any_top. Qed.

(* the side condition only concerns a bare `$` directly followed by `$`: it holds for every
   tree without end-of-input and for every tree with `$` in tail position (well-formed rules) *)
Theorem c16_eoi_free_ok : forall r, eoi_free r = true -> eoi_safe' r = true.
Proof. exact eoi_free_safe. Qed.
Theorem c16_eoi_tail_ok : forall r, eoi_tail r = true -> eoi_safe' r = true.
Proof. exact eoi_tail_safe. Qed.

Theorem c16_fuel_mono : forall fuel fuel' level ts res,
  fuel <= fuel' -> parse_re fuel level ts = Some res -> parse_re fuel' level ts = Some res.
Proof. exact parse_re_fuel_mono. Qed.

(* the definition-level grammar (rule sets, lets inside and outside rule sets, the four
   right-hand-side forms, right contexts, the error type, optional comma after a rule set):
   printing any definition and reading it back gives that definition *)
Theorem c16_def_roundtrip : forall tc d, forallb ptop_ok d = true -> parse_def (print_def tc d) = Some d.
Proof. exact def_roundtrip. Qed.

Print Assumptions c16_roundtrip_min.
Print Assumptions c16_roundtrip_min_top.
Print Assumptions c16_roundtrip_any.
Print Assumptions c16_roundtrip_any_top.
Print Assumptions c16_eoi_free_ok.
Print Assumptions c16_eoi_tail_ok.
Print Assumptions c16_fuel_mono.
Print Assumptions c16_def_roundtrip.
