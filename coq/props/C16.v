(* C16 Definitions are read with the documented precedence. Round-trip of the grammar
   `|` < concatenation < postfix < `#` < atom (left associative) through the minimal-parentheses
   printer and through any printer with redundant parentheses. *)
From LexVerif Require Import Base CharClass Regex Parser ParserProofs Driver DefParser DefParserProofs.
From LexVerif Require Import Base CharClass Regex Spec SpecExec LexSpec Nfa Dfa NfaToDfa NfaSem Codegen
     Runtime ScanIface RulesetSem Driver SpecDef ClassAlgProofs RuntimeProofs EndToEnd EndToEndModel.
From LexVerif Require Import ScopingFacts.

Theorem c16_roundtrip_min : forall r rest,
  eoi_safe' r = true -> stops rest ->
  forall fuel, parse_fuel (print_re 0 r ++ rest) <= fuel ->
  parse_re fuel 0 (print_re 0 r ++ rest) = Some (r, rest).
Proof. exact roundtrip_min. Qed.

Theorem c16_roundtrip_min_top : forall r, eoi_safe' r = true -> parse_regex (print_re 0 r) = Some (r, []).
Proof. exact roundtrip_min_top. Qed.

Theorem c16_roundtrip_any : forall extra r rest,
  eoi_safe' r = true -> stops rest ->
  forall fuel, parse_fuel (print_any extra 0 r ++ rest) <= fuel ->
  parse_re fuel 0 (print_any extra 0 r ++ rest) = Some (r, rest).
Proof. exact roundtrip_any. Qed.

Theorem c16_roundtrip_any_top : forall extra r,
  eoi_safe' r = true -> parse_regex (print_any extra 0 r) = Some (r, []).
Proof. exact roundtrip_any_top. Qed.

(* the side condition only concerns a bare `$` directly followed by `$`: it holds for every
   tree without end-of-input and for every tree with `$` in tail position (well-formed rules) *)
Theorem c16_eoi_free_ok : forall r, eoi_free r = true -> eoi_safe' r = true.
Proof. exact eoi_free_safe. Qed.
Theorem c16_eoi_tail_ok : forall r, eoi_tail r = true -> eoi_safe' r = true.
Proof. exact eoi_tail_safe. Qed.

Theorem c16_fuel_mono : forall fuel fuel' level ts res,
  fuel <= fuel' -> parse_re fuel level ts = Some res -> parse_re fuel' level ts = Some res.
Proof. exact parse_re_fuel_mono. Qed.

(* the definition-level grammar (rule sets, lets inside and outside rule sets, the four
   right-hand-side forms, right contexts, the error type, optional comma after a rule set):
   printing any definition and reading it back gives that definition *)
Theorem c16_def_roundtrip : forall tc d, forallb ptop_ok d = true -> parse_def (print_def tc d) = Some d.
Proof. exact def_roundtrip. Qed.

(* ---- variable scoping (SpecDef.def_rulesets is the documented reading of `let`) ----
   a variable and its definition are interchangeable; a binding inside a rule set is visible in the rules after it
   and nowhere else; a top-level binding is visible in everything after it; and two definitions that read as the
   same rule sets (e.g. with and without variables) compile to lexers that behave identically on every input *)
Theorem c16_expand_subst_var : forall b v re r x,
  lookup_var v b = Some re -> expand_top b r = Ok x -> expand_top b (subst_var v re r) = Ok x.
Proof. exact expand_subst_var. Qed.

Theorem c16_close_rule_subst : forall b v re r c,
  lookup_var v b = Some re -> close_rule b r = Ok c ->
  close_rule b (mkRule (subst_var v re (ru_re r))
                       (match ru_ctx r with Some cx => Some (subst_var v re cx) | None => None end)
                       (ru_act r)) = Ok c.
Proof. exact close_rule_subst. Qed.

Theorem c16_local_let_not_visible_later : forall nm rules rest b un u named cs,
  def_rulesets_go (TRuleSet nm rules :: rest) b un = Ok (u, (nm, cs) :: named) ->
  close_rules rules b = Ok cs /\ def_rulesets_go rest b un = Ok (u, named).
Proof. exact local_let_not_visible_later. Qed.

Theorem c16_top_let_visible_later : forall v re rest b un,
  def_rulesets_go (TRob (RBBinding v re) :: rest) b un = def_rulesets_go rest (b ++ [(v, re)]) un.
Proof. exact top_let_visible_later. Qed.

Theorem c16_local_let_visible_after : forall v re rest b,
  close_rules (RBBinding v re :: rest) b = close_rules rest (b ++ [(v, re)]).
Proof. exact local_let_visible_after. Qed.

Theorem c16_local_rule_sees_only_earlier : forall r rest b c cs,
  close_rules (RBRule r :: rest) b = Ok (c :: cs) -> close_rule b r = Ok c /\ close_rules rest b = Ok cs.
Proof. exact local_rule_sees_only_earlier. Qed.

Theorem c16_same_rulesets_same_lexer :
  forall benv mg (width : N -> N) tab_width (T E U : Type) (d1 d2 : def) c1 c2 rss (actions : nat -> action T E U),
  benv_wf benv ->
  compile benv mg d1 = Ok c1 -> compile benv mg d2 = Ok c2 ->
  def_rulesets d1 = Ok rss -> def_rulesets d2 = Ok rss ->
  wf_def benv d1 = true ->
  def_chars_ok benv rss ->
  acts_distinct d1 -> acts_distinct d2 ->
  (forall a v u n, a_switch (actions a v u) = Some n -> n < length (p_switch (c_program c1))) ->
  (forall a v u n, a_switch (actions a v u) = Some n -> n < length (p_switch (c_program c2))) ->
  forall whole u with_str,
    Forall (fun ch => is_scalar ch = true) whole ->
    (with_str = false -> RuntimeProofs.text_blind T E U actions) ->
  forall n fuel,
    enough_fuel U fuel (lexer_new U whole u with_str) ->
    run_lexer width tab_width T E U (c_program c1) actions n fuel (lexer_new U whole u with_str)
    = run_lexer width tab_width T E U (c_program c2) actions n fuel (lexer_new U whole u with_str).
Proof. exact same_rulesets_same_lexer. Qed.

Print Assumptions c16_roundtrip_min.
Print Assumptions c16_roundtrip_min_top.
Print Assumptions c16_roundtrip_any.
Print Assumptions c16_roundtrip_any_top.
Print Assumptions c16_eoi_free_ok.
Print Assumptions c16_eoi_tail_ok.
Print Assumptions c16_fuel_mono.
Print Assumptions c16_def_roundtrip.
Print Assumptions c16_expand_subst_var.
Print Assumptions c16_close_rule_subst.
Print Assumptions c16_local_let_not_visible_later.
Print Assumptions c16_top_let_visible_later.
Print Assumptions c16_local_let_visible_after.
Print Assumptions c16_local_rule_sees_only_earlier.
Print Assumptions c16_same_rulesets_same_lexer.
