(* Structural theorems about the model of the generated lexer's `next()` (Runtime.v), valid for
   ALL programs, lexer states and action functions:
     1. fused stream (C05)              next_done, next_none_sets_done, spec_ended, stream_fused
     2. user state only via actions (C10)   next_usteps, next_user_invariant
     3. input-source independence (C14)     next_input_independent, constructors_differ_only_in_input
     4. snapshot / clone (C15)              run_n_add
     5. locations, primitive facts (C06)    advance_*, advance_all_*, read_char_*, reset_match_*
     6. sugar forms of semantic actions (C10)   menu_action_skip/simple/inf *)
From Coq Require Import List Arith PArith Pnat NArith Bool Lia.
From LexVerif Require Import Base CharClass RangeMap Regex Nfa Dfa Codegen LexSpec Runtime
     Harness BacktrackProofs.

(* ================================================================== *)
(* 5. Locations: primitive facts (no lexer involved)                   *)
(* ================================================================== *)
Section LocFacts.
Variable width : N -> N.
Variable tab_width : N.

Local Notation adv := (advance width tab_width).
Local Notation adv_all := (advance_all width tab_width).
Local Notation loc_of := (loc_of_prefix width tab_width).

Definition loc_le (a b : Loc) : Prop := (byte_idx a <= byte_idx b)%N.
Definition loc_lt (a b : Loc) : Prop := (byte_idx a < byte_idx b)%N.

(* number of bytes of the UTF-8 encoding of a string *)
Definition utf8_size (p : list N) : N := fold_right (fun c acc => (utf8_len c + acc)%N) 0%N p.

Lemma utf8_len_bounds : forall c, (1 <= utf8_len c <= 4)%N.
Proof.
  intros c. unfold utf8_len.
  destruct (c <? 128)%N; [lia|]. destruct (c <? 2048)%N; [lia|].
  destruct (c <? 65536)%N; lia.
Qed.

Lemma utf8_size_app : forall p q, utf8_size (p ++ q) = (utf8_size p + utf8_size q)%N.
Proof.
  induction p as [|c p IH]; intros q; cbn [utf8_size fold_right app]; [reflexivity|].
  fold (utf8_size (p ++ q)). fold (utf8_size p). rewrite IH. lia.
Qed.

Lemma advance_byte_idx : forall l c, byte_idx (adv l c) = (byte_idx l + utf8_len c)%N.
Proof.
  intros l c. unfold advance. destruct (c =? 10)%N; [reflexivity|].
  destruct (c =? 9)%N; reflexivity.
Qed.

Lemma advance_newline : forall l, adv l 10%N = mkLoc (line l + 1) 0 (byte_idx l + 1).
Proof. reflexivity. Qed.

Lemma advance_tab : forall l, adv l 9%N = mkLoc (line l) (col l + tab_width) (byte_idx l + 1).
Proof. reflexivity. Qed.

Lemma advance_other : forall l c, c <> 10%N -> c <> 9%N ->
  adv l c = mkLoc (line l) (col l + width c) (byte_idx l + utf8_len c).
Proof.
  intros l c H10 H9. unfold advance.
  destruct (N.eqb_spec c 10); [contradiction|]. destruct (N.eqb_spec c 9); [contradiction|].
  reflexivity.
Qed.

(* line / column, by cases *)
Lemma advance_line : forall l c,
  line (adv l c) = if (c =? 10)%N then (line l + 1)%N else line l.
Proof.
  intros l c. unfold advance. destruct (c =? 10)%N; [reflexivity|].
  destruct (c =? 9)%N; reflexivity.
Qed.

Lemma advance_col : forall l c,
  col (adv l c) = if (c =? 10)%N then 0%N
                  else if (c =? 9)%N then (col l + tab_width)%N else (col l + width c)%N.
Proof.
  intros l c. unfold advance. destruct (c =? 10)%N; [reflexivity|].
  destruct (c =? 9)%N; reflexivity.
Qed.

Lemma advance_loc_lt : forall l c, loc_lt l (adv l c).
Proof.
  intros l c. unfold loc_lt. rewrite advance_byte_idx.
  pose proof (utf8_len_bounds c). lia.
Qed.

Lemma advance_loc_le : forall l c, loc_le l (adv l c).
Proof. intros l c. pose proof (advance_loc_lt l c). unfold loc_le, loc_lt in *. lia. Qed.

Lemma advance_byte_idx_bounds : forall l c,
  (byte_idx l + 1 <= byte_idx (adv l c) <= byte_idx l + 4)%N.
Proof. intros l c. rewrite advance_byte_idx. pose proof (utf8_len_bounds c). lia. Qed.

Lemma advance_all_nil : forall l, adv_all l [] = l.
Proof. reflexivity. Qed.

Lemma advance_all_cons : forall l c p, adv_all l (c :: p) = adv_all (adv l c) p.
Proof. reflexivity. Qed.

Lemma advance_all_app : forall l p q, adv_all l (p ++ q) = adv_all (adv_all l p) q.
Proof. intros l p q. unfold advance_all. apply fold_left_app. Qed.

Lemma advance_all_snoc : forall l p c, adv_all l (p ++ [c]) = adv (adv_all l p) c.
Proof. intros l p c. rewrite advance_all_app. reflexivity. Qed.

Lemma loc_of_prefix_app : forall p q, loc_of (p ++ q) = adv_all (loc_of p) q.
Proof. intros p q. unfold loc_of_prefix. apply advance_all_app. Qed.

Lemma loc_of_prefix_nil : loc_of [] = loc_zero.
Proof. reflexivity. Qed.

Lemma advance_all_byte_idx : forall p l, byte_idx (adv_all l p) = (byte_idx l + utf8_size p)%N.
Proof.
  induction p as [|c p IH]; intros l.
  - cbn. lia.
  - rewrite advance_all_cons, IH, advance_byte_idx. cbn [utf8_size fold_right].
    fold (utf8_size p). lia.
Qed.

Lemma loc_of_prefix_byte_idx : forall p, byte_idx (loc_of p) = utf8_size p.
Proof. intros p. unfold loc_of_prefix. rewrite advance_all_byte_idx. reflexivity. Qed.

Lemma advance_all_loc_le : forall l p, loc_le l (adv_all l p).
Proof. intros l p. unfold loc_le. rewrite advance_all_byte_idx. lia. Qed.

Lemma advance_all_loc_lt : forall l p, p <> [] -> loc_lt l (adv_all l p).
Proof.
  intros l [|c p] H; [contradiction|]. unfold loc_lt.
  rewrite advance_all_byte_idx. cbn [utf8_size fold_right].
  pose proof (utf8_len_bounds c). lia.
Qed.

Lemma advance_all_line_mono : forall p l, (line l <= line (adv_all l p))%N.
Proof.
  induction p as [|c p IH]; intros l; [cbn; lia|].
  rewrite advance_all_cons. specialize (IH (adv l c)). rewrite advance_line in IH.
  destruct (c =? 10)%N; lia.
Qed.

Lemma loc_le_refl : forall a, loc_le a a.
Proof. intros a. unfold loc_le. lia. Qed.

Lemma loc_le_trans : forall a b c, loc_le a b -> loc_le b c -> loc_le a c.
Proof. unfold loc_le. intros a b c H1 H2. lia. Qed.

End LocFacts.

(* ================================================================== *)
(* 1-4: the interpreter of the generated next()                        *)
(* ================================================================== *)
Section RuntimeLemmas.
Variable width : N -> N.
Variable tab_width : N.
Variables T E U : Type.
Variable prog : program.
Variable actions : nat -> action T E U.

Local Notation lexer := (lexer U).
Local Notation outcome := (outcome T E).
Local Notation ONone := (ONone T E).
Local Notation OItem := (OItem T E).
Local Notation OPanic := (OPanic T E).
Local Notation res := (lexer * ctl + outcome * lexer)%type.
Local Notation next := (next width tab_width T E U prog actions).
Local Notation step := (step width tab_width T E U prog actions).
Local Notation run_state := (run_state width tab_width T E U prog actions).
Local Notation run_action := (run_action T E U prog actions).
Local Notation do_fail := (do_fail T E U prog actions).
Local Notation do_accept := (do_accept T E U prog actions).
Local Notation do_trans := (do_trans T E U prog actions).
Local Notation read_char := (read_char width tab_width U).
Local Notation make_view := (make_view U).
Local Notation first_passing := (first_passing U prog).
Local Notation ctx_passes := (ctx_passes U prog).
Local Notation reset_match := (reset_match U).
Local Notation set_done := (set_done U).
Local Notation set_state := (set_state U).
Local Notation set_last := (set_last U).
Local Notation mkL := (mkL U).
Local Notation l_state := (l_state U).
Local Notation l_done := (l_done U).
Local Notation l_initial := (l_initial U).
Local Notation l_user := (l_user U).
Local Notation l_input := (l_input U).
Local Notation l_iter := (l_iter U).
Local Notation l_iter_loc := (l_iter_loc U).
Local Notation l_mstart := (l_mstart U).
Local Notation l_mend := (l_mend U).
Local Notation l_last := (l_last U).
Local Notation lexer_new := (lexer_new U).

(* next, through nat-indexed iteration *)
Lemma next_iter_nat : forall fuel l,
  next fuel l = match iter_nat (Pos.to_nat fuel) step (l, CLoop) with
                | inl (l', _) => (OPanic TagOutOfFuel, l')
                | inr r => r
                end.
Proof. intros fuel l. unfold Runtime.next. rewrite iter_pos_nat. reflexivity. Qed.

(* generic invariant rule for next: a relation between the lexer at entry and the lexer
   reached, reflexive and preserved by every interpreter step, holds of the result *)
Lemma next_invariant (R : lexer -> lexer -> Prop) :
  (forall l, R l l) ->
  (forall l0 l c l' c', R l0 l -> step (l, c) = inl (l', c') -> R l0 l') ->
  (forall l0 l c o l', R l0 l -> step (l, c) = inr (o, l') -> R l0 l') ->
  forall fuel l o l', next fuel l = (o, l') -> R l l'.
Proof.
  intros Hrefl Hinl Hinr fuel l o l'. rewrite next_iter_nat.
  assert (G : forall n l0 x, R l0 (fst x) ->
            match iter_nat n step x with
            | inl (l1, _) => R l0 l1
            | inr (_, l1) => R l0 l1
            end).
  { induction n as [|n IH]; intros l0 [l1 c] HR; cbn [iter_nat].
    - exact HR.
    - destruct (step (l1, c)) as [[l2 c2]|[o2 l2]] eqn:Es.
      + apply IH. cbn [fst]. eapply Hinl; eauto.
      + eapply Hinr; eauto. }
  specialize (G (Pos.to_nat fuel) l (l, CLoop) (Hrefl l)).
  destruct (iter_nat _ _ _) as [[l1 c1]|[o1 l1]]; intros H; inversion H; subst; exact G.
Qed.

(* ------------------------------------------------------------------ *)
(* 1. Fused stream (C05)                                               *)
(* ------------------------------------------------------------------ *)

Theorem next_done : forall fuel l, l_done l = true -> next fuel l = (ONone, l).
Proof.
  intros fuel l Hd. rewrite next_iter_nat.
  destruct (Pos2Nat.is_succ fuel) as [n ->]. cbn [iter_nat Runtime.step].
  rewrite Hd. reflexivity.
Qed.

(* a step result that, if it is `None`, carries the done flag *)
Definition none_done (r : res) : Prop :=
  forall l', r = inr (ONone, l') -> l_done l' = true.

Lemma run_action_not_none : forall l a, none_done (run_action l a).
Proof.
  intros l a l'. unfold Runtime.run_action.
  destruct (make_view l) as [v|t]; [|discriminate].
  destruct (a_switch (actions a v (l_user l))) as [n|].
  - destruct (switch_target prog n) as [s|t]; [|discriminate].
    destruct (a_res (actions a v (l_user l))) as [|[t|x]]; discriminate.
  - destruct (a_res (actions a v (l_user l))) as [|[t|x]]; discriminate.
Qed.

Lemma do_fail_not_none : forall st l, none_done (do_fail st l).
Proof.
  intros st l l'. unfold Runtime.do_fail.
  destruct (d_bt st || is_accepting st).
  - destruct (l_last l) as [[[[ms it] a] me]|]; [apply run_action_not_none|discriminate].
  - discriminate.
Qed.

Lemma do_accept_none_done : forall l accs default,
  none_done (default l) -> none_done (do_accept l accs default).
Proof.
  intros l accs default Hd. unfold Runtime.do_accept.
  destruct (first_passing l accs); [apply run_action_not_none|exact Hd].
Qed.

Lemma do_trans_none_done : forall l t default,
  none_done (default l) -> none_done (do_trans l t default).
Proof.
  intros l t default Hd. unfold Runtime.do_trans. destruct t as [n|accs].
  - destruct (set_mem n (p_inlined prog)); intros l'; discriminate.
  - apply do_accept_none_done; exact Hd.
Qed.

Lemma run_state_none_done : forall s l, none_done (run_state s l).
Proof.
  intros s l. unfold Runtime.run_state.
  set (st := dget (p_states prog) s).
  set (l1 := match first_passing l (d_acc st) with
             | Some a => set_last l (Some (l_mstart l, l_iter l, a, l_mend l))
             | None => l end).
  assert (Hdef : forall l', none_done (match d_any st with
                                       | Some t => do_trans l' t (do_fail st)
                                       | None => do_fail st l' end)).
  { intros l'. destruct (d_any st) as [t|].
    - apply do_trans_none_done. apply do_fail_not_none.
    - apply do_fail_not_none. }
  destruct (read_char l1) as [[c|] l2].
  - destruct (lookup_char (p_max_guard prog) st c) as [t|].
    + apply do_trans_none_done. apply Hdef.
    + apply Hdef.
  - assert (Heoi : none_done (if s =? 0 then inr (ONone, set_done l2 true)
                              else do_fail st (set_done l2 true))).
    { destruct (s =? 0).
      - intros l' H. inversion H. reflexivity.
      - apply do_fail_not_none. }
    destruct (d_eoi st) as [[n|accs]|].
    + intros l'; discriminate.
    + apply do_accept_none_done. exact Heoi.
    + exact Heoi.
Qed.

Lemma step_none_done : forall x, none_done (step x).
Proof.
  intros [l c]. unfold Runtime.step. destruct c as [|s].
  - destruct (l_done l) eqn:Hd.
    + intros l' H. inversion H. subst l'. exact Hd.
    + destruct (arm_lookup (p_arms prog) (l_state l)); intros l'; discriminate.
  - apply run_state_none_done.
Qed.

Lemma iter_none_done : forall n x, none_done (iter_nat n step x).
Proof.
  induction n as [|n IH]; intros x; cbn [iter_nat].
  - intros l'; discriminate.
  - destruct (step x) as [x'|r] eqn:Es; [apply IH|].
    rewrite <- Es. apply step_none_done.
Qed.

Theorem next_none_sets_done : forall fuel l l',
  next fuel l = (ONone, l') -> l_done l' = true.
Proof.
  intros fuel l l'. rewrite next_iter_nat.
  pose proof (iter_none_done (Pos.to_nat fuel) (l, CLoop)) as H.
  destruct (iter_nat _ _ _) as [[l1 c1]|r]; [discriminate|].
  intros ->. apply H. reflexivity.
Qed.

(* once next has returned None it returns None for ever, on the same lexer value *)
Corollary next_none_fused : forall fuel fuel' l l',
  next fuel l = (ONone, l') -> next fuel' l' = (ONone, l').
Proof. intros fuel fuel' l l' H. apply next_done. eapply next_none_sets_done; eauto. Qed.

(* reference side *)
Theorem spec_ended :
  forall (benv : builtin_env) (rulesets : list (list crule)) (f : nat) (s : sstate U),
    s_ended U s = true ->
    spec_next benv width tab_width T E U rulesets actions (S f) s = Some (None, s).
Proof.
  intros benv rulesets f s He. cbn [spec_next]. unfold spec_step. rewrite He. reflexivity.
Qed.

Theorem spec_step_ended :
  forall (benv : builtin_env) (rulesets : list (list crule)) (s : sstate U),
    s_ended U s = true ->
    spec_step benv width tab_width T E U rulesets actions s = SEnd T E U s.
Proof. intros benv rulesets s He. unfold spec_step. rewrite He. reflexivity. Qed.

(* the done flag is never cleared by a call that returns None ... and the stronger fact about
   the flag: a call on a done lexer is the identity (next_done). *)

(* ------------------------------------------------------------------ *)
(* 4. Snapshot / clone (C15): streams are functions of the lexer value  *)
(* ------------------------------------------------------------------ *)

(* n successive calls of next() *)
Fixpoint run_n (fuel : positive) (n : nat) (l : lexer) : list outcome * lexer :=
  match n with
  | O => ([], l)
  | S n' =>
      let (o, l1) := next fuel l in
      let (os, l2) := run_n fuel n' l1 in
      (o :: os, l2)
  end.

Theorem next_deterministic : forall fuel l1 l2, l1 = l2 -> next fuel l1 = next fuel l2.
Proof. intros fuel l1 l2 ->. reflexivity. Qed.

Theorem run_n_add : forall fuel a b l,
  run_n fuel (a + b) l =
  let (xs, l1) := run_n fuel a l in
  let (ys, l2) := run_n fuel b l1 in
  (xs ++ ys, l2).
Proof.
  intros fuel a; induction a as [|a IH]; intros b l; cbn [Nat.add run_n].
  - destruct (run_n fuel b l) as [ys l2]. reflexivity.
  - destruct (next fuel l) as [o l1]. rewrite IH.
    destruct (run_n fuel a l1) as [xs l2]. destruct (run_n fuel b l2) as [ys l3]. reflexivity.
Qed.

Lemma run_n_length : forall fuel n l, length (fst (run_n fuel n l)) = n.
Proof.
  intros fuel n; induction n as [|n IH]; intros l; cbn [run_n]; [reflexivity|].
  destruct (next fuel l) as [o l1]. specialize (IH l1).
  destruct (run_n fuel n l1) as [os l2]. cbn [fst length] in *. rewrite IH. reflexivity.
Qed.

(* the snapshot statement: whatever calls were made before (errors, switches, the final None),
   the outcomes of the next b calls are those of the lexer value reached *)
Corollary run_n_snapshot : forall fuel a b l xs l1,
  run_n fuel a l = (xs, l1) ->
  run_n fuel (a + b) l = (xs ++ fst (run_n fuel b l1), snd (run_n fuel b l1)).
Proof.
  intros fuel a b l xs l1 H. rewrite run_n_add, H.
  destruct (run_n fuel b l1) as [ys l2]. reflexivity.
Qed.

Theorem run_n_done : forall fuel n l,
  l_done l = true -> run_n fuel n l = (repeat ONone n, l).
Proof.
  intros fuel n; induction n as [|n IH]; intros l Hd; cbn [run_n repeat]; [reflexivity|].
  rewrite (next_done fuel l Hd), (IH l Hd). reflexivity.
Qed.

(* fused stream, on sequences of calls: after the first None, only None, same lexer *)
Theorem stream_fused : forall fuel a b l xs l1 l2,
  run_n fuel a l = (xs, l1) ->
  next fuel l1 = (ONone, l2) ->
  run_n fuel (a + S b) l = (xs ++ repeat ONone (S b), l2).
Proof.
  intros fuel a b l xs l1 l2 Ha Hn. rewrite run_n_add, Ha. cbn [run_n]. rewrite Hn.
  rewrite (run_n_done fuel b l2 (next_none_sets_done _ _ _ Hn)). reflexivity.
Qed.

(* ------------------------------------------------------------------ *)
(* 5 (lexer part). read_char, reset_match                              *)
(* ------------------------------------------------------------------ *)

Lemma read_char_none : forall l, l_iter l = [] -> read_char l = (None, l).
Proof. intros l H. unfold Runtime.read_char. rewrite H. reflexivity. Qed.

Lemma read_char_some : forall l c rest, l_iter l = c :: rest ->
  read_char l =
  (Some c, mkL (l_state l) (l_done l) (l_initial l) (l_user l) (l_input l) rest (l_iter_loc l)
               (l_mstart l) (advance width tab_width (l_mend l) c) (l_last l)).
Proof. intros l c rest H. unfold Runtime.read_char. rewrite H. reflexivity. Qed.

Lemma read_char_cases : forall l,
  (l_iter l = [] /\ read_char l = (None, l)) \/
  (exists c rest l', l_iter l = c :: rest /\ read_char l = (Some c, l') /\
     l_iter l' = rest /\ l_mend l' = advance width tab_width (l_mend l) c /\
     l_mstart l' = l_mstart l /\ l_state l' = l_state l /\ l_done l' = l_done l /\
     l_initial l' = l_initial l /\ l_user l' = l_user l /\ l_input l' = l_input l /\
     l_iter_loc l' = l_iter_loc l /\ l_last l' = l_last l).
Proof.
  intros l. destruct (l_iter l) as [|c rest] eqn:Ei.
  - left. split; [reflexivity|]. apply read_char_none; exact Ei.
  - right. eexists c, rest, _. split; [reflexivity|]. split; [apply read_char_some; exact Ei|].
    cbn. repeat split; reflexivity.
Qed.

Lemma read_char_mend_le : forall l, loc_le (l_mend l) (l_mend (snd (read_char l))).
Proof.
  intros l. unfold Runtime.read_char. destruct (l_iter l) as [|c rest]; cbn.
  - apply loc_le_refl.
  - apply advance_loc_le.
Qed.

Lemma reset_match_mstart : forall l, l_mstart (reset_match l) = l_mend l.
Proof. reflexivity. Qed.

Lemma reset_match_mend : forall l, l_mend (reset_match l) = l_mend l.
Proof. reflexivity. Qed.

Lemma reset_match_other : forall l,
  l_state (reset_match l) = l_state l /\ l_done (reset_match l) = l_done l /\
  l_initial (reset_match l) = l_initial l /\ l_user (reset_match l) = l_user l /\
  l_input (reset_match l) = l_input l /\ l_iter (reset_match l) = l_iter l /\
  l_iter_loc (reset_match l) = l_iter_loc l /\ l_last (reset_match l) = l_last l.
Proof. intros l. repeat split; reflexivity. Qed.

(* ------------------------------------------------------------------ *)
(* 2. The user state is touched only by actions (C10)                  *)
(* ------------------------------------------------------------------ *)

Definition ustep (u u' : U) : Prop := exists a v, u' = a_user (actions a v u).

Inductive usteps : U -> U -> Prop :=
| usteps_refl : forall u, usteps u u
| usteps_cons : forall u u1 u2, ustep u u1 -> usteps u1 u2 -> usteps u u2.

Lemma usteps_trans : forall u1 u2 u3, usteps u1 u2 -> usteps u2 u3 -> usteps u1 u3.
Proof.
  intros u1 u2 u3 H12 H23. induction H12 as [u|u u1 u2 Hs _ IH]; [exact H23|].
  eapply usteps_cons; [exact Hs|]. apply IH; exact H23.
Qed.

Lemma usteps_one : forall u u', ustep u u' -> usteps u u'.
Proof. intros u u' H. eapply usteps_cons; [exact H|apply usteps_refl]. Qed.

(* at most one action per interpreter step *)
Definition ustep01 (u u' : U) : Prop := u' = u \/ ustep u u'.

Definition res_user (u : U) (r : res) : Prop :=
  match r with
  | inl (l', _) => ustep01 u (l_user l')
  | inr (_, l') => ustep01 u (l_user l')
  end.

Lemma run_action_user : forall l a, res_user (l_user l) (run_action l a).
Proof.
  intros l a. unfold Runtime.run_action.
  destruct (make_view l) as [v|t]; [|left; reflexivity].
  assert (Hs : ustep (l_user l) (a_user (actions a v (l_user l)))) by (exists a, v; reflexivity).
  destruct (a_switch (actions a v (l_user l))) as [n|].
  - destruct (switch_target prog n) as [s|t]; [|left; reflexivity].
    destruct (a_res (actions a v (l_user l))) as [|[t|x]]; right; exact Hs.
  - destruct (a_res (actions a v (l_user l))) as [|[t|x]]; right; exact Hs.
Qed.

Lemma do_fail_user : forall st l, res_user (l_user l) (do_fail st l).
Proof.
  intros st l. unfold Runtime.do_fail.
  destruct (d_bt st || is_accepting st).
  - destruct (l_last l) as [[[[ms it] a] me]|].
    + apply (run_action_user
               (mkL (l_state l) false (l_initial l) (l_user l) (l_input l) it me ms me None) a).
    + left; reflexivity.
  - left; reflexivity.
Qed.

Lemma do_accept_user : forall l accs default,
  res_user (l_user l) (default l) -> res_user (l_user l) (do_accept l accs default).
Proof.
  intros l accs default Hd. unfold Runtime.do_accept.
  destruct (first_passing l accs) as [a|]; [|exact Hd].
  apply (run_action_user (set_last l None) a).
Qed.

Lemma do_trans_user : forall l t default,
  res_user (l_user l) (default l) -> res_user (l_user l) (do_trans l t default).
Proof.
  intros l t default Hd. unfold Runtime.do_trans. destruct t as [n|accs].
  - destruct (set_mem n (p_inlined prog)); left; reflexivity.
  - apply do_accept_user; exact Hd.
Qed.

Lemma run_state_user : forall s l, res_user (l_user l) (run_state s l).
Proof.
  intros s l. unfold Runtime.run_state.
  set (st := dget (p_states prog) s).
  set (l1 := match first_passing l (d_acc st) with
             | Some a => set_last l (Some (l_mstart l, l_iter l, a, l_mend l))
             | None => l end).
  assert (H1 : l_user l1 = l_user l).
  { unfold l1. destruct (first_passing l (d_acc st)); reflexivity. }
  assert (Hdef : forall l', res_user (l_user l') (match d_any st with
                                       | Some t => do_trans l' t (do_fail st)
                                       | None => do_fail st l' end)).
  { intros l'. destruct (d_any st) as [t|].
    - apply do_trans_user. apply do_fail_user.
    - apply do_fail_user. }
  destruct (read_char_cases l1) as [[_ ->]|[c [rest [l2 [_ [-> [_ [_ [_ [_ [_ [_ [H2 _]]]]]]]]]]]]].
  - rewrite <- H1.
    assert (Heoi : res_user (l_user l1) (if s =? 0 then inr (ONone, set_done l1 true)
                                         else do_fail st (set_done l1 true))).
    { destruct (s =? 0).
      - left; reflexivity.
      - apply (do_fail_user st (set_done l1 true)). }
    destruct (d_eoi st) as [[n|accs]|].
    + left; reflexivity.
    + apply (do_accept_user (set_done l1 true)). exact Heoi.
    + exact Heoi.
  - rewrite <- H1, <- H2.
    destruct (lookup_char (p_max_guard prog) st c) as [t|].
    + apply do_trans_user. apply Hdef.
    + apply Hdef.
Qed.

Lemma step_user : forall l c, res_user (l_user l) (step (l, c)).
Proof.
  intros l c. unfold Runtime.step. destruct c as [|s].
  - destruct (l_done l); [left; reflexivity|].
    destruct (arm_lookup (p_arms prog) (l_state l)); left; reflexivity.
  - apply run_state_user.
Qed.

Lemma usteps_snoc01 : forall u0 u u', usteps u0 u -> ustep01 u u' -> usteps u0 u'.
Proof.
  intros u0 u u' H [->|Hs]; [exact H|].
  eapply usteps_trans; [exact H|apply usteps_one; exact Hs].
Qed.

Theorem next_usteps : forall fuel l o l',
  next fuel l = (o, l') -> usteps (l_user l) (l_user l').
Proof.
  apply (next_invariant (fun l0 l => usteps (l_user l0) (l_user l))).
  - intros l. apply usteps_refl.
  - intros l0 l c l' c' HR Hs. pose proof (step_user l c) as H. rewrite Hs in H.
    eapply usteps_snoc01; eauto.
  - intros l0 l c o l' HR Hs. pose proof (step_user l c) as H. rewrite Hs in H.
    eapply usteps_snoc01; eauto.
Qed.

(* consequences: any property of the user state preserved by all actions is preserved by
   next; if no action changes the user state, next does not change it *)
Lemma usteps_invariant (P : U -> Prop) :
  (forall a v u, P u -> P (a_user (actions a v u))) ->
  forall u u', usteps u u' -> P u -> P u'.
Proof.
  intros Hp u u' H. induction H as [u|u u1 u2 [a [v ->]] _ IH]; [auto|].
  intros Hu. apply IH. apply Hp. exact Hu.
Qed.

Corollary next_user_invariant (P : U -> Prop) :
  (forall a v u, P u -> P (a_user (actions a v u))) ->
  forall fuel l o l', next fuel l = (o, l') -> P (l_user l) -> P (l_user l').
Proof.
  intros Hp fuel l o l' H. eapply usteps_invariant; [exact Hp|]. eapply next_usteps; eauto.
Qed.

Corollary next_user_unchanged :
  (forall a v u, a_user (actions a v u) = u) ->
  forall fuel l o l', next fuel l = (o, l') -> l_user l' = l_user l.
Proof.
  intros Hid fuel l o l' H.
  apply (next_user_invariant (fun u => u = l_user l)) with (fuel := fuel) (l := l) (o := o);
    [|exact H|reflexivity].
  intros a v u ->. apply Hid.
Qed.

Corollary run_n_usteps : forall fuel n l xs l',
  run_n fuel n l = (xs, l') -> usteps (l_user l) (l_user l').
Proof.
  intros fuel n; induction n as [|n IH]; intros l xs l'; cbn [run_n].
  - intros H; inversion H. apply usteps_refl.
  - destruct (next fuel l) as [o l1] eqn:En. destruct (run_n fuel n l1) as [os l2] eqn:Er.
    intros H; inversion H; subst. eapply usteps_trans.
    + eapply next_usteps; eauto.
    + eapply IH; eauto.
Qed.

(* ------------------------------------------------------------------ *)
(* 3. Input-source independence (C14)                                  *)
(* ------------------------------------------------------------------ *)

(* all fields equal, except `input` *)
Definition lex_eq_upto_input (l1 l2 : lexer) : Prop :=
  l_state l1 = l_state l2 /\ l_done l1 = l_done l2 /\ l_initial l1 = l_initial l2 /\
  l_user l1 = l_user l2 /\ l_iter l1 = l_iter l2 /\ l_iter_loc l1 = l_iter_loc l2 /\
  l_mstart l1 = l_mstart l2 /\ l_mend l1 = l_mend l2 /\ l_last l1 = l_last l2.

(* the actions do not look at match_() *)
Definition text_blind : Prop :=
  forall a v v' u, v_start v = v_start v' -> v_end v = v_end v' -> v_peek v = v_peek v' ->
                   actions a v u = actions a v' u.

Definition set_input (l : lexer) (i : option (list N)) : lexer :=
  mkL (l_state l) (l_done l) (l_initial l) (l_user l) i (l_iter l) (l_iter_loc l)
      (l_mstart l) (l_mend l) (l_last l).

Lemma lex_eq_set_input : forall l1 l2,
  lex_eq_upto_input l1 l2 <-> l2 = set_input l1 (l_input l2).
Proof.
  intros l1 l2. split.
  - intros [H1 [H2 [H3 [H4 [H5 [H6 [H7 [H8 H9]]]]]]]]. destruct l1, l2; cbn in *.
    subst. reflexivity.
  - intros ->. unfold lex_eq_upto_input. cbn. repeat split; reflexivity.
Qed.

Lemma lex_eq_refl : forall l, lex_eq_upto_input l l.
Proof. intros l. unfold lex_eq_upto_input. repeat split; reflexivity. Qed.

Lemma lex_eq_sym : forall l1 l2, lex_eq_upto_input l1 l2 -> lex_eq_upto_input l2 l1.
Proof.
  intros l1 l2 [H1 [H2 [H3 [H4 [H5 [H6 [H7 [H8 H9]]]]]]]]. unfold lex_eq_upto_input.
  repeat split; symmetry; assumption.
Qed.

Lemma lex_eq_trans : forall l1 l2 l3,
  lex_eq_upto_input l1 l2 -> lex_eq_upto_input l2 l3 -> lex_eq_upto_input l1 l3.
Proof.
  intros l1 l2 l3 [H1 [H2 [H3 [H4 [H5 [H6 [H7 [H8 H9]]]]]]]] [G1 [G2 [G3 [G4 [G5 [G6 [G7 [G8 G9]]]]]]]].
  unfold lex_eq_upto_input. repeat split; etransitivity; eassumption.
Qed.

Theorem constructors_differ_only_in_input : forall input u,
  lex_eq_upto_input (lexer_new input u true) (lexer_new input u false).
Proof. intros input u. unfold lex_eq_upto_input. cbn. repeat split; reflexivity. Qed.

(* the `input` field is never written, and a lexer built from an iterator (input = None) never
   raises the slice panic *)
Definition res_inp (i : option (list N)) (r : res) : Prop :=
  match r with
  | inl (l', _) => l_input l' = i
  | inr (o, l') => l_input l' = i /\ (i = None -> o <> OPanic TagSlice)
  end.

Lemma make_view_iter : forall l, l_input l = None ->
  make_view l = Ok (mkView [] (l_mstart l) (l_mend l) (hd_error (l_iter l))).
Proof. intros l H. unfold Runtime.make_view. rewrite H. reflexivity. Qed.

Lemma make_view_panic : forall l t, make_view l = Panic t -> t = TagSlice /\ l_input l <> None.
Proof.
  intros l t. unfold Runtime.make_view. destruct (l_input l) as [inp|]; [|discriminate].
  destruct (slice_bytes inp _ _); [discriminate|]. intros H; inversion H.
  split; [reflexivity|discriminate].
Qed.

Lemma switch_target_panic : forall n t, switch_target prog n = Panic t -> t = TagIndex.
Proof.
  intros n t. unfold switch_target. destruct (nth_error (p_switch prog) n); [discriminate|].
  intros H; inversion H; reflexivity.
Qed.

Lemma run_action_inp : forall l a, res_inp (l_input l) (run_action l a).
Proof.
  intros l a. unfold Runtime.run_action.
  destruct (make_view l) as [v|t] eqn:Ev.
  - set (o := actions a v (l_user l)).
    destruct (a_switch o) as [n|].
    + destruct (switch_target prog n) as [s|t'] eqn:Es.
      * destruct (a_res o) as [|[t'|x]]; cbn; try (split; [|intros _; discriminate]);
          reflexivity.
      * cbn. split; [reflexivity|]. intros _ H. inversion H; subst t'.
        apply switch_target_panic in Es. discriminate.
    + destruct (a_res o) as [|[t'|x]]; cbn; try (split; [|intros _; discriminate]);
        reflexivity.
  - cbn. split; [reflexivity|]. intros Hn. apply make_view_panic in Ev.
    destruct Ev as [_ Ev]. contradiction.
Qed.

Lemma do_fail_inp : forall st l, res_inp (l_input l) (do_fail st l).
Proof.
  intros st l. unfold Runtime.do_fail.
  destruct (d_bt st || is_accepting st).
  - destruct (l_last l) as [[[[ms it] a] me]|].
    + apply (run_action_inp
               (mkL (l_state l) false (l_initial l) (l_user l) (l_input l) it me ms me None) a).
    + cbn. split; [reflexivity|intros _; discriminate].
  - cbn. split; [reflexivity|intros _; discriminate].
Qed.

Lemma do_accept_inp : forall l accs default,
  res_inp (l_input l) (default l) -> res_inp (l_input l) (do_accept l accs default).
Proof.
  intros l accs default Hd. unfold Runtime.do_accept.
  destruct (first_passing l accs) as [a|]; [|exact Hd].
  apply (run_action_inp (set_last l None) a).
Qed.

Lemma do_trans_inp : forall l t default,
  res_inp (l_input l) (default l) -> res_inp (l_input l) (do_trans l t default).
Proof.
  intros l t default Hd. unfold Runtime.do_trans. destruct t as [n|accs].
  - destruct (set_mem n (p_inlined prog)); reflexivity.
  - apply do_accept_inp; exact Hd.
Qed.

Lemma run_state_inp : forall s l, res_inp (l_input l) (run_state s l).
Proof.
  intros s l. unfold Runtime.run_state.
  set (st := dget (p_states prog) s).
  set (l1 := match first_passing l (d_acc st) with
             | Some a => set_last l (Some (l_mstart l, l_iter l, a, l_mend l))
             | None => l end).
  assert (H1 : l_input l1 = l_input l).
  { unfold l1. destruct (first_passing l (d_acc st)); reflexivity. }
  assert (Hdef : forall l', res_inp (l_input l') (match d_any st with
                                       | Some t => do_trans l' t (do_fail st)
                                       | None => do_fail st l' end)).
  { intros l'. destruct (d_any st) as [t|].
    - apply do_trans_inp. apply do_fail_inp.
    - apply do_fail_inp. }
  destruct (read_char_cases l1)
    as [[_ ->]|[c [rest [l2 [_ [-> [_ [_ [_ [_ [_ [_ [_ [H2 _]]]]]]]]]]]]]].
  - rewrite <- H1.
    assert (Heoi : res_inp (l_input l1) (if s =? 0 then inr (ONone, set_done l1 true)
                                         else do_fail st (set_done l1 true))).
    { destruct (s =? 0).
      - cbn. split; [reflexivity|intros _; discriminate].
      - apply (do_fail_inp st (set_done l1 true)). }
    destruct (d_eoi st) as [[n|accs]|].
    + reflexivity.
    + apply (do_accept_inp (set_done l1 true)). exact Heoi.
    + exact Heoi.
  - rewrite <- H1, <- H2.
    destruct (lookup_char (p_max_guard prog) st c) as [t|].
    + apply do_trans_inp. apply Hdef.
    + apply Hdef.
Qed.

Lemma step_inp : forall l c, res_inp (l_input l) (step (l, c)).
Proof.
  intros l c. unfold Runtime.step. destruct c as [|s].
  - destruct (l_done l); [cbn; split; [reflexivity|intros _; discriminate]|].
    destruct (arm_lookup (p_arms prog) (l_state l)); cbn;
      [reflexivity|split; [reflexivity|intros _; discriminate]].
  - apply run_state_inp.
Qed.

Lemma iter_inp : forall n x, res_inp (l_input (fst x)) (iter_nat n step x).
Proof.
  induction n as [|n IH]; intros [l c]; cbn [iter_nat fst].
  - reflexivity.
  - pose proof (step_inp l c) as Hs.
    destruct (step (l, c)) as [[l1 c1]|[o1 l1]]; [|exact Hs].
    cbn in Hs. rewrite <- Hs. apply (IH (l1, c1)).
Qed.

Theorem next_input_preserved : forall fuel l o l',
  next fuel l = (o, l') -> l_input l' = l_input l.
Proof.
  intros fuel l o l'. rewrite next_iter_nat.
  pose proof (iter_inp (Pos.to_nat fuel) (l, CLoop)) as H. cbn [fst] in H.
  destruct (iter_nat _ _ _) as [[l1 c1]|[o1 l1]]; intros Heq; inversion Heq; subst.
  - exact H.
  - apply H.
Qed.

Theorem next_iter_no_slice_panic : forall fuel l o l',
  l_input l = None -> next fuel l = (o, l') -> o <> OPanic TagSlice.
Proof.
  intros fuel l o l' Hn. rewrite next_iter_nat.
  pose proof (iter_inp (Pos.to_nat fuel) (l, CLoop)) as H. cbn [fst] in H.
  destruct (iter_nat _ _ _) as [[l1 c1]|[o1 l1]]; intros Heq; inversion Heq; subst.
  - discriminate.
  - apply H. exact Hn.
Qed.

(* two step results agree up to the input field, unless one of them is the slice panic *)
Definition is_slice_panic (r : res) : Prop := exists l, r = inr (OPanic TagSlice, l).

Definition res_eq (r1 r2 : res) : Prop :=
  match r1, r2 with
  | inl (l1, c1), inl (l2, c2) => c1 = c2 /\ lex_eq_upto_input l1 l2
  | inr (o1, l1), inr (o2, l2) => o1 = o2 /\ lex_eq_upto_input l1 l2
  | _, _ => False
  end.

Definition sim (r1 r2 : res) : Prop := res_eq r1 r2 \/ is_slice_panic r1 \/ is_slice_panic r2.

Hypothesis Hblind : text_blind.

(* work with l2 = set_input l1 i2, l1 = set_input l1 i1: a common skeleton, two inputs *)
Lemma run_action_sim : forall l i1 i2 a,
  sim (run_action (set_input l i1) a) (run_action (set_input l i2) a).
Proof.
  intros l i1 i2 a. unfold Runtime.run_action, Runtime.make_view.
  cbn [set_input Runtime.l_input Runtime.l_mstart Runtime.l_mend Runtime.l_iter Runtime.l_user
       Runtime.l_state Runtime.l_done Runtime.l_initial Runtime.l_iter_loc Runtime.l_last].
  (* the two views *)
  assert (V : forall i,
    (exists t, (match i with
                | Some inp =>
                    match slice_bytes inp (byte_idx (l_mstart l)) (byte_idx (l_mend l)) with
                    | Some t => Ok (mkView t (l_mstart l) (l_mend l) (hd_error (l_iter l)))
                    | None => Panic TagSlice
                    end
                | None => Ok (mkView [] (l_mstart l) (l_mend l) (hd_error (l_iter l)))
                end) = Ok (mkView t (l_mstart l) (l_mend l) (hd_error (l_iter l)))) \/
    (match i with
     | Some inp =>
         match slice_bytes inp (byte_idx (l_mstart l)) (byte_idx (l_mend l)) with
         | Some t => Ok (mkView t (l_mstart l) (l_mend l) (hd_error (l_iter l)))
         | None => Panic TagSlice
         end
     | None => Ok (mkView [] (l_mstart l) (l_mend l) (hd_error (l_iter l)))
     end) = Panic TagSlice).
  { intros [inp|].
    - destruct (slice_bytes inp _ _) as [t|]; [left; exists t; reflexivity|right; reflexivity].
    - left; exists []; reflexivity. }
  destruct (V i1) as [[t1 ->] | ->]; [|right; left; eexists; reflexivity].
  destruct (V i2) as [[t2 ->] | ->]; [|right; right; eexists; reflexivity].
  left.
  rewrite (Hblind a (mkView t1 (l_mstart l) (l_mend l) (hd_error (l_iter l)))
                    (mkView t2 (l_mstart l) (l_mend l) (hd_error (l_iter l))) (l_user l)
                  eq_refl eq_refl eq_refl).
  set (o := actions a _ (l_user l)).
  destruct (a_switch o) as [n|].
  - destruct (switch_target prog n) as [s|t].
    + destruct (a_res o) as [|[t|x]]; cbn; (split; [reflexivity|]);
        unfold lex_eq_upto_input; cbn; repeat split; reflexivity.
    + cbn. split; [reflexivity|]. unfold lex_eq_upto_input; cbn; repeat split; reflexivity.
  - destruct (a_res o) as [|[t|x]]; cbn; (split; [reflexivity|]);
      unfold lex_eq_upto_input; cbn; repeat split; reflexivity.
Qed.

Lemma first_passing_input : forall l i accs,
  first_passing (set_input l i) accs = first_passing l accs.
Proof.
  intros l i accs. induction accs as [|[a ctx] rest IH]; cbn [Runtime.first_passing];
    [reflexivity|].
  rewrite IH. reflexivity.
Qed.

Lemma sim_eq_intro : forall (f : option (list N) -> res) i1 i2,
  res_eq (f i1) (f i2) -> sim (f i1) (f i2).
Proof. intros f i1 i2 H. left; exact H. Qed.

Ltac leq_refl := unfold lex_eq_upto_input; cbn; repeat split; reflexivity.

Lemma do_fail_sim : forall st l i1 i2,
  sim (do_fail st (set_input l i1)) (do_fail st (set_input l i2)).
Proof.
  intros st l i1 i2. unfold Runtime.do_fail.
  cbn [set_input Runtime.l_input Runtime.l_mstart Runtime.l_mend Runtime.l_iter Runtime.l_user
       Runtime.l_state Runtime.l_done Runtime.l_initial Runtime.l_iter_loc Runtime.l_last].
  destruct (d_bt st || is_accepting st).
  - destruct (l_last l) as [[[[ms it] a] me]|].
    + apply (run_action_sim
               (mkL (l_state l) false (l_initial l) (l_user l) None it me ms me None) i1 i2 a).
    + left. cbn. split; [reflexivity|]. leq_refl.
  - left. cbn. split; [reflexivity|]. leq_refl.
Qed.

Definition default_sim (d : lexer -> res) : Prop :=
  forall l i1 i2, sim (d (set_input l i1)) (d (set_input l i2)).

Lemma do_accept_sim : forall accs d, default_sim d ->
  forall l i1 i2, sim (do_accept (set_input l i1) accs d) (do_accept (set_input l i2) accs d).
Proof.
  intros accs d Hd l i1 i2. unfold Runtime.do_accept. rewrite !first_passing_input.
  destruct (first_passing l accs) as [a|]; [|apply Hd].
  apply (run_action_sim (set_last l None) i1 i2 a).
Qed.

Lemma do_trans_sim : forall t d, default_sim d ->
  forall l i1 i2, sim (do_trans (set_input l i1) t d) (do_trans (set_input l i2) t d).
Proof.
  intros t d Hd l i1 i2. unfold Runtime.do_trans. destruct t as [n|accs].
  - destruct (set_mem n (p_inlined prog)); left; cbn; (split; [reflexivity|]); leq_refl.
  - apply do_accept_sim; exact Hd.
Qed.

Lemma run_state_sim : forall s l i1 i2,
  sim (run_state s (set_input l i1)) (run_state s (set_input l i2)).
Proof.
  intros s l i1 i2. unfold Runtime.run_state.
  set (st := dget (p_states prog) s).
  rewrite !first_passing_input.
  assert (Hdef : default_sim (fun l' => match d_any st with
                                        | Some t => do_trans l' t (do_fail st)
                                        | None => do_fail st l' end)).
  { intros l' j1 j2. destruct (d_any st) as [t|].
    - apply do_trans_sim. intros l'' k1 k2. apply do_fail_sim.
    - apply do_fail_sim. }
  assert (Heoi : default_sim (fun l' => if s =? 0 then inr (ONone, l') else do_fail st l')).
  { intros l' j1 j2. destruct (s =? 0).
    - left. cbn. split; [reflexivity|]. leq_refl.
    - apply do_fail_sim. }
  (* l1 on both sides: set_input of a common skeleton *)
  set (k := match first_passing l (d_acc st) with
            | Some a => set_last l (Some (l_mstart l, l_iter l, a, l_mend l))
            | None => l end).
  assert (K : forall i,
    match first_passing l (d_acc st) with
    | Some a => set_last (set_input l i)
                  (Some (l_mstart (set_input l i), l_iter (set_input l i), a,
                         l_mend (set_input l i)))
    | None => set_input l i end = set_input k i).
  { intros i. unfold k. destruct (first_passing l (d_acc st)); reflexivity. }
  rewrite !K.
  unfold Runtime.read_char.
  cbn [set_input Runtime.l_input Runtime.l_mstart Runtime.l_mend Runtime.l_iter Runtime.l_user
       Runtime.l_state Runtime.l_done Runtime.l_initial Runtime.l_iter_loc Runtime.l_last].
  destruct (l_iter k) as [|c rest].
  - destruct (d_eoi st) as [[n|accs]|].
    + left. cbn. split; [reflexivity|]. leq_refl.
    + apply (do_accept_sim accs _ Heoi (set_done k true) i1 i2).
    + apply (Heoi (set_done k true) i1 i2).
  - set (k2 := mkL (l_state k) (l_done k) (l_initial k) (l_user k) None rest (l_iter_loc k)
                   (l_mstart k) (advance width tab_width (l_mend k) c) (l_last k)).
    destruct (lookup_char (p_max_guard prog) st c) as [t|].
    + apply (do_trans_sim t _ Hdef k2 i1 i2).
    + apply (Hdef k2 i1 i2).
Qed.

Lemma step_sim : forall l i1 i2 c,
  sim (step (set_input l i1, c)) (step (set_input l i2, c)).
Proof.
  intros l i1 i2 c. unfold Runtime.step. destruct c as [|s].
  - cbn [set_input Runtime.l_done Runtime.l_state].
    destruct (l_done l).
    + left. cbn. split; [reflexivity|]. leq_refl.
    + destruct (arm_lookup (p_arms prog) (l_state l)); left; cbn; (split; [reflexivity|]);
        leq_refl.
  - apply run_state_sim.
Qed.

Lemma step_sim' : forall l1 l2 c, lex_eq_upto_input l1 l2 ->
  sim (step (l1, c)) (step (l2, c)).
Proof.
  intros l1 l2 c H. apply lex_eq_set_input in H.
  assert (H1 : l1 = set_input l1 (l_input l1)) by (destruct l1; reflexivity).
  rewrite H, H1. cbn [set_input Runtime.l_input].
  change (sim (step (set_input l1 (l_input l1), c)) (step (set_input l1 (l_input l2), c))).
  apply step_sim.
Qed.

Lemma iter_sim : forall n l1 l2 c, lex_eq_upto_input l1 l2 ->
  sim (iter_nat n step (l1, c)) (iter_nat n step (l2, c)).
Proof.
  induction n as [|n IH]; intros l1 l2 c H; cbn [iter_nat].
  - left. cbn. split; [reflexivity|exact H].
  - destruct (step_sim' l1 l2 c H) as [He|[[l Hp]|[l Hp]]].
    + destruct (step (l1, c)) as [[l1' c1]|[o1 l1']], (step (l2, c)) as [[l2' c2]|[o2 l2']];
        cbn in He; try contradiction.
      * destruct He as [-> He]. apply IH; exact He.
      * left. exact He.
    + rewrite Hp. right; left. exists l; reflexivity.
    + rewrite Hp. right; right. exists l; reflexivity.
Qed.

Theorem next_input_independent : forall fuel l1 l2 o1 l1' o2 l2',
  lex_eq_upto_input l1 l2 ->
  next fuel l1 = (o1, l1') -> next fuel l2 = (o2, l2') ->
  o1 <> OPanic TagSlice -> o2 <> OPanic TagSlice ->
  o1 = o2 /\ lex_eq_upto_input l1' l2'.
Proof.
  intros fuel l1 l2 o1 l1' o2 l2' H. rewrite !next_iter_nat.
  destruct (iter_sim (Pos.to_nat fuel) l1 l2 CLoop H) as [He|[[l Hp]|[l Hp]]].
  - destruct (iter_nat _ _ (l1, CLoop)) as [[k1 c1]|[p1 k1]],
             (iter_nat _ _ (l2, CLoop)) as [[k2 c2]|[p2 k2]]; cbn in He; try contradiction.
    + destruct He as [_ He]. intros E1 E2 _ _. inversion E1; inversion E2; subst.
      split; [reflexivity|exact He].
    + destruct He as [-> He]. intros E1 E2 _ _. inversion E1; inversion E2; subst.
      split; [reflexivity|exact He].
  - rewrite Hp. intros E1 _ N1 _. inversion E1; subst. contradiction N1; reflexivity.
  - rewrite Hp. intros _ E2 _ N2. inversion E2; subst. contradiction N2; reflexivity.
Qed.

(* the str constructors against the iterator constructors: the iterator lexer (input = None)
   never slice-panics, so it reproduces every call of the str lexer that does not *)
Corollary next_str_vs_iter : forall fuel l1 l2 o1 l1',
  lex_eq_upto_input l1 l2 -> l_input l2 = None ->
  next fuel l1 = (o1, l1') -> o1 <> OPanic TagSlice ->
  exists l2', next fuel l2 = (o1, l2') /\ lex_eq_upto_input l1' l2' /\ l_input l2' = None.
Proof.
  intros fuel l1 l2 o1 l1' He Hn H1 N1.
  destruct (next fuel l2) as [o2 l2'] eqn:H2.
  pose proof (next_iter_no_slice_panic fuel l2 o2 l2' Hn H2) as N2.
  destruct (next_input_independent fuel l1 l2 o1 l1' o2 l2' He H1 H2 N1 N2) as [-> He'].
  exists l2'. split; [reflexivity|]. split; [exact He'|].
  rewrite (next_input_preserved fuel l2 o2 l2' H2). exact Hn.
Qed.

(* sequences of calls *)
Theorem run_n_input_independent : forall fuel n l1 l2 xs1 l1' xs2 l2',
  lex_eq_upto_input l1 l2 ->
  run_n fuel n l1 = (xs1, l1') -> run_n fuel n l2 = (xs2, l2') ->
  ~ In (OPanic TagSlice) xs1 -> ~ In (OPanic TagSlice) xs2 ->
  xs1 = xs2 /\ lex_eq_upto_input l1' l2'.
Proof.
  intros fuel n; induction n as [|n IH]; intros l1 l2 xs1 l1' xs2 l2' He; cbn [run_n].
  - intros E1 E2 _ _. inversion E1; inversion E2; subst. split; [reflexivity|exact He].
  - destruct (next fuel l1) as [o1 k1] eqn:N1. destruct (next fuel l2) as [o2 k2] eqn:N2.
    destruct (run_n fuel n k1) as [ys1 m1] eqn:R1. destruct (run_n fuel n k2) as [ys2 m2] eqn:R2.
    intros E1 E2 I1 I2. inversion E1; inversion E2; subst.
    destruct (next_input_independent fuel l1 l2 o1 k1 o2 k2 He N1 N2) as [-> He1].
    + intros ->. apply I1. left; reflexivity.
    + intros ->. apply I2. left; reflexivity.
    + destruct (IH k1 k2 ys1 l1' ys2 l2' He1 R1 R2) as [-> He2].
      * intros H. apply I1. right; exact H.
      * intros H. apply I2. right; exact H.
      * split; [reflexivity|exact He2].
Qed.

(* with_input_str / with_input_iter on the same characters *)
Corollary constructors_same_stream : forall fuel n input u xs1 l1' xs2 l2',
  run_n fuel n (lexer_new input u true) = (xs1, l1') ->
  run_n fuel n (lexer_new input u false) = (xs2, l2') ->
  ~ In (OPanic TagSlice) xs1 -> ~ In (OPanic TagSlice) xs2 ->
  xs1 = xs2 /\ lex_eq_upto_input l1' l2'.
Proof.
  intros fuel n input u xs1 l1' xs2 l2'. apply run_n_input_independent.
  apply constructors_differ_only_in_input.
Qed.

End RuntimeLemmas.

(* ================================================================== *)
(* 6. Sugar forms of semantic actions (C10), on the Harness menu       *)
(* ================================================================== *)
Section Sugar.
Variable aid : nat.
Variable v : view.
Variable u : ustate.

(* `re,` is  `re => |lexer| { lexer.reset_match(); lexer.continue_() }`, user state untouched *)
Theorem menu_action_skip : menu_action aid KSkip v u = body_out BResetCont u.
Proof. reflexivity. Qed.

Theorem menu_action_skip_fields :
  a_reset (menu_action aid KSkip v u) = a_reset (body_out BResetCont u) /\
  a_switch (menu_action aid KSkip v u) = a_switch (body_out BResetCont u) /\
  a_res (menu_action aid KSkip v u) = a_res (body_out BResetCont u) /\
  a_user (menu_action aid KSkip v u) = a_user (body_out BResetCont u).
Proof. repeat split; reflexivity. Qed.

Theorem menu_action_skip_explicit :
  a_reset (menu_action aid KSkip v u) = true /\
  a_switch (menu_action aid KSkip v u) = None /\
  a_res (menu_action aid KSkip v u) = AContinue /\
  a_user (menu_action aid KSkip v u) = u.
Proof. repeat split; reflexivity. Qed.

(* `re = tok,` is `re => |lexer| lexer.return_(tok)` : no reset, no switch, no logging *)
Theorem menu_action_simple : forall t, menu_action aid (KSimple t) v u = body_out (BRet t) u.
Proof. reflexivity. Qed.

Theorem menu_action_simple_explicit : forall t,
  a_reset (menu_action aid (KSimple t) v u) = false /\
  a_switch (menu_action aid (KSimple t) v u) = None /\
  a_res (menu_action aid (KSimple t) v u) = AReturn (inl t) /\
  a_user (menu_action aid (KSimple t) v u) = u.
Proof. intros t. repeat split; reflexivity. Qed.

Theorem menu_action_inf : forall b, menu_action aid (KInf b) v u = body_out b (log_view aid v u).
Proof. reflexivity. Qed.

Theorem menu_action_fal : forall b, menu_action aid (KFal b) v u = body_out b (log_view aid v u).
Proof. reflexivity. Qed.

(* a body never changes the user state it is given: only the logging does *)
Theorem body_out_user : forall b u0, a_user (body_out b u0) = u0.
Proof. intros b u0. destruct b; reflexivity. Qed.

End Sugar.

Print Assumptions utf8_len_bounds.
Print Assumptions advance_byte_idx.
Print Assumptions advance_newline.
Print Assumptions advance_tab.
Print Assumptions advance_other.
Print Assumptions advance_line.
Print Assumptions advance_col.
Print Assumptions advance_loc_lt.
Print Assumptions advance_all_app.
Print Assumptions loc_of_prefix_app.
Print Assumptions advance_all_byte_idx.
Print Assumptions loc_of_prefix_byte_idx.
Print Assumptions advance_all_loc_le.
Print Assumptions advance_all_loc_lt.
Print Assumptions advance_all_line_mono.
Print Assumptions read_char_none.
Print Assumptions read_char_some.
Print Assumptions read_char_cases.
Print Assumptions read_char_mend_le.
Print Assumptions reset_match_mstart.
Print Assumptions reset_match_other.
Print Assumptions next_invariant.
Print Assumptions next_done.
Print Assumptions next_none_sets_done.
Print Assumptions next_none_fused.
Print Assumptions spec_ended.
Print Assumptions spec_step_ended.
Print Assumptions run_n_add.
Print Assumptions run_n_snapshot.
Print Assumptions run_n_done.
Print Assumptions stream_fused.
Print Assumptions next_usteps.
Print Assumptions next_user_invariant.
Print Assumptions next_user_unchanged.
Print Assumptions run_n_usteps.
Print Assumptions constructors_differ_only_in_input.
Print Assumptions next_input_preserved.
Print Assumptions next_iter_no_slice_panic.
Print Assumptions next_input_independent.
Print Assumptions next_str_vs_iter.
Print Assumptions run_n_input_independent.
Print Assumptions constructors_same_stream.
Print Assumptions menu_action_skip.
Print Assumptions menu_action_skip_fields.
Print Assumptions menu_action_simple.
Print Assumptions menu_action_inf.
Print Assumptions menu_action_fal.
Print Assumptions body_out_user.
