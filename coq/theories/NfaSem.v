(* Semantics of the NFA and DFA models: paths, subset steps, DFA lookup; and the local
   certificate conditions of DESIGN.md section 5 (dfa_closed, flags_sound) as Props and as
   boolean checkers that the correspondence check runs on the implementation's dumped automata. *)
From LexVerif Require Import Base CharClass RangeMap Regex Spec Nfa Dfa NfaToDfa.

(* ---------- NFA ---------- *)

(* targets of state s on character c: char map, every range piece containing c, any *)
Definition n_char_targets (st : nstate) (c : N) : list nat :=
  (match assoc_N c (n_chars st) with Some l => l | None => [] end)
  ++ flat_map (fun r => if in_range r c then r_val r else []) (n_ranges st)
  ++ n_any st.

Definition n_sym_targets (st : nstate) (x : sym) : list nat :=
  match x with Chr c => n_char_targets st c | Eoi => n_eoi st end.

(* words over valid characters (inputs are Unicode scalar values); `_` matches every character *)
Definition sym_ok (x : sym) : Prop := match x with Chr c => (c <= CHAR_MAX)%N | Eoi => True end.
Definition word_ok (w : list sym) : Prop := Forall sym_ok w.

Inductive npath (n : nfa) : nat -> list sym -> nat -> Prop :=
| NP_refl s : npath n s [] s
| NP_eps s t u w : In t (n_eps (nget n s)) -> npath n t w u -> npath n s w u
| NP_sym s t u x w : In t (n_sym_targets (nget n s) x) -> npath n t w u -> npath n s (x :: w) u.

(* the NFA accepts w for (rule value v, context ctx): some path from state 0 ends in a state
   accepting with that value *)
Definition naccepts (n : nfa) (w : list sym) (a : accval) : Prop :=
  exists s, npath n 0 w s /\ n_acc (nget n s) = Some a.

(* all transition targets are states of the automaton *)
Definition nfa_targets_ok (n : nfa) : Prop :=
  forall s t, s < length n ->
    (In t (n_eps (nget n s)) \/ In t (n_any (nget n s)) \/ In t (n_eoi (nget n s))
     \/ (exists c l, assoc_N c (n_chars (nget n s)) = Some l /\ In t l)
     \/ (exists r, In r (n_ranges (nget n s)) /\ In t (r_val r))) -> t < length n.

(* ---------- subset semantics ---------- *)

(* states reachable from the set S by one x-transition (not yet closed) *)
Definition set_step (n : nfa) (S : list nat) (x : sym) : list nat :=
  set_of_list (flat_map (fun s => n_sym_targets (nget n s) x) S).

(* accepting values of the states of S, in state order (= rule priority order) *)
Definition set_accepting (n : nfa) (S : list nat) : list accval :=
  flat_map (fun s => match n_acc (nget n s) with Some a => [a] | None => [] end) S.

(* ---------- DFA ---------- *)

(* transition selected for character c: char transition, else range piece, else any *)
Definition dfa_char_next {T} (st : dstate T) (c : N) : option T :=
  match assoc_N c (d_chars st) with
  | Some t => Some t
  | None => match lookup (d_ranges st) c with
            | Some t => Some t
            | None => d_any st
            end
  end.

Definition dfa_next {T} (st : dstate T) (x : sym) : option T :=
  match x with Chr c => dfa_char_next st c | Eoi => d_eoi st end.

Fixpoint dfa_run (d : dfa nat) (s : nat) (w : list sym) : option nat :=
  match w with
  | [] => Some s
  | x :: w' => match dfa_next (dget d s) x with Some t => dfa_run d t w' | None => None end
  end.

Definition label_of (m : state_map) (i : nat) : option (list nat) :=
  option_map fst (find (fun e => snd e =? i) m).

(* dfa_closed: the DFA with labelling m is the subset automaton of n *)
Record dfa_closed (n : nfa) (d : dfa nat) (m : state_map) : Prop := {
  dc_init : label_of m 0 = Some (match closure n [0] with Ok c => c | Panic _ => [] end)
            /\ is_ok (closure n [0]) = true;
  dc_total : forall i, i < length d -> exists S, label_of m i = Some S;
  dc_step : forall i S x, i < length d -> label_of m i = Some S ->
      match closure n (set_step n S x) with
      | Panic _ => False
      | Ok [] => dfa_next (dget d i) x = None
      | Ok S' => exists j, dfa_next (dget d i) x = Some j /\ j < length d /\ label_of m j = Some S'
      end;
  dc_acc : forall i S, i < length d -> label_of m i = Some S -> d_acc (dget d i) = set_accepting n S
}.

(* flags_sound: see BacktrackProofs; boolean version for dumped automata *)
Definition flags_sound_b (d : dfa nat) : bool :=
  forallb (fun st => negb (d_bt st || is_accepting st)
                     || forallb (fun t => d_bt (dget d t)) (successors st)) d.
