(* Model of crates/lexgen/src/nfa_to_dfa.rs. Hash-map iterations are modelled in ascending key
   order; artifacts are compared with the implementation under NFA-state-set labels. *)
From LexVerif Require Import Base CharClass RangeMap Regex Nfa Dfa.

Definition state_map := list (list nat * nat).

Fixpoint sm_find (m : state_map) (k : list nat) : option nat :=
  match m with
  | [] => None
  | (k', v) :: t => if list_nat_eqb k k' then Some v else sm_find t k
  end.

(* dfa_state_of_nfa_states *)
Definition dfa_state_of (d : dfa nat) (m : state_map) (k : list nat) : dfa nat * state_map * nat :=
  match sm_find m k with
  | Some v => (d, m, v)
  | None => let (d', v) := dfa_new_state d in (d', m ++ [(k, v)], v)
  end.

Record n2d := mkN2D {
  w_dfa : dfa nat;
  w_map : state_map;
  w_work : list (list nat);       (* head = top of the stack *)
  w_done : list nat               (* finished_dfa_states *)
}.

(* merged transitions of the NFA states of one DFA state *)
Definition collect_chars (n : nfa) (states : list nat) : list (N * list nat) :=
  fold_left (fun acc s =>
               fold_left (fun acc' p =>
                            let old := match assoc_N (fst p) acc' with Some l => l | None => [] end in
                            assoc_N_set (fst p) (set_union old (snd p)) acc')
                         (n_chars (nget n s)) acc)
            states [].

Definition collect_ranges (n : nfa) (states : list nat) : rmap (list nat) :=
  fold_left (fun acc s =>
               fold_left (fun acc' r => insert set_union acc' (r_lo r) (r_hi r) (r_val r))
                         (n_ranges (nget n s)) acc)
            states [].

Definition collect_any (n : nfa) (states : list nat) : list nat :=
  fold_left (fun acc s => set_union acc (n_any (nget n s))) states [].

Definition collect_eoi (n : nfa) (states : list nat) : list nat :=
  fold_left (fun acc s => set_union acc (n_eoi (nget n s))) states [].

(* process one popped set of NFA states (body of the while loop) *)
Definition n2d_process (n : nfa) (cur_states : list nat) (w : n2d) : result n2d :=
  let '(d0, m0, cur) :=
    match sm_find (w_map w) cur_states with
    | Some v => (w_dfa w, w_map w, v)
    | None => let (d', v) := dfa_new_state (w_dfa w) in (d', w_map w ++ [(cur_states, v)], v)
    end in
  if set_mem cur (w_done w) then Ok (mkN2D d0 m0 (w_work w) (w_done w))
  else
    let done' := set_add cur (w_done w) in
    let d1 := fold_left (fun d s => match n_acc (nget n s) with
                                    | Some v => dfa_make_accepting d cur v
                                    | None => d end) cur_states d0 in
    let chars := collect_chars n cur_states in
    let ranges := collect_ranges n cur_states in
    let anys := collect_any n cur_states in
    let eois := collect_eoi n cur_states in
    (* char transitions *)
    do st1 <-
      fold_left (fun (acc : result (dfa nat * state_map * list (list nat))) p =>
                   do a <- acc;
                   let '(d, m, work) := a in
                   let with_ranges :=
                     fold_left (fun s r => if in_range r (fst p) then set_union s (r_val r) else s)
                               ranges (snd p) in
                   let targets := set_union with_ranges anys in
                   do clo <- closure n targets;
                   let '(d', m', t) := dfa_state_of d m clo in
                   do d'' <- dfa_add_char_transition d' cur (fst p) t;
                   Ok (d'', m', clo :: work))
                chars (Ok (d1, m0, w_work w));
    let '(d2, m2, work2) := st1 in
    (* range transitions *)
    do st2 <-
      fold_left (fun (acc : result (dfa nat * state_map * list (list nat) * rmap nat)) r =>
                   do a <- acc;
                   let '(d, m, work, out) := a in
                   do clo <- closure n (set_union (r_val r) anys);
                   let '(d', m', t) := dfa_state_of d m clo in
                   Ok (d', m', clo :: work, out ++ [mkRange (r_lo r) (r_hi r) t]))
                ranges (Ok (d2, m2, work2, []));
    let '(d3, m3, work3, dranges) := st2 in
    do d4 <- dfa_set_range_transitions d3 cur dranges;
    (* any transition *)
    do clo_any <- closure n anys;
    do st3 <-
      match clo_any with
      | [] => Ok (d4, m3, work3)
      | _ => let '(d', m', t) := dfa_state_of d4 m3 clo_any in
             do d'' <- dfa_set_any d' cur t; Ok (d'', m', clo_any :: work3)
      end;
    let '(d5, m5, work5) := st3 in
    (* end-of-input transition *)
    do clo_eoi <- closure n eois;
    do st4 <-
      match clo_eoi with
      | [] => Ok (d5, m5, work5)
      | _ => let '(d', m', t) := dfa_state_of d5 m5 clo_eoi in
             do d'' <- dfa_set_eoi d' cur t; Ok (d'', m', clo_eoi :: work5)
      end;
    let '(d6, m6, work6) := st4 in
    Ok (mkN2D d6 m6 work6 done').

Definition n2d_step (n : nfa) (w : n2d) : n2d + result (dfa nat * state_map) :=
  match w_work w with
  | [] => inr (Ok (w_dfa w, w_map w))
  | cur :: rest =>
      match n2d_process n cur (mkN2D (w_dfa w) (w_map w) rest (w_done w)) with
      | Ok w' => inl w'
      | Panic t => inr (Panic t)
      end
  end.

Definition n2d_fuel : positive := 4294967296%positive.

Definition nfa_to_dfa_map (n : nfa) : result (dfa nat * state_map) :=
  do init <- closure n [0];
  match iter_pos n2d_fuel (n2d_step n) (mkN2D dfa_new [(init, 0)] [init] []) with
  | inl _ => Panic TagOutOfFuel
  | inr r => r
  end.

Definition nfa_to_dfa (n : nfa) : result (dfa nat) := do r <- nfa_to_dfa_map n; Ok (fst r).
