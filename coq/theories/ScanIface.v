(* Interface ("scanner facts") between the compiled program and the reference semantics:
   simplified-DFA states are related to derivative vectors of the active rule set.
   Definitions only.  RuntimeProofs.v proves the run-time simulation from [scan_ok];
   the compilation pipeline proofs establish [scan_ok] for compiled programs. *)
From LexVerif Require Import Base CharClass RangeMap Regex Spec SpecExec LexSpec Nfa Dfa Codegen.

Section ScanIface.
Variable benv : builtin_env.
Variable prog : program.
Variable rss : list (list crule).          (* rule sets; index 0 is Init *)
Variable cidx : nat -> option nat.         (* action index -> right-context index of its rule *)
Variable entry : nat -> nat.               (* simplified state where rule set k starts *)
Variable At : nat -> list N -> nat -> Prop.
  (* [At k p s]: after reading p from the entry of rule set k, control is at simplified state s *)

Definition rules_of (k : nat) : list crule := nth k rss [].

(* derivative of rule r after reading the characters p *)
Definition dafter (p : list N) (r : crule) : dre :=
  derivs benv (map Chr p) (of_regex benv (cr_re r)).

Definition dvec (k : nat) (p : list N) : list dre := map (dafter p) (rules_of k).

Definition acc_of (r : crule) : accval := (cr_act r, cidx (cr_act r)).

Definition accs_plain (k : nat) (p : list N) : list accval :=
  map acc_of (filter (fun r => nullable (dafter p r)) (rules_of k)).

Definition accs_eoi (k : nat) (p : list N) : list accval :=
  map acc_of (filter (fun r => nullable (deriv benv Eoi (dafter p r))) (rules_of k)).

Definition viable_b (k : nat) (p : list N) : bool := existsb (dnonempty benv) (dvec k p).
Definition ext_b (k : nat) (p : list N) : bool := existsb (dhasword benv) (dvec k p).

(* the transition the generated `match char` of state st selects for c, the `_` arm included *)
Definition trans_of (st : dstate trans) (c : N) : option trans :=
  match lookup_char (p_max_guard prog) st c with
  | Some t => Some t
  | None => d_any st
  end.

Notation stof s := (dget (p_states prog) s).

Record scan_ok : Prop := mkScanOk {
  (* ---- 1. start ---- *)
  so_entry0 : entry 0 = 0;
  so_entry_inj0 : forall k, k < length rss -> entry k = 0 -> k = 0;
  (* the lexer starts with __state = 0, and failures reset it to 0 *)
  so_arm0 : arm_lookup (p_arms prog) 0 = Some 0;
  so_start0 : At 0 [] (entry 0);
  so_start : forall k, k < length rss -> At k [] (entry k);
  so_switch : forall k, k < length (p_switch prog) ->
      k < length rss /\
      exists nm v, nth_error (p_switch prog) k = Some (nm, v) /\
                   arm_lookup (p_arms prog) v = Some (entry k);
  (* state 0 (initial state of Init) is never re-entered: it has no incoming transition *)
  so_nonzero : forall k p s, At k p s -> p <> [] -> s <> 0;
  (* ---- 2. dispatch of non-inlined states ---- *)
  so_dispatch : forall k p s, At k p s -> p <> [] ->
      set_mem s (p_inlined prog) = true \/
      arm_lookup (p_arms prog) (renumber (p_inlined prog) s) = Some s;
  (* ---- 3. accepting lists ---- *)
  so_not_nullable : forall k r, In r (rules_of k) -> nullable (of_regex benv (cr_re r)) = false;
  so_acc : forall k p s, At k p s -> d_acc (stof s) = accs_plain k p;
  (* ---- 4. character step (scalar characters) ---- *)
  so_step_dead : forall k p s c, At k p s -> is_scalar c = true ->
      viable_b k (p ++ [c]) = false -> trans_of (stof s) c = None;
  so_step_goto : forall k p s c, At k p s -> is_scalar c = true ->
      viable_b k (p ++ [c]) = true -> ext_b k (p ++ [c]) = true ->
      exists s', trans_of (stof s) c = Some (TGoto s') /\ At k (p ++ [c]) s';
  so_step_accept : forall k p s c, At k p s -> is_scalar c = true ->
      viable_b k (p ++ [c]) = true -> ext_b k (p ++ [c]) = false ->
      trans_of (stof s) c = Some (TAccept (accs_plain k (p ++ [c])));
  (* template quirk: an accepting character transition none of whose contexts holds falls
     through to the `_` transition *)
  so_quirk : forall k p s c accs, At k p s -> is_scalar c = true ->
      lookup_char (p_max_guard prog) (stof s) c = Some (TAccept accs) ->
      match d_any (stof s) with
      | None => True
      | Some (TAccept accs') => forall a, In a accs' -> In a accs
      | Some (TGoto _) => False
      end;
  (* ---- 5. end-of-input step ---- *)
  so_eoi : forall k p s, At k p s ->
      (d_eoi (stof s) = None /\ accs_eoi k p = []) \/
      d_eoi (stof s) = Some (TAccept (accs_eoi k p));
  (* ---- 6. backtrack flags ---- *)
  so_bt : forall k p s p0 q, At k p s -> p = p0 ++ q -> q <> [] ->
      accs_plain k p0 <> [] -> d_bt (stof s) = true;
  (* ---- 8. right contexts ---- *)
  so_ctx_none : forall k r, In r (rules_of k) -> (cidx (cr_act r) = None <-> cr_ctx r = None);
  so_ctx_run : forall k r i, In r (rules_of k) -> cidx (cr_act r) = Some i ->
      forall rest, Forall (fun c => is_scalar c = true) rest ->
      ctx_run (p_max_guard prog) (nth i (p_ctxs prog) []) 0 rest = ctx_ok benv (cr_ctx r) rest
}.

End ScanIface.
