(* Facts read off LexSpec.spec_step: what an error item means for the reference state. *)
From LexVerif Require Import Base CharClass Regex Spec SpecExec LexSpec.

Section Facts.
Variable benv : builtin_env.
Variable width : N -> N.
Variable tab_width : N.
Variables T E U : Type.
Variable rss : list (list crule).
Variable actions : nat -> action T E U.

Notation sstep := (spec_step benv width tab_width T E U rss actions).
Notation sel s := (select benv (nth (s_rs U s) rss []) (s_rest U s)).

(* InvalidToken is produced exactly when nothing matches (and the stream has not ended, and it
   is not the silent end in Init) *)
Lemma spec_invalid_iff : forall s,
  s_ended U s = false ->
  ((exists l s', sstep s = SItem T E U (IInvalid l) s') <->
   (sel s = None /\ (s_rest U s <> [] \/ s_rs U s <> 0))).
Proof.
  intros s Hne. unfold spec_step. rewrite Hne.
  destruct (sel s) as [[r [k e]]|] eqn:Es.
  - split.
    + intros [l [s' H]]. cbv zeta in H.
      destruct (a_res _) as [|[t|x]]; discriminate.
    + intros [H _]. discriminate.
  - destruct (s_rest U s) as [|c w] eqn:Ew.
    + destruct (Nat.eqb_spec (s_rs U s) 0) as [E0|E0].
      * split; [intros [l [s' H]]; discriminate | intros [_ [H|H]]; [congruence | contradiction]].
      * split; [intros _; split; [reflexivity | right; exact E0] | intros _; eauto].
    + destruct (viable benv (nth (s_rs U s) rss []) (c :: w)) as [k ext].
      split; [intros _; split; [reflexivity | left; discriminate] | intros _; eauto].
Qed.

(* its location is the start of the current match; afterwards: Init, user state untouched,
   empty match starting at the new position *)
Lemma spec_invalid_state : forall s l s',
  sstep s = SItem T E U (IInvalid l) s' ->
  l = s_mstart U s /\ s_rs U s' = 0 /\ s_user U s' = s_user U s /\
  s_mtext U s' = [] /\ s_mstart U s' = s_pos U s' /\
  exists n, s_rest U s' = skipn n (s_rest U s) /\
            s_pos U s' = advance_all width tab_width (s_pos U s) (firstn n (s_rest U s)) /\
            (s_rest U s <> [] -> 1 <= n).
Proof.
  intros s l s' H. unfold spec_step in H.
  destruct (s_ended U s); [discriminate|].
  destruct (sel s) as [[r [k e]]|] eqn:Es.
  - cbv zeta in H. destruct (a_res _) as [|[t|x]]; discriminate.
  - destruct (s_rest U s) as [|c w] eqn:Ew.
    + destruct (s_rs U s =? 0); [discriminate|]. inversion H; subst. cbn.
      repeat split. exists 0. cbn. repeat split. intro C. contradiction.
    + destruct (viable benv (nth (s_rs U s) rss []) (c :: w)) as [k ext].
      inversion H; subst. cbn [s_rs s_user s_mtext s_mstart s_pos s_rest].
      repeat split.
      exists (if (k =? 0) || ext then S k else k). repeat split.
      intros _. destruct (k =? 0) eqn:Ek; cbn [orb].
      * lia.
      * destruct ext; apply Nat.eqb_neq in Ek; lia.
Qed.

(* a custom error comes from the action of the selected match, unchanged, located at the match
   start (the position where the accumulated match began, or the lexeme end after reset_match) *)
Lemma spec_custom : forall s x l s',
  sstep s = SItem T E U (ICustom x l) s' ->
  exists r k e,
    sel s = Some (r, (k, e)) /\
    let pos' := advance_all width tab_width (s_pos U s) (firstn k (s_rest U s)) in
    let v := mkView (s_mtext U s ++ firstn k (s_rest U s)) (s_mstart U s) pos'
                    (hd_error (skipn k (s_rest U s))) in
    let o := actions (cr_act r) v (s_user U s) in
    a_res o = AReturn (inr x) /\ l = (if a_reset o then pos' else s_mstart U s).
Proof.
  intros s x l s' H. unfold spec_step in H.
  destruct (s_ended U s); [discriminate|].
  destruct (sel s) as [[r [k e]]|] eqn:Es.
  - cbv zeta in H. exists r, k, e. split; [reflexivity|]. cbv zeta.
    destruct (a_res _) as [|[t|y]] eqn:Er; try discriminate.
    inversion H; subst. split; reflexivity.
  - destruct (s_rest U s) as [|c w]; [destruct (s_rs U s =? 0); discriminate|].
    destruct (viable benv (nth (s_rs U s) rss []) (c :: w)) as [k ext]. discriminate.
Qed.

(* a token: the action of the selected match returned it; its span is (match start, lexeme end) *)
Lemma spec_token : forall s st t en s',
  sstep s = SItem T E U (ITok st t en) s' ->
  exists r k e,
    sel s = Some (r, (k, e)) /\
    let pos' := advance_all width tab_width (s_pos U s) (firstn k (s_rest U s)) in
    let v := mkView (s_mtext U s ++ firstn k (s_rest U s)) (s_mstart U s) pos'
                    (hd_error (skipn k (s_rest U s))) in
    let o := actions (cr_act r) v (s_user U s) in
    a_res o = AReturn (inl t) /\ en = pos' /\ st = (if a_reset o then pos' else s_mstart U s) /\
    s_rest U s' = skipn k (s_rest U s) /\ s_mstart U s' = pos' /\ s_pos U s' = pos' /\
    s_rs U s' = (match a_switch o with Some n => n | None => s_rs U s end).
Proof.
  intros s st t en s' H. unfold spec_step in H.
  destruct (s_ended U s); [discriminate|].
  destruct (sel s) as [[r [k e]]|] eqn:Es.
  - cbv zeta in H. exists r, k, e. split; [reflexivity|]. cbv zeta.
    destruct (a_res _) as [|[t'|y]] eqn:Er; try discriminate.
    inversion H; subst. cbn. repeat split; reflexivity.
  - destruct (s_rest U s) as [|c w]; [destruct (s_rs U s =? 0); discriminate|].
    destruct (viable benv (nth (s_rs U s) rss []) (c :: w)) as [k ext]. discriminate.
Qed.

(* the rule set changes only by an action's switch or by a failure *)
Lemma spec_ruleset_change : forall s,
  match sstep s with
  | SItem _ _ _ _ s' | SCont _ _ _ s' | SEnd _ _ _ s' =>
      s_rs U s' = s_rs U s \/ s_rs U s' = 0 \/
      exists r k e v, sel s = Some (r, (k, e)) /\
                      a_switch (actions (cr_act r) v (s_user U s)) = Some (s_rs U s')
  end.
Proof.
  intro s. unfold spec_step. destruct (s_ended U s); [left; reflexivity|].
  destruct (sel s) as [[r [k e]]|] eqn:Es.
  - cbv zeta.
    match goal with |- context [actions (cr_act r) ?v (s_user U s)] => set (vv := v) end.
    destruct (a_switch (actions (cr_act r) vv (s_user U s))) as [n|] eqn:Esw.
    + destruct (a_res _) as [|[t|x]]; cbn; right; right; exists r, k, e, vv; (split; [reflexivity|exact Esw]).
    + destruct (a_res _) as [|[t|x]]; cbn; left; reflexivity.
  - destruct (s_rest U s) as [|c w].
    + destruct (s_rs U s =? 0); cbn; [left; reflexivity | right; left; reflexivity].
    + destruct (viable benv (nth (s_rs U s) rss []) (c :: w)) as [k ext]. cbn. right; left; reflexivity.
Qed.

End Facts.
