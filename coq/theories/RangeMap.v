(* Model of crates/lexgen/src/range_map.rs: RangeMap<A> = Vec<Range<A>>, inclusive u32 ranges.
   Each function mirrors the loop of the Rust function of the same name; the correspondence
   check runs both on the same operation sequences (harness: rangemap ops through the in-crate
   driver). Proofs are in RangeMapProofs.v. *)
From LexVerif Require Import Base.

Section RangeMap.
Context {A : Type}.

Record range := mkRange { r_lo : N; r_hi : N; r_val : A }.

Definition rmap := list range.

Definition in_range (r : range) (c : N) : bool := (r_lo r <=? c)%N && (c <=? r_hi r)%N.

(* Range::contains *)
Definition range_contains := in_range.

(* value of the piece containing c, first match in list order (pieces are disjoint when wf) *)
Fixpoint lookup (rs : rmap) (c : N) : option A :=
  match rs with
  | [] => None
  | r :: t => if in_range r c then Some (r_val r) else lookup t c
  end.

Definition covered (rs : rmap) (c : N) : bool :=
  match lookup rs c with Some _ => true | None => false end.

(* well-formed: every piece non-inverted, pieces strictly ascending and disjoint *)
Fixpoint wf_from (lb : option N) (rs : rmap) : bool :=
  match rs with
  | [] => true
  | r :: t =>
      (r_lo r <=? r_hi r)%N
      && (match lb with None => true | Some b => (b <? r_lo r)%N end)
      && wf_from (Some (r_hi r)) t
  end.
Definition wf (rs : rmap) : bool := wf_from None rs.

(* ---------------- RangeMap::insert ---------------- *)
(* [last] = end of the last range pushed to new_ranges so far (None: nothing pushed), used by the
   check after the loop. *)
Fixpoint insert_go (merge : A -> A -> A) (rs : rmap) (lo hi : N) (v : A) (last : option N) : rmap :=
  match rs with
  | [] =>
      if (match last with None => true | Some e => (e <? lo)%N end)
      then [mkRange lo hi v] else []
  | r :: rest =>
      if (r_hi r <? lo)%N then r :: insert_go merge rest lo hi v (Some (r_hi r))
      else if (hi <? r_lo r)%N then mkRange lo hi v :: r :: rest
      else
        let os := N.max lo (r_lo r) in
        let oe := N.min hi (r_hi r) in
        (if (lo <? os)%N then [mkRange lo (os - 1) v]
         else if (r_lo r <? os)%N then [mkRange (r_lo r) (os - 1) (r_val r)]
         else [])
        ++ mkRange os oe (merge (r_val r) v)
        :: (if (oe <? r_hi r)%N then mkRange (oe + 1) (r_hi r) (r_val r) :: rest
            else if (oe <? hi)%N then insert_go merge rest (oe + 1) hi v (Some oe)
            else rest)
  end.

Definition insert (merge : A -> A -> A) (rs : rmap) (lo hi : N) (v : A) : rmap :=
  insert_go merge rs lo hi v None.

(* ---------------- RangeMap::insert_ranges ---------------- *)
(* The Rust loop keeps two mutable heads. An iteration that pushes the part before an overlap
   only shortens one head and is always followed by the "ranges start at the same point"
   iteration; the model performs both in one step, so every step consumes a head.
   Fuel: length l1 + length l2 + 1 steps always suffice (RangeMapProofs.insert_ranges_fuel). *)
Fixpoint insert_ranges_go (merge : A -> A -> A) (fuel : nat)
         (h1 : option range) (l1 : rmap) (h2 : option range) (l2 : rmap) : option rmap :=
  match fuel with
  | O => None
  | S fuel' =>
      let next1 := match l1 with [] => (None, []) | x :: t => (Some x, t) end in
      let next2 := match l2 with [] => (None, []) | x :: t => (Some x, t) end in
      match h1, h2 with
      | None, None => Some []
      | Some r1, None => Some (r1 :: l1)
      | None, Some r2 => Some (r2 :: l2)
      | Some r1, Some r2 =>
          if (r_hi r1 <? r_lo r2)%N then
            option_map (cons r1) (insert_ranges_go merge fuel' (fst next1) (snd next1) h2 l2)
          else if (r_hi r2 <? r_lo r1)%N then
            option_map (cons r2) (insert_ranges_go merge fuel' h1 l1 (fst next2) (snd next2))
          else
            let os := N.max (r_lo r1) (r_lo r2) in
            let oe := N.min (r_hi r1) (r_hi r2) in
            let pre :=
              if (r_lo r1 <? r_lo r2)%N then [mkRange (r_lo r1) (os - 1) (r_val r1)]
              else if (r_lo r2 <? r_lo r1)%N then [mkRange (r_lo r2) (os - 1) (r_val r2)]
              else [] in
            let merged := mkRange os oe (merge (r_val r1) (r_val r2)) in
            let rest :=
              if (r_hi r1 <? r_hi r2)%N then
                insert_ranges_go merge fuel' (fst next1) (snd next1)
                                 (Some (mkRange (oe + 1) (r_hi r2) (r_val r2))) l2
              else if (r_hi r2 <? r_hi r1)%N then
                insert_ranges_go merge fuel' (Some (mkRange (oe + 1) (r_hi r1) (r_val r1))) l1
                                 (fst next2) (snd next2)
              else
                insert_ranges_go merge fuel' (fst next1) (snd next1) (fst next2) (snd next2) in
            option_map (fun t => pre ++ merged :: t) rest
      end
  end.

Definition insert_ranges (merge : A -> A -> A) (rs1 rs2 : rmap) : option rmap :=
  let h1 := match rs1 with [] => (None, []) | x :: t => (Some x, t) end in
  let h2 := match rs2 with [] => (None, []) | x :: t => (Some x, t) end in
  insert_ranges_go merge (length rs1 + length rs2 + 1) (fst h1) (snd h1) (fst h2) (snd h2).

End RangeMap.

Arguments range : clear implicits.
Arguments rmap : clear implicits.

(* ---------------- RangeMap::remove_ranges (the removed map has another value type) ---------- *)
Section Remove.
Context {A B : Type}.

(* old head [ho] (mutable start), old tail, removed head, removed tail.
   Case (3) of the Rust (overlap in the middle of the old range) shortens the old head; the next
   Rust iteration then always advances the removed range (removed.end < old.start); as above the
   model does that in the same step. Fuel: length old + length removed + 1. *)
Fixpoint remove_go (fuel : nat) (ho : option (range A)) (lo_ : rmap A)
         (hr : option (range B)) (lr : rmap B) : option (rmap A) :=
  match fuel with
  | O => None
  | S fuel' =>
      let nexto := match lo_ with [] => (None, []) | x :: t => (Some x, t) end in
      let nextr := match lr with [] => (None, []) | x :: t => (Some x, t) end in
      match ho, hr with
      | None, _ => Some []
      | Some o, None => Some (o :: lo_)
      | Some o, Some r =>
          if (r_hi o <? r_lo r)%N then
            option_map (cons o) (remove_go fuel' (fst nexto) (snd nexto) hr lr)
          else if (r_hi r <? r_lo o)%N then
            remove_go fuel' ho lo_ (fst nextr) (snd nextr)
          else
            let os := N.max (r_lo o) (r_lo r) in
            let oe := N.min (r_hi o) (r_hi r) in
            if (os =? r_lo o)%N then
              if (oe =? r_hi o)%N then
                remove_go fuel' (fst nexto) (snd nexto) hr lr
              else
                remove_go fuel' (Some (mkRange (oe + 1) (r_hi o) (r_val o))) lo_
                          (fst nextr) (snd nextr)
            else if (oe =? r_hi o)%N then
              option_map (cons (mkRange (r_lo o) (os - 1) (r_val o)))
                         (remove_go fuel' (fst nexto) (snd nexto) hr lr)
            else
              option_map (cons (mkRange (r_lo o) (os - 1) (r_val o)))
                         (remove_go fuel' (Some (mkRange (oe + 1) (r_hi o) (r_val o))) lo_
                                    (fst nextr) (snd nextr))
      end
  end.

Definition remove_ranges (old : rmap A) (removed : rmap B) : option (rmap A) :=
  let ho := match old with [] => (None, []) | x :: t => (Some x, t) end in
  let hr := match removed with [] => (None, []) | x :: t => (Some x, t) end in
  remove_go (length old + length removed + 1) (fst ho) (snd ho) (fst hr) (snd hr).

Definition rmap_map (f : A -> B) (rs : rmap A) : rmap B :=
  map (fun r => mkRange (r_lo r) (r_hi r) (f (r_val r))) rs.

End Remove.
