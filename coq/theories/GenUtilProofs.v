(* lexgen_util::Lexer, as translated from its source on every run (gen/GenUtil.v, harness/gen_util.py), is the
   run-time library Runtime.v and GenCode.v assume: every translated method equals the operation the model uses
   in its place. A change of meaning in crates/lexgen_util/src/lib.rs breaks one of these proofs; a rewrite that
   computes the same function does not. *)
From Coq Require Import List NArith Lia Bool.
From LexVerif Require Import Base CharClass RangeMap Regex Nfa Dfa Codegen LexSpec Runtime GenCode.
From LexVerif.Gen Require Import GenConsts GenUtil.
Import ListNotations.

Section GenUtilProofs.
Variable width : N -> N.
Variables T E U : Type.

(* constructors *)
Theorem util_new_with_state_ok : forall input u,
  util_new_with_state U input u = lexer_new U input u true.
Proof. reflexivity. Qed.

Theorem util_new_from_iter_with_state_ok : forall iter u,
  util_new_from_iter_with_state U iter u = lexer_new U iter u false.
Proof. reflexivity. Qed.

(* Lexer::next = read_char, with the tab width found in the source *)
Theorem util_next_ok : forall l, util_next width U l = read_char width TAB_WIDTH U l.
Proof.
  intros [st dn ini us inp it il ms me la]. unfold util_next, read_char, advance.
  cbn [l_iter l_mend l_state l_done l_initial l_user l_input l_iter_loc l_mstart l_last].
  destruct it as [|c rest]; [reflexivity|].
  unfold U_iter, U_mend. cbn [l_iter l_mend l_state l_done l_initial l_user l_input l_iter_loc l_mstart l_last].
  destruct (c =? 10)%N; [reflexivity|]. destruct (c =? 9)%N; reflexivity.
Qed.

Theorem util_peek_ok : forall l, util_peek U l = hd_error (l_iter U l).
Proof. reflexivity. Qed.

Theorem util_reset_match_ok : forall l, util_reset_match U l = reset_match U l.
Proof. reflexivity. Qed.

Theorem util_reset_accepting_state_ok : forall l, util_reset_accepting_state U l = set_last U l None.
Proof. reflexivity. Qed.

Theorem util_set_accepting_state_ok : forall l a,
  util_set_accepting_state U l a = set_last U l (Some (l_mstart U l, l_iter U l, a, l_mend U l)).
Proof. reflexivity. Qed.

Theorem util_match_loc_ok : forall l, util_match_loc U l = (l_mstart U l, l_mend U l).
Proof. reflexivity. Qed.

Theorem util_state_ok : forall l, util_state U l = l_user U l.
Proof. reflexivity. Qed.

(* match_(): the text an action sees (Runtime.make_view) is the slice the method takes, for lexers built from a
   string; for the from_iter constructors the method slices "" (C14 excludes match_() there) *)
Theorem util_match_ok : forall l inp,
  l_input U l = Some inp ->
  make_view U l = match util_match_ U l with
                  | Some t => Ok (mkView t (l_mstart U l) (l_mend U l) (util_peek U l))
                  | None => Panic TagSlice
                  end.
Proof.
  intros l inp H. unfold make_view, util_match_, slice_input, util_peek. rewrite H. reflexivity.
Qed.

(* backtrack(): the two outcomes, as the `fail` template uses them (GenCode.exec_backtrack / Runtime.do_fail) *)
Theorem util_backtrack_ok : forall (prog : program) (actions : nat -> action T E U) l,
  exec_backtrack T E U prog actions l =
  match util_backtrack U l with
  | (inl loc, l1) => inr (OItem T E (IInvalid loc), reset_match U l1)
  | (inr a, l1) => run_action T E U prog actions l1 a
  end.
Proof.
  intros prog actions [st dn ini us inp it il ms me la]. unfold exec_backtrack, util_backtrack.
  cbn [l_last]. destruct la as [[[[ms' it'] a] me']|]; reflexivity.
Qed.

End GenUtilProofs.

Print Assumptions util_next_ok.
Print Assumptions util_backtrack_ok.
Print Assumptions util_match_ok.
