(* The concrete instances run by the correspondence check: the model pipeline with the tables
   regenerated from /repo, the reference semantics with the oracle tables. *)
From LexVerif Require Import Base CharClass RangeMap Regex Spec SpecExec LexSpec Nfa Dfa NfaToDfa
     Codegen Runtime Driver SpecDef Harness CharGen ClassAlgProofs RulesetSemProofs EndToEnd.
From LexVerif.Gen Require Import GenTables GenConsts GenOracle.

Definition width_of (c : N) : N :=
  match find (fun e => (fst (fst e) <=? c)%N && (c <=? snd (fst e))%N) width_table with
  | Some e => snd e
  | None => 1%N
  end.

Definition model_compile (d : def) : result compiled := compile builtin_table MAX_GUARD_SIZE d.

Definition model_new (input : list N) (with_str : bool) : lexer ustate :=
  lexer_new ustate input (mkU [] 0 with_str) with_str.

Definition next_fuel : positive := 4294967296%positive.

Definition model_next (p : program) (kinds : list akind) (l : lexer ustate)
  : outcome N N * lexer ustate :=
  next width_of TAB_WIDTH N N ustate p (actions_of kinds) next_fuel l.

Definition spec_rulesets (d : def) : result (list (list crule)) := def_rulesets d.
Definition spec_wf (d : def) : bool := wf_def oracle_table d.

(* the remaining decidable hypotheses of EndToEnd.lexer_correct: characters <= char::MAX and
   non-inverted ranges in every closed rule and context; distinct action indices; and the
   well-formedness of the definition with respect to the model's own tables *)
Definition def_chars_ok_b (benv : builtin_env) (rss : list (list crule)) : bool :=
  forallb (forallb (fun r => regex_chars_ok benv (cr_re r)
                             && match cr_ctx r with Some c => regex_chars_ok benv c | None => true end)) rss.
Definition model_hyps (d : def) : bool :=
  wf_def builtin_table d && acts_distinct_b d
  && match def_rulesets d with Ok rss => def_chars_ok_b builtin_table rss | Panic _ => false end.
Definition model_certs (c : compiled) : bool := certs_ok_b c.

Definition spec_new (input : list N) (with_str : bool) : sstate ustate :=
  s_init ustate input (mkU [] 0 with_str).

Definition spec_next_inst (rss : list (list crule)) (kinds : list akind) (s : sstate ustate)
  : option (option (item N N) * sstate ustate) :=
  spec_next oracle_table width_of TAB_WIDTH N N ustate rss (actions_of kinds)
            (length (s_rest ustate s) + 2) s.

(* components exercised on their own *)
Definition rm_insert (rs : rmap (list nat)) lo hi (v : nat) := insert set_union rs lo hi [v].
Definition rm_insert_ranges (a b : rmap (list nat)) := insert_ranges set_union a b.
Definition rm_remove_ranges (a b : rmap (list nat)) := remove_ranges a b.
Definition model_r2m (r : regex) : result (rmap unit) := regex_to_range_map builtin_table 0 [] r.
Definition model_generate (bounds : list N) : list (N * N) :=
  generate_char_fn_ranges (fun c => N.odd (N.of_nat (length (filter (fun b => (b <=? c)%N) bounds)))).
Definition model_generate_table (t : pairs) : list (N * N) :=
  generate_char_fn_ranges (in_pairs t).
