(* From a definition (Driver.def) to the closed rule sets the reference semantics works on:
   variable scoping (top-level lets are visible in every later rule and rule set, lets inside a
   rule set only there and only after their definition), and well-formedness of definitions
   (the quantifier of the properties). Independent of the automata pipeline. *)
From LexVerif Require Import Base CharClass Regex Spec SpecExec LexSpec Driver.

Section SpecDef.
Variable benv : builtin_env.

Definition close_rule (b : bindings) (r : rule) : result crule :=
  do re <- expand_top b (ru_re r);
  do cx <- match ru_ctx r with
           | None => Ok None
           | Some c => do c' <- expand_top b c; Ok (Some c')
           end;
  Ok (mkCRule re cx (ru_act r)).

Fixpoint close_rules (rules : list rob) (b : bindings) : result (list crule) :=
  match rules with
  | [] => Ok []
  | RBRule r :: rest => do c <- close_rule b r; do cs <- close_rules rest b; Ok (c :: cs)
  | RBBinding v re :: rest => close_rules rest (b ++ [(v, re)])
  end.

(* rule sets in declaration order (unnamed rules form the single rule set of index 0) *)
Fixpoint def_rulesets_go (d : def) (b : bindings) (unnamed : list crule)
  : result (list crule * list (name * list crule)) :=
  match d with
  | [] => Ok (unnamed, [])
  | TErrorType :: rest => def_rulesets_go rest b unnamed
  | TRob (RBBinding v re) :: rest => def_rulesets_go rest (b ++ [(v, re)]) unnamed
  | TRob (RBRule r) :: rest =>
      do c <- close_rule b r; def_rulesets_go rest b (unnamed ++ [c])
  | TRuleSet nm rules :: rest =>
      do cs <- close_rules rules b;
      do x <- def_rulesets_go rest b unnamed;
      Ok (fst x, (nm, cs) :: snd x)
  end.

Definition def_rulesets (d : def) : result (list (list crule)) :=
  do x <- def_rulesets_go d [] [];
  match snd x with
  | [] => Ok [fst x]
  | named => Ok (map snd named)
  end.

(* ---------- well-formed definitions ---------- *)

Fixpoint eoi_free (r : regex) : bool :=
  match r with
  | REoi => false
  | RStar a | RPlus a | ROpt a => eoi_free a
  | RCat a b | ROr a b | RDiff a b => eoi_free a && eoi_free b
  | _ => true
  end.

(* `$` only in tail position *)
Fixpoint eoi_tail (r : regex) : bool :=
  match r with
  | RCat a b => eoi_free a && eoi_tail b
  | ROr a b => eoi_tail a && eoi_tail b
  | ROpt a => eoi_tail a
  | RStar a | RPlus a => eoi_free a
  | RDiff a b => eoi_free a && eoi_free b
  | _ => true
  end.

(* no empty class, no inverted range, `#` only between classes
   (the empty string literal "" is fine: it matches the empty word) *)
Fixpoint leaves_ok (r : regex) : bool :=
  match r with
  | RBuiltin _ | RChar _ | RCharSet _ | RAny | RDiff _ _ =>
      is_class benv r && class_nonempty benv r
      && match r with
         | RCharSet l => forallb (fun x => match x with CRange a b => (a <=? b)%N | _ => true end) l
         | _ => true
         end
  | RVar _ => false
  | RString _ => true
  | RStar a | RPlus a | ROpt a => leaves_ok a
  | RCat a b | ROr a b => leaves_ok a && leaves_ok b
  | REoi => true
  end.

Definition wf_regex (r : regex) : bool := leaves_ok r && eoi_tail r.

Definition wf_crule (r : crule) : bool :=
  wf_regex (cr_re r) && negb (nullable (of_regex benv (cr_re r)))
  && match cr_ctx r with None => true | Some c => wf_regex c end.

Definition wf_def (d : def) : bool :=
  match def_rulesets d with
  | Ok rss => forallb (forallb wf_crule) rss
  | Panic _ => false
  end.

End SpecDef.
