(* Model of the regex AST of crates/lexgen/src/ast.rs and of variable bindings. *)
From LexVerif Require Import Base CharClass.

Definition name := list N.   (* an identifier, as its code points *)

Fixpoint name_eqb (a b : name) : bool :=
  match a, b with
  | [], [] => true
  | x :: a', y :: b' => (x =? y)%N && name_eqb a' b'
  | _, _ => false
  end.

Inductive cor := CChar (c : N) | CRange (a b : N).        (* ast::CharOrRange *)

Inductive regex :=
| RBuiltin (n : name)
| RVar (v : name)
| RChar (c : N)
| RString (s : list N)
| RCharSet (l : list cor)
| RStar (r : regex)          (* ZeroOrMore *)
| RPlus (r : regex)          (* OneOrMore *)
| ROpt (r : regex)           (* ZeroOrOne *)
| RCat (r1 r2 : regex)
| ROr (r1 r2 : regex)
| RAny
| REoi
| RDiff (r1 r2 : regex).

Definition bindings := list (name * regex).

Fixpoint lookup_var (v : name) (b : bindings) : option regex :=
  match b with
  | [] => None
  | (n, r) :: t => if name_eqb v n then Some r else lookup_var v t
  end.

(* The built-in tables by name (builtin.rs BUILTIN_RANGES + get_ranges); the instance used in
   the checks is regenerated from the Rust sources (gen/GenTables.v). *)
Definition builtin_env := list (name * pairs).

Fixpoint lookup_builtin (n : name) (e : builtin_env) : option pairs :=
  match e with
  | [] => None
  | (m, t) :: rest => if name_eqb n m then Some t else lookup_builtin n rest
  end.

(* Variable expansion. The Rust looks variables up lazily, at the point of use, in the bindings
   in scope when the rule is compiled; [fuel] bounds the depth of nested lookups. A chain longer
   than the number of bindings repeats a variable, i.e. is a cycle, on which the Rust recursion
   does not return: [expand] then gives Panic TagVarDepth. *)
Fixpoint expand (fuel : nat) (b : bindings) : regex -> result regex :=
  fix go (r : regex) : result regex :=
    match r with
    | RVar v =>
        match lookup_var v b with
        | None => Panic TagUnboundVar
        | Some r' => match fuel with O => Panic TagVarDepth | S f => expand f b r' end
        end
    | RStar r1 => do x <- go r1; Ok (RStar x)
    | RPlus r1 => do x <- go r1; Ok (RPlus x)
    | ROpt r1 => do x <- go r1; Ok (ROpt x)
    | RCat r1 r2 => do x <- go r1; do y <- go r2; Ok (RCat x y)
    | ROr r1 r2 => do x <- go r1; do y <- go r2; Ok (ROr x y)
    | RDiff r1 r2 => do x <- go r1; do y <- go r2; Ok (RDiff x y)
    | _ => Ok r
    end.

Definition expand_top (b : bindings) (r : regex) : result regex := expand (length b) b r.

Fixpoint closed (r : regex) : bool :=
  match r with
  | RVar _ => false
  | RStar r1 | RPlus r1 | ROpt r1 => closed r1
  | RCat r1 r2 | ROr r1 r2 | RDiff r1 r2 => closed r1 && closed r2
  | _ => true
  end.

Definition cor_mem (x : cor) (c : N) : bool :=
  match x with CChar a => (c =? a)%N | CRange a b => (a <=? c)%N && (c <=? b)%N end.

Fixpoint regex_size (r : regex) : nat :=
  match r with
  | RStar r1 | RPlus r1 | ROpt r1 => S (regex_size r1)
  | RCat r1 r2 | ROr r1 r2 | RDiff r1 r2 => S (regex_size r1 + regex_size r2)
  | RString s => S (length s)
  | RCharSet l => S (length l)
  | _ => 1
  end.
