(* One rule set: the NFA built by Driver.compile_rules accepts the languages of the closed rules
   (Part A); a DFA that is dfa_closed for that NFA satisfies RulesetSem.ruleset_sem (Part B);
   the right-context function decides LexSpec.ctx_holds_d (Part C). No axioms. *)
From LexVerif Require Import Base CharClass RangeMap RangeMapProofs CharClassProofs Regex Spec
     SpecExec SpecExecProofs LexSpec Nfa ClassAlgProofs Dfa NfaToDfa NfaSem Codegen
     BacktrackProofs LookupProofs ThompsonProofs SubsetProofs RulesetSem Driver SpecDef.
From Coq Require Import List NArith Bool Arith Lia Sorted.
Import ListNotations.

(* ------------------------------------------------------------------ *)
(* 1. characters of a regex                                            *)
(* ------------------------------------------------------------------ *)

Definition le_max (c : N) : bool := (c <=? CHAR_MAX)%N.

(* every character the regex can match is <= CHAR_MAX (`_` is by definition) *)
Fixpoint chars_le (benv : builtin_env) (r : regex) : bool :=
  match r with
  | RChar c => le_max c
  | RString s => forallb le_max s
  | RCharSet l => forallb (fun x => match x with CChar c => le_max c | CRange _ b => le_max b end) l
  | RBuiltin n => match lookup_builtin n benv with
                  | Some t => forallb (fun p => le_max (snd p)) t
                  | None => true
                  end
  | RStar a | RPlus a | ROpt a => chars_le benv a
  | RCat a b | ROr a b => chars_le benv a && chars_le benv b
  | RDiff a _ => chars_le benv a
  | RAny | REoi | RVar _ => true
  end.

(* characters bounded, and no inverted range anywhere (also below `#`) *)
Definition regex_chars_ok (benv : builtin_env) (r : regex) : bool :=
  chars_le benv r && ranges_ok r.

Section RegexFacts.
Variable benv : builtin_env.

Lemma cmem_le : forall r c, chars_le benv r = true -> cmem benv r c = true -> (c <= CHAR_MAX)%N.
Proof.
  induction r; intros c0 K M; cbn [chars_le cmem] in *; try discriminate.
  - destruct (lookup_builtin n benv) as [t|]; [|discriminate].
    apply in_pairs_iff in M. destruct M as (p & Hp & Hc). apply in_pair_iff in Hc.
    rewrite forallb_forall in K. specialize (K p Hp). unfold le_max in K. apply N.leb_le in K. lia.
  - apply N.eqb_eq in M. subst. apply N.leb_le. exact K.
  - apply existsb_exists in M. destruct M as (x & Hx & Hc).
    rewrite forallb_forall in K. specialize (K x Hx). unfold le_max in K.
    destruct x as [a|a b]; cbn [cor_mem] in Hc; apply N.leb_le in K.
    + apply N.eqb_eq in Hc. subst. exact K.
    + apply andb_true_iff in Hc. destruct Hc as [_ Hc]. apply N.leb_le in Hc. lia.
  - apply andb_true_iff in K. destruct K as [K1 K2]. apply orb_true_iff in M. destruct M; eauto.
  - apply N.leb_le. exact M.
  - apply andb_true_iff in M. destruct M as [M _]. eauto.
Qed.

Lemma word_ok_map_chr : forall s, forallb le_max s = true -> word_ok (map Chr s).
Proof.
  induction s as [|c s IH]; cbn [forallb map]; intros H; [constructor|].
  apply andb_true_iff in H. destruct H as [H1 H2]. constructor; [|apply IH; exact H2].
  cbn. apply N.leb_le. exact H1.
Qed.

Lemma lang_word_ok : forall r w, chars_le benv r = true -> lang benv r w -> word_ok w.
Proof.
  intros r w K H. induction H; cbn [chars_le] in K;
    try (apply andb_true_iff in K; destruct K as [K1 K2]).
  - constructor; [|constructor]. cbn. eapply cmem_le; [|exact H]. exact K.
  - constructor; [|constructor]. cbn. apply N.leb_le. exact K.
  - apply word_ok_map_chr. exact K.
  - constructor; [|constructor]. cbn. eapply cmem_le; [|exact H]. exact K.
  - constructor.
  - apply word_ok_app. split; auto.
  - apply word_ok_app. split; auto.
  - constructor.
  - auto.
  - apply word_ok_app. split; auto.
  - auto.
  - auto.
  - constructor; [|constructor]. exact H.
  - constructor; [|constructor]. exact I.
  - constructor; [|constructor]. cbn. eapply cmem_le; [|exact H1]. exact K.
Qed.

Lemma is_class_closed : forall r, is_class benv r = true -> closed r = true.
Proof.
  induction r; cbn [is_class closed]; intros H; try discriminate; try reflexivity;
    apply andb_true_iff in H; destruct H as [H1 H2]; rewrite IHr1, IHr2; auto.
Qed.

Lemma leaves_ok_closed : forall r, leaves_ok benv r = true -> closed r = true.
Proof.
  induction r; cbn [leaves_ok closed]; intros H; try discriminate; try reflexivity; auto;
    try (apply andb_true_iff in H; destruct H as [H1 H2]; rewrite IHr1, IHr2; auto; fail).
  apply andb_true_iff in H. destruct H as [H _]. apply andb_true_iff in H. destruct H as [H _].
  apply (is_class_closed (RDiff r1 r2)) in H. exact H.
Qed.

Lemma leaves_ok_wf : forall r,
  leaves_ok benv r = true -> ranges_ok r = true -> leaves_wf benv r = true.
Proof.
  induction r as [n|v|a|s|l|r1 IH1|r1 IH1|r1 IH1|r1 IH1 r2 IH2|r1 IH1 r2 IH2| | |r1 IH1 r2 IH2];
    cbn [leaves_ok leaves_wf ranges_ok]; intros H R.
  - reflexivity.
  - discriminate.
  - reflexivity.
  - reflexivity.
  - apply andb_true_iff in H. destruct H as [_ H]. exact H.
  - auto.
  - auto.
  - auto.
  - apply andb_true_iff in H, R. destruct H, R. rewrite IH1, IH2; auto.
  - apply andb_true_iff in H, R. destruct H, R. rewrite IH1, IH2; auto.
  - reflexivity.
  - reflexivity.
  - apply andb_true_iff in H. destruct H as [H _]. apply andb_true_iff in H. destruct H as [H _].
    cbn [is_class] in H. apply andb_true_iff in R. destruct R as [R1 R2].
    rewrite H, R1, R2. reflexivity.
Qed.

Lemma leaves_ok_classes : forall r,
  leaves_ok benv r = true -> chars_le benv r = true -> classes_nonempty benv r.
Proof.
  assert (Cls : forall r, is_class benv r && class_nonempty benv r = true -> chars_le benv r = true ->
                 exists c, (c <= CHAR_MAX)%N /\ cmem benv r c = true).
  { intros r H K. apply andb_true_iff in H. destruct H as [_ H].
    apply class_nonempty_correct in H. destruct H as (c & Hc). exists c. split; [|exact Hc].
    eapply cmem_le; eauto. }
  induction r; cbn [leaves_ok classes_nonempty]; intros H K; try discriminate; auto;
    try (apply andb_true_iff in H; destruct H as [H _]; apply Cls; assumption).
  - cbn [chars_le] in K. rewrite forallb_forall in K. apply Forall_forall. intros c Hc.
    apply N.leb_le. apply K. exact Hc.
  - cbn [chars_le] in K. apply andb_true_iff in H, K. destruct H, K. split; auto.
  - cbn [chars_le] in K. apply andb_true_iff in H, K. destruct H, K. split; auto.
Qed.

(* ---- `$` only at the end ---- *)

Lemma eoi_free_lang : forall r w, eoi_free r = true -> lang benv r w -> ~ In Eoi w.
Proof.
  intros r w K H. induction H; cbn [eoi_free] in K;
    try (apply andb_true_iff in K; destruct K as [K1 K2]);
    try (intros [E|[]]; discriminate).
  - intros E. apply in_map_iff in E. destruct E as (x & E & _). discriminate.
  - intros [].
  - intros E. apply in_app_or in E. destruct E; [apply IHlang1|apply IHlang2]; auto.
  - intros E. apply in_app_or in E. destruct E; [apply IHlang1|apply IHlang2]; auto.
  - intros [].
  - auto.
  - intros E. apply in_app_or in E. destruct E; [apply IHlang1|apply IHlang2]; auto.
  - auto.
  - auto.
Qed.

Lemma app_split_notin : forall (x : sym) u v a b,
  u ++ v = a ++ x :: b -> ~ In x u -> exists a', a = u ++ a' /\ v = a' ++ x :: b.
Proof.
  induction u as [|y u IH]; intros v a b E N.
  - exists a. split; [reflexivity|exact E].
  - destruct a as [|z a]; cbn [app] in E.
    + injection E as -> _. exfalso. apply N. left; reflexivity.
    + injection E as -> E. destruct (IH v a b E) as (a' & -> & ->).
      * intros H. apply N. right; exact H.
      * exists a'. split; reflexivity.
Qed.

Lemma eoi_tail_lang : forall r w, eoi_tail r = true -> lang benv r w ->
  forall a b, w = a ++ Eoi :: b -> b = [].
Proof.
  intros r w K H.
  assert (NoE : forall w', ~ In Eoi w' -> forall a b, w' = a ++ Eoi :: b -> b = []).
  { intros w' N a b E. exfalso. apply N. rewrite E. apply in_or_app. right; left; reflexivity. }
  induction H; cbn [eoi_tail] in K;
    try (apply NoE; intros [E|[]]; discriminate).
  - apply NoE. intros E. apply in_map_iff in E. destruct E as (x & E & _). discriminate.
  - apply NoE. intros [].
  - apply NoE. eapply eoi_free_lang; [|eapply LStarS; eauto]. exact K.
  - apply NoE. eapply eoi_free_lang; [|eapply LPlus; eauto]. exact K.
  - apply NoE. intros [].
  - exact (IHlang K).
  - apply andb_true_iff in K. destruct K as [K1 K2]. intros a b E.
    apply app_split_notin in E; [|eapply eoi_free_lang; eauto].
    destruct E as (a' & -> & E). eapply IHlang2; eauto.
  - apply andb_true_iff in K. destruct K as [K1 K2]. exact (IHlang K1).
  - apply andb_true_iff in K. destruct K as [K1 K2]. exact (IHlang K2).
  - intros a b E. destruct a as [|z a]; cbn [app] in E.
    + injection E as <-. reflexivity.
    + injection E as _ E. destruct a; discriminate.
Qed.

(* ---- derivatives ---- *)

Lemma derivs_app : forall u v d, derivs benv (u ++ v) d = derivs benv v (derivs benv u d).
Proof. intros. unfold derivs. apply fold_left_app. Qed.

Lemma dlang_derivs : forall w d u, dlang benv (derivs benv w d) u <-> dlang benv d (w ++ u).
Proof.
  induction w as [|s w IH]; intros d u; [reflexivity|].
  change (derivs benv (s :: w) d) with (derivs benv w (deriv benv s d)).
  rewrite IH. cbn [app]. apply deriv_correct.
Qed.

Lemma lang_after : forall r w u, closed r = true ->
  (dlang benv (derivs benv w (of_regex benv r)) u <-> lang benv r (w ++ u)).
Proof. intros r w u C. rewrite dlang_derivs. apply of_regex_correct. exact C. Qed.

Lemma nullable_after : forall r w, closed r = true ->
  (nullable (derivs benv w (of_regex benv r)) = true <-> lang benv r w).
Proof. intros r w C. rewrite derivs_correct. apply of_regex_correct. exact C. Qed.

End RegexFacts.

(* ------------------------------------------------------------------ *)
(* 2. Part A: the NFA of a rule set                                    *)
(* ------------------------------------------------------------------ *)

(* one rule of the rule set inside the NFA: its closed form, its accepting NFA state, and the
   right-context index stored in the accepting value *)
Record rent := mkRE { e_rule : crule; e_st : nat; e_ci : option nat }.

(* context indices handed out in rule order, starting from k (= number of contexts so far) *)
Fixpoint ctx_indices (k : nat) (rs : list crule) : list (option nat) :=
  match rs with
  | [] => []
  | r :: t => match cr_ctx r with
              | None => None :: ctx_indices k t
              | Some _ => Some k :: ctx_indices (S k) t
              end
  end.

Lemma ssorted_snoc : forall l y, ssorted l -> (forall x, In x l -> x < y) -> ssorted (l ++ [y]).
Proof.
  induction l as [|a l IH]; intros y S H; cbn [app].
  - constructor; [constructor|constructor].
  - inversion S; subst. constructor.
    + apply IH; [assumption|]. intros x Hx. apply H. right; exact Hx.
    + apply Forall_app. split; [assumption|]. constructor; [|constructor]. apply H. left; reflexivity.
Qed.

Lemma npath_mono : forall n n', (forall s x t, edge n s x t -> edge n' s x t) ->
  forall s w u, npath n s w u -> npath n' s w u.
Proof.
  intros n n' M s w u H. apply npath_epath. apply npath_epath in H.
  eapply epath_mono; eauto.
Qed.

Lemma npath_app_inv : forall n s w1 w2 u, npath n s (w1 ++ w2) u ->
  exists m, npath n s w1 m /\ npath n m w2 u.
Proof.
  intros n s w1 w2 u H. remember (w1 ++ w2) as w eqn:E. revert w1 w2 E.
  induction H as [s|s t u w Ht Hp IH|s t u x w Ht Hp IH]; intros w1 w2 E.
  - symmetry in E. apply app_eq_nil in E. destruct E as [-> ->]. exists s. split; constructor.
  - destruct (IH _ _ E) as (m & P1 & P2). exists m. split; [|exact P2]. eapply NP_eps; eauto.
  - destruct w1 as [|y w1]; cbn [app] in E.
    + subst w2. exists s. split; [constructor|]. eapply NP_sym; eauto.
    + injection E as <- E. destruct (IH _ _ E) as (m & P1 & P2). exists m.
      split; [|exact P2]. eapply NP_sym; eauto.
Qed.

Section PartA.
Variable benv : builtin_env.
Hypothesis BW : benv_wf benv.

Record nfa_rules (n : nfa) (es : list rent) : Prop := mkNfaRules {
  nr_inv : nfa_inv n;
  (* accepting states are created in rule order *)
  nr_sorted : ssorted (map e_st es);
  nr_lt : forall e, In e es -> 0 < e_st e < length n;
  nr_acc : forall e, In e es -> n_acc (nget n (e_st e)) = Some (cr_act (e_rule e), e_ci e);
  nr_only : forall s, n_acc (nget n s) <> None -> exists e, In e es /\ e_st e = s;
  nr_lang : forall e w, In e es -> word_ok w ->
      (npath n 0 w (e_st e) <-> lang benv (cr_re (e_rule e)) w);
  (* every state but 0 lies on a path to the accepting state of some rule *)
  nr_coacc : (forall e, In e es -> classes_nonempty benv (cr_re (e_rule e))) ->
      forall s, 0 < s < length n -> exists e w, In e es /\ word_ok w /\ npath n s w (e_st e)
}.

Lemma nfa_rules_new : nfa_rules nfa_new [].
Proof.
  constructor.
  - apply nfa_inv_new.
  - constructor.
  - intros e [].
  - intros e [].
  - intros s H. exfalso. apply H. destruct s as [|[|s]]; reflexivity.
  - intros e w [].
  - intros _ s Hs. cbn in Hs. lia.
Qed.

Lemma add_regex_edge_mono : forall b n re ctx v n' re',
  nfa_inv n -> expand_top b re = Ok re' -> leaves_wf benv re' = true ->
  add_regex benv b n re ctx v = Ok n' ->
  forall s x t, edge n s x t -> edge n' s x t.
Proof.
  intros b n re ctx v n' re' I X K H s x t E.
  destruct (add_regex_frame benv b n re ctx v n' re' BW I X K H) as (_ & F1 & F0 & _).
  pose proof (edge_lt _ _ _ _ E) as Ls.
  destruct (Nat.eq_dec s 0) as [->|D].
  - apply F0. left. exact E.
  - apply F1; assumption.
Qed.

Lemma nfa_rules_step : forall n es b re re' cx ci v n',
  nfa_rules n es ->
  expand_top b re = Ok re' -> leaves_wf benv re' = true ->
  add_regex benv b n re ci v = Ok n' ->
  nfa_rules n' (es ++ [mkRE (mkCRule re' cx v) (length n) ci]).
Proof.
  intros n es b re re' cx ci v n' R X K H.
  destruct R as [I So Lt Ac On La Co].
  destruct (add_regex_correct benv b n re ci v n' re' BW I X K H)
    as (I' & Acc & Lang & Old & AccO & AccN).
  destruct (add_regex_frame benv b n re ci v n' re' BW I X K H) as (Len & _).
  pose proof (add_regex_edge_mono b n re ci v n' re' I X K H) as Mono.
  assert (L0 : 0 < length n) by (destruct I; assumption).
  constructor.
  - exact I'.
  - rewrite map_app. cbn [map e_st]. apply ssorted_snoc; [exact So|].
    intros x Hx. apply in_map_iff in Hx. destruct Hx as (e & <- & He). apply Lt in He. lia.
  - intros e He. apply in_app_or in He. destruct He as [He|[<-|[]]].
    + apply Lt in He. lia.
    + cbn [e_st]. lia.
  - intros e He. apply in_app_or in He. destruct He as [He|[<-|[]]].
    + rewrite AccO by (apply Lt in He; lia). apply Ac. exact He.
    + cbn [e_st e_rule cr_act e_ci]. exact Acc.
  - intros s Hs. destruct (lt_dec s (length n)) as [L|L].
    + rewrite AccO in Hs by exact L. destruct (On s Hs) as (e & He & Es).
      exists e. split; [apply in_or_app; left; exact He|exact Es].
    + destruct (Nat.eq_dec s (length n)) as [->|D].
      * eexists. split; [apply in_or_app; right; left; reflexivity|reflexivity].
      * exfalso. apply Hs. destruct (lt_dec s (length n')) as [L'|L'].
        -- apply AccN; lia.
        -- rewrite nget_overflow by lia. reflexivity.
  - intros e w He Ww. apply in_app_or in He. destruct He as [He|[<-|[]]].
    + rewrite Old; [apply La; assumption| |exact Ww]. apply Lt in He. lia.
    + cbn [e_st e_rule cr_re]. apply Lang. exact Ww.
  - intros NE s Hs. destruct (lt_dec s (length n)) as [L|L].
    + destruct (Co (fun e He => NE e (in_or_app _ _ _ (or_introl He))) s) as (e & w & He & Ww & P);
        [lia|].
      exists e, w. split; [apply in_or_app; left; exact He|]. split; [exact Ww|].
      eapply npath_mono; [exact Mono|exact P].
    + assert (NEn : classes_nonempty benv re').
      { apply (NE (mkRE (mkCRule re' cx v) (length n) ci)). apply in_or_app. right; left; reflexivity. }
      destruct (add_regex_coaccessible benv b n re ci v n' re' BW I X K NEn H s) as (w & Ww & P);
        [lia|].
      eexists. exists w. split; [apply in_or_app; right; left; reflexivity|].
      split; [exact Ww|exact P].
Qed.

Lemma new_right_ctx_ok : forall b ctxs re x,
  new_right_ctx benv b ctxs re = Ok x ->
  snd x = length ctxs /\ length (fst x) = S (length ctxs) /\
  exists n dm, add_regex benv b nfa_new re None 0 = Ok n /\ nfa_to_dfa_map n = Ok dm /\
               fst x = ctxs ++ [mkCA n (fst dm) (snd dm)].
Proof.
  intros b ctxs re x H. unfold new_right_ctx in H.
  apply bind_ok in H. destruct H as (n & Hn & H).
  apply bind_ok in H. destruct H as (dm & Hd & H). injection H as <-.
  cbn [fst snd]. split; [reflexivity|]. split; [rewrite app_length; cbn; lia|].
  exists n, dm. auto.
Qed.

Lemma compile_rules_sem_gen : forall rules b n0 es0 ctxs0 n ctxs crules,
  nfa_rules n0 es0 ->
  compile_rules benv rules n0 b ctxs0 = Ok (n, ctxs) ->
  close_rules rules b = Ok crules ->
  Forall (fun r => leaves_wf benv (cr_re r) = true) crules ->
  exists es, map e_rule es = crules /\ map e_ci es = ctx_indices (length ctxs0) crules /\
             nfa_rules n (es0 ++ es).
Proof.
  induction rules as [|[r|v re] rest IH]; intros b n0 es0 ctxs0 n ctxs crules R C Cl Wf.
  - cbn in C, Cl. injection C as <- <-. injection Cl as <-.
    exists []. rewrite app_nil_r. auto.
  - cbn [compile_rules close_rules] in C, Cl.
    apply bind_ok in C. destruct C as (x & Cx & C).
    apply bind_ok in Cl. destruct Cl as (c & Cc & Cl).
    apply bind_ok in Cl. destruct Cl as (cs & Ccs & Cl). injection Cl as <-.
    inversion Wf as [|? ? Wc Wcs]; subst.
    unfold compile_single_rule in Cx.
    apply bind_ok in Cx. destruct Cx as (cc & Hcc & Cx).
    apply bind_ok in Cx. destruct Cx as (n1 & Hn1 & Cx). injection Cx as <-.
    cbn [fst snd] in C.
    unfold close_rule in Cc.
    apply bind_ok in Cc. destruct Cc as (re' & Hre & Cc).
    apply bind_ok in Cc. destruct Cc as (cx & Hcx & Cc). injection Cc as <-.
    cbn [cr_re] in Wc.
    pose proof (nfa_rules_step n0 es0 b (ru_re r) re' cx (snd cc) (ru_act r) n1 R Hre Wc Hn1) as R1.
    destruct (ru_ctx r) as [c0|] eqn:Ectx.
    + apply bind_ok in Hcc. destruct Hcc as (y & Hy & Hcc). injection Hcc as <-.
      apply new_right_ctx_ok in Hy. destruct Hy as (Hs & Hl & _). cbn [fst snd] in *.
      apply bind_ok in Hcx. destruct Hcx as (c' & _ & Hcx). injection Hcx as <-.
      destruct (IH b n1 _ (fst y) n ctxs cs R1 C Ccs Wcs) as (es & E1 & E2 & R2).
      exists (mkRE (mkCRule re' (Some c') (ru_act r)) (length n0) (Some (snd y)) :: es).
      split; [cbn [map e_rule]; rewrite E1; reflexivity|].
      split.
      * cbn [map e_ci ctx_indices cr_ctx]. rewrite E2, Hl, Hs. reflexivity.
      * rewrite <- app_assoc in R2. exact R2.
    + injection Hcc as <-. injection Hcx as <-. cbn [fst snd] in *.
      destruct (IH b n1 _ ctxs0 n ctxs cs R1 C Ccs Wcs) as (es & E1 & E2 & R2).
      exists (mkRE (mkCRule re' None (ru_act r)) (length n0) None :: es).
      split; [cbn [map e_rule]; rewrite E1; reflexivity|].
      split.
      * cbn [map e_ci ctx_indices cr_ctx]. rewrite E2. reflexivity.
      * rewrite <- app_assoc in R2. exact R2.
  - cbn [compile_rules close_rules] in C, Cl.
    destruct (lookup_var v b); [discriminate|].
    eapply IH; eauto.
Qed.

Theorem compile_rules_sem : forall rules b ctxs0 n ctxs crules,
  compile_rules benv rules nfa_new b ctxs0 = Ok (n, ctxs) ->
  close_rules rules b = Ok crules ->
  Forall (fun r => leaves_wf benv (cr_re r) = true) crules ->
  exists es, map e_rule es = crules /\ map e_ci es = ctx_indices (length ctxs0) crules /\
             nfa_rules n es.
Proof.
  intros rules b ctxs0 n ctxs crules C Cl Wf.
  apply (compile_rules_sem_gen rules b nfa_new [] ctxs0 n ctxs crules nfa_rules_new C Cl Wf).
Qed.

End PartA.

(* ------------------------------------------------------------------ *)
(* 3. structural facts about a rule set's DFA, and their checker       *)
(* ------------------------------------------------------------------ *)

(* The purely structural part of ruleset_sem: facts that do not follow from dfa_closed (a range
   piece whose characters all have a char transition is a successor that no dfa_next selects).
   Proved for the output of nfa_to_dfa elsewhere, or checked on the dumped automaton. *)
Record dfa_shape_ok (d : dfa nat) : Prop := mkShape {
  sh_succ_targets : forall i j, i < length d -> In j (successors (dget d i)) -> j < length d;
  sh_init : forall i, i < length d -> (d_init (dget d i) = true <-> i = 0);
  sh_no_back : forall i j, i < length d -> In j (successors (dget d i)) -> j <> 0;
  sh_preds0 : d_preds (dget d 0) = [];
  sh_preds : forall i j, i < length d -> j < length d ->
      (In i (d_preds (dget d j)) <-> In j (successors (dget d i)));
  sh_ranges_wf : forall i, i < length d -> wf (d_ranges (dget d i)) = true;
  sh_ranges_max : forall i r, i < length d -> In r (d_ranges (dget d i)) -> (r_hi r <= CHAR_MAX)%N;
  sh_chars_max : forall i c t, i < length d -> In (c, t) (d_chars (dget d i)) -> (c <= CHAR_MAX)%N;
  sh_flags0 : forall i, i < length d -> d_bt (dget d i) = false
}.

Definition state_shape_ok_b (d : dfa nat) (i : nat) (st : dstate nat) : bool :=
  forallb (fun j => (j <? length d) && negb (j =? 0) && set_mem i (d_preds (dget d j)))
          (successors st)
  && Bool.eqb (d_init st) (i =? 0)
  && forallb (fun p => set_mem i (successors (dget d p))) (d_preds st)
  && wf (d_ranges st)
  && forallb (fun r => le_max (r_hi r)) (d_ranges st)
  && forallb (fun p => le_max (fst p)) (d_chars st)
  && negb (d_bt st).

Definition dfa_shape_ok_b (d : dfa nat) : bool :=
  forallb (fun p => state_shape_ok_b d (fst p) (snd p)) (combine (seq 0 (length d)) d)
  && match d_preds (dget d 0) with [] => true | _ => false end.

Lemma in_combine_seq_nth {A} (d : list A) i def :
  i < length d -> In (i, nth i d def) (combine (seq 0 (length d)) d).
Proof.
  intros H.
  replace (i, nth i d def) with (nth i (combine (seq 0 (length d)) d) (0, def)).
  - apply nth_In. rewrite combine_length, seq_length, Nat.min_id. exact H.
  - rewrite combine_nth by apply seq_length. rewrite seq_nth by exact H. reflexivity.
Qed.

Theorem dfa_shape_ok_b_sound : forall d, dfa_shape_ok_b d = true -> dfa_shape_ok d.
Proof.
  intros d H. unfold dfa_shape_ok_b in H. apply andb_true_iff in H. destruct H as [H H0].
  rewrite forallb_forall in H.
  assert (St : forall i, i < length d -> state_shape_ok_b d i (dget d i) = true).
  { intros i Hi. apply (H (i, dget d i)). apply in_combine_seq_nth. exact Hi. }
  clear H.
  assert (Q : forall i, i < length d ->
    (forall j, In j (successors (dget d i)) ->
               j < length d /\ j <> 0 /\ In i (d_preds (dget d j))) /\
    (d_init (dget d i) = true <-> i = 0) /\
    (forall p, In p (d_preds (dget d i)) -> In i (successors (dget d p))) /\
    wf (d_ranges (dget d i)) = true /\
    (forall r, In r (d_ranges (dget d i)) -> (r_hi r <= CHAR_MAX)%N) /\
    (forall c t, In (c, t) (d_chars (dget d i)) -> (c <= CHAR_MAX)%N) /\
    d_bt (dget d i) = false).
  { intros i Hi. specialize (St i Hi). unfold state_shape_ok_b in St.
    repeat (apply andb_true_iff in St; destruct St as [St ?]).
    rewrite forallb_forall in St.
    split; [|split; [|split; [|split; [|split; [|split]]]]].
    - intros j Hj. specialize (St j Hj).
      apply andb_true_iff in St. destruct St as [St S3].
      apply andb_true_iff in St. destruct St as [S1 S2].
      apply Nat.ltb_lt in S1. apply negb_true_iff in S2. apply Nat.eqb_neq in S2.
      apply set_mem_In in S3. auto.
    - match goal with E : Bool.eqb _ _ = true |- _ => apply Bool.eqb_prop in E; rewrite E end.
      apply Nat.eqb_eq.
    - match goal with E : forallb _ (d_preds _) = true |- _ => rewrite forallb_forall in E;
        intros p Hp; apply set_mem_In; apply E; exact Hp end.
    - assumption.
    - match goal with E : forallb _ (d_ranges _) = true |- _ => rewrite forallb_forall in E;
        intros r Hr; apply N.leb_le; apply (E r Hr) end.
    - match goal with E : forallb _ (d_chars _) = true |- _ => rewrite forallb_forall in E;
        intros c t Hc; apply N.leb_le; apply (E (c, t) Hc) end.
    - match goal with E : negb _ = true |- _ => apply negb_true_iff in E; exact E end. }
  constructor.
  - intros i j Hi Hj. apply (Q i Hi). exact Hj.
  - intros i Hi. apply (Q i Hi).
  - intros i j Hi Hj. apply (Q i Hi). exact Hj.
  - destruct (d_preds (dget d 0)); [reflexivity|discriminate].
  - intros i j Hi Hj. split.
    + intros P. apply (Q j Hj). exact P.
    + intros P. apply (Q i Hi). exact P.
  - intros i Hi. apply (Q i Hi).
  - intros i r Hi. apply (Q i Hi).
  - intros i c t Hi. apply (Q i Hi).
  - intros i Hi. apply (Q i Hi).
Qed.

(* ---- transitions of one DFA state ---- *)

Lemma notrans_next_none : forall T (st : dstate T) x,
  has_no_transitions st = true -> dfa_next st x = None.
Proof.
  intros T st x H. unfold has_no_transitions in H. unfold dfa_next, dfa_char_next.
  destruct (d_chars st); [|discriminate]. destruct (d_ranges st); [|discriminate].
  destruct (d_any st); [discriminate|]. destruct (d_eoi st); [discriminate|].
  destruct x; reflexivity.
Qed.

Lemma trans_next_some : forall T (st : dstate T) (Q : N -> Prop),
  wf (d_ranges st) = true -> has_no_transitions st = false ->
  Q 0%N -> (forall c t, In (c, t) (d_chars st) -> Q c) ->
  (forall r, In r (d_ranges st) -> Q (r_lo r)) ->
  exists x j, match x with Chr c => Q c | Eoi => True end /\ dfa_next st x = Some j.
Proof.
  intros T st Q W H Q0 Qc Qr. unfold has_no_transitions in H.
  destruct (d_eoi st) as [j|] eqn:Ee.
  { exists Eoi, j. split; [exact I|exact Ee]. }
  destruct (d_chars st) as [|[c t] cs] eqn:Ec.
  - destruct (d_ranges st) as [|r rs] eqn:Er.
    + destruct (d_any st) as [a|] eqn:Ea; [|discriminate].
      exists (Chr 0%N), a. split; [exact Q0|]. cbn [dfa_next]. unfold dfa_char_next.
      rewrite Ec, Er, Ea. reflexivity.
    + exists (Chr (r_lo r)), (r_val r). split; [apply Qr; left; reflexivity|].
      cbn [dfa_next]. unfold dfa_char_next. rewrite Ec, Er. cbn [assoc_N lookup].
      apply wf_from_cons in W. destruct W as (W1 & _).
      unfold in_range. rewrite N.leb_refl. cbn [andb].
      apply N.leb_le in W1. rewrite W1. reflexivity.
  - exists (Chr c), t. split; [apply (Qc c t); left; reflexivity|].
    cbn [dfa_next]. unfold dfa_char_next. rewrite Ec. cbn [assoc_N]. rewrite N.eqb_refl. reflexivity.
Qed.

Lemma dfa_run_app : forall d u v s,
  dfa_run d s (u ++ v) = match dfa_run d s u with Some t => dfa_run d t v | None => None end.
Proof.
  induction u as [|x u IH]; intros v s; cbn [app dfa_run]; [reflexivity|].
  destruct (dfa_next (dget d s) x); [apply IH|reflexivity].
Qed.

Lemma scalar_le_max : forall c, is_scalar c = true -> (c <= CHAR_MAX)%N.
Proof. intros c H. apply is_scalar_iff in H. unfold CHAR_MAX. lia. Qed.

Lemma scalars_word_ok : forall p, scalars p -> word_ok (map Chr p).
Proof.
  induction 1; cbn [map]; constructor; [|assumption]. cbn. apply scalar_le_max. assumption.
Qed.

(* ------------------------------------------------------------------ *)
(* 4. a character beyond every key and range of an NFA and a DFA state *)
(* ------------------------------------------------------------------ *)

Definition kmax {A} (l : list (N * A)) : N := fold_right (fun p m => N.max (fst p) m) 0%N l.
Definition rmax {A} (rs : rmap A) : N := fold_right (fun r m => N.max (r_hi r) m) 0%N rs.
Definition nmax (n : nfa) : N :=
  fold_right (fun st m => N.max (N.max (kmax (n_chars st)) (rmax (n_ranges st))) m) 0%N n.

Lemma kmax_assoc : forall A (l : list (N * A)) c v, assoc_N c l = Some v -> (c <= kmax l)%N.
Proof.
  induction l as [|[k v0] l IH]; intros c v H; cbn [assoc_N] in H; [discriminate|].
  cbn [kmax fold_right fst]. destruct (N.eqb_spec c k) as [->|D].
  - lia.
  - apply IH in H. unfold kmax in H. lia.
Qed.

Lemma rmax_in : forall A (rs : rmap A) r, In r rs -> (r_hi r <= rmax rs)%N.
Proof.
  induction rs as [|r0 rs IH]; intros r H; [destruct H|].
  cbn [rmax fold_right]. destruct H as [->|H]; [lia|]. apply IH in H. unfold rmax in H. lia.
Qed.

Lemma nmax_in : forall n st, In st n ->
  (kmax (n_chars st) <= nmax n /\ rmax (n_ranges st) <= nmax n)%N.
Proof.
  induction n as [|s0 n IH]; intros st H; [destruct H|].
  cbn [nmax fold_right]. destruct H as [->|H]; [lia|]. apply IH in H. unfold nmax in H. lia.
Qed.

Lemma nget_cases : forall n s, nget n s = nstate_empty \/ In (nget n s) n.
Proof.
  intros n s. destruct (lt_dec s (length n)) as [L|L].
  - right. apply nth_In. exact L.
  - left. apply nget_overflow. lia.
Qed.

Lemma big_char : forall (n : nfa) (st : dstate nat),
  exists c, assoc_N c (d_chars st) = None /\ lookup (d_ranges st) c = None /\
            forall s t, In t (n_char_targets (nget n s) c) -> In t (n_any (nget n s)).
Proof.
  intros n st.
  set (c := (N.max (nmax n) (N.max (kmax (d_chars st)) (rmax (d_ranges st))) + 1)%N).
  exists c. split; [|split].
  - destruct (assoc_N c (d_chars st)) eqn:E; [|reflexivity]. apply kmax_assoc in E. lia.
  - destruct (lookup (d_ranges st) c) eqn:E; [|reflexivity].
    apply LookupProofs.lookup_some_in in E. destruct E as (r & Hr & Hc & _).
    apply rmax_in in Hr. unfold in_range in Hc. apply andb_true_iff in Hc.
    rewrite !N.leb_le in Hc. lia.
  - intros s t H. unfold n_char_targets in H.
    assert (B : (kmax (n_chars (nget n s)) < c /\ rmax (n_ranges (nget n s)) < c)%N).
    { destruct (nget_cases n s) as [E|E].
      - rewrite E. cbn. lia.
      - apply nmax_in in E. lia. }
    apply in_app_or in H. destruct H as [H|H].
    + destruct (assoc_N c (n_chars (nget n s))) eqn:E; [|destruct H]. apply kmax_assoc in E. lia.
    + apply in_app_or in H. destruct H as [H|H]; [|exact H].
      apply in_flat_map in H. destruct H as (r & Hr & Ht).
      destruct (in_range r c) eqn:E; [|destruct Ht].
      apply rmax_in in Hr. unfold in_range in E. apply andb_true_iff in E.
      rewrite !N.leb_le in E. lia.
Qed.

Lemma any_in_char_targets : forall st c t, In t (n_any st) -> In t (n_char_targets st c).
Proof. intros st c t H. unfold n_char_targets. apply in_or_app. right. apply in_or_app. right. exact H. Qed.

(* ------------------------------------------------------------------ *)
(* 5. consequences of dfa_closed, state by state                       *)
(* ------------------------------------------------------------------ *)

Section Closed.
Variables (n : nfa) (d : dfa nat) (m : state_map).
Hypothesis Hc : dfa_closed n d m.
Hypothesis Hd : 0 < length d.

Lemma step_some : forall i S x j,
  i < length d -> label_of m i = Some S -> dfa_next (dget d i) x = Some j ->
  exists S', closure n (set_step n S x) = Ok S' /\ S' <> [] /\ j < length d /\ label_of m j = Some S'.
Proof.
  intros i S x j Hi Hl Hn. pose proof (dc_step _ _ _ Hc i S x Hi Hl) as H.
  destruct (closure n (set_step n S x)) as [[|a S']|]; [congruence| |contradiction].
  destruct H as (j' & E & Hj & Hlj). rewrite Hn in E. injection E as <-.
  exists (a :: S'). split; [reflexivity|]. split; [discriminate|]. auto.
Qed.

Lemma step_target : forall i S x s t,
  i < length d -> label_of m i = Some S -> In s S -> In t (n_sym_targets (nget n s) x) ->
  exists j, dfa_next (dget d i) x = Some j.
Proof.
  intros i S x s t Hi Hl Hs Ht. pose proof (dc_step _ _ _ Hc i S x Hi Hl) as H.
  destruct (closure n (set_step n S x)) as [S'|] eqn:EC; [|contradiction].
  destruct (closure_spec _ _ _ EC) as (Hm & _).
  assert (In t S').
  { apply Hm. exists t. split; [|constructor]. apply set_step_in. exists s. auto. }
  destruct S' as [|a S']; [contradiction|]. destruct H as (j & E & _). eauto.
Qed.

Lemma next_lt : forall i x j, i < length d -> dfa_next (dget d i) x = Some j -> j < length d.
Proof.
  intros i x j Hi Hn. destruct (dc_total _ _ _ Hc i Hi) as (S & Hl).
  destruct (step_some i S x j Hi Hl Hn) as (S' & _ & _ & Hj & _). exact Hj.
Qed.

Lemma run_info : forall w i, dfa_run d 0 w = Some i ->
  i < length d /\ exists S, label_of m i = Some S /\ S <> [] /\ ssorted S /\
                            (forall t, In t S <-> npath n 0 w t).
Proof.
  intros w i Hr. pose proof (dfa_closed_run_strong n d m Hc Hd w) as H. rewrite Hr in H.
  destruct H as (Hi & S & Hl & Hne & Hso & HmS). split; [exact Hi|].
  exists S. split; [exact Hl|]. split; [exact Hne|]. split; [|exact HmS].
  rewrite Hso. apply set_of_list_sorted.
Qed.

(* a state whose label is included in the label of a state without transitions has none *)
Lemma label_subset_notrans : forall i1 i2 S1 S2,
  i1 < length d -> i2 < length d -> label_of m i1 = Some S1 -> label_of m i2 = Some S2 ->
  (forall t, In t S1 -> In t S2) -> wf (d_ranges (dget d i1)) = true ->
  has_no_transitions (dget d i2) = true -> has_no_transitions (dget d i1) = true.
Proof.
  intros i1 i2 S1 S2 H1 H2 L1 L2 Sub W N2.
  destruct (has_no_transitions (dget d i1)) eqn:E; [reflexivity|exfalso].
  destruct (trans_next_some _ (dget d i1) (fun _ => True) W E I (fun _ _ _ => I) (fun _ _ => I))
    as (x & j & _ & Hn).
  destruct (step_some i1 S1 x j H1 L1 Hn) as (S' & EC & Hne & _).
  destruct (closure_spec _ _ _ EC) as (Hm & _).
  destruct S' as [|t S']; [congruence|].
  destruct (proj1 (Hm t) (or_introl eq_refl)) as (t0 & Ht0 & _).
  apply set_step_in in Ht0. destruct Ht0 as (s & Hs & Ht0).
  destruct (step_target i2 S2 x s t0 H2 L2 (Sub s Hs) Ht0) as (j2 & Hn2).
  rewrite (notrans_next_none _ _ x N2) in Hn2. discriminate.
Qed.

(* the `_` target is below every character target *)
Lemma any_below : forall i c j a,
  i < length d -> wf (d_ranges (dget d a)) = true ->
  dfa_char_next (dget d i) c = Some j -> d_any (dget d i) = Some a ->
  has_no_transitions (dget d j) = true ->
  has_no_transitions (dget d a) = true /\
  forall x, In x (d_acc (dget d a)) -> In x (d_acc (dget d j)).
Proof.
  intros i c j a Hi Wa Hj Ha Nj.
  destruct (dc_total _ _ _ Hc i Hi) as (S & Hl).
  destruct (big_char n (dget d i)) as (c' & K1 & K2 & K3).
  assert (Hn' : dfa_next (dget d i) (Chr c') = Some a).
  { cbn [dfa_next]. unfold dfa_char_next. rewrite K1, K2. exact Ha. }
  destruct (step_some i S (Chr c) j Hi Hl Hj) as (Sj & ECj & _ & Hjl & Hlj).
  destruct (step_some i S (Chr c') a Hi Hl Hn') as (Sa & ECa & _ & Hal & Hla).
  destruct (closure_spec _ _ _ ECj) as (Hmj & _).
  destruct (closure_spec _ _ _ ECa) as (Hma & _).
  assert (Sub : forall t, In t Sa -> In t Sj).
  { intros t Ht. apply Hma in Ht. destruct Ht as (t0 & Ht0 & P). apply Hmj. exists t0.
    split; [|exact P]. apply set_step_in in Ht0. destruct Ht0 as (s & Hs & Ht0).
    apply set_step_in. exists s. split; [exact Hs|]. cbn [n_sym_targets] in *.
    apply any_in_char_targets. apply (K3 s t0). exact Ht0. }
  split.
  - eapply (label_subset_notrans a j Sa Sj); eauto.
  - intros x Hx. rewrite (dc_acc _ _ _ Hc a Sa Hal Hla) in Hx.
    rewrite (dc_acc _ _ _ Hc j Sj Hjl Hlj). apply set_accepting_in in Hx.
    destruct Hx as (s & Hs & Hx). apply set_accepting_in. exists s. split; [apply Sub; exact Hs|exact Hx].
Qed.

End Closed.

(* ------------------------------------------------------------------ *)
(* 6. list lemmas for the accepting-value lists                        *)
(* ------------------------------------------------------------------ *)

Lemma flat_map_filter_nil {A B} (f : A -> bool) (g : A -> list B) l :
  (forall x, In x l -> f x = false -> g x = []) -> flat_map g l = flat_map g (filter f l).
Proof.
  induction l as [|a l IH]; intros H; cbn [flat_map filter]; [reflexivity|].
  rewrite IH by (intros x Hx; apply H; right; exact Hx).
  destruct (f a) eqn:E; cbn [flat_map]; [reflexivity|].
  rewrite (H a (or_introl eq_refl) E). reflexivity.
Qed.

Lemma ssorted_filter (f : nat -> bool) l : ssorted l -> ssorted (filter f l).
Proof.
  induction 1 as [|a l S IH F]; cbn [filter]; [constructor|].
  destruct (f a); [|exact IH]. constructor; [exact IH|].
  apply Forall_forall. intros x Hx. apply filter_In in Hx. destruct Hx as [Hx _].
  rewrite Forall_forall in F. apply F. exact Hx.
Qed.

Lemma filter_inter (A B : list nat) : ssorted A -> ssorted B ->
  filter (fun s => set_mem s B) A = filter (fun s => set_mem s A) B.
Proof.
  intros SA SB. apply ssorted_ext; try (apply ssorted_filter; assumption).
  intros x. rewrite !filter_In, !set_mem_In. tauto.
Qed.

Lemma filter_map_comm {A B} (f : B -> bool) (g : A -> B) l :
  filter f (map g l) = map g (filter (fun x => f (g x)) l).
Proof.
  induction l as [|a l IH]; cbn [map filter]; [reflexivity|].
  rewrite IH. destruct (f (g a)); reflexivity.
Qed.

Lemma flat_map_map_single {A B C} (g : B -> list C) (h : A -> B) (k : A -> C) l :
  (forall e, In e l -> g (h e) = [k e]) -> flat_map g (map h l) = map k l.
Proof.
  induction l as [|a l IH]; intros H; cbn [map flat_map]; [reflexivity|].
  rewrite (H a (or_introl eq_refl)), IH by (intros e He; apply H; right; exact He). reflexivity.
Qed.

Lemma filter_all_false {A} (f : A -> bool) l : (forall x, In x l -> f x = false) -> filter f l = [].
Proof.
  induction l as [|a l IH]; intros H; cbn [filter]; [reflexivity|].
  rewrite (H a (or_introl eq_refl)). apply IH. intros x Hx. apply H. right; exact Hx.
Qed.

Lemma npath_target : forall n, nfa_inv n -> forall s w t, npath n s w t ->
  (s = t /\ w = []) \/ 0 < t < length n.
Proof.
  intros n (_ & _ & _ & Tg & _) s w t H.
  induction H as [s|s t u w Ht Hp IH|s t u x w Ht Hp IH].
  - left; auto.
  - right. destruct IH as [[<- _]|IH]; [|exact IH].
    destruct (Tg s None t Ht). lia.
  - right. destruct IH as [[<- _]|IH]; [|exact IH].
    destruct (Tg s (Some x) t Ht). lia.
Qed.

(* ------------------------------------------------------------------ *)
(* 7. Part B: from dfa_closed to ruleset_sem                           *)
(* ------------------------------------------------------------------ *)

Section RS.
Variable benv : builtin_env.
Variables (n : nfa) (es : list rent) (d : dfa nat) (m : state_map) (cidx : nat -> option nat).
Hypothesis R : nfa_rules benv n es.
Hypothesis Hc : dfa_closed n d m.
Hypothesis Hd : 0 < length d.
Hypothesis Sh : dfa_shape_ok d.
Hypothesis Wf : forall e, In e es ->
  leaves_ok benv (cr_re (e_rule e)) = true /\ eoi_tail (cr_re (e_rule e)) = true /\
  chars_le benv (cr_re (e_rule e)) = true.
Hypothesis Hcidx : forall e, In e es -> cidx (cr_act (e_rule e)) = e_ci e.

Let rules := map e_rule es.
Let dre_of (e : rent) : dre := of_regex benv (cr_re (e_rule e)).

Lemma e_closed : forall e, In e es -> closed (cr_re (e_rule e)) = true.
Proof. intros e He. apply (leaves_ok_closed benv). apply Wf. exact He. Qed.

Lemma lang_path : forall e w, In e es -> lang benv (cr_re (e_rule e)) w -> npath n 0 w (e_st e).
Proof.
  intros e w He L. apply (nr_lang _ _ _ R e w He); [|exact L].
  eapply lang_word_ok; [|exact L]. apply Wf. exact He.
Qed.

Lemma path_lang : forall e w, In e es -> word_ok w -> npath n 0 w (e_st e) ->
  lang benv (cr_re (e_rule e)) w.
Proof. intros e w He Ww P. apply (nr_lang _ _ _ R e w He Ww). exact P. Qed.

Lemma run_some_word : forall w i, w <> [] -> word_ok w -> dfa_run d 0 w = Some i ->
  exists e u, In e es /\ word_ok u /\ lang benv (cr_re (e_rule e)) (w ++ u).
Proof.
  intros w i Hne Ww Hr. destruct (run_info n d m Hc Hd w i Hr) as (_ & S & _ & HS & _ & HmS).
  destruct S as [|t S]; [congruence|].
  assert (P : npath n 0 w t) by (apply HmS; left; reflexivity).
  destruct (npath_target n (nr_inv _ _ _ R) 0 w t P) as [[_ E]|Ht]; [congruence|].
  destruct (nr_coacc _ _ _ R) with (s := t) as (e & u & He & Wu & Pu); [|exact Ht|].
  - intros e He. apply leaves_ok_classes; apply Wf; exact He.
  - exists e, u. split; [exact He|]. split; [exact Wu|].
    apply path_lang; [exact He|apply word_ok_app; auto|]. eapply npath_app; eauto.
Qed.

Lemma lang_run : forall e w u, In e es -> lang benv (cr_re (e_rule e)) (w ++ u) ->
  exists i, dfa_run d 0 w = Some i.
Proof.
  intros e w u He L. apply lang_path in L; [|exact He].
  apply npath_app_inv in L. destruct L as (m0 & P & _).
  apply (dfa_closed_run_some_iff n d m w Hc Hd). exists m0. exact P.
Qed.

(* the accepting values of the state reached by w: the rules matching w, in rule order *)
Lemma acc_list : forall w i, word_ok w -> dfa_run d 0 w = Some i ->
  d_acc (dget d i) =
  map (rs_acc_of cidx) (filter (fun r => nullable (derivs benv w (of_regex benv (cr_re r)))) rules).
Proof.
  intros w i Ww Hr. destruct (run_info n d m Hc Hd w i Hr) as (Hi & S & Hl & _ & HS & HmS).
  rewrite (dc_acc _ _ _ Hc i S Hi Hl). unfold set_accepting.
  set (g := fun s => match n_acc (nget n s) with Some a => [a] | None => [] end).
  rewrite (flat_map_filter_nil (fun s => set_mem s (map e_st es)) g).
  2:{ intros s _ Hs. unfold g. destruct (n_acc (nget n s)) eqn:E; [|reflexivity].
      destruct (nr_only _ _ _ R s) as (e & He & Es); [congruence|].
      assert (set_mem s (map e_st es) = true).
      { apply set_mem_In. apply in_map_iff. exists e. auto. }
      congruence. }
  rewrite (filter_inter S (map e_st es) HS (nr_sorted _ _ _ R)).
  rewrite filter_map_comm.
  rewrite (flat_map_map_single g e_st (fun e => (cr_act (e_rule e), e_ci e))).
  2:{ intros e He. apply filter_In in He. destruct He as [He _]. unfold g.
      rewrite (nr_acc _ _ _ R e He). reflexivity. }
  unfold rules. rewrite filter_map_comm, map_map.
  rewrite (filter_ext_in (fun e => set_mem (e_st e) S)
             (fun e => nullable (derivs benv w (of_regex benv (cr_re (e_rule e)))))).
  2:{ intros e He. apply eq_true_iff_eq. rewrite set_mem_In, HmS.
      rewrite (nullable_after benv _ w (e_closed e He)). split.
      - apply path_lang; assumption.
      - apply lang_path; assumption. }
  apply map_ext_in. intros e He. apply filter_In in He. destruct He as [He _].
  unfold rs_acc_of. rewrite (Hcidx e He). reflexivity.
Qed.

Lemma in_rules : forall r, In r rules -> exists e, In e es /\ e_rule e = r.
Proof. intros r H. apply in_map_iff in H. destruct H as (e & E & He). eauto. Qed.

Lemma viable_iff : forall w, w <> [] -> word_ok w ->
  ((exists i, dfa_run d 0 w = Some i) <->
   existsb (fun r => dnonempty benv (derivs benv w (of_regex benv (cr_re r)))) rules = true).
Proof.
  intros w Hne Ww. rewrite existsb_exists. split.
  - intros (i & Hr). destruct (run_some_word w i Hne Ww Hr) as (e & u & He & _ & L).
    exists (e_rule e). split; [apply in_map; exact He|].
    apply dnonempty_correct. exists u. apply lang_after; [apply e_closed; exact He|exact L].
  - intros (r & Hr & Hn). apply in_rules in Hr. destruct Hr as (e & He & <-).
    apply dnonempty_correct in Hn. destruct Hn as (u & Hu).
    apply lang_after in Hu; [|apply e_closed; exact He]. eapply lang_run; eauto.
Qed.

Lemma sym_next_some : forall i, i < length d -> has_no_transitions (dget d i) = false ->
  exists x j, sym_ok x /\ dfa_next (dget d i) x = Some j.
Proof.
  intros i Hi H.
  destruct (trans_next_some _ (dget d i) (fun c => (c <= CHAR_MAX)%N)) as (x & j & Q & Hn).
  - apply (sh_ranges_wf _ Sh). exact Hi.
  - exact H.
  - unfold CHAR_MAX. lia.
  - intros c t. apply (sh_chars_max _ Sh). exact Hi.
  - intros r Hr. pose proof (sh_ranges_max _ Sh i r Hi Hr).
    pose proof (wf_in_nonempty _ _ _ (sh_ranges_wf _ Sh i Hi) Hr). lia.
  - exists x, j. split; [|exact Hn]. destruct x; exact Q.
Qed.

Lemma run_snoc : forall w i x j, dfa_run d 0 w = Some i -> dfa_next (dget d i) x = Some j ->
  dfa_run d 0 (w ++ [x]) = Some j.
Proof. intros w i x j Hr Hn. rewrite dfa_run_app, Hr. cbn [dfa_run]. rewrite Hn. reflexivity. Qed.

Lemma run_snoc_inv : forall w i x j, dfa_run d 0 w = Some i -> dfa_run d 0 (w ++ [x]) = Some j ->
  dfa_next (dget d i) x = Some j.
Proof.
  intros w i x j Hr Hn. rewrite dfa_run_app, Hr in Hn. cbn [dfa_run] in Hn.
  destruct (dfa_next (dget d i) x); [exact Hn|discriminate].
Qed.

Lemma ext_iff : forall w i, word_ok w -> dfa_run d 0 w = Some i ->
  (has_no_transitions (dget d i) = false <->
   existsb (fun r => dhasword benv (derivs benv w (of_regex benv (cr_re r)))) rules = true).
Proof.
  intros w i Ww Hr. destruct (run_info n d m Hc Hd w i Hr) as (Hi & _).
  rewrite existsb_exists. split.
  - intros H. destruct (sym_next_some i Hi H) as (x & j & Qx & Hn).
    pose proof (run_snoc w i x j Hr Hn) as Hr'.
    destruct (run_some_word (w ++ [x]) j) as (e & u & He & _ & L).
    + destruct w; discriminate.
    + apply word_ok_app. split; [exact Ww|]. constructor; [exact Qx|constructor].
    + exact Hr'.
    + exists (e_rule e). split; [apply in_map; exact He|].
      apply dhasword_correct. exists (x :: u). split; [discriminate|].
      apply lang_after; [apply e_closed; exact He|]. rewrite <- app_assoc in L. exact L.
  - intros (r & Hr0 & Hh). apply in_rules in Hr0. destruct Hr0 as (e & He & <-).
    apply dhasword_correct in Hh. destruct Hh as ([|x u] & Hne & Hu); [congruence|].
    apply lang_after in Hu; [|apply e_closed; exact He].
    replace (w ++ x :: u) with ((w ++ [x]) ++ u) in Hu by (rewrite <- app_assoc; reflexivity).
    destruct (lang_run e (w ++ [x]) u He Hu) as (j & Hj).
    pose proof (run_snoc_inv w i x j Hr Hj) as Hn.
    destruct (has_no_transitions (dget d i)) eqn:E; [|reflexivity].
    rewrite (notrans_next_none _ _ x E) in Hn. discriminate.
Qed.

Lemma eoi_spec : forall w i, word_ok w -> dfa_run d 0 w = Some i ->
  match d_eoi (dget d i) with
  | None => filter (fun r => nullable (deriv benv Eoi (derivs benv w (of_regex benv (cr_re r))))) rules = []
  | Some j => j < length d /\ j <> 0 /\ has_no_transitions (dget d j) = true /\
              d_acc (dget d j) =
              map (rs_acc_of cidx)
                  (filter (fun r => nullable (deriv benv Eoi (derivs benv w (of_regex benv (cr_re r))))) rules)
  end.
Proof.
  intros w i Ww Hr. destruct (run_info n d m Hc Hd w i Hr) as (Hi & _).
  assert (D : forall r, deriv benv Eoi (derivs benv w (of_regex benv (cr_re r)))
                        = derivs benv (w ++ [Eoi]) (of_regex benv (cr_re r))).
  { intros r. rewrite derivs_app. reflexivity. }
  assert (Ww' : word_ok (w ++ [Eoi])).
  { apply word_ok_app. split; [exact Ww|]. constructor; [exact I|constructor]. }
  destruct (d_eoi (dget d i)) as [j|] eqn:Ee.
  - assert (Hn : dfa_next (dget d i) Eoi = Some j) by exact Ee.
    pose proof (run_snoc w i Eoi j Hr Hn) as Hr'.
    pose proof (next_lt n d m Hc i Eoi j Hi Hn) as Hj.
    assert (Succ : In j (successors (dget d i))).
    { unfold successors. rewrite Ee. repeat (apply in_or_app; right). left; reflexivity. }
    split; [exact Hj|]. split; [apply (sh_no_back _ Sh i j Hi Succ)|]. split.
    + destruct (has_no_transitions (dget d j)) eqn:E; [reflexivity|exfalso].
      destruct (sym_next_some j Hj E) as (x & k & Qx & Hk).
      pose proof (run_snoc _ j x k Hr' Hk) as Hr''.
      destruct (run_some_word ((w ++ [Eoi]) ++ [x]) k) as (e & u & He & _ & L).
      * destruct w; discriminate.
      * apply word_ok_app. split; [exact Ww'|]. constructor; [exact Qx|constructor].
      * exact Hr''.
      * rewrite <- !app_assoc in L. cbn [app] in L.
        assert (x :: u = []); [|discriminate].
        eapply (eoi_tail_lang benv); [|exact L|reflexivity]. apply Wf. exact He.
    + rewrite (acc_list (w ++ [Eoi]) j Ww' Hr'). f_equal.
      apply filter_ext. intros r. rewrite D. reflexivity.
  - apply filter_all_false. intros r Hr0. apply in_rules in Hr0. destruct Hr0 as (e & He & <-).
    destruct (nullable _) eqn:E; [exfalso|reflexivity].
    rewrite D in E. apply (nullable_after benv _ _ (e_closed e He)) in E.
    destruct (lang_run e (w ++ [Eoi]) [] He) as (j & Hj); [rewrite app_nil_r; exact E|].
    pose proof (run_snoc_inv w i Eoi j Hr Hj) as Hn. cbn [dfa_next] in Hn. congruence.
Qed.

Theorem ruleset_sem_core : ruleset_sem benv rules cidx d.
Proof.
  constructor.
  - exact Hd.
  - intros i x j Hi Hn. eapply next_lt; eauto.
  - apply (sh_succ_targets _ Sh).
  - apply (sh_init _ Sh).
  - apply (sh_no_back _ Sh).
  - apply (sh_preds0 _ Sh).
  - apply (sh_preds _ Sh).
  - apply (sh_ranges_wf _ Sh).
  - apply (sh_ranges_max _ Sh).
  - apply (sh_flags0 _ Sh).
  - intros p Sp Hne. unfold run, rs_viable, rs_dafter. apply viable_iff.
    + destruct p; [congruence|discriminate].
    + apply scalars_word_ok. exact Sp.
  - intros p i Hr. unfold run in Hr. apply (run_info n d m Hc Hd _ i Hr).
  - intros p i Sp Hr. unfold run in Hr. unfold rs_accs_plain, rs_dafter.
    apply acc_list; [apply scalars_word_ok; exact Sp|exact Hr].
  - intros p i Sp _ Hr. unfold run in Hr. unfold rs_ext, rs_dafter.
    apply ext_iff; [apply scalars_word_ok; exact Sp|exact Hr].
  - intros p i Sp Hr. unfold run in Hr. unfold rs_accs_eoi, rs_dafter.
    pose proof (eoi_spec (map Chr p) i (scalars_word_ok p Sp) Hr) as H.
    destruct (d_eoi (dget d i)); [exact H|]. rewrite H. reflexivity.
  - intros p i c j a Sp Hr Sc Hj Ha Nj. unfold run in Hr.
    destruct (run_info n d m Hc Hd _ i Hr) as (Hi & _).
    assert (Hal : a < length d).
    { apply (sh_succ_targets _ Sh i a Hi). unfold successors. rewrite Ha.
      apply in_or_app; right. apply in_or_app; right. apply in_or_app; left. left; reflexivity. }
    exact (any_below n d m Hc i c j a Hi (sh_ranges_wf _ Sh a Hal) Hj Ha Nj).
Qed.

End RS.

(* the hypotheses on the closed rules: SpecDef.wf_regex (leaves_ok, eoi_tail) of the rule's
   regex, and regex_chars_ok *)
Definition rule_re_ok (benv : builtin_env) (r : crule) : Prop :=
  wf_regex benv (cr_re r) = true /\ regex_chars_ok benv (cr_re r) = true.

Theorem ruleset_sem_of_closed : forall benv rules b ctxs0 n ctxs crules d m cidx,
  benv_wf benv ->
  compile_rules benv rules nfa_new b ctxs0 = Ok (n, ctxs) ->
  close_rules rules b = Ok crules ->
  Forall (rule_re_ok benv) crules ->
  (forall k r, nth_error crules k = Some r ->
               cidx (cr_act r) = nth k (ctx_indices (length ctxs0) crules) None) ->
  dfa_closed n d m -> 0 < length d -> dfa_shape_ok d ->
  ruleset_sem benv crules cidx d.
Proof.
  intros benv rules b ctxs0 n ctxs crules d m cidx BW C Cl Ok_ Hci Hc Hd Sh.
  assert (Ok' : forall r, In r crules ->
            leaves_ok benv (cr_re r) = true /\ eoi_tail (cr_re r) = true /\
            chars_le benv (cr_re r) = true /\ ranges_ok (cr_re r) = true).
  { intros r Hr. rewrite Forall_forall in Ok_. destruct (Ok_ r Hr) as [W K].
    unfold wf_regex in W. unfold regex_chars_ok in K.
    apply andb_true_iff in W, K. tauto. }
  destruct (compile_rules_sem benv BW rules b ctxs0 n ctxs crules C Cl) as (es & E1 & E2 & R).
  { apply Forall_forall. intros r Hr. destruct (Ok' r Hr) as (L & _ & _ & Rg).
    apply leaves_ok_wf; assumption. }
  rewrite <- E1.
  apply (ruleset_sem_core benv n es d m cidx R Hc Hd Sh).
  - intros e He. destruct (Ok' (e_rule e)) as (L & T & K & _); [rewrite <- E1; apply in_map; exact He|].
    auto.
  - intros e He. apply In_nth_error in He. destruct He as (k & Hk).
    rewrite (Hci k (e_rule e)) by (rewrite <- E1; apply map_nth_error; exact Hk).
    rewrite <- E2. apply nth_error_nth. apply map_nth_error. exact Hk.
Qed.

(* the form with SpecDef.wf_crule *)
Corollary ruleset_sem_of_closed_wf_crule : forall benv rules b ctxs0 n ctxs crules d m cidx,
  benv_wf benv ->
  compile_rules benv rules nfa_new b ctxs0 = Ok (n, ctxs) ->
  close_rules rules b = Ok crules ->
  Forall (fun r => wf_crule benv r = true) crules ->
  Forall (fun r => regex_chars_ok benv (cr_re r) = true) crules ->
  (forall k r, nth_error crules k = Some r ->
               cidx (cr_act r) = nth k (ctx_indices (length ctxs0) crules) None) ->
  dfa_closed n d m -> 0 < length d -> dfa_shape_ok d ->
  ruleset_sem benv crules cidx d.
Proof.
  intros benv rules b ctxs0 n ctxs crules d m cidx BW C Cl W K.
  eapply ruleset_sem_of_closed; eauto.
  rewrite Forall_forall in *. intros r Hr. split; [|apply K; exact Hr].
  specialize (W r Hr). unfold wf_crule in W. apply andb_true_iff in W. destruct W as [W _].
  apply andb_true_iff in W. destruct W as [W _]. exact W.
Qed.

(* ------------------------------------------------------------------ *)
(* 8. Part C: right-context automata                                   *)
(* ------------------------------------------------------------------ *)

Section CtxRun.
Variable benv : builtin_env.

Lemma empty_ctx_holds : forall rest D, dnonempty benv D = false -> ctx_holds_d benv D rest = false.
Proof.
  induction rest as [|c rest IH]; intros D H; cbn [ctx_holds_d].
  - destruct (nullable D) eqn:E1.
    { exfalso. apply (nullable_correct benv) in E1. rewrite <- not_true_iff_false in H. apply H.
      apply (dnonempty_correct benv). eauto. }
    destruct (nullable (deriv benv Eoi D)) eqn:E2; [|reflexivity].
    exfalso. apply (nullable_correct benv) in E2. apply (deriv_correct benv) in E2.
    rewrite <- not_true_iff_false in H. apply H. apply (dnonempty_correct benv). eauto.
  - destruct (nullable D) eqn:E1.
    { exfalso. apply (nullable_correct benv) in E1. rewrite <- not_true_iff_false in H. apply H.
      apply (dnonempty_correct benv). eauto. }
    cbn [orb]. apply IH. destruct (dnonempty benv (deriv benv (Chr c) D)) eqn:E2; [|reflexivity].
    exfalso. apply (dnonempty_correct benv) in E2. destruct E2 as (u & Hu). apply (deriv_correct benv) in Hu.
    rewrite <- not_true_iff_false in H. apply H. apply (dnonempty_correct benv). eauto.
Qed.

Lemma ctx_lookup_char_next : forall mg (st : dstate nat) c,
  is_scalar c = true -> wf (d_ranges st) = true ->
  (forall r, In r (d_ranges st) -> (r_hi r <= CHAR_MAX)%N) ->
  ctx_lookup_char mg st c = dfa_char_next st c.
Proof.
  intros mg st c Hc W M. rewrite ctx_lookup_char_correct by assumption.
  unfold dfa_char_lookup, dfa_char_next.
  destruct (assoc_N c (d_chars st)); [reflexivity|].
  destruct (lookup (d_ranges st) c); reflexivity.
Qed.

Lemma ctx_eoi_chain_pos : forall f (d : dfa nat) s, 0 < f ->
  ctx_eoi_chain f d s =
  if is_accepting (dget d (Nat.min s (length d - 1))) then true
  else match d_eoi (dget d (Nat.min s (length d - 1))) with
       | Some next => ctx_eoi_chain (f - 1) d next
       | None => false
       end.
Proof.
  intros [|f] d s H; [lia|]. replace (S f - 1) with f by lia. reflexivity.
Qed.

Lemma ctx_eoi_chain_notrans : forall f (d : dfa nat) s,
  has_no_transitions (dget d (Nat.min s (length d - 1))) = true ->
  ctx_eoi_chain f d s = is_accepting (dget d (Nat.min s (length d - 1))).
Proof.
  intros f d s H. unfold has_no_transitions in H.
  destruct (d_chars (dget d (Nat.min s (length d - 1)))); [|discriminate].
  destruct (d_ranges (dget d (Nat.min s (length d - 1)))); [|discriminate].
  destruct (d_any (dget d (Nat.min s (length d - 1)))); [discriminate|].
  destruct (d_eoi (dget d (Nat.min s (length d - 1)))) eqn:E; [discriminate|].
  destruct f; cbn [ctx_eoi_chain]; rewrite ?E;
    destruct (is_accepting (dget d (Nat.min s (length d - 1)))); reflexivity.
Qed.

Variables (mg : nat) (r : crule) (cidx : nat -> option nat) (d : dfa nat).
Hypothesis RS : ruleset_sem benv [r] cidx d.

Let D0 := of_regex benv (cr_re r).

Lemma ctx_run_from : forall rest p i,
  scalars p -> scalars rest -> run d p = Some i ->
  ctx_run mg d i rest = ctx_holds_d benv (derivs benv (map Chr p) D0) rest.
Proof.
  assert (Len : 0 < length d) by apply (rs_nonempty _ _ _ _ RS).
  assert (Acc : forall p i, scalars p -> run d p = Some i ->
            is_accepting (dget d i) = nullable (derivs benv (map Chr p) D0)).
  { intros p i Sp Hr. unfold is_accepting. rewrite (rs_acc _ _ _ _ RS p i Sp Hr).
    unfold rs_accs_plain, rs_dafter. cbn [filter]. fold D0.
    destruct (nullable (derivs benv (map Chr p) D0)); reflexivity. }
  induction rest as [|c rest IH]; intros p i Sp Sr Hr.
  - pose proof (rs_run_lt _ _ _ _ RS p i Hr) as Hi.
    cbn [ctx_run ctx_holds_d]. rewrite (Nat.min_l i (length d - 1)) by lia.
    rewrite (Acc p i Sp Hr).
    destruct (nullable (derivs benv (map Chr p) D0)) eqn:En; [reflexivity|]. cbn [orb].
    rewrite (ctx_eoi_chain_pos (length d)) by lia. rewrite (Nat.min_l i (length d - 1)) by lia.
    rewrite (Acc p i Sp Hr), En.
    pose proof (rs_eoi _ _ _ _ RS p i Sp Hr) as He.
    assert (Ae : rs_accs_eoi benv [r] cidx p =
                 if nullable (deriv benv Eoi (derivs benv (map Chr p) D0)) then [rs_acc_of cidx r] else []).
    { unfold rs_accs_eoi, rs_dafter. cbn [filter]. fold D0.
      destruct (nullable (deriv benv Eoi (derivs benv (map Chr p) D0))); reflexivity. }
    destruct (d_eoi (dget d i)) as [j|].
    + destruct He as (Hj & _ & Nt & Aj). rewrite Ae in Aj.
      rewrite ctx_eoi_chain_notrans; rewrite (Nat.min_l j (length d - 1)) by lia; [|exact Nt].
      unfold is_accepting. rewrite Aj.
      destruct (nullable (deriv benv Eoi (derivs benv (map Chr p) D0))); reflexivity.
    + rewrite Ae in He.
      destruct (nullable (deriv benv Eoi (derivs benv (map Chr p) D0))); [discriminate|reflexivity].
  - pose proof (rs_run_lt _ _ _ _ RS p i Hr) as Hi.
    inversion Sr as [|? ? Sc Sr']; subst.
    cbn [ctx_run ctx_holds_d]. rewrite (Nat.min_l i (length d - 1)) by lia.
    rewrite (Acc p i Sp Hr).
    destruct (nullable (derivs benv (map Chr p) D0)) eqn:En; [reflexivity|]. cbn [orb].
    rewrite ctx_lookup_char_next;
      [|exact Sc|apply (rs_ranges_wf _ _ _ _ RS); exact Hi|intros r0 Hr0; apply (rs_ranges_max _ _ _ _ RS i r0 Hi Hr0)].
    assert (Sp' : scalars (p ++ [c])).
    { apply Forall_app. split; [exact Sp|]. constructor; [exact Sc|constructor]. }
    assert (Dv : derivs benv (map Chr (p ++ [c])) D0 = deriv benv (Chr c) (derivs benv (map Chr p) D0)).
    { rewrite map_app, derivs_app. reflexivity. }
    assert (Rn : run d (p ++ [c]) = match dfa_char_next (dget d i) c with
                                    | Some j => Some j | None => None end).
    { unfold run in *. rewrite map_app, dfa_run_app, Hr. cbn [map dfa_run dfa_next].
      destruct (dfa_char_next (dget d i) c); reflexivity. }
    destruct (dfa_char_next (dget d i) c) as [j|] eqn:En'.
    + rewrite (IH (p ++ [c]) j Sp' Sr' Rn), Dv. reflexivity.
    + symmetry. apply empty_ctx_holds. rewrite <- Dv.
      destruct (dnonempty benv (derivs benv (map Chr (p ++ [c])) D0)) eqn:Ev; [exfalso|reflexivity].
      assert (V : rs_viable benv [r] (p ++ [c]) = true).
      { unfold rs_viable, rs_dafter. cbn [existsb]. fold D0. rewrite Ev. reflexivity. }
      apply (rs_run_viable _ _ _ _ RS (p ++ [c]) Sp') in V; [|destruct p; discriminate].
      destruct V as (j & Hj). congruence.
Qed.

Theorem ctx_sem_of_ruleset : ctx_sem benv mg (cr_re r) d.
Proof.
  intros rest Sr. apply (ctx_run_from rest [] 0); [constructor|exact Sr|reflexivity].
Qed.

End CtxRun.

Theorem ctx_sem_of_closed : forall benv mg b re cre ctxs ctxs' idx ca,
  benv_wf benv ->
  new_right_ctx benv b ctxs re = Ok (ctxs', idx) -> nth_error ctxs' idx = Some ca ->
  expand_top b re = Ok cre -> wf_regex benv cre = true -> regex_chars_ok benv cre = true ->
  dfa_closed (ca_nfa ca) (ca_dfa ca) (ca_map ca) -> 0 < length (ca_dfa ca) ->
  dfa_shape_ok (ca_dfa ca) ->
  ctx_sem benv mg cre (ca_dfa ca).
Proof.
  intros benv mg b re cre ctxs ctxs' idx ca BW Hn Hnth X W K Hc Hd Sh.
  apply new_right_ctx_ok in Hn. cbn [fst snd] in Hn.
  destruct Hn as (-> & _ & n & dm & Hadd & _ & ->).
  rewrite nth_error_app2, Nat.sub_diag in Hnth by lia. cbn in Hnth. injection Hnth as <-.
  cbn [ca_nfa ca_dfa ca_map] in *.
  change cre with (cr_re (mkCRule cre None 0)).
  apply (ctx_sem_of_ruleset benv mg (mkCRule cre None 0) (fun _ => None)).
  apply (ruleset_sem_of_closed benv [RBRule (mkRule re None 0)] b [] n []
           [mkCRule cre None 0] (fst dm) (snd dm) (fun _ => None) BW); auto.
  - cbn [compile_rules]. unfold compile_single_rule. cbn [ru_ctx ru_re ru_act bind fst snd].
    rewrite Hadd. reflexivity.
  - cbn [close_rules]. unfold close_rule. cbn [ru_ctx ru_re ru_act]. rewrite X. reflexivity.
  - constructor; [|constructor]. split; assumption.
  - intros [|k] r0 H; cbn in H; [injection H as <-; reflexivity|].
    destruct k; discriminate.
Qed.

Print Assumptions compile_rules_sem.
Print Assumptions dfa_shape_ok_b_sound.
Print Assumptions ruleset_sem_of_closed.
Print Assumptions ruleset_sem_of_closed_wf_crule.
Print Assumptions ctx_sem_of_ruleset.
Print Assumptions ctx_sem_of_closed.
