(* Proofs about the range-map model of RangeMap.v. No axioms. *)
From LexVerif Require Import Base RangeMap.
From Coq Require Import List NArith Bool Lia.
Import ListNotations.
Local Open Scope N_scope.

Arguments N.add : simpl never.
Arguments N.sub : simpl never.
Arguments N.max : simpl never.
Arguments N.min : simpl never.
Arguments N.ltb : simpl never.
Arguments N.leb : simpl never.
Arguments N.eqb : simpl never.

(* ------------------------------------------------------------------ *)
(* basic vocabulary *)

Definition lb_lt (lb : option N) (x : N) : Prop :=
  match lb with None => True | Some b => b < x end.

Ltac b2p :=
  repeat (rewrite ?andb_true_iff, ?N.leb_le, ?N.ltb_lt, ?N.eqb_eq in * ).

Ltac bdestr :=
  repeat match goal with
  | |- context[N.ltb ?a ?b] => destruct (N.ltb_spec a b)
  | |- context[N.leb ?a ?b] => destruct (N.leb_spec a b)
  | |- context[N.eqb ?a ?b] => destruct (N.eqb_spec a b)
  end.

Section Basic.
Context {A : Type}.
Implicit Types (rs t : rmap A) (r : range A) (lb : option N).

Lemma wf_from_cons : forall lb r t,
  wf_from lb (r :: t) = true <->
  (r_lo r <= r_hi r /\ lb_lt lb (r_lo r) /\ wf_from (Some (r_hi r)) t = true).
Proof.
  intros lb r t. cbn [wf_from]. destruct lb; cbn [lb_lt]; b2p; tauto.
Qed.

Lemma wf_from_weaken : forall lb lb' rs,
  wf_from lb rs = true ->
  (forall x, lb_lt lb x -> lb_lt lb' x) ->
  wf_from lb' rs = true.
Proof.
  intros lb lb' [|r t] H W; [reflexivity|].
  apply wf_from_cons in H. apply wf_from_cons. intuition.
Qed.

Lemma wf_from_none : forall lb rs, wf_from lb rs = true -> wf rs = true.
Proof.
  intros. unfold wf. eapply wf_from_weaken; eauto. intros; exact I.
Qed.

Lemma lookup_below : forall rs b c,
  wf_from (Some b) rs = true -> c <= b -> lookup rs c = None.
Proof.
  induction rs as [|r t IH]; intros b c H Hc; [reflexivity|].
  apply wf_from_cons in H. destruct H as (H1 & H2 & H3). cbn [lb_lt] in H2.
  cbn [lookup]. unfold in_range.
  destruct (N.leb_spec (r_lo r) c); [lia|]. cbn [andb].
  eapply IH; eauto. lia.
Qed.

Lemma lookup_cons : forall r t c,
  lookup (r :: t) c =
  if (r_lo r <=? c) && (c <=? r_hi r) then Some (r_val r) else lookup t c.
Proof. reflexivity. Qed.

Lemma wf_in_nonempty : forall rs lb r,
  wf_from lb rs = true -> In r rs -> r_lo r <= r_hi r.
Proof.
  induction rs as [|r0 t IH]; intros lb r H Hin; [destruct Hin|].
  apply wf_from_cons in H. destruct H as (H1 & H2 & H3).
  destruct Hin as [->|Hin]; [assumption|]. eapply IH; eauto.
Qed.

End Basic.

(* ------------------------------------------------------------------ *)
(* lookup / covered are decided by membership in some piece *)

Theorem lookup_some_iff : forall (A:Type) (rs : rmap A) c,
  covered rs c = true <-> exists r, In r rs /\ (r_lo r <= c <= r_hi r)%N.
Proof.
  intros A rs c. unfold covered.
  induction rs as [|r0 t IH].
  - cbn. split; [discriminate|]. intros (r & [] & _).
  - rewrite lookup_cons.
    destruct (N.leb_spec (r_lo r0) c); destruct (N.leb_spec c (r_hi r0)); cbn [andb].
    + split; [|reflexivity]. intros _. exists r0. split; [left; reflexivity|lia].
    + rewrite IH. split.
      * intros (r & Hin & Hr). exists r. split; [right; assumption|assumption].
      * intros (r & [->|Hin] & Hr); [lia|]. exists r; tauto.
    + rewrite IH. split.
      * intros (r & Hin & Hr). exists r. split; [right; assumption|assumption].
      * intros (r & [->|Hin] & Hr); [lia|]. exists r; tauto.
    + rewrite IH. split.
      * intros (r & Hin & Hr). exists r. split; [right; assumption|assumption].
      * intros (r & [->|Hin] & Hr); [lia|]. exists r; tauto.
Qed.

Theorem wf_endpoints_members : forall (A:Type) (rs : rmap A) r,
  wf rs = true -> In r rs ->
  (r_lo r <= r_hi r)%N /\ covered rs (r_lo r) = true /\ covered rs (r_hi r) = true.
Proof.
  intros A rs r H Hin.
  assert (Hne : r_lo r <= r_hi r) by (eapply wf_in_nonempty; eauto).
  split; [assumption|].
  split; apply lookup_some_iff; exists r; split; try assumption; lia.
Qed.

(* ------------------------------------------------------------------ *)
(* insert *)

Section Insert.
Context {A : Type} (merge : A -> A -> A).
Implicit Types (rs t : rmap A) (r : range A) (lb last : option N).

Lemma insert_go_wf : forall rs lb lo hi v last,
  wf_from lb rs = true -> lo <= hi -> lb_lt lb lo -> lb_lt last lo ->
  wf_from lb (insert_go merge rs lo hi v last) = true.
Proof.
  induction rs as [|r rest IH]; intros lb lo hi v last H Hle Hlb Hlast.
  - cbn [insert_go].
    assert (E : (match last with None => true | Some e => e <? lo end) = true).
    { destruct last; cbn [lb_lt] in Hlast; b2p; auto. }
    rewrite E. apply wf_from_cons. cbn [r_lo r_hi]. auto.
  - apply wf_from_cons in H. destruct H as (H1 & H2 & H3).
    cbn [insert_go].
    destruct (N.ltb_spec (r_hi r) lo).
    { apply wf_from_cons. repeat split; auto. }
    destruct (N.ltb_spec hi (r_lo r)).
    { apply wf_from_cons. cbn [r_lo r_hi]. repeat split; auto.
      apply wf_from_cons. cbn [lb_lt]. auto. }
    assert (IH' : forall oe, oe <= r_hi r -> oe < hi ->
       wf_from (Some oe) (insert_go merge rest (oe + 1) hi v (Some oe)) = true).
    { intros. apply IH; cbn [lb_lt]; try lia.
      eapply wf_from_weaken; eauto. cbn [lb_lt]. intros; lia. }
    assert (Wrest : forall b, b <= r_hi r -> wf_from (Some b) rest = true).
    { intros. eapply wf_from_weaken; eauto. cbn [lb_lt]. intros; lia. }
    destruct (N.max_spec lo (r_lo r)) as [[? ->]|[? ->]];
    destruct (N.min_spec hi (r_hi r)) as [[? ->]|[? ->]];
    destruct lb as [b|]; cbn [lb_lt] in *;
    bdestr; try lia; cbn [app];
    repeat (apply wf_from_cons; cbn [r_lo r_hi lb_lt]; repeat split; try lia);
    auto; try (apply Wrest; lia); try (apply IH'; lia).
Qed.

Lemma insert_go_lookup : forall rs lb lo hi v last c,
  wf_from lb rs = true -> lo <= hi -> lb_lt last lo ->
  lookup (insert_go merge rs lo hi v last) c =
  if (lo <=? c) && (c <=? hi)
  then Some (match lookup rs c with Some x => merge x v | None => v end)
  else lookup rs c.
Proof.
  induction rs as [|r rest IH]; intros lb lo hi v last c H Hle Hlast.
  - cbn [insert_go].
    assert (E : (match last with None => true | Some e => e <? lo end) = true).
    { destruct last; cbn [lb_lt] in Hlast; b2p; auto. }
    rewrite E. rewrite lookup_cons. cbn [r_lo r_hi r_val lookup].
    destruct ((lo <=? c) && (c <=? hi)); reflexivity.
  - apply wf_from_cons in H. destruct H as (H1 & H2 & H3).
    assert (Lrest : c <= r_hi r -> lookup rest c = None).
    { intros. eapply lookup_below; eauto. }
    cbn [insert_go].
    destruct (N.ltb_spec (r_hi r) lo).
    { rewrite !lookup_cons.
      rewrite (IH (Some (r_hi r)) lo hi v (Some (r_hi r)) c) by (cbn [lb_lt]; auto).
      bdestr; cbn [andb]; try lia; reflexivity. }
    destruct (N.ltb_spec hi (r_lo r)).
    { rewrite !lookup_cons. cbn [r_lo r_hi r_val].
      bdestr; cbn [andb]; try lia; try reflexivity.
      all: rewrite Lrest by lia; reflexivity. }
    assert (IH' : forall oe, oe < hi ->
       lookup (insert_go merge rest (oe + 1) hi v (Some oe)) c =
       if (oe + 1 <=? c) && (c <=? hi)
       then Some (match lookup rest c with Some x => merge x v | None => v end)
       else lookup rest c).
    { intros. eapply IH; eauto; cbn [lb_lt]; lia. }
    destruct (N.max_spec lo (r_lo r)) as [[? ->]|[? ->]];
    destruct (N.min_spec hi (r_hi r)) as [[? ->]|[? ->]];
    repeat match goal with
    | |- context[if N.ltb ?a ?b then _ else _] => destruct (N.ltb_spec a b); try lia
    end;
    cbn [app]; rewrite ?lookup_cons; cbn [r_lo r_hi r_val];
    rewrite ?IH' by lia;
    bdestr; cbn [andb]; try lia; try reflexivity;
    try (rewrite Lrest by lia; reflexivity).
Qed.

End Insert.

Theorem insert_wf : forall (A:Type) (merge : A -> A -> A) (rs : rmap A) lo hi v,
  wf rs = true -> (lo <= hi)%N -> wf (insert merge rs lo hi v) = true.
Proof.
  intros. unfold wf, insert. apply insert_go_wf; cbn [lb_lt]; auto.
Qed.

Theorem insert_lookup : forall (A:Type) (merge : A -> A -> A) (rs : rmap A) lo hi v c,
  wf rs = true -> (lo <= hi)%N ->
  lookup (insert merge rs lo hi v) c =
  if ((lo <=? c)%N && (c <=? hi)%N)
  then Some (match lookup rs c with Some x => merge x v | None => v end)
  else lookup rs c.
Proof.
  intros. unfold insert. eapply insert_go_lookup; eauto. exact I.
Qed.

(* ------------------------------------------------------------------ *)
(* insert_ranges *)

Definition olist {A} (h : option (range A)) (l : rmap A) : rmap A :=
  match h with Some r => r :: l | None => l end.

Definition nxt {A} (l : rmap A) : option (range A) * rmap A :=
  match l with [] => (None, []) | x :: t => (Some x, t) end.

Lemma nxt_olist : forall A (l : rmap A), olist (fst (nxt l)) (snd (nxt l)) = l.
Proof. destruct l; reflexivity. Qed.

Lemma nxt_none : forall A (l : rmap A), fst (nxt l) = None -> snd (nxt l) = [].
Proof. destruct l; cbn; [reflexivity|discriminate]. Qed.

Definition comb {A} (merge : A -> A -> A) (a b : option A) : option A :=
  match a, b with
  | Some a, Some b => Some (merge a b)
  | Some a, None => Some a
  | None, Some b => Some b
  | None, None => None
  end.

Section InsertRanges.
Context {A : Type} (merge : A -> A -> A).
Implicit Types (rs t : rmap A) (r : range A) (lb last : option N).

Lemma irgo_S : forall fuel' h1 l1 h2 l2,
  insert_ranges_go merge (S fuel') h1 l1 h2 l2 =
      match h1, h2 with
      | None, None => Some []
      | Some r1, None => Some (r1 :: l1)
      | None, Some r2 => Some (r2 :: l2)
      | Some r1, Some r2 =>
          if (r_hi r1 <? r_lo r2)%N then
            option_map (cons r1) (insert_ranges_go merge fuel' (fst (nxt l1)) (snd (nxt l1)) h2 l2)
          else if (r_hi r2 <? r_lo r1)%N then
            option_map (cons r2) (insert_ranges_go merge fuel' h1 l1 (fst (nxt l2)) (snd (nxt l2)))
          else
            let os := N.max (r_lo r1) (r_lo r2) in
            let oe := N.min (r_hi r1) (r_hi r2) in
            let pre :=
              if (r_lo r1 <? r_lo r2)%N then [mkRange (r_lo r1) (os - 1) (r_val r1)]
              else if (r_lo r2 <? r_lo r1)%N then [mkRange (r_lo r2) (os - 1) (r_val r2)]
              else [] in
            let merged := mkRange os oe (merge (r_val r1) (r_val r2)) in
            let rest :=
              if (r_hi r1 <? r_hi r2)%N then
                insert_ranges_go merge fuel' (fst (nxt l1)) (snd (nxt l1))
                                 (Some (mkRange (oe + 1) (r_hi r2) (r_val r2))) l2
              else if (r_hi r2 <? r_hi r1)%N then
                insert_ranges_go merge fuel' (Some (mkRange (oe + 1) (r_hi r1) (r_val r1))) l1
                                 (fst (nxt l2)) (snd (nxt l2))
              else
                insert_ranges_go merge fuel' (fst (nxt l1)) (snd (nxt l1)) (fst (nxt l2)) (snd (nxt l2)) in
            option_map (fun t => pre ++ merged :: t) rest
      end.
Proof. reflexivity. Qed.

Definition ir_post lb (L1 L2 : rmap A) (res : option (rmap A)) : Prop :=
  exists rs, res = Some rs /\ wf_from lb rs = true /\
    forall c, lookup rs c = comb merge (lookup L1 c) (lookup L2 c).

Lemma comb_none_r : forall (a : option A), comb merge a None = a.
Proof. destruct a; reflexivity. Qed.
Lemma comb_none_l : forall (a : option A), comb merge None a = a.
Proof. destruct a; reflexivity. Qed.

Lemma irgo_correct : forall fuel h1 l1 h2 l2 lb,
  (h1 = None -> l1 = []) -> (h2 = None -> l2 = []) ->
  wf_from lb (olist h1 l1) = true -> wf_from lb (olist h2 l2) = true ->
  (length (olist h1 l1) + length (olist h2 l2) < fuel)%nat ->
  ir_post lb (olist h1 l1) (olist h2 l2) (insert_ranges_go merge fuel h1 l1 h2 l2).
Proof.
  induction fuel as [|fuel IH]; intros h1 l1 h2 l2 lb N1 N2 W1 W2 F; [lia|].
  rewrite irgo_S.
  destruct h1 as [r1|]; destruct h2 as [r2|]; cbn [olist] in *.
  2:{ rewrite (N2 eq_refl). exists (r1 :: l1). repeat split; auto.
      intros. cbn [lookup]. rewrite comb_none_r. reflexivity. }
  2:{ rewrite (N1 eq_refl). exists (r2 :: l2). repeat split; auto.
      intros. cbn [lookup]. rewrite comb_none_l. reflexivity. }
  2:{ rewrite (N1 eq_refl), (N2 eq_refl). exists []. repeat split; auto. }
  clear N1 N2.
  pose proof (nxt_olist _ l1) as O1. pose proof (nxt_none _ l1) as NN1.
  pose proof (nxt_olist _ l2) as O2. pose proof (nxt_none _ l2) as NN2.
  apply wf_from_cons in W1. destruct W1 as (A1 & B1 & C1).
  apply wf_from_cons in W2. destruct W2 as (A2 & B2 & C2).
  cbn [length] in F.
  destruct (N.ltb_spec (r_hi r1) (r_lo r2)).
  { destruct (IH (fst (nxt l1)) (snd (nxt l1)) (Some r2) l2 (Some (r_hi r1)))
      as (rs & E & W & L); auto; try discriminate.
    - rewrite O1. assumption.
    - cbn [olist]. apply wf_from_cons. cbn [lb_lt]. auto.
    - rewrite O1. cbn [olist length]. lia.
    - rewrite E. cbn [option_map]. exists (r1 :: rs). split; [reflexivity|]. split.
      + apply wf_from_cons. auto.
      + intros c. rewrite !lookup_cons. rewrite L. rewrite O1. cbn [olist].
        rewrite lookup_cons.
        assert (c <= r_hi r2 -> lookup l2 c = None) by (intros; eapply lookup_below; eauto).
        bdestr; cbn [andb]; try lia; try reflexivity.
        all: rewrite H0 by lia; reflexivity. }
  destruct (N.ltb_spec (r_hi r2) (r_lo r1)).
  { destruct (IH (Some r1) l1 (fst (nxt l2)) (snd (nxt l2)) (Some (r_hi r2)))
      as (rs & E & W & L); auto; try discriminate.
    - cbn [olist]. apply wf_from_cons. cbn [lb_lt]. auto.
    - rewrite O2. assumption.
    - rewrite O2. cbn [olist length]. lia.
    - rewrite E. cbn [option_map]. exists (r2 :: rs). split; [reflexivity|]. split.
      + apply wf_from_cons. auto.
      + intros c. rewrite !lookup_cons. rewrite L. rewrite O2. cbn [olist].
        rewrite lookup_cons.
        assert (c <= r_hi r1 -> lookup l1 c = None) by (intros; eapply lookup_below; eauto).
        bdestr; cbn [andb]; try lia; try rewrite comb_none_l; try reflexivity.
        all: rewrite H1 by lia; reflexivity. }
  cbv zeta.
  set (os := N.max (r_lo r1) (r_lo r2)).
  set (oe := N.min (r_hi r1) (r_hi r2)).
  assert (Hos : os = N.max (r_lo r1) (r_lo r2)) by reflexivity.
  assert (Hoe : oe = N.min (r_hi r1) (r_hi r2)) by reflexivity.
  clearbody os oe.
  (* the recursive call, in each of the three sub-cases *)
  match goal with
  | |- ir_post _ _ _ (option_map _ ?rest) =>
      assert (R : ir_post (Some oe)
                   (if r_hi r1 <? r_hi r2 then l1
                    else if r_hi r2 <? r_hi r1 then mkRange (oe + 1) (r_hi r1) (r_val r1) :: l1
                    else l1)
                   (if r_hi r1 <? r_hi r2 then mkRange (oe + 1) (r_hi r2) (r_val r2) :: l2
                    else if r_hi r2 <? r_hi r1 then l2
                    else l2)
                   rest)
  end.
  { destruct (N.ltb_spec (r_hi r1) (r_hi r2)); [|destruct (N.ltb_spec (r_hi r2) (r_hi r1))].
    - pose proof (IH (fst (nxt l1)) (snd (nxt l1))
                    (Some (mkRange (oe + 1) (r_hi r2) (r_val r2))) l2 (Some oe)) as P.
      rewrite O1 in P. cbn [olist] in P. apply P; auto; try discriminate.
      + eapply wf_from_weaken; eauto. cbn [lb_lt]. intros; lia.
      + apply wf_from_cons. cbn [lb_lt r_lo r_hi]. repeat split; auto; lia.
      + cbn [length]. lia.
    - pose proof (IH (Some (mkRange (oe + 1) (r_hi r1) (r_val r1))) l1
                    (fst (nxt l2)) (snd (nxt l2)) (Some oe)) as P.
      rewrite O2 in P. cbn [olist] in P. apply P; auto; try discriminate.
      + apply wf_from_cons. cbn [lb_lt r_lo r_hi]. repeat split; auto; lia.
      + eapply wf_from_weaken; eauto. cbn [lb_lt]. intros; lia.
      + cbn [length]. lia.
    - pose proof (IH (fst (nxt l1)) (snd (nxt l1)) (fst (nxt l2)) (snd (nxt l2)) (Some oe)) as P.
      rewrite O1, O2 in P. apply P; auto.
      + eapply wf_from_weaken; eauto. cbn [lb_lt]. intros; lia.
      + eapply wf_from_weaken; eauto. cbn [lb_lt]. intros; lia.
      + lia. }
  destruct R as (rs & E & W & L). rewrite E. cbn [option_map].
  eexists. split; [reflexivity|]. split.
  - clear L.
    destruct (N.max_spec (r_lo r1) (r_lo r2)) as [[? E1]|[? E1]]; rewrite E1 in Hos; clear E1;
    (destruct (N.min_spec (r_hi r1) (r_hi r2)) as [[? E2]|[? E2]]; rewrite E2 in Hoe; clear E2);
    subst os oe;
    destruct lb as [b|]; cbn [lb_lt] in *;
    bdestr; cbn [app];
    repeat (apply wf_from_cons; cbn [r_lo r_hi lb_lt]; repeat split; try lia);
    auto.
  - intros c.
    assert (L1 : c <= r_hi r1 -> lookup l1 c = None) by (intros; eapply lookup_below; eauto).
    assert (L2 : c <= r_hi r2 -> lookup l2 c = None) by (intros; eapply lookup_below; eauto).
    specialize (L c).
    destruct (N.max_spec (r_lo r1) (r_lo r2)) as [[? E1]|[? E1]]; rewrite E1 in Hos; clear E1;
    (destruct (N.min_spec (r_hi r1) (r_hi r2)) as [[? E2]|[? E2]]; rewrite E2 in Hoe; clear E2);
    subst os oe;
    (destruct (N.ltb_spec (r_lo r1) (r_lo r2)); [|destruct (N.ltb_spec (r_lo r2) (r_lo r1))]);
    try lia;
    (destruct (N.ltb_spec (r_hi r1) (r_hi r2)); [|destruct (N.ltb_spec (r_hi r2) (r_hi r1))]);
    try lia;
    cbn [app]; rewrite ?lookup_cons in *; cbn [r_lo r_hi r_val] in *; rewrite L; clear L;
    bdestr; cbn [andb comb]; try lia; try reflexivity;
    rewrite ?L1, ?L2 by lia; rewrite ?comb_none_l, ?comb_none_r; try reflexivity.
Qed.

End InsertRanges.

Theorem insert_ranges_correct : forall (A:Type) (merge : A -> A -> A) (rs1 rs2 : rmap A),
  wf rs1 = true -> wf rs2 = true ->
  exists rs, insert_ranges merge rs1 rs2 = Some rs /\ wf rs = true /\
    forall c, lookup rs c =
      match lookup rs1 c, lookup rs2 c with
      | Some a, Some b => Some (merge a b)
      | Some a, None => Some a
      | None, Some b => Some b
      | None, None => None
      end.
Proof.
  intros A merge rs1 rs2 W1 W2. unfold insert_ranges.
  fold (nxt rs1). fold (nxt rs2).
  pose proof (irgo_correct merge (length rs1 + length rs2 + 1)
                (fst (nxt rs1)) (snd (nxt rs1)) (fst (nxt rs2)) (snd (nxt rs2)) None) as P.
  rewrite !nxt_olist in P.
  apply P.
  - apply nxt_none.
  - apply nxt_none.
  - exact W1.
  - exact W2.
  - lia.
Qed.

(* ------------------------------------------------------------------ *)
(* remove_ranges *)

Lemma covered_cons : forall A (r : range A) t c,
  covered (r :: t) c = if (r_lo r <=? c) && (c <=? r_hi r) then true else covered t c.
Proof.
  intros. unfold covered. rewrite lookup_cons.
  destruct ((r_lo r <=? c) && (c <=? r_hi r)); reflexivity.
Qed.

Lemma covered_below : forall A (rs : rmap A) b c,
  wf_from (Some b) rs = true -> c <= b -> covered rs c = false.
Proof.
  intros. unfold covered. erewrite lookup_below; eauto.
Qed.

Lemma lb_lt_le : forall lb a b, lb_lt lb a -> a <= b -> lb_lt lb b.
Proof. destruct lb; cbn [lb_lt]; intros; [lia|exact I]. Qed.

Section RemoveProofs.
Context {A B : Type}.

Lemma rmgo_S : forall fuel' (ho : option (range A)) lo_ (hr : option (range B)) lr,
  remove_go (S fuel') ho lo_ hr lr =
      match ho, hr with
      | None, _ => Some []
      | Some o, None => Some (o :: lo_)
      | Some o, Some r =>
          if (r_hi o <? r_lo r)%N then
            option_map (cons o) (remove_go fuel' (fst (nxt lo_)) (snd (nxt lo_)) hr lr)
          else if (r_hi r <? r_lo o)%N then
            remove_go fuel' ho lo_ (fst (nxt lr)) (snd (nxt lr))
          else
            let os := N.max (r_lo o) (r_lo r) in
            let oe := N.min (r_hi o) (r_hi r) in
            if (os =? r_lo o)%N then
              if (oe =? r_hi o)%N then
                remove_go fuel' (fst (nxt lo_)) (snd (nxt lo_)) hr lr
              else
                remove_go fuel' (Some (mkRange (oe + 1) (r_hi o) (r_val o))) lo_
                          (fst (nxt lr)) (snd (nxt lr))
            else if (oe =? r_hi o)%N then
              option_map (cons (mkRange (r_lo o) (os - 1) (r_val o)))
                         (remove_go fuel' (fst (nxt lo_)) (snd (nxt lo_)) hr lr)
            else
              option_map (cons (mkRange (r_lo o) (os - 1) (r_val o)))
                         (remove_go fuel' (Some (mkRange (oe + 1) (r_hi o) (r_val o))) lo_
                                    (fst (nxt lr)) (snd (nxt lr)))
      end.
Proof. reflexivity. Qed.

Definition rm_post lb (Lo : rmap A) (Lr : rmap B) (res : option (rmap A)) : Prop :=
  exists rs, res = Some rs /\ wf_from lb rs = true /\
    forall c, lookup rs c = if covered Lr c then None else lookup Lo c.

Ltac lk_solve Lo Lr :=
  rewrite ?lookup_cons, ?covered_cons in *; cbn [r_lo r_hi r_val] in *;
  bdestr; cbn [andb]; try lia;
  rewrite ?Lo, ?Lr by lia; try reflexivity;
  try (destruct (covered _ _); reflexivity).

Lemma rmgo_correct : forall fuel ho lo_ hr lr lb lbr,
  (ho = None -> lo_ = []) -> (hr = None -> lr = []) ->
  wf_from lb (olist ho lo_) = true -> wf_from lbr (olist hr lr) = true ->
  (length (olist ho lo_) + length (olist hr lr) < fuel)%nat ->
  rm_post lb (olist ho lo_) (olist hr lr) (remove_go fuel ho lo_ hr lr).
Proof.
  induction fuel as [|fuel IH]; intros ho lo_ hr lr lb lbr N1 N2 W1 W2 F; [lia|].
  rewrite rmgo_S.
  destruct ho as [o|]; cbn [olist] in *.
  2:{ rewrite (N1 eq_refl). exists []. repeat split; auto.
      intros. cbn [lookup]. destruct (covered _ _); reflexivity. }
  destruct hr as [r|]; cbn [olist] in *.
  2:{ rewrite (N2 eq_refl). exists (o :: lo_). repeat split; auto. }
  clear N1 N2.
  pose proof (nxt_olist _ lo_) as O1. pose proof (nxt_none _ lo_) as NN1.
  pose proof (nxt_olist _ lr) as O2. pose proof (nxt_none _ lr) as NN2.
  apply wf_from_cons in W1. destruct W1 as (A1 & B1 & C1).
  apply wf_from_cons in W2. destruct W2 as (A2 & B2 & C2).
  cbn [length] in F.
  assert (Wlo : forall lb', lb_lt lb' (r_hi o) \/ lb' = Some (r_hi o) -> wf_from lb' lo_ = true).
  { intros lb' [Hl| ->]; [|assumption].
    eapply wf_from_weaken; eauto. cbn [lb_lt]. intros. eapply lb_lt_le; eauto. lia. }
  (* the four possible recursive calls *)
  assert (R1 : forall lb', lb_lt lb' (r_hi o) \/ lb' = Some (r_hi o) ->
            rm_post lb' lo_ (r :: lr)
              (remove_go fuel (fst (nxt lo_)) (snd (nxt lo_)) (Some r) lr)).
  { intros lb' Hl.
    pose proof (IH (fst (nxt lo_)) (snd (nxt lo_)) (Some r) lr lb' lbr) as P.
    rewrite O1 in P. cbn [olist] in P. apply P; auto; try discriminate.
    - apply wf_from_cons. auto.
    - cbn [length]. lia. }
  assert (R2 : forall lb' o', r_lo o' <= r_hi o' -> lb_lt lb' (r_lo o') -> r_hi o' = r_hi o ->
            rm_post lb' (o' :: lo_) lr
              (remove_go fuel (Some o') lo_ (fst (nxt lr)) (snd (nxt lr)))).
  { intros lb' o' Ho1 Ho2 Ho3.
    pose proof (IH (Some o') lo_ (fst (nxt lr)) (snd (nxt lr)) lb' (Some (r_hi r))) as P.
    rewrite O2 in P. cbn [olist] in P. apply P; auto; try discriminate.
    - apply wf_from_cons. repeat split; auto. rewrite Ho3. auto.
    - cbn [length]. lia. }
  assert (Lo : forall c, c <= r_hi o -> lookup lo_ c = None)
    by (intros; eapply lookup_below; eauto).
  assert (Lr : forall c, c <= r_hi r -> covered lr c = false)
    by (intros; eapply covered_below; eauto).
  destruct (N.ltb_spec (r_hi o) (r_lo r)).
  { destruct (R1 (Some (r_hi o))) as (rs & E & W & L); auto.
    rewrite E. cbn [option_map]. exists (o :: rs). split; [reflexivity|]. split.
    - apply wf_from_cons. auto.
    - intros c. specialize (L c). specialize (Lo c). specialize (Lr c).
      rewrite lookup_cons, L. clear L. lk_solve Lo Lr. }
  destruct (N.ltb_spec (r_hi r) (r_lo o)).
  { destruct (R2 lb o) as (rs & E & W & L); auto.
    rewrite E. exists rs. split; [reflexivity|]. split; [assumption|].
    intros c. specialize (L c). specialize (Lo c). specialize (Lr c).
    rewrite L. clear L. lk_solve Lo Lr. }
  cbv zeta.
  destruct (N.max_spec (r_lo o) (r_lo r)) as [[? ->]|[? ->]];
  destruct (N.min_spec (r_hi o) (r_hi r)) as [[? ->]|[? ->]];
  destruct (N.eqb_spec (r_lo r) (r_lo o)); try lia;
  destruct (N.eqb_spec (r_lo o) (r_lo o)); try lia;
  destruct (N.eqb_spec (r_hi r) (r_hi o)); try lia;
  destruct (N.eqb_spec (r_hi o) (r_hi o)); try lia.
  all: match goal with
  | |- rm_post _ _ _ (option_map (cons ?P) (remove_go _ (fst _) _ _ _)) =>
      destruct (R1 (Some (r_hi P))) as (rs & E & W & L);
      [left; cbn [lb_lt r_hi]; lia|];
      rewrite E; cbn [option_map]; exists (P :: rs)
  | |- rm_post _ _ _ (option_map (cons ?P) (remove_go _ (Some ?o') _ _ _)) =>
      destruct (R2 (Some (r_hi P)) o') as (rs & E & W & L);
      [cbn [r_lo r_hi]; lia | cbn [lb_lt r_lo r_hi]; lia | reflexivity |];
      rewrite E; cbn [option_map]; exists (P :: rs)
  | |- rm_post _ _ _ (remove_go _ (fst _) _ _ _) =>
      destruct (R1 lb) as (rs & E & W & L);
      [left; eapply lb_lt_le; eauto|];
      rewrite E; exists rs
  | |- rm_post _ _ _ (remove_go _ (Some ?o') _ _ _) =>
      destruct (R2 lb o') as (rs & E & W & L);
      [cbn [r_lo r_hi]; lia | eapply lb_lt_le; [exact B1|cbn [r_lo]; lia] | reflexivity |];
      rewrite E; exists rs
  end.
  all: (split; [reflexivity|]); split;
    [ try assumption; apply wf_from_cons; cbn [r_lo r_hi]; repeat split; auto; lia
    | intros c; specialize (L c); specialize (Lo c); specialize (Lr c);
      rewrite ?(lookup_cons _ rs); rewrite L; clear L; lk_solve Lo Lr ].
Qed.

End RemoveProofs.

Theorem remove_ranges_correct : forall (A B:Type) (old : rmap A) (removed : rmap B),
  wf old = true -> wf removed = true ->
  exists rs, remove_ranges old removed = Some rs /\ wf rs = true /\
    forall c, lookup rs c = if covered removed c then None else lookup old c.
Proof.
  intros A B old removed W1 W2. unfold remove_ranges.
  fold (nxt old). fold (nxt removed).
  pose proof (rmgo_correct (length old + length removed + 1)
                (fst (nxt old)) (snd (nxt old)) (fst (nxt removed)) (snd (nxt removed))
                None None) as P.
  rewrite !nxt_olist in P.
  apply P.
  - apply nxt_none.
  - apply nxt_none.
  - exact W1.
  - exact W2.
  - lia.
Qed.

(* fuel adequacy, as referenced from RangeMap.v *)
Corollary insert_ranges_fuel : forall (A:Type) (merge : A -> A -> A) (rs1 rs2 : rmap A),
  wf rs1 = true -> wf rs2 = true -> insert_ranges merge rs1 rs2 <> None.
Proof.
  intros A merge rs1 rs2 W1 W2.
  destruct (insert_ranges_correct A merge rs1 rs2 W1 W2) as (rs & E & _).
  rewrite E. discriminate.
Qed.

Print Assumptions insert_wf.
Print Assumptions insert_lookup.
Print Assumptions insert_ranges_correct.
Print Assumptions remove_ranges_correct.
Print Assumptions wf_endpoints_members.
Print Assumptions lookup_some_iff.
