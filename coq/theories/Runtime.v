(* Model of lexgen_util::Lexer and of the generated `Iterator::next` (dfa/codegen.rs
   generate_state, fail, test_right_ctxs, generate_semantic_action_call), as an interpreter of
   Codegen.program. Statement order follows the templates. *)
From LexVerif Require Import Base CharClass RangeMap Regex Nfa Dfa Codegen LexSpec.

Section Runtime.
Variable width : N -> N.
Variable tab_width : N.
Variables T E U : Type.
Variable prog : program.
Variable actions : nat -> action T E U.       (* by SemanticActionIdx *)

Record lexer := mkL {
  l_state : nat;                  (* __state *)
  l_done : bool;                  (* __done *)
  l_initial : nat;                (* __initial_state *)
  l_user : U;
  l_input : option (list N);      (* `input: &str`; None for the from_iter constructors ("") *)
  l_iter : list N;                (* __iter: remaining characters *)
  l_iter_loc : Loc;
  l_mstart : Loc;                 (* current_match_start *)
  l_mend : Loc;                   (* current_match_end *)
  l_last : option (Loc * list N * nat * Loc)   (* last_match *)
}.

Definition lexer_new (input : list N) (u : U) (with_str : bool) : lexer :=
  mkL 0 false 0 u (if with_str then Some input else None) input loc_zero loc_zero loc_zero None.

Definition set_state (l : lexer) (s : nat) : lexer :=
  mkL s (l_done l) (l_initial l) (l_user l) (l_input l) (l_iter l) (l_iter_loc l)
      (l_mstart l) (l_mend l) (l_last l).
Definition set_done (l : lexer) (b : bool) : lexer :=
  mkL (l_state l) b (l_initial l) (l_user l) (l_input l) (l_iter l) (l_iter_loc l)
      (l_mstart l) (l_mend l) (l_last l).
Definition set_last (l : lexer) (x : option (Loc * list N * nat * Loc)) : lexer :=
  mkL (l_state l) (l_done l) (l_initial l) (l_user l) (l_input l) (l_iter l) (l_iter_loc l)
      (l_mstart l) (l_mend l) x.
(* Lexer::reset_match *)
Definition reset_match (l : lexer) : lexer :=
  mkL (l_state l) (l_done l) (l_initial l) (l_user l) (l_input l) (l_iter l) (l_iter_loc l)
      (l_mend l) (l_mend l) (l_last l).

(* Lexer::next: read one character, advance current_match_end *)
Definition read_char (l : lexer) : option N * lexer :=
  match l_iter l with
  | [] => (None, l)
  | c :: rest =>
      (Some c, mkL (l_state l) (l_done l) (l_initial l) (l_user l) (l_input l) rest (l_iter_loc l)
                   (l_mstart l) (advance width tab_width (l_mend l) c) (l_last l))
  end.

(* &input[a..b] on byte indices: Some text iff both lie on character boundaries, a <= b *)
Fixpoint skip_bytes (s : list N) (n : N) : option (list N) :=
  if (n =? 0)%N then Some s else
  match s with
  | [] => None
  | c :: t => if (utf8_len c <=? n)%N then skip_bytes t (n - utf8_len c) else None
  end.
Fixpoint take_bytes (s : list N) (n : N) : option (list N) :=
  if (n =? 0)%N then Some [] else
  match s with
  | [] => None
  | c :: t => if (utf8_len c <=? n)%N
              then option_map (cons c) (take_bytes t (n - utf8_len c)) else None
  end.
Definition slice_bytes (s : list N) (a b : N) : option (list N) :=
  if (b <? a)%N then None else
  match skip_bytes s a with Some t => take_bytes t (b - a) | None => None end.

(* what an action can observe. match_() on iterator input slices "" and is excluded (C14). *)
Definition make_view (l : lexer) : result (view) :=
  match l_input l with
  | Some inp =>
      match slice_bytes inp (byte_idx (l_mstart l)) (byte_idx (l_mend l)) with
      | Some t => Ok (mkView t (l_mstart l) (l_mend l) (hd_error (l_iter l)))
      | None => Panic TagSlice
      end
  | None => Ok (mkView [] (l_mstart l) (l_mend l) (hd_error (l_iter l)))
  end.

Definition switch_target (n : nat) : result nat :=
  match nth_error (p_switch prog) n with Some e => Ok (snd e) | None => Panic TagIndex end.

Inductive outcome :=
| ONone                       (* next() returned None *)
| OItem (i : item T E)
| OPanic (t : tag).

(* control: where the interpreter is inside one call of next() *)
Inductive ctl :=
| CLoop                       (* top of `loop {}`: test __done, dispatch on __state *)
| CState (s : nat).           (* about to run the code of simplified state s (inlined or not) *)

(* generate_semantic_action_call: run action [a], then Continue / Return *)
Definition run_action (l : lexer) (a : nat) : lexer * ctl + outcome * lexer :=
  match make_view l with
  | Panic t => inr (OPanic t, l)
  | Ok v =>
      let o := actions a v (l_user l) in
      match (match a_switch o with
             | Some n => match switch_target n with Ok s => Ok (Some s) | Panic t => Panic t end
             | None => Ok None end) with
      | Panic t => inr (OPanic t, l)
      | Ok sw =>
          (* effects of the action body: user state, reset_match, switch *)
          let l1 := mkL (l_state l) (l_done l)
                        (match sw with Some s => s | None => l_initial l end)
                        (a_user o) (l_input l) (l_iter l) (l_iter_loc l)
                        (if a_reset o then l_mend l else l_mstart l) (l_mend l) (l_last l) in
          (* self.0.__state = self.0.__initial_state *)
          let l2 := set_state l1 (l_initial l1) in
          match a_res o with
          | AContinue => inl (l2, CLoop)
          | AReturn r =>
              let ms := l_mstart l2 in
              let me := l_mend l2 in
              let l3 := reset_match l2 in
              match r with
              | inl t => inr (OItem (ITok ms t me), l3)
              | inr x => inr (OItem (ICustom x ms), l3)
              end
          end
      end
  end.

Definition ctx_passes (l : lexer) (ctx : option nat) : bool :=
  match ctx with
  | None => true
  | Some i => ctx_run (p_max_guard prog) (nth i (p_ctxs prog) []) 0 (l_iter l)
  end.

(* first accepting entry whose right context holds (entries after a context-free one are dead) *)
Fixpoint first_passing (l : lexer) (accs : list accval) : option nat :=
  match accs with
  | [] => None
  | (a, ctx) :: rest => if ctx_passes l ctx then Some a else
                        match ctx with None => None | Some _ => first_passing l rest end
  end.

(* the `fail` closure of state st *)
Definition do_fail (st : dstate trans) (l : lexer) : lexer * ctl + outcome * lexer :=
  if d_bt st || is_accepting st then
    (* self.0.backtrack() *)
    match l_last l with
    | None =>
        let l1 := mkL 0 (l_done l) 0 (l_user l) (l_input l) (l_iter l) (l_iter_loc l)
                      (l_mstart l) (l_mend l) None in
        inr (OItem (IInvalid (l_mstart l)), reset_match l1)
    | Some (ms, it, a, me) =>
        let l1 := mkL (l_state l) false (l_initial l) (l_user l) (l_input l) it me ms me None in
        run_action l1 a
    end
  else
    let loc := l_mstart l in
    let l1 := reset_match l in
    let l2 := mkL 0 (l_done l1) 0 (l_user l1) (l_input l1) (l_iter l1) (l_iter_loc l1)
                  (l_mstart l1) (l_mend l1) (l_last l1) in
    inr (OItem (IInvalid loc), l2).

(* test_right_ctxs accs default *)
Definition do_accept (l : lexer) (accs : list accval)
           (default : lexer -> lexer * ctl + outcome * lexer) : lexer * ctl + outcome * lexer :=
  match first_passing l accs with
  | Some a => run_action (set_last l None) a            (* reset_accepting_state(); action *)
  | None => default l
  end.

Definition do_trans (l : lexer) (t : trans)
           (default : lexer -> lexer * ctl + outcome * lexer) : lexer * ctl + outcome * lexer :=
  match t with
  | TAccept accs => do_accept l accs default
  | TGoto n =>
      if set_mem n (p_inlined prog) then inl (l, CState n)
      else inl (set_state l (renumber (p_inlined prog) n), CLoop)
  end.

(* the code generated for simplified state s *)
Definition run_state (s : nat) (l : lexer) : lexer * ctl + outcome * lexer :=
  let st := dget (p_states prog) s in
  (* set_accepting_state *)
  let l1 := match first_passing l (d_acc st) with
            | Some a => set_last l (Some (l_mstart l, l_iter l, a, l_mend l))
            | None => l end in
  let default (l' : lexer) :=
    match d_any st with
    | Some t => do_trans l' t (do_fail st)
    | None => do_fail st l'
    end in
  match read_char l1 with
  | (None, l2) =>
      let l3 := set_done l2 true in
      let eoi_default (l' : lexer) :=
        if s =? 0 then inr (ONone, l') else do_fail st l' in
      match d_eoi st with
      | Some (TAccept accs) => do_accept l3 accs eoi_default
      | Some (TGoto n) => inl (set_state l3 (renumber (p_inlined prog) n), CLoop)
      | None => eoi_default l3
      end
  | (Some c, l2) =>
      match lookup_char (p_max_guard prog) st c with
      | Some t => do_trans l2 t default
      | None => default l2
      end
  end.

Definition step (x : lexer * ctl) : lexer * ctl + outcome * lexer :=
  let (l, c) := x in
  match c with
  | CLoop =>
      if l_done l then inr (ONone, l)
      else match arm_lookup (p_arms prog) (l_state l) with
           | Some s => inl (l, CState s)
           | None => inr (OPanic TagNoArm, l)
           end
  | CState s => run_state s l
  end.

(* one call of next(): at most [fuel] interpreter steps *)
Definition next (fuel : positive) (l : lexer) : outcome * lexer :=
  match iter_pos fuel step (l, CLoop) with
  | inl (l', _) => (OPanic TagOutOfFuel, l')
  | inr r => r
  end.

End Runtime.
