(* Proofs about the character-class membership tests of CharClass.v:
   guard chains, the modelled binary search, and the breakpoint decision procedure. *)
From LexVerif Require Import Base CharClass.

(* ------------------------------------------------------------------ *)
(* basic reflection lemmas                                             *)
(* ------------------------------------------------------------------ *)

Lemma in_pair_iff : forall p c, in_pair p c = true <-> (fst p <= c /\ c <= snd p)%N.
Proof. intros p c. unfold in_pair. rewrite andb_true_iff, !N.leb_le. tauto. Qed.

Lemma in_pair_false_iff : forall p c, in_pair p c = false <-> (c < fst p \/ snd p < c)%N.
Proof.
  intros p c. unfold in_pair. rewrite andb_false_iff, !N.leb_gt. tauto.
Qed.

Lemma is_scalar_iff : forall c,
  is_scalar c = true <-> (c < 55296 \/ (57343 < c /\ c <= 1114111))%N.
Proof.
  intros c. unfold is_scalar, SURR_LO, SURR_HI, CHAR_MAX.
  rewrite orb_true_iff, andb_true_iff, !N.ltb_lt, N.leb_le. tauto.
Qed.

Lemma existsb_ext_in : forall (A : Type) (f g : A -> bool) l,
  (forall x, In x l -> f x = g x) -> existsb f l = existsb g l.
Proof.
  intros A f g l. induction l as [|a l IH]; simpl; intros H; auto.
  rewrite (H a) by auto. rewrite IH; auto.
Qed.

Lemma in_pairs_iff : forall t c,
  in_pairs t c = true <-> exists p, In p t /\ in_pair p c = true.
Proof. intros. unfold in_pairs. apply existsb_exists. Qed.

(* ------------------------------------------------------------------ *)
(* guard chain                                                         *)
(* ------------------------------------------------------------------ *)

Lemma guard_one_in_pair : forall p c, guard_one p c = in_pair p c.
Proof.
  intros p c. unfold guard_one.
  destruct (N.eqb_spec (fst p) (snd p)) as [E|E]; auto.
  apply eq_true_iff_eq. rewrite in_pair_iff, N.eqb_eq. lia.
Qed.

Theorem guard_chain_in_pairs : forall t c, guard_chain t c = in_pairs t c.
Proof.
  intros t c. unfold guard_chain, in_pairs.
  apply existsb_ext_in. intros; apply guard_one_in_pair.
Qed.

(* ------------------------------------------------------------------ *)
(* binary search                                                       *)
(* ------------------------------------------------------------------ *)

Definition dflt : N * N := (0, 0)%N.

(* a well-formed list is pointwise non-inverted and strictly increasing across indices *)
Lemma wf_from_nth : forall t lb, pairs_wf_from lb t = true ->
  (forall i, i < length t ->
     (fst (nth i t dflt) <= snd (nth i t dflt))%N /\
     (forall x, lb = Some x -> (x < fst (nth i t dflt))%N)) /\
  (forall i j, i < j -> j < length t ->
     (snd (nth i t dflt) < fst (nth j t dflt))%N).
Proof.
  induction t as [|[a b] t IH]; intros lb H.
  - split; simpl; intros; lia.
  - simpl in H. apply andb_true_iff in H. destruct H as [H Hwf].
    apply andb_true_iff in H. destruct H as [Hab Hlb].
    apply N.leb_le in Hab.
    destruct (IH _ Hwf) as [IH1 IH2]. split.
    + intros [|i] Hi; simpl.
      * split; auto. intros x ->. apply N.ltb_lt; auto.
      * simpl in Hi. assert (Hi' : i < length t) by lia.
        destruct (IH1 i Hi') as [Hle Hb]. split; auto.
        intros x ->. apply N.ltb_lt in Hlb.
        specialize (Hb b eq_refl). lia.
    + intros [|i] [|j] Hij Hj; simpl in *; try lia.
      * assert (Hj' : j < length t) by lia.
        destruct (IH1 j Hj') as [_ Hb]. apply Hb; auto.
      * apply IH2; lia.
Qed.

Lemma wf_nth_le : forall t i, pairs_wf t = true -> i < length t ->
  (fst (nth i t dflt) <= snd (nth i t dflt))%N.
Proof.
  intros t i H Hi. destruct (wf_from_nth t None H) as [H1 _].
  apply H1; auto.
Qed.

Lemma wf_nth_lt : forall t i j, pairs_wf t = true -> i < j -> j < length t ->
  (snd (nth i t dflt) < fst (nth j t dflt))%N.
Proof.
  intros t i j H Hij Hj. destruct (wf_from_nth t None H) as [_ H2].
  apply H2; auto.
Qed.

Lemma bs_cmp_cases : forall c p, (fst p <= snd p)%N ->
  match bs_cmp c p with
  | Greater => (c < fst p)%N
  | Equal => (fst p <= c /\ c <= snd p)%N
  | Less => (fst p < c /\ snd p < c)%N
  end.
Proof.
  intros c p Hp. unfold bs_cmp.
  destruct (N.compare_spec c (fst p)); try lia.
  destruct (N.leb_spec c (snd p)); lia.
Qed.

Lemma bs_loop_S : forall fuel t c base size,
  bs_loop (S fuel) t c base size =
  if Nat.leb size 1 then base
  else bs_loop fuel t c
         (match bs_cmp c (nth (base + Nat.div2 size) t (0, 0)%N) with
          | Greater => base | _ => base + Nat.div2 size end)
         (size - Nat.div2 size).
Proof. reflexivity. Qed.

Lemma div2_bounds : forall n, 2 <= n -> 1 <= Nat.div2 n /\ 2 * Nat.div2 n <= n.
Proof.
  intros n Hn. pose proof (Nat.div2_odd n) as H.
  destruct (Nat.odd n); simpl in H; lia.
Qed.

(* invariant of the loop: the only index that can hold c stays inside [base, base+size) *)
Lemma bs_loop_spec : forall t c, pairs_wf t = true ->
  forall fuel base size,
    1 <= size -> size <= fuel -> base + size <= length t ->
    bs_loop fuel t c base size < length t /\
    forall i, base <= i -> i < base + size ->
      in_pair (nth i t dflt) c = true -> i = bs_loop fuel t c base size.
Proof.
  intros t c Hwf. induction fuel as [|fuel IH]; intros base size H1 Hf Hlen.
  - lia.
  - rewrite bs_loop_S. destruct (Nat.leb_spec size 1) as [Hs|Hs].
    + split; [lia|]. intros; lia.
    + destruct (div2_bounds size Hs) as [Hh1 Hh2].
      set (half := Nat.div2 size) in *.
      change (0, 0)%N with dflt.
      assert (Hmid : base + half < length t) by lia.
      pose proof (bs_cmp_cases c (nth (base + half) t dflt)
                    (wf_nth_le t (base + half) Hwf Hmid)) as Hc.
      destruct (bs_cmp c (nth (base + half) t dflt)).
      * (* Less: element below c, move base to mid *)
        destruct (IH (base + half) (size - half)) as [Hr Hi]; try lia.
        split; auto. intros i Hbi Hi2 Hin. apply Hi; auto; try lia.
        destruct (Nat.lt_ge_cases i (base + half)) as [Hlt|]; auto.
        apply in_pair_iff in Hin.
        pose proof (wf_nth_lt t i (base + half) Hwf Hlt Hmid). lia.
      * (* Equal *)
        destruct (IH (base + half) (size - half)) as [Hr Hi]; try lia.
        split; auto. intros i Hbi Hi2 Hin. apply Hi; auto; try lia.
        destruct (Nat.lt_ge_cases i (base + half)) as [Hlt|]; auto.
        apply in_pair_iff in Hin.
        pose proof (wf_nth_lt t i (base + half) Hwf Hlt Hmid). lia.
      * (* Greater: element above c, keep base *)
        destruct (IH base (size - half)) as [Hr Hi]; try lia.
        split; auto. intros i Hbi Hi2 Hin. apply Hi; auto.
        destruct (Nat.lt_ge_cases i (base + half)) as [Hlt|Hge]; [lia|].
        apply in_pair_iff in Hin.
        destruct (Nat.eq_dec i (base + half)) as [->|Hne]; [lia|].
        assert (Hlt : base + half < i) by lia.
        assert (Hil : i < length t) by lia.
        pose proof (wf_nth_lt t (base + half) i Hwf Hlt Hil).
        pose proof (wf_nth_le t (base + half) Hwf Hmid). lia.
Qed.

Lemma binary_search_unfold : forall t c, t <> [] ->
  binary_search t c =
  match bs_cmp c (nth (bs_loop (length t) t c 0 (length t)) t dflt) with
  | Equal => true | _ => false end.
Proof. intros [|p t] c H; [congruence | reflexivity]. Qed.

Theorem binary_search_in_pairs : forall t c,
  pairs_wf t = true -> binary_search t c = in_pairs t c.
Proof.
  intros t c Hwf. destruct t as [|p0 t0] eqn:Et; [reflexivity|].
  rewrite <- Et in *. assert (Hne : t <> []) by (rewrite Et; discriminate).
  assert (Hlen : 1 <= length t) by (rewrite Et; simpl; lia).
  rewrite binary_search_unfold by auto.
  destruct (bs_loop_spec t c Hwf (length t) 0 (length t)) as [Hr Hi]; try lia.
  set (r := bs_loop (length t) t c 0 (length t)) in *.
  pose proof (bs_cmp_cases c (nth r t dflt) (wf_nth_le t r Hwf Hr)) as Hc.
  apply eq_true_iff_eq. split.
  - intros H. apply in_pairs_iff. exists (nth r t dflt). split.
    + apply nth_In; auto.
    + apply in_pair_iff. destruct (bs_cmp c (nth r t dflt)); try discriminate. auto.
  - intros H. apply in_pairs_iff in H. destruct H as [p [Hin Hp]].
    destruct (In_nth t p dflt Hin) as [i [Hil Hnth]].
    assert (i = r) by (apply Hi; try lia; rewrite Hnth; auto).
    subst i. rewrite Hnth in *. apply in_pair_iff in Hp.
    destruct (bs_cmp c p); auto; lia.
Qed.

Theorem compiled_member_in_pairs : forall mg t c,
  pairs_wf t = true -> compiled_member mg t c = in_pairs t c.
Proof.
  intros mg t c Hwf. unfold compiled_member.
  destruct (Nat.ltb mg (length t)).
  - apply binary_search_in_pairs; auto.
  - apply guard_chain_in_pairs.
Qed.

(* ------------------------------------------------------------------ *)
(* breakpoint decision procedure                                       *)
(* ------------------------------------------------------------------ *)

(* the largest element of l that is <= c (0 when there is none) *)
Fixpoint maxle (c : N) (l : list N) : N :=
  match l with
  | [] => 0%N
  | x :: l' => if (x <=? c)%N then N.max x (maxle c l') else maxle c l'
  end.

Lemma maxle_spec : forall c l,
  (maxle c l = 0%N \/ In (maxle c l) l) /\
  (maxle c l <= c)%N /\
  (forall x, In x l -> (x <= c)%N -> (x <= maxle c l)%N).
Proof.
  intros c. induction l as [|a l [IH1 [IH2 IH3]]]; simpl.
  - split; [auto|]. split; [lia|]. intros x [].
  - destruct (N.leb_spec a c) as [Hac|Hac].
    + destruct (N.max_spec a (maxle c l)) as [[Hlt ->]|[Hle ->]].
      * split; [tauto|]. split; auto.
        intros x [->|Hx] Hxc; [lia|]. apply IH3; auto.
      * split; [auto|]. split; auto.
        intros x [->|Hx] Hxc; [lia|]. specialize (IH3 x Hx Hxc). lia.
    + split; [tauto|]. split; auto.
      intros x [->|Hx] Hxc; [lia|]. apply IH3; auto.
Qed.

Lemma bp_in : forall t p, In p t ->
  In (fst p) (breakpoints t) /\ In (snd p + 1)%N (breakpoints t).
Proof.
  intros t p H. unfold breakpoints. split; apply in_flat_map; exists p; simpl; auto.
Qed.

(* membership in one range is the same at c and at the nearest breakpoint below c *)
Lemma in_pair_stable : forall p b c (L : list N),
  In (fst p) L -> In (snd p + 1)%N L -> (b <= c)%N ->
  (forall x, In x L -> (x <= c)%N -> (x <= b)%N) ->
  in_pair p c = in_pair p b.
Proof.
  intros p b c L Hf Hs Hbc Hmax. apply eq_true_iff_eq.
  rewrite !in_pair_iff. split; intros [H1 H2].
  - split; [apply Hmax; auto|lia].
  - split; [lia|].
    destruct (N.le_gt_cases c (snd p)) as [|Hgt]; auto.
    assert (snd p + 1 <= b)%N by (apply Hmax; auto; lia). lia.
Qed.

Definition bp_list (t o : pairs) : list N :=
  0%N :: (SURR_LO :: (SURR_HI + 1)%N :: breakpoints t ++ breakpoints o).

Lemma in_pairs_stable : forall t b c (L : list N),
  (forall x, In x (breakpoints t) -> In x L) -> (b <= c)%N ->
  (forall x, In x L -> (x <= c)%N -> (x <= b)%N) ->
  in_pairs t c = in_pairs t b.
Proof.
  intros t b c L Hsub Hbc Hmax. unfold in_pairs. apply existsb_ext_in.
  intros p Hp. destruct (bp_in t p Hp) as [H1 H2].
  apply in_pair_stable with (L := L); auto.
Qed.

Theorem agree_on_scalars_sound : forall t o,
  agree_on_scalars t o = true ->
  forall c, is_scalar c = true -> in_pairs t c = in_pairs o c.
Proof.
  intros t o H c Hc. unfold agree_on_scalars in H. fold (bp_list t o) in H.
  rewrite forallb_forall in H.
  set (L := bp_list t o) in *.
  destruct (maxle_spec c L) as [Hin [Hle Hmax]].
  set (b := maxle c L) in *.
  assert (H0 : In 0%N L) by (unfold L, bp_list; simpl; auto).
  assert (Hlo : In SURR_LO L) by (unfold L, bp_list; simpl; auto).
  assert (Hhi : In (SURR_HI + 1)%N L) by (unfold L, bp_list; simpl; auto).
  assert (HbL : In b L) by (destruct Hin as [->|]; auto).
  assert (Hbs : is_scalar b = true).
  { apply is_scalar_iff. apply is_scalar_iff in Hc.
    destruct Hc as [Hc|[Hc1 Hc2]]; [lia|].
    assert (SURR_HI + 1 <= b)%N by (apply Hmax; auto; unfold SURR_HI; lia).
    unfold SURR_HI in *. lia. }
  specialize (H b HbL). rewrite Hbs in H. simpl in H. apply eqb_prop in H.
  rewrite (in_pairs_stable t b c L), (in_pairs_stable o b c L); auto.
  - intros x Hx. unfold L, bp_list. do 3 right. apply in_or_app; auto.
  - intros x Hx. unfold L, bp_list. do 3 right. apply in_or_app; auto.
Qed.

Theorem first_difference_witness : forall t o b,
  first_difference t o = Some b -> is_scalar b = true /\ in_pairs t b <> in_pairs o b.
Proof.
  intros t o b H. unfold first_difference in H. apply find_some in H.
  destruct H as [_ H]. apply andb_true_iff in H. destruct H as [Hs Hd].
  split; auto. intros E. rewrite E, eqb_reflx in Hd. discriminate.
Qed.

Lemma forallb_or_find : forall (s : N -> bool) (p q : N -> bool) l,
  forallb (fun b => negb (s b) || Bool.eqb (p b) (q b)) l = true \/
  exists b, find (fun b => s b && negb (Bool.eqb (p b) (q b))) l = Some b.
Proof.
  intros s p q. induction l as [|a l IH]; simpl; auto.
  destruct (s a); simpl.
  - destruct (Bool.eqb (p a) (q a)); simpl; eauto.
  - auto.
Qed.

Theorem agree_or_difference : forall t o,
  agree_on_scalars t o = true \/ exists b, first_difference t o = Some b.
Proof.
  intros t o. unfold agree_on_scalars, first_difference. apply forallb_or_find.
Qed.

Print Assumptions guard_chain_in_pairs.
Print Assumptions binary_search_in_pairs.
Print Assumptions compiled_member_in_pairs.
Print Assumptions agree_on_scalars_sound.
Print Assumptions first_difference_witness.
Print Assumptions agree_or_difference.
