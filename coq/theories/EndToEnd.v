(* End-to-end composition: a definition that compiles, is well-formed and whose dumped automata
   pass the certificate checkers yields a lexer whose token stream is the one of the reference
   semantics (LexSpec) on the closed rule sets of the definition. No axioms. *)
From LexVerif Require Import Base CharClass RangeMap RangeMapProofs CharClassProofs Regex Spec
     SpecExec SpecExecProofs LexSpec Nfa ClassAlgProofs Dfa NfaToDfa NfaSem Codegen
     BacktrackProofs LookupProofs ThompsonProofs SubsetProofs ClosedChecker RulesetSem
     Driver DriverProofs SpecDef Runtime ScanIface RulesetSemProofs ScanOkProofs RuntimeProofs.
From Coq Require Import List NArith Bool Arith Lia.
Import ListNotations.
Open Scope bool_scope.

(* ------------------------------------------------------------------ *)
(* 0. list helpers                                                     *)
(* ------------------------------------------------------------------ *)

Lemma e2e_Forall2_length {A B} (R : A -> B -> Prop) l1 l2 :
  Forall2 R l1 l2 -> length l1 = length l2.
Proof. induction 1; cbn; congruence. Qed.

Lemma e2e_Forall2_nth_error {A B} (R : A -> B -> Prop) l1 l2 :
  Forall2 R l1 l2 -> forall k x, nth_error l1 k = Some x ->
  exists y, nth_error l2 k = Some y /\ R x y.
Proof.
  induction 1 as [|a b l1 l2 Hab H IH]; intros k x Hk.
  - destruct k; discriminate.
  - destruct k as [|k]; cbn in Hk.
    + injection Hk as <-. exists b. split; [reflexivity|exact Hab].
    + apply IH. exact Hk.
Qed.

Lemma e2e_Forall2_nth_error_r {A B} (R : A -> B -> Prop) l1 l2 :
  Forall2 R l1 l2 -> forall k y, nth_error l2 k = Some y ->
  exists x, nth_error l1 k = Some x /\ R x y.
Proof.
  induction 1 as [|a b l1 l2 Hab H IH]; intros k y Hk.
  - destruct k; discriminate.
  - destruct k as [|k]; cbn in Hk.
    + injection Hk as <-. exists a. split; [reflexivity|exact Hab].
    + apply IH. exact Hk.
Qed.

Lemma e2e_Forall2_mono {A B} (R R' : A -> B -> Prop) l1 l2 :
  (forall a b, R a b -> R' a b) -> Forall2 R l1 l2 -> Forall2 R' l1 l2.
Proof. intros M H. induction H; constructor; auto. Qed.

Lemma e2e_Forall2_snoc {A B} (R : A -> B -> Prop) l1 l2 a b :
  Forall2 R l1 l2 -> R a b -> Forall2 R (l1 ++ [a]) (l2 ++ [b]).
Proof. intros H Hab. apply Forall2_app; [exact H|]. constructor; [exact Hab|constructor]. Qed.

(* a member of the k-th list of a list of lists sits at a valid index *)
Lemma e2e_in_nth_lt {A} (ll : list (list A)) k (x : A) : In x (nth k ll []) -> k < length ll.
Proof.
  intros H. destruct (lt_dec k (length ll)) as [L|L]; [exact L|].
  rewrite nth_overflow in H by lia. destruct H.
Qed.

Lemma e2e_nth_error_app_l {A} (l ext : list A) i x :
  nth_error l i = Some x -> nth_error (l ++ ext) i = Some x.
Proof.
  intros H. rewrite nth_error_app1; [exact H|]. apply nth_error_Some. congruence.
Qed.

(* ------------------------------------------------------------------ *)
(* 1. certificates                                                     *)
(* ------------------------------------------------------------------ *)

(* certificates on the automata of a compiled definition: exactly what the boolean checkers
   decide *)
Definition certs_ok (c : compiled) : Prop :=
  (forall ra, In ra (c_rulesets c) ->
     dfa_closed (ra_nfa ra) (ra_dfa ra) (ra_map ra) /\ 0 < length (ra_dfa ra) /\
     dfa_shape_ok (ra_dfa ra)) /\
  (forall ca, In ca (c_ctxs c) ->
     dfa_closed (ca_nfa ca) (ca_dfa ca) (ca_map ca) /\ 0 < length (ca_dfa ca) /\
     dfa_shape_ok (ca_dfa ca)).

Definition cert_b (n : nfa) (d : dfa nat) (m : state_map) : bool :=
  nfa_ranges_wf_b n && dfa_wf_b d && dfa_closed_b n d m && (0 <? length d) && dfa_shape_ok_b d.

Definition certs_ok_b (c : compiled) : bool :=
  forallb (fun ra => cert_b (ra_nfa ra) (ra_dfa ra) (ra_map ra)) (c_rulesets c)
  && forallb (fun ca => cert_b (ca_nfa ca) (ca_dfa ca) (ca_map ca)) (c_ctxs c).

Lemma cert_b_sound : forall n d m, cert_b n d m = true ->
  dfa_closed n d m /\ 0 < length d /\ dfa_shape_ok d.
Proof.
  intros n d m H. unfold cert_b in H.
  apply andb_true_iff in H. destruct H as [H Hs].
  apply andb_true_iff in H. destruct H as [H Hl].
  apply andb_true_iff in H. destruct H as [H Hc].
  apply andb_true_iff in H. destruct H as [Hn Hd].
  split; [apply dfa_closed_b_sound_strong; assumption|].
  split; [apply Nat.ltb_lt; exact Hl|apply dfa_shape_ok_b_sound; exact Hs].
Qed.

Theorem certs_ok_b_sound : forall c, certs_ok_b c = true -> certs_ok c.
Proof.
  intros c H. unfold certs_ok_b in H. apply andb_true_iff in H. destruct H as [H1 H2].
  rewrite forallb_forall in H1, H2. split.
  - intros ra Hin. apply cert_b_sound. apply H1. exact Hin.
  - intros ca Hin. apply cert_b_sound. apply H2. exact Hin.
Qed.

(* ------------------------------------------------------------------ *)
(* 2. hypotheses on the definition                                     *)
(* ------------------------------------------------------------------ *)

(* every closed rule and context of the definition only uses characters <= CHAR_MAX and
   non-inverted ranges *)
Definition def_chars_ok (benv : builtin_env) (rss : list (list crule)) : Prop :=
  forall k r, In r (nth k rss []) -> regex_chars_ok benv (cr_re r) = true /\
              (forall cre, cr_ctx r = Some cre -> regex_chars_ok benv cre = true).

(* action indices of a definition, in declaration order; the parser numbers the rules
   consecutively, so they are pairwise distinct *)
Fixpoint robs_acts (l : list rob) : list nat :=
  match l with
  | [] => []
  | RBRule r :: t => ru_act r :: robs_acts t
  | RBBinding _ _ :: t => robs_acts t
  end.

Definition top_acts (t : top) : list nat :=
  match t with
  | TRob (RBRule r) => [ru_act r]
  | TRuleSet _ rules => robs_acts rules
  | _ => []
  end.

Definition def_acts (d : def) : list nat := flat_map top_acts d.

Definition acts_distinct (d : def) : Prop := NoDup (def_acts d).

(* decidable form, for the harness *)
Fixpoint nodup_b (l : list nat) : bool :=
  match l with
  | [] => true
  | x :: t => negb (existsb (Nat.eqb x) t) && nodup_b t
  end.

Definition acts_distinct_b (d : def) : bool := nodup_b (def_acts d).

Lemma nodup_b_sound : forall l, nodup_b l = true -> NoDup l.
Proof.
  induction l as [|x t IH]; intros H; [constructor|].
  cbn [nodup_b] in H. apply andb_true_iff in H. destruct H as [H1 H2].
  constructor; [|apply IH; exact H2].
  intros Hin. apply negb_true_iff in H1.
  assert (E : existsb (Nat.eqb x) t = true).
  { apply existsb_exists. exists x. split; [exact Hin|apply Nat.eqb_refl]. }
  congruence.
Qed.

Lemma acts_distinct_b_sound : forall d, acts_distinct_b d = true -> acts_distinct d.
Proof. intros d H. apply nodup_b_sound. exact H. Qed.

(* ------------------------------------------------------------------ *)
(* 3. one rule, one rule set: NFA facts and context facts together      *)
(* ------------------------------------------------------------------ *)

Definition eact (e : rent) : nat := cr_act (e_rule e).

Section Glue.
Variable benv : builtin_env.
Hypothesis BW : benv_wf benv.

(* the art [ca] was produced by new_right_ctx for a regex that closes to [cre] *)
Definition ctx_made (ca : ctx_art) (cre : regex) : Prop :=
  exists b re ctxs, new_right_ctx benv b ctxs re = Ok (ctxs ++ [ca], length ctxs) /\
                    expand_top b re = Ok cre.

(* the context entry of a rule is consistent with the list of context arts *)
Definition ent_ok (ctxs : list ctx_art) (e : rent) : Prop :=
  match e_ci e, cr_ctx (e_rule e) with
  | None, None => True
  | Some i, Some cre => exists ca, nth_error ctxs i = Some ca /\ ctx_made ca cre
  | _, _ => False
  end.

Definition ginv (G : list rent) (ctxs : list ctx_art) : Prop := forall e, In e G -> ent_ok ctxs e.

Lemma ent_ok_ext : forall ctxs ext e, ent_ok ctxs e -> ent_ok (ctxs ++ ext) e.
Proof.
  intros ctxs ext e H. unfold ent_ok in *.
  destruct (e_ci e) as [i|]; destruct (cr_ctx (e_rule e)) as [cre|]; auto.
  destruct H as (ca & Hn & Hm). exists ca. split; [|exact Hm].
  apply e2e_nth_error_app_l. exact Hn.
Qed.

Lemma ginv_ext : forall G ctxs ext, ginv G ctxs -> ginv G (ctxs ++ ext).
Proof. intros G ctxs ext H e He. apply ent_ok_ext. apply H. exact He. Qed.

Definition wfP (r : crule) : Prop := leaves_wf benv (cr_re r) = true.

Lemma single_rule_inv : forall r b n0 es0 ctxs0 n ctxs c G,
  nfa_rules benv n0 es0 -> ginv G ctxs0 ->
  compile_single_rule benv n0 r b ctxs0 = Ok (n, ctxs) ->
  close_rule b r = Ok c -> wfP c ->
  exists e, e_rule e = c /\ nfa_rules benv n (es0 ++ [e]) /\ ginv (G ++ [e]) ctxs /\
            eact e = ru_act r /\ exists ext, ctxs = ctxs0 ++ ext.
Proof.
  intros r b n0 es0 ctxs0 n ctxs c G R GI Cx Cc Wc.
  unfold compile_single_rule in Cx.
  apply bind_ok in Cx. destruct Cx as (cc & Hcc & Cx).
  apply bind_ok in Cx. destruct Cx as (n1 & Hn1 & Cx). injection Cx as <- <-.
  unfold close_rule in Cc.
  apply bind_ok in Cc. destruct Cc as (re' & Hre & Cc).
  apply bind_ok in Cc. destruct Cc as (cx & Hcx & Cc). injection Cc as <-.
  unfold wfP in Wc. cbn [cr_re] in Wc.
  pose proof (nfa_rules_step benv BW n0 es0 b (ru_re r) re' cx (snd cc) (ru_act r) n1 R Hre Wc Hn1)
    as R1.
  exists (mkRE (mkCRule re' cx (ru_act r)) (length n0) (snd cc)).
  split; [reflexivity|]. split; [exact R1|].
  destruct (ru_ctx r) as [c0|] eqn:Ectx.
  - apply bind_ok in Hcc. destruct Hcc as (y & Hy & Hcc). injection Hcc as <-.
    apply bind_ok in Hcx. destruct Hcx as (c' & Hc' & Hcx). injection Hcx as <-.
    pose proof (new_right_ctx_ok benv b ctxs0 c0 y Hy) as (Hs & _ & nn & dm & _ & _ & Hf).
    cbn [fst snd] in *.
    split; [|split; [reflexivity|eexists; exact Hf]].
    intros e He. apply in_app_or in He. destruct He as [He|[<-|[]]].
    + rewrite Hf. apply ent_ok_ext. apply GI. exact He.
    + unfold ent_ok. cbn [e_ci e_rule cr_ctx]. rewrite Hs.
      exists (mkCA nn (fst dm) (snd dm)). split.
      * rewrite Hf. rewrite nth_error_app2, Nat.sub_diag by lia. reflexivity.
      * exists b, c0, ctxs0. split; [|exact Hc'].
        rewrite Hy. destruct y as [y1 y2]. cbn [fst snd] in *. subst. reflexivity.
  - injection Hcc as <-. injection Hcx as <-. cbn [fst snd] in *.
    split; [|split; [reflexivity|exists []; rewrite app_nil_r; reflexivity]].
    intros e He. apply in_app_or in He. destruct He as [He|[<-|[]]].
    + apply GI. exact He.
    + unfold ent_ok. cbn [e_ci e_rule cr_ctx]. exact I.
Qed.

Lemma compile_rules_inv : forall rules b n0 es0 ctxs0 n ctxs crules G,
  nfa_rules benv n0 es0 -> ginv G ctxs0 ->
  compile_rules benv rules n0 b ctxs0 = Ok (n, ctxs) ->
  close_rules rules b = Ok crules ->
  Forall wfP crules ->
  exists es, map e_rule es = crules /\ nfa_rules benv n (es0 ++ es) /\ ginv (G ++ es) ctxs /\
             map eact es = robs_acts rules /\ exists ext, ctxs = ctxs0 ++ ext.
Proof.
  induction rules as [|[r|v re] rest IH]; intros b n0 es0 ctxs0 n ctxs crules G R GI C Cl Wf.
  - cbn in C, Cl. injection C as <- <-. injection Cl as <-.
    exists []. rewrite !app_nil_r.
    split; [reflexivity|]. split; [exact R|]. split; [exact GI|]. split; [reflexivity|].
    exists []. rewrite app_nil_r. reflexivity.
  - cbn [compile_rules close_rules] in C, Cl.
    apply bind_ok in C. destruct C as ([n1 ctxs1] & Cx & C). cbn [fst snd] in C.
    apply bind_ok in Cl. destruct Cl as (c & Cc & Cl).
    apply bind_ok in Cl. destruct Cl as (cs & Ccs & Cl). injection Cl as <-.
    inversion Wf as [|? ? Wc Wcs]; subst.
    destruct (single_rule_inv r b n0 es0 ctxs0 n1 ctxs1 c G R GI Cx Cc Wc)
      as (e & E1 & R1 & G1 & A1 & ext1 & X1).
    destruct (IH b n1 (es0 ++ [e]) ctxs1 n ctxs cs (G ++ [e]) R1 G1 C Ccs Wcs)
      as (es & E2 & R2 & G2 & A2 & ext2 & X2).
    exists (e :: es). cbn [map robs_acts]. rewrite E1, E2, A1, A2.
    rewrite <- !app_assoc in R2, G2. cbn [app] in R2, G2.
    split; [reflexivity|]. split; [exact R2|]. split; [exact G2|]. split; [reflexivity|].
    exists (ext1 ++ ext2). rewrite X2, X1, app_assoc. reflexivity.
  - cbn [compile_rules close_rules robs_acts] in *.
    destruct (lookup_var v b); [discriminate|].
    eapply IH; eauto.
Qed.

(* ------------------------------------------------------------------ *)
(* 4. the whole definition                                             *)
(* ------------------------------------------------------------------ *)

Definition art_rel (G : list rent) (ra : ruleset_art) (crules : list crule) : Prop :=
  exists es, map e_rule es = crules /\ nfa_rules benv (ra_nfa ra) es /\ incl es G.

Record tinv (G : list rent) (a : dstate_acc) (un : list crule) (nmd : list (list crule)) : Prop := {
  ti_g : ginv G (da_ctxs a);
  ti_un : exists es, map e_rule es = un /\ nfa_rules benv (da_unnamed a) es /\ incl es G;
  ti_arts : Forall2 (art_rel G) (da_arts a) nmd
}.

Lemma art_rel_mono : forall G G' ra crules, incl G G' -> art_rel G ra crules -> art_rel G' ra crules.
Proof.
  intros G G' ra crules I (es & E & R & J). exists es. split; [exact E|]. split; [exact R|].
  intros x Hx. apply I. apply J. exact Hx.
Qed.

Lemma def_rulesets_go_ext : forall d b un un' named,
  def_rulesets_go d b un = Ok (un', named) -> exists ext, un' = un ++ ext.
Proof.
  induction d as [|t d IH]; intros b un un' named H.
  - cbn in H. injection H as <- <-. exists []. rewrite app_nil_r. reflexivity.
  - destruct t as [|[r|v re]|nm rules]; cbn [def_rulesets_go] in H.
    + eapply IH; eauto.
    + apply bind_ok in H. destruct H as (c & _ & H). apply IH in H. destruct H as (ext & ->).
      exists (c :: ext). rewrite <- app_assoc. reflexivity.
    + eapply IH; eauto.
    + apply bind_ok in H. destruct H as (cs & _ & H).
      apply bind_ok in H. destruct H as ([u1 nm1] & H1 & H). injection H as <- <-.
      cbn [fst]. eapply IH; eauto.
Qed.

Lemma run_inv_main : forall d a a' un un' named G nmd,
  run benv (Ok a) d = Ok a' ->
  def_rulesets_go d (da_bindings a) un = Ok (un', named) ->
  Forall wfP un' -> Forall (Forall wfP) (map snd named) ->
  NoDup (map eact G ++ def_acts d) ->
  tinv G a un nmd ->
  exists G', NoDup (map eact G') /\ tinv G' a' un' (nmd ++ map snd named).
Proof.
  induction d as [|t d IH]; intros a a' un un' named G nmd Hr Hg Wu Wn ND TI.
  - cbn in Hr, Hg. injection Hr as <-. injection Hg as <- <-.
    exists G. cbn [map def_acts flat_map] in *. rewrite app_nil_r in *. split; assumption.
  - rewrite run_cons in Hr.
    destruct (top_step benv a t) as [a1|tg] eqn:Est; [|rewrite run_panic in Hr; discriminate].
    destruct TI as [TG (ues & UE & UR & UI) TA].
    destruct t as [|[r|v re]|nm rules]; cbn [top_step] in Est; cbn [def_rulesets_go] in Hg;
      cbn [def_acts flat_map top_acts] in ND; fold (def_acts d) in ND.
    + (* error type *)
      destruct (da_errty a); [discriminate|]. injection Est as <-.
      apply (IH _ a' un un' named G nmd Hr); auto.
      constructor; cbn; auto. exists ues. auto.
    + (* top-level rule *)
      apply bind_ok in Est. destruct Est as ([n1 ctxs1] & Cx & Est). cbn [fst snd] in Est.
      injection Est as <-.
      apply bind_ok in Hg. destruct Hg as (c & Cc & Hg).
      destruct (def_rulesets_go_ext _ _ _ _ _ Hg) as (ext & Eext).
      assert (Wc : wfP c).
      { rewrite Forall_forall in Wu. apply Wu. rewrite Eext.
        apply in_or_app. left. apply in_or_app. right. left. reflexivity. }
      destruct (single_rule_inv r (da_bindings a) (da_unnamed a) ues (da_ctxs a) n1 ctxs1 c G
                  UR TG Cx Cc Wc) as (e & E1 & R1 & G1 & A1 & _).
      apply (IH _ a' (un ++ [c]) un' named (G ++ [e]) nmd Hr); auto.
      * rewrite map_app. cbn [map]. rewrite A1, <- app_assoc. exact ND.
      * constructor; cbn [da_ctxs da_unnamed da_arts].
        -- exact G1.
        -- exists (ues ++ [e]). rewrite map_app. cbn [map]. rewrite UE, E1.
           split; [reflexivity|]. split; [exact R1|].
           intros x Hx. apply in_app_or in Hx. apply in_or_app.
           destruct Hx as [Hx|Hx]; [left; apply UI; exact Hx|right; exact Hx].
        -- eapply e2e_Forall2_mono; [|exact TA]. intros ra cr. apply art_rel_mono.
           intros x Hx. apply in_or_app. left. exact Hx.
    + (* top-level binding *)
      destruct (lookup_var v (da_bindings a)); [discriminate|]. injection Est as <-.
      apply (IH _ a' un un' named G nmd Hr); auto.
      constructor; cbn; auto. exists ues. auto.
    + (* rule set *)
      apply bind_ok in Hg. destruct Hg as (cs & Ccs & Hg).
      apply bind_ok in Hg. destruct Hg as ([u1 nm1] & Hg1 & Hg). injection Hg as <- <-.
      cbn [fst snd map] in *.
      pose proof (Forall_inv Wn) as Wcs. pose proof (Forall_inv_tail Wn) as Wn'.
      assert (Core : forall x, compile_rules benv rules nfa_new (da_bindings a) (da_ctxs a) = Ok x ->
                forall a1', da_bindings a1' = da_bindings a -> da_unnamed a1' = da_unnamed a ->
                  da_ctxs a1' = snd x ->
                  (exists dd mm, da_arts a1' = da_arts a ++ [mkRA (Some nm) (fst x) dd mm]) ->
                  run benv (Ok a1') d = Ok a' ->
                  exists G', NoDup (map eact G') /\ tinv G' a' u1 (nmd ++ cs :: map snd nm1)).
      { intros [n1 ctxs1] Cx a1' Eb Eu Ec (dd & mm & Ea) Hr'. cbn [fst snd] in *.
        destruct (compile_rules_inv rules (da_bindings a) nfa_new [] (da_ctxs a) n1 ctxs1 cs G
                    (nfa_rules_new benv) TG Cx Ccs Wcs) as (es & E2 & R2 & G2 & A2 & ext2 & X2).
        cbn [app] in R2.
        replace (nmd ++ cs :: map snd nm1) with ((nmd ++ [cs]) ++ map snd nm1)
          by (rewrite <- app_assoc; reflexivity).
        apply (IH a1' a' un u1 nm1 (G ++ es) (nmd ++ [cs]) Hr'); auto.
        - rewrite Eb. exact Hg1.
        - rewrite map_app, A2, <- app_assoc. exact ND.
        - constructor.
          + rewrite Ec. exact G2.
          + rewrite Eu. exists ues. split; [exact UE|]. split; [exact UR|].
            intros x Hx. apply in_or_app. left. apply UI. exact Hx.
          + rewrite Ea. apply e2e_Forall2_snoc.
            * eapply e2e_Forall2_mono; [|exact TA]. intros ra cr. apply art_rel_mono.
              intros x Hx. apply in_or_app. left. exact Hx.
            * exists es. cbn [ra_nfa]. split; [exact E2|]. split; [exact R2|].
              intros x Hx. apply in_or_app. right. exact Hx. }
      destruct (name_eqb nm name_Init).
      * apply bind_ok in Est. destruct Est as (x & Cx & Est).
        apply bind_ok in Est. destruct Est as (dm & Hdm & Est).
        destruct (assoc_name nm (da_entries a)); [discriminate|]. injection Est as <-.
        refine (Core x Cx _ _ _ _ _ Hr); cbn; eauto.
      * destruct (da_init a) as [init|]; [|discriminate].
        apply bind_ok in Est. destruct Est as (x & Cx & Est).
        apply bind_ok in Est. destruct Est as (dm & Hdm & Est).
        destruct (add_dfa init (fst dm)) as [joined idx].
        destruct (assoc_name nm (da_entries a)); [discriminate|]. injection Est as <-.
        refine (Core x Cx _ _ _ _ _ Hr); cbn; eauto.
Qed.

(* ---------- non-mixed definitions ---------- *)

Definition is_toprule (t : top) : bool := match t with TRob (RBRule _) => true | _ => false end.
Definition is_ruleset (t : top) : bool := match t with TRuleSet _ _ => true | _ => false end.

Lemma go_no_rules : forall d b un un' named,
  existsb is_toprule d = false -> def_rulesets_go d b un = Ok (un', named) -> un' = un.
Proof.
  induction d as [|t d IH]; intros b un un' named Hm H.
  - cbn in H. injection H as <- <-. reflexivity.
  - cbn [existsb] in Hm. apply orb_false_iff in Hm. destruct Hm as [Ht Hm].
    destruct t as [|[r|v re]|nm rules]; cbn [def_rulesets_go] in H; cbn in Ht.
    + eapply IH; eauto.
    + discriminate.
    + eapply IH; eauto.
    + apply bind_ok in H. destruct H as (cs & _ & H).
      apply bind_ok in H. destruct H as ([u1 nm1] & H1 & H). injection H as <- <-.
      cbn [fst]. eapply IH; eauto.
Qed.

Lemma go_no_sets : forall d b un un' named,
  existsb is_ruleset d = false -> def_rulesets_go d b un = Ok (un', named) -> named = [].
Proof.
  induction d as [|t d IH]; intros b un un' named Hm H.
  - cbn in H. injection H as <- <-. reflexivity.
  - cbn [existsb] in Hm. apply orb_false_iff in Hm. destruct Hm as [Ht Hm].
    destruct t as [|[r|v re]|nm rules]; cbn [def_rulesets_go] in H; cbn in Ht.
    + eapply IH; eauto.
    + apply bind_ok in H. destruct H as (c & _ & H). eapply IH; eauto.
    + eapply IH; eauto.
    + discriminate.
Qed.

(* ---------- what compile returns, in terms of the final accumulator ---------- *)

Lemma compile_arts : forall mg d c, compile benv mg d = Ok c ->
  exists a, run benv (Ok a0) d = Ok a /\ mixed d = false /\ c_ctxs c = da_ctxs a /\
    ((da_arts a <> [] /\ c_rulesets c = da_arts a) \/
     (da_arts a = [] /\ exists dd mm, c_rulesets c = [mkRA None (da_unnamed a) dd mm])).
Proof.
  intros mg d c H. unfold compile in H. destruct (mixed d) eqn:Em; [discriminate|].
  match type of H with (bind ?F _) = _ =>
    change F with (run benv (Ok a0) d) in H end.
  destruct (run benv (Ok a0) d) as [a|tg] eqn:Er; cbn [bind] in H; [|discriminate].
  pose proof (acc_inv_run benv d a Er) as Hinv.
  exists a. split; [reflexivity|]. split; [reflexivity|].
  destruct (da_init a) as [init|] eqn:Ei.
  - cbn [bind fst snd] in H.
    destruct (update_backtracks init) as [bt|tg]; cbn [bind] in H; [|discriminate].
    destruct (simplify bt (da_entries a)) as [s|tg]; cbn [bind] in H; [|discriminate].
    unfold make_program in H. cbn [bind] in H. injection H as <-.
    cbn [c_rulesets c_ctxs]. split; [reflexivity|]. left.
    destruct Hinv as [[Hi _]|[Hne _]]; [congruence|]. split; [exact Hne|reflexivity].
  - destruct (nfa_to_dfa_map (da_unnamed a)) as [dm|tg]; cbn [bind fst snd] in H; [|discriminate].
    destruct (update_backtracks (fst dm)) as [bt|tg]; cbn [bind] in H; [|discriminate].
    destruct (simplify bt (da_entries a)) as [s|tg]; cbn [bind] in H; [|discriminate].
    unfold make_program in H. cbn [bind] in H. injection H as <-.
    cbn [c_rulesets c_ctxs]. split; [reflexivity|]. right.
    destruct Hinv as [[_ [_ Ha]]|[_ [Hi _]]]; [|congruence]. split; [exact Ha|eauto].
Qed.

(* ---------- the structural relation between compile and def_rulesets ---------- *)

Theorem compile_def_rulesets : forall mg d c rss,
  compile benv mg d = Ok c ->
  def_rulesets d = Ok rss ->
  Forall (Forall wfP) rss ->
  acts_distinct d ->
  exists G, NoDup (map eact G) /\ ginv G (c_ctxs c) /\ Forall2 (art_rel G) (c_rulesets c) rss.
Proof.
  intros mg d c rss Hc Hd Wf ND.
  destruct (compile_arts mg d c Hc) as (a & Hr & Hm & Ectx & Harts).
  unfold def_rulesets in Hd. apply bind_ok in Hd. destruct Hd as ([un' named] & Hg & Hd).
  cbn [fst snd] in Hd.
  assert (Wun : Forall wfP un' /\ Forall (Forall wfP) (map snd named)).
  { unfold mixed in Hm. apply andb_false_iff in Hm. destruct Hm as [Hm|Hm].
    - fold is_toprule in Hm. change (existsb _ d) with (existsb is_toprule d) in Hm.
      pose proof (go_no_rules d [] [] un' named Hm Hg) as ->. split; [constructor|].
      destruct named as [|p named]; [constructor|]. injection Hd as <-. exact Wf.
    - change (existsb _ d) with (existsb is_ruleset d) in Hm.
      pose proof (go_no_sets d [] [] un' named Hm Hg) as ->. injection Hd as <-.
      split; [|constructor]. inversion Wf; assumption. }
  destruct Wun as [Wu Wn].
  destruct (run_inv_main d a0 a [] un' named [] [] Hr Hg Wu Wn) as (G & NDG & TI).
  - cbn [map app]. exact ND.
  - constructor; cbn.
    + intros e [].
    + exists []. split; [reflexivity|]. split; [apply nfa_rules_new|intros x []].
    + constructor.
  - cbn [app] in TI. destruct TI as [TG (ues & UE & UR & UI) TA].
    exists G. split; [exact NDG|]. split; [rewrite Ectx; exact TG|].
    destruct Harts as [(Hne & ->)|(Hnil & dd & mm & ->)].
    + destruct named as [|p named].
      * inversion TA as [E1 E2|]. congruence.
      * injection Hd as <-. exact TA.
    + rewrite Hnil in TA. inversion TA as [E1 E2|]. symmetry in E2. apply map_eq_nil in E2.
      subst named. injection Hd as <-.
      constructor; [|constructor]. exists ues. cbn [ra_nfa]. auto.
Qed.

End Glue.

(* ------------------------------------------------------------------ *)
(* 5. the context index function                                       *)
(* ------------------------------------------------------------------ *)

Definition cidx_of (G : list rent) (a : nat) : option nat :=
  match find (fun e => eact e =? a) G with
  | Some e => e_ci e
  | None => None
  end.

Lemma cidx_of_in : forall G e, NoDup (map eact G) -> In e G -> cidx_of G (eact e) = e_ci e.
Proof.
  induction G as [|g G IH]; intros e ND He; [destruct He|].
  cbn [map] in ND. inversion ND as [|? ? Hnin ND']; subst.
  unfold cidx_of. cbn [find]. destruct (eact g =? eact e) eqn:Eq.
  - destruct He as [->|He]; [reflexivity|].
    exfalso. apply Hnin. apply Nat.eqb_eq in Eq. rewrite Eq. apply in_map. exact He.
  - destruct He as [->|He]; [rewrite Nat.eqb_refl in Eq; discriminate|].
    apply IH; assumption.
Qed.

(* ------------------------------------------------------------------ *)
(* 6. the end-to-end theorems                                          *)
(* ------------------------------------------------------------------ *)

Section Main.
Variable benv : builtin_env.
Variable mg : nat.
Variable d : def.
Variable c : compiled.
Variable rss : list (list crule).

Hypothesis BW : benv_wf benv.
Hypothesis Hcomp : compile benv mg d = Ok c.
Hypothesis Hdef : def_rulesets d = Ok rss.
Hypothesis Hwf : wf_def benv d = true.
Hypothesis Hchars : def_chars_ok benv rss.
Hypothesis Hcerts : certs_ok c.
Hypothesis Hdistinct : acts_distinct d.

Lemma wf_rules : forall k r, In r (nth k rss []) -> wf_crule benv r = true.
Proof.
  intros k r Hin. unfold wf_def in Hwf. rewrite Hdef in Hwf. rewrite forallb_forall in Hwf.
  pose proof (e2e_in_nth_lt rss k r Hin) as Hk.
  specialize (Hwf (nth k rss []) (nth_In rss [] Hk)). rewrite forallb_forall in Hwf.
  apply Hwf. exact Hin.
Qed.

Lemma wf_rules_parts : forall k r, In r (nth k rss []) ->
  leaves_ok benv (cr_re r) = true /\ eoi_tail (cr_re r) = true /\
  nullable (of_regex benv (cr_re r)) = false /\
  (forall cre, cr_ctx r = Some cre -> wf_regex benv cre = true).
Proof.
  intros k r Hin. pose proof (wf_rules k r Hin) as W. unfold wf_crule in W.
  apply andb_true_iff in W. destruct W as [W Wc].
  apply andb_true_iff in W. destruct W as [W Wn].
  unfold wf_regex in W. apply andb_true_iff in W. destruct W as [W1 W2].
  apply negb_true_iff in Wn.
  repeat split; auto. intros cre E. rewrite E in Wc. exact Wc.
Qed.

Lemma rss_wfP : Forall (Forall (wfP benv)) rss.
Proof.
  apply Forall_forall. intros rs Hrs. apply Forall_forall. intros r Hr.
  apply In_nth with (d := []) in Hrs. destruct Hrs as (k & Hk & <-).
  destruct (wf_rules_parts k r Hr) as (L & _).
  destruct (Hchars k r Hr) as (K & _). unfold regex_chars_ok in K.
  apply andb_true_iff in K. destruct K as [_ K].
  unfold wfP. apply leaves_ok_wf; assumption.
Qed.

(* the scanner facts for the compiled program, with the context index function read off the
   compilation *)
Theorem compiled_scan_ok :
  exists cidx, scan_ok benv (c_program c) rss cidx (c_entry c) (c_At c).
Proof.
  destruct (compile_def_rulesets benv BW mg d c rss Hcomp Hdef rss_wfP Hdistinct)
    as (G & ND & GI & F2).
  exists (cidx_of G).
  destruct Hcerts as [CR CC].
  (* every rule of rule set k has its entry in G *)
  assert (InG : forall k r, In r (nth k rss []) -> exists e, In e G /\ e_rule e = r).
  { intros k r Hin. pose proof (e2e_in_nth_lt rss k r Hin) as Hk.
    destruct (nth_error rss k) as [rs|] eqn:En; [|apply nth_error_None in En; lia].
    destruct (e2e_Forall2_nth_error_r _ _ _ F2 k rs En) as (ra & _ & es & E1 & _ & Inc).
    rewrite (nth_error_nth _ _ [] En) in Hin. rewrite <- E1 in Hin.
    apply in_map_iff in Hin. destruct Hin as (e & Ee & He). exists e. split; [apply Inc; exact He|exact Ee]. }
  apply (compile_scan_ok_wit benv mg d c rss (cidx_of G) Hcomp).
  - eapply e2e_Forall2_length; exact F2.
  - intros k ra Hk.
    destruct (e2e_Forall2_nth_error _ _ _ F2 k ra Hk) as (rs & En & es & E1 & R & Inc).
    rewrite (nth_error_nth _ _ [] En). rewrite <- E1.
    destruct (CR ra (nth_error_In _ _ Hk)) as (Hc & Hl & Hs).
    apply (ruleset_sem_core benv (ra_nfa ra) es (ra_dfa ra) (ra_map ra) (cidx_of G) R Hc Hl Hs).
    + intros e He.
      assert (Hin : In (e_rule e) (nth k rss [])).
      { rewrite (nth_error_nth _ _ [] En), <- E1. apply in_map. exact He. }
      destruct (wf_rules_parts k _ Hin) as (L & T & _).
      destruct (Hchars k _ Hin) as (K & _). unfold regex_chars_ok in K.
      apply andb_true_iff in K. destruct K as [K _]. auto.
    + intros e He. apply (cidx_of_in G e ND). apply Inc. exact He.
  - intros k r Hin. destruct (InG k r Hin) as (e & He & <-).
    change (cr_act (e_rule e)) with (eact e). rewrite (cidx_of_in G e ND He).
    pose proof (GI e He) as Ok_. unfold ent_ok in Ok_.
    destruct (e_ci e); destruct (cr_ctx (e_rule e)); try contradiction;
      split; intros; congruence.
  - intros k r i cre Hin Hci Hctx. destruct (InG k r Hin) as (e & He & <-).
    change (cr_act (e_rule e)) with (eact e) in Hci. rewrite (cidx_of_in G e ND He) in Hci.
    pose proof (GI e He) as Ok_. unfold ent_ok in Ok_. rewrite Hci, Hctx in Ok_.
    destruct Ok_ as (ca & Hn & b & re & ctxs & Hnew & Hexp).
    exists ca. split; [exact Hn|].
    destruct (CC ca (nth_error_In _ _ Hn)) as (Hc & Hl & Hs).
    destruct (wf_rules_parts k _ Hin) as (_ & _ & _ & Wc).
    destruct (Hchars k _ Hin) as (_ & Kc).
    apply (ctx_sem_of_closed benv mg b re cre ctxs (ctxs ++ [ca]) (length ctxs) ca BW Hnew); auto.
    rewrite nth_error_app2, Nat.sub_diag by lia. reflexivity.
  - intros k r Hin. apply (wf_rules_parts k r Hin).
Qed.

Section Run.
Variable width : N -> N.
Variable tab_width : N.
Variables T E U : Type.
Variable actions : nat -> action T E U.
Hypothesis Hswitch :
  forall a v u n, a_switch (actions a v u) = Some n -> n < length (p_switch (c_program c)).

Theorem lexer_correct_sec :
  forall whole u with_str,
    Forall (fun ch => is_scalar ch = true) whole ->
    (with_str = false -> text_blind T E U actions) ->
  forall n fuel, enough_fuel U fuel (lexer_new U whole u with_str) ->
  exists r, spec_run benv width tab_width T E U rss actions n (s_init U whole u) r /\
            run_lexer width tab_width T E U (c_program c) actions n fuel
              (lexer_new U whole u with_str) = map (outcome_of T E) r.
Proof.
  intros whole u with_str Hsc Htb n fuel Hf.
  destruct compiled_scan_ok as (cidx & SO).
  exact (lexer_stream_correct benv width tab_width T E U (c_program c) rss cidx (c_entry c)
           (c_At c) actions SO Hswitch whole u with_str n fuel Hsc Htb Hf).
Qed.

(* no call of next() ever panics (in particular never runs out of fuel) *)
Theorem lexer_no_panic_sec :
  forall whole u with_str,
    Forall (fun ch => is_scalar ch = true) whole ->
    (with_str = false -> text_blind T E U actions) ->
  forall n fuel, enough_fuel U fuel (lexer_new U whole u with_str) ->
  forall o, In o (run_lexer width tab_width T E U (c_program c) actions n fuel
                    (lexer_new U whole u with_str)) ->
  forall t, o <> OPanic T E t.
Proof.
  intros whole u with_str Hsc Htb n fuel Hf o Hin t.
  destruct (lexer_correct_sec whole u with_str Hsc Htb n fuel Hf) as (r & _ & Eq).
  rewrite Eq in Hin. apply in_map_iff in Hin. destruct Hin as (oi & <- & _).
  destruct oi; discriminate.
Qed.

End Run.
End Main.

(* ---------- the statements, fully quantified ---------- *)

Theorem lexer_correct :
  forall benv mg (width : N -> N) tab_width (T E U : Type) (d : def) c rss
         (actions : nat -> action T E U),
  benv_wf benv ->
  compile benv mg d = Ok c ->
  def_rulesets d = Ok rss ->
  wf_def benv d = true ->
  def_chars_ok benv rss ->
  certs_ok c ->
  acts_distinct d ->
  (forall a v u n, a_switch (actions a v u) = Some n -> n < length (p_switch (c_program c))) ->
  forall whole u with_str,
    Forall (fun ch => is_scalar ch = true) whole ->
    (with_str = false -> text_blind T E U actions) ->
  forall n fuel, enough_fuel U fuel (lexer_new U whole u with_str) ->
  exists r, spec_run benv width tab_width T E U rss actions n (s_init U whole u) r /\
            run_lexer width tab_width T E U (c_program c) actions n fuel
              (lexer_new U whole u with_str) = map (outcome_of T E) r.
Proof.
  intros benv mg width tab_width T E U d c rss actions BW Hc Hd Hw Hch Hce Hdi Hsw.
  exact (lexer_correct_sec benv mg d c rss BW Hc Hd Hw Hch Hce Hdi width tab_width T E U actions Hsw).
Qed.

Theorem lexer_no_panic :
  forall benv mg (width : N -> N) tab_width (T E U : Type) (d : def) c rss
         (actions : nat -> action T E U),
  benv_wf benv ->
  compile benv mg d = Ok c ->
  def_rulesets d = Ok rss ->
  wf_def benv d = true ->
  def_chars_ok benv rss ->
  certs_ok c ->
  acts_distinct d ->
  (forall a v u n, a_switch (actions a v u) = Some n -> n < length (p_switch (c_program c))) ->
  forall whole u with_str,
    Forall (fun ch => is_scalar ch = true) whole ->
    (with_str = false -> text_blind T E U actions) ->
  forall n fuel, enough_fuel U fuel (lexer_new U whole u with_str) ->
  forall o, In o (run_lexer width tab_width T E U (c_program c) actions n fuel
                    (lexer_new U whole u with_str)) ->
  forall t, o <> OPanic T E t.
Proof.
  intros benv mg width tab_width T E U d c rss actions BW Hc Hd Hw Hch Hce Hdi Hsw.
  exact (lexer_no_panic_sec benv mg d c rss BW Hc Hd Hw Hch Hce Hdi width tab_width T E U actions Hsw).
Qed.

(* the same with the boolean certificate check *)
Corollary lexer_correct_checked :
  forall benv mg (width : N -> N) tab_width (T E U : Type) (d : def) c rss
         (actions : nat -> action T E U),
  benv_wf benv ->
  compile benv mg d = Ok c ->
  def_rulesets d = Ok rss ->
  wf_def benv d = true ->
  def_chars_ok benv rss ->
  certs_ok_b c = true ->
  acts_distinct d ->
  (forall a v u n, a_switch (actions a v u) = Some n -> n < length (p_switch (c_program c))) ->
  forall whole u with_str,
    Forall (fun ch => is_scalar ch = true) whole ->
    (with_str = false -> text_blind T E U actions) ->
  forall n fuel, enough_fuel U fuel (lexer_new U whole u with_str) ->
  exists r, spec_run benv width tab_width T E U rss actions n (s_init U whole u) r /\
            run_lexer width tab_width T E U (c_program c) actions n fuel
              (lexer_new U whole u with_str) = map (outcome_of T E) r.
Proof.
  intros benv mg width tab_width T E U d c rss actions BW Hc Hd Hw Hch Hce.
  apply (lexer_correct benv mg width tab_width T E U d c rss actions BW Hc Hd Hw Hch
           (certs_ok_b_sound c Hce)).
Qed.

Print Assumptions certs_ok_b_sound.
Print Assumptions compile_def_rulesets.
Print Assumptions compiled_scan_ok.
Print Assumptions lexer_correct.
Print Assumptions lexer_no_panic.
Print Assumptions lexer_correct_checked.
