(* The generated code as a syntax tree.

   dfa/codegen.rs emits, for every simplified DFA state, a fixed template instantiated with the
   state's transitions (generate_state, generate_state_char_arms, test_right_ctxs, fail,
   generate_any_transition), nested for inlined states; and one function per right context
   (generate_right_ctx_fns). This file models that output *as code*:

     gcode / cxstate   - the syntax of the code (one constructor per template fragment)
     gen_state / gen_arms / gen_cx  - the generator (what codegen.rs does)
     exec / gstep / gnext / cx_exec - what the code does when Rust runs it

   harness/gencode.py translates the token stream the real macro produced (dumped by the TOKENS hook)
   into the same trees and compares them with gen_arms / gen_cx of the model, for every definition the
   checks compile. GenCodeProofs.v proves that running the trees is exactly the interpreter of
   Runtime.v (whose correctness against the reference semantics is EndToEnd*.v). *)
From LexVerif Require Import Base CharClass RangeMap Regex Nfa Dfa Codegen LexSpec Runtime.

(* ------------------------------------------------------------------ *)
(* 1. syntax *)

(* `x if <guard> =>`: a chain of range tests joined by `||`, or a call of the binary search *)
Inductive guard :=
| GChain (ps : pairs)       (* (a..=b).contains(&x) || x == c || ...  *)
| GTable (ps : pairs).      (* <L>_binary_search(x, &<L>_RANGE_TABLE_n), the table holding ps *)

Definition guard_holds (g : guard) (c : N) : bool :=
  match g with GChain ps => guard_chain ps c | GTable ps => binary_search ps c end.

Definition mk_guard (max_guard : nat) (ps : pairs) : guard :=
  if Nat.ltb max_guard (length ps) then GTable ps else GChain ps.

(* the statement in front of `match self.0.next()`: records the state as a rewind point *)
Inductive setacc :=
| SANone                                   (* nothing *)
| SASet (a : nat)                          (* self.0.set_accepting_state(ACTION_a); *)
| SAIf (ctx a : nat) (els : setacc).       (* if RIGHT_CTX_ctx(self.0.__iter.clone()) { set(a) } else { els } *)

Inductive gcode :=
| GSetState (n : nat)                      (* self.0.__state = n; *)
| GReturnNone                              (* return None; *)
| GFailBacktrack                           (* match self.0.backtrack() { Err(err) => {..} Ok(sa) => <call sa> } *)
| GFailError                               (* { let location = ..; reset_match; state = 0; initial = 0; return Some(Err(InvalidToken)) } *)
| GIf (ctx : nat) (thn els : gcode)        (* if RIGHT_CTX_ctx(self.0.__iter.clone()) { thn } else { els } *)
| GAction (a : nat)                        (* self.0.reset_accepting_state(); match ACTION_a(self) {..} *)
| GState (sa : setacc)                     (* the code of a state: *)
         (eoi : gcode)                     (*   None => { self.0.__done = true; eoi } *)
         (cas : list (list N * gcode))     (*   'a' | 'b' => { .. }  *)
         (gas : list (guard * gcode))      (*   x if guard => { .. } *)
         (dflt : gcode).                   (*   _ => { dflt } *)

(* right-context functions *)
Inductive cxact := CXGoto (n : nat) | CXTrue | CXFalse.
Inductive cxstate :=
| CXAccept                                 (* return true *)
| CXMatch (eof : cxact) (cas : list (list N * cxact)) (gas : list (guard * cxact)) (dflt : cxact).

(* ------------------------------------------------------------------ *)
(* 2. the generator *)

Fixpoint gen_setacc (accs : list accval) : setacc :=
  match accs with
  | [] => SANone
  | (a, None) :: _ => SASet a
  | (a, Some i) :: rest => SAIf i a (gen_setacc rest)
  end.

(* test_right_ctxs accs default *)
Fixpoint gen_test (accs : list accval) (dflt : gcode) : gcode :=
  match accs with
  | [] => dflt
  | (a, None) :: _ => GAction a
  | (a, Some i) :: rest => GIf i (GAction a) (gen_test rest dflt)
  end.

(* the `fail` closure *)
Definition gen_fail (st : dstate trans) : gcode :=
  if d_bt st || is_accepting st then GFailBacktrack else GFailError.

(* characters that lead to the same state share one arm (`'a' | 'b' =>`) *)
Definition group_chars (cs : list (N * trans)) : list (nat * list N) :=
  fold_left (fun acc p =>
               match snd p with
               | TGoto t =>
                   match assoc_nat t acc with
                   | Some l => assoc_nat_set t (l ++ [fst p]) acc
                   | None => acc ++ [(t, [fst p])]
                   end
               | TAccept _ => acc
               end) cs [].

Fixpoint map_result {A B} (f : A -> result B) (l : list A) : result (list B) :=
  match l with
  | [] => Ok []
  | x :: t => do y <- f x; do ys <- map_result f t; Ok (y :: ys)
  end.

(* generate_state; [fuel] bounds the nesting of inlined states (the Rust recursion has no bound:
   an inlined state has a single predecessor, so the nesting is a tree) *)
Fixpoint gen_state (fuel : nat) (p : program) (s : nat) : result gcode :=
  match fuel with
  | O => Panic TagOutOfFuel
  | S f =>
      let st := dget (p_states p) s in
      let goto (n : nat) : result gcode :=
        if set_mem n (p_inlined p) then gen_state f p n
        else Ok (GSetState (renumber (p_inlined p) n)) in
      let fail := gen_fail st in
      do dflt <- match d_any st with
                 | Some (TGoto n) => goto n
                 | Some (TAccept accs) => Ok (gen_test accs fail)
                 | None => Ok fail
                 end;
      let acc_cas :=
        flat_map (fun pr => match snd pr with
                            | TAccept accs => [([fst pr], gen_test accs dflt)]
                            | TGoto _ => []
                            end) (d_chars st) in
      do goto_cas <- map_result (fun g => do code <- goto (fst g); Ok (snd g, code))
                                (group_chars (d_chars st));
      let acc_gas :=
        flat_map (fun r => match range_chars (r_lo r) (r_hi r), r_val r with
                           | Some pr, TAccept accs => [(GChain [pr], gen_test accs dflt)]
                           | _, _ => []
                           end) (d_ranges st) in
      do goto_gas <- map_result (fun g => do code <- goto (fst g);
                                          Ok (mk_guard (p_max_guard p) (snd g), code))
                                (group_ranges (d_ranges st));
      let eoi_dflt := if s =? 0 then GReturnNone else fail in
      let eoi := match d_eoi st with
                 | Some (TAccept accs) => gen_test accs eoi_dflt
                 | Some (TGoto n) => GSetState (renumber (p_inlined p) n)
                 | None => eoi_dflt
                 end in
      Ok (GState (gen_setacc (d_acc st)) eoi (acc_cas ++ goto_cas) (acc_gas ++ goto_gas) dflt)
  end.

(* the arms of `match self.0.__state`, in order, with their patterns (None = `_`) *)
Definition gen_arms (p : program) : result (list (option nat * gcode)) :=
  map_result (fun a => do code <- gen_state (S (length (p_states p))) p (snd a); Ok (fst a, code))
             (p_arms p).

(* generate_right_ctx_state_arm *)
Definition cx_group_chars (d : dfa nat) (cs : list (N * nat)) : list (nat * list N) :=
  fold_left (fun acc p =>
               if is_accepting (dget d (snd p)) then acc
               else match assoc_nat (snd p) acc with
                    | Some l => assoc_nat_set (snd p) (l ++ [fst p]) acc
                    | None => acc ++ [(snd p, [fst p])]
                    end) cs [].

Definition cx_accept_chars (d : dfa nat) (cs : list (N * nat)) : list N :=
  flat_map (fun p => if is_accepting (dget d (snd p)) then [fst p] else []) cs.

Definition cx_group_ranges (d : dfa nat) (rs : rmap nat) : list (nat * pairs) :=
  fold_left (fun acc r =>
               match range_chars (r_lo r) (r_hi r) with
               | None => acc
               | Some pr =>
                   if is_accepting (dget d (r_val r)) then acc
                   else match assoc_nat (r_val r) acc with
                        | Some l => assoc_nat_set (r_val r) (l ++ [pr]) acc
                        | None => acc ++ [(r_val r, [pr])]
                        end
               end) rs [].

Definition cx_accept_ranges (d : dfa nat) (rs : rmap nat) : pairs :=
  flat_map (fun r => match range_chars (r_lo r) (r_hi r) with
                     | Some pr => if is_accepting (dget d (r_val r)) then [pr] else []
                     | None => []
                     end) rs.

Definition gen_cx_state (mg : nat) (d : dfa nat) (st : dstate nat) : cxstate :=
  if is_accepting st then CXAccept
  else
    let eof := match d_eoi st with Some n => CXGoto n | None => CXFalse end in
    let dflt := match d_any st with Some n => CXGoto n | None => CXFalse end in
    let cas := map (fun g => (snd g, CXGoto (fst g))) (cx_group_chars d (d_chars st))
               ++ (match cx_accept_chars d (d_chars st) with [] => [] | l => [(l, CXTrue)] end) in
    let gas := map (fun g => (mk_guard mg (snd g), CXGoto (fst g))) (cx_group_ranges d (d_ranges st))
               ++ (match cx_accept_ranges d (d_ranges st) with [] => [] | l => [(mk_guard mg l, CXTrue)] end) in
    CXMatch eof cas gas dflt.

(* arms 0, 1, .., n-2, `_` *)
Definition gen_cx (mg : nat) (d : dfa nat) : list (option nat * cxstate) :=
  map (fun p => (if fst p =? length d - 1 then None else Some (fst p), gen_cx_state mg d (snd p)))
      (combine (seq 0 (length d)) d).

Record gprogram := mkGP {
  gp_arms : list (option nat * gcode);
  gp_switch : list (name * nat);                      (* `match rule { L::R => self.0.__state = n, .. }` *)
  gp_ctxs : list (list (option nat * cxstate))
}.

Definition gen_program (p : program) : result gprogram :=
  do arms <- gen_arms p;
  Ok (mkGP arms (p_switch p) (map (gen_cx (p_max_guard p)) (p_ctxs p))).

(* ------------------------------------------------------------------ *)
(* 3. what the code does *)

Section Exec.
Variable width : N -> N.
Variable tab_width : N.
Variables T E U : Type.
Variable prog : program.                         (* for the right-context functions and `switch` *)
Variable actions : nat -> action T E U.

Notation lexer := (lexer U).
Notation res := (lexer * ctl + outcome T E * lexer)%type.

Fixpoint exec_setacc (sa : setacc) (l : lexer) : lexer :=
  match sa with
  | SANone => l
  | SASet a => set_last U l (Some (l_mstart U l, l_iter U l, a, l_mend U l))
  | SAIf i a els =>
      if ctx_passes U prog l (Some i)
      then set_last U l (Some (l_mstart U l, l_iter U l, a, l_mend U l))
      else exec_setacc els l
  end.

(* match self.0.backtrack() { Err(err) => { self.reset_match(); return Some(Err(err)) }
                              Ok(semantic_action) => <call> } *)
Definition exec_backtrack (l : lexer) : res :=
  match l_last U l with
  | None =>
      let l1 := mkL U 0 (l_done U l) 0 (l_user U l) (l_input U l) (l_iter U l) (l_iter_loc U l)
                    (l_mstart U l) (l_mend U l) None in
      inr (OItem T E (IInvalid (l_mstart U l)), reset_match U l1)
  | Some (ms, it, a, me) =>
      let l1 := mkL U (l_state U l) false (l_initial U l) (l_user U l) (l_input U l) it me ms me None in
      run_action T E U prog actions l1 a
  end.

Definition exec_error (l : lexer) : res :=
  let loc := l_mstart U l in
  let l1 := reset_match U l in
  let l2 := mkL U 0 (l_done U l1) 0 (l_user U l1) (l_input U l1) (l_iter U l1) (l_iter_loc U l1)
                (l_mstart U l1) (l_mend U l1) (l_last U l1) in
  inr (OItem T E (IInvalid loc), l2).

Fixpoint exec (g : gcode) (l : lexer) {struct g} : res :=
  match g with
  | GSetState n => inl (set_state U l n, CLoop)
  | GReturnNone => inr (ONone T E, l)
  | GFailBacktrack => exec_backtrack l
  | GFailError => exec_error l
  | GIf i thn els => if ctx_passes U prog l (Some i) then exec thn l else exec els l
  | GAction a => run_action T E U prog actions (set_last U l None) a
  | GState sa eoi cas gas dflt =>
      let l1 := exec_setacc sa l in
      match read_char width tab_width U l1 with
      | (None, l2) => exec eoi (set_done U l2 true)
      | (Some c, l2) =>
          (fix pick_c (arms : list (list N * gcode)) : res :=
             match arms with
             | (cs, code) :: t => if existsb (N.eqb c) cs then exec code l2 else pick_c t
             | [] =>
                 (fix pick_g (arms : list (guard * gcode)) : res :=
                    match arms with
                    | (gd, code) :: t => if guard_holds gd c then exec code l2 else pick_g t
                    | [] => exec dflt l2
                    end) gas
             end) cas
      end
  end.

(* `match self.0.__state { k => .., _ => .. }`: first arm whose pattern matches *)
Fixpoint garm_lookup {A} (arms : list (option nat * A)) (state : nat) : option A :=
  match arms with
  | [] => None
  | (None, code) :: _ => Some code
  | (Some k, code) :: t => if k =? state then Some code else garm_lookup t state
  end.

(* one turn of `loop { if self.0.__done { return None; } match self.0.__state { .. } }` *)
Definition gstep (arms : list (option nat * gcode)) (l : lexer) : lexer + outcome T E * lexer :=
  if l_done U l then inr (ONone T E, l)
  else match garm_lookup arms (l_state U l) with
       | Some code => match exec code l with
                      | inl (l', _) => inl l'
                      | inr r => inr r
                      end
       | None => inr (OPanic T E TagNoArm, l)
       end.

Definition gnext (fuel : positive) (arms : list (option nat * gcode)) (l : lexer) : outcome T E * lexer :=
  match iter_pos fuel (gstep arms) l with
  | inl l' => (OPanic T E TagOutOfFuel, l')
  | inr r => r
  end.

End Exec.

(* fn <L>_RIGHT_CTX_i(mut input: I) -> bool { let mut state: usize = 0; loop { match state { .. } } }
   None = the loop has not returned within [fuel] turns. After the input is exhausted `input.next()`
   keeps returning None (the iterator is a clone of a fused iterator). *)
Definition cx_do (a : cxact) : nat + bool :=
  match a with CXGoto n => inl n | CXTrue => inr true | CXFalse => inr false end.

Fixpoint cx_pick_c (c : N) (arms : list (list N * cxact)) : option cxact :=
  match arms with
  | [] => None
  | (cs, a) :: t => if existsb (N.eqb c) cs then Some a else cx_pick_c c t
  end.
Fixpoint cx_pick_g (c : N) (arms : list (guard * cxact)) : option cxact :=
  match arms with
  | [] => None
  | (g, a) :: t => if guard_holds g c then Some a else cx_pick_g c t
  end.

Fixpoint cx_exec (fuel : nat) (fn : list (option nat * cxstate)) (state : nat) (input : list N) : option bool :=
  match fuel with
  | O => None
  | S f =>
      match garm_lookup fn state with
      | None => None                                    (* no arm: cannot happen, the last pattern is `_` *)
      | Some CXAccept => Some true
      | Some (CXMatch eof cas gas dflt) =>
          match input with
          | [] => match cx_do eof with inl n => cx_exec f fn n [] | inr b => Some b end
          | c :: rest =>
              let a := match cx_pick_c c cas with
                       | Some a => a
                       | None => match cx_pick_g c gas with Some a => a | None => dflt end
                       end in
              match cx_do a with inl n => cx_exec f fn n rest | inr b => Some b end
          end
      end
  end.
