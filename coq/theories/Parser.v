(* Model of the regex grammar of crates/lexgen/src/ast.rs (parse_regex_0..4, parse_charset,
   parse_char_or_range) over token trees as syn presents them, and the minimal-parentheses
   printer of DESIGN.md C16. Tokenisation itself (rustc / proc_macro2) is trusted. *)
From LexVerif Require Import Base CharClass Regex.

Inductive tok :=
| TChar (c : N)                 (* 'x' *)
| TStr (s : list N)             (* "..." *)
| TIdent (n : name)
| TDollar | TUnderscore | TOr | TStar | TPlus | TQuestion | TPound | TMinus
| TParen (ts : list tok)        (* ( ... ) *)
| TBracket (ts : list tok)      (* [ ... ] *)
| TOther (k : N).               (* any other token: , = => > ; etc. *)

(* parse_charset: a sequence of <char> or <char>-<char>; must consume the whole group *)
Fixpoint parse_charset (ts : list tok) : option (list cor) :=
  match ts with
  | [] => Some []
  | TChar a :: TMinus :: TChar b :: rest => option_map (cons (CRange a b)) (parse_charset rest)
  | TChar a :: TMinus :: _ => None
  | TChar a :: rest => option_map (cons (CChar a)) (parse_charset rest)
  | _ => None
  end.

(* can a regex atom start here?  (the `while input.peek(..)` condition of parse_regex_1) *)
Definition starts_atom (t : tok) : bool :=
  match t with
  | TParen _ | TDollar | TChar _ | TStr _ | TBracket _ | TUnderscore => true
  | _ => false
  end.

(* the postfix loop of parse_regex_2 *)
Fixpoint loop_post (acc : regex) (ts : list tok) {struct ts} : regex * list tok :=
  match ts with
  | TStar :: rest => loop_post (RStar acc) rest
  | TQuestion :: rest => loop_post (ROpt acc) rest
  | TPlus :: rest => loop_post (RPlus acc) rest
  | _ => (acc, ts)
  end.

(* The five mutually recursive levels; [fuel] bounds the total number of calls (every call
   consumes a token or descends into a group, so size-of-input fuel suffices).
   Each returns the regex and the remaining tokens. *)
Fixpoint parse_re (fuel : nat) (level : nat) (ts : list tok) {struct fuel} : option (regex * list tok) :=
  match fuel with
  | O => None
  | S f =>
      match level with
      | 0 =>   (* re_0 -> re_1 ( `|` re_1 )* *)
          match parse_re f 1 ts with
          | None => None
          | Some (r, rest) => loop_or f r rest
          end
      | 1 =>   (* re_1 -> re_2 re_2* *)
          match parse_re f 2 ts with
          | None => None
          | Some (r, rest) => loop_cat f r rest
          end
      | 2 =>   (* re_2 -> re_3 ( * | ? | + )* *)
          match parse_re f 3 ts with
          | None => None
          | Some (r, rest) => Some (loop_post r rest)
          end
      | 3 =>   (* re_3 -> re_4 ( # re_4 )* *)
          match parse_re f 4 ts with
          | None => None
          | Some (r, rest) => loop_diff f r rest
          end
      | _ =>   (* re_4: atoms *)
          match ts with
          | TParen inner :: rest =>
              match parse_re f 0 inner with
              | Some (r, []) => Some (r, rest)
              | _ => None            (* unconsumed tokens in a group are an error *)
              end
          | TDollar :: TDollar :: TIdent n :: rest => Some (RBuiltin n, rest)
          | TDollar :: TDollar :: _ => None
          | TDollar :: TIdent n :: rest => Some (RVar n, rest)
          | TDollar :: rest => Some (REoi, rest)
          | TChar c :: rest => Some (RChar c, rest)
          | TStr s :: rest => Some (RString s, rest)
          | TBracket inner :: rest =>
              match parse_charset inner with
              | Some l => Some (RCharSet l, rest)
              | None => None
              end
          | TUnderscore :: rest => Some (RAny, rest)
          | _ => None
          end
      end
  end
with loop_or (fuel : nat) (acc : regex) (ts : list tok) {struct fuel} : option (regex * list tok) :=
  match fuel with
  | O => None
  | S f =>
      match ts with
      | TOr :: rest =>
          match parse_re f 1 rest with
          | None => None
          | Some (r2, rest') => loop_or f (ROr acc r2) rest'
          end
      | _ => Some (acc, ts)
      end
  end
with loop_cat (fuel : nat) (acc : regex) (ts : list tok) {struct fuel} : option (regex * list tok) :=
  match fuel with
  | O => None
  | S f =>
      match ts with
      | t :: _ =>
          if starts_atom t then
            match parse_re f 2 ts with
            | None => None
            | Some (r2, rest') => loop_cat f (RCat acc r2) rest'
            end
          else Some (acc, ts)
      | [] => Some (acc, ts)
      end
  end
with loop_diff (fuel : nat) (acc : regex) (ts : list tok) {struct fuel} : option (regex * list tok) :=
  match fuel with
  | O => None
  | S f =>
      match ts with
      | TPound :: rest =>
          match parse_re f 4 rest with
          | None => None
          | Some (r2, rest') => loop_diff f (RDiff acc r2) rest'
          end
      | _ => Some (acc, ts)
      end
  end.

(* size of a token list including nested groups: enough fuel for any parse *)
Fixpoint tok_size (t : tok) : nat :=
  match t with
  | TParen ts | TBracket ts => S (fold_right (fun x acc => tok_size x + acc) 0 ts)
  | _ => 1
  end.
Definition toks_size (ts : list tok) : nat := fold_right (fun x acc => tok_size x + acc) 0 ts.

Definition parse_fuel (ts : list tok) : nat := 6 * toks_size ts + 6.

(* parse_regex on a complete token list *)
Definition parse_regex (ts : list tok) : option (regex * list tok) := parse_re (parse_fuel ts) 0 ts.

(* ---------- printer: fewest parentheses the grammar allows ---------- *)
(* precedence of the top constructor: 0 `|`, 1 concatenation, 2 postfix, 3 `#`, 4 atom *)
Definition prec (r : regex) : nat :=
  match r with
  | ROr _ _ => 0 | RCat _ _ => 1 | RStar _ | RPlus _ | ROpt _ => 2 | RDiff _ _ => 3 | _ => 4
  end.

Definition print_cor (x : cor) : list tok :=
  match x with CChar a => [TChar a] | CRange a b => [TChar a; TMinus; TChar b] end.

Fixpoint print_re (level : nat) (r : regex) : list tok :=
  let body :=
    match r with
    | RBuiltin n => [TDollar; TDollar; TIdent n]
    | RVar v => [TDollar; TIdent v]
    | RChar c => [TChar c]
    | RString s => [TStr s]
    | RCharSet l => [TBracket (flat_map print_cor l)]
    | RStar a => print_re 2 a ++ [TStar]
    | RPlus a => print_re 2 a ++ [TPlus]
    | ROpt a => print_re 2 a ++ [TQuestion]
    | RCat a b => print_re 1 a ++ print_re 2 b
    | ROr a b => print_re 0 a ++ TOr :: print_re 1 b
    | RAny => [TUnderscore]
    | REoi => [TDollar]
    | RDiff a b => print_re 3 a ++ TPound :: print_re 4 b
    end in
  if prec r <? level then [TParen body] else body.

(* printing with redundant parentheses chosen by an arbitrary oracle on (level, subtree) *)
Fixpoint print_any (extra : nat -> regex -> bool) (level : nat) (r : regex) : list tok :=
  let body :=
    match r with
    | RBuiltin n => [TDollar; TDollar; TIdent n]
    | RVar v => [TDollar; TIdent v]
    | RChar c => [TChar c]
    | RString s => [TStr s]
    | RCharSet l => [TBracket (flat_map print_cor l)]
    | RStar a => print_any extra 2 a ++ [TStar]
    | RPlus a => print_any extra 2 a ++ [TPlus]
    | ROpt a => print_any extra 2 a ++ [TQuestion]
    | RCat a b => print_any extra 1 a ++ print_any extra 2 b
    | ROr a b => print_any extra 0 a ++ TOr :: print_any extra 1 b
    | RAny => [TUnderscore]
    | REoi => [TDollar]
    | RDiff a b => print_any extra 3 a ++ TPound :: print_any extra 4 b
    end in
  if (prec r <? level) || extra level r then [TParen body] else body.

(* `$` (end of input) directly followed by `$` or an identifier would be read as a variable or
   built-in: trees where an end-of-input is the left neighbour of another atom inside a
   concatenation need parentheses around `$` that the minimal printer does not add. The
   round-trip is stated for trees without that pattern: no REoi at the right edge of the left
   operand of a concatenation. *)
Fixpoint ends_with_eoi (r : regex) : bool :=
  match r with
  | REoi => true
  | RCat _ b => ends_with_eoi b
  | ROr _ b => ends_with_eoi b          (* a | $ printed unparenthesised ends with $ *)
  | _ => false
  end.

Fixpoint eoi_safe (r : regex) : bool :=
  match r with
  | RCat a b => negb (ends_with_eoi a) && eoi_safe a && eoi_safe b
  | RStar a | RPlus a | ROpt a => eoi_safe a
  | ROr a b | RDiff a b => eoi_safe a && eoi_safe b
  | _ => true
  end.
