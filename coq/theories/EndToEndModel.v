(* The certificates of EndToEnd.certs_ok always hold for the automata the MODEL pipeline builds
   itself (Thompson construction + NfaToDfa.nfa_to_dfa_map): compile_certs_ok, and the resulting
   certificate-free end-to-end theorem lexer_correct_model. No axioms. *)
From LexVerif Require Import Base CharClass RangeMap RangeMapProofs CharClassProofs Regex Spec
     SpecExec SpecExecProofs LexSpec Nfa ClassAlgProofs Dfa NfaToDfa NfaSem Codegen
     BacktrackProofs LookupProofs ThompsonProofs SubsetProofs ClosedChecker RulesetSem
     Driver DriverProofs SpecDef Runtime ScanIface RulesetSemProofs ScanOkProofs RuntimeProofs
     NfaToDfaProofs EndToEnd.
From Coq Require Import List NArith Bool Arith Lia.
Import ListNotations.
Open Scope bool_scope.

Section Model.
Variable benv : builtin_env.
Hypothesis BW : benv_wf benv.

(* ------------------------------------------------------------------ *)
(* 1. the certificate triple and what makes an NFA yield it            *)
(* ------------------------------------------------------------------ *)

Definition cert3 (n : nfa) (d : dfa nat) (m : state_map) : Prop :=
  dfa_closed n d m /\ 0 < length d /\ dfa_shape_ok d.

Definition ca_cert (ca : ctx_art) : Prop := cert3 (ca_nfa ca) (ca_dfa ca) (ca_map ca).
Definition ra_cert (ra : ruleset_art) : Prop := cert3 (ra_nfa ra) (ra_dfa ra) (ra_map ra).

Definition nfa_good (n : nfa) : Prop :=
  ThompsonProofs.nfa_inv n /\ nfa_trans_wf n /\ nfa_chars_max n.

Definition re_good (r : regex) : Prop :=
  leaves_wf benv r = true /\ regex_chars_ok benv r = true.

Definition crule_good (c : crule) : Prop :=
  re_good (cr_re c) /\ forall cre, cr_ctx c = Some cre -> re_good cre.

Lemma nfa_good_new : nfa_good nfa_new.
Proof.
  split; [apply nfa_inv_new|]. split; [apply nfa_trans_wf_new|apply nfa_chars_max_new].
Qed.

Lemma nfa_good_dfa : forall n dm,
  nfa_good n -> nfa_to_dfa_map n = Ok dm -> cert3 n (fst dm) (snd dm).
Proof.
  intros n [d m] (NI & TW & CM) H. cbn [fst snd].
  destruct (nfa_to_dfa_closed n d m NI TW H) as [Hc Hl].
  split; [exact Hc|]. split; [exact Hl|]. exact (nfa_to_dfa_shape n d m NI TW CM H).
Qed.

Lemma add_regex_good : forall b n re ctx v n' cre,
  nfa_good n -> expand_top b re = Ok cre -> re_good cre ->
  add_regex benv b n re ctx v = Ok n' -> nfa_good n'.
Proof.
  intros b n re ctx v n' cre (NI & TW & CM) X (L & K) H.
  split; [|split].
  - destruct (add_regex_correct benv b n re ctx v n' cre BW NI X L H) as [I' _]. exact I'.
  - exact (add_regex_trans_wf benv b n re ctx v n' cre X TW H).
  - exact (add_regex_chars_max benv b n re ctx v n' cre BW X K TW CM H).
Qed.

(* ------------------------------------------------------------------ *)
(* 2. right contexts, single rules, rule sets                          *)
(* ------------------------------------------------------------------ *)

Lemma new_right_ctx_good : forall b ctxs re cre x,
  Forall ca_cert ctxs -> expand_top b re = Ok cre -> re_good cre ->
  new_right_ctx benv b ctxs re = Ok x -> Forall ca_cert (fst x).
Proof.
  intros b ctxs re cre x F X G H. unfold new_right_ctx in H.
  apply bind_ok in H. destruct H as (n & Hn & H).
  apply bind_ok in H. destruct H as (dm & Hdm & H). injection H as <-. cbn [fst].
  apply Forall_app. split; [exact F|]. constructor; [|constructor].
  unfold ca_cert. cbn [ca_nfa ca_dfa ca_map].
  apply nfa_good_dfa; [|exact Hdm].
  exact (add_regex_good b nfa_new re None 0 n cre nfa_good_new X G Hn).
Qed.

Lemma single_rule_good : forall r b n0 ctxs0 x c,
  nfa_good n0 -> Forall ca_cert ctxs0 ->
  compile_single_rule benv n0 r b ctxs0 = Ok x ->
  close_rule b r = Ok c -> crule_good c ->
  nfa_good (fst x) /\ Forall ca_cert (snd x).
Proof.
  intros r b n0 ctxs0 x c N0 F Cx Cc (Gr & Gc).
  unfold compile_single_rule in Cx.
  apply bind_ok in Cx. destruct Cx as (cc & Hcc & Cx).
  apply bind_ok in Cx. destruct Cx as (n1 & Hn1 & Cx). injection Cx as <-. cbn [fst snd].
  unfold close_rule in Cc.
  apply bind_ok in Cc. destruct Cc as (re' & Hre & Cc).
  apply bind_ok in Cc. destruct Cc as (cx & Hcx & Cc). injection Cc as <-.
  cbn [cr_re cr_ctx] in Gr, Gc.
  split; [exact (add_regex_good b n0 (ru_re r) (snd cc) (ru_act r) n1 re' N0 Hre Gr Hn1)|].
  destruct (ru_ctx r) as [c0|].
  - apply bind_ok in Hcc. destruct Hcc as (y & Hy & Hcc). injection Hcc as <-. cbn [fst].
    apply bind_ok in Hcx. destruct Hcx as (c' & Hc' & Hcx). injection Hcx as <-.
    exact (new_right_ctx_good b ctxs0 c0 c' y F Hc' (Gc c' eq_refl) Hy).
  - injection Hcc as <-. cbn [fst]. exact F.
Qed.

Lemma compile_rules_good : forall rules b n0 ctxs0 x crules,
  nfa_good n0 -> Forall ca_cert ctxs0 ->
  compile_rules benv rules n0 b ctxs0 = Ok x ->
  close_rules rules b = Ok crules -> Forall crule_good crules ->
  nfa_good (fst x) /\ Forall ca_cert (snd x).
Proof.
  induction rules as [|[r|v re] rest IH]; intros b n0 ctxs0 x crules N0 F C Cl G.
  - cbn in C. injection C as <-. cbn [fst snd]. split; assumption.
  - cbn [compile_rules close_rules] in C, Cl.
    apply bind_ok in C. destruct C as (x1 & Cx & C).
    apply bind_ok in Cl. destruct Cl as (c & Cc & Cl).
    apply bind_ok in Cl. destruct Cl as (cs & Ccs & Cl). injection Cl as <-.
    inversion G as [|? ? Gc Gcs]; subst.
    destruct (single_rule_good r b n0 ctxs0 x1 c N0 F Cx Cc Gc) as [N1 F1].
    exact (IH b (fst x1) (snd x1) x cs N1 F1 C Ccs Gcs).
  - cbn [compile_rules close_rules] in C, Cl.
    destruct (lookup_var v b); [discriminate|].
    exact (IH _ n0 ctxs0 x crules N0 F C Cl G).
Qed.

(* ------------------------------------------------------------------ *)
(* 3. the whole definition                                             *)
(* ------------------------------------------------------------------ *)

Record acc_good (a : dstate_acc) : Prop := {
  ag_un : nfa_good (da_unnamed a);
  ag_ctxs : Forall ca_cert (da_ctxs a);
  ag_arts : Forall ra_cert (da_arts a)
}.

Lemma acc_good_a0 : acc_good a0.
Proof. constructor; cbn; [apply nfa_good_new|constructor|constructor]. Qed.

Lemma run_good : forall d a a' un un' named,
  run benv (Ok a) d = Ok a' ->
  def_rulesets_go d (da_bindings a) un = Ok (un', named) ->
  Forall crule_good un' -> Forall (Forall crule_good) (map snd named) ->
  acc_good a -> acc_good a'.
Proof.
  induction d as [|t d IH]; intros a a' un un' named Hr Hg Wu Wn AG.
  - cbn in Hr. injection Hr as <-. exact AG.
  - rewrite run_cons in Hr.
    destruct (top_step benv a t) as [a1|tg] eqn:Est; [|rewrite run_panic in Hr; discriminate].
    destruct AG as [GU GC GA].
    destruct t as [|[r|v re]|nm rules]; cbn [top_step] in Est; cbn [def_rulesets_go] in Hg.
    + (* error type *)
      destruct (da_errty a); [discriminate|]. injection Est as <-.
      apply (IH _ a' un un' named Hr); auto. constructor; cbn; auto.
    + (* top-level rule *)
      apply bind_ok in Est. destruct Est as (x & Cx & Est). injection Est as <-.
      apply bind_ok in Hg. destruct Hg as (c & Cc & Hg).
      destruct (def_rulesets_go_ext _ _ _ _ _ Hg) as (ext & Eext).
      assert (Gc : crule_good c).
      { rewrite Forall_forall in Wu. apply Wu. rewrite Eext.
        apply in_or_app. left. apply in_or_app. right. left. reflexivity. }
      destruct (single_rule_good r (da_bindings a) (da_unnamed a) (da_ctxs a) x c GU GC Cx Cc Gc)
        as [N1 F1].
      apply (IH _ a' (un ++ [c]) un' named Hr); auto.
      constructor; cbn [da_ctxs da_unnamed da_arts]; assumption.
    + (* top-level binding *)
      destruct (lookup_var v (da_bindings a)); [discriminate|]. injection Est as <-.
      apply (IH _ a' un un' named Hr); auto. constructor; cbn; auto.
    + (* rule set *)
      apply bind_ok in Hg. destruct Hg as (cs & Ccs & Hg).
      apply bind_ok in Hg. destruct Hg as ([u1 nm1] & Hg1 & Hg). injection Hg as <- <-.
      cbn [fst snd map] in *.
      pose proof (Forall_inv Wn) as Gcs. pose proof (Forall_inv_tail Wn) as Wn'.
      assert (Core : forall x dm,
                compile_rules benv rules nfa_new (da_bindings a) (da_ctxs a) = Ok x ->
                nfa_to_dfa_map (fst x) = Ok dm ->
                forall a1', da_bindings a1' = da_bindings a -> da_unnamed a1' = da_unnamed a ->
                  da_ctxs a1' = snd x ->
                  da_arts a1' = da_arts a ++ [mkRA (Some nm) (fst x) (fst dm) (snd dm)] ->
                  run benv (Ok a1') d = Ok a' -> acc_good a').
      { intros x dm Cx Hdm a1' Eb Eu Ec Ea Hr'.
        destruct (compile_rules_good rules (da_bindings a) nfa_new (da_ctxs a) x cs
                    nfa_good_new GC Cx Ccs Gcs) as [N1 F1].
        apply (IH a1' a' un u1 nm1 Hr'); auto.
        - rewrite Eb. exact Hg1.
        - constructor.
          + rewrite Eu. exact GU.
          + rewrite Ec. exact F1.
          + rewrite Ea. apply Forall_app. split; [exact GA|]. constructor; [|constructor].
            unfold ra_cert. cbn [ra_nfa ra_dfa ra_map]. apply nfa_good_dfa; assumption. }
      destruct (name_eqb nm name_Init).
      * apply bind_ok in Est. destruct Est as (x & Cx & Est).
        apply bind_ok in Est. destruct Est as (dm & Hdm & Est).
        destruct (assoc_name nm (da_entries a)); [discriminate|]. injection Est as <-.
        refine (Core x dm Cx Hdm _ _ _ _ _ Hr); reflexivity.
      * destruct (da_init a) as [init|]; [|discriminate].
        apply bind_ok in Est. destruct Est as (x & Cx & Est).
        apply bind_ok in Est. destruct Est as (dm & Hdm & Est).
        destruct (add_dfa init (fst dm)) as [joined idx].
        destruct (assoc_name nm (da_entries a)); [discriminate|]. injection Est as <-.
        refine (Core x dm Cx Hdm _ _ _ _ _ Hr); reflexivity.
Qed.

(* what compile returns, with the DFA of the unnamed rule set made explicit *)
Lemma compile_arts_model : forall mg d c, compile benv mg d = Ok c ->
  exists a, run benv (Ok a0) d = Ok a /\ mixed d = false /\ c_ctxs c = da_ctxs a /\
    (c_rulesets c = da_arts a \/
     exists dm, nfa_to_dfa_map (da_unnamed a) = Ok dm /\
                c_rulesets c = [mkRA None (da_unnamed a) (fst dm) (snd dm)]).
Proof.
  intros mg d c H. unfold compile in H. destruct (mixed d) eqn:Em; [discriminate|].
  match type of H with (bind ?F _) = _ =>
    change F with (run benv (Ok a0) d) in H end.
  destruct (run benv (Ok a0) d) as [a|tg] eqn:Er; cbn [bind] in H; [|discriminate].
  exists a. split; [reflexivity|]. split; [reflexivity|].
  destruct (da_init a) as [init|] eqn:Ei.
  - cbn [bind fst snd] in H.
    destruct (update_backtracks init) as [bt|tg]; cbn [bind] in H; [|discriminate].
    destruct (simplify bt (da_entries a)) as [s|tg]; cbn [bind] in H; [|discriminate].
    unfold make_program in H. cbn [bind] in H. injection H as <-.
    cbn [c_rulesets c_ctxs]. split; [reflexivity|]. left. reflexivity.
  - destruct (nfa_to_dfa_map (da_unnamed a)) as [dm|tg] eqn:Edm; cbn [bind fst snd] in H;
      [|discriminate].
    destruct (update_backtracks (fst dm)) as [bt|tg]; cbn [bind] in H; [|discriminate].
    destruct (simplify bt (da_entries a)) as [s|tg]; cbn [bind] in H; [|discriminate].
    unfold make_program in H. cbn [bind] in H. injection H as <-.
    cbn [c_rulesets c_ctxs]. split; [reflexivity|]. right. exists dm. split; reflexivity.
Qed.

(* the hypotheses on the definition give crule_good for every closed rule *)
Lemma rss_good : forall d rss,
  def_rulesets d = Ok rss -> wf_def benv d = true -> def_chars_ok benv rss ->
  Forall (Forall crule_good) rss.
Proof.
  intros d rss Hd Hw Hch.
  apply Forall_forall. intros rs Hrs. apply Forall_forall. intros r Hr.
  apply In_nth with (d := []) in Hrs. destruct Hrs as (k & Hk & <-).
  destruct (wf_rules_parts benv d rss Hd Hw k r Hr) as (L & _ & _ & Wc).
  destruct (Hch k r Hr) as (K & Kc).
  split.
  - split; [|exact K]. unfold regex_chars_ok in K. apply andb_true_iff in K.
    destruct K as [_ K]. apply leaves_ok_wf; assumption.
  - intros cre E. specialize (Wc cre E). specialize (Kc cre E).
    split; [|exact Kc]. unfold wf_regex in Wc. apply andb_true_iff in Wc. destruct Wc as [Wc _].
    unfold regex_chars_ok in Kc. apply andb_true_iff in Kc. destruct Kc as [_ Kc].
    apply leaves_ok_wf; assumption.
Qed.

Theorem compile_certs_ok_sec : forall mg d c rss,
  compile benv mg d = Ok c ->
  def_rulesets d = Ok rss ->
  wf_def benv d = true ->
  def_chars_ok benv rss ->
  certs_ok c.
Proof.
  intros mg d c rss Hc Hd Hw Hch.
  pose proof (rss_good d rss Hd Hw Hch) as Wf.
  destruct (compile_arts_model mg d c Hc) as (a & Hr & Hm & Ectx & Harts).
  unfold def_rulesets in Hd. apply bind_ok in Hd. destruct Hd as ([un' named] & Hg & Hd).
  cbn [fst snd] in Hd.
  assert (Wun : Forall crule_good un' /\ Forall (Forall crule_good) (map snd named)).
  { unfold mixed in Hm. apply andb_false_iff in Hm. destruct Hm as [Hm|Hm].
    - change (existsb _ d) with (existsb is_toprule d) in Hm.
      pose proof (go_no_rules d [] [] un' named Hm Hg) as ->. split; [constructor|].
      destruct named as [|p named]; [constructor|]. injection Hd as <-. exact Wf.
    - change (existsb _ d) with (existsb is_ruleset d) in Hm.
      pose proof (go_no_sets d [] [] un' named Hm Hg) as ->. injection Hd as <-.
      split; [|constructor]. inversion Wf; assumption. }
  destruct Wun as [Wu Wn].
  pose proof (run_good d a0 a [] un' named Hr Hg Wu Wn acc_good_a0) as [GU GC GA].
  split.
  - intros ra Hin. destruct Harts as [E|(dm & Hdm & E)]; rewrite E in Hin.
    + rewrite Forall_forall in GA. exact (GA ra Hin).
    + destruct Hin as [<-|[]]. cbn [ra_nfa ra_dfa ra_map].
      exact (nfa_good_dfa (da_unnamed a) dm GU Hdm).
  - intros ca Hin. rewrite Ectx in Hin. rewrite Forall_forall in GC. exact (GC ca Hin).
Qed.

End Model.

(* ---------- the statements, fully quantified ---------- *)

Theorem compile_certs_ok : forall benv mg d c rss,
  benv_wf benv ->
  compile benv mg d = Ok c ->
  def_rulesets d = Ok rss ->
  wf_def benv d = true ->
  def_chars_ok benv rss ->
  certs_ok c.
Proof.
  intros benv mg d c rss BW. exact (compile_certs_ok_sec benv BW mg d c rss).
Qed.

Theorem lexer_correct_model :
  forall benv mg (width : N -> N) tab_width (T E U : Type) (d : def) c rss (actions : nat -> action T E U),
  benv_wf benv ->
  compile benv mg d = Ok c ->
  def_rulesets d = Ok rss ->
  wf_def benv d = true ->
  def_chars_ok benv rss ->
  acts_distinct d ->
  (forall a v u n, a_switch (actions a v u) = Some n -> n < length (p_switch (c_program c))) ->
  forall whole u with_str,
    Forall (fun ch => is_scalar ch = true) whole ->
    (with_str = false -> RuntimeProofs.text_blind T E U actions) ->
  forall n fuel, enough_fuel U fuel (lexer_new U whole u with_str) ->
  exists r, spec_run benv width tab_width T E U rss actions n (s_init U whole u) r /\
            run_lexer width tab_width T E U (c_program c) actions n fuel
              (lexer_new U whole u with_str) = map (outcome_of T E) r.
Proof.
  intros benv mg width tab_width T E U d c rss actions BW Hc Hd Hw Hch.
  exact (lexer_correct benv mg width tab_width T E U d c rss actions BW Hc Hd Hw Hch
           (compile_certs_ok benv mg d c rss BW Hc Hd Hw Hch)).
Qed.

(* the same for the no-panic statement *)
Theorem lexer_no_panic_model :
  forall benv mg (width : N -> N) tab_width (T E U : Type) (d : def) c rss (actions : nat -> action T E U),
  benv_wf benv ->
  compile benv mg d = Ok c ->
  def_rulesets d = Ok rss ->
  wf_def benv d = true ->
  def_chars_ok benv rss ->
  acts_distinct d ->
  (forall a v u n, a_switch (actions a v u) = Some n -> n < length (p_switch (c_program c))) ->
  forall whole u with_str,
    Forall (fun ch => is_scalar ch = true) whole ->
    (with_str = false -> RuntimeProofs.text_blind T E U actions) ->
  forall n fuel, enough_fuel U fuel (lexer_new U whole u with_str) ->
  forall o, In o (run_lexer width tab_width T E U (c_program c) actions n fuel
                    (lexer_new U whole u with_str)) ->
  forall t, o <> OPanic T E t.
Proof.
  intros benv mg width tab_width T E U d c rss actions BW Hc Hd Hw Hch.
  exact (lexer_no_panic benv mg width tab_width T E U d c rss actions BW Hc Hd Hw Hch
           (compile_certs_ok benv mg d c rss BW Hc Hd Hw Hch)).
Qed.

Print Assumptions compile_certs_ok.
Print Assumptions lexer_correct_model.
Print Assumptions lexer_no_panic_model.
