(* Termination of the model of the subset construction (NfaToDfa.nfa_to_dfa_map): the work-list
   loop always reaches a final, non-panicking configuration; the DFA has at most 2^|NFA| states;
   the constant fuel of the model is a modelling artefact.  No axioms. *)
(* the stdlib imports come first: Coq.Arith.Wf_nat has a deprecated notation [iter_nat] that must
   not shadow BacktrackProofs.iter_nat *)
From Coq Require Import List NArith Bool Arith Lia Sorted Wf_nat.
From LexVerif Require Import Base CharClass RangeMap RangeMapProofs Regex Nfa Dfa NfaToDfa NfaSem
     ThompsonProofs SubsetProofs BacktrackProofs NfaToDfaProofs.
Import ListNotations.

(* ------------------------------------------------------------------ *)
(* 1. counting: duplicate-free lists of strictly increasing lists over an interval of N naturals *)

Lemma filter_split_length : forall A (f : A -> bool) l,
  length l = length (filter f l) + length (filter (fun x => negb (f x)) l).
Proof.
  intros A f l. induction l as [|a l IH]; cbn [filter length]; [reflexivity|].
  destruct (f a); cbn [negb length]; lia.
Qed.

Lemma NoDup_map_inj_in : forall A B (f : A -> B) l,
  (forall x y, In x l -> In y l -> f x = f y -> x = y) -> NoDup l -> NoDup (map f l).
Proof.
  intros A B f l. induction l as [|a l IH]; intros Inj N; cbn [map]; [constructor|].
  inversion N as [|? ? N1 N2]; subst. constructor.
  - intros X. apply in_map_iff in X. destruct X as (y & E & Iy).
    assert (Eq : y = a) by (apply Inj; [right; exact Iy|left; reflexivity|exact E]).
    subst y. apply N1. exact Iy.
  - apply IH; [|exact N2]. intros x y Ix Iy. apply Inj; right; assumption.
Qed.

Definition bounded (lo N : nat) (L : list nat) : Prop :=
  ssorted L /\ forall x, In x L -> lo <= x < lo + N.

Definition starts (lo : nat) (L : list nat) : bool :=
  match L with x :: _ => x =? lo | [] => false end.

Lemma bounded_tail : forall lo N L,
  bounded lo (S N) L -> starts lo L = true -> bounded (S lo) N (tl L).
Proof.
  intros lo N [|x L] [Hs Hb] E; cbn [starts] in E; [discriminate|].
  apply Nat.eqb_eq in E. subst x. cbn [tl]. unfold ssorted in Hs.
  inversion Hs as [|? ? S1 S2]; subst. rewrite Forall_forall in S2. split; [exact S1|].
  intros y Iy. specialize (S2 y Iy). specialize (Hb y (or_intror Iy)). lia.
Qed.

Lemma bounded_nostart : forall lo N L,
  bounded lo (S N) L -> starts lo L = false -> bounded (S lo) N L.
Proof.
  intros lo N [|x L] [Hs Hb] E; cbn [starts] in E.
  - split; [exact Hs|]. intros y [].
  - apply Nat.eqb_neq in E. split; [exact Hs|]. unfold ssorted in Hs.
    inversion Hs as [|? ? S1 S2]; subst. rewrite Forall_forall in S2.
    pose proof (Hb x (or_introl eq_refl)) as Bx.
    intros y [<-|Iy]; [lia|]. specialize (S2 y Iy). specialize (Hb y (or_intror Iy)). lia.
Qed.

Lemma starts_tl_inj : forall lo (x y : list nat),
  starts lo x = true -> starts lo y = true -> tl x = tl y -> x = y.
Proof.
  intros lo [|a x] [|b y] Hx Hy E; cbn [starts] in *; try discriminate.
  apply Nat.eqb_eq in Hx, Hy. cbn [tl] in E. subst. reflexivity.
Qed.

Lemma sorted_lists_count : forall N lo (ls : list (list nat)),
  NoDup ls -> (forall L, In L ls -> bounded lo N L) -> length ls <= 2 ^ N.
Proof.
  induction N as [|N IH]; intros lo ls ND B.
  - assert (E : forall L, In L ls -> L = []).
    { intros [|x L] I; [reflexivity|]. destruct (B _ I) as [_ Hb].
      specialize (Hb x (or_introl eq_refl)). lia. }
    destruct ls as [|a [|b t]]; cbn [length Nat.pow]; [lia|lia|]. exfalso.
    inversion ND as [|? ? N1 _]; subst. apply N1.
    rewrite (E a (or_introl eq_refl)), (E b (or_intror (or_introl eq_refl))). left. reflexivity.
  - rewrite (filter_split_length _ (starts lo) ls).
    assert (HA : length (filter (starts lo) ls) <= 2 ^ N).
    { rewrite <- (map_length (@tl nat)). apply (IH (S lo)).
      - apply NoDup_map_inj_in; [|apply NoDup_filter; exact ND].
        intros x y Ix Iy. apply filter_In in Ix, Iy. apply (starts_tl_inj lo); tauto.
      - intros L I. apply in_map_iff in I. destruct I as (L0 & <- & I0).
        apply filter_In in I0. destruct I0 as [I0 E0]. apply bounded_tail; auto. }
    assert (HB : length (filter (fun x => negb (starts lo x)) ls) <= 2 ^ N).
    { apply (IH (S lo)); [apply NoDup_filter; exact ND|].
      intros L I. apply filter_In in I. destruct I as [I0 E0]. apply negb_true_iff in E0.
      apply bounded_nostart; auto. }
    cbn [Nat.pow]. lia.
Qed.

(* ------------------------------------------------------------------ *)
(* 2. small generic facts *)

Lemma bind_ok' : forall A B (x : result A) (f : A -> result B) y,
  bind x f = Ok y -> exists a, x = Ok a /\ f a = Ok y.
Proof. intros A B [a|t] f y H; cbn [bind] in H; [eauto|discriminate]. Qed.

Lemma sortedN_nodup : forall l : list N, StronglySorted N.lt l -> NoDup l.
Proof.
  induction 1 as [|a l Hl IH Ha]; constructor; [|exact IH].
  intros X. rewrite Forall_forall in Ha. specialize (Ha a X). lia.
Qed.

Lemma set_add_nodup : forall x s, ~ In x s -> NoDup s -> NoDup (set_add x s).
Proof.
  intros x s. induction s as [|a t IH]; intros Nx ND; cbn [set_add].
  - constructor; [intros []|constructor].
  - destruct (x <? a); [constructor; assumption|].
    destruct (Nat.eqb_spec x a) as [E|E]; [exact ND|].
    inversion ND as [|? ? N1 N2]; subst. constructor.
    + intros X. apply set_add_In in X. destruct X as [X|X]; [congruence|auto].
    + apply IH; [|exact N2]. intros X. apply Nx. right. exact X.
Qed.

Lemma iter_nat_mono : forall St Res k k' (f : St -> St + Res) s r,
  iter_nat k f s = inr r -> k <= k' -> iter_nat k' f s = inr r.
Proof.
  intros St Res k k' f s r H L. replace k' with (k + (k' - k)) by lia.
  rewrite iter_nat_add, H. reflexivity.
Qed.

(* ------------------------------------------------------------------ *)
(* 3. the keys of the state map are canonical subsets of the NFA states *)

Section Term.
Variable n : nfa.
Hypothesis NI : nfa_inv n.
Hypothesis TW : nfa_trans_wf n.
Variable init : list nat.
Hypothesis Hinit : closure n [0] = Ok init.

Definition canon (L : list nat) : Prop := ssorted L /\ forall x, In x L -> x < length n.
Definition keys_ok (m : state_map) : Prop := forall L i, In (L, i) m -> canon L.

Lemma edge_lt : forall s x t, ThompsonProofs.edge n s x t -> t < length n.
Proof. destruct NI as (_ & _ & _ & Tg & _). intros s x t E. apply (Tg s x t E). Qed.

Lemma eps_path_lt : forall s w t, npath n s w t -> w = [] -> s < length n -> t < length n.
Proof.
  intros s w t P. induction P as [s|s t u w I P IH|s t u x w I P IH]; intros E Z.
  - exact Z.
  - apply IH; [exact E|]. apply (edge_lt s None t). exact I.
  - discriminate.
Qed.

Lemma closure_canon : forall T C,
  closure n T = Ok C -> (forall x, In x T -> x < length n) -> canon C.
Proof.
  intros T C H B. apply closure_spec in H. destruct H as (H & Hs & _). split; [exact Hs|].
  intros x I. apply H in I. destruct I as (s & Is & P).
  apply (eps_path_lt s [] x P eq_refl). apply B. exact Is.
Qed.

Lemma step_lt : forall S y x, In x (set_step n S y) -> x < length n.
Proof.
  intros S y x I. apply set_step_in in I. destruct I as (s & _ & I).
  apply (edge_lt s (Some y) x). exact I.
Qed.

Lemma init_canon : canon init.
Proof.
  apply (closure_canon [0] init Hinit). intros x [<-|[]]. destruct NI as (L & _). exact L.
Qed.

Lemma keys_ok_alloc : forall d m clo d' m' t,
  keys_ok m -> canon clo -> dfa_state_of d m clo = (d', m', t) -> keys_ok m'.
Proof.
  intros d m clo d' m' t K C H. unfold dfa_state_of in H.
  destruct (sm_find m clo) as [v|]; [injection H as <- <- <-; exact K|].
  unfold dfa_new_state in H. injection H as <- <- <-.
  intros L i I. apply in_app_or in I. destruct I as [I|[I|[]]]; [apply (K L i I)|].
  injection I as <- <-. exact C.
Qed.

(* ------------------------------------------------------------------ *)
(* 4. processing one DFA state never panics *)

Section Proc.
Variable S : list nat.
Variable cur : nat.
Variable done' : list nat.

Lemma char_loop_total : forall l pre d m work,
  NoDup (map fst (pre ++ l)) ->
  (forall c tg, In (c, tg) l -> ~ In 0 (char_targets n S c tg)) ->
  (forall c tg x, In (c, tg) l -> In x (char_targets n S c tg) -> x < length n) ->
  mid n init cur done' d m work -> chars_rel n S m pre (d_chars (dget d cur)) -> keys_ok m ->
  exists d2 m2 work2,
    fold_left (char_step n S cur) l (Ok (d, m, work)) = Ok (d2, m2, work2) /\ keys_ok m2.
Proof.
  induction l as [|[c tg] l IH]; intros pre d m work ND Z B M R K.
  - exists d, m, work. split; [reflexivity|exact K].
  - destruct (closure_ok n NI (char_targets n S c tg)) as (clo & EC).
    destruct (dfa_state_of d m clo) as [[d' m'] t] eqn:EA.
    assert (Zc : ~ In 0 clo).
    { eapply (closure_nz n NI); [exact EC|]. apply Z. left. reflexivity. }
    assert (Cc : canon clo).
    { apply (closure_canon _ _ EC). intros x. apply (B c tg). left. reflexivity. }
    destruct (mid_alloc n init Hinit cur done' _ _ _ _ _ _ _ M Zc EA)
      as (M' & It & Lt & Zt & Inc & Ld & Same).
    pose proof M as (_ & Lc & _).
    assert (En : assoc_N c (d_chars (dget d' cur)) = None).
    { rewrite (Same cur Lc). pose proof (R c) as Rc.
      destruct (assoc_N c (d_chars (dget d cur))) as [t0|]; [|reflexivity].
      exfalso. destruct Rc as (tg0 & _ & I0 & _).
      rewrite map_app in ND. cbn [map fst] in ND. apply NoDup_remove_2 in ND. apply ND.
      apply in_or_app. left. apply in_map_iff. exists (c, tg0). auto. }
    destruct (dfa_add_char_transition d' cur c t) as [d''|tg'] eqn:ET.
    2:{ unfold dfa_add_char_transition in ET. rewrite En in ET. discriminate. }
    assert (E1 : char_step n S cur (Ok (d, m, work)) (c, tg) = Ok (d'', m', clo :: work)).
    { unfold char_step. cbn [bind fst snd]. rewrite EC. cbn [bind]. rewrite EA, ET. reflexivity. }
    cbn [fold_left]. rewrite E1.
    destruct (char_loop n NI init Hinit S cur done' [(c, tg)] pre d m work d'' m' (clo :: work))
      as (M2 & _ & R2 & _).
    { cbn [fold_left]. exact E1. }
    { intros c0 tg0 [E|[]]. injection E as <- <-. apply Z. left. reflexivity. }
    { exact M. }
    { exact R. }
    apply (IH (pre ++ [(c, tg)]) d'' m' (clo :: work)).
    + rewrite <- app_assoc. exact ND.
    + intros c0 tg0 I. apply Z. right. exact I.
    + intros c0 tg0 x I. apply B. right. exact I.
    + exact M2.
    + exact R2.
    + eapply keys_ok_alloc; [exact K|exact Cc|exact EA].
Qed.

Lemma range_loop_total : forall l d m work out,
  (forall r x, In r l -> In x (set_union (r_val r) (collect_any n S)) -> x < length n) ->
  keys_ok m ->
  exists d3 m3 work3 out3,
    fold_left (range_step n S) l (Ok (d, m, work, out)) = Ok (d3, m3, work3, out3) /\ keys_ok m3.
Proof.
  induction l as [|r l IH]; intros d m work out B K.
  - exists d, m, work, out. split; [reflexivity|exact K].
  - destruct (closure_ok n NI (set_union (r_val r) (collect_any n S))) as (clo & EC).
    destruct (dfa_state_of d m clo) as [[d' m'] t] eqn:EA.
    assert (E1 : range_step n S (Ok (d, m, work, out)) r =
                 Ok (d', m', clo :: work, out ++ [mkRange (r_lo r) (r_hi r) t])).
    { unfold range_step. cbn [bind]. rewrite EC. cbn [bind]. rewrite EA. reflexivity. }
    cbn [fold_left]. rewrite E1. apply IH.
    + intros r0 x I. apply B. right. exact I.
    + eapply keys_ok_alloc; [exact K| |exact EA].
      apply (closure_canon _ _ EC). intros x. apply (B r). left. reflexivity.
Qed.

Lemma any_phase_total : forall clo d m work,
  mid n init cur done' d m work -> ~ In 0 clo -> canon clo -> keys_ok m ->
  d_any (dget d cur) = None ->
  exists d5 m5 work5,
    match clo with
    | [] => Ok (d, m, work)
    | _ => let '(d', m', t) := dfa_state_of d m clo in
           do d'' <- dfa_set_any d' cur t; Ok (d'', m', clo :: work)
    end = Ok (d5, m5, work5) /\ keys_ok m5.
Proof.
  intros clo d m work M Z C K E. destruct clo as [|a ca].
  - exists d, m, work. split; [reflexivity|exact K].
  - destruct (dfa_state_of d m (a :: ca)) as [[d' m'] t] eqn:EA.
    destruct (mid_alloc n init Hinit cur done' _ _ _ _ _ _ _ M Z EA) as (_ & _ & _ & _ & _ & _ & Same).
    pose proof M as (_ & Lc & _).
    unfold dfa_set_any. rewrite (Same cur Lc), E. cbn [bind].
    eexists _, _, _. split; [reflexivity|]. eapply keys_ok_alloc; [exact K|exact C|exact EA].
Qed.

Lemma eoi_phase_total : forall clo d m work,
  mid n init cur done' d m work -> ~ In 0 clo -> canon clo -> keys_ok m ->
  d_eoi (dget d cur) = None ->
  exists d5 m5 work5,
    match clo with
    | [] => Ok (d, m, work)
    | _ => let '(d', m', t) := dfa_state_of d m clo in
           do d'' <- dfa_set_eoi d' cur t; Ok (d'', m', clo :: work)
    end = Ok (d5, m5, work5) /\ keys_ok m5.
Proof.
  intros clo d m work M Z C K E. destruct clo as [|a ca].
  - exists d, m, work. split; [reflexivity|exact K].
  - destruct (dfa_state_of d m (a :: ca)) as [[d' m'] t] eqn:EA.
    destruct (mid_alloc n init Hinit cur done' _ _ _ _ _ _ _ M Z EA) as (_ & _ & _ & _ & _ & _ & Same).
    pose proof M as (_ & Lc & _).
    unfold dfa_set_eoi. rewrite (Same cur Lc), E. cbn [bind].
    eexists _, _, _. split; [reflexivity|]. eapply keys_ok_alloc; [exact K|exact C|exact EA].
Qed.

Lemma process_body_total : forall d0 m0 work0,
  mid n init cur done' d0 m0 work0 -> In (S, cur) m0 -> fresh (dget d0 cur) -> keys_ok m0 ->
  exists w', process_body n S cur done' d0 m0 work0 = Ok w' /\
             keys_ok (w_map w') /\ w_done w' = done'.
Proof.
  intros d0 m0 work0 M0 IS (Fc & Fr & Fa & Fe & Facc) K0.
  unfold process_body.
  pose proof M0 as (_ & Lc0 & _).
  pose proof (make_acc_edges n S d0 cur Lc0) as ME. cbn zeta in ME.
  set (d1 := fold_left _ S d0) in *.
  destruct ME as (AE1 & G1 & G2 & G3 & G4 & G5).
  rewrite Fc in G1. rewrite Fr in G2. rewrite Fa in G3. rewrite Fe in G4.
  assert (M1 : mid n init cur done' d1 m0 work0).
  { eapply mid_edges; [exact M0|exact AE1|]. intros j []. }
  (* chars *)
  assert (Zch : forall c tg, In (c, tg) (collect_chars n S) -> ~ In 0 (char_targets n S c tg)).
  { intros c tg I X. apply (char_targets_step n NI TW S c tg I) in X. exact (step_nz n NI _ _ X). }
  assert (Rch : chars_rel n S m0 [] (d_chars (dget d1 cur))).
  { rewrite G1. intros c. cbn. intros tg []. }
  destruct (char_loop_total (collect_chars n S) [] d1 m0 work0) as (d2 & m2 & work2 & H1 & K2).
  { cbn [app]. apply sortedN_nodup. apply (collect_chars_sorted n S). }
  { exact Zch. }
  { intros c tg x I X. apply (char_targets_step n NI TW S c tg I) in X. exact (step_lt _ _ _ X). }
  { exact M1. }
  { exact Rch. }
  { exact K0. }
  rewrite H1. cbn [bind].
  destruct (char_loop n NI init Hinit S cur done' _ [] _ _ _ _ _ _ H1 Zch M1 Rch)
    as (M2 & I2 & CR & R2 & A2 & E2 & AC2).
  rewrite G2 in R2. rewrite G3 in A2. rewrite G4 in E2.
  (* ranges *)
  assert (Zr : forall r, In r (collect_ranges n S) ->
                         ~ In 0 (set_union (r_val r) (collect_any n S))).
  { intros r I X. apply set_union_In in X. destruct X as [X|X].
    - exact (step_nz n NI _ _ (ranges_val_step n NI TW S r 0 I X)).
    - exact (step_nz n NI _ _ (anys_step n NI TW S 0 X)). }
  destruct (range_loop_total (collect_ranges n S) d2 m2 work2 []) as (d3 & m3 & work3 & drs & H2 & K3).
  { intros r x I X. apply set_union_In in X. destruct X as [X|X].
    - exact (step_lt _ _ _ (ranges_val_step n NI TW S r x I X)).
    - exact (step_lt _ _ _ (anys_step n NI TW S x X)). }
  { exact K2. }
  (* ([rewrite H2] fails: the goal spells the type [rmap nat] as [list (range nat)]) *)
  match goal with |- context [bind ?x _] =>
    replace x with (Ok (d3, m3, work3, drs)) by (symmetry; exact H2) end.
  cbn [bind].
  destruct (range_loop n NI init Hinit S cur done' _ [] _ _ _ _ _ _ _ _ H2 Zr M2 (Forall2_nil _))
    as (M3 & I3 & RR & L3 & Same3).
  cbn [app] in RR.
  pose proof M2 as (_ & Lc2 & _). pose proof M3 as (X3 & Lc3 & _).
  assert (B3 : forall dr, In dr drs -> r_val dr < length d3 /\ r_val dr <> 0).
  { intros dr I. destruct (rr_in _ _ _ _ _ RR dr I) as (r & _ & (_ & _ & Zdr & clo & _ & Im)).
    split; [eapply vals_lt; [apply (ix_vals _ _ _ _ _ _ _ X3)|exact Im]|exact Zdr]. }
  assert (Er : d_ranges (dget d3 cur) = []).
  { rewrite (Same3 cur Lc2). exact R2. }
  destruct (dfa_set_range_transitions d3 cur drs) as [d4|tg4] eqn:H3.
  2:{ unfold dfa_set_range_transitions in H3. rewrite Er in H3. discriminate. }
  cbn [bind].
  destruct (set_ranges_edges _ _ _ _ H3 Lc3 (fun r I => proj1 (B3 r I)))
    as (AE4 & C4 & R4 & A4 & E4 & AC4).
  assert (M4 : mid n init cur done' d4 m3 work3).
  { eapply mid_edges; [exact M3|exact AE4|]. intros j (r & I & <-). apply B3. exact I. }
  rewrite (Same3 cur Lc2) in A4, E4. rewrite A2 in A4. rewrite E2 in E4.
  (* any *)
  destruct (closure_ok n NI (collect_any n S)) as (clo_any & HA). rewrite HA. cbn [bind].
  assert (Zany : ~ In 0 clo_any).
  { eapply (closure_nz n NI); [exact HA|]. intros X. exact (step_nz n NI _ _ (anys_step n NI TW S 0 X)). }
  assert (Cany : canon clo_any).
  { apply (closure_canon _ _ HA). intros x X. exact (step_lt _ _ _ (anys_step n NI TW S x X)). }
  destruct (any_phase_total clo_any d4 m3 work3 M4 Zany Cany K3 A4) as (d5 & m5 & work5 & H4 & K5).
  rewrite H4. cbn [bind].
  destruct (any_phase n init Hinit cur done' _ _ _ _ _ _ _ M4 Zany H4)
    as (M5 & I5 & C5 & R5 & E5 & AC5 & P5).
  rewrite E4 in E5.
  (* eoi *)
  destruct (closure_ok n NI (collect_eoi n S)) as (clo_eoi & HE). rewrite HE. cbn [bind].
  assert (Zeoi : ~ In 0 clo_eoi).
  { eapply (closure_nz n NI); [exact HE|]. intros X. apply (step_eoi_in n S) in X.
    exact (step_nz n NI _ _ X). }
  assert (Ceoi : canon clo_eoi).
  { apply (closure_canon _ _ HE). intros x X. apply (step_eoi_in n S) in X. exact (step_lt _ _ _ X). }
  destruct (eoi_phase_total clo_eoi d5 m5 work5 M5 Zeoi Ceoi K5 E5) as (d6 & m6 & work6 & H5 & K6).
  rewrite H5. cbn [bind].
  eexists. split; [reflexivity|]. cbn [w_map w_done]. split; [exact K6|reflexivity].
Qed.

End Proc.

Lemma n2d_process_total : forall S rest d m done,
  invx n init (fun _ => False) d m (S :: rest) done -> keys_ok m ->
  exists w', n2d_process n S (mkN2D d m rest done) = Ok w' /\ keys_ok (w_map w') /\
    ((w_done w' = done /\ w_work w' = rest) \/
     (exists v, ~ In v done /\ w_done w' = set_add v done)).
Proof.
  intros S rest d m done X K.
  destruct (ix_work _ _ _ _ _ _ _ X S (or_introl eq_refl)) as (v & Iv).
  pose proof (sm_find_in m S v (ix_keys _ _ _ _ _ _ _ X) Iv) as Ef.
  destruct (set_mem v done) eqn:Em.
  - unfold n2d_process. cbn [w_map w_dfa w_work w_done]. rewrite Ef, Em.
    eexists. split; [reflexivity|]. cbn [w_map w_done w_work]. split; [exact K|left; auto].
  - rewrite (n2d_process_eq n S (mkN2D d m rest done) v Ef Em).
    cbn [w_map w_dfa w_work w_done].
    assert (Nd : ~ In v done). { intros I. apply set_mem_In in I. congruence. }
    assert (Lv : v < length d). { eapply vals_lt; [apply (ix_vals _ _ _ _ _ _ _ X)|exact Iv]. }
    destruct (process_body_total S v (set_add v done) d m rest) as (w' & H & K' & D').
    + split; [eapply invx_start; eauto|]. split; [exact Lv|]. apply set_add_In. auto.
    + exact Iv.
    + apply (ix_fresh _ _ _ _ _ _ _ X v Lv Nd).
    + exact K.
    + exists w'. split; [exact H|]. split; [exact K'|]. right. exists v. split; [exact Nd|exact D'].
Qed.

(* ------------------------------------------------------------------ *)
(* 5. size bounds under the invariant *)

Lemma dfa_bound : forall d m work done,
  invx n init (fun _ => False) d m work done -> keys_ok m -> length d <= 2 ^ length n.
Proof.
  intros d m work done X K.
  rewrite <- (seq_length (length d) 0), <- (ix_vals _ _ _ _ _ _ _ X), map_length.
  rewrite <- (map_length fst).
  apply (sorted_lists_count (length n) 0); [apply (ix_keys _ _ _ _ _ _ _ X)|].
  intros L I. apply in_map_iff in I. destruct I as ((L0 & i) & E & I). cbn [fst] in E. subst L0.
  destruct (K L i I) as [Hs Hb]. split; [exact Hs|]. intros x Ix. specialize (Hb x Ix). lia.
Qed.

Lemma done_bound : forall d m work done,
  invx n init (fun _ => False) d m work done -> keys_ok m -> NoDup done ->
  length done <= 2 ^ length n.
Proof.
  intros d m work done X K ND. pose proof (dfa_bound d m work done X K) as Bd.
  assert (L : length done <= length (seq 0 (length d))).
  { apply NoDup_incl_length; [exact ND|]. intros i I. apply in_seq.
    pose proof (ix_done_lt _ _ _ _ _ _ _ X i I). lia. }
  rewrite seq_length in L. lia.
Qed.

(* ------------------------------------------------------------------ *)
(* 6. the loop terminates *)

Definition xinv (w : n2d) : Prop := NoDup (w_done w) /\ keys_ok (w_map w).

Definition halts (w : n2d) : Prop :=
  exists k d m, iter_nat k (n2d_step n) w = inr (Ok (d, m)).

Lemma halts_step : forall w w', n2d_step n w = inl w' -> halts w' -> halts w.
Proof.
  intros w w' E (k & d & m & H). exists (Datatypes.S k), d, m. cbn [iter_nat]. rewrite E. exact H.
Qed.

Lemma loop_inner : forall a,
  (forall w, inv n init w -> xinv w -> 2 ^ length n - length (w_done w) < a -> halts w) ->
  forall b w, length (w_work w) = b -> inv n init w -> xinv w ->
              2 ^ length n - length (w_done w) <= a -> halts w.
Proof.
  intros a Outer. induction b as [|b IHb]; intros w Eb I (ND & K) Ha.
  - destruct (w_work w) as [|cur rest] eqn:Ew; [|discriminate].
    exists 1, (w_dfa w), (w_map w). cbn [iter_nat]. unfold n2d_step. rewrite Ew. reflexivity.
  - destruct (w_work w) as [|cur rest] eqn:Ew; [discriminate|].
    cbn [length] in Eb. injection Eb as Eb.
    unfold inv in I. rewrite Ew in I.
    destruct (n2d_process_total cur rest (w_dfa w) (w_map w) (w_done w) I K)
      as (w' & EP & K' & Cases).
    pose proof (n2d_process_inv n NI TW init Hinit _ _ _ _ _ _ I EP) as I'.
    assert (Es : n2d_step n w = inl w'). { unfold n2d_step. rewrite Ew, EP. reflexivity. }
    apply (halts_step w w' Es).
    destruct Cases as [(Ed & Ewk)|(v & Nv & Ed)].
    + apply IHb.
      * rewrite Ewk. exact Eb.
      * exact I'.
      * split; [rewrite Ed; exact ND|exact K'].
      * rewrite Ed. exact Ha.
    + assert (ND' : NoDup (w_done w')). { rewrite Ed. apply set_add_nodup; assumption. }
      assert (Ln : length (w_done w') = Datatypes.S (length (w_done w))).
      { rewrite Ed. apply set_add_length. apply SubsetProofs.set_mem_false. exact Nv. }
      pose proof (done_bound _ _ _ _ I' K' ND') as Bd.
      apply Outer; [exact I'|split; [exact ND'|exact K']|]. lia.
Qed.

Lemma loop_term : forall a w, inv n init w -> xinv w ->
  2 ^ length n - length (w_done w) <= a -> halts w.
Proof.
  induction a as [a IHa] using lt_wf_ind. intros w I X Ha.
  apply (loop_inner a) with (b := length (w_work w)); auto.
  intros w' I' X' Hlt. apply (IHa (2 ^ length n - length (w_done w'))); [exact Hlt|exact I'|exact X'|apply le_n].
Qed.

Lemma xinv_init : xinv (mkN2D dfa_new [(init, 0)] [init] []).
Proof.
  split; cbn [w_done w_map]; [constructor|].
  intros L i [E|[]]. injection E as <- <-. exact init_canon.
Qed.

Lemma iter_keys : forall k w d m,
  inv n init w -> keys_ok (w_map w) ->
  iter_nat k (n2d_step n) w = inr (Ok (d, m)) -> keys_ok m.
Proof.
  induction k as [|k IH]; intros w d m I K H; cbn [iter_nat] in H; [discriminate|].
  destruct (n2d_step n w) as [w'|r] eqn:E.
  - unfold n2d_step in E. destruct (w_work w) as [|cur rest] eqn:Ew; [discriminate|].
    destruct (n2d_process n cur (mkN2D (w_dfa w) (w_map w) rest (w_done w))) as [w1|tg] eqn:EP;
      [|discriminate].
    injection E as <-. unfold inv in I. rewrite Ew in I.
    destruct (n2d_process_total cur rest _ _ _ I K) as (w2 & EP2 & K2 & _).
    rewrite EP in EP2. injection EP2 as <-.
    apply (IH w1 d m); [|exact K2|exact H].
    eapply (n2d_process_inv n NI TW init Hinit); [exact I|exact EP].
  - unfold n2d_step in E. destruct (w_work w) as [|cur rest] eqn:Ew.
    + injection E as <-. injection H as <- <-. exact K.
    + destruct (n2d_process n cur (mkN2D (w_dfa w) (w_map w) rest (w_done w))); [discriminate|].
      injection E as <-. discriminate.
Qed.

End Term.

(* ------------------------------------------------------------------ *)
(* 7. main theorems *)

(* 1. the loop terminates: some number of iterations reaches a final configuration, and that
      configuration is not a panic *)
Theorem subset_construction_terminates : forall n init,
  nfa_inv n -> nfa_trans_wf n -> closure n [0] = Ok init ->
  exists k d m, iter_nat k (n2d_step n) (mkN2D dfa_new [(init, 0)] [init] []) = inr (Ok (d, m)).
Proof.
  intros n init NI TW Hinit.
  apply (loop_term n NI TW init Hinit (2 ^ length n)).
  - apply inv_init.
  - apply (xinv_init n NI init Hinit).
  - lia.
Qed.

(* 2. an explicit bound on the number of DFA states: at most 2^(number of NFA states) *)
Theorem subset_construction_size : forall n d m,
  nfa_inv n -> nfa_trans_wf n -> nfa_to_dfa_map n = Ok (d, m) -> length d <= 2 ^ length n.
Proof.
  intros n d m NI TW H. unfold nfa_to_dfa_map in H.
  apply bind_ok' in H. destruct H as (init & Hinit & H).
  rewrite iter_pos_nat in H.
  destruct (iter_nat (Pos.to_nat n2d_fuel) (n2d_step n) (mkN2D dfa_new [(init, 0)] [init] []))
    as [w|r] eqn:E; [discriminate|]. subst r.
  destruct (iter_inv n NI TW init Hinit _ (mkN2D dfa_new [(init, 0)] [init] []) d m
                     (inv_init n init) E) as (done & X).
  apply (dfa_bound n init d m [] done X).
  apply (iter_keys n NI TW init Hinit _ (mkN2D dfa_new [(init, 0)] [init] []) d m (inv_init n init)
                   (proj2 (xinv_init n NI init Hinit)) E).
Qed.

(* 3. the model's constant fuel is never the reason for failure unless the automaton is
      astronomically big: if nfa_to_dfa_map reports TagOutOfFuel then the loop really needs more
      than 2^32 iterations.
      (Proof engineering: [Pos.to_nat n2d_fuel] is generalised to a variable before any step
      that unifies up to conversion; evaluating it would build 2^32 in unary.) *)
Lemma bind_Ok : forall A B (a : A) (f : A -> result B), bind (Ok a) f = f a.
Proof. reflexivity. Qed.

Theorem out_of_fuel_only_when_huge : forall n init,
  nfa_inv n -> nfa_trans_wf n -> closure n [0] = Ok init ->
  nfa_to_dfa_map n = Panic TagOutOfFuel ->
  exists k, Pos.to_nat n2d_fuel < k /\
    exists d m, iter_nat k (n2d_step n) (mkN2D dfa_new [(init, 0)] [init] []) = inr (Ok (d, m)).
Proof.
  intros n init NI TW Hinit H.
  destruct (subset_construction_terminates n init NI TW Hinit) as (k & d & m & Hk).
  exists k. split; [|exists d, m; exact Hk].
  unfold nfa_to_dfa_map in H. rewrite Hinit in H. rewrite bind_Ok in H. cbv beta in H.
  rewrite iter_pos_nat in H.
  revert H. generalize (Pos.to_nat n2d_fuel). intros F H.
  destruct (le_lt_dec k F) as [L|L]; [|exact L]. exfalso.
  rewrite (iter_nat_mono _ _ k F _ _ _ Hk L) in H. discriminate.
Qed.

(* the fuel suffices whenever the number of iterations needed is at most 2^32: nfa_to_dfa_map
   then returns exactly the result of the unbounded loop *)
Corollary fuel_is_artefact : forall n init k d m,
  closure n [0] = Ok init ->
  iter_nat k (n2d_step n) (mkN2D dfa_new [(init, 0)] [init] []) = inr (Ok (d, m)) ->
  k <= Pos.to_nat n2d_fuel -> nfa_to_dfa_map n = Ok (d, m).
Proof.
  intros n init k d m Hinit Hk.
  unfold nfa_to_dfa_map. rewrite Hinit. rewrite bind_Ok. cbv beta. rewrite iter_pos_nat.
  generalize (Pos.to_nat n2d_fuel). intros F L.
  rewrite (iter_nat_mono _ _ k F _ _ _ Hk L). reflexivity.
Qed.

Print Assumptions subset_construction_terminates.
Print Assumptions subset_construction_size.
Print Assumptions out_of_fuel_only_when_huge.
Print Assumptions fuel_is_artefact.
