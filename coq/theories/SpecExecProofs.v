(* Correctness of the executable derivative matcher of SpecExec.v against Spec.lang. *)
From LexVerif Require Import Base CharClass Regex Spec SpecExec.

(* ------------------------------------------------------------------------------------ *)
(* Denotation of dre                                                                      *)
(* ------------------------------------------------------------------------------------ *)

Inductive dlang (benv : builtin_env) : dre -> list sym -> Prop :=
| DLEps : dlang benv DEps []
| DLCls r c : cmem benv r c = true -> dlang benv (DCls r) [Chr c]
| DLEoi : dlang benv DEoi [Eoi]
| DLCat a b u v : dlang benv a u -> dlang benv b v -> dlang benv (DCat a b) (u ++ v)
| DLOrL a b u : dlang benv a u -> dlang benv (DOr a b) u
| DLOrR a b u : dlang benv b u -> dlang benv (DOr a b) u
| DLStar0 a : dlang benv (DStar a) []
| DLStarS a u v : dlang benv a u -> dlang benv (DStar a) v -> dlang benv (DStar a) (u ++ v).

(* ------------------------------------------------------------------------------------ *)
(* Soundness of the boolean equalities                                                    *)
(* ------------------------------------------------------------------------------------ *)

Lemma list_eqb_sound {A} (eqb : A -> A -> bool) :
  (forall x y, eqb x y = true -> x = y) ->
  forall a b, list_eqb eqb a b = true -> a = b.
Proof.
  intros He a; induction a as [|x a IH]; intros [|y b] H; cbn in H; try discriminate.
  - reflexivity.
  - apply andb_true_iff in H as [H1 H2]. f_equal; auto.
Qed.

Lemma name_eqb_sound : forall a b, name_eqb a b = true -> a = b.
Proof.
  induction a as [|x a IH]; intros [|y b] H; cbn in H; try discriminate.
  - reflexivity.
  - apply andb_true_iff in H as [H1 H2]. apply N.eqb_eq in H1. f_equal; auto.
Qed.

Lemma cor_eqb_sound : forall x y, cor_eqb x y = true -> x = y.
Proof.
  intros [a|a b] [c|c d] H; cbn in H; try discriminate.
  - apply N.eqb_eq in H; congruence.
  - apply andb_true_iff in H as [H1 H2]. apply N.eqb_eq in H1, H2. congruence.
Qed.

Lemma regex_eqb_sound : forall x y, regex_eqb x y = true -> x = y.
Proof.
  induction x; intros y H; destruct y; cbn in H; try discriminate;
    try (apply andb_true_iff in H as [H1 H2]); try reflexivity.
  - f_equal; apply name_eqb_sound; assumption.
  - f_equal; apply name_eqb_sound; assumption.
  - f_equal; apply N.eqb_eq; assumption.
  - f_equal; apply (list_eqb_sound N.eqb); [intros ? ?; apply N.eqb_eq | assumption].
  - f_equal; apply (list_eqb_sound cor_eqb); [apply cor_eqb_sound | assumption].
  - f_equal; auto.
  - f_equal; auto.
  - f_equal; auto.
  - f_equal; auto.
  - f_equal; auto.
  - f_equal; auto.
Qed.

Theorem dre_eqb_sound : forall a b, dre_eqb a b = true -> a = b.
Proof.
  induction a; intros y H; destruct y; cbn in H; try discriminate;
    try (apply andb_true_iff in H as [H1 H2]); try reflexivity.
  - f_equal; apply regex_eqb_sound; assumption.
  - f_equal; auto.
  - f_equal; auto.
  - f_equal; auto.
Qed.

(* ------------------------------------------------------------------------------------ *)
(* Inversion principles for dlang                                                         *)
(* ------------------------------------------------------------------------------------ *)

Section Proofs.
Variable benv : builtin_env.

Lemma dlang_empty : forall w, ~ dlang benv DEmpty w.
Proof. intros w H; inversion H. Qed.

Lemma dlang_eps : forall w, dlang benv DEps w <-> w = [].
Proof. intros w; split; intro H; [inversion H; reflexivity | subst; constructor]. Qed.

Lemma dlang_cls : forall r w, dlang benv (DCls r) w <-> exists c, w = [Chr c] /\ cmem benv r c = true.
Proof.
  intros r w; split.
  - intro H; inversion H; subst; eauto.
  - intros (c & -> & H); constructor; assumption.
Qed.

Lemma dlang_eoi : forall w, dlang benv DEoi w <-> w = [Eoi].
Proof. intros w; split; intro H; [inversion H; reflexivity | subst; constructor]. Qed.

Lemma dlang_cat : forall a b w,
  dlang benv (DCat a b) w <-> exists u v, w = u ++ v /\ dlang benv a u /\ dlang benv b v.
Proof.
  intros a b w; split.
  - intro H; inversion H; subst; eauto.
  - intros (u & v & -> & Ha & Hb); constructor; assumption.
Qed.

Lemma dlang_or : forall a b w, dlang benv (DOr a b) w <-> dlang benv a w \/ dlang benv b w.
Proof.
  intros a b w; split.
  - intro H; inversion H; subst; auto.
  - intros [H|H]; [apply DLOrL | apply DLOrR]; assumption.
Qed.

(* a non-empty word of a star starts with a non-empty word of the body *)
Lemma dlang_star_cons : forall a s w,
  dlang benv (DStar a) (s :: w) <->
  exists u v, w = u ++ v /\ dlang benv a (s :: u) /\ dlang benv (DStar a) v.
Proof.
  intros a s w; split.
  - intro H. remember (DStar a) as d eqn:Ed. remember (s :: w) as x eqn:Ex.
    revert s w Ex. induction H; intros s0 w0 Ex; try discriminate.
    inversion Ed; subst a0. clear IHdlang1.
    destruct u as [|s1 u].
    + cbn in Ex. apply IHdlang2; auto.
    + cbn in Ex. inversion Ex; subst. exists u, v. auto.
  - intros (u & v & -> & Ha & Hs).
    change (s :: u ++ v) with ((s :: u) ++ v). apply DLStarS; assumption.
Qed.

(* ------------------------------------------------------------------------------------ *)
(* Smart constructors                                                                     *)
(* ------------------------------------------------------------------------------------ *)

Lemma dlang_cat_empty_l : forall b w, ~ dlang benv (DCat DEmpty b) w.
Proof. intros b w H; inversion H; subst. eapply dlang_empty; eauto. Qed.

Lemma dlang_cat_empty_r : forall a w, ~ dlang benv (DCat a DEmpty) w.
Proof. intros b w H; inversion H; subst. eapply dlang_empty; eauto. Qed.

Lemma dlang_cat_eps_l : forall b w, dlang benv (DCat DEps b) w <-> dlang benv b w.
Proof.
  intros b w; split; intro H.
  - inversion H; subst. match goal with H : dlang _ DEps _ |- _ => inversion H; subst end.
    assumption.
  - change w with ([] ++ w). constructor; [constructor | assumption].
Qed.

Lemma dlang_cat_eps_r : forall a w, dlang benv (DCat a DEps) w <-> dlang benv a w.
Proof.
  intros a w; split; intro H.
  - inversion H; subst. match goal with H : dlang _ DEps _ |- _ => inversion H; subst end.
    rewrite app_nil_r; assumption.
  - rewrite <- (app_nil_r w). constructor; [assumption | constructor].
Qed.

Lemma dcat_correct : forall a b w, dlang benv (dcat a b) w <-> dlang benv (DCat a b) w.
Proof.
  intros a b w.
  assert (Hel : forall b, dlang benv DEmpty w <-> dlang benv (DCat DEmpty b) w).
  { intro b0; split; intro H; [destruct (dlang_empty _ H) | destruct (dlang_cat_empty_l _ _ H)]. }
  assert (Her : forall a, dlang benv DEmpty w <-> dlang benv (DCat a DEmpty) w).
  { intro a0; split; intro H; [destruct (dlang_empty _ H) | destruct (dlang_cat_empty_r _ _ H)]. }
  assert (Hpl : forall b, dlang benv b w <-> dlang benv (DCat DEps b) w).
  { intro b0; symmetry; apply dlang_cat_eps_l. }
  assert (Hpr : forall a, dlang benv a w <-> dlang benv (DCat a DEps) w).
  { intro a0; symmetry; apply dlang_cat_eps_r. }
  destruct a; destruct b;
    first [apply Hel | apply Her | apply Hpl | apply Hpr | reflexivity].
Qed.

Lemma dor_correct : forall a b w, dlang benv (dor a b) w <-> dlang benv (DOr a b) w.
Proof.
  intros a b w.
  assert (Hl : forall b, dlang benv b w <-> dlang benv (DOr DEmpty b) w).
  { intro b0; rewrite dlang_or; split; [auto | intros [H|H]; [destruct (dlang_empty _ H) | auto]]. }
  assert (Hr : forall a, dlang benv a w <-> dlang benv (DOr a DEmpty) w).
  { intro a0; rewrite dlang_or; split; [auto | intros [H|H]; [auto | destruct (dlang_empty _ H)]]. }
  assert (Hg : dlang benv (if dre_eqb a b then a else DOr a b) w <-> dlang benv (DOr a b) w).
  { destruct (dre_eqb a b) eqn:E; [|reflexivity].
    apply dre_eqb_sound in E; subst b. rewrite dlang_or; tauto. }
  destruct a; try apply Hl; destruct b; try apply Hr; exact Hg.
Qed.

(* ------------------------------------------------------------------------------------ *)
(* nullable / deriv / derivs                                                              *)
(* ------------------------------------------------------------------------------------ *)

Theorem nullable_correct : forall d, nullable d = true <-> dlang benv d [].
Proof.
  intro d; split.
  - induction d; cbn; intro H; try discriminate.
    + constructor.
    + apply andb_true_iff in H as [H1 H2]. change (@nil sym) with (@nil sym ++ []).
      constructor; auto.
    + apply orb_true_iff in H as [H|H]; [apply DLOrL | apply DLOrR]; auto.
    + constructor.
  - intro H. remember (@nil sym) as w eqn:Ew. induction H; cbn; try discriminate; auto.
    + apply app_eq_nil in Ew as [-> ->]. rewrite IHdlang1, IHdlang2; auto.
    + rewrite IHdlang; auto.
    + rewrite IHdlang; auto. apply orb_true_r.
Qed.

Theorem deriv_correct : forall d s w, dlang benv (deriv benv s d) w <-> dlang benv d (s :: w).
Proof.
  induction d; intros s w; cbn [deriv].
  - split; intro H; inversion H.
  - split; intro H; inversion H.
  - destruct s as [c|].
    + destruct (cmem benv r c) eqn:E.
      * rewrite dlang_eps, dlang_cls. split.
        -- intros ->; eauto.
        -- intros (c' & Ec & _); inversion Ec; reflexivity.
      * rewrite dlang_cls. split; [intro H; inversion H|].
        intros (c' & Ec & Hc); inversion Ec; subst; congruence.
    + rewrite dlang_cls. split; [intro H; inversion H|].
      intros (c' & Ec & _); discriminate.
  - destruct s as [c|].
    + rewrite dlang_eoi. split; [intro H; inversion H | discriminate].
    + rewrite dlang_eps, dlang_eoi. split; [intros ->; reflexivity | intro H; inversion H; reflexivity].
  - (* DCat *)
    assert (Hc : dlang benv (dcat (deriv benv s d1) d2) w <->
                 exists u v, w = u ++ v /\ dlang benv d1 (s :: u) /\ dlang benv d2 v).
    { rewrite dcat_correct, dlang_cat. split; intros (u & v & E & H1 & H2); exists u, v;
        (split; [assumption|split; [apply IHd1; assumption | assumption]]). }
    destruct (nullable d1) eqn:En.
    + rewrite dor_correct, dlang_or, Hc, IHd2, dlang_cat. split.
      * intros [(u & v & -> & H1 & H2) | H].
        -- exists (s :: u), v; auto.
        -- exists [], (s :: w). repeat split; auto. apply nullable_correct; assumption.
      * intros (u & v & E & H1 & H2). destruct u as [|s' u]; cbn in E.
        -- subst v; auto.
        -- inversion E; subst. left; eauto.
    + rewrite Hc, dlang_cat. split.
      * intros (u & v & -> & H1 & H2). exists (s :: u), v; auto.
      * intros (u & v & E & H1 & H2). destruct u as [|s' u]; cbn in E.
        -- apply nullable_correct in H1; congruence.
        -- inversion E; subst; eauto.
  - rewrite dor_correct, !dlang_or, IHd1, IHd2; reflexivity.
  - rewrite dcat_correct, dlang_cat, dlang_star_cons.
    split; intros (u & v & E & H1 & H2); exists u, v;
      (split; [assumption|split; [apply IHd; assumption | assumption]]).
Qed.

Theorem derivs_correct : forall d w, nullable (derivs benv w d) = true <-> dlang benv d w.
Proof.
  intros d w; revert d; induction w as [|s w IH]; intro d.
  - apply nullable_correct.
  - change (derivs benv (s :: w) d) with (derivs benv w (deriv benv s d)).
    rewrite IH. apply deriv_correct.
Qed.

(* ------------------------------------------------------------------------------------ *)
(* of_regex preserves the language                                                        *)
(* ------------------------------------------------------------------------------------ *)

Lemma star_transfer : forall a r,
  (forall w, dlang benv a w <-> lang benv r w) ->
  forall w, dlang benv (DStar a) w <-> lang benv (RStar r) w.
Proof.
  intros a r Hab w; split; intro H.
  - remember (DStar a) as d eqn:Ed. induction H; try discriminate.
    + constructor.
    + inversion Ed; subst a0. apply LStarS; [apply Hab; assumption | auto].
  - remember (RStar r) as d eqn:Ed. induction H; try discriminate.
    + constructor.
    + inversion Ed; subst r0. apply DLStarS; [apply Hab; assumption | auto].
Qed.

Lemma dlang_string : forall s w,
  dlang benv (fold_right (fun c acc => DCat (DCls (RChar c)) acc) DEps s) w <-> w = map Chr s.
Proof.
  induction s as [|c s IH]; intro w; cbn [fold_right map].
  - apply dlang_eps.
  - rewrite dlang_cat. split.
    + intros (u & v & -> & H1 & H2). apply dlang_cls in H1 as (c' & -> & Hc).
      cbn [cmem] in Hc. apply N.eqb_eq in Hc; subst c'. apply IH in H2; subst v. reflexivity.
    + intros ->. exists [Chr c], (map Chr s). split; [reflexivity|]. split.
      * apply dlang_cls. exists c. split; [reflexivity|]. cbn [cmem]. apply N.eqb_refl.
      * apply IH; reflexivity.
Qed.

Lemma lang_string : forall s w, lang benv (RString s) w <-> w = map Chr s.
Proof. intros s w; split; intro H; [inversion H; reflexivity | subst; constructor]. Qed.

Theorem of_regex_correct : forall r w,
  closed r = true -> (dlang benv (of_regex benv r) w <-> lang benv r w).
Proof.
  induction r; intros w Hcl; cbn [of_regex closed] in *.
  - (* RBuiltin *)
    rewrite dlang_cls. split.
    + intros (c & -> & H); constructor; exact H.
    + intro H; inversion H; subst; eauto.
  - discriminate.
  - (* RChar *)
    rewrite dlang_cls. split.
    + intros (c' & -> & H). cbn [cmem] in H. apply N.eqb_eq in H; subst. constructor.
    + intro H; inversion H; subst. exists c. split; [reflexivity|]. cbn [cmem]. apply N.eqb_refl.
  - rewrite dlang_string, lang_string; reflexivity.
  - (* RCharSet *)
    rewrite dlang_cls. split.
    + intros (c & -> & H); constructor; exact H.
    + intro H; inversion H; subst; eauto.
  - apply star_transfer. intro w'; apply IHr; assumption.
  - (* RPlus *)
    rewrite dlang_cat. split.
    + intros (u & v & -> & H1 & H2). apply LPlus.
      * apply IHr; assumption.
      * apply (star_transfer (of_regex benv r) r); [intro w'; apply IHr; assumption | assumption].
    + intro H; inversion H; subst. exists u, v. split; [reflexivity|]. split.
      * apply IHr; assumption.
      * apply (star_transfer (of_regex benv r) r); [intro w'; apply IHr; assumption | assumption].
  - (* ROpt *)
    rewrite dlang_or, dlang_eps. split.
    + intros [-> | H]; [apply LOpt0 | apply LOpt1; apply IHr; assumption].
    + intro H; inversion H; subst; [left; reflexivity | right; apply IHr; assumption].
  - (* RCat *)
    apply andb_true_iff in Hcl as [Hc1 Hc2]. rewrite dlang_cat. split.
    + intros (u & v & -> & H1 & H2). apply LCat; [apply IHr1 | apply IHr2]; assumption.
    + intro H; inversion H; subst. exists u, v. split; [reflexivity|].
      split; [apply IHr1 | apply IHr2]; assumption.
  - (* ROr *)
    apply andb_true_iff in Hcl as [Hc1 Hc2]. rewrite dlang_or. split.
    + intros [H|H]; [apply LOrL; apply IHr1 | apply LOrR; apply IHr2]; assumption.
    + intro H; inversion H; subst; [left; apply IHr1 | right; apply IHr2]; assumption.
  - (* RAny *)
    rewrite dlang_cls. split.
    + intros (c & -> & H). cbn [cmem] in H. apply N.leb_le in H. constructor; assumption.
    + intro H; inversion H; subst. exists c. split; [reflexivity|]. cbn [cmem]. apply N.leb_le; assumption.
  - (* REoi *)
    rewrite dlang_eoi. split; intro H; [subst; constructor | inversion H; reflexivity].
  - (* RDiff *)
    destruct (is_class benv r1 && is_class benv r2) eqn:E.
    + apply andb_true_iff in E as [E1 E2]. rewrite dlang_cls. split.
      * intros (c & -> & H). apply LDiff; assumption.
      * intro H; inversion H; subst; eauto.
    + split; intro H; [destruct (dlang_empty _ H)|].
      inversion H; subst.
      match goal with H1 : is_class _ r1 = true, H2 : is_class _ r2 = true |- _ =>
        rewrite H1, H2 in E end. discriminate.
Qed.

Theorem dmatch_correct : forall r w,
  closed r = true -> (dmatch benv r w = true <-> lang benv r w).
Proof.
  intros r w Hcl. unfold dmatch. rewrite derivs_correct. apply of_regex_correct; assumption.
Qed.

(* ------------------------------------------------------------------------------------ *)
(* Emptiness tests                                                                        *)
(* ------------------------------------------------------------------------------------ *)

(* the largest listed point not above c *)
Lemma points_pred : forall (l : list N) (c : N),
  exists p, In p (0%N :: l) /\ (p <= c)%N /\ forall q, In q l -> ~ (p < q /\ q <= c)%N.
Proof.
  induction l as [|q l IH]; intro c.
  - exists 0%N. split; [left; reflexivity|]. split; [lia|]. intros q [].
  - destruct (IH c) as (p & Hin & Hle & Hno).
    destruct (N.leb_spec q c) as [Hqc|Hqc].
    + destruct (N.ltb_spec p q) as [Hpq|Hpq].
      * exists q. split; [right; left; reflexivity|]. split; [assumption|].
        intros q' [<-|Hq'] [H1 H2]; [lia|]. apply (Hno q' Hq'). lia.
      * exists p. split; [destruct Hin as [<-|Hin]; [left; reflexivity | right; right; assumption]|].
        split; [assumption|]. intros q' [<-|Hq'] [H1 H2]; [lia|]. apply (Hno q' Hq'). lia.
    + exists p. split; [destruct Hin as [<-|Hin]; [left; reflexivity | right; right; assumption]|].
      split; [assumption|]. intros q' [<-|Hq'] [H1 H2]; [lia|]. apply (Hno q' Hq'). lia.
Qed.

Lemma range_const : forall a e b c : N,
  (b <= c)%N -> ~ (b < a /\ a <= c)%N -> ~ (b < e + 1 /\ e + 1 <= c)%N ->
  ((a <=? b)%N && (b <=? e)%N) = ((a <=? c)%N && (c <=? e)%N).
Proof.
  intros a e b c Hbc Ha He.
  destruct (N.leb_spec a b), (N.leb_spec b e), (N.leb_spec a c), (N.leb_spec c e);
    cbn [andb]; try reflexivity; lia.
Qed.

Lemma single_const : forall a b c : N,
  (b <= c)%N -> ~ (b < a /\ a <= c)%N -> ~ (b < a + 1 /\ a + 1 <= c)%N ->
  (b =? a)%N = (c =? a)%N.
Proof.
  intros a b c Hbc Ha He.
  destruct (N.eqb_spec b a), (N.eqb_spec c a); try reflexivity; lia.
Qed.

Lemma in_pairs_const : forall (t : pairs) (b c : N),
  (b <= c)%N ->
  (forall p, In p (breakpoints t) -> ~ (b < p /\ p <= c)%N) ->
  in_pairs t b = in_pairs t c.
Proof.
  induction t as [|[a e] t IH]; intros b c Hbc Hno; [reflexivity|].
  unfold in_pairs in *. cbn [existsb]. f_equal.
  - unfold in_pair; cbn [fst snd]. apply range_const; [assumption| |]; apply Hno; cbn; auto.
  - apply IH; [assumption|]. intros p Hp. apply Hno. cbn. auto.
Qed.

Definition cor_points (x : cor) : list N :=
  match x with CChar a => [a; (a + 1)%N] | CRange a b => [a; (b + 1)%N] end.

Lemma cor_mem_const : forall (x : cor) (b c : N),
  (b <= c)%N ->
  (forall p, In p (cor_points x) -> ~ (b < p /\ p <= c)%N) ->
  cor_mem x b = cor_mem x c.
Proof.
  intros [a|a e] b c Hbc Hno; cbn [cor_mem].
  - apply single_const; [assumption| |]; apply Hno; cbn; auto.
  - apply range_const; [assumption| |]; apply Hno; cbn; auto.
Qed.

(* membership in a class is constant between consecutive points of its syntax *)
Lemma cmem_const : forall (r : regex) (b c : N),
  (b <= c)%N ->
  (forall p, In p (class_points benv r) -> ~ (b < p /\ p <= c)%N) ->
  cmem benv r b = cmem benv r c.
Proof.
  induction r; intros lo hi Hbc Hno; cbn [cmem class_points] in *; try reflexivity.
  - (* RBuiltin *)
    destruct (lookup_builtin n benv) as [t|]; [|reflexivity].
    apply in_pairs_const; assumption.
  - (* RChar *)
    apply single_const; [assumption| |]; apply Hno; cbn; auto.
  - (* RCharSet *)
    induction l as [|x l IH]; [reflexivity|].
    cbn [existsb]. f_equal.
    + apply cor_mem_const; [assumption|]. intros p Hp. apply Hno.
      cbn [flat_map]. apply in_or_app; left. exact Hp.
    + apply IH. intros p Hp. apply Hno. cbn [flat_map]. apply in_or_app; right; exact Hp.
  - (* ROr *)
    f_equal; [apply IHr1 | apply IHr2]; try assumption;
      intros p Hp; apply Hno; apply in_or_app; auto.
  - (* RAny *)
    assert (H1 : ~ (lo < CHAR_MAX + 1 /\ CHAR_MAX + 1 <= hi)%N) by (apply Hno; cbn; auto).
    destruct (N.leb_spec lo CHAR_MAX), (N.leb_spec hi CHAR_MAX); try reflexivity; lia.
  - (* RDiff *)
    f_equal; [|f_equal]; [apply IHr1 | apply IHr2]; try assumption;
      intros p Hp; apply Hno; apply in_or_app; auto.
Qed.

Theorem class_nonempty_correct : forall r,
  class_nonempty benv r = true <-> exists c, cmem benv r c = true.
Proof.
  intro r; unfold class_nonempty; split.
  - intro H. apply existsb_exists in H as (c & _ & Hc). eauto.
  - intros (c & Hc).
    destruct (points_pred (class_points benv r) c) as (p & Hin & Hle & Hno).
    apply existsb_exists. exists p. split; [assumption|].
    rewrite (cmem_const r p c Hle Hno). assumption.
Qed.

Theorem dnonempty_correct : forall d, dnonempty benv d = true <-> exists w, dlang benv d w.
Proof.
  induction d; cbn [dnonempty].
  - split; [discriminate | intros (w & H); destruct (dlang_empty _ H)].
  - split; [intros _; exists []; constructor | reflexivity].
  - rewrite class_nonempty_correct. split.
    + intros (c & Hc). exists [Chr c]. constructor; assumption.
    + intros (w & H). apply dlang_cls in H as (c & _ & Hc). eauto.
  - split; [intros _; exists [Eoi]; constructor | reflexivity].
  - rewrite andb_true_iff, IHd1, IHd2. split.
    + intros [(u & Hu) (v & Hv)]. exists (u ++ v). constructor; assumption.
    + intros (w & H). apply dlang_cat in H as (u & v & _ & Hu & Hv). eauto.
  - rewrite orb_true_iff, IHd1, IHd2. split.
    + intros [(u & Hu) | (v & Hv)]; [exists u; apply DLOrL | exists v; apply DLOrR]; assumption.
    + intros (w & H). apply dlang_or in H as [H|H]; eauto.
  - split; [intros _; exists []; constructor | reflexivity].
Qed.

Theorem dhasword_correct : forall d,
  dhasword benv d = true <-> exists w, w <> [] /\ dlang benv d w.
Proof.
  induction d; cbn [dhasword].
  - split; [discriminate | intros (w & _ & H); destruct (dlang_empty _ H)].
  - split; [discriminate | intros (w & Hne & H)]. apply dlang_eps in H. contradiction.
  - rewrite class_nonempty_correct. split.
    + intros (c & Hc). exists [Chr c]. split; [discriminate | constructor; assumption].
    + intros (w & _ & H). apply dlang_cls in H as (c & _ & Hc). eauto.
  - split; [intros _; exists [Eoi]; split; [discriminate | constructor] | reflexivity].
  - rewrite orb_true_iff, !andb_true_iff, IHd1, IHd2, !dnonempty_correct. split.
    + intros [[(u & Hne & Hu) (v & Hv)] | [(u & Hu) (v & Hne & Hv)]];
        exists (u ++ v); (split; [|constructor; assumption]); intro E;
        apply app_eq_nil in E as [-> ->]; apply Hne; reflexivity.
    + intros (w & Hne & H). apply dlang_cat in H as (u & v & -> & Hu & Hv).
      destruct u as [|s u].
      * right. split; [eauto|]. exists v. split; [exact Hne | assumption].
      * left. split; [|eauto]. exists (s :: u). split; [discriminate | assumption].
  - rewrite orb_true_iff, IHd1, IHd2. split.
    + intros [(u & Hne & Hu) | (v & Hne & Hv)];
        [exists u; split; [assumption | apply DLOrL; assumption]
        |exists v; split; [assumption | apply DLOrR; assumption]].
    + intros (w & Hne & H). apply dlang_or in H as [H|H]; eauto.
  - rewrite IHd. split.
    + intros (u & Hne & Hu). exists (u ++ []). split.
      * rewrite app_nil_r; assumption.
      * apply DLStarS; [assumption | constructor].
    + intros (w & Hne & H). destruct w as [|s w]; [contradiction|].
      apply dlang_star_cons in H as (u & v & _ & Hu & _).
      exists (s :: u). split; [discriminate | assumption].
Qed.

End Proofs.

Print Assumptions dre_eqb_sound.
Print Assumptions nullable_correct.
Print Assumptions deriv_correct.
Print Assumptions derivs_correct.
Print Assumptions of_regex_correct.
Print Assumptions dmatch_correct.
Print Assumptions class_nonempty_correct.
Print Assumptions dnonempty_correct.
Print Assumptions dhasword_correct.
