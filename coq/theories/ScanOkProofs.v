(* The structural half of the pipeline proof: a compiled program satisfies ScanIface.scan_ok,
   assuming RulesetSem.ruleset_sem for the DFA of every rule set (and ctx_sem for the context
   DFAs).  Covers add_dfa (joining), update_backtracks (flags), simplify (index shift, accepting
   transitions), make_program (inlining, arms, switch table). *)
From Coq Require Import List Arith NArith Bool Lia.
From LexVerif Require Import Base CharClass RangeMap Regex Spec SpecExec LexSpec Nfa Dfa NfaToDfa
     NfaSem Codegen BacktrackProofs DispatchProofs LookupProofs ScanIface RulesetSem Driver
     DriverProofs SpecDef.

(* ------------------------------------------------------------------ *)
(* A. Small generic lemmas                                             *)
(* ------------------------------------------------------------------ *)

Lemma so_assoc_N_map {A B} (f : A -> B) c (l : list (N * A)) :
  assoc_N c (map (fun p => (fst p, f (snd p))) l) = option_map f (assoc_N c l).
Proof.
  induction l as [|[k v] l IH]; [reflexivity|]. cbn [map assoc_N fst snd].
  destruct (c =? k)%N; [reflexivity|exact IH].
Qed.

Lemma so_assoc_N_in {A} c (l : list (N * A)) v : assoc_N c l = Some v -> In (c, v) l.
Proof.
  induction l as [|[k w] l IH]; cbn [assoc_N]; [discriminate|].
  destruct (c =? k)%N eqn:E.
  - intros H; inversion H; subst. apply N.eqb_eq in E; subst. left; reflexivity.
  - intros H. right. apply IH; exact H.
Qed.

Lemma so_rmap_map_lookup {A B} (f : A -> B) (m : rmap A) c :
  lookup (rmap_map f m) c = option_map f (lookup m c).
Proof.
  induction m as [|r t IH]; [reflexivity|].
  cbn [rmap_map map lookup]. fold (rmap_map f t). unfold in_range at 1. cbn [r_lo r_hi r_val].
  fold (in_range r c). destruct (in_range r c); [reflexivity|exact IH].
Qed.

Lemma so_rmap_map_wf_from {A B} (f : A -> B) (m : rmap A) lb :
  wf_from lb (rmap_map f m) = wf_from lb m.
Proof.
  revert lb; induction m as [|r t IH]; intros lb; [reflexivity|].
  cbn [rmap_map map wf_from r_lo r_hi]. fold (rmap_map f t). rewrite IH. reflexivity.
Qed.

Lemma so_rmap_map_wf {A B} (f : A -> B) (m : rmap A) : wf (rmap_map f m) = wf m.
Proof. apply so_rmap_map_wf_from. Qed.

Lemma so_rmap_map_in {A B} (f : A -> B) (m : rmap A) r :
  In r (rmap_map f m) -> exists r0, In r0 m /\ r_lo r = r_lo r0 /\ r_hi r = r_hi r0 /\ r_val r = f (r_val r0).
Proof.
  unfold rmap_map. intros H. apply in_map_iff in H. destruct H as [r0 [<- H]].
  exists r0. cbn. auto.
Qed.

Lemma so_rmap_map_map {A B C} (f : A -> B) (g : B -> C) (m : rmap A) :
  rmap_map g (rmap_map f m) = rmap_map (fun x => g (f x)) m.
Proof. unfold rmap_map. rewrite map_map. reflexivity. Qed.

Lemma so_lookup_in {A} (m : rmap A) c v : lookup m c = Some v -> exists r, In r m /\ r_val r = v.
Proof.
  induction m as [|r t IH]; cbn [lookup]; [discriminate|].
  destruct (in_range r c).
  - intros H; inversion H. exists r. split; [left; reflexivity|reflexivity].
  - intros H. destruct (IH H) as [r0 [Hin Hv]]. exists r0. split; [right; exact Hin|exact Hv].
Qed.

Lemma so_option_map_map {A B C} (f : A -> B) (g : B -> C) (o : option A) :
  option_map g (option_map f o) = option_map (fun x => g (f x)) o.
Proof. destruct o; reflexivity. Qed.

Lemma so_existsb_map {A B} (f : B -> bool) (g : A -> B) l :
  existsb f (map g l) = existsb (fun x => f (g x)) l.
Proof. induction l as [|x l IH]; [reflexivity|]. cbn. rewrite IH. reflexivity. Qed.

(* ---------- runs ---------- *)

Lemma dfa_run_app d s w1 w2 :
  dfa_run d s (w1 ++ w2) =
  match dfa_run d s w1 with Some t => dfa_run d t w2 | None => None end.
Proof.
  revert s; induction w1 as [|x w1 IH]; intros s; [reflexivity|].
  cbn [app dfa_run]. destruct (dfa_next (dget d s) x); [apply IH|reflexivity].
Qed.

Lemma dfa_run_snoc d p c :
  dfa_run d 0 (map Chr (p ++ [c])) =
  match dfa_run d 0 (map Chr p) with Some i => dfa_char_next (dget d i) c | None => None end.
Proof.
  rewrite map_app, dfa_run_app. cbn [map]. destruct (dfa_run d 0 (map Chr p)); [|reflexivity].
  cbn [dfa_run dfa_next]. destruct (dfa_char_next (dget d n) c); reflexivity.
Qed.

Lemma dfa_next_successors (st : dstate nat) x j : dfa_next st x = Some j -> In j (successors st).
Proof.
  unfold successors. destruct x as [c|]; cbn [dfa_next].
  - unfold dfa_char_next. destruct (assoc_N c (d_chars st)) eqn:E1.
    + intros H; inversion H; subst. apply in_or_app. left.
      apply so_assoc_N_in in E1. apply (in_map snd) in E1. exact E1.
    + destruct (lookup (d_ranges st) c) eqn:E2.
      * intros H; inversion H; subst. apply in_or_app. right. apply in_or_app. left.
        apply so_lookup_in in E2. destruct E2 as [r [Hin Hv]]. subst.
        apply (in_map (@r_val nat)). exact Hin.
      * intros H. rewrite H. apply in_or_app. right. apply in_or_app. right.
        apply in_or_app. left. left; reflexivity.
  - intros H. rewrite H. apply in_or_app. right. apply in_or_app. right.
    apply in_or_app. right. left; reflexivity.
Qed.

Lemma d_any_successors (st : dstate nat) a : d_any st = Some a -> In a (successors st).
Proof.
  intros H. unfold successors. rewrite H. apply in_or_app. right. apply in_or_app. right.
  apply in_or_app. left. left; reflexivity.
Qed.

Lemma d_eoi_successors (st : dstate nat) a : d_eoi st = Some a -> In a (successors st).
Proof. intros H. apply (dfa_next_successors st Eoi). exact H. Qed.

(* ---------- shift_state ---------- *)

Lemma has_no_transitions_shift k st : has_no_transitions (shift_state k st) = has_no_transitions st.
Proof.
  unfold has_no_transitions, shift_state. cbn [d_chars d_ranges d_any d_eoi].
  destruct (d_chars st); [|reflexivity]. destruct (d_ranges st); [|reflexivity].
  destruct (d_any st); [reflexivity|]. destruct (d_eoi st); reflexivity.
Qed.

Lemma successors_shift k st : successors (shift_state k st) = map (fun x => x + k) (successors st).
Proof.
  unfold successors, shift_state. cbn [d_chars d_ranges d_any d_eoi].
  rewrite !map_app, !map_map. unfold rmap_map. rewrite map_map. cbn [r_val fst snd].
  f_equal. f_equal. destruct (d_any st), (d_eoi st); reflexivity.
Qed.

Lemma shift_state_0 st : shift_state 0 st = st.
Proof.
  destruct st as [i ch rg an eo ac pr bt]. unfold shift_state. cbn.
  f_equal.
  - rewrite <- (map_id ch) at 2. apply map_ext. intros [a b]. cbn. rewrite Nat.add_0_r. reflexivity.
  - unfold rmap_map. rewrite <- (map_id rg) at 2. apply map_ext. intros [a b v]. cbn.
    rewrite Nat.add_0_r. reflexivity.
  - destruct an; cbn; [rewrite Nat.add_0_r|]; reflexivity.
  - destruct eo; cbn; [rewrite Nat.add_0_r|]; reflexivity.
  - rewrite <- (map_id pr) at 2. apply map_ext. intros a. apply Nat.add_0_r.
Qed.

(* ------------------------------------------------------------------ *)
(* B. The joined automaton as a concatenation of shifted automata      *)
(* ------------------------------------------------------------------ *)

Fixpoint total (ds : list (dfa nat)) : nat :=
  match ds with [] => 0 | d :: t => length d + total t end.

Fixpoint join_from (off : nat) (ds : list (dfa nat)) : dfa nat :=
  match ds with
  | [] => []
  | d :: t => map (shift_state off) d ++ join_from (off + length d) t
  end.

(* offset of the k-th automaton *)
Definition off_of (ds : list (dfa nat)) (k : nat) : nat := total (firstn k ds).

Lemma total_app a b : total (a ++ b) = total a + total b.
Proof. induction a as [|d a IH]; [reflexivity|]. cbn. rewrite IH. lia. Qed.

Lemma join_from_length off ds : length (join_from off ds) = total ds.
Proof.
  revert off; induction ds as [|d t IH]; intros off; [reflexivity|].
  cbn. rewrite app_length, map_length, IH. reflexivity.
Qed.

Lemma join_from_snoc off ds d :
  join_from off (ds ++ [d]) = join_from off ds ++ map (shift_state (off + total ds)) d.
Proof.
  revert off; induction ds as [|d0 t IH]; intros off.
  - cbn. rewrite Nat.add_0_r, app_nil_r. reflexivity.
  - cbn [app join_from total]. rewrite IH, app_assoc.
    replace (off + length d0 + total t) with (off + (length d0 + total t)) by lia. reflexivity.
Qed.

Lemma off_of_0 ds : off_of ds 0 = 0.
Proof. reflexivity. Qed.

Lemma off_of_S d ds k : off_of (d :: ds) (S k) = length d + off_of ds k.
Proof. reflexivity. Qed.

Lemma off_of_snoc_lt ds d k : k <= length ds -> off_of (ds ++ [d]) k = off_of ds k.
Proof. intros H. unfold off_of. rewrite firstn_app. replace (k - length ds) with 0 by lia.
  cbn. rewrite app_nil_r. reflexivity. Qed.

Lemma off_of_length ds : off_of ds (length ds) = total ds.
Proof. unfold off_of. rewrite firstn_all. reflexivity. Qed.

Lemma join_get off ds k i :
  k < length ds -> i < length (nth k ds []) ->
  dget (join_from off ds) (off_of ds k + i) = shift_state (off + off_of ds k) (dget (nth k ds []) i).
Proof.
  revert off k; induction ds as [|d t IH]; intros off k Hk Hi; [cbn in Hk; lia|].
  destruct k as [|k].
  - cbn [nth] in Hi |- *. rewrite off_of_0, Nat.add_0_r. cbn [join_from plus]. unfold dget.
    rewrite app_nth1 by (rewrite map_length; exact Hi).
    rewrite (nth_indep _ dstate_empty (shift_state off dstate_empty))
      by (rewrite map_length; exact Hi).
    apply map_nth.
  - cbn [nth] in Hi |- *. rewrite off_of_S. cbn [join_from length] in *.
    unfold dget. rewrite app_nth2 by (rewrite map_length; lia). rewrite map_length.
    replace (length d + off_of t k + i - length d) with (off_of t k + i) by lia.
    fold (dget (join_from (off + length d) t) (off_of t k + i)).
    rewrite IH by (lia || exact Hi).
    replace (off + length d + off_of t k) with (off + (length d + off_of t k)) by lia. reflexivity.
Qed.

Lemma join_decomp ds j :
  j < total ds -> exists k i, k < length ds /\ i < length (nth k ds []) /\ j = off_of ds k + i.
Proof.
  revert j; induction ds as [|d t IH]; intros j Hj; [cbn in Hj; lia|].
  cbn [total] in Hj. destruct (Nat.lt_ge_cases j (length d)) as [L|L].
  - exists 0, j. cbn. repeat split; [lia|exact L].
  - destruct (IH (j - length d)) as [k [i [Hk [Hi E]]]]; [lia|].
    exists (S k), i. cbn [length nth]. rewrite off_of_S. repeat split; [lia|exact Hi|lia].
Qed.

Lemma off_of_bound ds k i :
  k < length ds -> i < length (nth k ds []) -> off_of ds k + i < total ds.
Proof.
  revert k; induction ds as [|d t IH]; intros k Hk Hi; [cbn in Hk; lia|].
  destruct k as [|k]; cbn [nth total] in *.
  - rewrite off_of_0. lia.
  - rewrite off_of_S. cbn [length] in Hk. specialize (IH k (proj2 (Nat.succ_lt_mono _ _) Hk) Hi). lia.
Qed.

Lemma off_of_mono_pos ds k :
  (forall j, j < length ds -> 0 < length (nth j ds [])) ->
  0 < k -> k < length ds -> 0 < off_of ds k.
Proof.
  intros Hne Hk Hl. destruct ds as [|d t]; [cbn in Hl; lia|].
  destruct k as [|k]; [lia|]. rewrite off_of_S. specialize (Hne 0). cbn in Hne. lia.
Qed.

(* ------------------------------------------------------------------ *)
(* C. Structure of Driver.compile                                      *)
(* ------------------------------------------------------------------ *)

Definition dfas (arts : list ruleset_art) : list (dfa nat) := map ra_dfa arts.

Definition acc_inv (a : dstate_acc) : Prop :=
  (da_init a = None /\ da_entries a = [] /\ da_arts a = []) \/
  (da_arts a <> [] /\
   da_init a = Some (join_from 0 (dfas (da_arts a))) /\
   map snd (da_entries a) = map (off_of (dfas (da_arts a))) (seq 0 (length (da_arts a))) /\
   exists nm rest, da_entries a = (nm, 0) :: rest /\ name_eqb nm name_Init = true).

Lemma acc_inv_step benv a t a' : acc_inv a -> top_step benv a t = Ok a' -> acc_inv a'.
Proof.
  intros Hinv H. destruct t as [|[r|v re]|nm rules]; cbn [top_step] in H.
  - destruct (da_errty a); [discriminate|]. inversion H; subst. exact Hinv.
  - destruct (compile_single_rule benv (da_unnamed a) r (da_bindings a) (da_ctxs a)) as [x|tg];
      cbn [bind] in H; [|discriminate]. inversion H; subst. exact Hinv.
  - destruct (lookup_var v (da_bindings a)); [discriminate|]. inversion H; subst. exact Hinv.
  - destruct (name_eqb nm name_Init) eqn:En.
    + destruct (compile_rules benv rules nfa_new (da_bindings a) (da_ctxs a)) as [x|tg];
        cbn [bind] in H; [|discriminate].
      destruct (nfa_to_dfa_map (fst x)) as [dm|tg]; cbn [bind] in H; [|discriminate].
      destruct (assoc_name nm (da_entries a)) eqn:Ea; [discriminate|].
      inversion H; subst; clear H. unfold acc_inv; cbn [da_init da_entries da_arts].
      destruct Hinv as [[Hi [He Ha]]|[Hne [Hi [He [nm0 [rest [He0 Hn0]]]]]]].
      * right. rewrite He, Ha. cbn [app dfas map ra_dfa length seq join_from].
        split; [discriminate|]. split.
        { f_equal. rewrite app_nil_r. rewrite <- (map_id (fst dm)) at 1.
          apply map_ext. intros st. symmetry. apply shift_state_0. }
        split; [reflexivity|]. exists nm, []. split; [reflexivity|exact En].
      * exfalso. rewrite He0 in Ea. cbn [assoc_name] in Ea.
        apply name_eqb_eq in En, Hn0. subst. rewrite name_eqb_refl in Ea. discriminate.
    + destruct (da_init a) as [init|] eqn:Ei; [|discriminate].
      destruct (compile_rules benv rules nfa_new (da_bindings a) (da_ctxs a)) as [x|tg];
        cbn [bind] in H; [|discriminate].
      destruct (nfa_to_dfa_map (fst x)) as [dm|tg]; cbn [bind] in H; [|discriminate].
      unfold add_dfa in H.
      destruct (assoc_name nm (da_entries a)) eqn:Ea; [discriminate|].
      inversion H; subst; clear H. unfold acc_inv; cbn [da_init da_entries da_arts].
      destruct Hinv as [[Hi [He Ha]]|[Hne [Hi [He [nm0 [rest [He0 Hn0]]]]]]]; [congruence|].
      right. split; [intros C; apply app_eq_nil in C; destruct C; discriminate|].
      rewrite Ei in Hi; inversion Hi; subst init; clear Hi.
      unfold dfas. rewrite map_app. cbn [map ra_dfa]. fold (dfas (da_arts a)).
      split; [|split].
      * rewrite join_from_snoc, join_from_length. reflexivity.
      * rewrite map_app, app_length. cbn [map snd length].
        rewrite Nat.add_1_r, seq_S, map_app. cbn [map plus]. f_equal.
        { rewrite He. apply map_ext_in. intros k Hk. apply in_seq in Hk.
          rewrite off_of_snoc_lt; [reflexivity|]. unfold dfas. rewrite map_length. lia. }
        { f_equal. rewrite join_from_length.
          replace (length (da_arts a)) with (length (dfas (da_arts a)))
            by (unfold dfas; apply map_length).
          rewrite off_of_snoc_lt by lia. symmetry. apply off_of_length. }
      * exists nm0, (rest ++ [(nm, length (join_from 0 (dfas (da_arts a))))]).
        rewrite He0. split; [reflexivity|exact Hn0].
Qed.

Lemma acc_inv_run benv d a : DriverProofs.run benv (Ok a0) d = Ok a -> acc_inv a.
Proof.
  intros H.
  apply (run_inv benv acc_inv (fun _ => True)
           (fun a t a' P _ St => acc_inv_step benv a t a' P St) d a0 a); auto.
  left. cbn. auto.
Qed.

(* what compile produces, in terms of the list of rule-set automata *)
Record compile_shape (mg : nat) (c : compiled) (E : list (name * nat)) : Prop := {
  cs_bt : update_backtracks (join_from 0 (dfas (c_rulesets c))) = Ok (c_joined c);
  cs_simp : simplify (c_joined c) E = Ok (c_simplified c, c_entries c);
  cs_prog : c_program c =
            mkProgram (c_simplified c) (inlined_states (c_simplified c)) (arms (c_simplified c))
                      (switch_table (inlined_states (c_simplified c)) (c_entries c))
                      (map ca_dfa (c_ctxs c)) mg;
  cs_nonempty : c_rulesets c <> [];
  cs_entries : E = [] \/
               map snd E = map (off_of (dfas (c_rulesets c))) (seq 0 (length (c_rulesets c)))
}.

Lemma compile_structure benv mg d c :
  compile benv mg d = Ok c -> exists E, compile_shape mg c E.
Proof.
  unfold compile. intros H. destruct (mixed d); [discriminate|].
  match type of H with (bind ?F _) = _ =>
    change F with (DriverProofs.run benv (Ok a0) d) in H end.
  destruct (DriverProofs.run benv (Ok a0) d) as [a|tg] eqn:Er; cbn [bind] in H; [|discriminate].
  pose proof (acc_inv_run benv d a Er) as Hinv.
  exists (da_entries a).
  destruct (da_init a) as [init|] eqn:Ei.
  - cbn [bind fst snd] in H.
    destruct (update_backtracks init) as [bt|tg] eqn:Eb; cbn [bind] in H; [|discriminate].
    destruct (simplify bt (da_entries a)) as [s|tg] eqn:Es; cbn [bind] in H; [|discriminate].
    unfold make_program in H. cbn [bind] in H. inversion H; subst c; clear H.
    destruct Hinv as [[Hi _]|[Hne [Hi [He _]]]]; [congruence|].
    rewrite Ei in Hi. inversion Hi; subst init.
    constructor; cbn [c_rulesets c_joined c_simplified c_entries c_program c_ctxs].
    + exact Eb.
    + rewrite Es. destruct s; reflexivity.
    + reflexivity.
    + exact Hne.
    + right. exact He.
  - destruct (nfa_to_dfa_map (da_unnamed a)) as [dm|tg]; cbn [bind fst snd] in H; [|discriminate].
    destruct (update_backtracks (fst dm)) as [bt|tg] eqn:Eb; cbn [bind] in H; [|discriminate].
    destruct (simplify bt (da_entries a)) as [s|tg] eqn:Es; cbn [bind] in H; [|discriminate].
    unfold make_program in H. cbn [bind] in H. inversion H; subst c; clear H.
    destruct Hinv as [[_ [He _]]|[_ [Hi _]]]; [|congruence].
    constructor; cbn [c_rulesets c_joined c_simplified c_entries c_program c_ctxs].
    + cbn [dfas map ra_dfa join_from]. rewrite app_nil_r.
      replace (map (shift_state 0) (fst dm)) with (fst dm); [exact Eb|].
      rewrite <- (map_id (fst dm)) at 1. apply map_ext. intros st. symmetry. apply shift_state_0.
    + rewrite Es. destruct s; reflexivity.
    + reflexivity.
    + discriminate.
    + left. exact He.
Qed.

(* ------------------------------------------------------------------ *)
(* D. Index lists: every position of a filtered index list is hit      *)
(* ------------------------------------------------------------------ *)

Lemma cnt_surj q n s :
  s < length (filter q (seq 0 n)) -> exists j, j < n /\ q j = true /\ cnt q j = s.
Proof.
  induction n as [|n IH]; intros H; [cbn in H; lia|].
  rewrite seq_S, filter_app, app_length in H. cbn [plus filter] in H.
  destruct (Nat.lt_ge_cases s (length (filter q (seq 0 n)))) as [L|L].
  - destruct (IH L) as [j [Hj [Hq Hc]]]. exists j. repeat split; [lia|exact Hq|exact Hc].
  - destruct (q n) eqn:Eq; cbn [length] in H; [|lia].
    exists n. repeat split; [lia|exact Eq|]. unfold cnt. lia.
Qed.

Lemma simplify_length (d : dfa nat) entries d' entries' :
  simplify d entries = Ok (d', entries') ->
  length d' = length (filter (fun i => negb (set_mem i (empty_states d))) (seq 0 (length d))) /\
  entries' = map (fun e => (fst e, snd e - removed_below (empty_states d) (snd e))) entries.
Proof.
  intros H. unfold simplify in H. rewrite kept_eq in H.
  destruct (result_map _ _) as [states|t] eqn:Er; cbn [bind] in H; [|discriminate].
  inversion H; subst. apply result_map_ok in Er. destruct Er as [El _].
  rewrite map_length in El. split; [exact El|reflexivity].
Qed.

(* ------------------------------------------------------------------ *)
(* E. The pipeline after joining                                       *)
(* ------------------------------------------------------------------ *)

Section Pipeline.
Variable benv : builtin_env.
Variable mg : nat.
Variable ds : list (dfa nat).            (* the rule sets' own automata, in order *)
Variable rss : list (list crule).
Variable cidx : nat -> option nat.
Variable B : dfa nat.                    (* joined automaton with updated flags *)
Variable E : list (name * nat).          (* entries before simplify *)
Variable S : dfa trans.                  (* simplified automaton *)
Variable E' : list (name * nat).
Variable ctxs : list (dfa nat).

Hypothesis Hlen : length ds = length rss.
Hypothesis Hne : ds <> [].
Hypothesis Hsem : forall k, k < length ds -> ruleset_sem benv (nth k rss []) cidx (nth k ds []).
Hypothesis HB : update_backtracks (join_from 0 ds) = Ok B.
Hypothesis HS : simplify B E = Ok (S, E').
Hypothesis HE : E = [] \/ map snd E = map (off_of ds) (seq 0 (length ds)).

(* = LookupProofs.lookup_char_correct; kept abstract here *)
Hypothesis Hlookup :
  forall mg (st : dstate trans) c, is_scalar c = true -> wf (d_ranges st) = true ->
    (forall r, In r (d_ranges st) -> (r_hi r <= CHAR_MAX)%N) ->
    lookup_char mg st c =
    match assoc_N c (d_chars st) with Some t => Some t | None => lookup (d_ranges st) c end.

Definition prog : program :=
  mkProgram S (inlined_states S) (arms S) (switch_table (inlined_states S) E') ctxs mg.

Local Notation dk k := (nth k ds []).
Local Notation off k := (off_of ds k).
Local Notation J := (join_from 0 ds).
Local Notation es := (empty_states B).

Definition sidx (j : nat) : nat := j - removed_below es j.
Definition tr (k x : nat) : trans := map_transition B es (x + off k).

Definition scal (p : list N) : Prop := Forall (fun c => is_scalar c = true) p.

Definition At (k : nat) (p : list N) (s : nat) : Prop :=
  k < length ds /\ scal p /\
  exists i, dfa_run (dk k) 0 (map Chr p) = Some i /\
            is_empty_at B (off k + i) = false /\ s = sidx (off k + i).

Definition entry (k : nat) : nat := sidx (off k).

(* ---------- joined automaton ---------- *)

Lemma J_targets : targets_ok J.
Proof.
  intros s t Hs Hin. rewrite join_from_length in *.
  destruct (join_decomp ds s Hs) as [k [i [Hk [Hi ->]]]].
  rewrite join_get in Hin by assumption. rewrite successors_shift in Hin.
  apply in_map_iff in Hin. destruct Hin as [t0 [<- Hin]].
  pose proof (rs_succ_targets _ _ _ _ (Hsem k Hk) i t0 Hi Hin) as Ht.
  cbn [plus]. rewrite Nat.add_comm. apply off_of_bound; assumption.
Qed.

Lemma B_same : same_but_flags J B.
Proof. exact (proj1 (update_backtracks_sound J B J_targets HB)). Qed.

Lemma B_flags : flags_sound B.
Proof. exact (proj2 (update_backtracks_sound J B J_targets HB)). Qed.

Lemma B_len : length B = total ds.
Proof. destruct B_same as [H _]. rewrite H. apply join_from_length. Qed.

Lemma B_bound k i : k < length ds -> i < length (dk k) -> off k + i < length B.
Proof. intros. rewrite B_len. apply off_of_bound; assumption. Qed.

Lemma B_fields k i : k < length ds -> i < length (dk k) ->
  let b := dget B (off k + i) in
  let sh := shift_state (off k) (dget (dk k) i) in
  d_init b = d_init sh /\ d_chars b = d_chars sh /\ d_ranges b = d_ranges sh /\
  d_any b = d_any sh /\ d_eoi b = d_eoi sh /\ d_acc b = d_acc sh /\ d_preds b = d_preds sh.
Proof.
  intros Hk Hi. destruct B_same as [_ H].
  specialize (H (off k + i)). rewrite join_from_length in H.
  specialize (H (off_of_bound ds k i Hk Hi)). cbn zeta in H.
  rewrite join_get in H by assumption. cbn [plus] in H. exact H.
Qed.

Lemma B_hnt k i : k < length ds -> i < length (dk k) ->
  has_no_transitions (dget B (off k + i)) = has_no_transitions (dget (dk k) i).
Proof.
  intros Hk Hi. destruct (B_fields k i Hk Hi) as [_ [Hc [Hr [Ha [He _]]]]].
  rewrite <- (has_no_transitions_shift (off k) (dget (dk k) i)).
  unfold has_no_transitions. rewrite Hc, Hr, Ha, He. reflexivity.
Qed.

Lemma B_succ k i : k < length ds -> i < length (dk k) ->
  successors (dget B (off k + i)) = map (fun x => x + off k) (successors (dget (dk k) i)).
Proof.
  intros Hk Hi. destruct (B_fields k i Hk Hi) as [_ [Hc [Hr [Ha [He _]]]]].
  rewrite <- successors_shift. unfold successors. rewrite Hc, Hr, Ha, He. reflexivity.
Qed.

Lemma B_acc k i : k < length ds -> i < length (dk k) ->
  d_acc (dget B (off k + i)) = d_acc (dget (dk k) i).
Proof. intros Hk Hi. destruct (B_fields k i Hk Hi) as [_ [_ [_ [_ [_ [Ha _]]]]]]. exact Ha. Qed.

Lemma B_empty k i : k < length ds -> i < length (dk k) ->
  is_empty_at B (off k + i) =
  has_no_transitions (dget (dk k) i) && negb (d_init (dget (dk k) i)).
Proof.
  intros Hk Hi. unfold is_empty_at. rewrite B_hnt by assumption.
  destruct (B_fields k i Hk Hi) as [Hin _]. rewrite Hin. reflexivity.
Qed.

Lemma dk_nonempty k : k < length ds -> 0 < length (dk k).
Proof. intros Hk. exact (rs_nonempty _ _ _ _ (Hsem k Hk)). Qed.

Lemma dk_init k i : k < length ds -> i < length (dk k) -> i <> 0 -> d_init (dget (dk k) i) = false.
Proof.
  intros Hk Hi Hz. destruct (d_init (dget (dk k) i)) eqn:Ei; [|reflexivity].
  apply (rs_init _ _ _ _ (Hsem k Hk) i Hi) in Ei. contradiction.
Qed.

Lemma dk_init0 k : k < length ds -> d_init (dget (dk k) 0) = true.
Proof. intros Hk. apply (rs_init _ _ _ _ (Hsem k Hk) 0 (dk_nonempty k Hk)). reflexivity. Qed.

Lemma B_empty_nz k i : k < length ds -> i < length (dk k) -> i <> 0 ->
  is_empty_at B (off k + i) = has_no_transitions (dget (dk k) i).
Proof.
  intros Hk Hi Hz. rewrite B_empty, dk_init by assumption. apply andb_true_r.
Qed.

Lemma init_kept k : k < length ds -> is_empty_at B (off k + 0) = false.
Proof.
  intros Hk. rewrite B_empty by (try assumption; apply dk_nonempty; assumption).
  rewrite dk_init0 by assumption. apply andb_false_r.
Qed.

(* ---------- index shift of simplify ---------- *)

Lemma es_mem j : j < length B -> set_mem j es = is_empty_at B j.
Proof. intros H. rewrite empty_states_eq. apply set_mem_idx. exact H. Qed.

Lemma sidx_cnt j : j <= length B -> sidx j = cnt (fun i => negb (is_empty_at B i)) j.
Proof. intros H. unfold sidx, removed_below. rewrite empty_states_eq. apply sub_below. exact H. Qed.

Lemma sidx_lt i j : i < j -> j <= length B -> is_empty_at B i = false -> sidx i < sidx j.
Proof.
  intros Hij Hj Hi. rewrite !sidx_cnt by lia. apply cnt_lt; [exact Hij|]. rewrite Hi. reflexivity.
Qed.

Lemma sidx_0 : sidx 0 = 0.
Proof. reflexivity. Qed.

(* ---------- the simplified state of (k, i) ---------- *)

Lemma S_state k i : k < length ds -> i < length (dk k) -> is_empty_at B (off k + i) = false ->
  let st := dget (dk k) i in
  let s := sidx (off k + i) in
  s < length S /\
  dget S s = mkD (d_init st)
                 (map (fun p => (fst p, tr k (snd p))) (d_chars st))
                 (rmap_map (tr k) (d_ranges st))
                 (option_map (tr k) (d_any st))
                 (option_map (tr k) (d_eoi st))
                 (d_acc st)
                 (set_of_list (map (fun p => sidx (p + off k)) (d_preds st)))
                 (d_bt (dget B (off k + i))).
Proof.
  intros Hk Hi Hem st s.
  assert (Hb : off k + i < length B) by (apply B_bound; assumption).
  assert (Hm : set_mem (off k + i) es = false) by (rewrite es_mem by exact Hb; exact Hem).
  destruct (simplify_index B E S E' (off k + i) HS Hb Hm) as [Hlt Hst].
  split; [exact Hlt|]. fold (sidx (off k + i)) in Hst. fold s in Hst.
  unfold simplify_state in Hst.
  destruct (existsb _ _); [discriminate|]. inversion Hst as [Heq]; clear Hst.
  destruct (B_fields k i Hk Hi) as [H1 [H2 [H3 [H4 [H5 [H6 H7]]]]]].
  rewrite H1, H2, H3, H4, H5, H6, H7.
  unfold shift_state. cbn [d_init d_chars d_ranges d_any d_eoi d_acc d_preds].
  fold st. rewrite !map_map, so_rmap_map_map, !so_option_map_map. reflexivity.
Qed.

Lemma tr_spec k j : k < length ds -> j < length (dk k) -> j <> 0 ->
  tr k j = if has_no_transitions (dget (dk k) j)
           then TAccept (d_acc (dget (dk k) j)) else TGoto (sidx (off k + j)).
Proof.
  intros Hk Hj Hz. unfold tr, map_transition. rewrite (Nat.add_comm j).
  rewrite es_mem by (apply B_bound; assumption). rewrite B_empty_nz by assumption.
  destruct (has_no_transitions (dget (dk k) j)); [|reflexivity].
  rewrite B_acc by assumption. reflexivity.
Qed.

(* every simplified state is the image of some kept (k, i) *)
Lemma S_surj s : s < length S ->
  exists k i, k < length ds /\ i < length (dk k) /\ is_empty_at B (off k + i) = false /\
              s = sidx (off k + i).
Proof.
  intros Hs. destruct (simplify_length B E S E' HS) as [Hl _]. rewrite Hl in Hs.
  destruct (cnt_surj _ _ _ Hs) as [j [Hj [Hq Hc]]].
  rewrite es_mem in Hq by exact Hj. apply negb_true_iff in Hq.
  rewrite B_len in Hj. destruct (join_decomp ds j Hj) as [k [i [Hk [Hi ->]]]].
  exists k, i. repeat split; try assumption.
  rewrite sidx_cnt by (rewrite B_len; lia). rewrite <- Hc.
  apply (cnt_ext _ _ (length B)); [rewrite B_len; lia|].
  intros x Hx. rewrite es_mem by exact Hx. reflexivity.
Qed.


(* ---------- reference-side notions coincide with those of RulesetSem ---------- *)

Lemma accs_plain_eq k p : accs_plain benv rss cidx k p = rs_accs_plain benv (nth k rss []) cidx p.
Proof. reflexivity. Qed.

Lemma accs_eoi_eq k p : accs_eoi benv rss cidx k p = rs_accs_eoi benv (nth k rss []) cidx p.
Proof. reflexivity. Qed.

Lemma viable_eq k p : viable_b benv rss k p = rs_viable benv (nth k rss []) p.
Proof. unfold viable_b, dvec, rs_viable. rewrite so_existsb_map. reflexivity. Qed.

Lemma ext_eq k p : ext_b benv rss k p = rs_ext benv (nth k rss []) p.
Proof. unfold ext_b, dvec, rs_ext. rewrite so_existsb_map. reflexivity. Qed.

(* ---------- runs of one rule set's automaton ---------- *)

Lemma run_lt k p i : k < length ds -> dfa_run (dk k) 0 (map Chr p) = Some i -> i < length (dk k).
Proof. intros Hk H. exact (rs_run_lt _ _ _ _ (Hsem k Hk) p i H). Qed.

Lemma run_nonzero k p i : k < length ds -> p <> [] ->
  dfa_run (dk k) 0 (map Chr p) = Some i -> i <> 0.
Proof.
  intros Hk Hp H. destruct (exists_last Hp) as [p' [c ->]].
  rewrite dfa_run_snoc in H. destruct (dfa_run (dk k) 0 (map Chr p')) as [i'|] eqn:Er'; [|discriminate].
  pose proof (run_lt k p' i' Hk Er') as Hi'.
  apply (rs_no_back _ _ _ _ (Hsem k Hk) i' i Hi').
  apply (dfa_next_successors _ (Chr c)). exact H.
Qed.

Lemma scal_snoc p c : scal p -> is_scalar c = true -> scal (p ++ [c]).
Proof. intros Hp Hc. apply Forall_app. split; [exact Hp|]. constructor; [exact Hc|constructor]. Qed.

Lemma snoc_nonnil {A} (p : list A) c : p ++ [c] <> [].
Proof. destruct p; discriminate. Qed.

(* unpacking At *)
Lemma At_inv k p s : At k p s ->
  k < length ds /\ scal p /\
  exists i, i < length (dk k) /\ dfa_run (dk k) 0 (map Chr p) = Some i /\
            is_empty_at B (off k + i) = false /\ s = sidx (off k + i) /\
            s < length S /\
            dget S s = (let st := dget (dk k) i in
                        mkD (d_init st)
                            (map (fun p => (fst p, tr k (snd p))) (d_chars st))
                            (rmap_map (tr k) (d_ranges st))
                            (option_map (tr k) (d_any st))
                            (option_map (tr k) (d_eoi st))
                            (d_acc st)
                            (set_of_list (map (fun p => sidx (p + off k)) (d_preds st)))
                            (d_bt (dget B (off k + i)))).
Proof.
  intros [Hk [Hsc [i [Hr [He ->]]]]]. split; [exact Hk|]. split; [exact Hsc|].
  exists i. pose proof (run_lt k p i Hk Hr) as Hi.
  destruct (S_state k i Hk Hi He) as [Hlt Hst]. repeat split; assumption.
Qed.

(* ---------- character lookup in a simplified state ---------- *)

Lemma S_lookup k i c : k < length ds -> i < length (dk k) ->
  is_empty_at B (off k + i) = false -> is_scalar c = true ->
  lookup_char mg (dget S (sidx (off k + i))) c =
  option_map (tr k) (match assoc_N c (d_chars (dget (dk k) i)) with
                     | Some t => Some t
                     | None => lookup (d_ranges (dget (dk k) i)) c
                     end).
Proof.
  intros Hk Hi He Hc. destruct (S_state k i Hk Hi He) as [_ Hst].
  rewrite Hlookup; [| exact Hc | |].
  - rewrite Hst. cbn [d_chars d_ranges]. rewrite so_assoc_N_map, so_rmap_map_lookup.
    destruct (assoc_N c (d_chars (dget (dk k) i))); reflexivity.
  - rewrite Hst. cbn [d_ranges]. rewrite so_rmap_map_wf.
    exact (rs_ranges_wf _ _ _ _ (Hsem k Hk) i Hi).
  - intros r Hr. rewrite Hst in Hr. cbn [d_ranges] in Hr.
    apply so_rmap_map_in in Hr. destruct Hr as [r0 [Hin [_ [Hh _]]]]. rewrite Hh.
    exact (rs_ranges_max _ _ _ _ (Hsem k Hk) i r0 Hi Hin).
Qed.

Lemma S_trans_of k i c : k < length ds -> i < length (dk k) ->
  is_empty_at B (off k + i) = false -> is_scalar c = true ->
  trans_of prog (dget S (sidx (off k + i))) c = option_map (tr k) (dfa_char_next (dget (dk k) i) c).
Proof.
  intros Hk Hi He Hc. unfold trans_of. cbn [p_max_guard prog].
  rewrite S_lookup by assumption. destruct (S_state k i Hk Hi He) as [_ Hst]. rewrite Hst.
  cbn [d_any]. unfold dfa_char_next.
  destruct (assoc_N c (d_chars (dget (dk k) i))); [reflexivity|].
  destruct (lookup (d_ranges (dget (dk k) i)) c); reflexivity.
Qed.

(* ---------- fields of scan_ok ---------- *)

Lemma F_acc k p s : At k p s -> d_acc (dget S s) = accs_plain benv rss cidx k p.
Proof.
  intros H. destruct (At_inv k p s H) as [Hk [Hsc [i [Hi [Hr [He [-> [_ Hst]]]]]]]].
  rewrite Hst. cbn [d_acc]. rewrite accs_plain_eq.
  exact (rs_acc _ _ _ _ (Hsem k Hk) p i Hsc Hr).
Qed.

Lemma F_step_dead k p s c : At k p s -> is_scalar c = true ->
  viable_b benv rss k (p ++ [c]) = false -> trans_of prog (dget S s) c = None.
Proof.
  intros H Hc Hv. destruct (At_inv k p s H) as [Hk [Hsc [i [Hi [Hr [He [-> _]]]]]]].
  rewrite S_trans_of by assumption.
  destruct (dfa_char_next (dget (dk k) i) c) as [j|] eqn:En; [|reflexivity].
  exfalso. rewrite viable_eq in Hv.
  assert (Hv' : rs_viable benv (nth k rss []) (p ++ [c]) = true).
  { apply (rs_run_viable _ _ _ _ (Hsem k Hk) (p ++ [c]) (scal_snoc p c Hsc Hc) (snoc_nonnil p c)).
    exists j. unfold RulesetSem.run. rewrite dfa_run_snoc, Hr. exact En. }
  congruence.
Qed.

(* the common part of the goto/accept steps *)
Lemma step_target k p i c : k < length ds -> scal p -> is_scalar c = true ->
  dfa_run (dk k) 0 (map Chr p) = Some i ->
  viable_b benv rss k (p ++ [c]) = true ->
  exists j, dfa_char_next (dget (dk k) i) c = Some j /\
            dfa_run (dk k) 0 (map Chr (p ++ [c])) = Some j /\
            j < length (dk k) /\ j <> 0 /\
            (has_no_transitions (dget (dk k) j) = false <-> ext_b benv rss k (p ++ [c]) = true) /\
            d_acc (dget (dk k) j) = accs_plain benv rss cidx k (p ++ [c]).
Proof.
  intros Hk Hsc Hc Hr Hv. rewrite viable_eq in Hv.
  pose proof (scal_snoc p c Hsc Hc) as Hsc'.
  apply (rs_run_viable _ _ _ _ (Hsem k Hk) (p ++ [c]) Hsc' (snoc_nonnil p c)) in Hv.
  destruct Hv as [j Hj]. unfold RulesetSem.run in Hj. exists j.
  pose proof Hj as Hj'. rewrite dfa_run_snoc, Hr in Hj'.
  split; [exact Hj'|]. split; [exact Hj|].
  split; [exact (run_lt k _ j Hk Hj)|].
  split; [exact (run_nonzero k _ j Hk (snoc_nonnil p c) Hj)|].
  split.
  - rewrite ext_eq. exact (rs_ext_iff _ _ _ _ (Hsem k Hk) (p ++ [c]) j Hsc' (snoc_nonnil p c) Hj).
  - rewrite accs_plain_eq. exact (rs_acc _ _ _ _ (Hsem k Hk) (p ++ [c]) j Hsc' Hj).
Qed.

Lemma F_step_goto k p s c : At k p s -> is_scalar c = true ->
  viable_b benv rss k (p ++ [c]) = true -> ext_b benv rss k (p ++ [c]) = true ->
  exists s', trans_of prog (dget S s) c = Some (TGoto s') /\ At k (p ++ [c]) s'.
Proof.
  intros H Hc Hv Hx. destruct (At_inv k p s H) as [Hk [Hsc [i [Hi [Hr [He [-> _]]]]]]].
  destruct (step_target k p i c Hk Hsc Hc Hr Hv) as [j [Hn [Hrj [Hj [Hz [Hext _]]]]]].
  apply Hext in Hx.
  exists (sidx (off k + j)). split.
  - rewrite S_trans_of by assumption. rewrite Hn. cbn [option_map].
    rewrite tr_spec by assumption. rewrite Hx. reflexivity.
  - split; [exact Hk|]. split; [exact (scal_snoc p c Hsc Hc)|].
    exists j. split; [exact Hrj|]. split; [|reflexivity].
    rewrite B_empty_nz by assumption. exact Hx.
Qed.

Lemma F_step_accept k p s c : At k p s -> is_scalar c = true ->
  viable_b benv rss k (p ++ [c]) = true -> ext_b benv rss k (p ++ [c]) = false ->
  trans_of prog (dget S s) c = Some (TAccept (accs_plain benv rss cidx k (p ++ [c]))).
Proof.
  intros H Hc Hv Hx. destruct (At_inv k p s H) as [Hk [Hsc [i [Hi [Hr [He [-> _]]]]]]].
  destruct (step_target k p i c Hk Hsc Hc Hr Hv) as [j [Hn [Hrj [Hj [Hz [Hext Hacc]]]]]].
  rewrite S_trans_of by assumption. rewrite Hn. cbn [option_map].
  rewrite tr_spec by assumption.
  destruct (has_no_transitions (dget (dk k) j)) eqn:Eh.
  - rewrite Hacc. reflexivity.
  - rewrite (proj1 Hext eq_refl) in Hx. discriminate.
Qed.

Lemma F_quirk k p s c accs : At k p s -> is_scalar c = true ->
  lookup_char mg (dget S s) c = Some (TAccept accs) ->
  match d_any (dget S s) with
  | None => True
  | Some (TAccept accs') => forall a, In a accs' -> In a accs
  | Some (TGoto _) => False
  end.
Proof.
  intros H Hc Hl. destruct (At_inv k p s H) as [Hk [Hsc [i [Hi [Hr [He [-> [_ Hst]]]]]]]].
  rewrite S_lookup in Hl by assumption.
  destruct (match assoc_N c (d_chars (dget (dk k) i)) with
            | Some t => Some t | None => lookup (d_ranges (dget (dk k) i)) c end) as [j|] eqn:Em;
    [|discriminate].
  cbn [option_map] in Hl.
  assert (Hn : dfa_char_next (dget (dk k) i) c = Some j).
  { unfold dfa_char_next. destruct (assoc_N c (d_chars (dget (dk k) i))); [exact Em|].
    rewrite Em. reflexivity. }
  pose proof (dfa_next_successors (dget (dk k) i) (Chr c) j Hn) as Hsj.
  pose proof (rs_succ_targets _ _ _ _ (Hsem k Hk) i j Hi Hsj) as Hj.
  pose proof (rs_no_back _ _ _ _ (Hsem k Hk) i j Hi Hsj) as Hz.
  rewrite tr_spec in Hl by assumption.
  destruct (has_no_transitions (dget (dk k) j)) eqn:Eh; [|discriminate].
  inversion Hl; subst accs; clear Hl.
  rewrite Hst. cbn [d_any].
  destruct (d_any (dget (dk k) i)) as [a|] eqn:Ea; cbn [option_map]; [|exact I].
  pose proof (d_any_successors _ _ Ea) as Hsa.
  pose proof (rs_succ_targets _ _ _ _ (Hsem k Hk) i a Hi Hsa) as Ha.
  pose proof (rs_no_back _ _ _ _ (Hsem k Hk) i a Hi Hsa) as Hza.
  destruct (rs_any_below _ _ _ _ (Hsem k Hk) p i c j a Hsc Hr Hc Hn Ea Eh) as [Hna Hincl].
  rewrite tr_spec by assumption. rewrite Hna. exact Hincl.
Qed.

Lemma F_eoi k p s : At k p s ->
  (d_eoi (dget S s) = None /\ accs_eoi benv rss cidx k p = []) \/
  d_eoi (dget S s) = Some (TAccept (accs_eoi benv rss cidx k p)).
Proof.
  intros H. destruct (At_inv k p s H) as [Hk [Hsc [i [Hi [Hr [He [-> [_ Hst]]]]]]]].
  rewrite Hst. cbn [d_eoi]. rewrite accs_eoi_eq.
  pose proof (rs_eoi _ _ _ _ (Hsem k Hk) p i Hsc Hr) as Heo.
  destruct (d_eoi (dget (dk k) i)) as [j|]; cbn [option_map].
  - destruct Heo as [Hj [Hz [Hn Ha]]]. right. rewrite tr_spec by assumption.
    rewrite Hn, Ha. reflexivity.
  - left. split; [reflexivity|exact Heo].
Qed.

(* flags propagate along a run of rule set k inside the joined automaton *)
Lemma bt_path k q : k < length ds -> forall i0 i, q <> [] -> i0 < length (dk k) ->
  dfa_run (dk k) i0 (map Chr q) = Some i ->
  (d_bt (dget B (off k + i0)) = true \/ is_accepting (dget B (off k + i0)) = true) ->
  d_bt (dget B (off k + i)) = true.
Proof.
  intros Hk. induction q as [|c q IH]; intros i0 i Hq Hi0 Hr Hor; [contradiction|].
  cbn [map dfa_run] in Hr.
  destruct (dfa_next (dget (dk k) i0) (Chr c)) as [i1|] eqn:En; [|discriminate].
  pose proof (dfa_next_successors _ _ _ En) as Hs1.
  pose proof (rs_succ_targets _ _ _ _ (Hsem k Hk) i0 i1 Hi0 Hs1) as Hi1.
  assert (Hb1 : d_bt (dget B (off k + i1)) = true).
  { apply (B_flags (off k + i0) (off k + i1)); [|exact Hor].
    split; [apply B_bound; assumption|]. rewrite B_succ by assumption.
    apply in_map_iff. exists i1. split; [apply Nat.add_comm|exact Hs1]. }
  destruct q as [|c' q'].
  - cbn in Hr. inversion Hr; subst. exact Hb1.
  - apply (IH i1 i); [discriminate|exact Hi1|exact Hr|left; exact Hb1].
Qed.

Lemma F_bt k p s p0 q : At k p s -> p = p0 ++ q -> q <> [] ->
  accs_plain benv rss cidx k p0 <> [] -> d_bt (dget S s) = true.
Proof.
  intros H -> Hq Hacc.
  destruct (At_inv k _ s H) as [Hk [Hsc [i [Hi [Hr [He [-> [_ Hst]]]]]]]].
  rewrite Hst. cbn [d_bt].
  rewrite map_app, dfa_run_app in Hr.
  destruct (dfa_run (dk k) 0 (map Chr p0)) as [i0|] eqn:E0; [|discriminate].
  apply Forall_app in Hsc. destruct Hsc as [Hsc0 _].
  pose proof (run_lt k p0 i0 Hk E0) as Hi0.
  apply (bt_path k q Hk i0 i Hq Hi0 Hr). right.
  unfold is_accepting. rewrite B_acc by assumption.
  rewrite (rs_acc _ _ _ _ (Hsem k Hk) p0 i0 Hsc0 E0). rewrite accs_plain_eq in Hacc.
  destruct (rs_accs_plain benv (nth k rss []) cidx p0); [contradiction|reflexivity].
Qed.

(* ---------- start, entries, state 0 ---------- *)

Lemma ds_pos : 0 < length ds.
Proof. destruct ds; [contradiction|cbn; lia]. Qed.

Lemma F_entry0 : entry 0 = 0.
Proof. reflexivity. Qed.

Lemma zero_kept : is_empty_at B 0 = false.
Proof. exact (init_kept 0 ds_pos). Qed.

Lemma F_nonzero k p s : At k p s -> p <> [] -> s <> 0.
Proof.
  intros H Hp. destruct (At_inv k p s H) as [Hk [Hsc [i [Hi [Hr [He [-> _]]]]]]].
  pose proof (run_nonzero k p i Hk Hp Hr) as Hz.
  pose proof (sidx_lt 0 (off k + i)) as L. rewrite sidx_0 in L.
  assert (0 < sidx (off k + i)); [|lia].
  apply L; [lia| |exact zero_kept]. apply Nat.lt_le_incl. apply B_bound; assumption.
Qed.

Lemma F_entry_inj0 k : k < length rss -> entry k = 0 -> k = 0.
Proof.
  intros Hk He. rewrite <- Hlen in Hk. destruct (Nat.eq_dec k 0) as [|Hz]; [assumption|exfalso].
  assert (Hp : 0 < off k).
  { apply off_of_mono_pos; [intros j Hj; apply dk_nonempty; exact Hj|lia|exact Hk]. }
  pose proof (sidx_lt 0 (off k) Hp) as L. rewrite sidx_0 in L. unfold entry in He.
  assert (0 < sidx (off k)); [|lia].
  apply L; [|exact zero_kept].
  pose proof (B_bound k 0 Hk (dk_nonempty k Hk)). lia.
Qed.

Lemma F_start k : k < length rss -> At k [] (entry k).
Proof.
  intros Hk. rewrite <- Hlen in Hk. split; [exact Hk|]. split; [constructor|].
  exists 0. split; [reflexivity|]. split; [exact (init_kept k Hk)|].
  unfold entry. rewrite Nat.add_0_r. reflexivity.
Qed.

Lemma entry_state k : k < length ds ->
  entry k < length S /\ d_init (dget S (entry k)) = true /\ d_preds (dget S (entry k)) = [].
Proof.
  intros Hk. destruct (S_state k 0 Hk (dk_nonempty k Hk) (init_kept k Hk)) as [Hlt Hst].
  rewrite Nat.add_0_r in Hlt, Hst. fold (entry k) in Hlt, Hst.
  split; [exact Hlt|]. rewrite Hst. cbn [d_init d_preds].
  split; [exact (dk_init0 k Hk)|].
  rewrite (rs_preds0 _ _ _ _ (Hsem k Hk)). reflexivity.
Qed.

(* ---------- dispatch ---------- *)

Lemma S_init_preds s : s < length S -> d_init (dget S s) = true -> d_preds (dget S s) = [].
Proof.
  intros Hs Hin. destruct (S_surj s Hs) as [k [i [Hk [Hi [He ->]]]]].
  destruct (S_state k i Hk Hi He) as [_ Hst]. rewrite Hst in Hin |- *.
  cbn [d_init d_preds] in *.
  apply (rs_init _ _ _ _ (Hsem k Hk) i Hi) in Hin. subst i.
  rewrite (rs_preds0 _ _ _ _ (Hsem k Hk)). reflexivity.
Qed.

Lemma S_init_not_inlined : init_not_inlined S.
Proof. intros s Hs Hin. rewrite (S_init_preds s Hs Hin). cbn. lia. Qed.

Lemma init_not_in_inl s : s < length S -> d_init (dget S s) = true ->
  set_mem s (inlined_states S) = false.
Proof.
  intros Hs Hin. exact (no_preds_not_inlined S s Hs (S_init_preds s Hs Hin)).
Qed.

Lemma F_arm0 : arm_lookup (p_arms prog) 0 = Some 0.
Proof.
  destruct (entry_state 0 ds_pos) as [Hlt [Hin _]]. rewrite F_entry0 in Hlt, Hin.
  exact (dispatch_correct' S 0 Hlt (init_not_in_inl 0 Hlt Hin)).
Qed.

Lemma F_dispatch k p s : At k p s -> p <> [] ->
  set_mem s (p_inlined prog) = true \/
  arm_lookup (p_arms prog) (renumber (p_inlined prog) s) = Some s.
Proof.
  intros H _. destruct (At_inv k p s H) as [_ [_ [i [_ [_ [_ [_ [Hlt _]]]]]]]].
  cbn [p_inlined p_arms prog].
  destruct (set_mem s (inlined_states S)) eqn:Em; [left; reflexivity|right].
  exact (dispatch_correct' S s Hlt Em).
Qed.

Lemma F_switch k : k < length (p_switch prog) -> k < length rss /\
  exists nm v, nth_error (p_switch prog) k = Some (nm, v) /\
               arm_lookup (p_arms prog) v = Some (entry k).
Proof.
  cbn [p_switch p_arms prog]. unfold switch_table.
  destruct (simplify_length B E S E' HS) as [_ HE'].
  rewrite HE', !map_length. intros Hk.
  destruct HE as [->|Hm]; [cbn in Hk; lia|].
  assert (Hl : length E = length ds).
  { rewrite <- (map_length snd E), Hm, map_length, seq_length. reflexivity. }
  split; [lia|].
  destruct (nth_error E k) as [[nm x]|] eqn:En; [|apply nth_error_None in En; lia].
  assert (Hx : x = off k).
  { pose proof (map_nth_error snd k E En) as H1. rewrite Hm in H1. cbn [snd] in H1.
    assert (Hs : nth_error (seq 0 (length ds)) k = Some k).
    { rewrite (nth_error_nth' _ 0) by (rewrite seq_length; lia).
      rewrite seq_nth by lia. reflexivity. }
    rewrite (map_nth_error (off_of ds) k _ Hs) in H1. inversion H1. reflexivity. }
  subst x. exists nm, (renumber (inlined_states S) (entry k)). split.
  - rewrite map_map. rewrite (map_nth_error _ k E En). reflexivity.
  - rewrite Hl in Hk. destruct (entry_state k Hk) as [Hlt [Hin _]].
    exact (dispatch_correct' S (entry k) Hlt (init_not_in_inl _ Hlt Hin)).
Qed.


(* ---------- assembling the record ---------- *)

Hypothesis Hnn : forall k r, In r (nth k rss []) -> nullable (of_regex benv (cr_re r)) = false.
Hypothesis Hcn : forall k r, In r (nth k rss []) -> (cidx (cr_act r) = None <-> cr_ctx r = None).
Hypothesis Hcr : forall k r i cre, In r (nth k rss []) -> cidx (cr_act r) = Some i ->
  cr_ctx r = Some cre -> ctx_sem benv mg cre (nth i ctxs []).

Theorem pipeline_scan_ok : scan_ok benv prog rss cidx entry At.
Proof.
  constructor.
  - exact F_entry0.
  - exact F_entry_inj0.
  - exact F_arm0.
  - apply F_start. rewrite <- Hlen. exact ds_pos.
  - exact F_start.
  - exact F_switch.
  - exact F_nonzero.
  - exact F_dispatch.
  - exact Hnn.
  - exact F_acc.
  - exact F_step_dead.
  - exact F_step_goto.
  - exact F_step_accept.
  - exact F_quirk.
  - exact F_eoi.
  - exact F_bt.
  - exact Hcn.
  - intros k r i Hin Hci rest Hrest. cbn [p_max_guard p_ctxs prog].
    destruct (cr_ctx r) as [cre|] eqn:Ec.
    + cbn [ctx_ok]. exact (Hcr k r i cre Hin Hci Ec rest Hrest).
    + apply (Hcn k r Hin) in Ec. congruence.
Qed.

End Pipeline.

(* ------------------------------------------------------------------ *)
(* F. Main theorem                                                     *)
(* ------------------------------------------------------------------ *)

(* the witnesses *)
Definition c_entry (c : compiled) : nat -> nat :=
  entry (dfas (c_rulesets c)) (c_joined c).
Definition c_At (c : compiled) : nat -> list N -> nat -> Prop :=
  At (dfas (c_rulesets c)) (c_joined c).

Theorem compile_scan_ok_wit : forall benv mg d c rss cidx,
  compile benv mg d = Ok c ->
  length (c_rulesets c) = length rss ->
  (forall k ra, nth_error (c_rulesets c) k = Some ra ->
                ruleset_sem benv (nth k rss []) cidx (ra_dfa ra)) ->
  (forall k r, In r (nth k rss []) -> (cidx (cr_act r) = None <-> cr_ctx r = None)) ->
  (forall k r i cre, In r (nth k rss []) -> cidx (cr_act r) = Some i -> cr_ctx r = Some cre ->
       exists ca, nth_error (c_ctxs c) i = Some ca /\ ctx_sem benv mg cre (ca_dfa ca)) ->
  (forall k r, In r (nth k rss []) -> nullable (of_regex benv (cr_re r)) = false) ->
  scan_ok benv (c_program c) rss cidx (c_entry c) (c_At c).
Proof.
  intros benv mg d c rss cidx Hc Hlen Hsem Hcn Hcr Hnn.
  destruct (compile_structure benv mg d c Hc) as [E [Hbt Hsimp Hprog Hne Hent]].
  rewrite Hprog. unfold c_entry, c_At.
  apply (pipeline_scan_ok benv mg (dfas (c_rulesets c)) rss cidx (c_joined c) E
           (c_simplified c) (c_entries c) (map ca_dfa (c_ctxs c))).
  - unfold dfas. rewrite map_length. exact Hlen.
  - unfold dfas. intros C. apply map_eq_nil in C. contradiction.
  - intros k Hk. unfold dfas in Hk |- *. rewrite map_length in Hk.
    destruct (nth_error (c_rulesets c) k) as [ra|] eqn:En; [|apply nth_error_None in En; lia].
    rewrite (nth_indep _ [] (ra_dfa ra)) by (rewrite map_length; exact Hk).
    rewrite map_nth. rewrite (nth_error_nth _ _ ra En). exact (Hsem k ra En).
  - exact Hbt.
  - exact Hsimp.
  - unfold dfas. rewrite map_length. exact Hent.
  - exact lookup_char_correct.
  - exact Hnn.
  - exact Hcn.
  - intros k r i cre Hin Hci Hctx.
    destruct (Hcr k r i cre Hin Hci Hctx) as [ca [Hn Hs]].
    pose proof (map_nth_error ca_dfa i (c_ctxs c) Hn) as Hm.
    erewrite nth_error_nth by exact Hm. exact Hs.
Qed.

Theorem compile_scan_ok : forall benv mg d c rss cidx,
  compile benv mg d = Ok c ->
  def_rulesets d = Ok rss ->
  (* one art per rule set, in order, each semantically correct *)
  length (c_rulesets c) = length rss ->
  (forall k ra, nth_error (c_rulesets c) k = Some ra ->
                ruleset_sem benv (nth k rss []) cidx (ra_dfa ra)) ->
  (* contexts *)
  (forall k r, In r (nth k rss []) -> (cidx (cr_act r) = None <-> cr_ctx r = None)) ->
  (forall k r i cre, In r (nth k rss []) -> cidx (cr_act r) = Some i -> cr_ctx r = Some cre ->
       exists ca, nth_error (c_ctxs c) i = Some ca /\ ctx_sem benv mg cre (ca_dfa ca)) ->
  (forall k r, In r (nth k rss []) -> nullable (of_regex benv (cr_re r)) = false) ->
  exists entry At, scan_ok benv (c_program c) rss cidx entry At.
Proof.
  intros benv mg d c rss cidx Hc _ Hlen Hsem Hcn Hcr Hnn.
  exists (c_entry c), (c_At c).
  exact (compile_scan_ok_wit benv mg d c rss cidx Hc Hlen Hsem Hcn Hcr Hnn).
Qed.

Print Assumptions compile_scan_ok_wit.
Print Assumptions compile_scan_ok.
