(* L4: the model of the subset construction (NfaToDfa.nfa_to_dfa_map) produces the subset
   automaton: the result satisfies NfaSem.dfa_closed and RulesetSemProofs.dfa_shape_ok.
   No axioms. *)
From LexVerif Require Import Base CharClass RangeMap RangeMapProofs Regex Spec LexSpec Nfa
     ClassAlgProofs
     Dfa NfaToDfa NfaSem BacktrackProofs SubsetProofs ThompsonProofs Driver SpecDef
     RulesetSemProofs.
From Coq Require Import List NArith Bool Arith Lia Sorted.
Import ListNotations.

(* ------------------------------------------------------------------ *)
(* 0. extra well-formedness of the NFA (established by every NFA operation of Nfa.v, but not
      part of ThompsonProofs.nfa_inv): char keys strictly ascending, no empty target lists *)

Definition ksorted {A} (l : list (N * A)) : Prop := StronglySorted N.lt (map fst l).

Definition nfa_trans_wf (n : nfa) : Prop :=
  forall s,
    ksorted (n_chars (nget n s)) /\
    (forall c l, In (c, l) (n_chars (nget n s)) -> l <> []) /\
    (forall r, In r (n_ranges (nget n s)) -> r_val r <> []).

(* characters and range ends of the NFA are code points *)
Definition nfa_chars_max (n : nfa) : Prop :=
  forall s,
    (forall c l, In (c, l) (n_chars (nget n s)) -> (c <= CHAR_MAX)%N) /\
    (forall r, In r (n_ranges (nget n s)) -> (r_hi r <= CHAR_MAX)%N).

(* ------------------------------------------------------------------ *)
(* 1. generic helpers *)

Definition geto {A} (o : option (list A)) : list A := match o with Some l => l | None => [] end.

Lemma fold_left_flat_map : forall A B C (f : A -> C -> A) (g : B -> list C) l a,
  fold_left (fun acc s => fold_left f (g s) acc) l a = fold_left f (flat_map g l) a.
Proof.
  intros A B C f g l. induction l as [|x l IH]; intros a; cbn [fold_left flat_map]; [reflexivity|].
  rewrite fold_left_app. apply IH.
Qed.

Lemma fold_union_in : forall A (f : A -> list nat) l acc x,
  In x (fold_left (fun acc s => set_union acc (f s)) l acc) <->
  In x acc \/ exists s, In s l /\ In x (f s).
Proof.
  intros A f l. induction l as [|a l IH]; intros acc x; cbn [fold_left].
  - split; [auto|]. intros [H|(s & [] & _)]. exact H.
  - rewrite IH, set_union_In. split.
    + intros [[H|H]|(s & H1 & H2)]; [auto|right; exists a; cbn; auto|right; exists s; cbn; auto].
    + intros [H|(s & [<-|H1] & H2)]; [auto|auto|right; eauto].
Qed.

(* association lists keyed by N *)

Lemma assoc_in : forall A k (v : A) l, assoc_N k l = Some v -> In (k, v) l.
Proof.
  intros A k v l. induction l as [|[k0 v0] t IH]; cbn [assoc_N]; [discriminate|].
  destruct (N.eqb_spec k k0); intros H.
  - injection H as <-. subst. left. reflexivity.
  - right. auto.
Qed.

Lemma in_assoc_some : forall A k (v : A) l, In (k, v) l -> exists v', assoc_N k l = Some v'.
Proof.
  intros A k v l. induction l as [|[k0 v0] t IH]; intros H; [destruct H|].
  cbn [assoc_N]. destruct (N.eqb_spec k k0); [eauto|].
  destruct H as [H|H]; [congruence|auto].
Qed.

Lemma assoc_none_keys : forall A k (l : list (N * A)),
  assoc_N k l = None <-> ~ In k (map fst l).
Proof.
  intros A k l. induction l as [|[k0 v0] t IH]; cbn [assoc_N map fst In]; [tauto|].
  destruct (N.eqb_spec k k0).
  - subst. split; [discriminate|]. intros H. exfalso. apply H. auto.
  - rewrite IH. split; [intros H [E|I]; [congruence|auto]|tauto].
Qed.

Lemma ksorted_in_assoc : forall A (l : list (N * A)) k v,
  ksorted l -> In (k, v) l -> assoc_N k l = Some v.
Proof.
  unfold ksorted. intros A l. induction l as [|[k0 v0] t IH]; intros k v S I; [destruct I|].
  cbn [map fst] in S. inversion S as [|? ? S1 S2]; subst.
  cbn [assoc_N]. destruct I as [E|I].
  - injection E as -> ->. rewrite N.eqb_refl. reflexivity.
  - destruct (N.eqb_spec k k0).
    + subst. exfalso. rewrite Forall_forall in S2.
      assert (X : (k0 < k0)%N) by (apply S2; apply in_map_iff; exists (k0, v); auto). lia.
    + auto.
Qed.

Lemma assoc_N_set_keys : forall A k (v : A) l k',
  In k' (map fst (assoc_N_set k v l)) <-> k' = k \/ In k' (map fst l).
Proof.
  intros A k v l k'. induction l as [|[k0 v0] t IH]; cbn [assoc_N_set map fst In].
  - intuition.
  - destruct (N.ltb_spec k k0); [cbn [map fst In]; intuition|].
    destruct (N.eqb_spec k k0); cbn [map fst In].
    + subst. intuition.
    + rewrite IH. intuition.
Qed.

Lemma assoc_N_set_sorted : forall A k (v : A) l, ksorted l -> ksorted (assoc_N_set k v l).
Proof.
  unfold ksorted. intros A k v l. induction l as [|[k0 v0] t IH]; intros S; cbn [assoc_N_set].
  - cbn. constructor; constructor.
  - cbn [map fst] in S. inversion S as [|? ? S1 S2]; subst. rewrite Forall_forall in S2.
    destruct (N.ltb_spec k k0).
    + cbn [map fst]. constructor; [exact S|]. constructor; [assumption|].
      rewrite Forall_forall. intros x Hx. specialize (S2 x Hx). lia.
    + destruct (N.eqb_spec k k0).
      * subst. cbn [map fst]. constructor; [assumption|]. rewrite Forall_forall. exact S2.
      * cbn [map fst]. constructor; [auto|]. rewrite Forall_forall. intros x Hx.
        apply assoc_N_set_keys in Hx. destruct Hx as [->|Hx]; [lia|auto].
Qed.

Lemma assoc_N_set_in : forall A k (v : A) l p,
  In p (assoc_N_set k v l) -> p = (k, v) \/ In p l.
Proof.
  intros A k v l p. induction l as [|[k0 v0] t IH]; cbn [assoc_N_set].
  - cbn. intuition.
  - destruct (N.ltb_spec k k0); [cbn; intuition|].
    destruct (N.eqb_spec k k0); cbn [In]; intuition.
Qed.

Lemma assoc_N_set_in_new : forall A k (v : A) l, In (k, v) (assoc_N_set k v l).
Proof.
  intros A k v l. apply assoc_in. rewrite assoc_N_set_get, N.eqb_refl. reflexivity.
Qed.

Lemma assoc_N_set_in_old : forall A k (v : A) l p,
  In p l -> fst p <> k -> In p (assoc_N_set k v l).
Proof.
  intros A k v l p. induction l as [|[k0 v0] t IH]; cbn [assoc_N_set]; intros I D; [destruct I|].
  destruct (N.ltb_spec k k0); [right; exact I|].
  destruct (N.eqb_spec k k0).
  - subst. destruct I as [<-|I]; [cbn in D; congruence|right; exact I].
  - destruct I as [<-|I]; [left; reflexivity|right; auto].
Qed.

(* closure depends only on the set of start states *)

Lemma set_of_list_ext : forall a b, (forall x, In x a <-> In x b) -> set_of_list a = set_of_list b.
Proof.
  intros a b H. apply ssorted_ext; try apply set_of_list_sorted.
  intros x. rewrite !set_of_list_in. apply H.
Qed.

Lemma closure_ext : forall n a b, (forall x, In x a <-> In x b) -> closure n a = closure n b.
Proof. intros n a b H. unfold closure. rewrite (set_of_list_ext a b H). reflexivity. Qed.

Lemma closure_incl : forall n a C x, closure n a = Ok C -> In x a -> In x C.
Proof.
  intros n a C x H I. apply closure_spec in H. destruct H as (H & _).
  apply H. exists x. split; [exact I|constructor].
Qed.

Lemma closure_nil_iff : forall n a C, closure n a = Ok C -> (C = [] <-> forall x, ~ In x a).
Proof.
  intros n a C H. split.
  - intros -> x I. apply (closure_incl _ _ _ _ H I).
  - intros E. destruct C as [|y C]; [reflexivity|]. exfalso.
    apply closure_spec in H. destruct H as (H & _).
    destruct (proj1 (H y) (or_introl eq_refl)) as (s & I & _). apply (E s I).
Qed.

(* result folds *)

Lemma fold_panic : forall A B (f : result A -> B -> result A) l t,
  (forall t b, f (Panic t) b = Panic t) -> fold_left f l (Panic t) = Panic t.
Proof.
  intros A B f l t H. induction l as [|b l IH]; cbn [fold_left]; [reflexivity|].
  rewrite H. exact IH.
Qed.

(* dget / upd *)

Lemma upd_overflow : forall A k f (l : list A), length l <= k -> upd k f l = l.
Proof.
  intros A k f l. revert k. induction l as [|x t IH]; intros [|k] H; cbn in *; try reflexivity; try lia.
  rewrite IH by lia. reflexivity.
Qed.

Lemma dget_upd : forall (d : dfa nat) k f i, k < length d ->
  dget (upd k f d) i = if i =? k then f (dget d i) else dget d i.
Proof.
  intros d k f i H. unfold dget. destruct (Nat.eqb_spec i k).
  - subst. apply nth_upd_same. exact H.
  - apply nth_upd_other. auto.
Qed.

Lemma dget_app_old : forall (d : dfa nat) x i, i < length d -> dget (d ++ [x]) i = dget d i.
Proof. intros. unfold dget. apply app_nth1. assumption. Qed.

Lemma dget_app_new : forall (d : dfa nat) x, dget (d ++ [x]) (length d) = x.
Proof. intros. unfold dget. rewrite app_nth2 by lia. rewrite Nat.sub_diag. reflexivity. Qed.

Lemma dget_overflow : forall (d : dfa nat) i, length d <= i -> dget d i = @dstate_empty nat.
Proof. intros. unfold dget. apply nth_overflow. assumption. Qed.

Lemma dstate_eta : forall T (st : dstate T),
  st = mkD (d_init st) (d_chars st) (d_ranges st) (d_any st) (d_eoi st) (d_acc st) (d_preds st)
           (d_bt st).
Proof. intros T []. reflexivity. Qed.

(* labels *)

Lemma find_label_in : forall (m : state_map) L i,
  NoDup (map snd m) -> In (L, i) m -> find (fun e => snd e =? i) m = Some (L, i).
Proof.
  intros m L i. induction m as [|[L0 i0] t IH]; intros N I; [destruct I|].
  cbn [map snd] in N. inversion N as [|? ? N1 N2]; subst.
  cbn [find snd]. destruct I as [E|I].
  - injection E as -> ->. rewrite Nat.eqb_refl. reflexivity.
  - destruct (Nat.eqb_spec i0 i).
    + subst. exfalso. apply N1. apply in_map_iff. exists (L, i). auto.
    + auto.
Qed.

Lemma label_of_in : forall (m : state_map) L i,
  NoDup (map snd m) -> In (L, i) m -> label_of m i = Some L.
Proof. intros. unfold label_of. rewrite (find_label_in m L i); auto. Qed.

Lemma label_of_inv : forall (m : state_map) L i, label_of m i = Some L -> In (L, i) m.
Proof.
  intros m L i H. unfold label_of in H.
  destruct (find (fun e => snd e =? i) m) as [[L0 i0]|] eqn:E; [|discriminate].
  apply find_some in E. destruct E as [E1 E2]. cbn in *. injection H as <-.
  apply Nat.eqb_eq in E2. subst. exact E1.
Qed.

Lemma list_nat_eqb_eq : forall a b, list_nat_eqb a b = true <-> a = b.
Proof.
  induction a as [|x a IH]; intros [|y b]; cbn [list_nat_eqb]; try (split; [discriminate|congruence]).
  - tauto.
  - rewrite andb_true_iff, Nat.eqb_eq, IH. split; [intros [-> ->]; reflexivity|].
    intros E. injection E as -> ->. auto.
Qed.

Lemma sm_find_some : forall m k v, sm_find m k = Some v -> In (k, v) m.
Proof.
  intros m k v. induction m as [|[k0 v0] t IH]; cbn [sm_find]; [discriminate|].
  destruct (list_nat_eqb k k0) eqn:E.
  - apply list_nat_eqb_eq in E. subst. intros H. injection H as <-. left. reflexivity.
  - intros H. right. auto.
Qed.

Lemma sm_find_none : forall m k, sm_find m k = None -> ~ In k (map fst m).
Proof.
  intros m k. induction m as [|[k0 v0] t IH]; cbn [sm_find map fst In]; [tauto|].
  destruct (list_nat_eqb k k0) eqn:E; [discriminate|].
  intros H [X|X].
  - subst. assert (Y : list_nat_eqb k k = true) by (apply list_nat_eqb_eq; reflexivity). congruence.
  - apply (IH H X).
Qed.

Lemma sm_find_in : forall m k v, NoDup (map fst m) -> In (k, v) m -> sm_find m k = Some v.
Proof.
  intros m k v. induction m as [|[k0 v0] t IH]; intros N I; [destruct I|].
  cbn [map fst] in N. inversion N as [|? ? N1 N2]; subst.
  cbn [sm_find]. destruct I as [E|I].
  - injection E as -> ->. rewrite (proj2 (list_nat_eqb_eq k k) eq_refl). reflexivity.
  - destruct (list_nat_eqb k k0) eqn:E.
    + apply list_nat_eqb_eq in E. subst. exfalso. apply N1. apply in_map_iff. exists (k0, v). auto.
    + auto.
Qed.

(* ------------------------------------------------------------------ *)
(* 2. the merged transitions of a set of NFA states *)

Definition cstep (acc' : list (N * list nat)) (p : N * list nat) : list (N * list nat) :=
  assoc_N_set (fst p)
    (set_union (match assoc_N (fst p) acc' with Some l => l | None => [] end) (snd p)) acc'.

Definition rstep (acc : rmap (list nat)) (r : range (list nat)) : rmap (list nat) :=
  insert set_union acc (r_lo r) (r_hi r) (r_val r).

Lemma collect_chars_eq : forall n S,
  collect_chars n S = fold_left cstep (flat_map (fun s => n_chars (nget n s)) S) [].
Proof.
  intros n S. unfold collect_chars.
  apply (fold_left_flat_map _ _ _ cstep (fun s => n_chars (nget n s))).
Qed.

Lemma collect_ranges_eq : forall n S,
  collect_ranges n S = fold_left rstep (flat_map (fun s => n_ranges (nget n s)) S) [].
Proof.
  intros n S. unfold collect_ranges.
  apply (fold_left_flat_map _ _ _ rstep (fun s => n_ranges (nget n s))).
Qed.

Lemma cstep_get : forall acc p c,
  assoc_N c (cstep acc p) =
  if (c =? fst p)%N then Some (set_union (geto (assoc_N (fst p) acc)) (snd p)) else assoc_N c acc.
Proof. intros. unfold cstep. rewrite assoc_N_set_get. reflexivity. Qed.

Lemma cfold_spec : forall pairs acc c,
  (assoc_N c (fold_left cstep pairs acc) <> None <->
   assoc_N c acc <> None \/ exists p, In p pairs /\ fst p = c) /\
  (forall x, In x (geto (assoc_N c (fold_left cstep pairs acc))) <->
             In x (geto (assoc_N c acc)) \/ exists p, In p pairs /\ fst p = c /\ In x (snd p)).
Proof.
  induction pairs as [|p ps IH]; intros acc c; cbn [fold_left].
  - split.
    + split; [auto|]. intros [H|(p & [] & _)]. exact H.
    + intros x. split; [auto|]. intros [H|(p & [] & _)]. exact H.
  - destruct (IH (cstep acc p) c) as [IH1 IH2]. split.
    + rewrite IH1, cstep_get. destruct (N.eqb_spec c (fst p)) as [E|E].
      * split; [intros _; right; exists p; cbn; auto|intros _; left; discriminate].
      * split.
        -- intros [H|(q & I & F)]; [auto|right; exists q; cbn; auto].
        -- intros [H|(q & [<-|I] & F)]; [auto|congruence|right; eauto].
    + intros x. rewrite IH2, cstep_get. destruct (N.eqb_spec c (fst p)) as [E|E].
      * cbn [geto]. rewrite set_union_In. subst c. split.
        -- intros [[H|H]|(q & I & F & X)]; [auto|right; exists p; cbn; auto|right; exists q; cbn; auto].
        -- intros [H|(q & [<-|I] & F & X)]; [auto|auto|right; eauto].
      * split.
        -- intros [H|(q & I & F & X)]; [auto|right; exists q; cbn; auto].
        -- intros [H|(q & [<-|I] & F & X)]; [auto|congruence|right; eauto].
Qed.

Lemma cfold_sorted : forall pairs acc, ksorted acc -> ksorted (fold_left cstep pairs acc).
Proof.
  induction pairs as [|p ps IH]; intros acc H; cbn [fold_left]; [exact H|].
  apply IH. unfold cstep. apply assoc_N_set_sorted. exact H.
Qed.

Lemma rstep_lookup : forall acc r c, wf acc = true -> (r_lo r <= r_hi r)%N ->
  lookup (rstep acc r) c =
  if in_range r c then Some (match lookup acc c with Some x => set_union x (r_val r)
                                                 | None => r_val r end)
  else lookup acc c.
Proof. intros. unfold rstep. rewrite insert_lookup by assumption. reflexivity. Qed.

Lemma rfold_spec : forall pieces acc,
  wf acc = true -> (forall r, In r pieces -> (r_lo r <= r_hi r)%N) ->
  wf (fold_left rstep pieces acc) = true /\
  forall c,
    (lookup (fold_left rstep pieces acc) c <> None <->
     lookup acc c <> None \/ exists r, In r pieces /\ in_range r c = true) /\
    (forall x, In x (geto (lookup (fold_left rstep pieces acc) c)) <->
               In x (geto (lookup acc c)) \/
               exists r, In r pieces /\ in_range r c = true /\ In x (r_val r)).
Proof.
  induction pieces as [|p ps IH]; intros acc W L; cbn [fold_left].
  - split; [exact W|]. intros c. split.
    + split; [auto|]. intros [H|(p & [] & _)]. exact H.
    + intros x. split; [auto|]. intros [H|(p & [] & _)]. exact H.
  - assert (Lp : (r_lo p <= r_hi p)%N) by (apply L; left; reflexivity).
    assert (W1 : wf (rstep acc p) = true) by (apply insert_wf; assumption).
    destruct (IH (rstep acc p) W1) as [IHw IHc]. { intros r I. apply L. right. exact I. }
    split; [exact IHw|]. intros c. destruct (IHc c) as [IH1 IH2]. split.
    + rewrite IH1, rstep_lookup by assumption. destruct (in_range p c) eqn:E.
      * split; [intros _; right; exists p; cbn; auto|intros _; left; discriminate].
      * split.
        -- intros [H|(q & I & F)]; [auto|right; exists q; cbn; auto].
        -- intros [H|(q & [<-|I] & F)]; [auto|congruence|right; eauto].
    + intros x. rewrite IH2, rstep_lookup by assumption. destruct (in_range p c) eqn:E.
      * cbn [geto]. destruct (lookup acc c) as [v|]; cbn [geto].
        -- rewrite set_union_In. split.
           ++ intros [[H|H]|(q & I & F & X)];
                [auto|right; exists p; cbn; auto|right; exists q; cbn; auto].
           ++ intros [H|(q & [<-|I] & F & X)]; [auto|auto|right; eauto].
        -- split.
           ++ intros [H|(q & I & F & X)]; [right; exists p; cbn; auto|right; exists q; cbn; auto].
           ++ intros [[]|(q & [<-|I] & F & X)]; [auto|right; eauto].
      * split.
        -- intros [H|(q & I & F & X)]; [auto|right; exists q; cbn; auto].
        -- intros [H|(q & [<-|I] & F & X)]; [auto|congruence|right; eauto].
Qed.

Lemma insert_hi_bound : forall (rs : rmap (list nat)) lo hi v M,
  wf rs = true -> (lo <= hi)%N -> (hi <= M)%N ->
  (forall r, In r rs -> (r_hi r <= M)%N) ->
  forall r, In r (insert set_union rs lo hi v) -> (r_hi r <= M)%N.
Proof.
  intros rs lo hi v M W L HM B r I.
  pose proof (insert_wf _ set_union rs lo hi v W L) as W'.
  destruct (wf_endpoints_members _ _ r W' I) as (_ & _ & C).
  unfold covered in C. rewrite insert_lookup in C by assumption.
  destruct (N.leb_spec lo (r_hi r)); destruct (N.leb_spec (r_hi r) hi); cbn [andb] in C; try lia.
  all: assert (C' : covered rs (r_hi r) = true) by (unfold covered; exact C).
    apply lookup_some_iff in C'. destruct C' as (r0 & I0 & R0). specialize (B r0 I0). lia.
Qed.

Lemma rfold_bound : forall pieces acc M,
  wf acc = true -> (forall r, In r pieces -> (r_lo r <= r_hi r)%N) ->
  (forall r, In r pieces -> (r_hi r <= M)%N) -> (forall r, In r acc -> (r_hi r <= M)%N) ->
  forall r, In r (fold_left rstep pieces acc) -> (r_hi r <= M)%N.
Proof.
  induction pieces as [|p ps IH]; intros acc M W L B1 B2; cbn [fold_left]; [exact B2|].
  assert (Lp : (r_lo p <= r_hi p)%N) by (apply L; left; reflexivity).
  apply IH.
  - apply insert_wf; assumption.
  - intros r I. apply L. right. exact I.
  - intros r I. apply B1. right. exact I.
  - unfold rstep. apply insert_hi_bound; auto. apply B1. left. reflexivity.
Qed.

Lemma with_ranges_in : forall (ranges : rmap (list nat)) c acc x,
  In x (fold_left (fun s r => if in_range r c then set_union s (r_val r) else s) ranges acc) <->
  In x acc \/ exists r, In r ranges /\ in_range r c = true /\ In x (r_val r).
Proof.
  induction ranges as [|r rs IH]; intros c acc x; cbn [fold_left].
  - split; [auto|]. intros [H|(p & [] & _)]. exact H.
  - rewrite IH. destruct (in_range r c) eqn:E.
    + rewrite set_union_In. split.
      * intros [[H|H]|(q & I & F & X)]; [auto|right; exists r; cbn; auto|right; exists q; cbn; auto].
      * intros [H|(q & [<-|I] & F & X)]; [auto|auto|right; eauto].
    + split.
      * intros [H|(q & I & F & X)]; [auto|right; exists q; cbn; auto].
      * intros [H|(q & [<-|I] & F & X)]; [auto|congruence|right; eauto].
Qed.

Lemma geto_lookup_rtargets : forall (rs : rmap (list nat)) c x, wf rs = true ->
  (In x (geto (lookup rs c)) <-> exists r, In r rs /\ in_range r c = true /\ In x (r_val r)).
Proof.
  intros rs c x W. rewrite <- rtargets_in, rtargets_lookup by exact W.
  destruct (lookup rs c) as [l|]; cbn [geto].
  - split; [eauto|]. intros (l' & E & I). injection E as <-. exact I.
  - split; [intros []|]. intros (l' & E & _). discriminate.
Qed.

Section Collect.
Variable n : nfa.
Variable S : list nat.
Hypothesis RW : nfa_ranges_wf n.
Hypothesis TW : nfa_trans_wf n.

Let chars := collect_chars n S.
Let ranges := collect_ranges n S.
Let anys := collect_any n S.
Let eois := collect_eoi n S.

Lemma collect_any_in : forall x, In x anys <-> exists s, In s S /\ In x (n_any (nget n s)).
Proof.
  intros x. unfold anys, collect_any. rewrite fold_union_in. cbn [In]. tauto.
Qed.

Lemma collect_eoi_in : forall x, In x eois <-> exists s, In s S /\ In x (n_eoi (nget n s)).
Proof.
  intros x. unfold eois, collect_eoi. rewrite fold_union_in. cbn [In]. tauto.
Qed.

Lemma collect_chars_sorted : ksorted chars.
Proof.
  unfold chars. rewrite collect_chars_eq. apply cfold_sorted. constructor.
Qed.

Lemma collect_chars_key : forall c,
  assoc_N c chars <> None <-> exists s, In s S /\ assoc_N c (n_chars (nget n s)) <> None.
Proof.
  intros c. unfold chars. rewrite collect_chars_eq.
  rewrite (proj1 (cfold_spec _ [] c)). cbn [assoc_N]. split.
  - intros [H|(p & I & F)]; [congruence|]. apply in_flat_map in I. destruct I as (s & Is & Ip).
    exists s. split; [exact Is|]. destruct p as [k l]. cbn in F. subst k.
    destruct (in_assoc_some _ _ _ _ Ip) as (v & E). congruence.
  - intros (s & Is & H). right.
    destruct (assoc_N c (n_chars (nget n s))) as [l|] eqn:E; [|congruence].
    exists (c, l). split; [|reflexivity]. apply in_flat_map. exists s. split; [exact Is|].
    apply assoc_in. exact E.
Qed.

Lemma collect_chars_val : forall c x,
  In x (geto (assoc_N c chars)) <->
  exists s, In s S /\ In x (geto (assoc_N c (n_chars (nget n s)))).
Proof.
  intros c x. unfold chars. rewrite collect_chars_eq.
  rewrite (proj2 (cfold_spec _ [] c)). cbn [assoc_N geto In]. split.
  - intros [[]|(p & I & F & X)]. apply in_flat_map in I. destruct I as (s & Is & Ip).
    exists s. split; [exact Is|]. destruct p as [k l]. cbn in F, X. subst k.
    rewrite (ksorted_in_assoc _ _ _ _ (proj1 (TW s)) Ip). exact X.
  - intros (s & Is & X). right.
    destruct (assoc_N c (n_chars (nget n s))) as [l|] eqn:E; [|destruct X].
    exists (c, l). split; [|auto]. apply in_flat_map. exists s. split; [exact Is|].
    apply assoc_in. exact E.
Qed.

Lemma collect_chars_nonempty : forall c tg, assoc_N c chars = Some tg -> tg <> [].
Proof.
  intros c tg E.
  assert (K : assoc_N c chars <> None) by congruence.
  apply collect_chars_key in K. destruct K as (s & Is & K).
  destruct (assoc_N c (n_chars (nget n s))) as [l|] eqn:El; [|congruence].
  assert (Nl : l <> []). { apply (proj1 (proj2 (TW s)) c). apply assoc_in. exact El. }
  destruct l as [|x l]; [congruence|].
  assert (X : In x (geto (assoc_N c chars))).
  { apply collect_chars_val. exists s. split; [exact Is|]. rewrite El. left. reflexivity. }
  rewrite E in X. cbn in X. intros ->. destruct X.
Qed.

Lemma pieces_le : forall r, In r (flat_map (fun s => n_ranges (nget n s)) S) -> (r_lo r <= r_hi r)%N.
Proof.
  intros r I. apply in_flat_map in I. destruct I as (s & _ & I).
  eapply wf_in_nonempty; [apply (RW s)|exact I].
Qed.

Lemma collect_ranges_wf : wf ranges = true.
Proof.
  unfold ranges. rewrite collect_ranges_eq.
  apply (rfold_spec _ [] eq_refl pieces_le).
Qed.

Lemma collect_ranges_key : forall c,
  lookup ranges c <> None <->
  exists s r, In s S /\ In r (n_ranges (nget n s)) /\ in_range r c = true.
Proof.
  intros c. unfold ranges. rewrite collect_ranges_eq.
  destruct (rfold_spec _ [] eq_refl pieces_le) as [_ H]. rewrite (proj1 (H c)). cbn [lookup].
  split.
  - intros [X|(r & I & E)]; [congruence|]. apply in_flat_map in I. destruct I as (s & Is & Ir).
    eauto.
  - intros (s & r & Is & Ir & E). right. exists r. split; [|exact E].
    apply in_flat_map. eauto.
Qed.

Lemma collect_ranges_val : forall c x,
  In x (geto (lookup ranges c)) <->
  exists s, In s S /\ In x (rtargets (n_ranges (nget n s)) c).
Proof.
  intros c x. unfold ranges. rewrite collect_ranges_eq.
  destruct (rfold_spec _ [] eq_refl pieces_le) as [_ H]. rewrite (proj2 (H c)). cbn [lookup geto In].
  split.
  - intros [[]|(r & I & E & X)]. apply in_flat_map in I. destruct I as (s & Is & Ir).
    exists s. split; [exact Is|]. apply rtargets_in. eauto.
  - intros (s & Is & X). right. apply rtargets_in in X. destruct X as (r & Ir & E & X).
    exists r. split; [|auto]. apply in_flat_map. eauto.
Qed.

Lemma collect_ranges_nonempty : forall c v, lookup ranges c = Some v -> v <> [].
Proof.
  intros c v E.
  assert (K : lookup ranges c <> None) by congruence.
  apply collect_ranges_key in K. destruct K as (s & r & Is & Ir & Er).
  pose proof (proj2 (proj2 (TW s)) r Ir) as Nr.
  destruct (r_val r) as [|x l] eqn:Ev; [congruence|].
  assert (X : In x (geto (lookup ranges c))).
  { apply collect_ranges_val. exists s. split; [exact Is|]. apply rtargets_in.
    exists r. rewrite Ev. cbn. auto. }
  rewrite E in X. cbn in X. intros ->. destruct X.
Qed.

Lemma collect_ranges_bound : nfa_chars_max n -> forall r, In r ranges -> (r_hi r <= CHAR_MAX)%N.
Proof.
  intros B. unfold ranges. rewrite collect_ranges_eq.
  apply rfold_bound; [reflexivity|exact pieces_le| |intros r []].
  intros r I. apply in_flat_map in I. destruct I as (s & _ & I). apply (proj2 (B s) r I).
Qed.

Lemma collect_chars_bound : nfa_chars_max n ->
  forall c, assoc_N c chars <> None -> (c <= CHAR_MAX)%N.
Proof.
  intros B c K. apply collect_chars_key in K. destruct K as (s & _ & K).
  destruct (assoc_N c (n_chars (nget n s))) as [l|] eqn:E; [|congruence].
  apply (proj1 (B s) c l). apply assoc_in. exact E.
Qed.

(* the start set of the closure computed for a char transition *)
Definition char_targets (c : N) (tg : list nat) : list nat :=
  set_union (fold_left (fun s r => if in_range r c then set_union s (r_val r) else s) ranges tg)
            anys.

Lemma char_targets_in : forall c tg x,
  In x (char_targets c tg) <-> In x tg \/ In x (geto (lookup ranges c)) \/ In x anys.
Proof.
  intros c tg x. unfold char_targets. rewrite set_union_In, with_ranges_in.
  rewrite (geto_lookup_rtargets ranges c x collect_ranges_wf). tauto.
Qed.

Lemma step_chr_in : forall c x,
  In x (set_step n S (Chr c)) <->
  In x (geto (assoc_N c chars)) \/ In x (geto (lookup ranges c)) \/ In x anys.
Proof.
  intros c x. rewrite set_step_in, collect_chars_val, collect_ranges_val, collect_any_in.
  cbn [n_sym_targets]. split.
  - intros (s & Is & X). apply n_char_targets_in in X.
    destruct X as [X|[X|X]]; [left|right; left|right; right]; exists s; auto.
  - intros [(s & Is & X)|[(s & Is & X)|(s & Is & X)]]; exists s; (split; [exact Is|]);
      apply n_char_targets_in; auto.
Qed.

Lemma step_eoi_in : forall x, In x (set_step n S Eoi) <-> In x eois.
Proof. intros x. rewrite set_step_in, collect_eoi_in. cbn [n_sym_targets]. tauto. Qed.

End Collect.

(* ------------------------------------------------------------------ *)
(* 3. effect of the DFA building operations *)

Definition same_trans (a b : dstate nat) : Prop :=
  d_init a = d_init b /\ d_chars a = d_chars b /\ d_ranges a = d_ranges b /\ d_any a = d_any b /\
  d_eoi a = d_eoi b /\ d_acc a = d_acc b /\ d_bt a = d_bt b.

Lemma same_trans_refl : forall a, same_trans a a.
Proof. intros a. unfold same_trans. tauto. Qed.

Lemma same_trans_succ : forall a b, same_trans a b -> successors a = successors b.
Proof.
  intros a b (_ & H1 & H2 & H3 & H4 & _). unfold successors. rewrite H1, H2, H3, H4. reflexivity.
Qed.

Lemma same_trans_next : forall a b x, same_trans a b -> dfa_next a x = dfa_next b x.
Proof.
  intros a b x (_ & H1 & H2 & H3 & H4 & _). unfold dfa_next, dfa_char_next.
  rewrite H1, H2, H3, H4. reflexivity.
Qed.

Lemma successors_in : forall (st : dstate nat) j,
  In j (successors st) <->
  (exists c, In (c, j) (d_chars st)) \/ (exists r, In r (d_ranges st) /\ r_val r = j) \/
  d_any st = Some j \/ d_eoi st = Some j.
Proof.
  intros st j. unfold successors. rewrite !in_app_iff, !in_map_iff. split.
  - intros [((c & t) & E & I)|[(r & E & I)|[H|H]]].
    + cbn in E. subst. left. eauto.
    + right; left. eauto.
    + destruct (d_any st) as [a|]; [|destruct H]. destruct H as [->|[]]. auto.
    + destruct (d_eoi st) as [a|]; [|destruct H]. destruct H as [->|[]]. auto.
  - intros [(c & I)|[(r & I & E)|[H|H]]].
    + left. exists (c, j). auto.
    + right; left. eauto.
    + right; right; left. rewrite H. left. reflexivity.
    + right; right; right. rewrite H. left. reflexivity.
Qed.

Lemma add_pred_length : forall d t s, length (add_pred d t s) = length d.
Proof. intros. unfold add_pred. apply upd_length. Qed.

Lemma add_pred_spec : forall d t s i, t < length d ->
  dget (add_pred d t s) i =
  let st := dget d i in
  mkD (d_init st) (d_chars st) (d_ranges st) (d_any st) (d_eoi st) (d_acc st)
      (if i =? t then set_add s (d_preds st) else d_preds st) (d_bt st).
Proof.
  intros d t s i H. unfold add_pred. rewrite dget_upd by exact H.
  destruct (i =? t); cbn zeta; [reflexivity|apply dstate_eta].
Qed.

Lemma add_char_spec : forall d s c t d',
  dfa_add_char_transition d s c t = Ok d' -> s < length d -> t < length d ->
  assoc_N c (d_chars (dget d s)) = None /\ length d' = length d /\
  forall i, dget d' i =
    let st := dget d i in
    mkD (d_init st) (if i =? s then assoc_N_set c t (d_chars st) else d_chars st) (d_ranges st)
        (d_any st) (d_eoi st) (d_acc st)
        (if i =? t then set_add s (d_preds st) else d_preds st) (d_bt st).
Proof.
  intros d s c t d' H Ls Lt. unfold dfa_add_char_transition in H.
  destruct (assoc_N c (d_chars (dget d s))) eqn:E; [discriminate|]. injection H as <-.
  split; [reflexivity|]. split; [rewrite add_pred_length; apply upd_length|].
  intros i. rewrite add_pred_spec by (rewrite upd_length; exact Lt).
  rewrite dget_upd by exact Ls. cbn zeta. destruct (i =? s); reflexivity.
Qed.

Lemma set_any_spec : forall d s t d',
  dfa_set_any d s t = Ok d' -> s < length d -> t < length d ->
  d_any (dget d s) = None /\ length d' = length d /\
  forall i, dget d' i =
    let st := dget d i in
    mkD (d_init st) (d_chars st) (d_ranges st)
        (if i =? s then Some t else d_any st) (d_eoi st) (d_acc st)
        (if i =? t then set_add s (d_preds st) else d_preds st) (d_bt st).
Proof.
  intros d s t d' H Ls Lt. unfold dfa_set_any in H.
  destruct (d_any (dget d s)) eqn:E; [discriminate|]. injection H as <-.
  split; [reflexivity|]. split; [rewrite add_pred_length; apply upd_length|].
  intros i. rewrite add_pred_spec by (rewrite upd_length; exact Lt).
  rewrite dget_upd by exact Ls. cbn zeta. destruct (i =? s); reflexivity.
Qed.

Lemma set_eoi_spec : forall d s t d',
  dfa_set_eoi d s t = Ok d' -> s < length d -> t < length d ->
  d_eoi (dget d s) = None /\ length d' = length d /\
  forall i, dget d' i =
    let st := dget d i in
    mkD (d_init st) (d_chars st) (d_ranges st) (d_any st)
        (if i =? s then Some t else d_eoi st) (d_acc st)
        (if i =? t then set_add s (d_preds st) else d_preds st) (d_bt st).
Proof.
  intros d s t d' H Ls Lt. unfold dfa_set_eoi in H.
  destruct (d_eoi (dget d s)) eqn:E; [discriminate|]. injection H as <-.
  split; [reflexivity|]. split; [rewrite add_pred_length; apply upd_length|].
  intros i. rewrite add_pred_spec by (rewrite upd_length; exact Lt).
  rewrite dget_upd by exact Ls. cbn zeta. destruct (i =? s); reflexivity.
Qed.

Lemma fold_add_pred_spec : forall (rs : rmap nat) d s,
  (forall r, In r rs -> r_val r < length d) ->
  length (fold_left (fun acc r => add_pred acc (r_val r) s) rs d) = length d /\
  forall i,
    same_trans (dget (fold_left (fun acc r => add_pred acc (r_val r) s) rs d) i) (dget d i) /\
    forall q, In q (d_preds (dget (fold_left (fun acc r => add_pred acc (r_val r) s) rs d) i)) <->
              In q (d_preds (dget d i)) \/ (q = s /\ exists r, In r rs /\ r_val r = i).
Proof.
  induction rs as [|r rs IH]; intros d s B; cbn [fold_left].
  - split; [reflexivity|]. intros i. split; [apply same_trans_refl|].
    intros q. split; [auto|]. intros [H|(_ & r & [] & _)]. exact H.
  - assert (Lr : r_val r < length d) by (apply B; left; reflexivity).
    destruct (IH (add_pred d (r_val r) s) s) as [IL IS].
    { intros r' I. rewrite add_pred_length. apply B. right. exact I. }
    rewrite add_pred_length in IL. split; [exact IL|].
    intros i. destruct (IS i) as [I1 I2]. rewrite add_pred_spec in I1, I2 by exact Lr.
    cbn zeta in I1, I2. split.
    + unfold same_trans in *. cbn in I1. exact I1.
    + intros q. rewrite I2. cbn [d_preds]. destruct (Nat.eqb_spec i (r_val r)) as [E|E].
      * rewrite set_add_In. split.
        -- intros [[->|H]|(-> & r' & I & E')];
             [right; split; [reflexivity|exists r; cbn; auto]|auto|
              right; split; [reflexivity|exists r'; cbn; auto]].
        -- intros [H|(-> & r' & [<-|I] & E')]; [auto|auto|right; eauto].
      * split.
        -- intros [H|(-> & r' & I & E')]; [auto|right; split; [reflexivity|exists r'; cbn; auto]].
        -- intros [H|(-> & r' & [<-|I] & E')]; [auto|congruence|right; eauto].
Qed.

Lemma set_ranges_spec : forall d s (rs : rmap nat) d',
  dfa_set_range_transitions d s rs = Ok d' -> s < length d ->
  (forall r, In r rs -> r_val r < length d) ->
  d_ranges (dget d s) = [] /\ length d' = length d /\
  forall i,
    d_init (dget d' i) = d_init (dget d i) /\ d_chars (dget d' i) = d_chars (dget d i) /\
    d_ranges (dget d' i) = (if i =? s then rs else d_ranges (dget d i)) /\
    d_any (dget d' i) = d_any (dget d i) /\ d_eoi (dget d' i) = d_eoi (dget d i) /\
    d_acc (dget d' i) = d_acc (dget d i) /\ d_bt (dget d' i) = d_bt (dget d i) /\
    forall q, In q (d_preds (dget d' i)) <->
              In q (d_preds (dget d i)) \/ (q = s /\ exists r, In r rs /\ r_val r = i).
Proof.
  intros d s rs d' H Ls B. unfold dfa_set_range_transitions in H.
  destruct (d_ranges (dget d s)) eqn:E; [|discriminate]. injection H as <-.
  destruct (fold_add_pred_spec rs d s B) as [FL FS].
  split; [reflexivity|]. split; [rewrite upd_length; exact FL|].
  intros i. rewrite dget_upd by (rewrite FL; exact Ls).
  destruct (FS i) as [(T1 & T2 & T3 & T4 & T5 & T6 & T7) P].
  destruct (i =? s); cbn; repeat split; try assumption; try apply P.
Qed.

Lemma make_acc_fold : forall n l d cur, cur < length d ->
  length (fold_left (fun d s => match n_acc (nget n s) with
                                | Some v => dfa_make_accepting d cur v
                                | None => d end) l d) = length d /\
  forall i,
    dget (fold_left (fun d s => match n_acc (nget n s) with
                                | Some v => dfa_make_accepting d cur v
                                | None => d end) l d) i =
    let st := dget d i in
    mkD (d_init st) (d_chars st) (d_ranges st) (d_any st) (d_eoi st)
        (if i =? cur then d_acc st ++ set_accepting n l else d_acc st) (d_preds st) (d_bt st).
Proof.
  intros n. induction l as [|s l IH]; intros d cur L; cbn [fold_left].
  - split; [reflexivity|]. intros i. cbn [set_accepting flat_map]. rewrite app_nil_r.
    cbn zeta. destruct (i =? cur); apply dstate_eta.
  - cbn [set_accepting flat_map]. fold (set_accepting n l).
    destruct (n_acc (nget n s)) as [v|].
    + destruct (IH (dfa_make_accepting d cur v) cur) as [IL IS].
      { unfold dfa_make_accepting. rewrite upd_length. exact L. }
      assert (EL : length (dfa_make_accepting d cur v) = length d) by apply upd_length.
      rewrite EL in IL. split; [exact IL|].
      intros i. rewrite IS.
      assert (EG : dget (dfa_make_accepting d cur v) i =
                   if i =? cur then
                     (fun st => mkD (d_init st) (d_chars st) (d_ranges st) (d_any st) (d_eoi st)
                                    (d_acc st ++ [v]) (d_preds st) (d_bt st)) (dget d i)
                   else dget d i).
      { unfold dfa_make_accepting. apply dget_upd. exact L. }
      rewrite EG. cbn zeta.
      destruct (i =? cur); cbn; [rewrite <- app_assoc|]; reflexivity.
    + cbn [app]. apply IH. exact L.
Qed.

(* abstract description of "state cur gets transitions to the states in T" *)
Definition adds_edges (cur : nat) (T : nat -> Prop) (d d' : dfa nat) : Prop :=
  length d' = length d /\
  (forall i, i <> cur -> same_trans (dget d' i) (dget d i)) /\
  d_init (dget d' cur) = d_init (dget d cur) /\ d_bt (dget d' cur) = d_bt (dget d cur) /\
  (forall j, In j (successors (dget d' cur)) <-> In j (successors (dget d cur)) \/ T j) /\
  (forall i q, In q (d_preds (dget d' i)) <-> In q (d_preds (dget d i)) \/ (q = cur /\ T i)).

Lemma assoc_N_set_in_iff : forall A k (v : A) l p, assoc_N k l = None ->
  (In p (assoc_N_set k v l) <-> p = (k, v) \/ In p l).
Proof.
  intros A k v l p E. split; [apply assoc_N_set_in|].
  intros [->|I]; [apply assoc_N_set_in_new|]. apply assoc_N_set_in_old; [exact I|].
  intros F. destruct p as [k' v']. cbn in F. subst k'.
  destruct (in_assoc_some _ _ _ _ I) as (v0 & E0). congruence.
Qed.

Lemma add_char_edges : forall d s c t d',
  dfa_add_char_transition d s c t = Ok d' -> s < length d -> t < length d ->
  adds_edges s (eq t) d d' /\
  d_chars (dget d' s) = assoc_N_set c t (d_chars (dget d s)) /\
  d_ranges (dget d' s) = d_ranges (dget d s) /\ d_any (dget d' s) = d_any (dget d s) /\
  d_eoi (dget d' s) = d_eoi (dget d s) /\ d_acc (dget d' s) = d_acc (dget d s).
Proof.
  intros d s c t d' H Ls Lt. destruct (add_char_spec _ _ _ _ _ H Ls Lt) as (E & L & G).
  split; [|rewrite (G s), Nat.eqb_refl; cbn; auto].
  split; [exact L|]. split; [|split; [|split; [|split]]].
  - intros i D. rewrite (G i). apply Nat.eqb_neq in D. rewrite D. unfold same_trans. cbn. tauto.
  - rewrite (G s). reflexivity.
  - rewrite (G s). reflexivity.
  - intros j. rewrite !successors_in. rewrite (G s), Nat.eqb_refl. cbn [d_chars d_ranges d_any d_eoi].
    split.
    + intros [(c0 & I)|X]; [|tauto]. apply assoc_N_set_in_iff in I; [|exact E].
      destruct I as [I|I]; [injection I as -> ->; auto|left; left; eauto].
    + intros [[(c0 & I)|X]|<-]; [left; exists c0|tauto|left; exists c];
        (apply assoc_N_set_in_iff; [exact E|auto]).
  - intros i q. rewrite (G i). cbn [d_preds]. destruct (Nat.eqb_spec i t).
    + rewrite set_add_In. subst. intuition.
    + intuition congruence.
Qed.

Lemma set_any_edges : forall d s t d',
  dfa_set_any d s t = Ok d' -> s < length d -> t < length d ->
  adds_edges s (eq t) d d' /\
  d_chars (dget d' s) = d_chars (dget d s) /\
  d_ranges (dget d' s) = d_ranges (dget d s) /\ d_any (dget d' s) = Some t /\
  d_eoi (dget d' s) = d_eoi (dget d s) /\ d_acc (dget d' s) = d_acc (dget d s).
Proof.
  intros d s t d' H Ls Lt. destruct (set_any_spec _ _ _ _ H Ls Lt) as (E & L & G).
  split; [|rewrite (G s), Nat.eqb_refl; cbn; auto].
  split; [exact L|]. split; [|split; [|split; [|split]]].
  - intros i D. rewrite (G i). apply Nat.eqb_neq in D. rewrite D. unfold same_trans. cbn. tauto.
  - rewrite (G s). reflexivity.
  - rewrite (G s). reflexivity.
  - intros j. rewrite !successors_in. rewrite (G s), Nat.eqb_refl. cbn [d_chars d_ranges d_any d_eoi].
    rewrite E. split.
    + intros [X|[X|[X|X]]]; [tauto|tauto|injection X as <-; auto|tauto].
    + intros [[X|[X|[X|X]]]|<-]; [tauto|tauto|discriminate|tauto|tauto].
  - intros i q. rewrite (G i). cbn [d_preds]. destruct (Nat.eqb_spec i t).
    + rewrite set_add_In. subst. intuition.
    + intuition congruence.
Qed.

Lemma set_eoi_edges : forall d s t d',
  dfa_set_eoi d s t = Ok d' -> s < length d -> t < length d ->
  adds_edges s (eq t) d d' /\
  d_chars (dget d' s) = d_chars (dget d s) /\
  d_ranges (dget d' s) = d_ranges (dget d s) /\ d_any (dget d' s) = d_any (dget d s) /\
  d_eoi (dget d' s) = Some t /\ d_acc (dget d' s) = d_acc (dget d s).
Proof.
  intros d s t d' H Ls Lt. destruct (set_eoi_spec _ _ _ _ H Ls Lt) as (E & L & G).
  split; [|rewrite (G s), Nat.eqb_refl; cbn; auto].
  split; [exact L|]. split; [|split; [|split; [|split]]].
  - intros i D. rewrite (G i). apply Nat.eqb_neq in D. rewrite D. unfold same_trans. cbn. tauto.
  - rewrite (G s). reflexivity.
  - rewrite (G s). reflexivity.
  - intros j. rewrite !successors_in. rewrite (G s), Nat.eqb_refl. cbn [d_chars d_ranges d_any d_eoi].
    rewrite E. split.
    + intros [X|[X|[X|X]]]; [tauto|tauto|tauto|injection X as <-; auto].
    + intros [[X|[X|[X|X]]]|<-]; [tauto|tauto|tauto|discriminate|tauto].
  - intros i q. rewrite (G i). cbn [d_preds]. destruct (Nat.eqb_spec i t).
    + rewrite set_add_In. subst. intuition.
    + intuition congruence.
Qed.

Lemma set_ranges_edges : forall d s (rs : rmap nat) d',
  dfa_set_range_transitions d s rs = Ok d' -> s < length d ->
  (forall r, In r rs -> r_val r < length d) ->
  adds_edges s (fun j => exists r, In r rs /\ r_val r = j) d d' /\
  d_chars (dget d' s) = d_chars (dget d s) /\
  d_ranges (dget d' s) = rs /\ d_any (dget d' s) = d_any (dget d s) /\
  d_eoi (dget d' s) = d_eoi (dget d s) /\ d_acc (dget d' s) = d_acc (dget d s).
Proof.
  intros d s rs d' H Ls B. destruct (set_ranges_spec _ _ _ _ H Ls B) as (E & L & G).
  pose proof (G s) as (G1 & G2 & G3 & G4 & G5 & G6 & G7 & G8). rewrite Nat.eqb_refl in G3.
  split; [|auto 6].
  split; [exact L|]. split; [|split; [|split; [|split]]].
  - intros i D. destruct (G i) as (H1 & H2 & H3 & H4 & H5 & H6 & H7 & _).
    apply Nat.eqb_neq in D. rewrite D in H3. unfold same_trans. tauto.
  - exact G1.
  - exact G7.
  - intros j. rewrite !successors_in. rewrite G2, G3, G4, G5, E. cbn [In]. split.
    + intros [X|[X|X]]; [tauto|auto|tauto].
    + intros [[X|[(r & [] & _)|X]]|X]; tauto.
  - intros i q. apply (G i).
Qed.

Lemma make_acc_edges : forall n l d cur, cur < length d ->
  let d' := fold_left (fun d s => match n_acc (nget n s) with
                                  | Some v => dfa_make_accepting d cur v
                                  | None => d end) l d in
  adds_edges cur (fun _ => False) d d' /\
  d_chars (dget d' cur) = d_chars (dget d cur) /\
  d_ranges (dget d' cur) = d_ranges (dget d cur) /\ d_any (dget d' cur) = d_any (dget d cur) /\
  d_eoi (dget d' cur) = d_eoi (dget d cur) /\
  d_acc (dget d' cur) = d_acc (dget d cur) ++ set_accepting n l.
Proof.
  intros n l d cur L d'. destruct (make_acc_fold n l d cur L) as [FL G]. fold d' in FL, G.
  split; [|rewrite (G cur), Nat.eqb_refl; cbn; auto].
  split; [exact FL|]. split; [|split; [|split; [|split]]].
  - intros i D. rewrite (G i). apply Nat.eqb_neq in D. rewrite D. unfold same_trans. cbn. tauto.
  - rewrite (G cur). reflexivity.
  - rewrite (G cur). reflexivity.
  - intros j. rewrite (G cur). unfold successors. cbn. tauto.
  - intros i q. rewrite (G i). cbn. tauto.
Qed.

(* ------------------------------------------------------------------ *)
(* 4. the work-list invariant *)

Lemma NoDup_snoc : forall A (l : list A) a, NoDup l -> ~ In a l -> NoDup (l ++ [a]).
Proof.
  intros A l a. induction l as [|x l IH]; intros N I; cbn [app].
  - constructor; [intros []|constructor].
  - inversion N as [|? ? N1 N2]; subst. constructor.
    + intros X. apply in_app_or in X. destruct X as [X|[X|[]]]; [auto|]. subst. apply I. left. reflexivity.
    + apply IH; [exact N2|]. intros X. apply I. right. exact X.
Qed.

Lemma Forall2_mono : forall A B (R1 R2 : A -> B -> Prop) l1 l2,
  (forall a b, R1 a b -> R2 a b) -> Forall2 R1 l1 l2 -> Forall2 R2 l1 l2.
Proof. intros A B R1 R2 l1 l2 H F. induction F; constructor; auto. Qed.

Definition fresh (st : dstate nat) : Prop :=
  d_chars st = [] /\ d_ranges st = [] /\ d_any st = None /\ d_eoi st = None /\ d_acc st = [].

Section Inv.
Variable n : nfa.
Hypothesis NI : nfa_inv n.
Hypothesis TW : nfa_trans_wf n.
Variable init : list nat.
Hypothesis Hinit : closure n [0] = Ok init.

Lemma RWn : nfa_ranges_wf n.
Proof. destruct NI as (_ & W & _). exact W. Qed.

Lemma edge_nz : forall s x t, ThompsonProofs.edge n s x t -> t <> 0.
Proof. destruct NI as (_ & _ & _ & Tg & _). intros s x t E. apply (Tg s x t E). Qed.

Lemma step_nz : forall S y, ~ In 0 (set_step n S y).
Proof.
  intros S y I. apply set_step_in in I. destruct I as (s & _ & I).
  apply (edge_nz s (Some y) 0); [exact I|reflexivity].
Qed.

Lemma eps_path_nz : forall s w t, npath n s w t -> w = [] -> s <> 0 -> t <> 0.
Proof.
  intros s w t P. induction P as [s|s t u w I P IH|s t u x w I P IH]; intros E Z.
  - exact Z.
  - apply IH; [exact E|]. apply (edge_nz s None t). exact I.
  - discriminate.
Qed.

Lemma closure_nz : forall T C, closure n T = Ok C -> ~ In 0 T -> ~ In 0 C.
Proof.
  intros T C H Z I. apply closure_spec in H. destruct H as (H & _).
  apply H in I. destruct I as (s & Is & P).
  apply (eps_path_nz s [] 0 P eq_refl); [|reflexivity]. intros ->. apply Z. exact Is.
Qed.

Lemma init_has_0 : In 0 init.
Proof. apply (closure_incl n [0] init 0 Hinit). left. reflexivity. Qed.

Lemma closure_ok : forall T, exists C, closure n T = Ok C.
Proof. intros T. apply closure_total_strong. apply nfa_inv_targets_ok. exact NI. Qed.

Definition state_ok (m : state_map) (S : list nat) (st : dstate nat) : Prop :=
  d_acc st = set_accepting n S /\
  (forall x, match closure n (set_step n S x) with
             | Panic _ => False
             | Ok [] => dfa_next st x = None
             | Ok (a :: S') => exists j, dfa_next st x = Some j /\ In (a :: S', j) m
             end) /\
  wf (d_ranges st) = true /\
  (nfa_chars_max n -> (forall r, In r (d_ranges st) -> (r_hi r <= CHAR_MAX)%N) /\
                      (forall c t, In (c, t) (d_chars st) -> (c <= CHAR_MAX)%N)).

Lemma state_ok_mono : forall m m' S st st',
  incl m m' -> same_trans st' st -> state_ok m S st -> state_ok m' S st'.
Proof.
  intros m m' S st st' I T (A & B & C & D).
  pose proof T as (T0 & T1 & T2 & T3 & T4 & T5 & T6).
  split; [congruence|]. split; [|split; [congruence|]].
  - intros x. specialize (B x). rewrite (same_trans_next _ _ x T).
    destruct (closure n (set_step n S x)) as [[|a S']|]; [exact B| |exact B].
    destruct B as (j & B1 & B2). exists j. split; [exact B1|apply I; exact B2].
  - rewrite T1, T2. exact D.
Qed.

Record invx (excl : nat -> Prop) (d : dfa nat) (m : state_map) (work : list (list nat))
       (done : list nat) : Prop := {
  ix_vals : map snd m = seq 0 (length d);
  ix_keys : NoDup (map fst m);
  ix_init : In (init, 0) m;
  ix_nz : forall L i, In (L, i) m -> i <> 0 -> ~ In 0 L;
  ix_succ : forall i j, i < length d -> In j (successors (dget d i)) -> j < length d /\ j <> 0;
  ix_preds : forall i j, j < length d ->
      (In i (d_preds (dget d j)) <-> i < length d /\ In j (successors (dget d i)));
  ix_dinit : forall i, i < length d -> (d_init (dget d i) = true <-> i = 0);
  ix_bt : forall i, i < length d -> d_bt (dget d i) = false;
  ix_work : forall L, In L work -> exists i, In (L, i) m;
  ix_todo : forall L i, In (L, i) m -> In i done \/ In L work;
  ix_fresh : forall i, i < length d -> ~ In i done -> fresh (dget d i);
  ix_done_lt : forall i, In i done -> i < length d;
  ix_done : forall i, In i done -> ~ excl i -> exists S, In (S, i) m /\ state_ok m S (dget d i)
}.

Lemma vals_nodup : forall (m : state_map) k, map snd m = seq 0 k -> NoDup (map snd m).
Proof. intros m k E. rewrite E. apply seq_NoDup. Qed.

Lemma vals_lt : forall (m : state_map) k L i, map snd m = seq 0 k -> In (L, i) m -> i < k.
Proof.
  intros m k L i E I. assert (X : In i (map snd m)) by (apply in_map_iff; exists (L, i); auto).
  rewrite E in X. apply in_seq in X. lia.
Qed.

Lemma vals_has : forall (m : state_map) k i, map snd m = seq 0 k -> i < k -> exists L, In (L, i) m.
Proof.
  intros m k i E H. assert (X : In i (map snd m)) by (rewrite E; apply in_seq; lia).
  apply in_map_iff in X. destruct X as ((L & j) & E1 & I). cbn in E1. subst. eauto.
Qed.

Lemma vals_fun : forall (m : state_map) k L L' i,
  map snd m = seq 0 k -> In (L, i) m -> In (L', i) m -> L = L'.
Proof.
  intros m k L L' i E I I'. pose proof (vals_nodup _ _ E) as N.
  pose proof (label_of_in m L i N I) as X. pose proof (label_of_in m L' i N I') as X'. congruence.
Qed.

Lemma keys_fun : forall (m : state_map) L i i',
  NoDup (map fst m) -> In (L, i) m -> In (L, i') m -> i = i'.
Proof.
  intros m L i i' N I I'. pose proof (sm_find_in m L i N I) as X.
  pose proof (sm_find_in m L i' N I') as X'. congruence.
Qed.

Lemma invx_len_pos : forall excl d m work done, invx excl d m work done -> 0 < length d.
Proof. intros excl d m work done X. apply (vals_lt m _ init 0 (ix_vals _ _ _ _ _ X) (ix_init _ _ _ _ _ X)). Qed.

(* allocation of the target state of a transition *)
Lemma invx_alloc : forall excl d m work done clo d' m' t,
  invx excl d m work done -> ~ In 0 clo ->
  dfa_state_of d m clo = (d', m', t) ->
  invx excl d' m' (clo :: work) done /\ In (clo, t) m' /\ t < length d' /\ t <> 0 /\
  incl m m' /\ length d <= length d' /\ (forall i, i < length d -> dget d' i = dget d i).
Proof.
  intros excl d m work done clo d' m' t X Z H. unfold dfa_state_of in H.
  pose proof (invx_len_pos _ _ _ _ _ X) as Lp.
  destruct X as [X1 X2 X3 X4 X5 X6 X7 X8 X9 X10 X11 X12 X13].
  destruct (sm_find m clo) as [v|] eqn:E.
  - injection H as <- <- <-. apply sm_find_some in E.
    assert (Zv : v <> 0).
    { intros ->. assert (clo = init) by (eapply vals_fun; eauto). subst. apply Z, init_has_0. }
    split; [|split; [exact E|split; [eapply vals_lt; eauto|split; [exact Zv|]]]].
    + constructor; auto.
      * intros L [<-|I]; [eauto|auto].
      * intros L i I. destruct (X10 L i I); [auto|right; right; assumption].
    + split; [apply incl_refl|]. split; [lia|auto].
  - unfold dfa_new_state in H. injection H as <- <- <-.
    apply sm_find_none in E.
    assert (Ld : length (d ++ [@dstate_empty nat]) = S (length d))
      by (rewrite app_length; cbn; lia).
    assert (Inc : incl m (m ++ [(clo, length d)])) by (intros p I; apply in_or_app; auto).
    split; [|split; [apply in_or_app; right; left; reflexivity|
             split; [lia|split; [lia|split; [exact Inc|split; [lia|]]]]]].
    2:{ intros i Hi. apply dget_app_old. exact Hi. }
    constructor.
    + rewrite map_app, Ld, seq_S, X1. reflexivity.
    + rewrite map_app. cbn [map fst]. apply NoDup_snoc; assumption.
    + apply Inc. exact X3.
    + intros L i I D. apply in_app_or in I. destruct I as [I|[I|[]]]; [eauto|].
      injection I as <- <-. exact Z.
    + intros i j Hi Hj. rewrite Ld in *. destruct (Nat.eq_dec i (length d)) as [->|D].
      * rewrite dget_app_new in Hj. destruct Hj.
      * rewrite dget_app_old in Hj by lia. destruct (X5 i j) as [A B]; [lia|exact Hj|]. lia.
    + intros i j Hj. rewrite Ld in *. destruct (Nat.eq_dec j (length d)) as [->|D].
      * rewrite dget_app_new. cbn [d_preds dstate_empty]. split; [intros []|].
        intros [Hi I]. destruct (Nat.eq_dec i (length d)) as [->|Di].
        -- rewrite dget_app_new in I. destruct I.
        -- rewrite dget_app_old in I by lia. destruct (X5 i (length d)); [lia|exact I|lia].
      * rewrite dget_app_old by lia. rewrite X6 by lia.
        destruct (Nat.eq_dec i (length d)) as [->|Di].
        -- rewrite dget_app_new. cbn. split; [lia|tauto].
        -- destruct (lt_dec i (length d)).
           ++ rewrite dget_app_old by lia. split; intros [A B]; (split; [lia|exact B]).
           ++ split; intros [A B]; lia.
    + intros i Hi. rewrite Ld in Hi. destruct (Nat.eq_dec i (length d)) as [->|D].
      * rewrite dget_app_new. cbn. split; [discriminate|lia].
      * rewrite dget_app_old by lia. apply X7. lia.
    + intros i Hi. rewrite Ld in Hi. destruct (Nat.eq_dec i (length d)) as [->|D].
      * rewrite dget_app_new. reflexivity.
      * rewrite dget_app_old by lia. apply X8. lia.
    + intros L [<-|I]; [exists (length d); apply in_or_app; right; left; reflexivity|].
      destruct (X9 L I) as (i & Ii). exists i. apply Inc. exact Ii.
    + intros L i I. apply in_app_or in I. destruct I as [I|[I|[]]].
      * destruct (X10 L i I); [auto|right; right; assumption].
      * injection I as <- <-. right. left. reflexivity.
    + intros i Hi Nd. rewrite Ld in Hi. destruct (Nat.eq_dec i (length d)) as [->|D].
      * rewrite dget_app_new. unfold fresh. cbn. tauto.
      * rewrite dget_app_old by lia. apply X11; [lia|exact Nd].
    + intros i I. rewrite Ld. specialize (X12 i I). lia.
    + intros i I Ne. destruct (X13 i I Ne) as (S & IS & OK). exists S. split; [apply Inc; exact IS|].
      rewrite dget_app_old by (apply X12; exact I).
      eapply state_ok_mono; [exact Inc|apply same_trans_refl|exact OK].
Qed.

(* adding transitions to the state being processed *)
Lemma invx_edges : forall cur T d d' m work done,
  invx (eq cur) d m work done -> adds_edges cur T d d' -> cur < length d -> In cur done ->
  (forall j, T j -> j < length d /\ j <> 0) ->
  invx (eq cur) d' m work done.
Proof.
  intros cur T d d' m work done X (L & ST & Ei & Eb & Su & Pr) Lc Dc HT.
  destruct X as [X1 X2 X3 X4 X5 X6 X7 X8 X9 X10 X11 X12 X13].
  assert (SU : forall i, i <> cur -> successors (dget d' i) = successors (dget d i)).
  { intros i D. apply same_trans_succ. apply ST. exact D. }
  constructor; rewrite ?L; auto.
  - intros i j Hi Hj. destruct (Nat.eq_dec i cur) as [->|D].
    + apply Su in Hj. destruct Hj as [Hj|Hj]; [apply (X5 cur j Hi Hj)|apply HT; exact Hj].
    + rewrite SU in Hj by exact D. apply (X5 i j Hi Hj).
  - intros i j Hj. rewrite Pr, X6 by exact Hj. destruct (Nat.eq_dec i cur) as [->|D].
    + rewrite Su. intuition.
    + rewrite SU by exact D. intuition congruence.
  - intros i Hi. destruct (Nat.eq_dec i cur) as [->|D].
    + rewrite Ei. apply X7. exact Hi.
    + destruct (ST i D) as (E & _). rewrite E. apply X7. exact Hi.
  - intros i Hi. destruct (Nat.eq_dec i cur) as [->|D].
    + rewrite Eb. apply X8. exact Hi.
    + destruct (ST i D) as (_ & _ & _ & _ & _ & _ & E). rewrite E. apply X8. exact Hi.
  - intros i Hi Nd. assert (D : i <> cur) by (intros ->; auto).
    destruct (ST i D) as (_ & E1 & E2 & E3 & E4 & E5 & _).
    destruct (X11 i Hi Nd) as (F1 & F2 & F3 & F4 & F5). unfold fresh. repeat split; congruence.
  - intros i I Ne. assert (D : i <> cur) by (intros ->; auto).
    destruct (X13 i I Ne) as (S & IS & OK). exists S. split; [exact IS|].
    eapply state_ok_mono; [apply incl_refl|apply ST; exact D|exact OK].
Qed.

Lemma invx_start : forall d m cur rest done v,
  invx (fun _ => False) d m (cur :: rest) done -> In (cur, v) m ->
  invx (eq v) d m rest (set_add v done).
Proof.
  intros d m cur rest done v X Iv.
  destruct X as [X1 X2 X3 X4 X5 X6 X7 X8 X9 X10 X11 X12 X13].
  constructor; auto.
  - intros L I. apply X9. right. exact I.
  - intros L i I. rewrite set_add_In. destruct (X10 L i I) as [H|[<-|H]]; [auto| |auto].
    left. left. eapply keys_fun; eauto.
  - intros i Hi Nd. apply X11; [exact Hi|]. intros I. apply Nd. apply set_add_In. auto.
  - intros i I. apply set_add_In in I. destruct I as [->|I]; [eapply vals_lt; eauto|auto].
  - intros i I Ne. apply set_add_In in I. destruct I as [->|I]; [congruence|]. apply X13; auto.
Qed.

Lemma invx_finish : forall d m work done v,
  invx (eq v) d m work done ->
  (exists S, In (S, v) m /\ state_ok m S (dget d v)) ->
  invx (fun _ => False) d m work done.
Proof.
  intros d m work done v X F.
  destruct X as [X1 X2 X3 X4 X5 X6 X7 X8 X9 X10 X11 X12 X13].
  constructor; auto.
  intros i I _. destruct (Nat.eq_dec v i) as [<-|D]; [exact F|]. apply X13; auto.
Qed.

Lemma invx_pop_done : forall d m cur rest done v,
  invx (fun _ => False) d m (cur :: rest) done -> In (cur, v) m -> In v done ->
  invx (fun _ => False) d m rest done.
Proof.
  intros d m cur rest done v X Iv Dv.
  destruct X as [X1 X2 X3 X4 X5 X6 X7 X8 X9 X10 X11 X12 X13].
  constructor; auto.
  - intros L I. apply X9. right. exact I.
  - intros L i I. destruct (X10 L i I) as [H|[<-|H]]; [auto| |auto].
    left. rewrite (keys_fun m cur i v X2 I Iv). exact Dv.
Qed.

(* ------------------------------------------------------------------ *)
(* 5. processing one DFA state *)

Section Process.
Variable S : list nat.
Variable cur : nat.
Variable done' : list nat.

Let chars := collect_chars n S.
Let ranges := collect_ranges n S.
Let anys := collect_any n S.
Let eois := collect_eoi n S.

Definition mid (d : dfa nat) (m : state_map) (work : list (list nat)) : Prop :=
  invx (eq cur) d m work done' /\ cur < length d /\ In cur done'.

Lemma mid_alloc : forall d m work clo d' m' t,
  mid d m work -> ~ In 0 clo -> dfa_state_of d m clo = (d', m', t) ->
  mid d' m' (clo :: work) /\ In (clo, t) m' /\ t < length d' /\ t <> 0 /\
  incl m m' /\ length d <= length d' /\ (forall i, i < length d -> dget d' i = dget d i).
Proof.
  intros d m work clo d' m' t (X & Lc & Dc) Z H.
  destruct (invx_alloc _ _ _ _ _ _ _ _ _ X Z H) as (X' & A & B & C & D & E & F).
  split; [split; [exact X'|split; [lia|exact Dc]]|]. auto 10.
Qed.

Lemma mid_edges : forall T d d' m work,
  mid d m work -> adds_edges cur T d d' -> (forall j, T j -> j < length d /\ j <> 0) ->
  mid d' m work.
Proof.
  intros T d d' m work (X & Lc & Dc) A HT. split; [|split; [|exact Dc]].
  - eapply invx_edges; eauto.
  - destruct A as (L & _). lia.
Qed.

Definition char_step (acc : result (dfa nat * state_map * list (list nat))) (p : N * list nat)
  : result (dfa nat * state_map * list (list nat)) :=
  do a <- acc;
  let '(d, m, work) := a in
  do clo <- closure n (char_targets n S (fst p) (snd p));
  let '(d', m', t) := dfa_state_of d m clo in
  do d'' <- dfa_add_char_transition d' cur (fst p) t;
  Ok (d'', m', clo :: work).

Definition range_step (acc : result (dfa nat * state_map * list (list nat) * rmap nat))
           (r : range (list nat)) : result (dfa nat * state_map * list (list nat) * rmap nat) :=
  do a <- acc;
  let '(d, m, work, out) := a in
  do clo <- closure n (set_union (r_val r) anys);
  let '(d', m', t) := dfa_state_of d m clo in
  Ok (d', m', clo :: work, out ++ [mkRange (r_lo r) (r_hi r) t]).

Definition chars_rel (m : state_map) (pre : list (N * list nat)) (dch : list (N * nat)) : Prop :=
  forall c, match assoc_N c dch with
            | Some t => exists tg clo, In (c, tg) pre /\
                                       closure n (char_targets n S c tg) = Ok clo /\ In (clo, t) m
            | None => forall tg, ~ In (c, tg) pre
            end.

Lemma chars_rel_mono : forall m m' pre dch, incl m m' -> chars_rel m pre dch -> chars_rel m' pre dch.
Proof.
  intros m m' pre dch I H c. specialize (H c). destruct (assoc_N c dch); [|exact H].
  destruct H as (tg & clo & A & B & C). exists tg, clo. auto.
Qed.

Definition rr (m : state_map) (r : range (list nat)) (dr : range nat) : Prop :=
  r_lo dr = r_lo r /\ r_hi dr = r_hi r /\ r_val dr <> 0 /\
  exists clo, closure n (set_union (r_val r) anys) = Ok clo /\ In (clo, r_val dr) m.

Lemma rr_mono : forall m m' r dr, incl m m' -> rr m r dr -> rr m' r dr.
Proof.
  intros m m' r dr I (A & B & C & clo & D & E). unfold rr. repeat split; auto. exists clo. auto.
Qed.

Lemma char_loop : forall l pre d m work d2 m2 work2,
  fold_left char_step l (Ok (d, m, work)) = Ok (d2, m2, work2) ->
  (forall c tg, In (c, tg) l -> ~ In 0 (char_targets n S c tg)) ->
  mid d m work -> chars_rel m pre (d_chars (dget d cur)) ->
  mid d2 m2 work2 /\ incl m m2 /\ chars_rel m2 (pre ++ l) (d_chars (dget d2 cur)) /\
  d_ranges (dget d2 cur) = d_ranges (dget d cur) /\ d_any (dget d2 cur) = d_any (dget d cur) /\
  d_eoi (dget d2 cur) = d_eoi (dget d cur) /\ d_acc (dget d2 cur) = d_acc (dget d cur).
Proof.
  induction l as [|[c tg] l IH]; intros pre d m work d2 m2 work2 H Z M R; cbn [fold_left] in H.
  - injection H as <- <- <-. rewrite app_nil_r.
    split; [exact M|]. split; [apply incl_refl|]. split; [exact R|]. auto.
  - destruct (char_step (Ok (d, m, work)) (c, tg)) as [[[d1 m1] work1]|tg'] eqn:E.
    2:{ rewrite fold_panic in H; [discriminate|reflexivity]. }
    unfold char_step in E. cbn [bind fst snd] in E.
    destruct (closure n (char_targets n S c tg)) as [clo|] eqn:EC; [|discriminate]. cbn [bind] in E.
    destruct (dfa_state_of d m clo) as [[d' m'] t] eqn:EA.
    destruct (dfa_add_char_transition d' cur c t) as [d''|] eqn:ET; [|discriminate].
    cbn [bind] in E. injection E as <- <- <-.
    assert (Zc : ~ In 0 clo).
    { eapply closure_nz; [exact EC|]. apply Z. left. reflexivity. }
    destruct (mid_alloc _ _ _ _ _ _ _ M Zc EA) as (M' & It & Lt & Zt & Inc & Ld & Same).
    pose proof M as (_ & Lc & _). pose proof M' as (_ & Lc' & _).
    destruct (add_char_edges _ _ _ _ _ ET Lc' Lt) as (AE & F1 & F2 & F3 & F4 & F5).
    assert (M'' : mid d'' m' (clo :: work)).
    { eapply mid_edges; [exact M'|exact AE|]. intros j <-. auto. }
    rewrite (Same cur Lc) in F1, F2, F3, F4, F5.
    destruct (IH (pre ++ [(c, tg)]) d'' m' (clo :: work) d2 m2 work2 H) as (I1 & I2 & I3 & I4).
    + intros c0 tg0 I. apply Z. right. exact I.
    + exact M''.
    + rewrite F1. intros c0. rewrite assoc_N_set_get. destruct (N.eqb_spec c0 c) as [->|D].
      * exists tg, clo. split; [apply in_or_app; right; left; reflexivity|]. auto.
      * pose proof (R c0) as R0. destruct (assoc_N c0 (d_chars (dget d cur))) as [t0|].
        -- destruct R0 as (tg0 & clo0 & A & B & C0). exists tg0, clo0.
           split; [apply in_or_app; auto|]. auto.
        -- intros tg0 I. apply in_app_or in I. destruct I as [I|[I|[]]]; [apply (R0 tg0 I)|].
           injection I as -> _. congruence.
    + split; [exact I1|]. split; [eapply incl_tran; eauto|].
      rewrite <- app_assoc in I3. cbn [app] in I3. split; [exact I3|].
      destruct I4 as (J2 & J3 & J4 & J5). repeat split; congruence.
Qed.

Lemma range_loop : forall l pre d m work out d3 m3 work3 out3,
  fold_left range_step l (Ok (d, m, work, out)) = Ok (d3, m3, work3, out3) ->
  (forall r, In r l -> ~ In 0 (set_union (r_val r) anys)) ->
  mid d m work -> Forall2 (rr m) pre out ->
  mid d3 m3 work3 /\ incl m m3 /\ Forall2 (rr m3) (pre ++ l) out3 /\ length d <= length d3 /\
  (forall i, i < length d -> dget d3 i = dget d i).
Proof.
  induction l as [|r l IH]; intros pre d m work out d3 m3 work3 out3 H Z M R; cbn [fold_left] in H.
  - injection H as <- <- <- <-. rewrite app_nil_r.
    split; [exact M|]. split; [apply incl_refl|]. split; [exact R|]. auto.
  - destruct (range_step (Ok (d, m, work, out)) r) as [[[[d1 m1] work1] out1]|tg'] eqn:E.
    2:{ rewrite fold_panic in H; [discriminate|reflexivity]. }
    unfold range_step in E. cbn [bind] in E.
    destruct (closure n (set_union (r_val r) anys)) as [clo|] eqn:EC; [|discriminate].
    cbn [bind] in E.
    destruct (dfa_state_of d m clo) as [[d' m'] t] eqn:EA. injection E as <- <- <- <-.
    assert (Zc : ~ In 0 clo).
    { eapply closure_nz; [exact EC|]. apply Z. left. reflexivity. }
    destruct (mid_alloc _ _ _ _ _ _ _ M Zc EA) as (M' & It & Lt & Zt & Inc & Ld & Same).
    destruct (IH (pre ++ [r]) d' m' (clo :: work) (out ++ [mkRange (r_lo r) (r_hi r) t])
                 d3 m3 work3 out3 H) as (I1 & I2 & I3 & I4 & I5).
    + intros r0 I. apply Z. right. exact I.
    + exact M'.
    + apply Forall2_app.
      * eapply Forall2_mono; [|exact R]. intros a b. apply rr_mono. exact Inc.
      * constructor; [|constructor]. unfold rr. cbn [r_lo r_hi r_val]. repeat split; auto.
        exists clo. auto.
    + split; [exact I1|]. split; [eapply incl_tran; eauto|].
      rewrite <- app_assoc in I3. cbn [app] in I3. split; [exact I3|]. split; [lia|].
      intros i Hi. rewrite I5 by lia. apply Same. exact Hi.
Qed.

Lemma rr_lookup : forall m rs drs, Forall2 (rr m) rs drs -> forall c,
  match lookup rs c with
  | Some v => exists t clo, lookup drs c = Some t /\
                            closure n (set_union v anys) = Ok clo /\ In (clo, t) m
  | None => lookup drs c = None
  end.
Proof.
  intros m rs drs F c. induction F as [|r dr rs drs (A & B & C & clo & D & E) F IH]; [reflexivity|].
  cbn [lookup]. assert (X : in_range dr c = in_range r c) by (unfold in_range; rewrite A, B; reflexivity).
  rewrite X. destruct (in_range r c); [|exact IH]. exists (r_val dr), clo. auto.
Qed.

Lemma rr_wf : forall m rs drs, Forall2 (rr m) rs drs -> forall lb, wf_from lb drs = wf_from lb rs.
Proof.
  intros m rs drs F. induction F as [|r dr rs drs (A & B & _) F IH]; intros lb; [reflexivity|].
  cbn [wf_from]. rewrite A, B, IH. reflexivity.
Qed.

Lemma rr_in : forall m rs drs, Forall2 (rr m) rs drs -> forall dr, In dr drs ->
  exists r, In r rs /\ rr m r dr.
Proof.
  intros m rs drs F. induction F as [|r dr0 rs drs H F IH]; intros dr I; [destruct I|].
  destruct I as [<-|I]; [exists r; cbn; auto|]. destruct (IH dr I) as (r0 & A & B).
  exists r0. cbn. auto.
Qed.

Lemma char_targets_step : forall c tg, In (c, tg) chars ->
  forall x, In x (char_targets n S c tg) <-> In x (set_step n S (Chr c)).
Proof.
  intros c tg I x. rewrite (char_targets_in n S RWn), (step_chr_in n S RWn TW).
  unfold chars in I. rewrite (ksorted_in_assoc _ _ _ _ (collect_chars_sorted n S) I). cbn [geto]. tauto.
Qed.

Lemma anys_step : forall x, In x anys -> In x (set_step n S (Chr 0%N)).
Proof. intros x I. apply (step_chr_in n S RWn TW). auto. Qed.

Definition process_body (d0 : dfa nat) (m0 : state_map) (work0 : list (list nat)) : result n2d :=
  let d1 := fold_left (fun d s => match n_acc (nget n s) with
                                  | Some v => dfa_make_accepting d cur v
                                  | None => d end) S d0 in
  do st1 <- fold_left char_step chars (Ok (d1, m0, work0));
  let '(d2, m2, work2) := st1 in
  do st2 <- fold_left range_step ranges (Ok (d2, m2, work2, []));
  let '(d3, m3, work3, dranges) := st2 in
  do d4 <- dfa_set_range_transitions d3 cur dranges;
  do clo_any <- closure n anys;
  do st3 <-
    match clo_any with
    | [] => Ok (d4, m3, work3)
    | _ => let '(d', m', t) := dfa_state_of d4 m3 clo_any in
           do d'' <- dfa_set_any d' cur t; Ok (d'', m', clo_any :: work3)
    end;
  let '(d5, m5, work5) := st3 in
  do clo_eoi <- closure n eois;
  do st4 <-
    match clo_eoi with
    | [] => Ok (d5, m5, work5)
    | _ => let '(d', m', t) := dfa_state_of d5 m5 clo_eoi in
           do d'' <- dfa_set_eoi d' cur t; Ok (d'', m', clo_eoi :: work5)
    end;
  let '(d6, m6, work6) := st4 in
  Ok (mkN2D d6 m6 work6 done').

Lemma ranges_val_step : forall r x, In r ranges -> In x (r_val r) ->
  In x (set_step n S (Chr (r_lo r))).
Proof.
  intros r x I X. apply (step_chr_in n S RWn TW). right. left.
  pose proof (collect_ranges_wf n S RWn) as W. fold ranges in W.
  assert (E : in_range r (r_lo r) = true).
  { pose proof (wf_in_nonempty _ _ _ W I) as L. unfold in_range.
    apply andb_true_iff. split; apply N.leb_le; lia. }
  fold ranges. rewrite (lookup_in_unique _ _ _ _ _ W I E). exact X.
Qed.

Lemma any_phase : forall clo d m work d5 m5 work5,
  mid d m work -> ~ In 0 clo ->
  match clo with
  | [] => Ok (d, m, work)
  | _ => let '(d', m', t) := dfa_state_of d m clo in
         do d'' <- dfa_set_any d' cur t; Ok (d'', m', clo :: work)
  end = Ok (d5, m5, work5) ->
  mid d5 m5 work5 /\ incl m m5 /\
  d_chars (dget d5 cur) = d_chars (dget d cur) /\ d_ranges (dget d5 cur) = d_ranges (dget d cur) /\
  d_eoi (dget d5 cur) = d_eoi (dget d cur) /\ d_acc (dget d5 cur) = d_acc (dget d cur) /\
  match clo with
  | [] => d_any (dget d5 cur) = d_any (dget d cur)
  | _ => exists t, d_any (dget d5 cur) = Some t /\ In (clo, t) m5
  end.
Proof.
  intros clo d m work d5 m5 work5 M Z H. destruct clo as [|a ca].
  - injection H as <- <- <-. split; [exact M|]. split; [apply incl_refl|]. auto 10.
  - destruct (dfa_state_of d m (a :: ca)) as [[d' m'] t] eqn:EA.
    apply bind_ok in H. destruct H as (d'' & HS & H). injection H as <- <- <-.
    destruct (mid_alloc _ _ _ _ _ _ _ M Z EA) as (M' & It & Lt & Zt & Inc & Ld & Same).
    pose proof M as (_ & Lc & _). pose proof M' as (_ & Lc' & _).
    destruct (set_any_edges _ _ _ _ HS Lc' Lt) as (AE & F1 & F2 & F3 & F4 & F5).
    rewrite (Same cur Lc) in F1, F2, F4, F5.
    split; [eapply mid_edges; [exact M'|exact AE|]; intros j <-; auto|].
    split; [exact Inc|]. repeat (split; [assumption|]). exists t. auto.
Qed.

Lemma eoi_phase : forall clo d m work d5 m5 work5,
  mid d m work -> ~ In 0 clo ->
  match clo with
  | [] => Ok (d, m, work)
  | _ => let '(d', m', t) := dfa_state_of d m clo in
         do d'' <- dfa_set_eoi d' cur t; Ok (d'', m', clo :: work)
  end = Ok (d5, m5, work5) ->
  mid d5 m5 work5 /\ incl m m5 /\
  d_chars (dget d5 cur) = d_chars (dget d cur) /\ d_ranges (dget d5 cur) = d_ranges (dget d cur) /\
  d_any (dget d5 cur) = d_any (dget d cur) /\ d_acc (dget d5 cur) = d_acc (dget d cur) /\
  match clo with
  | [] => d_eoi (dget d5 cur) = d_eoi (dget d cur)
  | _ => exists t, d_eoi (dget d5 cur) = Some t /\ In (clo, t) m5
  end.
Proof.
  intros clo d m work d5 m5 work5 M Z H. destruct clo as [|a ca].
  - injection H as <- <- <-. split; [exact M|]. split; [apply incl_refl|]. auto 10.
  - destruct (dfa_state_of d m (a :: ca)) as [[d' m'] t] eqn:EA.
    apply bind_ok in H. destruct H as (d'' & HS & H). injection H as <- <- <-.
    destruct (mid_alloc _ _ _ _ _ _ _ M Z EA) as (M' & It & Lt & Zt & Inc & Ld & Same).
    pose proof M as (_ & Lc & _). pose proof M' as (_ & Lc' & _).
    destruct (set_eoi_edges _ _ _ _ HS Lc' Lt) as (AE & F1 & F2 & F3 & F4 & F5).
    rewrite (Same cur Lc) in F1, F2, F3, F5.
    split; [eapply mid_edges; [exact M'|exact AE|]; intros j <-; auto|].
    split; [exact Inc|]. repeat (split; [assumption|]). exists t. auto.
Qed.

Lemma state_ok_final : forall m st dch drs clo_any clo_eoi,
  d_chars st = dch -> d_ranges st = drs -> d_acc st = set_accepting n S ->
  chars_rel m chars dch -> Forall2 (rr m) ranges drs ->
  closure n anys = Ok clo_any -> closure n eois = Ok clo_eoi ->
  match clo_any with
  | [] => d_any st = None
  | _ => exists t, d_any st = Some t /\ In (clo_any, t) m
  end ->
  match clo_eoi with
  | [] => d_eoi st = None
  | _ => exists t, d_eoi st = Some t /\ In (clo_eoi, t) m
  end ->
  state_ok m S st.
Proof.
  intros m st dch drs clo_any clo_eoi Ech Edr Eacc CR RR HA HE PA PE.
  split; [exact Eacc|]. split; [|split].
  - intros [c|].
    + destruct (closure_ok (set_step n S (Chr c))) as (C & EC). rewrite EC.
      cbn [dfa_next]. unfold dfa_char_next. rewrite Ech, Edr.
      pose proof (CR c) as CRc. destruct (assoc_N c dch) as [t|] eqn:Et.
      * destruct CRc as (tg & clo & Itg & Eclo & Im).
        rewrite (closure_ext n _ _ (char_targets_step c tg Itg)), EC in Eclo. injection Eclo as ->.
        assert (Ne : clo <> []).
        { pose proof (ksorted_in_assoc _ _ _ _ (collect_chars_sorted n S) Itg) as Ea.
          pose proof (collect_chars_nonempty n S TW c tg Ea) as Ntg.
          destruct tg as [|x tg]; [congruence|].
          intros ->. apply (closure_incl _ _ _ x EC). apply (char_targets_step c (x :: tg) Itg).
          apply (char_targets_in n S RWn). left. left. reflexivity. }
        destruct clo as [|a S']; [congruence|]. exists t. auto.
      * assert (Ka : assoc_N c chars = None).
        { destruct (assoc_N c chars) as [tg|] eqn:E; [|reflexivity]. exfalso.
          apply (CRc tg). apply assoc_in. exact E. }
        pose proof (rr_lookup _ _ _ RR c) as RL.
        destruct (lookup ranges c) as [v|] eqn:Ev.
        -- destruct RL as (t & clo & El & Eclo & Im). rewrite El.
           assert (X : forall x, In x (set_union v anys) <-> In x (set_step n S (Chr c))).
           { intros x. rewrite set_union_In, (step_chr_in n S RWn TW).
             fold chars ranges anys. rewrite Ka, Ev. cbn [geto In]. tauto. }
           rewrite (closure_ext n _ _ X), EC in Eclo. injection Eclo as ->.
           assert (Ne : clo <> []).
           { pose proof (collect_ranges_nonempty n S RWn TW c v Ev) as Nv.
             destruct v as [|x v]; [congruence|].
             intros ->. apply (closure_incl _ _ _ x EC). apply X. apply set_union_In.
             left. left. reflexivity. }
           destruct clo as [|a S']; [congruence|]. exists t. auto.
        -- rewrite RL.
           assert (X : forall x, In x anys <-> In x (set_step n S (Chr c))).
           { intros x. rewrite (step_chr_in n S RWn TW).
             fold chars ranges anys. rewrite Ka, Ev. cbn [geto In]. tauto. }
           rewrite (closure_ext n _ _ X), EC in HA. injection HA as ->.
           destruct clo_any as [|a S']; [exact PA|]. exact PA.
    + destruct (closure_ok (set_step n S Eoi)) as (C & EC). rewrite EC. cbn [dfa_next].
      assert (X : forall x, In x eois <-> In x (set_step n S Eoi)).
      { intros x. rewrite step_eoi_in. reflexivity. }
      rewrite (closure_ext n _ _ X), EC in HE. injection HE as ->.
      destruct clo_eoi as [|a S']; [exact PE|]. exact PE.
  - unfold wf. rewrite Edr, (rr_wf _ _ _ RR). apply (collect_ranges_wf n S RWn).
  - intros B. split.
    + intros dr I. rewrite Edr in I. destruct (rr_in _ _ _ RR dr I) as (r & Ir & (_ & Eh & _)).
      rewrite Eh. apply (collect_ranges_bound n S RWn B r Ir).
    + intros c t I. rewrite Ech in I. destruct (in_assoc_some _ _ _ _ I) as (t' & Et).
      pose proof (CR c) as CRc. rewrite Et in CRc. destruct CRc as (tg & _ & Itg & _).
      apply (collect_chars_bound n S B c).
      rewrite (ksorted_in_assoc _ _ _ _ (collect_chars_sorted n S) Itg). discriminate.
Qed.

Lemma process_body_ok : forall d0 m0 work0 w',
  mid d0 m0 work0 -> In (S, cur) m0 -> fresh (dget d0 cur) ->
  process_body d0 m0 work0 = Ok w' ->
  invx (fun _ => False) (w_dfa w') (w_map w') (w_work w') (w_done w').
Proof.
  intros d0 m0 work0 w' M0 IS (Fc & Fr & Fa & Fe & Facc) H.
  unfold process_body in H.
  pose proof M0 as (_ & Lc0 & _).
  pose proof (make_acc_edges n S d0 cur Lc0) as ME. cbn zeta in ME.
  set (d1 := fold_left _ S d0) in *.
  destruct ME as (AE1 & G1 & G2 & G3 & G4 & G5).
  rewrite Fc in G1. rewrite Fr in G2. rewrite Fa in G3. rewrite Fe in G4. rewrite Facc in G5.
  cbn [app] in G5.
  assert (M1 : mid d1 m0 work0). { eapply mid_edges; [exact M0|exact AE1|]. intros j []. }
  (* chars *)
  apply bind_ok in H. destruct H as ([[d2 m2] work2] & H1 & H).
  destruct (char_loop chars [] d1 m0 work0 d2 m2 work2 H1) as (M2 & I2 & CR & R2 & A2 & E2 & AC2).
  { intros c tg I X. apply (char_targets_step c tg I) in X. exact (step_nz _ _ X). }
  { exact M1. }
  { rewrite G1. intros c. cbn. intros tg []. }
  cbn [app] in CR. rewrite G2 in R2. rewrite G3 in A2. rewrite G4 in E2. rewrite G5 in AC2.
  (* ranges *)
  apply bind_ok in H. destruct H as ([[[d3 m3] work3] drs] & H2 & H).
  destruct (range_loop ranges [] d2 m2 work2 [] d3 m3 work3 drs H2) as (M3 & I3 & RR & L3 & Same3).
  { intros r I X. apply set_union_In in X. destruct X as [X|X].
    - exact (step_nz _ _ (ranges_val_step r 0 I X)).
    - exact (step_nz _ _ (anys_step 0 X)). }
  { exact M2. }
  { constructor. }
  cbn [app] in RR.
  apply bind_ok in H. destruct H as (d4 & H3 & H).
  pose proof M2 as (_ & Lc2 & _). pose proof M3 as (X3 & Lc3 & _).
  assert (B3 : forall dr, In dr drs -> r_val dr < length d3 /\ r_val dr <> 0).
  { intros dr I. destruct (rr_in _ _ _ RR dr I) as (r & _ & (_ & _ & Zr & clo & _ & Im)).
    split; [eapply vals_lt; [apply (ix_vals _ _ _ _ _ X3)|exact Im]|exact Zr]. }
  destruct (set_ranges_edges _ _ _ _ H3 Lc3 (fun r I => proj1 (B3 r I)))
    as (AE4 & C4 & R4 & A4 & E4 & AC4).
  assert (M4 : mid d4 m3 work3).
  { eapply mid_edges; [exact M3|exact AE4|]. intros j (r & I & <-). apply B3. exact I. }
  rewrite (Same3 cur Lc2) in C4, A4, E4, AC4. rewrite A2 in A4. rewrite E2 in E4. rewrite AC2 in AC4.
  (* any *)
  apply bind_ok in H. destruct H as (clo_any & HA & H).
  assert (Zany : ~ In 0 clo_any).
  { eapply closure_nz; [exact HA|]. intros X. exact (step_nz _ _ (anys_step 0 X)). }
  apply bind_ok in H. destruct H as ([[d5 m5] work5] & H4 & H).
  destruct (any_phase _ _ _ _ _ _ _ M4 Zany H4) as (M5 & I5 & C5 & R5 & E5 & AC5 & P5).
  rewrite C4 in C5. rewrite R4 in R5. rewrite E4 in E5. rewrite AC4 in AC5.
  (* eoi *)
  apply bind_ok in H. destruct H as (clo_eoi & HE & H).
  assert (Zeoi : ~ In 0 clo_eoi).
  { eapply closure_nz; [exact HE|]. intros X. apply (step_eoi_in n S) in X. exact (step_nz _ _ X). }
  apply bind_ok in H. destruct H as ([[d6 m6] work6] & H5 & H).
  destruct (eoi_phase _ _ _ _ _ _ _ M5 Zeoi H5) as (M6 & I6 & C6 & R6 & A6 & AC6 & P6).
  rewrite C5 in C6. rewrite R5 in R6. rewrite AC5 in AC6.
  injection H as <-. cbn [w_dfa w_map w_work w_done].
  destruct M6 as (X6 & Lc6 & Dc6).
  eapply invx_finish; [exact X6|].
  exists S. split; [apply I6, I5, I3, I2; exact IS|].
  eapply (state_ok_final m6 (dget d6 cur) _ drs clo_any clo_eoi); try eassumption.
  - eapply chars_rel_mono; [|exact CR]. intros p Ip. apply I6, I5, I3. exact Ip.
  - eapply Forall2_mono; [|exact RR]. intros a b. apply rr_mono. intros p Ip. apply I6, I5. exact Ip.
  - destruct clo_any as [|a ca].
    + rewrite A6, P5. exact A4.
    + destruct P5 as (t & P5a & P5b). exists t. rewrite A6. split; [exact P5a|apply I6; exact P5b].
  - destruct clo_eoi as [|a ca].
    + rewrite P6. exact E5.
    + exact P6.
Qed.

End Process.

(* ------------------------------------------------------------------ *)
(* 6. the work-list loop *)

Definition inv (w : n2d) : Prop :=
  invx (fun _ => False) (w_dfa w) (w_map w) (w_work w) (w_done w).

Lemma n2d_process_eq : forall S w v,
  sm_find (w_map w) S = Some v -> set_mem v (w_done w) = false ->
  n2d_process n S w = process_body S v (set_add v (w_done w)) (w_dfa w) (w_map w) (w_work w).
Proof. intros S w v H1 H2. unfold n2d_process. rewrite H1, H2. reflexivity. Qed.

(* invariant preservation for one processed state *)
Lemma n2d_process_inv : forall S rest d m done w',
  invx (fun _ => False) d m (S :: rest) done ->
  n2d_process n S (mkN2D d m rest done) = Ok w' -> inv w'.
Proof.
  intros S rest d m done w' X H.
  destruct (ix_work _ _ _ _ _ X S (or_introl eq_refl)) as (v & Iv).
  pose proof (sm_find_in m S v (ix_keys _ _ _ _ _ X) Iv) as Ef.
  destruct (set_mem v done) eqn:Em.
  - unfold n2d_process in H. cbn [w_map w_dfa w_work w_done] in H. rewrite Ef, Em in H.
    injection H as <-. unfold inv. cbn [w_map w_dfa w_work w_done].
    eapply invx_pop_done; [exact X|exact Iv|]. apply set_mem_In. exact Em.
  - rewrite (n2d_process_eq S (mkN2D d m rest done) v Ef Em) in H.
    cbn [w_map w_dfa w_work w_done] in H.
    assert (Nd : ~ In v done). { intros I. apply set_mem_In in I. congruence. }
    assert (Lv : v < length d). { eapply vals_lt; [apply (ix_vals _ _ _ _ _ X)|exact Iv]. }
    unfold inv. eapply process_body_ok; [| | |exact H].
    + split; [eapply invx_start; eauto|]. split; [exact Lv|]. apply set_add_In. auto.
    + exact Iv.
    + apply (ix_fresh _ _ _ _ _ X v Lv Nd).
Qed.

Lemma iter_inv : forall k w d m,
  inv w -> BacktrackProofs.iter_nat k (n2d_step n) w = inr (Ok (d, m)) ->
  exists done, invx (fun _ => False) d m [] done.
Proof.
  induction k as [|k IH]; intros w d m X H; cbn [BacktrackProofs.iter_nat] in H; [discriminate|].
  destruct (n2d_step n w) as [w'|r] eqn:E.
  - unfold n2d_step in E. destruct (w_work w) as [|cur rest] eqn:Ew; [discriminate|].
    destruct (n2d_process n cur (mkN2D (w_dfa w) (w_map w) rest (w_done w))) as [w1|tg] eqn:EP;
      [|discriminate].
    injection E as <-. eapply IH; [|exact H].
    eapply n2d_process_inv; [|exact EP]. unfold inv in X. rewrite Ew in X. exact X.
  - unfold n2d_step in E. destruct (w_work w) as [|cur rest] eqn:Ew.
    + injection E as <-. injection H as <- <-. exists (w_done w).
      unfold inv in X. rewrite Ew in X. exact X.
    + destruct (n2d_process n cur (mkN2D (w_dfa w) (w_map w) rest (w_done w))); [discriminate|].
      injection E as <-. discriminate.
Qed.

Lemma inv_init : invx (fun _ => False) dfa_new [(init, 0)] [init] [].
Proof.
  assert (G : forall i, i < 1 -> dget dfa_new i = mkD true [] [] None None [] [] false).
  { intros [|i] Hi; [reflexivity|lia]. }
  constructor; cbn [length dfa_new].
  - reflexivity.
  - cbn. constructor; [intros []|constructor].
  - left. reflexivity.
  - intros L i [E|[]] D. injection E as <- <-. congruence.
  - intros i j Hi Hj. rewrite (G i Hi) in Hj. destruct Hj.
  - intros i j Hj. rewrite (G j Hj). cbn [d_preds]. split; [intros []|].
    intros [Hi I]. rewrite (G i Hi) in I. destruct I.
  - intros i Hi. rewrite (G i Hi). cbn. split; [lia|reflexivity].
  - intros i Hi. rewrite (G i Hi). reflexivity.
  - intros L [<-|[]]. exists 0. left. reflexivity.
  - intros L i [E|[]]. injection E as <- <-. right. left. reflexivity.
  - intros i Hi _. rewrite (G i Hi). unfold fresh. cbn. tauto.
  - intros i [].
  - intros i [].
Qed.

Lemma final_closed : forall d m done,
  invx (fun _ => False) d m [] done -> dfa_closed n d m /\ 0 < length d.
Proof.
  intros d m done X. pose proof (invx_len_pos _ _ _ _ _ X) as Lp. split; [|exact Lp].
  destruct X as [X1 X2 X3 X4 X5 X6 X7 X8 X9 X10 X11 X12 X13].
  pose proof (vals_nodup _ _ X1) as Nv.
  assert (AD : forall i S, In (S, i) m -> state_ok m S (dget d i)).
  { intros i S I. destruct (X10 S i I) as [Di|[]].
    destruct (X13 i Di (fun f => f)) as (S' & I' & OK).
    rewrite (vals_fun m _ S S' i X1 I I'). exact OK. }
  constructor.
  - rewrite Hinit. split; [|reflexivity]. apply label_of_in; assumption.
  - intros i Hi. destruct (vals_has m _ i X1 Hi) as (L & I). exists L. apply label_of_in; assumption.
  - intros i S x Hi HL. apply label_of_inv in HL.
    destruct (AD i S HL) as (_ & B & _). specialize (B x).
    destruct (closure n (set_step n S x)) as [[|a S']|tg]; [exact B| |exact B].
    destruct B as (j & E & Im). exists j. split; [exact E|].
    split; [eapply vals_lt; eauto|apply label_of_in; assumption].
  - intros i S Hi HL. apply label_of_inv in HL. apply (AD i S HL).
Qed.

Lemma final_shape : forall d m done,
  nfa_chars_max n -> invx (fun _ => False) d m [] done -> dfa_shape_ok d.
Proof.
  intros d m done B X. pose proof (invx_len_pos _ _ _ _ _ X) as Lp.
  destruct X as [X1 X2 X3 X4 X5 X6 X7 X8 X9 X10 X11 X12 X13].
  assert (AD : forall i, i < length d -> exists S, state_ok m S (dget d i)).
  { intros i Hi. destruct (vals_has m _ i X1 Hi) as (L & I).
    destruct (X10 L i I) as [Di|[]].
    destruct (X13 i Di (fun f => f)) as (S' & I' & OK). eauto. }
  constructor.
  - intros i j Hi Hj. apply (X5 i j Hi Hj).
  - exact X7.
  - intros i j Hi Hj. apply (X5 i j Hi Hj).
  - destruct (d_preds (dget d 0)) as [|p l] eqn:E; [reflexivity|]. exfalso.
    assert (I : In p (d_preds (dget d 0))) by (rewrite E; left; reflexivity).
    apply X6 in I; [|exact Lp]. destruct I as [Hp I]. destruct (X5 p 0 Hp I) as [_ Z]. congruence.
  - intros i j Hi Hj. rewrite X6 by exact Hj. tauto.
  - intros i Hi. destruct (AD i Hi) as (S & _ & _ & W & _). exact W.
  - intros i r Hi I. destruct (AD i Hi) as (S & _ & _ & _ & M). apply (proj1 (M B) r I).
  - intros i c t Hi I. destruct (AD i Hi) as (S & _ & _ & _ & M). apply (proj2 (M B) c t I).
  - exact X8.
Qed.

End Inv.

(* ------------------------------------------------------------------ *)
(* 7. main theorems *)

Lemma nfa_to_dfa_inv : forall n d m,
  nfa_inv n -> nfa_trans_wf n -> nfa_to_dfa_map n = Ok (d, m) ->
  exists init done, closure n [0] = Ok init /\ invx n init (fun _ => False) d m [] done.
Proof.
  intros n d m NI TW H. unfold nfa_to_dfa_map in H.
  apply bind_ok in H. destruct H as (init & Hinit & H).
  rewrite iter_pos_nat in H.
  destruct (BacktrackProofs.iter_nat (Pos.to_nat n2d_fuel) (n2d_step n) (mkN2D dfa_new [(init, 0)] [init] []))
    as [w|r] eqn:E; [discriminate|]. subst r.
  exists init. destruct (iter_inv n NI TW init Hinit _ (mkN2D dfa_new [(init, 0)] [init] []) d m (inv_init n init) E) as (done & X).
  exists done. auto.
Qed.

Theorem nfa_to_dfa_closed : forall n d m,
  nfa_inv n -> nfa_trans_wf n ->
  nfa_to_dfa_map n = Ok (d, m) ->
  dfa_closed n d m /\ 0 < length d.
Proof.
  intros n d m NI TW H. destruct (nfa_to_dfa_inv n d m NI TW H) as (init & done & Hinit & X).
  exact (final_closed n init Hinit d m done X).
Qed.

Theorem nfa_to_dfa_shape : forall n d m,
  nfa_inv n -> nfa_trans_wf n -> nfa_chars_max n ->
  nfa_to_dfa_map n = Ok (d, m) -> dfa_shape_ok d.
Proof.
  intros n d m NI TW B H. destruct (nfa_to_dfa_inv n d m NI TW H) as (init & done & Hinit & X).
  exact (final_shape n init d m done B X).
Qed.

(* ------------------------------------------------------------------ *)
(* 8. the extra hypotheses hold for the NFAs built by Nfa.add_regex / Driver.compile_rules *)

Local Open Scope N_scope.

Section RangePres.
Context {A : Type} (merge : A -> A -> A).
Variable Bh : N -> Prop.          (* predicate on range ends, downward closed *)
Variable Qv : A -> Prop.          (* predicate on values *)
Hypothesis Bh_down : forall a b, a <= b -> Bh b -> Bh a.

Definition rgood (r : range A) : Prop := Bh (r_hi r) /\ Qv (r_val r).

Lemma insert_go_pres : forall (rs : rmap A) lo hi v last,
  (forall r, In r rs -> rgood r) -> Bh hi -> Qv v -> (forall x, Qv x -> Qv (merge x v)) ->
  forall r, In r (insert_go merge rs lo hi v last) -> rgood r.
Proof.
  induction rs as [|r0 rest IH]; intros lo hi v last G Bhi Qv0 Qm r I; cbn [insert_go] in I.
  - destruct (match last with None => true | Some e => e <? lo end); [|destruct I].
    destruct I as [<-|[]]. split; assumption.
  - assert (G0 : rgood r0) by (apply G; left; reflexivity).
    assert (Gr : forall r, In r rest -> rgood r) by (intros r' I'; apply G; right; exact I').
    destruct (N.ltb_spec (r_hi r0) lo).
    { destruct I as [<-|I]; [exact G0|]. eapply IH; eauto. }
    destruct (N.ltb_spec hi (r_lo r0)).
    { destruct I as [<-|I]; [split; assumption|]. apply G. exact I. }
    apply in_app_or in I. destruct I as [I|[<-|I]].
    + destruct (N.ltb_spec lo (N.max lo (r_lo r0))).
      * destruct I as [<-|[]]. split; [|exact Qv0]. cbn [r_hi]. apply (Bh_down _ hi); [lia|exact Bhi].
      * destruct (N.ltb_spec (r_lo r0) (N.max lo (r_lo r0))); [|destruct I].
        destruct I as [<-|[]]. split; [|apply G0]. cbn [r_hi].
        apply (Bh_down _ (r_hi r0)); [lia|apply G0].
    + split; cbn [r_hi r_val]; [|apply Qm, G0]. apply (Bh_down _ hi); [lia|exact Bhi].
    + destruct (N.ltb_spec (N.min hi (r_hi r0)) (r_hi r0)).
      * destruct I as [<-|I]; [split; apply G0|apply Gr; exact I].
      * destruct (N.ltb_spec (N.min hi (r_hi r0)) hi); [|apply Gr; exact I].
        eapply IH; eauto.
Qed.

Lemma irgo_pres : forall fuel h1 l1 h2 l2 res,
  (forall x y, Qv x -> Qv y -> Qv (merge x y)) ->
  (forall r, In r (olist h1 l1) -> rgood r) -> (forall r, In r (olist h2 l2) -> rgood r) ->
  insert_ranges_go merge fuel h1 l1 h2 l2 = Some res ->
  forall r, In r res -> rgood r.
Proof.
  induction fuel as [|f IH]; intros h1 l1 h2 l2 res Qm G1 G2 H r I; [discriminate|].
  rewrite irgo_S in H.
  destruct h1 as [r1|]; destruct h2 as [r2|].
  4:{ injection H as <-. destruct I. }
  3:{ injection H as <-. apply G2. exact I. }
  2:{ injection H as <-. apply G1. exact I. }
  assert (A1 : rgood r1) by (apply G1; left; reflexivity).
  assert (A2 : rgood r2) by (apply G2; left; reflexivity).
  assert (T1 : forall r, In r (olist (fst (nxt l1)) (snd (nxt l1))) -> rgood r).
  { intros r' I'. rewrite nxt_olist in I'. apply G1. right. exact I'. }
  assert (T2 : forall r, In r (olist (fst (nxt l2)) (snd (nxt l2))) -> rgood r).
  { intros r' I'. rewrite nxt_olist in I'. apply G2. right. exact I'. }
  destruct (N.ltb_spec (r_hi r1) (r_lo r2)).
  { destruct (insert_ranges_go merge f (fst (nxt l1)) (snd (nxt l1)) (Some r2) l2) as [t|] eqn:E;
      [|discriminate].
    injection H as <-. destruct I as [<-|I]; [exact A1|].
    exact (IH (fst (nxt l1)) (snd (nxt l1)) (Some r2) l2 t Qm T1 G2 E r I). }
  destruct (N.ltb_spec (r_hi r2) (r_lo r1)).
  { destruct (insert_ranges_go merge f (Some r1) l1 (fst (nxt l2)) (snd (nxt l2))) as [t|] eqn:E;
      [|discriminate].
    injection H as <-. destruct I as [<-|I]; [exact A2|].
    exact (IH (Some r1) l1 (fst (nxt l2)) (snd (nxt l2)) t Qm G1 T2 E r I). }
  cbv zeta in H.
  set (oe := N.min (r_hi r1) (r_hi r2)) in *.
  assert (U2 : forall r, In r (olist (Some (mkRange (oe + 1) (r_hi r2) (r_val r2))) l2) -> rgood r).
  { cbn [olist]. intros r' [<-|I']; [split; apply A2|apply G2; right; exact I']. }
  assert (U1 : forall r, In r (olist (Some (mkRange (oe + 1) (r_hi r1) (r_val r1))) l1) -> rgood r).
  { cbn [olist]. intros r' [<-|I']; [split; apply A1|apply G1; right; exact I']. }
  match type of H with option_map _ ?rest = _ => destruct rest as [t|] eqn:E; [|discriminate] end.
  injection H as <-. apply in_app_or in I. destruct I as [I|[<-|I]].
  - destruct (N.ltb_spec (r_lo r1) (r_lo r2)).
    + destruct I as [<-|[]]. split; [|apply A1]. cbn [r_hi].
      apply (Bh_down _ (r_hi r1)); [lia|apply A1].
    + destruct (N.ltb_spec (r_lo r2) (r_lo r1)); [|destruct I].
      destruct I as [<-|[]]. split; [|apply A2]. cbn [r_hi].
      apply (Bh_down _ (r_hi r2)); [lia|apply A2].
  - split; cbn [r_hi r_val]; [|apply Qm; [apply A1|apply A2]].
    apply (Bh_down _ (r_hi r1)); [unfold oe; lia|apply A1].
  - destruct (N.ltb_spec (r_hi r1) (r_hi r2)).
    + exact (IH _ _ _ _ t Qm T1 U2 E r I).
    + destruct (N.ltb_spec (r_hi r2) (r_hi r1)).
      * exact (IH _ _ _ _ t Qm U1 T2 E r I).
      * exact (IH _ _ _ _ t Qm T1 T2 E r I).
Qed.

Lemma insert_ranges_pres : forall rs1 rs2 res,
  (forall x y, Qv x -> Qv y -> Qv (merge x y)) ->
  (forall r, In r rs1 -> rgood r) -> (forall r, In r rs2 -> rgood r) ->
  insert_ranges merge rs1 rs2 = Some res -> forall r, In r res -> rgood r.
Proof.
  intros rs1 rs2 res Qm G1 G2 H. unfold insert_ranges in H.
  eapply (irgo_pres _ (fst (nxt rs1)) (snd (nxt rs1)) (fst (nxt rs2)) (snd (nxt rs2)) res Qm);
    [rewrite nxt_olist; exact G1|rewrite nxt_olist; exact G2|exact H].
Qed.

End RangePres.
Local Close Scope N_scope.

Section Pres.
Variable benv : builtin_env.
Variables okc okh : N -> Prop.
Hypothesis okh_down : forall a b, (a <= b)%N -> okh b -> okh a.

Definition stP (st : nstate) : Prop :=
  ksorted (n_chars st) /\
  (forall c l, In (c, l) (n_chars st) -> okc c /\ l <> []) /\
  (forall r, In r (n_ranges st) -> okh (r_hi r) /\ r_val r <> []).

Definition allP (n : nfa) : Prop := forall s, stP (nget n s).

Lemma stP_empty : stP nstate_empty.
Proof.
  unfold stP. cbn. split; [constructor|]. split; [intros c l []|intros r []].
Qed.

Lemma allP_new : forall n, allP n -> allP (n ++ [nstate_empty]).
Proof. intros n H s. rewrite nget_new. apply H. Qed.

Lemma allP_upd : forall n s f, allP n -> (stP (nget n s) -> stP (f (nget n s))) -> allP (upd s f n).
Proof.
  intros n s f H Hf s'. destruct (Nat.eq_dec s s') as [<-|D].
  - destruct (lt_dec s (length n)).
    + rewrite nget_upd_same by assumption. apply Hf, H.
    + rewrite upd_overflow by lia. apply H.
  - rewrite nget_upd_other by exact D. apply H.
Qed.

Lemma allP_frame : forall n s f, allP n ->
  (forall st, n_chars (f st) = n_chars st /\ n_ranges (f st) = n_ranges st) -> allP (upd s f n).
Proof.
  intros n s f H Hf. apply allP_upd; [exact H|]. intros X. unfold stP.
  destruct (Hf (nget n s)) as [-> ->]. exact X.
Qed.

Lemma pres_eps : forall n s t n', add_empty_transition n s t = Ok n' -> allP n -> allP n'.
Proof.
  intros n s t n' H A. unfold add_empty_transition in H.
  destruct (set_mem t (n_eps (nget n s))); [discriminate|]. injection H as <-.
  apply allP_frame; [exact A|]. intros st. cbn. auto.
Qed.

Lemma pres_any : forall n s t n', add_any_transition n s t = Ok n' -> allP n -> allP n'.
Proof.
  intros n s t n' H A. unfold add_any_transition in H.
  destruct (set_mem t (n_any (nget n s))); [discriminate|]. injection H as <-.
  apply allP_frame; [exact A|]. intros st. cbn. auto.
Qed.

Lemma pres_eoi : forall n s t n', add_eoi_transition n s t = Ok n' -> allP n -> allP n'.
Proof.
  intros n s t n' H A. unfold add_eoi_transition in H.
  destruct (set_mem t (n_eoi (nget n s))); [discriminate|]. injection H as <-.
  apply allP_frame; [exact A|]. intros st. cbn. auto.
Qed.

Lemma pres_acc : forall n s v n', make_state_accepting n s v = Ok n' -> allP n -> allP n'.
Proof.
  intros n s v n' H A. unfold make_state_accepting in H.
  destruct (n_acc (nget n s)); [discriminate|]. injection H as <-.
  apply allP_frame; [exact A|]. intros st. cbn. auto.
Qed.

Lemma pres_char : forall n s c t n',
  add_char_transition n s c t = Ok n' -> okc c -> allP n -> allP n'.
Proof.
  intros n s c t n' H Oc A. unfold add_char_transition in H.
  destruct (set_mem t _); [discriminate|]. injection H as <-.
  apply allP_upd; [exact A|]. intros (S1 & S2 & S3). unfold stP. cbn [n_chars n_ranges].
  split; [apply assoc_N_set_sorted; exact S1|]. split; [|exact S3].
  intros c0 l I. apply assoc_N_set_in in I. destruct I as [I|I]; [|apply (S2 c0 l I)].
  injection I as -> ->. split; [exact Oc|]. intros E.
  assert (X : In t (set_add t (match assoc_N c (n_chars (nget n s)) with Some l => l | None => [] end)))
    by (apply set_add_In; auto).
  rewrite E in X. destruct X.
Qed.

Lemma union_nonempty : forall x y : list nat, x <> [] -> set_union x y <> [].
Proof.
  intros [|a x] y H; [congruence|]. intros E.
  assert (X : In a (set_union (a :: x) y)) by (apply set_union_In; left; left; reflexivity).
  rewrite E in X. destruct X.
Qed.

Lemma pres_range : forall n s lo hi t, okh hi -> allP n -> allP (add_range_transition n s lo hi t).
Proof.
  intros n s lo hi t Oh A. unfold add_range_transition.
  apply allP_upd; [exact A|]. intros (S1 & S2 & S3). unfold stP. cbn [n_chars n_ranges].
  split; [exact S1|]. split; [exact S2|]. unfold insert.
  apply (insert_go_pres set_union okh (fun v => v <> []) okh_down); auto.
  - discriminate.
  - intros x Hx. apply union_nonempty. exact Hx.
Qed.

Lemma pres_ranges : forall n s (m : rmap unit) t n',
  add_range_transitions n s m t = Ok n' -> (forall r, In r m -> okh (r_hi r)) ->
  allP n -> allP n'.
Proof.
  intros n s m t n' H Om A. unfold add_range_transitions in H.
  destruct (insert_ranges set_union (n_ranges (nget n s)) (rmap_map (fun _ => [t]) m)) as [rs|] eqn:E;
    [|discriminate].
  injection H as <-. apply allP_upd; [exact A|]. intros (S1 & S2 & S3). unfold stP.
  cbn [n_chars n_ranges]. split; [exact S1|]. split; [exact S2|].
  apply (insert_ranges_pres set_union okh (fun v => v <> []) okh_down
           (n_ranges (nget n s)) (rmap_map (fun _ => [t]) m) rs); auto.
  - intros x y Hx _. apply union_nonempty. exact Hx.
  - intros r I. unfold rmap_map in I. apply in_map_iff in I. destruct I as (r0 & <- & I0).
    split; cbn [r_hi r_val]; [apply Om; exact I0|discriminate].
Qed.

Lemma pres_string : forall s n cur cont n',
  add_string n s cur cont = Ok n' -> (forall c, In c s -> okc c) -> allP n -> allP n'.
Proof.
  induction s as [|c s IH]; intros n cur cont n' H Os A.
  - cbn [add_string] in H. eapply pres_eps; [exact H|exact A].
  - destruct s as [|c2 s].
    + cbn [add_string] in H. eapply pres_char; [exact H| |exact A]. apply Os. left. reflexivity.
    + change (add_string n (c :: c2 :: s) cur cont)
        with (let (n1, next) := new_state n in
              do n2 <- add_char_transition n1 cur c next; add_string n2 (c2 :: s) next cont) in H.
      unfold new_state in H. apply bind_ok in H. destruct H as (n2 & H1 & H2).
      eapply IH; [exact H2| |].
      * intros c0 I. apply Os. right. exact I.
      * eapply pres_char; [exact H1| |apply allP_new; exact A]. apply Os. left. reflexivity.
Qed.

Lemma pres_charset : forall l n seen cur cont n',
  add_charset n l seen cur cont = Ok n' ->
  (forall x, In x l -> match x with CChar c => okc c | CRange _ b => okh b end) ->
  allP n -> allP n'.
Proof.
  induction l as [|x l IH]; intros n seen cur cont n' H Ol A; cbn [add_charset] in H.
  - injection H as <-. exact A.
  - assert (Ol' : forall y, In y l -> match y with CChar c => okc c | CRange _ b => okh b end).
    { intros y I. apply Ol. right. exact I. }
    pose proof (Ol x (or_introl eq_refl)) as Ox. destruct x as [c|a b0].
    + destruct (existsb (N.eqb c) seen); [eapply IH; eauto|].
      apply bind_ok in H. destruct H as (n1 & H1 & H2).
      eapply IH; [exact H2|exact Ol'|]. eapply pres_char; eauto.
    + eapply IH; [exact H|exact Ol'|]. apply pres_range; assumption.
Qed.

(* condition on the (expanded) regex *)
Variable b : bindings.
Variable C : regex -> Prop.
Hypothesis C_char : forall c, C (RChar c) -> okc c.
Hypothesis C_string : forall s, C (RString s) -> forall c, In c s -> okc c.
Hypothesis C_charset : forall l, C (RCharSet l) ->
  forall x, In x l -> match x with CChar c => okc c | CRange _ b => okh b end.
Hypothesis C_builtin : forall nm t, C (RBuiltin nm) -> lookup_builtin nm benv = Some t ->
  forall p, In p t -> okh (snd p).
Hypothesis C_star : forall a, C (RStar a) -> C a.
Hypothesis C_plus : forall a, C (RPlus a) -> C a.
Hypothesis C_opt : forall a, C (ROpt a) -> C a.
Hypothesis C_cat : forall a a', C (RCat a a') -> C a /\ C a'.
Hypothesis C_or : forall a a', C (ROr a a') -> C a /\ C a'.
Hypothesis C_diff : forall fuel r1 r2 r' m,
  regex_to_range_map benv fuel b (RDiff r1 r2) = Ok m -> expand fuel b (RDiff r1 r2) = Ok r' ->
  C r' -> forall p, In p m -> okh (r_hi p).

Definition pres_ok (fuel : nat) (r : regex) : Prop :=
  forall r' n cur cont n', expand fuel b r = Ok r' -> C r' -> allP n ->
    add_re benv fuel b r n cur cont = Ok n' -> allP n'.

Theorem pres_add_re : forall fuel r, pres_ok fuel r.
Proof.
  induction fuel as [|f IHf];
    induction r as [nm|v|c|s|l|r IHr|r IHr|r IHr|r1 IHr1 r2 IHr2|r1 IHr1 r2 IHr2| | |r1 IHr1 r2 IHr2];
    intros r' n cur cont n' X K A H.
  all: try (rewrite expand_leaf in X by exact I; injection X as <-).
  (* leaves *)
  all: try (rewrite add_re_builtin in H;
            destruct (lookup_builtin nm benv) as [t|] eqn:Eb; [|discriminate];
            eapply pres_ranges; [exact H| |exact A];
            intros r I; unfold pairs_to_rmap in I; apply in_map_iff in I;
            destruct I as (p & <- & Ip); cbn [r_hi]; eapply C_builtin; eauto).
  all: try (rewrite add_re_char in H; eapply pres_char; eauto).
  all: try (rewrite add_re_string in H; eapply pres_string; eauto).
  all: try (rewrite add_re_charset in H; eapply pres_charset; [exact H|apply C_charset; exact K|exact A]).
  all: try (rewrite add_re_any in H; eapply pres_any; eauto).
  all: try (rewrite add_re_eoi in H; eapply pres_eoi; eauto).
  (* variables *)
  all: try (rewrite add_re_var in H; rewrite expand_var in X;
            destruct (lookup_var v b) as [r0|]; [|discriminate]; try discriminate;
            eapply IHf; eassumption).
  (* star *)
  all: try (rewrite expand_star in X; apply bind_ok in X; destruct X as (x & X1 & X);
            injection X as <-; rewrite add_re_star in H;
            apply bind_ok in H; destruct H as (n3 & H3 & H);
            apply bind_ok in H; destruct H as (n4 & H4 & H);
            apply bind_ok in H; destruct H as (n5 & H5 & H);
            apply bind_ok in H; destruct H as (n6 & H6 & H7);
            eapply pres_eps; [exact H7|]; eapply pres_eps; [exact H6|];
            eapply pres_eps; [exact H5|]; eapply pres_eps; [exact H4|];
            eapply IHr; [exact X1|apply C_star; exact K| |exact H3];
            apply allP_new, allP_new; exact A).
  (* plus *)
  all: try (rewrite expand_plus in X; apply bind_ok in X; destruct X as (x & X1 & X);
            injection X as <-; rewrite add_re_plus in H;
            apply bind_ok in H; destruct H as (n3 & H3 & H);
            apply bind_ok in H; destruct H as (n4 & H4 & H);
            apply bind_ok in H; destruct H as (n5 & H5 & H6);
            eapply pres_eps; [exact H6|]; eapply pres_eps; [exact H5|];
            eapply pres_eps; [exact H4|];
            eapply IHr; [exact X1|apply C_plus; exact K| |exact H3];
            apply allP_new, allP_new; exact A).
  (* opt *)
  all: try (rewrite expand_opt in X; apply bind_ok in X; destruct X as (x & X1 & X);
            injection X as <-; rewrite add_re_opt in H;
            apply bind_ok in H; destruct H as (n2 & H2 & H);
            apply bind_ok in H; destruct H as (n3 & H3 & H4);
            eapply pres_eps; [exact H4|]; eapply pres_eps; [exact H3|];
            eapply IHr; [exact X1|apply C_opt; exact K| |exact H2];
            apply allP_new; exact A).
  (* cat *)
  all: try (rewrite expand_cat in X; apply bind_ok in X; destruct X as (x & X1 & X);
            apply bind_ok in X; destruct X as (y & X2 & X); injection X as <-;
            rewrite add_re_cat in H; apply bind_ok in H; destruct H as (n2 & H2 & H3);
            destruct (C_cat _ _ K) as [K1 K2];
            eapply IHr2; [exact X2|exact K2| |exact H3];
            eapply IHr1; [exact X1|exact K1| |exact H2]; apply allP_new; exact A).
  (* or *)
  all: try (rewrite expand_or in X; apply bind_ok in X; destruct X as (x & X1 & X);
            apply bind_ok in X; destruct X as (y & X2 & X); injection X as <-;
            rewrite add_re_or in H;
            apply bind_ok in H; destruct H as (n3 & H3 & H);
            apply bind_ok in H; destruct H as (n4 & H4 & H);
            apply bind_ok in H; destruct H as (n5 & H5 & H6);
            destruct (C_or _ _ K) as [K1 K2];
            eapply pres_eps; [exact H6|]; eapply pres_eps; [exact H5|];
            eapply IHr2; [exact X2|exact K2| |exact H4];
            eapply IHr1; [exact X1|exact K1| |exact H3]; apply allP_new, allP_new; exact A).
  (* diff *)
  all: try (rewrite add_re_diff in H; apply bind_ok in H; destruct H as (m & Hm & H);
            eapply pres_ranges; [exact H| |exact A];
            intros p Ip; eapply C_diff; eauto).
Qed.

Lemma pres_add_regex : forall n re ctx v n' re',
  expand_top b re = Ok re' -> C re' -> allP n ->
  add_regex benv b n re ctx v = Ok n' -> allP n'.
Proof.
  intros n re ctx v n' re' X K A H. unfold add_regex, new_state in H.
  apply bind_ok in H. destruct H as (n2 & H2 & H).
  apply bind_ok in H. destruct H as (n4 & H4 & H).
  eapply pres_add_re; [exact X|exact K| |exact H].
  eapply pres_eps; [exact H4|]. apply allP_new. eapply pres_acc; [exact H2|]. apply allP_new. exact A.
Qed.

End Pres.

(* instances *)

Definition okT (_ : N) : Prop := True.
Definition okM (c : N) : Prop := (c <= CHAR_MAX)%N.

Lemma allP_T_iff : forall n, allP okT okT n <-> nfa_trans_wf n.
Proof.
  intros n. unfold allP, stP, nfa_trans_wf, okT. split; intros H s; destruct (H s) as (A & B & C).
  - split; [exact A|]. split; [intros c l I; apply (B c l I)|intros r I; apply (C r I)].
  - split; [exact A|]. split; [intros c l I; split; [exact Logic.I|apply (B c l I)]
                              |intros r I; split; [exact Logic.I|apply (C r I)]].
Qed.

Lemma allP_M_iff : forall n, allP okM okM n <-> nfa_trans_wf n /\ nfa_chars_max n.
Proof.
  intros n. unfold allP, stP, nfa_trans_wf, nfa_chars_max, okM. split.
  - intros H. split; intros s; destruct (H s) as (A & B & C).
    + split; [exact A|]. split; [intros c l I; apply (B c l I)|intros r I; apply (C r I)].
    + split; [intros c l I; apply (B c l I)|intros r I; apply (C r I)].
  - intros [H1 H2] s. destruct (H1 s) as (A & B & C). destruct (H2 s) as (D & E).
    split; [exact A|]. split; [intros c l I; split; [apply (D c l I)|apply (B c l I)]
                              |intros r I; split; [apply (E r I)|apply (C r I)]].
Qed.

Theorem nfa_trans_wf_new : nfa_trans_wf nfa_new.
Proof.
  apply allP_T_iff. intros s. assert (E : nget nfa_new s = nstate_empty) by (destruct s as [|[|s]]; reflexivity).
  rewrite E. apply stP_empty.
Qed.

Theorem nfa_chars_max_new : nfa_chars_max nfa_new.
Proof.
  assert (X : allP okM okM nfa_new).
  { intros s. assert (E : nget nfa_new s = nstate_empty) by (destruct s as [|[|s]]; reflexivity).
    rewrite E. apply stP_empty. }
  apply allP_M_iff in X. apply X.
Qed.

Theorem add_regex_trans_wf : forall benv b n re ctx v n' re',
  expand_top b re = Ok re' -> nfa_trans_wf n ->
  add_regex benv b n re ctx v = Ok n' -> nfa_trans_wf n'.
Proof.
  intros benv b n re ctx v n' re' X W H. apply allP_T_iff. apply allP_T_iff in W.
  eapply (pres_add_regex benv okT okT (fun _ _ _ H => H) b (fun _ => True));
    try (intros; exact I); try (intros; split; exact I); try eassumption.
  intros l _ x _. destruct x; exact I.
Qed.

Theorem add_regex_chars_max : forall benv b n re ctx v n' re',
  benv_wf benv -> expand_top b re = Ok re' -> regex_chars_ok benv re' = true ->
  nfa_trans_wf n -> nfa_chars_max n ->
  add_regex benv b n re ctx v = Ok n' -> nfa_chars_max n'.
Proof.
  intros benv b n re ctx v n' re' BW X K W M H.
  assert (A : allP okM okM n) by (apply allP_M_iff; auto).
  cut (allP okM okM n'); [intros A'; apply allP_M_iff in A'; apply A'|].
  unfold regex_chars_ok in K. apply andb_true_iff in K.
  eapply (pres_add_regex benv okM okM (fun a c L Hc => N.le_trans _ _ _ L Hc) b
            (fun r => chars_le benv r = true /\ ranges_ok r = true)); try eassumption.
  - intros c [Kc _]. cbn [chars_le] in Kc. unfold okM. apply N.leb_le. exact Kc.
  - intros s [Kc _] c I. cbn [chars_le] in Kc. rewrite forallb_forall in Kc.
    unfold okM. apply N.leb_le. apply (Kc c I).
  - intros l [Kc _] x I. cbn [chars_le] in Kc. rewrite forallb_forall in Kc.
    specialize (Kc x I). destruct x; unfold okM; apply N.leb_le; exact Kc.
  - intros nm t [Kc _] E p I. cbn [chars_le] in Kc. rewrite E in Kc. rewrite forallb_forall in Kc.
    unfold okM. apply N.leb_le. apply (Kc p I).
  - intros a [Kc Kr]. cbn [chars_le ranges_ok] in *. auto.
  - intros a [Kc Kr]. cbn [chars_le ranges_ok] in *. auto.
  - intros a [Kc Kr]. cbn [chars_le ranges_ok] in *. auto.
  - intros a a' [Kc Kr]. cbn [chars_le ranges_ok] in *. apply andb_true_iff in Kc, Kr. tauto.
  - intros a a' [Kc Kr]. cbn [chars_le ranges_ok] in *. apply andb_true_iff in Kc, Kr. tauto.
  - intros fuel r1 r2 r0 m Hm X0 [Kc Kr] p I.
    destruct (r2m_exact benv fuel b _ m BW Hm) as (r'' & X' & _ & PM).
    rewrite X0 in X'. injection X' as <-. destruct (PM Kr) as [Wm Cm].
    destruct (wf_endpoints_members _ m p Wm I) as (_ & _ & Cv). rewrite Cm in Cv.
    unfold okM. eapply cmem_le; eassumption.
Qed.

(* Driver.compile_rules *)
Section CompileRules.
Variable benv : builtin_env.
Variable Q : nfa -> Prop.
Variable RC : regex -> Prop.
Hypothesis Hstep : forall b n re ctx v n' re',
  expand_top b re = Ok re' -> RC re' -> Q n -> add_regex benv b n re ctx v = Ok n' -> Q n'.

Lemma compile_rules_pres : forall rules b n0 ctxs0 n ctxs crules,
  compile_rules benv rules n0 b ctxs0 = Ok (n, ctxs) ->
  close_rules rules b = Ok crules ->
  Forall (fun r => RC (cr_re r)) crules ->
  Q n0 -> Q n.
Proof.
  induction rules as [|[r|v re] rest IH]; intros b n0 ctxs0 n ctxs crules C Cl Wf Q0.
  - cbn in C. injection C as <- <-. exact Q0.
  - cbn [compile_rules close_rules] in C, Cl.
    apply bind_ok in C. destruct C as (x & Cx & C).
    apply bind_ok in Cl. destruct Cl as (c & Cc & Cl).
    apply bind_ok in Cl. destruct Cl as (cs & Ccs & Cl). injection Cl as <-.
    inversion Wf as [|? ? Wc Wcs]; subst.
    unfold compile_single_rule in Cx.
    apply bind_ok in Cx. destruct Cx as (cc & Hcc & Cx).
    apply bind_ok in Cx. destruct Cx as (n1 & Hn1 & Cx). injection Cx as <-.
    cbn [fst snd] in C.
    unfold close_rule in Cc.
    apply bind_ok in Cc. destruct Cc as (re' & Hre & Cc).
    apply bind_ok in Cc. destruct Cc as (cx & Hcx & Cc). injection Cc as <-.
    cbn [cr_re] in Wc.
    eapply IH; [exact C|exact Ccs|exact Wcs|]. eapply Hstep; eauto.
  - cbn [compile_rules close_rules] in C, Cl.
    destruct (lookup_var v b); [discriminate|]. eapply IH; eauto.
Qed.

End CompileRules.

Theorem compile_rules_trans_wf : forall benv rules b n0 ctxs0 n ctxs crules,
  compile_rules benv rules n0 b ctxs0 = Ok (n, ctxs) ->
  close_rules rules b = Ok crules ->
  nfa_trans_wf n0 -> nfa_trans_wf n.
Proof.
  intros benv rules b n0 ctxs0 n ctxs crules C Cl W.
  eapply (compile_rules_pres benv nfa_trans_wf (fun _ => True)); try eassumption.
  - intros b0 n1 re ctx v n' re' X _ W1 H. eapply add_regex_trans_wf; eauto.
  - apply Forall_forall. intros; exact I.
Qed.

Theorem compile_rules_chars_max : forall benv rules b n0 ctxs0 n ctxs crules,
  benv_wf benv ->
  compile_rules benv rules n0 b ctxs0 = Ok (n, ctxs) ->
  close_rules rules b = Ok crules ->
  Forall (fun r => regex_chars_ok benv (cr_re r) = true) crules ->
  nfa_trans_wf n0 -> nfa_chars_max n0 -> nfa_trans_wf n /\ nfa_chars_max n.
Proof.
  intros benv rules b n0 ctxs0 n ctxs crules BW C Cl K W M.
  eapply (compile_rules_pres benv (fun n => nfa_trans_wf n /\ nfa_chars_max n)
            (fun r => regex_chars_ok benv r = true)); try eassumption; [|auto].
  intros b0 n1 re ctx v n' re' X K1 [W1 M1] H. split.
  - eapply add_regex_trans_wf; eauto.
  - eapply add_regex_chars_max; eauto.
Qed.

(* the rule set's DFA, in the form used by RulesetSemProofs.ruleset_sem_of_closed *)
Corollary compile_rules_dfa_ok : forall benv rules b ctxs0 n ctxs crules d m,
  benv_wf benv ->
  compile_rules benv rules nfa_new b ctxs0 = Ok (n, ctxs) ->
  close_rules rules b = Ok crules ->
  Forall (rule_re_ok benv) crules ->
  nfa_to_dfa_map n = Ok (d, m) ->
  dfa_closed n d m /\ 0 < length d /\ dfa_shape_ok d.
Proof.
  intros benv rules b ctxs0 n ctxs crules d m BW C Cl Ok_ H.
  assert (K : Forall (fun r => regex_chars_ok benv (cr_re r) = true) crules).
  { rewrite Forall_forall in *. intros r Hr. apply (Ok_ r Hr). }
  assert (L : Forall (fun r => leaves_wf benv (cr_re r) = true) crules).
  { rewrite Forall_forall in *. intros r Hr. destruct (Ok_ r Hr) as [W Kr].
    unfold wf_regex in W. unfold regex_chars_ok in Kr. apply andb_true_iff in W, Kr.
    apply leaves_ok_wf; tauto. }
  destruct (compile_rules_sem benv BW rules b ctxs0 n ctxs crules C Cl L) as (es & _ & _ & R).
  pose proof (nr_inv _ _ _ R) as NI.
  destruct (compile_rules_chars_max benv rules b nfa_new ctxs0 n ctxs crules BW C Cl K
              nfa_trans_wf_new nfa_chars_max_new) as [TW CM].
  destruct (nfa_to_dfa_closed n d m NI TW H) as [Hc Hl].
  split; [exact Hc|]. split; [exact Hl|]. exact (nfa_to_dfa_shape n d m NI TW CM H).
Qed.

Print Assumptions nfa_to_dfa_closed.
Print Assumptions nfa_to_dfa_shape.
Print Assumptions add_regex_trans_wf.
Print Assumptions add_regex_chars_max.
Print Assumptions compile_rules_trans_wf.
Print Assumptions compile_rules_chars_max.
Print Assumptions compile_rules_dfa_ok.
