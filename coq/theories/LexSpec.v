(* Reference semantics of a generated lexer (DESIGN.md section 4): maximal munch with rule
   priority, right contexts, end-of-input, actions, failures. Executable (through SpecExec);
   it mentions regexes only through the matcher [dmatch] = Spec.lang. *)
From LexVerif Require Import Base CharClass Regex Spec SpecExec.

(* ---------- locations ---------- *)
Section Locs.
Variable width : N -> N.             (* unicode-width of a character (oracle, see trusted base) *)
Variable tab_width : N.              (* 4 in lexgen_util (regenerated constant) *)

Definition advance (l : Loc) (c : N) : Loc :=
  if (c =? 10)%N then mkLoc (line l + 1) 0 (byte_idx l + utf8_len c)
  else if (c =? 9)%N then mkLoc (line l) (col l + tab_width) (byte_idx l + utf8_len c)
  else mkLoc (line l) (col l + width c) (byte_idx l + utf8_len c).

Definition advance_all (l : Loc) (p : list N) : Loc := fold_left advance p l.
Definition loc_of_prefix (p : list N) : Loc := advance_all loc_zero p.
End Locs.

(* ---------- closed rules ---------- *)
Record crule := mkCRule {
  cr_re : regex;                (* closed *)
  cr_ctx : option regex;        (* closed *)
  cr_act : nat                  (* semantic action index (global over the lexer) *)
}.

(* ---------- actions ---------- *)
Section Actions.
Variables T E U : Type.

Record view := mkView {
  v_text : list N;              (* match_(): text since the last reset *)
  v_start : Loc; v_end : Loc;   (* match_loc() *)
  v_peek : option N             (* peek() *)
}.

Inductive ares := AContinue | AReturn (r : T + E).

Record aout := mkAOut {
  a_user : U;
  a_reset : bool;               (* the action called reset_match() *)
  a_switch : option nat;        (* the action called switch(rule set number) *)
  a_res : ares
}.

Definition action := view -> U -> aout.

Inductive item :=
| ITok (s : Loc) (t : T) (e : Loc)
| IInvalid (l : Loc)
| ICustom (x : E) (l : Loc).

End Actions.
Arguments AContinue {T E}.
Arguments AReturn {T E} r.
Arguments mkAOut {T E U}.
Arguments a_user {T E U}.
Arguments a_reset {T E U}.
Arguments a_switch {T E U}.
Arguments a_res {T E U}.
Arguments ITok {T E}.
Arguments IInvalid {T E}.
Arguments ICustom {T E}.

Section LexSpec.
Variable benv : builtin_env.
Variable width : N -> N.
Variable tab_width : N.
Variables T E U : Type.
Variable rulesets : list (list crule).            (* rule set 0 is Init *)
Variable actions : nat -> action T E U.

Notation adv := (advance width tab_width).

(* right context holds on [rest]: some prefix of rest, with end-of-input visible, is in ctx *)
Fixpoint ctx_holds_d (d : dre) (rest : list N) : bool :=
  nullable d ||
  match rest with
  | [] => nullable (deriv benv Eoi d)
  | c :: rest' => ctx_holds_d (deriv benv (Chr c) d) rest'
  end.

Definition ctx_ok (ctx : option regex) (rest : list N) : bool :=
  match ctx with None => true | Some r => ctx_holds_d (of_regex benv r) rest end.

(* best match of one rule on [w]: Some (k, e) with k characters, e = through end-of-input.
   [k0] = characters consumed so far, d = derivative after them. Longer is better; at equal
   length a match through Eoi is better. Plain matches need k >= 1. *)
Fixpoint rule_best (ctx : option regex) (d : dre) (k0 : nat) (w : list N) : option (nat * bool) :=
  let here_plain :=
    if (negb (Nat.eqb k0 0)) && nullable d && ctx_ok ctx w then Some (k0, false) else None in
  match w with
  | [] =>
      if nullable (deriv benv Eoi d) && ctx_ok ctx [] then Some (k0, true) else here_plain
  | c :: w' =>
      match rule_best ctx (deriv benv (Chr c) d) (S k0) w' with
      | Some m => Some m
      | None => here_plain
      end
  end.

Definition better (a b : nat * bool) : bool :=        (* a strictly better than b *)
  (Nat.ltb (fst b) (fst a)) || (Nat.eqb (fst a) (fst b) && snd a && negb (snd b)).

(* selected match over a rule list: maximal (k, e), first rule among the best *)
Fixpoint select_go (rules : list crule) (w : list N) (best : option (crule * (nat * bool)))
  : option (crule * (nat * bool)) :=
  match rules with
  | [] => best
  | r :: rest =>
      let best' :=
        match rule_best (cr_ctx r) (of_regex benv (cr_re r)) 0 w with
        | None => best
        | Some m =>
            match best with
            | None => Some (r, m)
            | Some (_, mb) => if better m mb then Some (r, m) else best
            end
        end in
      select_go rest w best'
  end.

Definition select (rules : list crule) (w : list N) := select_go rules w None.

(* longest viable prefix of w (contexts ignored): number of characters, and whether the
   automaton could still go on after it (some longer word over Chr/Eoi has it as a prefix) *)
Fixpoint viable_go (ds : list dre) (k0 : nat) (w : list N) : nat * bool :=
  match w with
  | [] => (k0, existsb (dhasword benv) ds)
  | c :: w' =>
      let ds' := filter (dnonempty benv) (map (deriv benv (Chr c)) ds) in
      match ds' with
      | [] => (k0, existsb (dhasword benv) ds)
      | _ => viable_go ds' (S k0) w'
      end
  end.

Definition viable (rules : list crule) (w : list N) : nat * bool :=
  viable_go (filter (dnonempty benv) (map (fun r => of_regex benv (cr_re r)) rules)) 0 w.

(* ---------- lexer state of the specification ---------- *)
Record sstate := mkS {
  s_rest : list N;            (* unread input *)
  s_rs : nat;                 (* active rule set *)
  s_user : U;
  s_mstart : Loc;             (* start of the current match *)
  s_pos : Loc;                (* location of the first unread character *)
  s_mtext : list N;           (* text of the current match (since the last reset) *)
  s_ended : bool              (* end-of-input has been acted upon *)
}.

Definition s_init (input : list N) (u : U) : sstate :=
  mkS input 0 u loc_zero loc_zero [] false.

(* one step at a lexeme boundary: either an item is produced, or lexing continues, or the
   stream has ended *)
Inductive sstep :=
| SItem (i : item T E) (s : sstate)
| SCont (s : sstate)
| SEnd (s : sstate).

Definition spec_step (s : sstate) : sstep :=
  if s_ended s then SEnd s else
  let rules := nth (s_rs s) rulesets [] in
  let w := s_rest s in
  match select rules w with
  | Some (r, (k, e)) =>
      let p := firstn k w in
      let rest' := skipn k w in
      let pos' := advance_all width tab_width (s_pos s) p in
      let text := s_mtext s ++ p in
      let v := mkView text (s_mstart s) pos' (hd_error rest') in
      let o := actions (cr_act r) v (s_user s) in
      let rs' := match a_switch o with Some n => n | None => s_rs s end in
      let start := if a_reset o then pos' else s_mstart s in
      match a_res o with
      | AContinue =>
          SCont (mkS rest' rs' (a_user o) start pos' (if a_reset o then [] else text) e)
      | AReturn (inl t) =>
          SItem (ITok start t pos') (mkS rest' rs' (a_user o) pos' pos' [] e)
      | AReturn (inr x) =>
          SItem (ICustom x start) (mkS rest' rs' (a_user o) pos' pos' [] e)
      end
  | None =>
      match w with
      | [] =>
          if Nat.eqb (s_rs s) 0 then SEnd (mkS w (s_rs s) (s_user s) (s_mstart s) (s_pos s) (s_mtext s) true)
          else SItem (IInvalid (s_mstart s)) (mkS w 0 (s_user s) (s_pos s) (s_pos s) [] true)
      | _ =>
          let (k, ext) := viable rules w in
          let more := (Nat.eqb k 0 || ext) in
          let n := if more then S k else k in        (* characters examined and skipped *)
          let p := firstn n w in
          let rest' := skipn n w in
          let pos' := advance_all width tab_width (s_pos s) p in
          (* the scan ran into end-of-input iff it wanted one more character and none was left *)
          let hit_eoi := more && Nat.ltb (length w) n in
          SItem (IInvalid (s_mstart s)) (mkS rest' 0 (s_user s) pos' pos' [] hit_eoi)
      end
  end.

(* next(): iterate steps until an item or the end; fuel = number of steps allowed *)
Fixpoint spec_next (fuel : nat) (s : sstate) : option (option (item T E) * sstate) :=
  match fuel with
  | O => None                                   (* out of fuel: excluded by SpecProofs *)
  | S f =>
      match spec_step s with
      | SItem i s' => Some (Some i, s')
      | SEnd s' => Some (None, s')
      | SCont s' => spec_next f s'
      end
  end.

End LexSpec.
