(* Proofs about state-index bookkeeping:
   - Codegen: arms / renumber / arm_lookup dispatch on renumbered state indices,
   - Dfa: simplify shifts indices of kept states, add_dfa shifts the appended automaton. *)
From LexVerif Require Import Base CharClass RangeMap Regex Nfa Dfa Codegen.

(* ------------------------------------------------------------------ *)
(* Generic list lemmas                                                 *)
(* ------------------------------------------------------------------ *)

Lemma dp_combine_seq {A} (d : list A) (def : A) a :
  combine (seq a (length d)) d = map (fun i => (i, nth (i - a) d def)) (seq a (length d)).
Proof.
  revert a; induction d as [|x d IH]; intros a; [reflexivity|].
  cbn [length seq combine map]. rewrite Nat.sub_diag. cbn [nth]. f_equal.
  rewrite IH. apply map_ext_in. intros i Hi. apply in_seq in Hi.
  replace (i - a) with (S (i - S a)) by lia. reflexivity.
Qed.

Lemma dp_combine_seq0 {T} (d : dfa T) :
  combine (seq 0 (length d)) d = map (fun i => (i, dget d i)) (seq 0 (length d)).
Proof.
  rewrite (dp_combine_seq d dstate_empty 0). apply map_ext. intros i.
  rewrite Nat.sub_0_r. reflexivity.
Qed.

Lemma dp_filter_map {A B} (f : B -> bool) (g : A -> B) l :
  filter f (map g l) = map g (filter (fun x => f (g x)) l).
Proof.
  induction l as [|x l IH]; [reflexivity|]. cbn [map filter].
  destruct (f (g x)); cbn [map]; rewrite IH; reflexivity.
Qed.

Lemma dp_flat_map_map {A B C} (f : B -> list C) (g : A -> B) l :
  flat_map f (map g l) = flat_map (fun x => f (g x)) l.
Proof.
  induction l as [|x l IH]; [reflexivity|]. cbn [map flat_map]. rewrite IH. reflexivity.
Qed.

Lemma dp_filter_true {A} (f : A -> bool) l :
  (forall x, In x l -> f x = true) -> filter f l = l.
Proof.
  induction l as [|x l IH]; intros H; [reflexivity|]. cbn [filter].
  rewrite (H x (or_introl eq_refl)). f_equal. apply IH. intros y Hy. apply H. right; exact Hy.
Qed.

Lemma dp_filter_false {A} (f : A -> bool) l :
  (forall x, In x l -> f x = false) -> filter f l = [].
Proof.
  induction l as [|x l IH]; intros H; [reflexivity|]. cbn [filter].
  rewrite (H x (or_introl eq_refl)). apply IH. intros y Hy. apply H. right; exact Hy.
Qed.

Lemma dp_filter_split_length {A} (p : A -> bool) l :
  length (filter p l) + length (filter (fun x => negb (p x)) l) = length l.
Proof.
  induction l as [|x l IH]; [reflexivity|]. cbn [filter].
  destruct (p x); cbn [negb length]; lia.
Qed.

Lemma dp_set_mem_In x l : set_mem x l = true <-> In x l.
Proof.
  induction l as [|y l IH]; cbn [set_mem In]; [split; [discriminate|tauto]|].
  rewrite orb_true_iff, Nat.eqb_eq, IH. split; intros [H|H]; auto.
Qed.

Lemma dp_seq_split n s : s < n -> seq 0 n = seq 0 s ++ s :: seq (S s) (n - S s).
Proof.
  intros H. replace n with (s + S (n - S s)) at 1 by lia.
  rewrite seq_app. reflexivity.
Qed.

(* ------------------------------------------------------------------ *)
(* Counting the indices below [s] that satisfy a predicate             *)
(* ------------------------------------------------------------------ *)

Definition cnt (q : nat -> bool) (s : nat) : nat := length (filter q (seq 0 s)).

(* for an "index list" L = filter p (seq 0 n), the number of elements of L below s *)
Lemma below_filter p n s :
  s <= n -> length (filter (fun e => e <? s) (filter p (seq 0 n))) = cnt p s.
Proof.
  intros H. unfold cnt. replace n with (s + (n - s)) by lia.
  rewrite seq_app, !filter_app, app_length.
  rewrite dp_filter_true.
  2:{ intros x Hx. apply filter_In in Hx. destruct Hx as [Hx _]. apply in_seq in Hx.
      apply Nat.ltb_lt. lia. }
  rewrite (dp_filter_false _ (filter p (seq (0 + s) (n - s)))).
  2:{ intros x Hx. apply filter_In in Hx. destruct Hx as [Hx _]. apply in_seq in Hx.
      apply Nat.ltb_ge. lia. }
  cbn [length]. lia.
Qed.

Lemma cnt_split p s : cnt p s + cnt (fun i => negb (p i)) s = s.
Proof. unfold cnt. rewrite dp_filter_split_length. apply seq_length. Qed.

Lemma cnt_le_self p s : cnt p s <= s.
Proof. pose proof (cnt_split p s). lia. Qed.

Lemma cnt_lt q i s : i < s -> q i = true -> cnt q i < cnt q s.
Proof.
  intros H Hq. unfold cnt. rewrite (dp_seq_split s i H).
  rewrite filter_app, app_length. cbn [filter]. rewrite Hq. cbn [length]. lia.
Qed.

Lemma cnt_ext q q' n s :
  s <= n -> (forall i, i < n -> q i = q' i) -> cnt q s = cnt q' s.
Proof.
  intros H E. unfold cnt. f_equal. apply filter_ext_in. intros i Hi.
  apply in_seq in Hi. apply E. lia.
Qed.

Lemma nth_cnt q n s def :
  s < n -> q s = true -> nth (cnt q s) (filter q (seq 0 n)) def = s.
Proof.
  intros H Hq. unfold cnt. rewrite (dp_seq_split n s H), filter_app.
  rewrite app_nth2 by lia. rewrite Nat.sub_diag. cbn [filter]. rewrite Hq. reflexivity.
Qed.

(* membership in an index list *)
Lemma set_mem_idx p n i : i < n -> set_mem i (filter p (seq 0 n)) = p i.
Proof.
  intros H. destruct (p i) eqn:E.
  - apply dp_set_mem_In. apply filter_In. split; [apply in_seq; lia|exact E].
  - destruct (set_mem i (filter p (seq 0 n))) eqn:M; [|reflexivity].
    apply dp_set_mem_In in M. apply filter_In in M. destruct M as [_ M]. congruence.
Qed.

(* the lists  map fst (filter P (combine (seq 0 n) d))  are index lists; P is a predicate on
   the pair (index, state) *)
Lemma idx_filter_pair_eq {T} (P : nat * dstate T -> bool) (d : dfa T) :
  map fst (filter P (combine (seq 0 (length d)) d))
  = filter (fun i => P (i, dget d i)) (seq 0 (length d)).
Proof.
  rewrite dp_combine_seq0, dp_filter_map, map_map. cbn [fst]. apply map_id.
Qed.

(* special case: predicate on the state only *)
Lemma idx_filter_eq {T} (g : dstate T -> bool) (d : dfa T) :
  map fst (filter (fun p => g (snd p)) (combine (seq 0 (length d)) d))
  = filter (fun i => g (dget d i)) (seq 0 (length d)).
Proof. exact (idx_filter_pair_eq (fun p => g (snd p)) d). Qed.

(* s - (number of listed indices below s) = number of unlisted indices below s *)
Lemma sub_below p n s :
  s <= n ->
  s - length (filter (fun e => e <? s) (filter p (seq 0 n))) = cnt (fun i => negb (p i)) s.
Proof.
  intros H. rewrite below_filter by exact H. pose proof (cnt_split p s). lia.
Qed.

(* ------------------------------------------------------------------ *)
(* Codegen: inlined_states / renumber / arms / arm_lookup              *)
(* ------------------------------------------------------------------ *)

(* state i is inlined: it has exactly one predecessor, and exactly one arm of that predecessor
   leads to it *)
Definition inl_at (d : dfa trans) (i : nat) : bool := inlined_pred d (i, dget d i).

Lemma inlined_states_eq (d : dfa trans) :
  inlined_states d = filter (inl_at d) (seq 0 (length d)).
Proof. exact (idx_filter_pair_eq (inlined_pred d) d). Qed.

Lemma renumber_cnt (d : dfa trans) s :
  s <= length d ->
  renumber (inlined_states d) s = cnt (fun i => negb (inl_at d i)) s.
Proof.
  intros H. unfold renumber. rewrite inlined_states_eq. apply sub_below. exact H.
Qed.

Lemma set_mem_inlined (d : dfa trans) s :
  s < length d -> set_mem s (inlined_states d) = inl_at d s.
Proof. intros H. rewrite inlined_states_eq. apply set_mem_idx. exact H. Qed.

Lemma not_inlined_inl_at (d : dfa trans) s :
  s < length d -> set_mem s (inlined_states d) = false -> inl_at d s = false.
Proof. intros H M. rewrite set_mem_inlined in M by exact H. exact M. Qed.

(* a state without exactly one predecessor is not inlined; in particular states without
   predecessors (the entry states of the rule sets) *)
Lemma inl_at_one_pred (d : dfa trans) s :
  inl_at d s = true -> length (d_preds (dget d s)) = 1.
Proof.
  unfold inl_at, inlined_pred. cbn [fst snd].
  destruct (d_preds (dget d s)) as [|q [|q' l]]; intros H; try discriminate. reflexivity.
Qed.

Lemma no_preds_not_inlined (d : dfa trans) s :
  s < length d -> d_preds (dget d s) = [] -> set_mem s (inlined_states d) = false.
Proof.
  intros H E. rewrite set_mem_inlined by exact H.
  unfold inl_at, inlined_pred. cbn [fst snd]. rewrite E. reflexivity.
Qed.

Lemma renumber_strict_mono (d : dfa trans) s t :
  s < t -> t <= length d -> set_mem s (inlined_states d) = false ->
  renumber (inlined_states d) s < renumber (inlined_states d) t.
Proof.
  intros Hst Ht M. rewrite !renumber_cnt by lia.
  apply cnt_lt; [exact Hst|]. rewrite (not_inlined_inl_at d s) by (lia || exact M). reflexivity.
Qed.

Theorem renumber_injective : forall (d : dfa trans) s t,
  s < length d -> t < length d ->
  set_mem s (inlined_states d) = false -> set_mem t (inlined_states d) = false ->
  renumber (inlined_states d) s = renumber (inlined_states d) t -> s = t.
Proof.
  intros d s t Hs Ht Ms Mt E.
  destruct (Nat.lt_trichotomy s t) as [L|[L|L]]; [|exact L|].
  - pose proof (renumber_strict_mono d s t L (Nat.lt_le_incl _ _ Ht) Ms). lia.
  - pose proof (renumber_strict_mono d t s L (Nat.lt_le_incl _ _ Hs) Mt). lia.
Qed.

Lemma inlined_length (d : dfa trans) : length (inlined_states d) = cnt (inl_at d) (length d).
Proof. rewrite inlined_states_eq. reflexivity. Qed.

(* the wildcard index is renumber(length d) - 1 *)
Lemma last_index_eq (d : dfa trans) :
  length d - length (inlined_states d) - 1 = renumber (inlined_states d) (length d) - 1.
Proof.
  rewrite renumber_cnt by lia. rewrite inlined_length.
  pose proof (cnt_split (inl_at d) (length d)). lia.
Qed.

Definition arm_of (d : dfa trans) (i : nat) : list (option nat * nat) :=
  if inl_at d i then []
  else let k := renumber (inlined_states d) i in
       [(if k =? length d - length (inlined_states d) - 1 then None else Some k, i)].

Lemma arms_eq (d : dfa trans) : arms d = flat_map (arm_of d) (seq 0 (length d)).
Proof.
  unfold arms. rewrite dp_combine_seq0, dp_flat_map_map. reflexivity.
Qed.

Lemma arm_lookup_skip l l' k :
  (forall pat x, In (pat, x) l -> exists k', pat = Some k' /\ k' <> k) ->
  arm_lookup (l ++ l') k = arm_lookup l' k.
Proof.
  induction l as [|[pat x] l IH]; intros H; [reflexivity|].
  cbn [app arm_lookup].
  destruct (H pat x (or_introl eq_refl)) as [k' [-> Hk]].
  apply Nat.eqb_neq in Hk. rewrite Hk. apply IH. intros p y Hy. apply (H p y). right; exact Hy.
Qed.

(* the states that get no arm are exactly the inlined ones *)
Theorem dispatch_correct' : forall (d : dfa trans) s,
  s < length d -> set_mem s (inlined_states d) = false ->
  arm_lookup (arms d) (renumber (inlined_states d) s) = Some s.
Proof.
  intros d s Hs Ms.
  pose proof (not_inlined_inl_at d s Hs Ms) as Ps.
  pose proof (renumber_strict_mono d s (length d) Hs (le_n _) Ms) as Hlast.
  rewrite arms_eq, (dp_seq_split (length d) s Hs), flat_map_app.
  rewrite arm_lookup_skip.
  - cbn [flat_map]. unfold arm_of at 1. rewrite Ps. cbn [app].
    destruct (renumber (inlined_states d) s =? length d - length (inlined_states d) - 1);
      cbn [arm_lookup]; [reflexivity|]. rewrite Nat.eqb_refl. reflexivity.
  - intros pat x Hin. apply in_flat_map in Hin. destruct Hin as [i [Hi Hin]].
    apply in_seq in Hi. unfold arm_of in Hin.
    destruct (inl_at d i) eqn:Pi.
    + (* inlined: no arm *)
      cbn in Hin. contradiction.
    + destruct Hin as [Hin|[]].
      assert (Mi : set_mem i (inlined_states d) = false).
      { rewrite set_mem_inlined by lia. exact Pi. }
      assert (Hlt : renumber (inlined_states d) i < renumber (inlined_states d) s).
      { apply renumber_strict_mono; [lia|lia|exact Mi]. }
      rewrite last_index_eq in Hin.
      destruct (renumber (inlined_states d) i =? renumber (inlined_states d) (length d) - 1) eqn:E.
      * apply Nat.eqb_eq in E. lia.
      * inversion Hin; subst. eexists; split; [reflexivity|lia].
Qed.

(* no initial state has exactly one predecessor. Since inlining was restricted (arms skip
   exactly the inlined states) this premise of dispatch_correct is no longer needed; it is
   kept so that the statement is unchanged *)
Definition init_not_inlined {T} (d : dfa T) : Prop :=
  forall s, s < length d -> d_init (dget d s) = true -> length (d_preds (dget d s)) <> 1.

Theorem dispatch_correct : forall (d : dfa trans) s,
  init_not_inlined d -> s < length d -> set_mem s (inlined_states d) = false ->
  arm_lookup (arms d) (renumber (inlined_states d) s) = Some s.
Proof. intros d s _. apply dispatch_correct'. Qed.

(* ------------------------------------------------------------------ *)
(* Dfa: simplify                                                       *)
(* ------------------------------------------------------------------ *)

Definition is_empty_at (d : dfa nat) (i : nat) : bool :=
  has_no_transitions (dget d i) && negb (d_init (dget d i)).

Lemma empty_states_eq (d : dfa nat) :
  empty_states d = filter (is_empty_at d) (seq 0 (length d)).
Proof. exact (idx_filter_eq (fun st => has_no_transitions st && negb (d_init st)) d). Qed.

Lemma kept_eq (d : dfa nat) es :
  map snd (filter (fun p => negb (set_mem (fst p) es)) (combine (seq 0 (length d)) d))
  = map (dget d) (filter (fun i => negb (set_mem i es)) (seq 0 (length d))).
Proof. rewrite dp_combine_seq0, dp_filter_map, map_map. reflexivity. Qed.

Lemma result_map_ok {A B} (f : A -> result B) l l' :
  result_map f l = Ok l' ->
  length l' = length l /\ forall j a b, j < length l -> f (nth j l a) = Ok (nth j l' b).
Proof.
  revert l'; induction l as [|x l IH]; intros l' H; cbn [result_map] in H.
  - inversion H; subst. split; [reflexivity|]. intros j a b Hj. cbn in Hj. lia.
  - destruct (f x) as [y|t] eqn:Ex; cbn [bind] in H; [|discriminate].
    destruct (result_map f l) as [ys|t] eqn:El; cbn [bind] in H; [|discriminate].
    inversion H; subst. destruct (IH ys eq_refl) as [IH1 IH2].
    split; [cbn [length]; congruence|].
    intros [|j] a b Hj; cbn [nth]; [exact Ex|]. apply IH2. cbn [length] in Hj. lia.
Qed.

(* simplify: a kept state s of the joined DFA ends up at index s - removed_below, and that
   index holds its image *)
Theorem simplify_index : forall (d : dfa nat) entries d' entries' s,
  simplify d entries = Ok (d', entries') -> s < length d -> set_mem s (empty_states d) = false ->
  let i := s - removed_below (empty_states d) s in
  i < length d' /\ simplify_state d (empty_states d) (dget d s) = Ok (dget d' i).
Proof.
  intros d entries d' entries' s H Hs Ms i.
  unfold simplify in H. rewrite kept_eq in H.
  destruct (result_map (simplify_state d (empty_states d))
              (map (dget d) (filter (fun i => negb (set_mem i (empty_states d)))
                                    (seq 0 (length d))))) as [states|t] eqn:E;
    cbn [bind] in H; [|discriminate].
  inversion H; subst d' entries'; clear H.
  apply result_map_ok in E. destruct E as [Elen Enth].
  rewrite map_length in Elen, Enth.
  set (q := fun i => negb (set_mem i (empty_states d))) in *.
  assert (Hq : forall j, j < length d -> q j = negb (is_empty_at d j)).
  { intros j Hj. unfold q. rewrite empty_states_eq, set_mem_idx by exact Hj. reflexivity. }
  assert (Hi : i = cnt q s).
  { unfold i, removed_below. rewrite empty_states_eq, sub_below by lia.
    symmetry. apply (cnt_ext _ _ (length d)); [lia|exact Hq]. }
  assert (Hqs : q s = true) by (unfold q; rewrite Ms; reflexivity).
  assert (Hlt : i < length (filter q (seq 0 (length d)))).
  { rewrite Hi. apply (cnt_lt q s (length d) Hs Hqs). }
  split; [rewrite Elen; exact Hlt|].
  specialize (Enth i (dget d s) dstate_empty Hlt).
  rewrite map_nth in Enth. rewrite Hi in Enth at 1.
  rewrite (nth_cnt q (length d) s s Hs Hqs) in Enth. exact Enth.
Qed.

Theorem simplify_entries : forall (d : dfa nat) entries d' entries' nm s,
  simplify d entries = Ok (d', entries') -> In (nm, s) entries ->
  In (nm, s - removed_below (empty_states d) s) entries'.
Proof.
  intros d entries d' entries' nm s H Hin. unfold simplify in H.
  destruct (result_map _ _) as [states|t]; cbn [bind] in H; [|discriminate].
  inversion H; subst.
  apply (in_map (fun e => (fst e, snd e - removed_below (empty_states d) (snd e))) _ _ Hin).
Qed.

(* ------------------------------------------------------------------ *)
(* Dfa: add_dfa                                                        *)
(* ------------------------------------------------------------------ *)

(* add_dfa: states of [other] keep their content, shifted by length d *)
Theorem add_dfa_index : forall (d other : dfa nat) s,
  s < length other ->
  dget (fst (add_dfa d other)) (length d + s) = shift_state (length d) (dget other s) /\
  snd (add_dfa d other) = length d /\
  (forall s', s' < length d -> dget (fst (add_dfa d other)) s' = dget d s').
Proof.
  intros d other s Hs. unfold add_dfa, dget. cbn [fst snd]. repeat split.
  - rewrite app_nth2_plus.
    rewrite (nth_indep _ dstate_empty (shift_state (length d) dstate_empty))
      by (rewrite map_length; exact Hs).
    apply map_nth.
  - intros s' Hs'. apply app_nth1. exact Hs'.
Qed.

Print Assumptions dispatch_correct.
Print Assumptions dispatch_correct'.
Print Assumptions renumber_injective.
Print Assumptions simplify_index.
Print Assumptions simplify_entries.
Print Assumptions add_dfa_index.
