(* Correctness of the eps-closure model (Nfa.closure) and the classical consequence of the local
   certificate NfaSem.dfa_closed: running the DFA tracks exactly the set of NFA states reachable
   by the word read so far.  No axioms. *)
From LexVerif Require Import Base CharClass RangeMap Regex Spec Nfa Dfa NfaToDfa NfaSem.
From Coq Require Import List Arith Lia Sorted.
Import ListNotations.

(* ------------------------------------------------------------------ *)
(* sorted duplicate-free sets (Base.set_add, set_of_list) *)

Definition ssorted (l : list nat) : Prop := StronglySorted lt l.

Lemma set_add_in : forall x s y, In y (set_add x s) <-> y = x \/ In y s.
Proof.
  induction s as [|z t IH]; intros y; cbn [set_add].
  - cbn. intuition.
  - destruct (x <? z) eqn:E1. { cbn. intuition. }
    destruct (x =? z) eqn:E2. { apply Nat.eqb_eq in E2. subst. cbn. intuition. }
    cbn [In]. rewrite IH. intuition.
Qed.

Lemma set_add_sorted : forall x s, ssorted s -> ssorted (set_add x s).
Proof.
  unfold ssorted. induction s as [|z t IH]; intros H; cbn [set_add].
  - constructor; constructor.
  - inversion H as [|? ? Ht Hz]; subst.
    destruct (x <? z) eqn:E1.
    { apply Nat.ltb_lt in E1. constructor; [assumption|].
      constructor; [assumption|]. rewrite Forall_forall in *. intros y Hy.
      specialize (Hz y Hy). lia. }
    destruct (x =? z) eqn:E2; [assumption|].
    apply Nat.ltb_ge in E1. apply Nat.eqb_neq in E2.
    constructor; [auto|]. rewrite Forall_forall in *. intros y Hy.
    apply set_add_in in Hy. destruct Hy as [->|Hy]; [lia|auto].
Qed.

Lemma set_mem_in : forall x s, set_mem x s = true <-> In x s.
Proof.
  induction s as [|z t IH]; cbn [set_mem In]; [split; [discriminate|tauto]|].
  rewrite orb_true_iff, Nat.eqb_eq, IH. intuition.
Qed.

Lemma set_mem_false : forall x s, set_mem x s = false <-> ~ In x s.
Proof.
  intros. rewrite <- set_mem_in. destruct (set_mem x s); intuition congruence.
Qed.

Lemma set_add_length : forall x s, set_mem x s = false -> length (set_add x s) = S (length s).
Proof.
  induction s as [|z t IH]; intros H; cbn [set_add]; [reflexivity|].
  cbn [set_mem] in H. apply orb_false_iff in H. destruct H as [H1 H2].
  destruct (x <? z); [reflexivity|]. rewrite H1. cbn [length]. rewrite IH; auto.
Qed.

Lemma fold_set_add_in : forall l acc y,
  In y (fold_left (fun acc x => set_add x acc) l acc) <-> In y acc \/ In y l.
Proof.
  induction l as [|a l IH]; intros acc y; cbn [fold_left In]; [tauto|].
  rewrite IH, set_add_in. intuition.
Qed.

Lemma fold_set_add_sorted : forall l acc,
  ssorted acc -> ssorted (fold_left (fun acc x => set_add x acc) l acc).
Proof.
  induction l as [|a l IH]; intros acc H; cbn [fold_left]; [assumption|].
  apply IH, set_add_sorted, H.
Qed.

Lemma set_of_list_in : forall l y, In y (set_of_list l) <-> In y l.
Proof. intros. unfold set_of_list. rewrite fold_set_add_in. cbn. tauto. Qed.

Lemma set_of_list_sorted : forall l, ssorted (set_of_list l).
Proof. intros. apply fold_set_add_sorted. constructor. Qed.

Lemma set_union_in : forall a b y, In y (set_union a b) <-> In y a \/ In y b.
Proof. intros. unfold set_union. apply fold_set_add_in. Qed.

Lemma set_add_last : forall x acc, (forall y, In y acc -> y < x) -> set_add x acc = acc ++ [x].
Proof.
  induction acc as [|z t IH]; intros H; cbn [set_add app]; [reflexivity|].
  assert (Hz : z < x) by (apply H; left; reflexivity).
  destruct (x <? z) eqn:E1; [apply Nat.ltb_lt in E1; lia|].
  destruct (x =? z) eqn:E2; [apply Nat.eqb_eq in E2; lia|].
  rewrite IH; [reflexivity|]. intros y Hy. apply H. right. exact Hy.
Qed.

Lemma fold_set_add_sorted_id : forall l acc,
  ssorted l -> (forall y x, In y acc -> In x l -> y < x) ->
  fold_left (fun acc x => set_add x acc) l acc = acc ++ l.
Proof.
  unfold ssorted. induction l as [|a l IH]; intros acc Hs Hlt; cbn [fold_left].
  - rewrite app_nil_r. reflexivity.
  - inversion Hs as [|? ? Hl Ha]; subst.
    rewrite set_add_last by (intros y Hy; apply Hlt; [assumption|left; reflexivity]).
    rewrite IH; [rewrite <- app_assoc; reflexivity|assumption|].
    intros y x Hy Hx. apply in_app_or in Hy. destruct Hy as [Hy|[<-|[]]].
    + apply Hlt; [assumption|right; assumption].
    + rewrite Forall_forall in Ha. apply Ha. assumption.
Qed.

(* canonical form: a strictly sorted list is a fixed point of set_of_list *)
Lemma sorted_set_of_list : forall l, ssorted l -> l = set_of_list l.
Proof.
  intros l H. unfold set_of_list. rewrite fold_set_add_sorted_id; auto.
  intros y x [].
Qed.

Lemma set_of_list_idem : forall l, set_of_list l = set_of_list (set_of_list l).
Proof. intros. apply sorted_set_of_list, set_of_list_sorted. Qed.

Lemma ssorted_nodup : forall l, ssorted l -> NoDup l.
Proof.
  unfold ssorted. induction 1 as [|a l Hl IH Ha]; constructor; [|assumption].
  intros Hin. rewrite Forall_forall in Ha. specialize (Ha a Hin). lia.
Qed.

(* two canonical sets with the same members are equal *)
Lemma ssorted_ext : forall a b, ssorted a -> ssorted b -> (forall x, In x a <-> In x b) -> a = b.
Proof.
  unfold ssorted. induction a as [|x a IH]; intros b Ha Hb Hab.
  - destruct b as [|y b]; [reflexivity|]. exfalso. apply (Hab y). left; reflexivity.
  - destruct b as [|y b]. { exfalso. apply (Hab x). left; reflexivity. }
    inversion Ha as [|? ? Ha1 Ha2]; inversion Hb as [|? ? Hb1 Hb2]; subst.
    rewrite Forall_forall in Ha2, Hb2.
    assert (x = y).
    { destruct (proj1 (Hab x) (or_introl eq_refl)) as [E|Hx]; [congruence|].
      destruct (proj2 (Hab y) (or_introl eq_refl)) as [E|Hy]; [congruence|].
      specialize (Ha2 _ Hy). specialize (Hb2 _ Hx). lia. }
    subst y. f_equal. apply IH; auto.
    intros z. split; intros Hz.
    + destruct (proj1 (Hab z) (or_intror Hz)) as [E|?]; [|assumption].
      subst z. specialize (Ha2 _ Hz). lia.
    + destruct (proj2 (Hab z) (or_intror Hz)) as [E|?]; [|assumption].
      subst z. specialize (Hb2 _ Hz). lia.
Qed.

(* ------------------------------------------------------------------ *)
(* paths *)

Lemma npath_app : forall n s w1 t w2 u,
  npath n s w1 t -> npath n t w2 u -> npath n s (w1 ++ w2) u.
Proof.
  intros n s w1 t w2 u H. induction H; intros H2; cbn [app].
  - assumption.
  - eapply NP_eps; eauto.
  - eapply NP_sym; eauto.
Qed.

Lemma npath_eps_snoc : forall n s w t,
  npath n s [] w -> In t (n_eps (nget n w)) -> npath n s [] t.
Proof.
  intros n s w t H Ht.
  change (@nil sym) with (@nil sym ++ []). eapply npath_app; [eassumption|].
  eapply NP_eps; [eassumption|constructor].
Qed.

Lemma npath_cons_inv : forall n s x w u,
  npath n s (x :: w) u ->
  exists s1 s2, npath n s [] s1 /\ In s2 (n_sym_targets (nget n s1) x) /\ npath n s2 w u.
Proof.
  intros n s x w u H. remember (x :: w) as w0 eqn:E. revert x w E.
  induction H as [s|s t u w0 Ht Hp IH|s t u y w0 Ht Hp IH]; intros x w E.
  - discriminate.
  - destruct (IH x w E) as (s1 & s2 & H1 & H2 & H3).
    exists s1, s2. split; [|tauto]. eapply NP_eps; eauto.
  - injection E as -> ->. exists s, t. split; [constructor|tauto].
Qed.

Definition eps_closed (n : nfa) (C : list nat) : Prop :=
  forall s t, In s C -> In t (n_eps (nget n s)) -> In t C.

Lemma eps_closed_path : forall n C, eps_closed n C ->
  forall s t, npath n s [] t -> In s C -> In t C.
Proof.
  intros n C HC s t H. remember (@nil sym) as w eqn:E.
  induction H; intros Hs; [assumption| |discriminate].
  apply IHnpath; [assumption|]. eapply HC; eauto.
Qed.

(* ------------------------------------------------------------------ *)
(* closure *)

Definition push_step (acc : list nat * list nat) (x : nat) : list nat * list nat :=
  if set_mem x (snd acc) then acc else (x :: fst acc, set_add x (snd acc)).

Lemma push_fold : forall l wk cl wk' cl',
  fold_left push_step l (wk, cl) = (wk', cl') ->
  (ssorted cl -> ssorted cl')
  /\ (forall y, In y cl' <-> In y cl \/ In y l)
  /\ (forall y, In y wk' -> In y wk \/ In y l)
  /\ (forall y, In y wk -> In y wk')
  /\ (forall y, In y cl' -> In y cl \/ In y wk')
  /\ length wk' + length cl = length wk + length cl'.
Proof.
  induction l as [|a l IH]; intros wk cl wk' cl' H; cbn [fold_left] in H.
  - injection H as <- <-. repeat split; try tauto. intros [?|[]]; assumption.
  - assert (E : push_step (wk, cl) a
                = if set_mem a cl then (wk, cl) else (a :: wk, set_add a cl)) by reflexivity.
    rewrite E in H. clear E. destruct (set_mem a cl) eqn:Em.
    + apply IH in H. destruct H as (H1 & H2 & H3 & H4 & H5 & H6).
      apply set_mem_in in Em.
      repeat split; auto.
      * intros Hy. apply H2 in Hy. cbn [In]. tauto.
      * intros [Hy|[<-|Hy]]; apply H2; tauto.
      * intros y Hy. apply H3 in Hy. cbn [In]. tauto.
    + apply IH in H. destruct H as (H1 & H2 & H3 & H4 & H5 & H6).
      repeat split.
      * intros Hs. apply H1, set_add_sorted, Hs.
      * intros Hy. apply H2 in Hy. rewrite set_add_in in Hy. cbn [In]. intuition.
      * intros Hy. apply H2. rewrite set_add_in. cbn [In] in Hy. intuition.
      * intros y Hy. apply H3 in Hy. cbn [In] in *. intuition.
      * intros y Hy. apply H4. right. assumption.
      * intros y Hy. apply H5 in Hy. rewrite set_add_in in Hy.
        destruct Hy as [[->|Hy]|Hy]; auto. right. apply H4. left. reflexivity.
      * rewrite set_add_length in H6 by assumption. cbn [length] in H6. lia.
Qed.

Section Closure.
Variable n : nfa.
Variable S0 : list nat.

Record cinv (work clo : list nat) : Prop := {
  ci_sorted : ssorted clo;
  ci_work : forall x, In x work -> In x clo;
  ci_sound : forall x, In x clo -> exists s, In s S0 /\ npath n s [] x;
  ci_start : forall s, In s S0 -> In s clo;
  ci_closed : forall x, In x clo ->
      In x work \/ (forall t, In t (n_eps (nget n x)) -> In t clo)
}.

Lemma cinv_step : forall w rest clo wk' cl',
  cinv (w :: rest) clo ->
  fold_left push_step (n_eps (nget n w)) (rest, clo) = (wk', cl') ->
  cinv wk' cl'.
Proof.
  intros w rest clo wk' cl' [I1 I2 I3 I4 I5] H.
  apply push_fold in H. destruct H as (H1 & H2 & H3 & H4 & H5 & _).
  constructor.
  - auto.
  - intros x Hx. apply H2. apply H3 in Hx. destruct Hx; [left; apply I2; right|right]; assumption.
  - intros x Hx. apply H2 in Hx. destruct Hx as [Hx|Hx]; [auto|].
    destruct (I3 w) as (s & Hs & Hp). { apply I2. left. reflexivity. }
    exists s. split; [assumption|]. eapply npath_eps_snoc; eauto.
  - intros s Hs. apply H2. left. auto.
  - intros x Hx. destruct (H5 x Hx) as [Hc|Hw]; [|left; assumption].
    destruct (I5 x Hc) as [[<-|Hr]|Hcl].
    + right. intros t Ht. apply H2. right. assumption.
    + left. auto.
    + right. intros t Ht. apply H2. left. auto.
Qed.

Lemma closure_go_inv : forall fuel work clo C,
  closure_go fuel n work clo = Some C -> cinv work clo -> cinv [] C.
Proof.
  induction fuel as [|f IH]; intros work clo C H I; cbn [closure_go] in H; [discriminate|].
  destruct work as [|w rest].
  - injection H as <-. assumption.
  - destruct (fold_left _ (n_eps (nget n w)) (rest, clo)) as [wk' cl'] eqn:E.
    eapply IH; [eassumption|]. eapply cinv_step; eauto.
Qed.

Lemma cinv_final : forall C, cinv [] C ->
  (forall t, In t C <-> exists s, In s S0 /\ npath n s [] t) /\ ssorted C /\ eps_closed n C.
Proof.
  intros C [I1 I2 I3 I4 I5].
  assert (Hc : eps_closed n C).
  { intros s t Hs Ht. destruct (I5 s Hs) as [[]|Hcl]. auto. }
  split; [|split; assumption].
  intros t. split; [auto|]. intros (s & Hs & Hp).
  eapply eps_closed_path; eauto.
Qed.

(* fuel *)
Hypothesis Hok : nfa_targets_ok n.

Definition cbound (clo : list nat) : Prop := forall x, In x clo -> x < length n \/ In x S0.

Lemma cbound_length : forall clo, ssorted clo -> cbound clo -> length clo <= length n + length S0.
Proof.
  intros clo Hs Hb.
  replace (length n + length S0) with (length (seq 0 (length n) ++ S0))
    by (rewrite app_length, seq_length; reflexivity).
  apply NoDup_incl_length; [apply ssorted_nodup; assumption|].
  intros x Hx. apply in_or_app. destruct (Hb x Hx); [left; apply in_seq; lia|right; assumption].
Qed.

Lemma eps_bound : forall w t, In t (n_eps (nget n w)) -> t < length n.
Proof.
  intros w t Ht. destruct (Nat.lt_ge_cases w (length n)) as [Hw|Hw].
  - eapply Hok; eauto.
  - unfold nget in Ht. rewrite nth_overflow in Ht by assumption. destruct Ht.
Qed.

Lemma closure_go_total : forall fuel work clo,
  ssorted clo -> cbound clo ->
  length work + (length n + length S0 - length clo) < fuel ->
  exists C, closure_go fuel n work clo = Some C.
Proof.
  induction fuel as [|f IH]; intros work clo Hs Hb Hf; [lia|].
  cbn [closure_go]. destruct work as [|w rest]; [eexists; reflexivity|].
  destruct (fold_left _ (n_eps (nget n w)) (rest, clo)) as [wk' cl'] eqn:E.
  pose proof (push_fold _ _ _ _ _ E) as (H1 & H2 & _ & _ & _ & H6).
  assert (Hb' : cbound cl').
  { intros x Hx. apply H2 in Hx. destruct Hx as [Hx|Hx]; [auto|]. left. eapply eps_bound; eauto. }
  pose proof (cbound_length clo Hs Hb). pose proof (cbound_length cl' (H1 Hs) Hb').
  apply IH; auto. cbn [length] in Hf. lia.
Qed.

End Closure.

(* strongest forms: no side conditions for the characterisation *)
Theorem closure_spec : forall n S C, closure n S = Ok C ->
  (forall t, In t C <-> exists s, In s S /\ npath n s [] t) /\ ssorted C /\ eps_closed n C.
Proof.
  intros n S C H. unfold closure in H.
  destruct (closure_go _ n (set_of_list S) (set_of_list S)) as [c|] eqn:E; [|discriminate].
  injection H as ->.
  apply closure_go_inv with (S0 := set_of_list S) in E.
  - apply cinv_final in E. destruct E as (E1 & E2 & E3). split; [|split; assumption].
    intros t. rewrite E1. split; intros (s & Hs & Hp); exists s; split; auto;
      apply set_of_list_in; assumption.
  - constructor; auto.
    + apply set_of_list_sorted.
    + intros x Hx. exists x. split; [assumption|constructor].
Qed.

Theorem closure_total_strong : forall n S, nfa_targets_ok n -> exists C, closure n S = Ok C.
Proof.
  intros n S Hok. unfold closure.
  destruct (closure_go_total n (set_of_list S) Hok
              (length n + length (set_of_list S) + 1) (set_of_list S) (set_of_list S)) as [C HC].
  - apply set_of_list_sorted.
  - intros x Hx. right. assumption.
  - lia.
  - rewrite HC. eexists; reflexivity.
Qed.

(* pinned statements *)
Theorem closure_correct : forall n S C, nfa_targets_ok n -> (forall s, In s S -> s < length n) ->
  closure n S = Ok C ->
  (forall t, In t C <-> exists s, In s S /\ npath n s [] t) /\ C = set_of_list C.
Proof.
  intros n S C _ _ H. apply closure_spec in H. destruct H as (H1 & H2 & _).
  split; [assumption|]. apply sorted_set_of_list. assumption.
Qed.

Theorem closure_total : forall n S, nfa_targets_ok n -> (forall s, In s S -> s < length n) ->
  exists C, closure n S = Ok C.
Proof. intros n S H _. apply closure_total_strong. assumption. Qed.

(* ------------------------------------------------------------------ *)
(* consequences of dfa_closed *)

Lemma set_step_in : forall n S x t,
  In t (set_step n S x) <-> exists s, In s S /\ In t (n_sym_targets (nget n s) x).
Proof.
  intros. unfold set_step. rewrite set_of_list_in, in_flat_map. tauto.
Qed.

Lemma set_accepting_in : forall n S a,
  In a (set_accepting n S) <-> exists s, In s S /\ n_acc (nget n s) = Some a.
Proof.
  intros. unfold set_accepting. rewrite in_flat_map. split; intros (s & Hs & H); exists s.
  - destruct (n_acc (nget n s)); [|destruct H]. destruct H as [->|[]]. auto.
  - rewrite H. split; [assumption|left; reflexivity].
Qed.

Section Run.
Variables (n : nfa) (d : dfa nat) (m : state_map).
Hypothesis Hc : dfa_closed n d m.

(* invariant of the labels met along a run *)
Definition good_label (S : list nat) : Prop := S <> [] /\ ssorted S /\ eps_closed n S.

Lemma run_from : forall w i S,
  i < length d -> label_of m i = Some S -> good_label S ->
  match dfa_run d i w with
  | Some j => j < length d /\ exists S', label_of m j = Some S' /\ good_label S'
                /\ (forall t, In t S' <-> exists s, In s S /\ npath n s w t)
  | None => w <> [] /\ forall s t, In s S -> ~ npath n s w t
  end.
Proof.
  induction w as [|x w IH]; intros i S Hi Hl Hg; cbn [dfa_run].
  - split; [assumption|]. exists S. split; [assumption|]. split; [assumption|].
    intros t. split.
    + intros Ht. exists t. split; [assumption|constructor].
    + intros (s & Hs & Hp). destruct Hg as (_ & _ & Hcl). eapply eps_closed_path; eauto.
  - pose proof (dc_step _ _ _ Hc i S x Hi Hl) as Hst.
    destruct (closure n (set_step n S x)) as [S1|] eqn:EC; [|contradiction].
    pose proof (closure_spec _ _ _ EC) as (Hm & Hso & Hcl).
    assert (Hfwd : forall s t, In s S -> npath n s (x :: w) t ->
                     exists s2, In s2 S1 /\ npath n s2 w t).
    { intros s t Hs Hp. apply npath_cons_inv in Hp. destruct Hp as (s1 & s2 & P1 & P2 & P3).
      exists s2. split; [|assumption]. apply Hm. exists s2. split; [|constructor].
      apply set_step_in. exists s1. split; [|assumption].
      destruct Hg as (_ & _ & HclS). eapply eps_closed_path; eauto. }
    assert (Hbwd : forall s2 t, In s2 S1 -> npath n s2 w t ->
                     exists s, In s S /\ npath n s (x :: w) t).
    { intros s2 t Hs2 Hp. apply Hm in Hs2. destruct Hs2 as (s1 & Hs1 & P1).
      apply set_step_in in Hs1. destruct Hs1 as (s & Hs & Ht).
      exists s. split; [assumption|]. eapply NP_sym; [eassumption|].
      change w with ([] ++ w). eapply npath_app; eauto. }
    destruct S1 as [|a S1].
    + rewrite Hst. split; [discriminate|]. intros s t Hs Hp.
      destruct (Hfwd s t Hs Hp) as (s2 & [] & _).
    + destruct Hst as (j & Hn & Hj & Hlj). rewrite Hn.
      assert (Hg1 : good_label (a :: S1)) by (split; [discriminate|split; assumption]).
      specialize (IH j (a :: S1) Hj Hlj Hg1).
      destruct (dfa_run d j w) as [k|].
      * destruct IH as (Hk & S' & Hlk & Hgk & Hmk). split; [assumption|].
        exists S'. split; [assumption|]. split; [assumption|].
        intros t. rewrite Hmk. split.
        -- intros (s2 & Hs2 & Hp). eauto.
        -- intros (s & Hs & Hp). eauto.
      * destruct IH as (_ & IH). split; [discriminate|]. intros s t Hs Hp.
        destruct (Hfwd s t Hs Hp) as (s2 & Hs2 & Hp2). eapply IH; eauto.
Qed.

Lemma init_label : exists C0, closure n [0] = Ok C0 /\ label_of m 0 = Some C0 /\ good_label C0
  /\ forall t, In t C0 <-> npath n 0 [] t.
Proof.
  destruct (dc_init _ _ _ Hc) as [Hl Hk].
  destruct (closure n [0]) as [C0|] eqn:EC; [|discriminate].
  exists C0. split; [reflexivity|]. split; [assumption|].
  pose proof (closure_spec _ _ _ EC) as (Hm & Hso & Hcl).
  assert (H0 : In 0 C0). { apply Hm. exists 0. split; [left; reflexivity|constructor]. }
  split.
  - split; [|split; assumption]. intros ->. destruct H0.
  - intros t. rewrite Hm. split.
    + intros (s & [<-|[]] & Hp). assumption.
    + intros Hp. exists 0. split; [left; reflexivity|assumption].
Qed.

(* running the DFA on w tracks exactly the NFA states reachable by w *)
Theorem dfa_closed_run_strong : 0 < length d ->
  forall w,
    match dfa_run d 0 w with
    | Some i => i < length d /\
                exists S, label_of m i = Some S /\ S <> [] /\ S = set_of_list S
                          /\ (forall t, In t S <-> npath n 0 w t)
    | None => w <> [] /\ forall t, ~ npath n 0 w t
    end.
Proof.
  intros Hd w.
  destruct init_label as (C0 & EC & Hl & Hg & Hm).
  pose proof (run_from w 0 C0 Hd Hl Hg) as H.
  destruct (dfa_run d 0 w) as [i|].
  - destruct H as (Hi & S & HlS & (Hne & Hso & _) & HmS). split; [assumption|].
    exists S. split; [assumption|]. split; [assumption|].
    split; [apply sorted_set_of_list; assumption|].
    intros t. rewrite HmS. split.
    + intros (s & Hs & Hp). apply Hm in Hs. change w with ([] ++ w). eapply npath_app; eauto.
    + intros Hp. exists 0. split; [|assumption]. apply Hm. constructor.
  - destruct H as (Hne & H). split; [assumption|]. intros t Hp.
    apply (H 0 t); [|assumption]. apply Hm. constructor.
Qed.

End Run.

(* pinned form (nfa_targets_ok is not needed; kept for the interface) *)
Theorem dfa_closed_run : forall n d m, nfa_targets_ok n -> dfa_closed n d m -> 0 < length d ->
  forall w,
    match dfa_run d 0 w with
    | Some i => i < length d /\
                exists S, label_of m i = Some S /\ S <> [] /\ S = set_of_list S
                          /\ (forall t, In t S <-> npath n 0 w t)
    | None => w <> [] /\ forall t, ~ npath n 0 w t
    end.
Proof. intros n d m _ Hc Hd w. apply dfa_closed_run_strong; assumption. Qed.

(* the empty word: the DFA is in state 0, labelled closure {0} *)
Theorem dfa_closed_run_nil : forall n d m, dfa_closed n d m ->
  exists C0, closure n [0] = Ok C0 /\ label_of m 0 = Some C0 /\ In 0 C0
             /\ forall t, In t C0 <-> npath n 0 [] t.
Proof.
  intros n d m Hc. destruct (init_label n d m Hc) as (C0 & H1 & H2 & _ & H4).
  exists C0. split; [assumption|]. split; [assumption|]. split; [|assumption].
  apply H4. constructor.
Qed.

(* dfa_run succeeds iff some NFA state is reachable *)
Corollary dfa_closed_run_some_iff : forall n d m w, dfa_closed n d m -> 0 < length d ->
  (exists i, dfa_run d 0 w = Some i) <-> (exists t, npath n 0 w t).
Proof.
  intros n d m w Hc Hd. pose proof (dfa_closed_run_strong n d m Hc Hd w) as H.
  destruct (dfa_run d 0 w) as [i|].
  - destruct H as (_ & S & _ & Hne & _ & HmS). split; [|eauto].
    intros _. destruct S as [|t S]; [congruence|]. exists t. apply HmS. left. reflexivity.
  - destruct H as (_ & H). split; [intros (i & Hi); discriminate|].
    intros (t & Ht). destruct (H t Ht).
Qed.

Theorem dfa_closed_acc_order : forall n d m w i S,
  dfa_closed n d m -> 0 < length d ->
  dfa_run d 0 w = Some i -> label_of m i = Some S ->
  d_acc (dget d i) = set_accepting n S
  /\ S = set_of_list S
  /\ (forall t, In t S <-> npath n 0 w t).
Proof.
  intros n d m w i S Hc Hd Hr Hl.
  pose proof (dfa_closed_run_strong n d m Hc Hd w) as H. rewrite Hr in H.
  destruct H as (Hi & S' & Hl' & _ & Hso & HmS).
  rewrite Hl in Hl'. injection Hl' as <-.
  split; [|split; assumption]. eapply dc_acc; eauto.
Qed.

Theorem dfa_closed_accepting : forall n d m w i,
  nfa_targets_ok n -> dfa_closed n d m -> 0 < length d ->
  dfa_run d 0 w = Some i ->
  forall a, In a (d_acc (dget d i)) <-> naccepts n w a.
Proof.
  intros n d m w i _ Hc Hd Hr a.
  pose proof (dfa_closed_run_strong n d m Hc Hd w) as H. rewrite Hr in H.
  destruct H as (Hi & S & Hl & _ & _ & HmS).
  rewrite (dc_acc _ _ _ Hc i S Hi Hl), set_accepting_in. unfold naccepts.
  split; intros (s & Hs & Ha); exists s; split; auto; apply HmS; assumption.
Qed.

(* when the DFA is stuck, the NFA accepts nothing *)
Corollary dfa_closed_stuck : forall n d m w, dfa_closed n d m -> 0 < length d ->
  dfa_run d 0 w = None -> forall a, ~ naccepts n w a.
Proof.
  intros n d m w Hc Hd Hr a (s & Hs & _).
  pose proof (dfa_closed_run_strong n d m Hc Hd w) as H. rewrite Hr in H.
  destruct H as (_ & H). exact (H s Hs).
Qed.

Print Assumptions closure_correct.
Print Assumptions closure_total.
Print Assumptions closure_spec.
Print Assumptions closure_total_strong.
Print Assumptions dfa_closed_run.
Print Assumptions dfa_closed_run_strong.
Print Assumptions dfa_closed_run_nil.
Print Assumptions dfa_closed_run_some_iff.
Print Assumptions dfa_closed_accepting.
Print Assumptions dfa_closed_acc_order.
Print Assumptions dfa_closed_stuck.
