(* C17: ill-formed definitions are rejected by the driver model (Driver.compile returns Panic). *)
From LexVerif Require Import Base CharClass RangeMap Regex Spec Nfa Dfa NfaToDfa Codegen Driver.

(* ---------------------------------------------------------------------------------------- *)
(* names                                                                                    *)
(* ---------------------------------------------------------------------------------------- *)

Lemma name_eqb_refl : forall a, name_eqb a a = true.
Proof. induction a as [|x a IH]; simpl; [reflexivity|]. rewrite N.eqb_refl, IH. reflexivity. Qed.

Lemma name_eqb_eq : forall a b, name_eqb a b = true <-> a = b.
Proof.
  split.
  - revert b. induction a as [|x a IH]; destruct b as [|y b]; simpl; intro H; try discriminate.
    + reflexivity.
    + apply andb_true_iff in H. destruct H as [H1 H2].
      apply N.eqb_eq in H1. apply IH in H2. subst. reflexivity.
  - intros ->. apply name_eqb_refl.
Qed.

Lemma name_eqb_neq : forall a b, a <> b -> name_eqb a b = false.
Proof.
  intros a b H. destruct (name_eqb a b) eqn:E; [|reflexivity].
  apply name_eqb_eq in E. contradiction.
Qed.

(* ---------------------------------------------------------------------------------------- *)
(* helper notions                                                                           *)
(* ---------------------------------------------------------------------------------------- *)

Fixpoint mentions_var (v : name) (r : regex) : bool :=
  match r with
  | RVar v' => name_eqb v v'
  | RStar r1 | RPlus r1 | ROpt r1 => mentions_var v r1
  | RCat r1 r2 | ROr r1 r2 | RDiff r1 r2 => mentions_var v r1 || mentions_var v r2
  | _ => false
  end.

Fixpoint mentions_builtin (n : name) (r : regex) : bool :=
  match r with
  | RBuiltin n' => name_eqb n n'
  | RStar r1 | RPlus r1 | ROpt r1 => mentions_builtin n r1
  | RCat r1 r2 | ROr r1 r2 | RDiff r1 r2 => mentions_builtin n r1 || mentions_builtin n r2
  | _ => false
  end.

Inductive subterm (s : regex) : regex -> Prop :=
| st_refl : subterm s s
| st_star r : subterm s r -> subterm s (RStar r)
| st_plus r : subterm s r -> subterm s (RPlus r)
| st_opt r : subterm s r -> subterm s (ROpt r)
| st_cat_l r1 r2 : subterm s r1 -> subterm s (RCat r1 r2)
| st_cat_r r1 r2 : subterm s r2 -> subterm s (RCat r1 r2)
| st_or_l r1 r2 : subterm s r1 -> subterm s (ROr r1 r2)
| st_or_r r1 r2 : subterm s r2 -> subterm s (ROr r1 r2)
| st_diff_l r1 r2 : subterm s r1 -> subterm s (RDiff r1 r2)
| st_diff_r r1 r2 : subterm s r2 -> subterm s (RDiff r1 r2).

(* ---------------------------------------------------------------------------------------- *)
(* bind / lookup                                                                            *)
(* ---------------------------------------------------------------------------------------- *)

Lemma bind_panic_l : forall {A B} (r : result A) (f : A -> result B),
  is_ok r = false -> is_ok (bind r f) = false.
Proof. intros A B [a|t] f H; [discriminate|reflexivity]. Qed.

Lemma bind_panic_r : forall {A B} (r : result A) (f : A -> result B),
  (forall a, is_ok (f a) = false) -> is_ok (bind r f) = false.
Proof. intros A B [a|t] f H; simpl; [apply H|reflexivity]. Qed.

Lemma lookup_var_app : forall v b1 b2,
  lookup_var v (b1 ++ b2) =
  match lookup_var v b1 with Some r => Some r | None => lookup_var v b2 end.
Proof.
  induction b1 as [|[n r] b1 IH]; intro b2; simpl; [reflexivity|].
  destruct (name_eqb v n); [reflexivity|apply IH].
Qed.

Lemma lookup_var_app_some : forall v b1 b2 r,
  lookup_var v b1 = Some r -> lookup_var v (b1 ++ b2) = Some r.
Proof. intros. rewrite lookup_var_app, H. reflexivity. Qed.

Lemma assoc_name_app_some : forall {A} k (l l' : list (name * A)) i,
  assoc_name k l = Some i -> assoc_name k (l ++ l') = Some i.
Proof.
  induction l as [|[k' x] l IH]; simpl; intros l' i H; [discriminate|].
  destruct (name_eqb k k'); [assumption|apply IH; assumption].
Qed.

Lemma assoc_name_app_last : forall {A} k (l : list (name * A)) x,
  exists i, assoc_name k (l ++ [(k, x)]) = Some i.
Proof.
  induction l as [|[k' y] l IH]; simpl; intro x.
  - rewrite name_eqb_refl. eauto.
  - destruct (name_eqb k k'); [eauto|apply IH].
Qed.

(* ---------------------------------------------------------------------------------------- *)
(* add_re / regex_to_range_map: one-step unfoldings                                         *)
(* ---------------------------------------------------------------------------------------- *)

Section Regex.
Variable benv : builtin_env.

Lemma rm_or : forall fuel b r1 r2,
  regex_to_range_map benv fuel b (ROr r1 r2) =
  (do m1 <- regex_to_range_map benv fuel b r1; do m2 <- regex_to_range_map benv fuel b r2;
   match insert_ranges merge_unit m1 m2 with Some m => Ok m | None => Panic TagOutOfFuel end).
Proof. destruct fuel; reflexivity. Qed.

Lemma rm_diff : forall fuel b r1 r2,
  regex_to_range_map benv fuel b (RDiff r1 r2) =
  (do m1 <- regex_to_range_map benv fuel b r1; do m2 <- regex_to_range_map benv fuel b r2;
   match remove_ranges m1 m2 with Some m => Ok m | None => Panic TagOutOfFuel end).
Proof. destruct fuel; reflexivity. Qed.

Lemma rm_var : forall fuel b v, lookup_var v b = None ->
  regex_to_range_map benv fuel b (RVar v) = Panic TagUnboundVar.
Proof. intros fuel b v H. destruct fuel; simpl; rewrite H; reflexivity. Qed.

Lemma rm_builtin : forall fuel b n, lookup_builtin n benv = None ->
  regex_to_range_map benv fuel b (RBuiltin n) = Panic TagUnknownBuiltin.
Proof. intros fuel b n H. destruct fuel; simpl; rewrite H; reflexivity. Qed.

Lemma rm_string : forall fuel b s, regex_to_range_map benv fuel b (RString s) = Panic TagNotCharSet.
Proof. destruct fuel; reflexivity. Qed.
Lemma rm_star : forall fuel b r, regex_to_range_map benv fuel b (RStar r) = Panic TagNotCharSet.
Proof. destruct fuel; reflexivity. Qed.
Lemma rm_plus : forall fuel b r, regex_to_range_map benv fuel b (RPlus r) = Panic TagNotCharSet.
Proof. destruct fuel; reflexivity. Qed.
Lemma rm_opt : forall fuel b r, regex_to_range_map benv fuel b (ROpt r) = Panic TagNotCharSet.
Proof. destruct fuel; reflexivity. Qed.
Lemma rm_cat : forall fuel b r1 r2, regex_to_range_map benv fuel b (RCat r1 r2) = Panic TagNotCharSet.
Proof. destruct fuel; reflexivity. Qed.
Lemma rm_eoi : forall fuel b, regex_to_range_map benv fuel b REoi = Panic TagNotCharSet.
Proof. destruct fuel; reflexivity. Qed.

Lemma add_re_var : forall fuel b v n cur cont, lookup_var v b = None ->
  add_re benv fuel b (RVar v) n cur cont = Panic TagUnboundVar.
Proof. intros fuel b v n cur cont H. destruct fuel; simpl; rewrite H; reflexivity. Qed.

Lemma add_re_builtin : forall fuel b m n cur cont, lookup_builtin m benv = None ->
  add_re benv fuel b (RBuiltin m) n cur cont = Panic TagUnknownBuiltin.
Proof. intros fuel b m n cur cont H. destruct fuel; simpl; rewrite H; reflexivity. Qed.

Lemma add_re_star : forall fuel b r1 n cur cont,
  add_re benv fuel b (RStar r1) n cur cont =
  (let (n1, re_init) := new_state n in
   let (n2, re_cont) := new_state n1 in
   do n3 <- add_re benv fuel b r1 n2 re_init re_cont;
   do n4 <- add_empty_transition n3 cur cont;
   do n5 <- add_empty_transition n4 cur re_init;
   do n6 <- add_empty_transition n5 re_cont cont;
   add_empty_transition n6 re_cont re_init).
Proof. destruct fuel; reflexivity. Qed.

Lemma add_re_plus : forall fuel b r1 n cur cont,
  add_re benv fuel b (RPlus r1) n cur cont =
  (let (n1, re_init) := new_state n in
   let (n2, re_cont) := new_state n1 in
   do n3 <- add_re benv fuel b r1 n2 re_init re_cont;
   do n4 <- add_empty_transition n3 cur re_init;
   do n5 <- add_empty_transition n4 re_cont cont;
   add_empty_transition n5 re_cont re_init).
Proof. destruct fuel; reflexivity. Qed.

Lemma add_re_opt : forall fuel b r1 n cur cont,
  add_re benv fuel b (ROpt r1) n cur cont =
  (let (n1, re_init) := new_state n in
   do n2 <- add_re benv fuel b r1 n1 re_init cont;
   do n3 <- add_empty_transition n2 cur cont;
   add_empty_transition n3 cur re_init).
Proof. destruct fuel; reflexivity. Qed.

Lemma add_re_cat : forall fuel b r1 r2 n cur cont,
  add_re benv fuel b (RCat r1 r2) n cur cont =
  (let (n1, re1_cont) := new_state n in
   do n2 <- add_re benv fuel b r1 n1 cur re1_cont;
   add_re benv fuel b r2 n2 re1_cont cont).
Proof. destruct fuel; reflexivity. Qed.

Lemma add_re_or : forall fuel b r1 r2 n cur cont,
  add_re benv fuel b (ROr r1 r2) n cur cont =
  (let (n1, re1_init) := new_state n in
   let (n2, re2_init) := new_state n1 in
   do n3 <- add_re benv fuel b r1 n2 re1_init cont;
   do n4 <- add_re benv fuel b r2 n3 re2_init cont;
   do n5 <- add_empty_transition n4 cur re1_init;
   add_empty_transition n5 cur re2_init).
Proof. destruct fuel; reflexivity. Qed.

Lemma add_re_diff : forall fuel b r1 r2 n cur cont,
  add_re benv fuel b (RDiff r1 r2) n cur cont =
  (do m <- regex_to_range_map benv fuel b (RDiff r1 r2);
   add_range_transitions n cur m cont).
Proof. destruct fuel; reflexivity. Qed.

(* "compiling r panics, whatever the NFA and the states" *)
Definition re_panics (fuel : nat) (b : bindings) (r : regex) : Prop :=
  forall n cur cont, is_ok (add_re benv fuel b r n cur cont) = false.
Definition rm_panics (fuel : nat) (b : bindings) (r : regex) : Prop :=
  is_ok (regex_to_range_map benv fuel b r) = false.

Section Closure.
Variables (fuel : nat) (b : bindings).

Lemma rmp_or : forall r1 r2, rm_panics fuel b r1 \/ rm_panics fuel b r2 -> rm_panics fuel b (ROr r1 r2).
Proof.
  unfold rm_panics. intros r1 r2 H. rewrite rm_or. destruct H as [H|H].
  - apply bind_panic_l; exact H.
  - apply bind_panic_r; intro. apply bind_panic_l; exact H.
Qed.

Lemma rmp_diff : forall r1 r2, rm_panics fuel b r1 \/ rm_panics fuel b r2 -> rm_panics fuel b (RDiff r1 r2).
Proof.
  unfold rm_panics. intros r1 r2 H. rewrite rm_diff. destruct H as [H|H].
  - apply bind_panic_l; exact H.
  - apply bind_panic_r; intro. apply bind_panic_l; exact H.
Qed.

Lemma rep_star : forall r, re_panics fuel b r -> re_panics fuel b (RStar r).
Proof.
  unfold re_panics. intros r H n cur cont. rewrite add_re_star. unfold new_state.
  apply bind_panic_l. apply H.
Qed.

Lemma rep_plus : forall r, re_panics fuel b r -> re_panics fuel b (RPlus r).
Proof.
  unfold re_panics. intros r H n cur cont. rewrite add_re_plus. unfold new_state.
  apply bind_panic_l. apply H.
Qed.

Lemma rep_opt : forall r, re_panics fuel b r -> re_panics fuel b (ROpt r).
Proof.
  unfold re_panics. intros r H n cur cont. rewrite add_re_opt. unfold new_state.
  apply bind_panic_l. apply H.
Qed.

Lemma rep_cat : forall r1 r2, re_panics fuel b r1 \/ re_panics fuel b r2 -> re_panics fuel b (RCat r1 r2).
Proof.
  unfold re_panics. intros r1 r2 H n cur cont. rewrite add_re_cat. unfold new_state.
  destruct H as [H|H].
  - apply bind_panic_l. apply H.
  - apply bind_panic_r. intro. apply H.
Qed.

Lemma rep_or : forall r1 r2, re_panics fuel b r1 \/ re_panics fuel b r2 -> re_panics fuel b (ROr r1 r2).
Proof.
  unfold re_panics. intros r1 r2 H n cur cont. rewrite add_re_or. unfold new_state.
  destruct H as [H|H].
  - apply bind_panic_l. apply H.
  - apply bind_panic_r. intro. apply bind_panic_l. apply H.
Qed.

Lemma rep_diff : forall r1 r2, rm_panics fuel b (RDiff r1 r2) -> re_panics fuel b (RDiff r1 r2).
Proof.
  unfold re_panics, rm_panics. intros r1 r2 H n cur cont. rewrite add_re_diff.
  apply bind_panic_l. exact H.
Qed.

Lemma rmp_notclass_string : forall s, rm_panics fuel b (RString s).
Proof. intro. unfold rm_panics. rewrite rm_string. reflexivity. Qed.
Lemma rmp_notclass_star : forall r, rm_panics fuel b (RStar r).
Proof. intro. unfold rm_panics. rewrite rm_star. reflexivity. Qed.
Lemma rmp_notclass_plus : forall r, rm_panics fuel b (RPlus r).
Proof. intro. unfold rm_panics. rewrite rm_plus. reflexivity. Qed.
Lemma rmp_notclass_opt : forall r, rm_panics fuel b (ROpt r).
Proof. intro. unfold rm_panics. rewrite rm_opt. reflexivity. Qed.
Lemma rmp_notclass_cat : forall r1 r2, rm_panics fuel b (RCat r1 r2).
Proof. intros. unfold rm_panics. rewrite rm_cat. reflexivity. Qed.
Lemma rmp_notclass_eoi : rm_panics fuel b REoi.
Proof. unfold rm_panics. rewrite rm_eoi. reflexivity. Qed.

(* ---- an unbound variable anywhere ---- *)

Lemma rm_unbound_var : forall v, lookup_var v b = None ->
  forall r, mentions_var v r = true -> rm_panics fuel b r.
Proof.
  intros v Hv. induction r; simpl; intro H; try discriminate.
  - apply name_eqb_eq in H. subst v0. unfold rm_panics. rewrite rm_var by exact Hv. reflexivity.
  - apply rmp_notclass_star.
  - apply rmp_notclass_plus.
  - apply rmp_notclass_opt.
  - apply rmp_notclass_cat.
  - apply rmp_or. apply orb_true_iff in H. destruct H; [left|right]; auto.
  - apply rmp_diff. apply orb_true_iff in H. destruct H; [left|right]; auto.
Qed.

Lemma re_unbound_var : forall v, lookup_var v b = None ->
  forall r, mentions_var v r = true -> re_panics fuel b r.
Proof.
  intros v Hv. induction r; simpl; intro H; try discriminate.
  - apply name_eqb_eq in H. subst v0. intros n cur cont. rewrite add_re_var by exact Hv. reflexivity.
  - apply rep_star; auto.
  - apply rep_plus; auto.
  - apply rep_opt; auto.
  - apply rep_cat. apply orb_true_iff in H. destruct H; [left|right]; auto.
  - apply rep_or. apply orb_true_iff in H. destruct H; [left|right]; auto.
  - apply rep_diff. apply (rm_unbound_var v Hv (RDiff r1 r2)). exact H.
Qed.

(* ---- an unknown built-in anywhere ---- *)

Lemma rm_unknown_builtin : forall m, lookup_builtin m benv = None ->
  forall r, mentions_builtin m r = true -> rm_panics fuel b r.
Proof.
  intros m Hm. induction r; simpl; intro H; try discriminate.
  - apply name_eqb_eq in H. subst n. unfold rm_panics. rewrite rm_builtin by exact Hm. reflexivity.
  - apply rmp_notclass_star.
  - apply rmp_notclass_plus.
  - apply rmp_notclass_opt.
  - apply rmp_notclass_cat.
  - apply rmp_or. apply orb_true_iff in H. destruct H; [left|right]; auto.
  - apply rmp_diff. apply orb_true_iff in H. destruct H; [left|right]; auto.
Qed.

Lemma re_unknown_builtin : forall m, lookup_builtin m benv = None ->
  forall r, mentions_builtin m r = true -> re_panics fuel b r.
Proof.
  intros m Hm. induction r; simpl; intro H; try discriminate.
  - apply name_eqb_eq in H. subst n. intros n' cur cont. rewrite add_re_builtin by exact Hm. reflexivity.
  - apply rep_star; auto.
  - apply rep_plus; auto.
  - apply rep_opt; auto.
  - apply rep_cat. apply orb_true_iff in H. destruct H; [left|right]; auto.
  - apply rep_or. apply orb_true_iff in H. destruct H; [left|right]; auto.
  - apply rep_diff. apply (rm_unknown_builtin m Hm (RDiff r1 r2)). exact H.
Qed.

(* ---- a `#` with a non-class operand anywhere (closed regexes) ---- *)

Lemma rm_non_class : forall r, closed r = true -> is_class benv r = false -> rm_panics fuel b r.
Proof.
  induction r; simpl; intros Hc H; try discriminate.
  - unfold rm_panics. destruct (lookup_builtin n benv) eqn:E; [discriminate|].
    rewrite rm_builtin by exact E. reflexivity.
  - apply rmp_notclass_string.
  - apply rmp_notclass_star.
  - apply rmp_notclass_plus.
  - apply rmp_notclass_opt.
  - apply rmp_notclass_cat.
  - apply andb_true_iff in Hc. destruct Hc as [Hc1 Hc2].
    apply rmp_or. apply andb_false_iff in H. destruct H; [left|right]; auto.
  - apply rmp_notclass_eoi.
  - apply andb_true_iff in Hc. destruct Hc as [Hc1 Hc2].
    apply rmp_diff. apply andb_false_iff in H. destruct H; [left|right]; auto.
Qed.

Lemma class_subterm : forall s r, subterm s r -> is_class benv r = true -> is_class benv s = true.
Proof.
  induction 1; simpl; intro Hk; try discriminate; auto;
    apply andb_true_iff in Hk; destruct Hk; auto.
Qed.

Lemma re_diff_non_class : forall x y r, subterm (RDiff x y) r ->
  closed r = true -> is_class benv (RDiff x y) = false -> re_panics fuel b r.
Proof.
  intros x y r Hs. induction Hs; intros Hc Hk.
  - apply rep_diff. apply rm_non_class; assumption.
  - apply rep_star; auto.
  - apply rep_plus; auto.
  - apply rep_opt; auto.
  - simpl in Hc. apply andb_true_iff in Hc. destruct Hc. apply rep_cat; left; auto.
  - simpl in Hc. apply andb_true_iff in Hc. destruct Hc. apply rep_cat; right; auto.
  - simpl in Hc. apply andb_true_iff in Hc. destruct Hc. apply rep_or; left; auto.
  - simpl in Hc. apply andb_true_iff in Hc. destruct Hc. apply rep_or; right; auto.
  - apply rep_diff. apply rm_non_class; [exact Hc|].
    destruct (is_class benv (RDiff r1 r2)) eqn:E; [|reflexivity].
    rewrite (class_subterm _ _ (st_diff_l _ _ _ Hs) E) in Hk. discriminate.
  - apply rep_diff. apply rm_non_class; [exact Hc|].
    destruct (is_class benv (RDiff r1 r2)) eqn:E; [|reflexivity].
    rewrite (class_subterm _ _ (st_diff_r _ _ _ Hs) E) in Hk. discriminate.
Qed.

End Closure.

(* ---------------------------------------------------------------------------------------- *)
(* add_regex, new_right_ctx, compile_single_rule, compile_rules                             *)
(* ---------------------------------------------------------------------------------------- *)

Lemma add_regex_panics : forall b n re ctx value,
  re_panics (length b) b re -> is_ok (add_regex benv b n re ctx value) = false.
Proof.
  intros b n re ctx value H. unfold add_regex, new_state.
  apply bind_panic_r; intro. apply bind_panic_r; intro. apply H.
Qed.

(* the rule is bad in scope b: its regex or its right context cannot be compiled *)
Definition rule_bad (b : bindings) (r : rule) : Prop :=
  re_panics (length b) b (ru_re r) \/ exists c, ru_ctx r = Some c /\ re_panics (length b) b c.

Lemma compile_single_rule_panics : forall n r b ctxs,
  rule_bad b r -> is_ok (compile_single_rule benv n r b ctxs) = false.
Proof.
  intros n r b ctxs [H|[c [Hc H]]]; unfold compile_single_rule.
  - apply bind_panic_r; intro. apply bind_panic_l. apply add_regex_panics. exact H.
  - apply bind_panic_l. rewrite Hc. apply bind_panic_l. unfold new_right_ctx.
    apply bind_panic_l. apply add_regex_panics. exact H.
Qed.

Fixpoint local_binds (l : list rob) : bindings :=
  match l with
  | [] => []
  | RBRule _ :: t => local_binds t
  | RBBinding v re :: t => (v, re) :: local_binds t
  end.

(* compile_rules over a prefix: either it already panicked, or the suffix is compiled in the scope
   extended by exactly the bindings of the prefix *)
Lemma compile_rules_app : forall l1 l2 n b c,
  is_ok (compile_rules benv (l1 ++ l2) n b c) = false \/
  exists n' c', compile_rules benv (l1 ++ l2) n b c = compile_rules benv l2 n' (b ++ local_binds l1) c'.
Proof.
  induction l1 as [|x l1 IH]; intros l2 n b c; simpl.
  - right. exists n, c. rewrite app_nil_r. reflexivity.
  - destruct x as [r|v re].
    + destruct (compile_single_rule benv n r b c) as [p|t]; simpl.
      * apply IH.
      * left; reflexivity.
    + destruct (lookup_var v b).
      * left; reflexivity.
      * specialize (IH l2 n (b ++ [(v, re)]) c). rewrite <- app_assoc in IH. exact IH.
Qed.

Lemma local_binds_unbound : forall v l,
  (forall r', ~ In (RBBinding v r') l) -> lookup_var v (local_binds l) = None.
Proof.
  induction l as [|x l IH]; simpl; intro H; [reflexivity|].
  destruct x as [r|v' re].
  - apply IH. intros r' Hin. apply (H r'). right; exact Hin.
  - simpl. destruct (name_eqb v v') eqn:E.
    + apply name_eqb_eq in E. subst v'. exfalso. apply (H re). left; reflexivity.
    + apply IH. intros r' Hin. apply (H r'). right; exact Hin.
Qed.

(* ---------------------------------------------------------------------------------------- *)
(* top_step and the fold                                                                    *)
(* ---------------------------------------------------------------------------------------- *)

Definition run (a : result dstate_acc) (d : def) : result dstate_acc :=
  fold_left (fun acc t => do x <- acc; top_step benv x t) d a.

Definition a0 : dstate_acc := mkDA [] nfa_new None [] [] [] false.

Lemma run_panic : forall d t, run (Panic t) d = Panic t.
Proof. induction d; intro t; simpl; [reflexivity|apply IHd]. Qed.

Lemma run_not_ok : forall r d, is_ok r = false -> is_ok (run r d) = false.
Proof. intros [a|t] d H; [discriminate|]. rewrite run_panic. reflexivity. Qed.

Lemma run_app : forall a l1 l2, run a (l1 ++ l2) = run (run a l1) l2.
Proof. intros. unfold run. apply fold_left_app. Qed.

Lemma run_cons : forall a t l, run (Ok a) (t :: l) = run (top_step benv a t) l.
Proof. reflexivity. Qed.

Lemma run_reject_at : forall pre t post a,
  (forall a1, run (Ok a) pre = Ok a1 -> is_ok (run (top_step benv a1 t) post) = false) ->
  is_ok (run (Ok a) (pre ++ t :: post)) = false.
Proof.
  intros pre t post a H. rewrite run_app.
  destruct (run (Ok a) pre) as [a1|tg] eqn:E.
  - rewrite run_cons. apply H. reflexivity.
  - rewrite run_panic. reflexivity.
Qed.

Lemma run_inv : forall (P : dstate_acc -> Prop) (Q : top -> Prop),
  (forall a t a', P a -> Q t -> top_step benv a t = Ok a' -> P a') ->
  forall l a a', (forall t, In t l -> Q t) -> P a -> run (Ok a) l = Ok a' -> P a'.
Proof.
  intros P Q Hstep. induction l as [|t l IH]; intros a a' HQ HP H.
  - simpl in H. inversion H. subst. exact HP.
  - rewrite run_cons in H. destruct (top_step benv a t) as [a1|tg] eqn:E.
    + apply (IH a1 a').
      * intros t' Hin. apply HQ. right; exact Hin.
      * apply (Hstep a t a1 HP); [apply HQ; left; reflexivity|exact E].
      * exact H.
    + rewrite run_panic in H. discriminate.
Qed.

Definition top_bind (t : top) : bindings :=
  match t with TRob (RBBinding v re) => [(v, re)] | _ => [] end.

(* what an Ok step does to the parts of the accumulator we track *)
Lemma top_step_ok : forall a t a', top_step benv a t = Ok a' ->
  da_bindings a' = da_bindings a ++ top_bind t /\
  (exists l, da_entries a' = da_entries a ++ l) /\
  (da_errty a = true -> da_errty a' = true) /\
  (match t with TRuleSet _ _ => True | _ => da_init a' = da_init a end) /\
  (match t with
   | TErrorType => da_errty a' = true
   | TRuleSet nm _ => exists i, assoc_name nm (da_entries a') = Some i
   | _ => True
   end).
Proof.
  intros a t a' H. destruct t as [|[r|v re]|nm rules]; simpl in H.
  - destruct (da_errty a) eqn:E; [discriminate|]. inversion H; subst; simpl.
    rewrite app_nil_r. repeat split; auto. exists []. rewrite app_nil_r. reflexivity.
  - destruct (compile_single_rule benv (da_unnamed a) r (da_bindings a) (da_ctxs a)); simpl in H;
      [|discriminate].
    inversion H; subst; simpl. rewrite app_nil_r. repeat split; auto.
    exists []. rewrite app_nil_r. reflexivity.
  - destruct (lookup_var v (da_bindings a)); [discriminate|].
    inversion H; subst; simpl. repeat split; auto.
    exists []. rewrite app_nil_r. reflexivity.
  - destruct (name_eqb nm name_Init).
    + destruct (compile_rules benv rules nfa_new (da_bindings a) (da_ctxs a)) as [x|tg]; simpl in H; [|discriminate].
      destruct (nfa_to_dfa_map (fst x)) as [dm|tg]; simpl in H; [|discriminate].
      destruct (assoc_name nm (da_entries a)); [discriminate|].
      inversion H; subst; simpl. rewrite app_nil_r. repeat split; auto.
      * eexists; reflexivity.
      * apply assoc_name_app_last.
    + destruct (da_init a); [|discriminate].
      destruct (compile_rules benv rules nfa_new (da_bindings a) (da_ctxs a)) as [x|tg]; simpl in H; [|discriminate].
      destruct (nfa_to_dfa_map (fst x)) as [dm|tg]; simpl in H; [|discriminate].
      destruct (add_dfa d (fst dm)).
      destruct (assoc_name nm (da_entries a)); [discriminate|].
      inversion H; subst; simpl. rewrite app_nil_r. repeat split; auto.
      * eexists; reflexivity.
      * apply assoc_name_app_last.
Qed.

Lemma top_step_ruleset_panics : forall a nm rules,
  is_ok (compile_rules benv rules nfa_new (da_bindings a) (da_ctxs a)) = false ->
  is_ok (top_step benv a (TRuleSet nm rules)) = false.
Proof.
  intros a nm rules H. simpl. destruct (name_eqb nm name_Init).
  - apply bind_panic_l. exact H.
  - destruct (da_init a); [|reflexivity]. apply bind_panic_l. exact H.
Qed.

Lemma top_step_ruleset_dup : forall a nm rules i,
  assoc_name nm (da_entries a) = Some i ->
  is_ok (top_step benv a (TRuleSet nm rules)) = false.
Proof.
  intros a nm rules i H. simpl. destruct (name_eqb nm name_Init).
  - apply bind_panic_r; intro. apply bind_panic_r; intro. rewrite H. reflexivity.
  - destruct (da_init a); [|reflexivity].
    apply bind_panic_r; intro x. apply bind_panic_r; intro dm.
    destruct (add_dfa d (fst dm)). rewrite H. reflexivity.
Qed.

(* preserved facts *)
Lemma bound_preserved : forall v a t a',
  (exists r, lookup_var v (da_bindings a) = Some r) -> True -> top_step benv a t = Ok a' ->
  exists r, lookup_var v (da_bindings a') = Some r.
Proof.
  intros v a t a' [r Hr] _ H. apply top_step_ok in H. destruct H as [Hb _].
  exists r. rewrite Hb. apply lookup_var_app_some. exact Hr.
Qed.

Lemma unbound_preserved : forall v a t a',
  lookup_var v (da_bindings a) = None -> (forall r', t <> TRob (RBBinding v r')) ->
  top_step benv a t = Ok a' -> lookup_var v (da_bindings a') = None.
Proof.
  intros v a t a' Hn Hq H. apply top_step_ok in H. destruct H as [Hb _].
  rewrite Hb, lookup_var_app, Hn.
  destruct t as [|[r|v' re]|nm rules]; simpl; try reflexivity.
  destruct (name_eqb v v') eqn:E; [|reflexivity].
  apply name_eqb_eq in E. subst v'. exfalso. apply (Hq re). reflexivity.
Qed.

Lemma entry_preserved : forall nm a t a',
  (exists i, assoc_name nm (da_entries a) = Some i) -> True -> top_step benv a t = Ok a' ->
  exists i, assoc_name nm (da_entries a') = Some i.
Proof.
  intros nm a t a' [i Hi] _ H. apply top_step_ok in H. destruct H as [_ [[l Hl] _]].
  exists i. rewrite Hl. apply assoc_name_app_some. exact Hi.
Qed.

Lemma errty_preserved : forall a t a',
  da_errty a = true -> True -> top_step benv a t = Ok a' -> da_errty a' = true.
Proof.
  intros a t a' Hi _ H. apply top_step_ok in H. destruct H as [_ [_ [He _]]]. auto.
Qed.

Lemma noinit_preserved : forall a t a',
  da_init a = None -> match t with TRuleSet _ _ => False | _ => True end ->
  top_step benv a t = Ok a' -> da_init a' = None.
Proof.
  intros a t a' Hi Hq H. apply top_step_ok in H. destruct H as [_ [_ [_ [Hn _]]]].
  destruct t; try contradiction; rewrite Hn; exact Hi.
Qed.

Lemma all_true : forall (l : list top) t, In t l -> True.
Proof. auto. Qed.

Lemma compile_run_panics : forall mg d,
  is_ok (run (Ok a0) d) = false -> is_ok (compile benv mg d) = false.
Proof.
  intros mg d H. unfold compile. destruct (mixed d); [reflexivity|].
  apply bind_panic_l. exact H.
Qed.

(* generic "two positions" scheme: a fact P established by the step at the first position and
   preserved by every step makes the step at the second position panic *)
Lemma reject_two : forall (P : dstate_acc -> Prop) pre t1 mid t2 post a,
  (forall a1 a2, top_step benv a1 t1 = Ok a2 -> P a2) ->
  (forall a1 t a2, P a1 -> True -> top_step benv a1 t = Ok a2 -> P a2) ->
  (forall a1, P a1 -> is_ok (top_step benv a1 t2) = false) ->
  is_ok (run (Ok a) (pre ++ t1 :: mid ++ t2 :: post)) = false.
Proof.
  intros P pre t1 mid t2 post a H1 Hp H2.
  apply run_reject_at. intros a1 _.
  destruct (top_step benv a1 t1) as [a2|tg] eqn:E; [|rewrite run_panic; reflexivity].
  apply run_reject_at. intros a3 H3.
  apply run_not_ok. apply H2.
  apply (run_inv P (fun _ => True) Hp mid a2 a3); auto.
  apply (H1 a1 a2 E).
Qed.

End Regex.

(* ======================================================================================== *)
(* The pinned theorems                                                                      *)
(* ======================================================================================== *)

(* 1. named and unnamed rules mixed, anywhere *)
Theorem reject_mixed : forall benv mg d, mixed d = true -> compile benv mg d = Panic TagMixedRules.
Proof. intros benv mg d H. unfold compile. rewrite H. reflexivity. Qed.

(* 2. error type declared twice *)
Theorem reject_dup_error_type : forall benv mg pre mid post,
  is_ok (compile benv mg (pre ++ TErrorType :: mid ++ TErrorType :: post)) = false.
Proof.
  intros. apply compile_run_panics.
  apply (reject_two benv (fun a => da_errty a = true)).
  - intros a1 a2 H. apply top_step_ok in H. apply H.
  - apply errty_preserved.
  - intros a1 H. simpl. rewrite H. reflexivity.
Qed.

(* 3. a top-level variable defined twice *)
Theorem reject_dup_top_var : forall benv mg pre mid post v r1 r2,
  is_ok (compile benv mg (pre ++ TRob (RBBinding v r1) :: mid ++ TRob (RBBinding v r2) :: post)) = false.
Proof.
  intros. apply compile_run_panics.
  apply (reject_two benv (fun a => exists r, lookup_var v (da_bindings a) = Some r)).
  - intros a1 a2 H. apply top_step_ok in H. destruct H as [Hb _]. rewrite Hb. simpl.
    rewrite lookup_var_app. destruct (lookup_var v (da_bindings a1)); [eauto|].
    simpl. rewrite name_eqb_refl. eauto.
  - apply bound_preserved.
  - intros a1 [r H]. simpl. rewrite H. reflexivity.
Qed.

(* 4. a variable defined twice inside one rule set / shadowing an earlier top-level variable *)
Theorem reject_dup_local_var : forall benv mg pre post nm rpre rmid rpost v r1 r2,
  is_ok (compile benv mg (pre ++ TRuleSet nm (rpre ++ RBBinding v r1 :: rmid ++ RBBinding v r2 :: rpost) :: post)) = false.
Proof.
  intros. apply compile_run_panics. apply run_reject_at. intros a1 _.
  apply run_not_ok. apply top_step_ruleset_panics.
  destruct (compile_rules_app benv rpre (RBBinding v r1 :: rmid ++ RBBinding v r2 :: rpost)
              nfa_new (da_bindings a1) (da_ctxs a1)) as [H|[n' [c' H]]]; [exact H|].
  rewrite H. simpl.
  destruct (lookup_var v (da_bindings a1 ++ local_binds rpre)) eqn:E; [reflexivity|].
  destruct (compile_rules_app benv rmid (RBBinding v r2 :: rpost) n'
              ((da_bindings a1 ++ local_binds rpre) ++ [(v, r1)]) c') as [H'|[n'' [c'' H']]]; [exact H'|].
  rewrite H'. simpl.
  rewrite (lookup_var_app_some v _ (local_binds rmid) r1); [reflexivity|].
  rewrite lookup_var_app, E. simpl. rewrite name_eqb_refl. reflexivity.
Qed.

Theorem reject_shadow_top_var : forall benv mg pre mid post nm rpre rpost v r1 r2,
  is_ok (compile benv mg (pre ++ TRob (RBBinding v r1) :: mid ++ TRuleSet nm (rpre ++ RBBinding v r2 :: rpost) :: post)) = false.
Proof.
  intros. apply compile_run_panics.
  apply (reject_two benv (fun a => exists r, lookup_var v (da_bindings a) = Some r)).
  - intros a1 a2 H. apply top_step_ok in H. destruct H as [Hb _]. rewrite Hb. simpl.
    rewrite lookup_var_app. destruct (lookup_var v (da_bindings a1)); [eauto|].
    simpl. rewrite name_eqb_refl. eauto.
  - apply bound_preserved.
  - intros a1 [r H]. apply top_step_ruleset_panics.
    destruct (compile_rules_app benv rpre (RBBinding v r2 :: rpost)
                nfa_new (da_bindings a1) (da_ctxs a1)) as [H'|[n' [c' H']]]; [exact H'|].
    rewrite H'. simpl.
    rewrite (lookup_var_app_some v _ (local_binds rpre) r H). reflexivity.
Qed.

(* 5. first rule set not named Init *)
Theorem reject_first_not_init : forall benv mg pre post nm rules,
  (forall t, In t pre -> match t with TRuleSet _ _ => False | _ => True end) ->
  name_eqb nm name_Init = false ->
  is_ok (compile benv mg (pre ++ TRuleSet nm rules :: post)) = false.
Proof.
  intros benv mg pre post nm rules Hpre Hnm. apply compile_run_panics.
  apply run_reject_at. intros a1 H1. apply run_not_ok.
  assert (Hi : da_init a1 = None).
  { apply (run_inv benv (fun a => da_init a = None)
             (fun t => match t with TRuleSet _ _ => False | _ => True end)
             (noinit_preserved benv) pre (a0) a1 Hpre); [reflexivity|exact H1]. }
  simpl. rewrite Hnm, Hi. reflexivity.
Qed.

(* 6. a rule set defined twice *)
Theorem reject_dup_ruleset : forall benv mg pre mid post nm rules1 rules2,
  is_ok (compile benv mg (pre ++ TRuleSet nm rules1 :: mid ++ TRuleSet nm rules2 :: post)) = false.
Proof.
  intros. apply compile_run_panics.
  apply (reject_two benv (fun a => exists i, assoc_name nm (da_entries a) = Some i)).
  - intros a1 a2 H. apply top_step_ok in H. apply H.
  - apply entry_preserved.
  - intros a1 [i H]. apply (top_step_ruleset_dup benv a1 nm rules2 i H).
Qed.

(* 7. unbound variables / unknown built-ins *)

(* generic: a rule that is bad in every scope satisfying S, at top level / in a rule set *)
Lemma reject_bad_rule_unnamed : forall benv mg pre post r (S : bindings -> Prop),
  S [] ->
  (forall a t a', S (da_bindings a) -> In t pre -> top_step benv a t = Ok a' -> S (da_bindings a')) ->
  (forall b, S b -> rule_bad benv b r) ->
  is_ok (compile benv mg (pre ++ TRob (RBRule r) :: post)) = false.
Proof.
  intros benv mg pre post r S S0 Sstep Sbad. apply compile_run_panics.
  apply run_reject_at. intros a1 H1. apply run_not_ok.
  assert (Hs : S (da_bindings a1)).
  { apply (run_inv benv (fun a => S (da_bindings a)) (fun t => In t pre) Sstep pre a0 a1); auto. }
  simpl. apply bind_panic_l. apply compile_single_rule_panics. apply Sbad. exact Hs.
Qed.

Lemma reject_bad_rule_ruleset : forall benv mg pre post nm rpre rpost r (S : bindings -> Prop),
  S [] ->
  (forall a t a', S (da_bindings a) -> In t pre -> top_step benv a t = Ok a' -> S (da_bindings a')) ->
  (forall b, S b -> rule_bad benv (b ++ local_binds rpre) r) ->
  is_ok (compile benv mg (pre ++ TRuleSet nm (rpre ++ RBRule r :: rpost) :: post)) = false.
Proof.
  intros benv mg pre post nm rpre rpost r S S0 Sstep Sbad. apply compile_run_panics.
  apply run_reject_at. intros a1 H1. apply run_not_ok.
  assert (Hs : S (da_bindings a1)).
  { apply (run_inv benv (fun a => S (da_bindings a)) (fun t => In t pre) Sstep pre a0 a1); auto. }
  apply top_step_ruleset_panics.
  destruct (compile_rules_app benv rpre (RBRule r :: rpost)
              nfa_new (da_bindings a1) (da_ctxs a1)) as [H'|[n' [c' H']]]; [exact H'|].
  rewrite H'. simpl. apply bind_panic_l. apply compile_single_rule_panics. apply Sbad. exact Hs.
Qed.

Lemma rule_bad_unbound_var : forall benv b r v,
  lookup_var v b = None ->
  (mentions_var v (ru_re r) = true \/ exists c, ru_ctx r = Some c /\ mentions_var v c = true) ->
  rule_bad benv b r.
Proof.
  intros benv b r v Hv [H|[c [Hc H]]].
  - left. apply (re_unbound_var benv _ _ v Hv). exact H.
  - right. exists c. split; [exact Hc|]. apply (re_unbound_var benv _ _ v Hv). exact H.
Qed.

Lemma rule_bad_unknown_builtin : forall benv b r n,
  lookup_builtin n benv = None ->
  (mentions_builtin n (ru_re r) = true \/ exists c, ru_ctx r = Some c /\ mentions_builtin n c = true) ->
  rule_bad benv b r.
Proof.
  intros benv b r n Hn [H|[c [Hc H]]].
  - left. apply (re_unknown_builtin benv _ _ n Hn). exact H.
  - right. exists c. split; [exact Hc|]. apply (re_unknown_builtin benv _ _ n Hn). exact H.
Qed.

Lemma unbound_step : forall benv v pre,
  (forall r', ~ In (TRob (RBBinding v r')) pre) ->
  forall a t a', lookup_var v (da_bindings a) = None -> In t pre -> top_step benv a t = Ok a' ->
  lookup_var v (da_bindings a') = None.
Proof.
  intros benv v pre Hpre a t a' Hn Hin H.
  apply (unbound_preserved benv v a t a' Hn); [|exact H].
  intros r' ->. exact (Hpre r' Hin).
Qed.

Theorem reject_unbound_var_unnamed : forall benv mg pre post r v,
  (mentions_var v (ru_re r) = true \/ exists c, ru_ctx r = Some c /\ mentions_var v c = true) ->
  (forall r', ~ In (TRob (RBBinding v r')) pre) ->
  is_ok (compile benv mg (pre ++ TRob (RBRule r) :: post)) = false.
Proof.
  intros benv mg pre post r v Hm Hpre.
  apply (reject_bad_rule_unnamed benv mg pre post r (fun b => lookup_var v b = None)).
  - reflexivity.
  - apply unbound_step. exact Hpre.
  - intros b Hb. apply (rule_bad_unbound_var benv b r v Hb Hm).
Qed.

Theorem reject_unbound_var_ruleset : forall benv mg pre post nm rpre rpost r v,
  (mentions_var v (ru_re r) = true \/ exists c, ru_ctx r = Some c /\ mentions_var v c = true) ->
  (forall r', ~ In (TRob (RBBinding v r')) pre) -> (forall r', ~ In (RBBinding v r') rpre) ->
  is_ok (compile benv mg (pre ++ TRuleSet nm (rpre ++ RBRule r :: rpost) :: post)) = false.
Proof.
  intros benv mg pre post nm rpre rpost r v Hm Hpre Hrpre.
  apply (reject_bad_rule_ruleset benv mg pre post nm rpre rpost r (fun b => lookup_var v b = None)).
  - reflexivity.
  - apply unbound_step. exact Hpre.
  - intros b Hb. apply (rule_bad_unbound_var benv _ r v); [|exact Hm].
    rewrite lookup_var_app, Hb. apply local_binds_unbound. exact Hrpre.
Qed.

Theorem reject_unknown_builtin_unnamed : forall benv mg pre post r n,
  lookup_builtin n benv = None ->
  (mentions_builtin n (ru_re r) = true \/ exists c, ru_ctx r = Some c /\ mentions_builtin n c = true) ->
  is_ok (compile benv mg (pre ++ TRob (RBRule r) :: post)) = false.
Proof.
  intros benv mg pre post r n Hn Hm.
  apply (reject_bad_rule_unnamed benv mg pre post r (fun _ => True)); auto.
  intros b _. apply (rule_bad_unknown_builtin benv b r n Hn Hm).
Qed.

Theorem reject_unknown_builtin_ruleset : forall benv mg pre post nm rpre rpost r n,
  lookup_builtin n benv = None ->
  (mentions_builtin n (ru_re r) = true \/ exists c, ru_ctx r = Some c /\ mentions_builtin n c = true) ->
  is_ok (compile benv mg (pre ++ TRuleSet nm (rpre ++ RBRule r :: rpost) :: post)) = false.
Proof.
  intros benv mg pre post nm rpre rpost r n Hn Hm.
  apply (reject_bad_rule_ruleset benv mg pre post nm rpre rpost r (fun _ => True)); auto.
  intros b _. apply (rule_bad_unknown_builtin benv _ r n Hn Hm).
Qed.

(* 8. an operand of `#` that is not a character class, in a closed regex *)
Lemma is_class_diff_false : forall benv a b,
  is_class benv a = false \/ is_class benv b = false -> is_class benv (RDiff a b) = false.
Proof. intros benv a b H. simpl. apply andb_false_iff. exact H. Qed.

Theorem reject_diff_non_class_unnamed : forall benv mg pre post r a b,
  closed (ru_re r) = true -> subterm (RDiff a b) (ru_re r) ->
  (is_class benv a = false \/ is_class benv b = false) ->
  is_ok (compile benv mg (pre ++ TRob (RBRule r) :: post)) = false.
Proof.
  intros benv mg pre post r a b Hc Hs Hk.
  apply (reject_bad_rule_unnamed benv mg pre post r (fun _ => True)); auto.
  intros bb _. left.
  apply (re_diff_non_class benv _ _ a b (ru_re r) Hs Hc (is_class_diff_false benv a b Hk)).
Qed.

Theorem reject_diff_non_class_ruleset : forall benv mg pre post nm rpre rpost r a b,
  closed (ru_re r) = true -> subterm (RDiff a b) (ru_re r) ->
  (is_class benv a = false \/ is_class benv b = false) ->
  is_ok (compile benv mg (pre ++ TRuleSet nm (rpre ++ RBRule r :: rpost) :: post)) = false.
Proof.
  intros benv mg pre post nm rpre rpost r a b Hc Hs Hk.
  apply (reject_bad_rule_ruleset benv mg pre post nm rpre rpost r (fun _ => True)); auto.
  intros bb _. left.
  apply (re_diff_non_class benv _ _ a b (ru_re r) Hs Hc (is_class_diff_false benv a b Hk)).
Qed.

(* the same for the right context of a rule *)
Theorem reject_diff_non_class_ctx_unnamed : forall benv mg pre post r c a b,
  ru_ctx r = Some c -> closed c = true -> subterm (RDiff a b) c ->
  (is_class benv a = false \/ is_class benv b = false) ->
  is_ok (compile benv mg (pre ++ TRob (RBRule r) :: post)) = false.
Proof.
  intros benv mg pre post r c a b Hctx Hc Hs Hk.
  apply (reject_bad_rule_unnamed benv mg pre post r (fun _ => True)); auto.
  intros bb _. right. exists c. split; [exact Hctx|].
  apply (re_diff_non_class benv _ _ a b c Hs Hc (is_class_diff_false benv a b Hk)).
Qed.

Theorem reject_diff_non_class_ctx_ruleset : forall benv mg pre post nm rpre rpost r c a b,
  ru_ctx r = Some c -> closed c = true -> subterm (RDiff a b) c ->
  (is_class benv a = false \/ is_class benv b = false) ->
  is_ok (compile benv mg (pre ++ TRuleSet nm (rpre ++ RBRule r :: rpost) :: post)) = false.
Proof.
  intros benv mg pre post nm rpre rpost r c a b Hctx Hc Hs Hk.
  apply (reject_bad_rule_ruleset benv mg pre post nm rpre rpost r (fun _ => True)); auto.
  intros bb _. right. exists c. split; [exact Hctx|].
  apply (re_diff_non_class benv _ _ a b c Hs Hc (is_class_diff_false benv a b Hk)).
Qed.

(* 9. full strength is refuted: a violation inside a `let` that is never used is NOT rejected *)
Definition unused_let_def : def :=
  [TRob (RBBinding [120%N] (RVar [110%N; 111%N])); TRob (RBRule (mkRule (RChar 97%N) None 0))].

Theorem unused_let_not_rejected :
  exists benv mg d v,
    (exists r, In (TRob (RBBinding [120%N] r)) d /\ mentions_var v r = true /\
               (forall r', ~ In (TRob (RBBinding v r')) d))
    /\ is_ok (compile benv mg d) = true.
Proof.
  exists [], 4, unused_let_def, [110%N; 111%N]. split.
  - exists (RVar [110%N; 111%N]). split; [left; reflexivity|]. split; [reflexivity|].
    intros r' [H|[H|[]]]; discriminate H.
  - vm_compute. reflexivity.
Qed.

Print Assumptions reject_mixed.
Print Assumptions reject_dup_error_type.
Print Assumptions reject_dup_top_var.
Print Assumptions reject_dup_local_var.
Print Assumptions reject_shadow_top_var.
Print Assumptions reject_first_not_init.
Print Assumptions reject_dup_ruleset.
Print Assumptions reject_unbound_var_unnamed.
Print Assumptions reject_unbound_var_ruleset.
Print Assumptions reject_unknown_builtin_unnamed.
Print Assumptions reject_unknown_builtin_ruleset.
Print Assumptions reject_diff_non_class_unnamed.
Print Assumptions reject_diff_non_class_ruleset.
Print Assumptions reject_diff_non_class_ctx_unnamed.
Print Assumptions reject_diff_non_class_ctx_ruleset.
Print Assumptions unused_let_not_rejected.
