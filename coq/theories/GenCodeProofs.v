(* Running the generated code (GenCode.exec / gstep / gnext / cx_exec on the trees built by
   GenCode.gen_state / gen_arms / gen_cx) is exactly the interpreter of Runtime.v / Codegen.ctx_run,
   so the end-to-end theorems transfer to the generated code. No axioms. *)
From Coq Require Import List NArith Bool Arith Lia PArith Pnat Sorted.
From LexVerif Require Import Base CharClass RangeMap RangeMapProofs CharClassProofs Regex Nfa Dfa
     Codegen LexSpec Runtime BacktrackProofs LookupProofs GenCode RuntimeProofs.
Import ListNotations.
Open Scope bool_scope.

(* ------------------------------------------------------------------ *)
(* 0. generic list facts                                               *)
(* ------------------------------------------------------------------ *)

Lemma find_app {A} (f : A -> bool) (l1 l2 : list A) :
  find f (l1 ++ l2) = match find f l1 with Some x => Some x | None => find f l2 end.
Proof.
  induction l1 as [|x l1 IH]; cbn [app find]; [reflexivity|].
  destruct (f x); [reflexivity|exact IH].
Qed.

Lemma find_map {A B} (f : B -> bool) (h : A -> B) (l : list A) :
  find f (map h l) = option_map h (find (fun x => f (h x)) l).
Proof.
  induction l as [|x l IH]; cbn [map find option_map]; [reflexivity|].
  destruct (f (h x)); [reflexivity|exact IH].
Qed.

Lemma find_ext {A} (f g : A -> bool) (l : list A) :
  (forall x, f x = g x) -> find f l = find g l.
Proof.
  intros H. induction l as [|x l IH]; cbn [find]; [reflexivity|].
  rewrite H, IH. reflexivity.
Qed.

Lemma flat_map_cons' {A B} (f : A -> list B) x l : flat_map f (x :: l) = f x ++ flat_map f l.
Proof. reflexivity. Qed.

Lemma find_none_iff {A} (f : A -> bool) (l : list A) :
  find f l = None <-> forall x, In x l -> f x = false.
Proof.
  split; [intros H x Hx; exact (find_none f l H x Hx)|].
  induction l as [|x l IH]; intros H; cbn [find]; [reflexivity|].
  rewrite (H x (or_introl eq_refl)). apply IH. intros y Hy. apply H. right; exact Hy.
Qed.

Lemma existsb_eqb_in (c : N) (cs : list N) : existsb (N.eqb c) cs = true <-> In c cs.
Proof.
  rewrite existsb_exists. split.
  - intros (x & Hx & E). apply N.eqb_eq in E. subst x. exact Hx.
  - intros H. exists c. split; [exact H|apply N.eqb_refl].
Qed.

(* map_result: the image list, element by element *)
Lemma map_result_find {A B} (F : A -> result B) (P : B -> bool) (Q : A -> bool) :
  (forall x y, F x = Ok y -> P y = Q x) ->
  forall l l', map_result F l = Ok l' ->
  match find Q l with
  | Some x => exists y, find P l' = Some y /\ F x = Ok y
  | None => find P l' = None
  end.
Proof.
  intros HPQ. induction l as [|x l IH]; intros l' H; cbn [map_result] in H.
  - inversion H; subst. reflexivity.
  - unfold bind in H. destruct (F x) as [y|t] eqn:Ex; [|discriminate].
    destruct (map_result F l) as [ys|t] eqn:El; [|discriminate].
    inversion H; subst l'. cbn [find]. rewrite (HPQ x y Ex).
    destruct (Q x); [exists y; split; [reflexivity|exact Ex]|].
    apply IH. reflexivity.
Qed.

Lemma assoc_N_in {A} (l : list (N * A)) k v : assoc_N k l = Some v -> In (k, v) l.
Proof.
  induction l as [|[k0 v0] l IH]; cbn [assoc_N]; [discriminate|].
  destruct (N.eqb_spec k k0) as [->|]; intros H.
  - inversion H; subst. left; reflexivity.
  - right. apply IH. exact H.
Qed.

Lemma assoc_N_none {A} (l : list (N * A)) k : assoc_N k l = None -> forall v, ~ In (k, v) l.
Proof.
  induction l as [|[k0 v0] l IH]; cbn [assoc_N]; intros H v Hin; [destruct Hin|].
  destruct (N.eqb_spec k k0) as [->|Hne]; [discriminate|].
  destruct Hin as [E|Hin]; [inversion E; subst; apply Hne; reflexivity|].
  exact (IH H v Hin).
Qed.

Lemma nodup_keys_unique {A} (l : list (N * A)) k v v' :
  NoDup (map fst l) -> In (k, v) l -> In (k, v') l -> v = v'.
Proof.
  induction l as [|[k0 v0] l IH]; intros Hnd H1 H2; [destruct H1|].
  cbn [map fst] in Hnd. inversion Hnd as [|? ? Hnot Hnd']; subst.
  destruct H1 as [E1|H1]; destruct H2 as [E2|H2].
  - inversion E1; inversion E2; subst. reflexivity.
  - inversion E1; subst. exfalso. apply Hnot. apply in_map_iff. exists (k, v'). split; [reflexivity|exact H2].
  - inversion E2; subst. exfalso. apply Hnot. apply in_map_iff. exists (k, v). split; [reflexivity|exact H1].
  - exact (IH Hnd' H1 H2).
Qed.

(* ------------------------------------------------------------------ *)
(* 1. grouping by target (generic in the grouped items; LookupProofs.grp is the instance for
      range pieces)                                                                        *)
(* ------------------------------------------------------------------ *)

Section GGrp.
Context {X : Type}.

Definition ggrp_step (acc : list (nat * list X)) (q : nat * X) : list (nat * list X) :=
  match assoc_nat (fst q) acc with
  | Some l => assoc_nat_set (fst q) (l ++ [snd q]) acc
  | None => acc ++ [(fst q, [snd q])]
  end.

Definition ggrp (ps : list (nat * X)) : list (nat * list X) := fold_left ggrp_step ps [].

Definition gproj (t : nat) (ps : list (nat * X)) : list X :=
  map snd (filter (fun q => fst q =? t) ps).

Definition goptl (l : list X) : option (list X) := match l with [] => None | _ => Some l end.

Lemma gproj_snoc t ps q :
  gproj t (ps ++ [q]) = gproj t ps ++ (if fst q =? t then [snd q] else []).
Proof.
  unfold gproj. rewrite filter_app, map_app. cbn [filter].
  destruct (fst q =? t); reflexivity.
Qed.

Definition ggrp_inv (acc : list (nat * list X)) (ps : list (nat * X)) : Prop :=
  NoDup (map fst acc) /\ forall t, assoc_nat t acc = goptl (gproj t ps).

Lemma goptl_snoc l (p : X) : goptl (l ++ [p]) = Some (l ++ [p]).
Proof. destruct l; reflexivity. Qed.

Lemma ggrp_inv_step acc ps q : ggrp_inv acc ps -> ggrp_inv (ggrp_step acc q) (ps ++ [q]).
Proof.
  intros [Hnd Hass]. unfold ggrp_step.
  destruct (assoc_nat (fst q) acc) as [l|] eqn:E.
  - split.
    + rewrite (keys_set_in _ _ _ _ E). exact Hnd.
    + intros t. rewrite assoc_set_get, gproj_snoc.
      destruct (t =? fst q) eqn:Et.
      * apply Nat.eqb_eq in Et. subst t. rewrite Nat.eqb_refl.
        rewrite Hass in E. destruct (gproj (fst q) ps) eqn:Ep; [discriminate|].
        cbn [goptl] in E. inversion E; subst. reflexivity.
      * rewrite Nat.eqb_sym, Et, app_nil_r. apply Hass.
  - split.
    + rewrite map_app. cbn [map fst]. apply NoDup_snoc; [exact Hnd|].
      apply assoc_none_keys. exact E.
    + intros t. rewrite assoc_nat_app, gproj_snoc. cbn [assoc_nat].
      destruct (t =? fst q) eqn:Et.
      * apply Nat.eqb_eq in Et. subst t. rewrite Nat.eqb_refl, E.
        rewrite Hass in E. destruct (gproj (fst q) ps); [reflexivity|discriminate].
      * rewrite Nat.eqb_sym, Et, app_nil_r. rewrite Hass.
        destruct (goptl (gproj t ps)); reflexivity.
Qed.

Lemma ggrp_inv_fold ps : forall acc ps0,
  ggrp_inv acc ps0 -> ggrp_inv (fold_left ggrp_step ps acc) (ps0 ++ ps).
Proof.
  induction ps as [|q ps IH]; intros acc ps0 H; cbn [fold_left].
  - rewrite app_nil_r. exact H.
  - replace (ps0 ++ q :: ps) with ((ps0 ++ [q]) ++ ps) by (rewrite <- app_assoc; reflexivity).
    apply IH. apply ggrp_inv_step. exact H.
Qed.

Lemma ggrp_spec ps : ggrp_inv (ggrp ps) ps.
Proof.
  unfold ggrp. apply (ggrp_inv_fold ps [] []). split; [constructor|]. intros t; reflexivity.
Qed.

Lemma ggrp_in ps t l : In (t, l) (ggrp ps) -> l = gproj t ps.
Proof.
  intros Hin. destruct (ggrp_spec ps) as [Hnd Hass].
  pose proof (assoc_nat_in_nodup _ _ _ Hnd Hin) as E. rewrite Hass in E.
  destruct (gproj t ps) eqn:Ep; [discriminate|]. cbn [goptl] in E. inversion E. reflexivity.
Qed.

Lemma ggrp_has ps q : In q ps -> In (fst q, gproj (fst q) ps) (ggrp ps) /\ In (snd q) (gproj (fst q) ps).
Proof.
  intros Hin. destruct (ggrp_spec ps) as [Hnd Hass].
  assert (Hp : In (snd q) (gproj (fst q) ps)).
  { unfold gproj. apply in_map. apply filter_In. split; [exact Hin|apply Nat.eqb_refl]. }
  split; [|exact Hp]. apply assoc_nat_some_in. rewrite Hass.
  destruct (gproj (fst q) ps); [destruct Hp|reflexivity].
Qed.

Lemma in_gproj t ps x : In x (gproj t ps) <-> In (t, x) ps.
Proof.
  unfold gproj. rewrite in_map_iff. split.
  - intros ([t' x'] & E & Hf). cbn [snd] in E. subst x'. apply filter_In in Hf.
    destruct Hf as [Hin Ht]. cbn [fst] in Ht. apply Nat.eqb_eq in Ht. subst t'. exact Hin.
  - intros H. exists (t, x). split; [reflexivity|]. apply filter_In. split; [exact H|apply Nat.eqb_refl].
Qed.

(* the two facts used below *)
Lemma ggrp_sound ps t l x : In (t, l) (ggrp ps) -> In x l -> In (t, x) ps.
Proof. intros Hin Hx. apply ggrp_in in Hin. subst l. apply in_gproj. exact Hx. Qed.

Lemma ggrp_complete ps t x : In (t, x) ps -> exists l, In (t, l) (ggrp ps) /\ In x l.
Proof.
  intros H. destruct (ggrp_has ps (t, x) H) as [H1 H2]. cbn [fst snd] in *.
  exists (gproj t ps). split; assumption.
Qed.

End GGrp.

(* group_chars as an instance *)
Definition goto_items (cs : list (N * trans)) : list (nat * N) :=
  flat_map (fun p => match snd p with TGoto t => [(t, fst p)] | TAccept _ => [] end) cs.

Lemma group_chars_eq cs : group_chars cs = ggrp (goto_items cs).
Proof.
  unfold group_chars, ggrp, goto_items.
  match goal with |- fold_left ?F cs [] = fold_left ?G ?l [] =>
    enough (H : forall acc, fold_left F cs acc = fold_left G l acc) by apply H end.
  induction cs as [|p cs IH]; intros acc; cbn [fold_left flat_map]; [reflexivity|].
  rewrite fold_left_app, IH. destruct (snd p) as [t|accs]; reflexivity.
Qed.

Lemma in_goto_items cs t c : In (t, c) (goto_items cs) <-> In (c, TGoto t) cs.
Proof.
  unfold goto_items. rewrite in_flat_map. split.
  - intros ([c' v] & Hin & H). cbn [fst snd] in H. destruct v as [t'|accs]; [|destruct H].
    destruct H as [E|[]]. inversion E; subst. exact Hin.
  - intros H. exists (c, TGoto t). split; [exact H|]. left; reflexivity.
Qed.

(* ------------------------------------------------------------------ *)
(* 2. guards                                                           *)
(* ------------------------------------------------------------------ *)

Lemma guard_holds_mk mg ps c : guard_holds (mk_guard mg ps) c = compiled_member mg ps c.
Proof. unfold mk_guard, compiled_member. destruct (Nat.ltb mg (length ps)); reflexivity. Qed.

Lemma guard_holds_chain ps c : guard_holds (GChain ps) c = guard_chain ps c.
Proof. reflexivity. Qed.

(* hypothesis on the program: the character keys of every state are pairwise distinct (the Rust
   uses a map) *)
Definition chars_nodup (p : program) : Prop :=
  forall s, NoDup (map fst (d_chars (dget (p_states p) s))).

(* ------------------------------------------------------------------ *)
(* 3. the main lexer                                                   *)
(* ------------------------------------------------------------------ *)

Section Gen.
Variable width : N -> N.
Variable tab_width : N.
Variables T E U : Type.
Variable prog : program.
Variable actions : nat -> action T E U.

Notation lexer := (lexer U).
Notation res := (lexer * ctl + outcome T E * lexer)%type.
Notation rstep := (step width tab_width T E U prog actions).
Notation gexec := (exec width tab_width T E U prog actions).
Notation rdo_trans := (do_trans T E U prog actions).
Notation rdo_accept := (do_accept T E U prog actions).
Notation rdo_fail := (do_fail T E U prog actions).
Notation rrun_action := (run_action T E U prog actions).
Notation rrun_state := (run_state width tab_width T E U prog actions).

(* ---------- the small templates ---------- *)

Lemma exec_setacc_gen : forall accs (l : lexer),
  exec_setacc U prog (gen_setacc accs) l =
  match first_passing U prog l accs with
  | Some a => set_last U l (Some (l_mstart U l, l_iter U l, a, l_mend U l))
  | None => l
  end.
Proof.
  induction accs as [|[a [i|]] rest IH]; intros l; cbn [gen_setacc exec_setacc first_passing].
  - reflexivity.
  - destruct (ctx_passes U prog l (Some i)); [reflexivity|apply IH].
  - reflexivity.
Qed.

Lemma exec_fail : forall st (l : lexer), gexec (gen_fail st) l = rdo_fail st l.
Proof.
  intros st l. unfold gen_fail, do_fail. destruct (d_bt st || is_accepting st); cbn [exec].
  - unfold exec_backtrack. destruct (l_last U l) as [[[[ms it] a] me]|]; reflexivity.
  - reflexivity.
Qed.

Lemma exec_test : forall accs dflt (l : lexer),
  gexec (gen_test accs dflt) l = rdo_accept l accs (gexec dflt).
Proof.
  induction accs as [|[a [i|]] rest IH]; intros dflt l; unfold do_accept;
    cbn [gen_test exec first_passing].
  - reflexivity.
  - destruct (ctx_passes U prog l (Some i)); [reflexivity|].
    rewrite IH. unfold do_accept. reflexivity.
  - reflexivity.
Qed.

(* the code of a state, with the two arm lists read through [find] *)
Lemma exec_state : forall sa eoi cas gas dflt (l : lexer),
  gexec (GState sa eoi cas gas dflt) l =
  let l1 := exec_setacc U prog sa l in
  match read_char width tab_width U l1 with
  | (None, l2) => gexec eoi (set_done U l2 true)
  | (Some c, l2) =>
      match find (fun a => existsb (N.eqb c) (fst a)) cas with
      | Some a => gexec (snd a) l2
      | None =>
          match find (fun a => guard_holds (fst a) c) gas with
          | Some a => gexec (snd a) l2
          | None => gexec dflt l2
          end
      end
  end.
Proof.
  intros sa eoi cas gas dflt l. cbn [exec]. cbv zeta.
  destruct (read_char width tab_width U (exec_setacc U prog sa l)) as [[c|] l2]; [|reflexivity].
  induction cas as [|[cs code] cas IH]; cbn [find fst snd].
  - induction gas as [|[gd code] gas IH]; cbn [find fst snd]; [reflexivity|].
    destruct (guard_holds gd c); [reflexivity|exact IH].
  - destruct (existsb (N.eqb c) cs); [reflexivity|exact IH].
Qed.

(* ---------- results that leave the state code ---------- *)

Definition final (x : res) : Prop :=
  match x with inl (_, CState _) => False | _ => True end.

Lemma run_action_final : forall (l : lexer) a, final (rrun_action l a).
Proof.
  intros l a. unfold run_action.
  destruct (make_view U l) as [v|t]; [|exact I].
  destruct (a_switch (actions a v (l_user U l))) as [n|].
  - destruct (switch_target prog n) as [s|t]; [|exact I].
    destruct (a_res (actions a v (l_user U l))) as [|[t|x]]; exact I.
  - destruct (a_res (actions a v (l_user U l))) as [|[t|x]]; exact I.
Qed.

Lemma do_fail_final : forall st (l : lexer), final (rdo_fail st l).
Proof.
  intros st l. unfold do_fail. destruct (d_bt st || is_accepting st); [|exact I].
  destruct (l_last U l) as [[[[ms it] a] me]|]; [apply run_action_final|exact I].
Qed.

(* [agrees x st]: the result x of running a piece of generated code is what the interpreter reaches
   from st: the same outcome, or the top of the loop after at least one step *)
Definition agrees (x : res) (st : lexer * ctl) : Prop :=
  match x with
  | inr r => exists k, iter_nat k rstep st = inr r
  | inl (l', c) => c = CLoop /\ exists k, iter_nat (S k) rstep st = inl (l', CLoop)
  end.

(* [R x y]: x is the result of the generated code, y the result of ONE interpreter step at the same
   point: equal, unless the interpreter defers to an inlined state, which the code runs in place *)
Definition R (x y : res) : Prop :=
  match y with
  | inl (l', CState n) => agrees x (l', CState n)
  | _ => x = y
  end.

Lemma R_final : forall x, final x -> R x x.
Proof. intros [[l [|n]]|r] H; cbn [R final] in *; [reflexivity|destruct H|reflexivity]. Qed.

Lemma iter_nat_S {St Rr} n (stp : St -> St + Rr) s :
  iter_nat (S n) stp s = match stp s with inl s' => iter_nat n stp s' | inr r => inr r end.
Proof. reflexivity. Qed.

Lemma R_agrees : forall x s (l : lexer), R x (rrun_state s l) -> agrees x (l, CState s).
Proof.
  intros x s l H.
  assert (Est : rstep (l, CState s) = rrun_state s l) by reflexivity.
  destruct (rrun_state s l) as [[l' [|n]]|r] eqn:Ey; cbn [R] in H.
  - subst x. cbn [agrees]. split; [reflexivity|]. exists 0. rewrite iter_nat_S, Est. reflexivity.
  - destruct x as [[l'' c]|r]; cbn [agrees] in *.
    + destruct H as [Hc [k Hk]]. split; [exact Hc|]. exists (S k).
      rewrite iter_nat_S, Est. exact Hk.
    + destruct H as [k Hk]. exists (S k). rewrite iter_nat_S, Est. exact Hk.
  - subst x. cbn [agrees]. exists 1. rewrite iter_nat_S, Est. reflexivity.
Qed.

(* ---------- one level of the generator, given the deeper levels ---------- *)

Section Level.
Variable f : nat.
Hypothesis IHf : forall s g (l : lexer), gen_state f prog s = Ok g -> agrees (gexec g l) (l, CState s).

Definition goto_of (n : nat) : result gcode :=
  if set_mem n (p_inlined prog) then gen_state f prog n
  else Ok (GSetState (renumber (p_inlined prog) n)).

Definition code_for (t : trans) (dcode code : gcode) : Prop :=
  match t with
  | TGoto n => goto_of n = Ok code
  | TAccept accs => code = gen_test accs dcode
  end.

Lemma fail_R : forall st (l : lexer), R (gexec (gen_fail st) l) (rdo_fail st l).
Proof. intros st l. rewrite exec_fail. apply R_final, do_fail_final. Qed.

Lemma accept_R : forall (l : lexer) accs dcode default,
  (forall l', R (gexec dcode l') (default l')) ->
  R (gexec (gen_test accs dcode) l) (rdo_accept l accs default).
Proof.
  intros l accs dcode default Hd. rewrite exec_test. unfold do_accept.
  destruct (first_passing U prog l accs); [apply R_final, run_action_final|apply Hd].
Qed.

Lemma trans_R : forall t dcode code default (l : lexer),
  code_for t dcode code ->
  (forall l', R (gexec dcode l') (default l')) ->
  R (gexec code l) (rdo_trans l t default).
Proof.
  intros [n|accs] dcode code default l Hc Hd; cbn [code_for] in Hc; unfold do_trans.
  - unfold goto_of in Hc. destruct (set_mem n (p_inlined prog)).
    + cbn [R]. apply IHf. exact Hc.
    + inversion Hc; subst. cbn [exec R]. reflexivity.
  - subst code. apply accept_R. exact Hd.
Qed.

Definition dflt_of (st : dstate trans) : result gcode :=
  match d_any st with
  | Some (TGoto n) => goto_of n
  | Some (TAccept accs) => Ok (gen_test accs (gen_fail st))
  | None => Ok (gen_fail st)
  end.

Lemma dflt_R : forall st dcode, dflt_of st = Ok dcode ->
  forall l : lexer,
  R (gexec dcode l)
    (match d_any st with Some t => rdo_trans l t (rdo_fail st) | None => rdo_fail st l end).
Proof.
  intros st dcode H l. unfold dflt_of in H. destruct (d_any st) as [[n|accs]|].
  - apply (trans_R (TGoto n) (gen_fail st)); [exact H|]. intros l'. apply fail_R.
  - inversion H; subst. apply (trans_R (TAccept accs) (gen_fail st)); [reflexivity|].
    intros l'. apply fail_R.
  - inversion H; subst. apply fail_R.
Qed.

(* ---------- character arms ---------- *)

Definition acc_cas_of (dcode : gcode) (cs : list (N * trans)) : list (list N * gcode) :=
  flat_map (fun pr => match snd pr with
                      | TAccept accs => [([fst pr], gen_test accs dcode)]
                      | TGoto _ => []
                      end) cs.

Definition Pc (c : N) (a : list N * gcode) : bool := existsb (N.eqb c) (fst a).

Lemma find_exists {A} (p : A -> bool) (l : list A) x :
  In x l -> p x = true -> exists a, find p l = Some a /\ In a l /\ p a = true.
Proof.
  intros Hin Hp. destruct (find p l) as [a|] eqn:Ef.
  - exists a. split; [reflexivity|]. exact (find_some _ _ Ef).
  - rewrite (find_none _ _ Ef x Hin) in Hp. discriminate.
Qed.

Lemma in_acc_cas dcode cs a :
  In a (acc_cas_of dcode cs) <->
  exists c accs, In (c, TAccept accs) cs /\ a = ([c], gen_test accs dcode).
Proof.
  unfold acc_cas_of. rewrite in_flat_map. split.
  - intros ([c v] & Hin & H). cbn [fst snd] in H. destruct v as [n|accs]; [destruct H|].
    destruct H as [<-|[]]. exists c, accs. split; [exact Hin|reflexivity].
  - intros (c & accs & Hin & ->). exists (c, TAccept accs). split; [exact Hin|left; reflexivity].
Qed.

Lemma Pc_single c c' code : Pc c ([c'], code) = true <-> c' = c.
Proof.
  unfold Pc. cbn [fst existsb]. rewrite orb_false_r, N.eqb_eq. split; intros; subst; reflexivity.
Qed.

Lemma chars_find : forall (cs : list (N * trans)) dcode goto_cas c,
  NoDup (map fst cs) ->
  map_result (fun g => do code <- goto_of (fst g); Ok (snd g, code)) (group_chars cs) = Ok goto_cas ->
  match assoc_N c cs with
  | Some t => exists a, find (Pc c) (acc_cas_of dcode cs ++ goto_cas) = Some a /\ code_for t dcode (snd a)
  | None => find (Pc c) (acc_cas_of dcode cs ++ goto_cas) = None
  end.
Proof.
  intros cs dcode goto_cas c Hnd Hmr. rewrite find_app.
  pose proof (map_result_find
                (fun g => do code <- goto_of (fst g); Ok (snd g, code))
                (Pc c) (fun g : nat * list N => existsb (N.eqb c) (snd g))) as Hmf.
  assert (HPQ : forall (x : nat * list N) (y : list N * gcode),
             (do code <- goto_of (fst x); Ok (snd x, code)) = Ok y ->
             Pc c y = existsb (N.eqb c) (snd x)).
  { intros x y Hy. unfold bind in Hy. destruct (goto_of (fst x)); [|discriminate].
    inversion Hy; subst. reflexivity. }
  specialize (Hmf HPQ _ _ Hmr). clear HPQ.
  (* the accepting arms *)
  assert (Hacc : forall accs, In (c, TAccept accs) cs ->
            exists a, find (Pc c) (acc_cas_of dcode cs) = Some a /\ snd a = gen_test accs dcode).
  { intros accs Hin.
    destruct (find_exists (Pc c) (acc_cas_of dcode cs) ([c], gen_test accs dcode)) as (a & Ef & Ha & Hp).
    - apply in_acc_cas. exists c, accs. split; [exact Hin|reflexivity].
    - apply Pc_single. reflexivity.
    - exists a. split; [exact Ef|]. apply in_acc_cas in Ha. destruct Ha as (c' & accs' & Hin' & ->).
      apply Pc_single in Hp. subst c'. cbn [snd].
      pose proof (nodup_keys_unique _ _ _ _ Hnd Hin Hin') as Eq. inversion Eq. reflexivity. }
  assert (Hnacc : (forall accs, ~ In (c, TAccept accs) cs) -> find (Pc c) (acc_cas_of dcode cs) = None).
  { intros Hno. apply find_none_iff. intros a Ha. apply in_acc_cas in Ha.
    destruct Ha as (c' & accs' & Hin' & ->). destruct (Pc c ([c'], gen_test accs' dcode)) eqn:Ep; [|reflexivity].
    apply Pc_single in Ep. subst c'. exfalso. exact (Hno _ Hin'). }
  rewrite group_chars_eq in Hmf.
  destruct (assoc_N c cs) as [[n|accs]|] eqn:Ea.
  - apply assoc_N_in in Ea.
    rewrite Hnacc.
    2:{ intros accs Hin. pose proof (nodup_keys_unique _ _ _ _ Hnd Ea Hin). discriminate. }
    destruct (ggrp_complete (goto_items cs) n c) as (l & Hl & Hcl); [apply in_goto_items; exact Ea|].
    destruct (find_exists (fun g : nat * list N => existsb (N.eqb c) (snd g)) _ (n, l) Hl) as (g & Ef & Hg & Hp).
    { cbn [snd]. apply existsb_eqb_in. exact Hcl. }
    rewrite Ef in Hmf. destruct Hmf as (y & Hy & HF). exists y. split; [exact Hy|].
    cbn [code_for]. destruct g as [n' l']. cbn [fst snd] in *.
    apply existsb_eqb_in in Hp. pose proof (ggrp_sound _ _ _ _ Hg Hp) as Hin'.
    apply in_goto_items in Hin'. pose proof (nodup_keys_unique _ _ _ _ Hnd Ea Hin') as Eq.
    inversion Eq; subst n'. unfold bind in HF. destruct (goto_of n) as [code|]; [|discriminate].
    inversion HF; subst. reflexivity.
  - apply assoc_N_in in Ea. destruct (Hacc accs Ea) as (a & Ef & Hs). rewrite Ef.
    exists a. split; [reflexivity|exact Hs].
  - rewrite Hnacc by (intros accs Hin; exact (assoc_N_none _ _ Ea _ Hin)).
    destruct (find (fun g : nat * list N => existsb (N.eqb c) (snd g)) (ggrp (goto_items cs))) as [[n l]|] eqn:Ef;
      [exfalso|exact Hmf].
    apply find_some in Ef. destruct Ef as [Hg Hp]. cbn [snd] in Hp. apply existsb_eqb_in in Hp.
    pose proof (ggrp_sound _ _ _ _ Hg Hp) as Hin'. apply in_goto_items in Hin'.
    exact (assoc_N_none _ _ Ea _ Hin').
Qed.

(* ---------- guard arms ---------- *)

Definition acc_gas_of (dcode : gcode) (rs : rmap trans) : list (guard * gcode) :=
  flat_map (fun r => match range_chars (r_lo r) (r_hi r), r_val r with
                     | Some pr, TAccept accs => [(GChain [pr], gen_test accs dcode)]
                     | _, _ => []
                     end) rs.

Lemma acc_gas_eq dcode rs :
  acc_gas_of dcode rs = map (fun g => (GChain (fst g), gen_test (snd g) dcode)) (accept_ranges rs).
Proof.
  unfold acc_gas_of, accept_ranges. induction rs as [|r rs IH]; [reflexivity|].
  rewrite !flat_map_cons', map_app. f_equal; [|exact IH].
  destruct (range_chars (r_lo r) (r_hi r)); [|reflexivity].
  destruct (r_val r); reflexivity.
Qed.

Definition Pg (c : N) (a : guard * gcode) : bool := guard_holds (fst a) c.

Lemma find_acc_gas dcode rs c :
  find (Pg c) (acc_gas_of dcode rs) =
  option_map (fun g => (GChain (fst g), gen_test (snd g) dcode))
             (find (fun g => guard_chain (fst g) c) (accept_ranges rs)).
Proof. rewrite acc_gas_eq, find_map. reflexivity. Qed.

Lemma ranges_find : forall (rs : rmap trans) dcode goto_gas c,
  map_result (fun g => do code <- goto_of (fst g); Ok (mk_guard (p_max_guard prog) (snd g), code))
             (group_ranges rs) = Ok goto_gas ->
  match find_range_trans (p_max_guard prog) rs c with
  | Some t => exists a, find (Pg c) (acc_gas_of dcode rs ++ goto_gas) = Some a /\ code_for t dcode (snd a)
  | None => find (Pg c) (acc_gas_of dcode rs ++ goto_gas) = None
  end.
Proof.
  intros rs dcode goto_gas c Hmr. rewrite find_app, find_acc_gas.
  unfold find_range_trans.
  destruct (find (fun g => guard_chain (fst g) c) (accept_ranges rs)) as [g|]; cbn [option_map].
  - eexists. split; [reflexivity|]. reflexivity.
  - pose proof (map_result_find
                  (fun g => do code <- goto_of (fst g); Ok (mk_guard (p_max_guard prog) (snd g), code))
                  (Pg c) (fun g : nat * pairs => compiled_member (p_max_guard prog) (snd g) c)) as Hmf.
    assert (HPQ : forall (x : nat * pairs) (y : guard * gcode),
               (do code <- goto_of (fst x); Ok (mk_guard (p_max_guard prog) (snd x), code)) = Ok y ->
               Pg c y = compiled_member (p_max_guard prog) (snd x) c).
    { intros x y Hy. unfold bind in Hy. destruct (goto_of (fst x)); [|discriminate].
      inversion Hy; subst. unfold Pg. cbn [fst]. apply guard_holds_mk. }
    specialize (Hmf HPQ _ _ Hmr). clear HPQ.
    destruct (find (fun g : nat * pairs => compiled_member (p_max_guard prog) (snd g) c) (group_ranges rs))
      as [g|]; [|exact Hmf].
    destruct Hmf as (y & Hy & HF). exists y. split; [exact Hy|]. cbn [code_for].
    unfold bind in HF. destruct (goto_of (fst g)) as [code|]; [|discriminate].
    inversion HF; subst. reflexivity.
Qed.

(* ---------- a whole state ---------- *)

Definition gen_state_body (s : nat) : result gcode :=
  let st := dget (p_states prog) s in
  do dflt <- dflt_of st;
  do goto_cas <- map_result (fun g => do code <- goto_of (fst g); Ok (snd g, code))
                            (group_chars (d_chars st));
  do goto_gas <- map_result (fun g => do code <- goto_of (fst g);
                                      Ok (mk_guard (p_max_guard prog) (snd g), code))
                            (group_ranges (d_ranges st));
  let eoi_dflt := if s =? 0 then GReturnNone else gen_fail st in
  let eoi := match d_eoi st with
             | Some (TAccept accs) => gen_test accs eoi_dflt
             | Some (TGoto n) => GSetState (renumber (p_inlined prog) n)
             | None => eoi_dflt
             end in
  Ok (GState (gen_setacc (d_acc st)) eoi (acc_cas_of dflt (d_chars st) ++ goto_cas)
             (acc_gas_of dflt (d_ranges st) ++ goto_gas) dflt).

Lemma gen_state_S : forall s, gen_state (S f) prog s = gen_state_body s.
Proof. reflexivity. Qed.

Lemma gen_state_level : forall s g (l : lexer),
  chars_nodup prog ->
  gen_state (S f) prog s = Ok g ->
  R (gexec g l) (rrun_state s l).
Proof.
  intros s g l Hnd H. rewrite gen_state_S in H. unfold gen_state_body in H. cbv zeta in H.
  specialize (Hnd s).
  set (st := dget (p_states prog) s) in *.
  destruct (dflt_of st) as [dcode|] eqn:Ed; cbn [bind] in H; [|discriminate].
  destruct (map_result _ (group_chars (d_chars st))) as [gc|] eqn:Egc; cbn [bind] in H; [|discriminate].
  destruct (map_result _ (group_ranges (d_ranges st))) as [gg|] eqn:Egg; cbn [bind] in H; [|discriminate].
  inversion H; subst g; clear H.
  rewrite exec_state. cbv zeta. rewrite exec_setacc_gen. unfold run_state. cbv zeta. fold st.
  pose proof (dflt_R st dcode Ed) as Hdf.
  destruct (read_char width tab_width U _) as [[c|] l2].
  - (* a character *)
    unfold lookup_char.
    pose proof (chars_find (d_chars st) dcode gc c Hnd Egc) as Hc. fold (Pc c).
    destruct (assoc_N c (d_chars st)) as [t|].
    + destruct Hc as (a & -> & Hcf). apply (trans_R t dcode); [exact Hcf|exact Hdf].
    + rewrite Hc. pose proof (ranges_find (d_ranges st) dcode gg c Egg) as Hg. fold (Pg c).
      destruct (find_range_trans (p_max_guard prog) (d_ranges st) c) as [t|].
      * destruct Hg as (a & -> & Hcf). apply (trans_R t dcode); [exact Hcf|exact Hdf].
      * rewrite Hg. apply Hdf.
  - (* end of input *)
    assert (He : forall l' : lexer,
               R (gexec (if s =? 0 then GReturnNone else gen_fail st) l')
                 (if s =? 0 then inr (ONone T E, l') else rdo_fail st l')).
    { intros l'. destruct (s =? 0); [reflexivity|apply fail_R]. }
    destruct (d_eoi st) as [[n|accs]|].
    + reflexivity.
    + apply accept_R. exact He.
    + apply He.
Qed.

End Level.

(* T1 *)
Theorem exec_gen_state : forall fuel s g l,
  chars_nodup prog ->
  gen_state fuel prog s = Ok g ->
  match exec width tab_width T E U prog actions g l with
  | inr r => exists k, iter_nat k (step width tab_width T E U prog actions) (l, CState s) = inr r
  | inl (l', c) => c = CLoop /\
                   exists k, iter_nat (S k) (step width tab_width T E U prog actions) (l, CState s) = inl (l', CLoop)
  end.
Proof.
  intros fuel s g l Hnd. revert s g l.
  induction fuel as [|f IH]; intros s g l H; [discriminate|].
  change (agrees (gexec g l) (l, CState s)). apply R_agrees.
  apply (gen_state_level f IH s g l Hnd H).
Qed.

(* ---------- the loop ---------- *)

Lemma iter_nat_inr_mono {St Rr} (stp : St -> St + Rr) a b s r :
  iter_nat a stp s = inr r -> a <= b -> iter_nat b stp s = inr r.
Proof.
  intros H Hle. replace b with (a + (b - a)) by lia. rewrite iter_nat_add, H. reflexivity.
Qed.

Lemma iter_nat_split {St Rr} (stp : St -> St + Rr) a b s s' r :
  iter_nat a stp s = inl s' -> iter_nat b stp s = inr r ->
  a < b /\ iter_nat (b - a) stp s' = inr r.
Proof.
  intros Ha Hb. destruct (Nat.le_gt_cases b a) as [Hle|Hlt].
  - rewrite (iter_nat_inr_mono stp b a s r Hb Hle) in Ha. discriminate.
  - split; [exact Hlt|]. replace b with (a + (b - a)) in Hb by lia.
    rewrite iter_nat_add, Ha in Hb. exact Hb.
Qed.

Lemma iter_nat_inr_unique {St Rr} (stp : St -> St + Rr) a b s r r' :
  iter_nat a stp s = inr r -> iter_nat b stp s = inr r' -> r = r'.
Proof.
  intros Ha Hb.
  pose proof (iter_nat_inr_mono stp a (Nat.max a b) s r Ha (Nat.le_max_l a b)) as H1.
  pose proof (iter_nat_inr_mono stp b (Nat.max a b) s r' Hb (Nat.le_max_r a b)) as H2.
  rewrite H1 in H2. inversion H2. reflexivity.
Qed.

Lemma garm_lookup_gen : forall (G : nat -> result gcode) pa arms state,
  map_result (fun a : option nat * nat => do code <- G (snd a); Ok (fst a, code)) pa = Ok arms ->
  match arm_lookup pa state with
  | Some s => exists code, garm_lookup arms state = Some code /\ G s = Ok code
  | None => garm_lookup arms state = None
  end.
Proof.
  intros G. induction pa as [|[k s] pa IH]; intros arms state H; cbn [map_result] in H.
  - inversion H; subst. reflexivity.
  - unfold bind in H. cbn [fst snd] in H. destruct (G s) as [code|] eqn:EG; [|discriminate].
    destruct (map_result _ pa) as [arms'|] eqn:Em; [|discriminate].
    inversion H; subst arms. cbn [arm_lookup garm_lookup].
    destruct k as [k|].
    + destruct (k =? state); [exists code; split; [reflexivity|exact EG]|].
      apply IH. reflexivity.
    + exists code. split; [reflexivity|exact EG].
Qed.

Notation ggstep := (gstep width tab_width T E U prog actions).

Lemma gstep_sim : forall arms,
  chars_nodup prog -> gen_arms prog = Ok arms ->
  forall n (l : lexer) r,
  iter_nat n rstep (l, CLoop) = inr r ->
  exists m, m <= n /\ iter_nat m (ggstep arms) l = inr r.
Proof.
  intros arms Hnd Hga n. induction n as [n IHn] using lt_wf_ind. intros l r H.
  destruct n as [|n]; [discriminate|]. rewrite iter_nat_S in H. cbn [step] in H.
  destruct (l_done U l) eqn:Ed.
  - inversion H; subst. exists 1. split; [lia|]. rewrite iter_nat_S. unfold gstep. rewrite Ed. reflexivity.
  - pose proof (garm_lookup_gen _ _ _ (l_state U l) Hga) as Hg.
    destruct (arm_lookup (p_arms prog) (l_state U l)) as [s|] eqn:Ea.
    + destruct Hg as (code & Hgl & Hgs).
      pose proof (exec_gen_state _ s code l Hnd Hgs) as Hex.
      destruct (gexec code l) as [[l' c]|r0] eqn:Ee.
      * destruct Hex as [-> [k Hk]].
        destruct (iter_nat_split _ _ _ _ _ _ Hk H) as [Hlt Hrest].
        destruct (IHn (n - S k)) with (l := l') (r := r) as (m & Hm & Him); [lia|exact Hrest|].
        exists (S m). split; [lia|]. rewrite iter_nat_S. unfold gstep. rewrite Ed, Hgl, Ee. exact Him.
      * destruct Hex as [k Hk]. pose proof (iter_nat_inr_unique _ _ _ _ _ _ Hk H) as Er. subst r0.
        exists 1. split; [lia|]. rewrite iter_nat_S. unfold gstep. rewrite Ed, Hgl, Ee. reflexivity.
    + inversion H; subst. exists 1. split; [lia|]. rewrite iter_nat_S. unfold gstep.
      rewrite Ed, Hg. reflexivity.
Qed.

(* T2 *)
Theorem gnext_correct : forall arms fuel l o l',
  chars_nodup prog ->
  gen_arms prog = Ok arms ->
  next width tab_width T E U prog actions fuel l = (o, l') ->
  o <> OPanic T E TagOutOfFuel ->
  gnext width tab_width T E U prog actions fuel arms l = (o, l').
Proof.
  intros arms fuel l o l' Hnd Hga Hn Ho. unfold next in Hn. rewrite iter_pos_nat in Hn.
  destruct (iter_nat (Pos.to_nat fuel) rstep (l, CLoop)) as [[l1 c1]|r] eqn:Ei.
  - inversion Hn; subst. exfalso. apply Ho. reflexivity.
  - subst r. destruct (gstep_sim arms Hnd Hga _ _ _ Ei) as (m & Hm & Him).
    unfold gnext. rewrite iter_pos_nat, (iter_nat_inr_mono _ _ _ _ _ Him Hm). reflexivity.
Qed.

(* T3 *)
Fixpoint grun_lexer (arms : list (option nat * gcode)) (n : nat) (fuel : positive) (l : lexer)
  : list (outcome T E) :=
  match n with
  | O => []
  | S n' => let (o, l') := gnext width tab_width T E U prog actions fuel arms l in
            o :: grun_lexer arms n' fuel l'
  end.

Theorem grun_lexer_correct : forall arms n fuel l,
  chars_nodup prog -> gen_arms prog = Ok arms ->
  ~ In (OPanic T E TagOutOfFuel) (run_lexer width tab_width T E U prog actions n fuel l) ->
  grun_lexer arms n fuel l = run_lexer width tab_width T E U prog actions n fuel l.
Proof.
  intros arms n fuel l Hnd Hga. revert l. induction n as [|n IH]; intros l Hno; [reflexivity|].
  cbn [grun_lexer run_lexer] in *.
  destruct (next width tab_width T E U prog actions fuel l) as [o l'] eqn:En.
  assert (Ho : o <> OPanic T E TagOutOfFuel) by (intros ->; apply Hno; left; reflexivity).
  rewrite (gnext_correct arms fuel l o l' Hnd Hga En Ho). f_equal.
  apply IH. intros Hin. apply Hno. right. exact Hin.
Qed.

End Gen.

(* ------------------------------------------------------------------ *)
(* 4. right-context functions                                          *)
(* ------------------------------------------------------------------ *)

(* `$` occurs only at the tail of a context: an end-of-input transition leads to an accepting state
   (checked at run time on the dumped context automata) *)
Definition eoi_targets_accepting (d : dfa nat) : bool :=
  forallb (fun st => match d_eoi st with
                     | Some n => is_accepting (dget d (Nat.min n (length d - 1)))
                     | None => true
                     end) d.

(* a character is in at most one range of a well-formed range map *)
Lemma wf_in_range_unique : forall (A : Type) (rs : rmap A) lb r r' c,
  wf_from lb rs = true -> In r rs -> In r' rs ->
  in_range r c = true -> in_range r' c = true -> r = r'.
Proof.
  induction rs as [|r0 t IH]; intros lb r r' c Hwf Hr Hr' Hc Hc'; [destruct Hr|].
  apply wf_from_cons in Hwf. destruct Hwf as (H1 & H2 & H3).
  assert (Hex : forall x y, In y t -> in_range x c = true -> in_range y c = true -> x = r0 -> False).
  { intros x y Hy Hxc Hyc ->. unfold in_range in Hxc, Hyc.
    apply andb_true_iff in Hxc. apply andb_true_iff in Hyc. rewrite !N.leb_le in Hxc, Hyc.
    assert (Hcov : covered t c = true) by (apply lookup_some_iff; exists y; split; [exact Hy|lia]).
    unfold covered in Hcov. rewrite (lookup_below t (r_hi r0) c H3) in Hcov by lia. discriminate. }
  destruct Hr as [<-|Hr]; destruct Hr' as [<-|Hr'].
  - reflexivity.
  - exfalso. exact (Hex r0 r' Hr' Hc Hc' eq_refl).
  - exfalso. exact (Hex r0 r Hr Hc' Hc eq_refl).
  - exact (IH _ _ _ _ H3 Hr Hr' Hc Hc').
Qed.

Lemma filter_true {A} (l : list A) : filter (fun _ => true) l = l.
Proof. induction l as [|x l IH]; cbn [filter]; [reflexivity|rewrite IH; reflexivity]. Qed.

(* pieces selected from a well-formed range map: the group tests, read on the pieces *)
Section SelFacts.
Context {V : Type}.
Variable sel : range V -> option piece.
Hypothesis sel_chars : forall r q, sel r = Some q -> range_chars (r_lo r) (r_hi r) = Some (snd q).

Lemma piece_in_range r q c : sel r = Some q -> in_pair (snd q) c = true -> in_range r c = true.
Proof.
  intros Hs Hp. apply sel_chars in Hs. destruct (snd q) as [a b].
  apply range_chars_some in Hs. destruct Hs as [(Ha & Hb & Hc) _].
  apply in_pair_iff in Hp. cbn [fst snd] in Hp.
  unfold in_range. apply andb_true_iff. rewrite !N.leb_le. lia.
Qed.

Lemma pieces_unique rs q q' c :
  wf rs = true -> In q (pieces sel rs) -> In q' (pieces sel rs) ->
  in_pair (snd q) c = true -> in_pair (snd q') c = true -> q = q'.
Proof.
  intros Hwf Hq Hq' Hc Hc'. apply in_pieces in Hq. apply in_pieces in Hq'.
  destruct Hq as (r & Hr & Hs). destruct Hq' as (r' & Hr' & Hs').
  assert (r = r').
  { apply (wf_in_range_unique _ rs None r r' c Hwf Hr Hr').
    - exact (piece_in_range r q c Hs Hc).
    - exact (piece_in_range r' q' c Hs' Hc'). }
  subst r'. rewrite Hs in Hs'. inversion Hs'. reflexivity.
Qed.

Lemma groups_hit mg rs c g :
  wf rs = true ->
  find (fun g => compiled_member mg (snd g) c) (groups sel rs) = Some g ->
  exists q, In q (pieces sel rs) /\ fst q = fst g /\ in_pair (snd q) c = true.
Proof.
  intros Hwf Hf. apply find_some in Hf. destruct Hf as [Hin Hm].
  rewrite groups_eq in Hin. destruct g as [t l]. cbn [fst snd] in *.
  apply grp_in in Hin. destruct Hin as [-> _].
  rewrite compiled_member_in_pairs in Hm by (apply (pieces_wf sel sel_chars); exact Hwf).
  apply in_pairs_iff in Hm. destruct Hm as (p & Hp & Hpc).
  unfold proj in Hp. apply in_map_iff in Hp. destruct Hp as (q & <- & Hq).
  apply filter_In in Hq. destruct Hq as [Hq Ht]. apply Nat.eqb_eq in Ht.
  exists q. repeat split; assumption.
Qed.

Lemma groups_miss mg rs c :
  wf rs = true ->
  find (fun g => compiled_member mg (snd g) c) (groups sel rs) = None ->
  forall q, In q (pieces sel rs) -> in_pair (snd q) c = false.
Proof.
  intros Hwf Hf q Hq. destruct (in_pair (snd q) c) eqn:Ep; [exfalso|reflexivity].
  apply grp_has in Hq. destruct Hq as [Hg Hp]. rewrite <- groups_eq in Hg.
  pose proof (find_none _ _ Hf _ Hg) as Hm. cbn [snd] in Hm.
  rewrite compiled_member_in_pairs in Hm by (apply (pieces_wf sel sel_chars); exact Hwf).
  assert (in_pairs (proj (fst q) (pieces sel rs)) c = true).
  { apply in_pairs_iff. exists (snd q). split; [exact Hp|exact Ep]. }
  congruence.
Qed.

Lemma all_pieces_member mg rs c :
  wf rs = true ->
  compiled_member mg (map snd (pieces sel rs)) c = true <->
  exists q, In q (pieces sel rs) /\ in_pair (snd q) c = true.
Proof.
  intros Hwf.
  rewrite compiled_member_in_pairs.
  2:{ rewrite <- (filter_true (pieces sel rs)). apply (pieces_wf sel sel_chars). exact Hwf. }
  rewrite in_pairs_iff. split.
  - intros (p & Hp & Hc). apply in_map_iff in Hp. destruct Hp as (q & <- & Hq). exists q. split; assumption.
  - intros (q & Hq & Hc). exists (snd q). split; [apply in_map; exact Hq|exact Hc].
Qed.

End SelFacts.

Lemma cx_pick_c_find c arms :
  cx_pick_c c arms = option_map snd (find (fun a => existsb (N.eqb c) (fst a)) arms).
Proof.
  induction arms as [|[cs a] arms IH]; cbn [cx_pick_c find fst option_map]; [reflexivity|].
  destruct (existsb (N.eqb c) cs); [reflexivity|exact IH].
Qed.

Lemma cx_pick_g_find c arms :
  cx_pick_g c arms = option_map snd (find (fun a => guard_holds (fst a) c) arms).
Proof.
  induction arms as [|[g a] arms IH]; cbn [cx_pick_g find fst option_map]; [reflexivity|].
  destruct (guard_holds g c); [reflexivity|exact IH].
Qed.

Section CX.
Variable mg : nat.
Variable d : dfa nat.

Definition accb (t : nat) : bool := is_accepting (dget d t).
Definition tgt (t : nat) : cxact := if accb t then CXTrue else CXGoto t.

(* ---------- ranges ---------- *)

Definition sel_na (r : range nat) : option piece :=
  match range_chars (r_lo r) (r_hi r) with
  | Some pr => if accb (r_val r) then None else Some (r_val r, pr)
  | None => None
  end.
Definition sel_ac (r : range nat) : option piece :=
  match range_chars (r_lo r) (r_hi r) with
  | Some pr => if accb (r_val r) then Some (r_val r, pr) else None
  | None => None
  end.

Lemma sel_na_chars : forall r q, sel_na r = Some q -> range_chars (r_lo r) (r_hi r) = Some (snd q).
Proof.
  intros r q. unfold sel_na. destruct (range_chars (r_lo r) (r_hi r)); [|discriminate].
  destruct (accb (r_val r)); [discriminate|]. intros H; inversion H; reflexivity.
Qed.
Lemma sel_ac_chars : forall r q, sel_ac r = Some q -> range_chars (r_lo r) (r_hi r) = Some (snd q).
Proof.
  intros r q. unfold sel_ac. destruct (range_chars (r_lo r) (r_hi r)); [|discriminate].
  destruct (accb (r_val r)); [|discriminate]. intros H; inversion H; reflexivity.
Qed.

Lemma cx_group_ranges_eq rs : cx_group_ranges d rs = groups sel_na rs.
Proof.
  unfold cx_group_ranges, groups.
  match goal with |- fold_left ?F rs [] = fold_left ?G rs [] =>
    enough (H : forall acc, fold_left F rs acc = fold_left G rs acc) by apply H end.
  induction rs as [|r t IH]; intros acc; cbn [fold_left]; [reflexivity|].
  rewrite IH. f_equal. unfold sel_na, grp_step, accb.
  destruct (range_chars (r_lo r) (r_hi r)); [|reflexivity].
  destruct (is_accepting (dget d (r_val r))); reflexivity.
Qed.

Lemma cx_accept_ranges_eq rs : cx_accept_ranges d rs = map snd (pieces sel_ac rs).
Proof.
  unfold cx_accept_ranges, pieces. induction rs as [|r t IH]; [reflexivity|].
  rewrite !flat_map_cons', map_app. f_equal; [|exact IH].
  unfold sel_ac, accb. destruct (range_chars (r_lo r) (r_hi r)); [|reflexivity].
  destruct (is_accepting (dget d (r_val r))); reflexivity.
Qed.

Lemma in_pieces_na rs q :
  In q (pieces sel_na rs) <-> In q (pieces sel_ctx rs) /\ accb (fst q) = false.
Proof.
  rewrite !in_pieces. unfold sel_na, sel_ctx. split.
  - intros (r & Hr & Hs). destruct (range_chars (r_lo r) (r_hi r)) as [pr|] eqn:Er; [|discriminate].
    destruct (accb (r_val r)) eqn:Ea; [discriminate|]. inversion Hs; subst q. cbn [fst].
    split; [|exact Ea]. exists r. split; [exact Hr|]. rewrite Er. reflexivity.
  - intros [(r & Hr & Hs) Ha]. exists r. split; [exact Hr|].
    destruct (range_chars (r_lo r) (r_hi r)) as [pr|]; [|discriminate].
    inversion Hs; subst q. cbn [fst] in Ha. rewrite Ha. reflexivity.
Qed.

Lemma in_pieces_ac rs q :
  In q (pieces sel_ac rs) <-> In q (pieces sel_ctx rs) /\ accb (fst q) = true.
Proof.
  rewrite !in_pieces. unfold sel_ac, sel_ctx. split.
  - intros (r & Hr & Hs). destruct (range_chars (r_lo r) (r_hi r)) as [pr|] eqn:Er; [|discriminate].
    destruct (accb (r_val r)) eqn:Ea; [|discriminate]. inversion Hs; subst q. cbn [fst].
    split; [|exact Ea]. exists r. split; [exact Hr|]. rewrite Er. reflexivity.
  - intros [(r & Hr & Hs) Ha]. exists r. split; [exact Hr|].
    destruct (range_chars (r_lo r) (r_hi r)) as [pr|]; [|discriminate].
    inversion Hs; subst q. cbn [fst] in Ha. rewrite Ha. reflexivity.
Qed.

Definition cx_gas (rs : rmap nat) : list (guard * cxact) :=
  map (fun g => (mk_guard mg (snd g), CXGoto (fst g))) (cx_group_ranges d rs)
  ++ (match cx_accept_ranges d rs with [] => [] | l => [(mk_guard mg l, CXTrue)] end).

Lemma find_accept_arm (L : pairs) (x : cxact) c :
  find (fun a : guard * cxact => guard_holds (fst a) c)
       (match L with [] => [] | p :: t => [(mk_guard mg (p :: t), x)] end) =
  if compiled_member mg L c then Some (mk_guard mg L, x) else None.
Proof.
  destruct L as [|p L]; [reflexivity|].
  cbn [find fst]. rewrite guard_holds_mk. destruct (compiled_member mg (p :: L) c); reflexivity.
Qed.

Lemma find_goto_arms (gs : list (nat * pairs)) c :
  find (fun a : guard * cxact => guard_holds (fst a) c)
       (map (fun g => (mk_guard mg (snd g), CXGoto (fst g))) gs) =
  option_map (fun g => (mk_guard mg (snd g), CXGoto (fst g)))
             (find (fun g => compiled_member mg (snd g) c) gs).
Proof.
  rewrite find_map. f_equal. apply find_ext. intros g. cbn [fst]. apply guard_holds_mk.
Qed.

Lemma cx_ranges_find : forall rs c,
  wf rs = true ->
  match find (fun g => compiled_member mg (snd g) c) (groups sel_ctx rs) with
  | Some g => cx_pick_g c (cx_gas rs) = Some (tgt (fst g))
  | None => cx_pick_g c (cx_gas rs) = None
  end.
Proof.
  intros rs c Hwf. rewrite cx_pick_g_find. unfold cx_gas.
  rewrite find_app, find_goto_arms, find_accept_arm, cx_group_ranges_eq, cx_accept_ranges_eq.
  destruct (find (fun g => compiled_member mg (snd g) c) (groups sel_ctx rs)) as [g|] eqn:Ef.
  - destruct (groups_hit sel_ctx sel_ctx_chars mg rs c g Hwf Ef) as (q & Hq & Hfq & Hqc).
    rewrite <- Hfq. unfold tgt.
    destruct (find (fun g => compiled_member mg (snd g) c) (groups sel_na rs)) as [g'|] eqn:Ef'.
    + destruct (groups_hit sel_na sel_na_chars mg rs c g' Hwf Ef') as (q' & Hq' & Hfq' & Hqc').
      apply in_pieces_na in Hq'. destruct Hq' as [Hq' Ha'].
      pose proof (pieces_unique sel_ctx sel_ctx_chars rs q q' c Hwf Hq Hq' Hqc Hqc'). subst q'.
      rewrite Ha'. cbn [option_map snd]. rewrite Hfq'. reflexivity.
    + cbn [option_map].
      destruct (accb (fst q)) eqn:Ea.
      * assert (Hm : compiled_member mg (map snd (pieces sel_ac rs)) c = true).
        { apply (all_pieces_member sel_ac sel_ac_chars mg rs c Hwf). exists q. split; [|exact Hqc]. apply in_pieces_ac. split; assumption. }
        rewrite Hm. reflexivity.
      * exfalso.
        assert (Hqn : In q (pieces sel_na rs)) by (apply in_pieces_na; split; assumption).
        rewrite (groups_miss sel_na sel_na_chars mg rs c Hwf Ef' q Hqn) in Hqc. discriminate.
  - pose proof (groups_miss sel_ctx sel_ctx_chars mg rs c Hwf Ef) as Hmiss.
    destruct (find (fun g => compiled_member mg (snd g) c) (groups sel_na rs)) as [g'|] eqn:Ef'.
    + exfalso. destruct (groups_hit sel_na sel_na_chars mg rs c g' Hwf Ef') as (q' & Hq' & _ & Hqc').
      apply in_pieces_na in Hq'. destruct Hq' as [Hq' _]. rewrite (Hmiss q' Hq') in Hqc'. discriminate.
    + cbn [option_map].
      destruct (compiled_member mg (map snd (pieces sel_ac rs)) c) eqn:Hm; [exfalso|reflexivity].
      apply (all_pieces_member sel_ac sel_ac_chars mg rs c Hwf) in Hm. destruct Hm as (q & Hq & Hqc). apply in_pieces_ac in Hq. destruct Hq as [Hq _].
      rewrite (Hmiss q Hq) in Hqc. discriminate.
Qed.

(* ---------- characters ---------- *)

Definition cx_goto_items (cs : list (N * nat)) : list (nat * N) :=
  flat_map (fun p => if accb (snd p) then [] else [(snd p, fst p)]) cs.

Lemma cx_group_chars_eq cs : cx_group_chars d cs = ggrp (cx_goto_items cs).
Proof.
  unfold cx_group_chars, ggrp, cx_goto_items.
  match goal with |- fold_left ?F cs [] = fold_left ?G ?l [] =>
    enough (H : forall acc, fold_left F cs acc = fold_left G l acc) by apply H end.
  induction cs as [|p cs IH]; intros acc; [reflexivity|].
  rewrite flat_map_cons', fold_left_app. cbn [fold_left]. rewrite IH. unfold accb.
  destruct (is_accepting (dget d (snd p))); reflexivity.
Qed.

Lemma in_cx_goto_items cs t c : In (t, c) (cx_goto_items cs) <-> In (c, t) cs /\ accb t = false.
Proof.
  unfold cx_goto_items. rewrite in_flat_map. split.
  - intros ([c' t'] & Hin & H). cbn [fst snd] in H. destruct (accb t') eqn:Ea; [destruct H|].
    destruct H as [E|[]]. inversion E; subst. split; assumption.
  - intros [H Ha]. exists (c, t). split; [exact H|]. cbn [fst snd]. rewrite Ha. left; reflexivity.
Qed.

Lemma in_cx_accept_chars cs c : In c (cx_accept_chars d cs) <-> exists t, In (c, t) cs /\ accb t = true.
Proof.
  unfold cx_accept_chars. rewrite in_flat_map. split.
  - intros ([c' t'] & Hin & H). cbn [fst snd] in H. fold (accb t') in H.
    destruct (accb t') eqn:Ea; [|destruct H]. destruct H as [E|[]]. subst c'. exists t'. split; assumption.
  - intros (t & H & Ha). exists (c, t). split; [exact H|]. cbn [fst snd]. fold (accb t).
    rewrite Ha. left; reflexivity.
Qed.

Definition cx_cas (cs : list (N * nat)) : list (list N * cxact) :=
  map (fun g => (snd g, CXGoto (fst g))) (cx_group_chars d cs)
  ++ (match cx_accept_chars d cs with [] => [] | l => [(l, CXTrue)] end).

Lemma find_accept_chars_arm (L : list N) (x : cxact) c :
  find (fun a : list N * cxact => existsb (N.eqb c) (fst a))
       (match L with [] => [] | p :: t => [(p :: t, x)] end) =
  if existsb (N.eqb c) L then Some (L, x) else None.
Proof.
  destruct L as [|p L]; [reflexivity|].
  cbn [find fst]. destruct (existsb (N.eqb c) (p :: L)); reflexivity.
Qed.

Lemma cx_chars_find : forall cs c,
  NoDup (map fst cs) ->
  match assoc_N c cs with
  | Some t => cx_pick_c c (cx_cas cs) = Some (tgt t)
  | None => cx_pick_c c (cx_cas cs) = None
  end.
Proof.
  intros cs c Hnd. rewrite cx_pick_c_find. unfold cx_cas.
  rewrite find_app, find_map, find_accept_chars_arm, cx_group_chars_eq. cbn [fst].
  destruct (assoc_N c cs) as [t|] eqn:Ea.
  - apply assoc_N_in in Ea. unfold tgt.
    destruct (find (fun x : nat * list N => existsb (N.eqb c) (snd x)) (ggrp (cx_goto_items cs)))
      as [[t' l']|] eqn:Ef.
    + apply find_some in Ef. destruct Ef as [Hg Hp]. cbn [snd] in Hp. apply existsb_eqb_in in Hp.
      pose proof (ggrp_sound _ _ _ _ Hg Hp) as Hin'. apply in_cx_goto_items in Hin'.
      destruct Hin' as [Hin' Ha']. pose proof (nodup_keys_unique _ _ _ _ Hnd Ea Hin'). subst t'.
      rewrite Ha'. reflexivity.
    + cbn [option_map]. destruct (accb t) eqn:Eat.
      * assert (He : existsb (N.eqb c) (cx_accept_chars d cs) = true).
        { apply existsb_eqb_in. apply in_cx_accept_chars. exists t. split; assumption. }
        rewrite He. reflexivity.
      * exfalso.
        destruct (ggrp_complete (cx_goto_items cs) t c) as (l & Hl & Hcl);
          [apply in_cx_goto_items; split; assumption|].
        pose proof (find_none _ _ Ef _ Hl) as Hn. cbn [snd] in Hn.
        apply existsb_eqb_in in Hcl. congruence.
  - destruct (find (fun x : nat * list N => existsb (N.eqb c) (snd x)) (ggrp (cx_goto_items cs)))
      as [[t' l']|] eqn:Ef.
    + exfalso. apply find_some in Ef. destruct Ef as [Hg Hp]. cbn [snd] in Hp. apply existsb_eqb_in in Hp.
      pose proof (ggrp_sound _ _ _ _ Hg Hp) as Hin'. apply in_cx_goto_items in Hin'.
      exact (assoc_N_none _ _ Ea _ (proj1 Hin')).
    + cbn [option_map].
      destruct (existsb (N.eqb c) (cx_accept_chars d cs)) eqn:He; [exfalso|reflexivity].
      apply existsb_eqb_in in He. apply in_cx_accept_chars in He. destruct He as (t & Hin & _).
      exact (assoc_N_none _ _ Ea _ Hin).
Qed.

(* ---------- one state ---------- *)

Lemma gen_cx_state_match st :
  is_accepting st = false ->
  gen_cx_state mg d st =
  CXMatch (match d_eoi st with Some n => CXGoto n | None => CXFalse end)
          (cx_cas (d_chars st)) (cx_gas (d_ranges st))
          (match d_any st with Some n => CXGoto n | None => CXFalse end).
Proof. intros H. unfold gen_cx_state. rewrite H. reflexivity. Qed.

(* the action the generated `match` selects for character c *)
Definition cx_action (st : dstate nat) (c : N) : cxact :=
  match cx_pick_c c (cx_cas (d_chars st)) with
  | Some a => a
  | None => match cx_pick_g c (cx_gas (d_ranges st)) with
            | Some a => a
            | None => match d_any st with Some n => CXGoto n | None => CXFalse end
            end
  end.

(* its value, were the automaton run from there *)
Definition cx_val (a : cxact) (rest : list N) : bool :=
  match a with CXGoto n => ctx_run mg d n rest | CXTrue => true | CXFalse => false end.

Lemma ctx_run_unfold state input :
  ctx_run mg d state input =
  let st := dget d (Nat.min state (length d - 1)) in
  if is_accepting st then true
  else match input with
       | [] => ctx_eoi_chain (length d) d state
       | c :: rest => match ctx_lookup_char mg st c with
                      | Some next => ctx_run mg d next rest
                      | None => false
                      end
       end.
Proof. destruct input; reflexivity. Qed.

Lemma acc_clamp t : accb t = true -> dget d (Nat.min t (length d - 1)) = dget d t.
Proof.
  intros H. destruct (Nat.lt_ge_cases t (length d)) as [Hlt|Hge].
  - f_equal. lia.
  - unfold accb, dget in H. rewrite nth_overflow in H by exact Hge. discriminate.
Qed.

Lemma cx_val_tgt t rest : cx_val (tgt t) rest = ctx_run mg d t rest.
Proof.
  unfold tgt. destruct (accb t) eqn:Ea; cbn [cx_val]; [|reflexivity].
  rewrite ctx_run_unfold. cbv zeta. rewrite (acc_clamp t Ea). unfold accb in Ea. rewrite Ea. reflexivity.
Qed.

Lemma cx_action_val st c rest :
  NoDup (map fst (d_chars st)) -> wf (d_ranges st) = true ->
  cx_val (cx_action st c) rest =
  match ctx_lookup_char mg st c with Some next => ctx_run mg d next rest | None => false end.
Proof.
  intros Hnd Hwf. unfold cx_action, ctx_lookup_char.
  pose proof (cx_chars_find (d_chars st) c Hnd) as Hc.
  destruct (assoc_N c (d_chars st)) as [t|].
  - rewrite Hc. apply cx_val_tgt.
  - rewrite Hc. rewrite ctx_groups_eq.
    pose proof (cx_ranges_find (d_ranges st) c Hwf) as Hg.
    destruct (find (fun g => compiled_member mg (snd g) c) (groups sel_ctx (d_ranges st))) as [g|].
    + rewrite Hg. apply cx_val_tgt.
    + rewrite Hg. destruct (d_any st); reflexivity.
Qed.

(* ---------- arm selection ---------- *)

Lemma garm_lookup_seq {A B} (G : A -> B) (dflt : A) : forall (l : list A) k last state,
  l <> [] -> last + 1 = k + length l -> k <= state ->
  garm_lookup (map (fun p => (if fst p =? last then None else Some (fst p), G (snd p)))
                   (combine (seq k (length l)) l)) state =
  Some (G (nth (Nat.min state last - k) l dflt)).
Proof.
  induction l as [|x l IH]; intros k last state Hne Hlast Hk; [exfalso; apply Hne; reflexivity|].
  cbn [length seq combine map fst snd garm_lookup]. cbn [length] in Hlast.
  destruct (k =? last) eqn:Ek.
  - apply Nat.eqb_eq in Ek. replace (Nat.min state last - k) with 0 by lia. reflexivity.
  - apply Nat.eqb_neq in Ek. destruct (k =? state) eqn:Es.
    + apply Nat.eqb_eq in Es. replace (Nat.min state last - k) with 0 by lia. reflexivity.
    + apply Nat.eqb_neq in Es.
      assert (Hl : l <> []) by (destruct l; [cbn [length] in Hlast; lia|discriminate]).
      rewrite (IH (S k) last state Hl) by lia.
      replace (Nat.min state last - k) with (S (Nat.min state last - S k)) by lia. reflexivity.
Qed.

Lemma gen_cx_lookup state :
  0 < length d ->
  garm_lookup (gen_cx mg d) state = Some (gen_cx_state mg d (dget d (Nat.min state (length d - 1)))).
Proof.
  intros Hl. unfold gen_cx.
  rewrite (garm_lookup_seq (gen_cx_state mg d) dstate_empty d 0 (length d - 1) state).
  - rewrite Nat.sub_0_r. reflexivity.
  - destruct d; [cbn [length] in Hl; lia|discriminate].
  - lia.
  - lia.
Qed.

(* ---------- the loop ---------- *)

Hypothesis Hnd : forall s, NoDup (map fst (d_chars (dget d s))).
Hypothesis Hwf : forall s, wf (d_ranges (dget d s)) = true.
Hypothesis Heoi : eoi_targets_accepting d = true.

Lemma eoi_target state n :
  0 < length d ->
  d_eoi (dget d (Nat.min state (length d - 1))) = Some n ->
  is_accepting (dget d (Nat.min n (length d - 1))) = true.
Proof.
  intros Hl He. unfold eoi_targets_accepting in Heoi. rewrite forallb_forall in Heoi.
  specialize (Heoi (dget d (Nat.min state (length d - 1)))). rewrite He in Heoi. apply Heoi.
  unfold dget. apply nth_In. lia.
Qed.

Lemma ctx_eoi_chain_acc fuel s :
  is_accepting (dget d (Nat.min s (length d - 1))) = true -> ctx_eoi_chain fuel d s = true.
Proof. intros H. destruct fuel; cbn [ctx_eoi_chain]; rewrite H; reflexivity. Qed.

Lemma ctx_run_acc s input :
  is_accepting (dget d (Nat.min s (length d - 1))) = true -> ctx_run mg d s input = true.
Proof. intros H. rewrite ctx_run_unfold. cbv zeta. rewrite H. reflexivity. Qed.

Lemma ctx_eoi_chain_nacc fuel state :
  0 < fuel ->
  is_accepting (dget d (Nat.min state (length d - 1))) = false ->
  ctx_eoi_chain fuel d state =
  match d_eoi (dget d (Nat.min state (length d - 1))) with
  | Some next => ctx_eoi_chain (fuel - 1) d next
  | None => false
  end.
Proof.
  intros Hf Ha. destruct fuel as [|fuel]; [lia|]. cbn [ctx_eoi_chain]. rewrite Ha.
  replace (S fuel - 1) with fuel by lia. reflexivity.
Qed.

(* the value of ctx_run at end of input, in a state that is not accepting *)
Lemma ctx_run_eoi state :
  0 < length d ->
  is_accepting (dget d (Nat.min state (length d - 1))) = false ->
  ctx_run mg d state [] =
  match d_eoi (dget d (Nat.min state (length d - 1))) with Some _ => true | None => false end.
Proof.
  intros Hl Ha. rewrite ctx_run_unfold. cbv zeta. rewrite Ha.
  rewrite (ctx_eoi_chain_nacc (length d) state Hl Ha).
  destruct (d_eoi (dget d (Nat.min state (length d - 1)))) as [m|] eqn:Ee; [|reflexivity].
  apply ctx_eoi_chain_acc. apply (eoi_target state m Hl Ee).
Qed.

Theorem cx_exec_sound_from : forall fuel state input b,
  cx_exec fuel (gen_cx mg d) state input = Some b -> ctx_run mg d state input = b.
Proof.
  induction fuel as [|fuel IH]; intros state input b H; [discriminate|].
  cbn [cx_exec] in H.
  destruct (Nat.eq_dec (length d) 0) as [Hz|Hnz].
  { destruct d; [discriminate H|discriminate Hz]. }
  assert (Hl : 0 < length d) by lia.
  rewrite (gen_cx_lookup state Hl) in H.
  set (st := dget d (Nat.min state (length d - 1))) in *.
  destruct (is_accepting st) eqn:Ea.
  - unfold gen_cx_state in H. rewrite Ea in H. inversion H; subst. apply ctx_run_acc. exact Ea.
  - rewrite (gen_cx_state_match st Ea) in H.
    destruct input as [|c rest].
    + rewrite (ctx_run_eoi state Hl Ea). fold st.
      destruct (d_eoi st) as [n|] eqn:Ee; cbn [cx_do] in H.
      * apply IH in H. rewrite <- H. symmetry. apply ctx_run_acc.
        apply (eoi_target state n Hl). exact Ee.
      * inversion H; reflexivity.
    + rewrite ctx_run_unfold. cbv zeta. fold st. rewrite Ea.
      rewrite <- (cx_action_val st c rest (Hnd _) (Hwf _)).
      change (match cx_do (cx_action st c) with
              | inl n => cx_exec fuel (gen_cx mg d) n rest
              | inr b0 => Some b0
              end = Some b) in H.
      destruct (cx_action st c) as [n| |]; cbn [cx_do cx_val] in *.
      * apply IH. exact H.
      * inversion H; reflexivity.
      * inversion H; reflexivity.
Qed.

Theorem cx_exec_complete_from : forall input state,
  0 < length d ->
  exists fuel, cx_exec fuel (gen_cx mg d) state input = Some (ctx_run mg d state input).
Proof.
  induction input as [|c rest IH]; intros state Hl.
  - set (st := dget d (Nat.min state (length d - 1))).
    destruct (is_accepting st) eqn:Ea.
    + exists 1. cbn [cx_exec]. rewrite (gen_cx_lookup state Hl). fold st.
      unfold gen_cx_state. rewrite Ea. rewrite ctx_run_acc by exact Ea. reflexivity.
    + exists 2. cbn [cx_exec]. rewrite (gen_cx_lookup state Hl). fold st.
      rewrite (gen_cx_state_match st Ea), (ctx_run_eoi state Hl Ea). fold st.
      destruct (d_eoi st) as [n|] eqn:Ee; cbn [cx_do]; [|reflexivity].
      rewrite (gen_cx_lookup n Hl). unfold gen_cx_state.
      rewrite (eoi_target state n Hl Ee). reflexivity.
  - set (st := dget d (Nat.min state (length d - 1))).
    destruct (is_accepting st) eqn:Ea.
    + exists 1. cbn [cx_exec]. rewrite (gen_cx_lookup state Hl). fold st.
      unfold gen_cx_state. rewrite Ea. rewrite ctx_run_acc by exact Ea. reflexivity.
    + assert (Hv : ctx_run mg d state (c :: rest) = cx_val (cx_action st c) rest).
      { rewrite ctx_run_unfold. cbv zeta. fold st. rewrite Ea.
        symmetry. apply cx_action_val; [apply Hnd|apply Hwf]. }
      rewrite Hv.
      assert (Hstep : forall f, cx_exec (S f) (gen_cx mg d) state (c :: rest) =
                                match cx_do (cx_action st c) with
                                | inl n => cx_exec f (gen_cx mg d) n rest
                                | inr b0 => Some b0
                                end).
      { intros f. cbn [cx_exec]. rewrite (gen_cx_lookup state Hl). fold st.
        rewrite (gen_cx_state_match st Ea). reflexivity. }
      destruct (cx_action st c) as [n| |] eqn:Eact.
      * destruct (IH n Hl) as [f Hf]. exists (S f). rewrite Hstep. cbn [cx_do cx_val]. exact Hf.
      * exists 1. rewrite Hstep. reflexivity.
      * exists 1. rewrite Hstep. reflexivity.
Qed.

End CX.

(* T4 (added hypothesis: the range maps of the context automaton are well-formed, which
   dfa_shape_ok provides for every state below the length; the arms of gen_cx test the accepting
   ranges after the others, Codegen.ctx_lookup_char in range-map order) *)
Theorem cx_exec_sound : forall mg d fuel input b,
  (forall s, NoDup (map fst (d_chars (dget d s)))) ->
  (forall s, wf (d_ranges (dget d s)) = true) ->
  eoi_targets_accepting d = true ->
  cx_exec fuel (gen_cx mg d) 0 input = Some b -> ctx_run mg d 0 input = b.
Proof.
  intros mg d fuel input b Hnd Hwf Heoi H.
  exact (cx_exec_sound_from mg d Hnd Hwf Heoi fuel 0 input b H).
Qed.

Theorem cx_exec_complete : forall mg (d : dfa nat) input,
  0 < length d ->
  (forall s, NoDup (map fst (d_chars (dget d s)))) ->
  (forall s, wf (d_ranges (dget d s)) = true) ->
  eoi_targets_accepting d = true ->
  exists fuel, cx_exec fuel (gen_cx mg d) 0 input = Some (ctx_run mg d 0 input).
Proof.
  intros mg d input Hl Hnd Hwf Heoi.
  exact (cx_exec_complete_from mg d Hnd Hwf Heoi input 0 Hl).
Qed.

(* ------------------------------------------------------------------ *)
(* 5. compiled programs have sorted, hence distinct, character keys    *)
(* ------------------------------------------------------------------ *)

From LexVerif Require Import Spec SpecExec NfaToDfa NfaSem ClassAlgProofs ThompsonProofs RulesetSem
     Driver DriverProofs SpecDef ScanIface RulesetSemProofs DispatchProofs ScanOkProofs
     NfaToDfaProofs EndToEnd EndToEndModel.

(* every state's char_transitions are sorted by character: they are only ever changed through
   assoc_N_set (the model of the Rust map) *)
Definition KF {V : Type} (d : dfa V) : Prop := Forall (fun st => ksorted (d_chars st)) d.

Lemma ksorted_nil {V : Type} : ksorted (@nil (N * V)).
Proof. unfold ksorted. cbn [map]. constructor. Qed.

Lemma ksorted_map_val {A B : Type} (g : A -> B) (l : list (N * A)) :
  ksorted l -> ksorted (map (fun p => (fst p, g (snd p))) l).
Proof.
  unfold ksorted. intros H. rewrite map_map. cbn [fst].
  replace (map (fun x : N * A => fst x) l) with (map fst l) by reflexivity. exact H.
Qed.

Lemma sorted_lt_nodup : forall l : list N, StronglySorted N.lt l -> NoDup l.
Proof.
  induction 1 as [|x l Hs IH Hall]; constructor; [|exact IH].
  intros Hin. rewrite Forall_forall in Hall. specialize (Hall x Hin). lia.
Qed.

Lemma KF_dget {V : Type} (d : dfa V) s : KF d -> NoDup (map fst (d_chars (dget d s))).
Proof.
  intros H. apply sorted_lt_nodup. change (ksorted (d_chars (dget d s))).
  destruct (Nat.lt_ge_cases s (length d)) as [Hlt|Hge].
  - unfold KF in H. rewrite Forall_forall in H. apply H. unfold dget. apply nth_In. exact Hlt.
  - unfold dget. rewrite nth_overflow by exact Hge. apply ksorted_nil.
Qed.

Lemma Forall_upd {A} (P : A -> Prop) (f : A -> A) : forall k l,
  (forall x, P x -> P (f x)) -> Forall P l -> Forall P (upd k f l).
Proof.
  intros k l Hf. revert k. induction l as [|x l IH]; intros k H; [destruct k; exact H|].
  inversion H as [|? ? Hx Hl]; subst. destruct k as [|k]; cbn [upd].
  - constructor; [apply Hf; exact Hx|exact Hl].
  - constructor; [exact Hx|apply IH; exact Hl].
Qed.

Lemma KF_upd_same k (f : dstate nat -> dstate nat) d :
  (forall st, d_chars (f st) = d_chars st) -> KF d -> KF (upd k f d).
Proof. intros Hf. apply Forall_upd. intros st Hst. rewrite Hf. exact Hst. Qed.

Lemma KF_add_pred d a b : KF d -> KF (add_pred d a b).
Proof. unfold add_pred. apply KF_upd_same. reflexivity. Qed.

Lemma KF_make_acc d s v : KF d -> KF (dfa_make_accepting d s v).
Proof. unfold dfa_make_accepting. apply KF_upd_same. reflexivity. Qed.

Lemma KF_new_state d : KF d -> KF (fst (dfa_new_state d)).
Proof.
  intros H. unfold dfa_new_state. cbn [fst]. apply Forall_app. split; [exact H|].
  constructor; [apply ksorted_nil|constructor].
Qed.

Lemma KF_state_of d m k d' m' v : dfa_state_of d m k = (d', m', v) -> KF d -> KF d'.
Proof.
  unfold dfa_state_of. intros H K. destruct (sm_find m k).
  - inversion H; subst. exact K.
  - pose proof (KF_new_state d K) as K'. destruct (dfa_new_state d) as [dn vn].
    inversion H; subst. exact K'.
Qed.

Lemma KF_add_char d s c t d' : dfa_add_char_transition d s c t = Ok d' -> KF d -> KF d'.
Proof.
  unfold dfa_add_char_transition. intros H K. destruct (assoc_N c (d_chars (dget d s))); [discriminate|].
  inversion H; subst. apply KF_add_pred. apply Forall_upd; [|exact K].
  intros st Hst. cbn [d_chars]. apply assoc_N_set_sorted. exact Hst.
Qed.

Lemma KF_fold_add_pred (rs : rmap nat) s : forall d,
  KF d -> KF (fold_left (fun acc r => add_pred acc (r_val r) s) rs d).
Proof.
  induction rs as [|r rs IH]; intros d K; cbn [fold_left]; [exact K|].
  apply IH. apply KF_add_pred. exact K.
Qed.

Lemma KF_set_ranges d s rs d' : dfa_set_range_transitions d s rs = Ok d' -> KF d -> KF d'.
Proof.
  unfold dfa_set_range_transitions. intros H K. destruct (d_ranges (dget d s)); [|discriminate].
  inversion H; subst. apply KF_upd_same; [reflexivity|]. apply KF_fold_add_pred. exact K.
Qed.

Lemma KF_set_any d s t d' : dfa_set_any d s t = Ok d' -> KF d -> KF d'.
Proof.
  unfold dfa_set_any. intros H K. destruct (d_any (dget d s)); [discriminate|].
  inversion H; subst. apply KF_add_pred. apply KF_upd_same; [reflexivity|exact K].
Qed.

Lemma KF_set_eoi d s t d' : dfa_set_eoi d s t = Ok d' -> KF d -> KF d'.
Proof.
  unfold dfa_set_eoi. intros H K. destruct (d_eoi (dget d s)); [discriminate|].
  inversion H; subst. apply KF_add_pred. apply KF_upd_same; [reflexivity|exact K].
Qed.

Lemma KF_char_fold n S cur : forall l d m work d2 m2 work2,
  fold_left (char_step n S cur) l (Ok (d, m, work)) = Ok (d2, m2, work2) -> KF d -> KF d2.
Proof.
  induction l as [|p l IH]; intros d m work d2 m2 work2 H K; cbn [fold_left] in H.
  - inversion H; subst. exact K.
  - destruct (char_step n S cur (Ok (d, m, work)) p) as [[[d1 m1] w1]|t] eqn:E.
    2:{ rewrite fold_panic in H; [discriminate|reflexivity]. }
    apply (IH _ _ _ _ _ _ H). unfold char_step in E. cbn [bind] in E.
    destruct (closure n _) as [clo|]; [|discriminate]. cbn [bind] in E.
    destruct (dfa_state_of d m clo) as [[d' m'] t] eqn:EA.
    destruct (dfa_add_char_transition d' cur (fst p) t) as [d''|] eqn:ET; [|discriminate].
    cbn [bind] in E. inversion E; subst.
    exact (KF_add_char _ _ _ _ _ ET (KF_state_of _ _ _ _ _ _ EA K)).
Qed.

Lemma KF_range_fold n S : forall l d m work out d3 m3 work3 out3,
  fold_left (range_step n S) l (Ok (d, m, work, out)) = Ok (d3, m3, work3, out3) -> KF d -> KF d3.
Proof.
  induction l as [|r l IH]; intros d m work out d3 m3 work3 out3 H K; cbn [fold_left] in H.
  - inversion H; subst. exact K.
  - destruct (range_step n S (Ok (d, m, work, out)) r) as [[[[d1 m1] w1] o1]|t] eqn:E.
    2:{ rewrite fold_panic in H; [discriminate|reflexivity]. }
    apply (IH _ _ _ _ _ _ _ _ H). unfold range_step in E. cbn [bind] in E.
    destruct (closure n _) as [clo|]; [|discriminate]. cbn [bind] in E.
    destruct (dfa_state_of d m clo) as [[d' m'] t] eqn:EA.
    inversion E; subst. exact (KF_state_of _ _ _ _ _ _ EA K).
Qed.

Lemma KF_acc_fold n cur : forall (S : list nat) d,
  KF d -> KF (fold_left (fun d s => match n_acc (nget n s) with
                                    | Some v => dfa_make_accepting d cur v
                                    | None => d end) S d).
Proof.
  induction S as [|s S IH]; intros d K; cbn [fold_left]; [exact K|].
  apply IH. destruct (n_acc (nget n s)); [apply KF_make_acc|]; exact K.
Qed.

Lemma KF_process_body n S cur done' d0 m0 work0 w' :
  process_body n S cur done' d0 m0 work0 = Ok w' -> KF d0 -> KF (w_dfa w').
Proof.
  unfold process_body. intros H K. cbv zeta in H.
  pose proof (KF_acc_fold n cur S d0 K) as K1.
  apply bind_ok in H. destruct H as ([[d2 m2] work2] & E1 & H). cbv beta iota in H.
  pose proof (KF_char_fold _ _ _ _ _ _ _ _ _ _ E1 K1) as K2.
  apply bind_ok in H. destruct H as ([[[d3 m3] work3] dr] & E2 & H). cbv beta iota in H.
  pose proof (KF_range_fold _ _ _ _ _ _ _ _ _ _ _ E2 K2) as K3.
  apply bind_ok in H. destruct H as (d4 & E3 & H).
  pose proof (KF_set_ranges _ _ _ _ E3 K3) as K4.
  apply bind_ok in H. destruct H as (clo_any & _ & H).
  apply bind_ok in H. destruct H as ([[d5 m5] work5] & E4 & H). cbv beta iota in H.
  assert (K5 : KF d5).
  { destruct clo_any as [|x clo].
    - inversion E4; subst. exact K4.
    - destruct (dfa_state_of d4 m3 (x :: clo)) as [[d' m'] t] eqn:EA.
      apply bind_ok in E4. destruct E4 as (d'' & ES & E4). inversion E4; subst.
      exact (KF_set_any _ _ _ _ ES (KF_state_of _ _ _ _ _ _ EA K4)). }
  apply bind_ok in H. destruct H as (clo_eoi & _ & H).
  apply bind_ok in H. destruct H as ([[d6 m6] work6] & E5 & H). cbv beta iota in H.
  assert (K6 : KF d6).
  { destruct clo_eoi as [|x clo].
    - inversion E5; subst. exact K5.
    - destruct (dfa_state_of d5 m5 (x :: clo)) as [[d' m'] t] eqn:EA.
      apply bind_ok in E5. destruct E5 as (d'' & ES & E5). inversion E5; subst.
      exact (KF_set_eoi _ _ _ _ ES (KF_state_of _ _ _ _ _ _ EA K5)). }
  inversion H; subst. cbn [w_dfa]. exact K6.
Qed.

Lemma n2d_process_unfold n S w :
  n2d_process n S w =
  let '(d0, m0, cur) := dfa_state_of (w_dfa w) (w_map w) S in
  if set_mem cur (w_done w) then Ok (mkN2D d0 m0 (w_work w) (w_done w))
  else process_body n S cur (set_add cur (w_done w)) d0 m0 (w_work w).
Proof.
  unfold n2d_process, dfa_state_of. destruct (sm_find (w_map w) S); reflexivity.
Qed.

Lemma KF_n2d_process n S w w' : n2d_process n S w = Ok w' -> KF (w_dfa w) -> KF (w_dfa w').
Proof.
  rewrite n2d_process_unfold. intros H K.
  destruct (dfa_state_of (w_dfa w) (w_map w) S) as [[d0 m0] cur] eqn:E0.
  pose proof (KF_state_of _ _ _ _ _ _ E0 K) as K0.
  destruct (set_mem cur (w_done w)).
  - inversion H; subst. exact K0.
  - exact (KF_process_body _ _ _ _ _ _ _ _ H K0).
Qed.

Lemma KF_iter n : forall k w d m,
  KF (w_dfa w) -> iter_nat k (n2d_step n) w = inr (Ok (d, m)) -> KF d.
Proof.
  induction k as [|k IH]; intros w d m K H; cbn [iter_nat] in H; [discriminate|].
  destruct (n2d_step n w) as [w'|r] eqn:E.
  - unfold n2d_step in E. destruct (w_work w) as [|cur rest]; [discriminate|].
    destruct (n2d_process n cur (mkN2D (w_dfa w) (w_map w) rest (w_done w))) as [w1|tg] eqn:EP;
      [|discriminate].
    inversion E; subst w'. apply (IH w1 d m); [|exact H].
    apply (KF_n2d_process _ _ _ _ EP). exact K.
  - unfold n2d_step in E. destruct (w_work w) as [|cur rest].
    + inversion E; subst r. inversion H; subst. exact K.
    + destruct (n2d_process n cur (mkN2D (w_dfa w) (w_map w) rest (w_done w))); [discriminate|].
      inversion E; subst r. discriminate.
Qed.

Lemma KF_nfa_to_dfa n dm : nfa_to_dfa_map n = Ok dm -> KF (fst dm).
Proof.
  destruct dm as [d m]. unfold nfa_to_dfa_map. intros H.
  apply bind_ok in H. destruct H as (init & _ & H). rewrite iter_pos_nat in H.
  destruct (iter_nat (Pos.to_nat n2d_fuel) (n2d_step n) (mkN2D dfa_new [(init, 0)] [init] []))
    as [w|r] eqn:E; [discriminate|]. subst r.
  apply (KF_iter n _ _ d m) in E; [exact E|]. cbn [w_dfa]. unfold dfa_new.
  constructor; [apply ksorted_nil|constructor].
Qed.

(* ---------- the driver ---------- *)

Definition arts_KF (a : dstate_acc) : Prop := Forall (fun ra => KF (ra_dfa ra)) (da_arts a).

Lemma arts_KF_step benv a t a' : arts_KF a -> top_step benv a t = Ok a' -> arts_KF a'.
Proof.
  unfold arts_KF. intros Hinv H. destruct t as [|[r|v re]|nm rules]; cbn [top_step] in H.
  - destruct (da_errty a); [discriminate|]. inversion H; subst. exact Hinv.
  - destruct (compile_single_rule benv (da_unnamed a) r (da_bindings a) (da_ctxs a)) as [x|tg];
      cbn [bind] in H; [|discriminate]. inversion H; subst. exact Hinv.
  - destruct (lookup_var v (da_bindings a)); [discriminate|]. inversion H; subst. exact Hinv.
  - destruct (name_eqb nm name_Init).
    + destruct (compile_rules benv rules nfa_new (da_bindings a) (da_ctxs a)) as [x|tg];
        cbn [bind] in H; [|discriminate].
      destruct (nfa_to_dfa_map (fst x)) as [dm|tg] eqn:Edm; cbn [bind] in H; [|discriminate].
      destruct (assoc_name nm (da_entries a)); [discriminate|].
      inversion H; subst; clear H. cbn [da_arts]. apply Forall_app. split; [exact Hinv|].
      constructor; [|constructor]. cbn [ra_dfa]. exact (KF_nfa_to_dfa _ _ Edm).
    + destruct (da_init a) as [init|]; [|discriminate].
      destruct (compile_rules benv rules nfa_new (da_bindings a) (da_ctxs a)) as [x|tg];
        cbn [bind] in H; [|discriminate].
      destruct (nfa_to_dfa_map (fst x)) as [dm|tg] eqn:Edm; cbn [bind] in H; [|discriminate].
      unfold add_dfa in H.
      destruct (assoc_name nm (da_entries a)); [discriminate|].
      inversion H; subst; clear H. cbn [da_arts]. apply Forall_app. split; [exact Hinv|].
      constructor; [|constructor]. cbn [ra_dfa]. exact (KF_nfa_to_dfa _ _ Edm).
Qed.

Lemma KF_join : forall ds off, Forall (@KF nat) ds -> KF (join_from off ds).
Proof.
  induction ds as [|d ds IH]; intros off H; cbn [join_from]; [constructor|].
  inversion H as [|? ? Hd Hds]; subst. apply Forall_app. split; [|apply IH; exact Hds].
  apply Forall_forall. intros st Hin. apply in_map_iff in Hin. destruct Hin as (st0 & <- & Hin).
  unfold KF in Hd. rewrite Forall_forall in Hd. specialize (Hd st0 Hin).
  unfold shift_state. cbn [d_chars]. apply (ksorted_map_val (fun x => x + off)). exact Hd.
Qed.

Lemma KF_update_backtracks d d' : update_backtracks d = Ok d' -> KF d -> KF d'.
Proof.
  intros H K. destruct (update_backtracks_ok_inv d d' H) as (k & V & _ & _ & ->).
  unfold final_dfa. apply Forall_forall. intros st Hin. apply in_map_iff in Hin.
  destruct Hin as ([i st0] & <- & Hin). apply in_combine_r in Hin.
  unfold KF in K. rewrite Forall_forall in K. cbn [snd d_chars]. exact (K st0 Hin).
Qed.

Lemma result_map_Forall {A B} (f : A -> result B) (P : A -> Prop) (Q : B -> Prop) :
  (forall x y, P x -> f x = Ok y -> Q y) ->
  forall l l', result_map f l = Ok l' -> Forall P l -> Forall Q l'.
Proof.
  intros Hf. induction l as [|x l IH]; intros l' H HP; cbn [result_map] in H.
  - inversion H; subst. constructor.
  - inversion HP as [|? ? Hx Hl]; subst.
    apply bind_ok in H. destruct H as (y & Ey & H).
    apply bind_ok in H. destruct H as (ys & Eys & H). inversion H; subst.
    constructor; [exact (Hf x y Hx Ey)|exact (IH ys Eys Hl)].
Qed.

Lemma KF_simplify d E S E' : simplify d E = Ok (S, E') -> KF d -> KF S.
Proof.
  unfold simplify. intros H K. apply bind_ok in H. destruct H as (states & Er & H).
  inversion H; subst. clear H.
  assert (Hstep : forall (st : dstate nat) (st' : dstate trans),
             ksorted (d_chars st) -> simplify_state d (empty_states d) st = Ok st' ->
             ksorted (d_chars st')).
  { intros st st' Hst Hs. unfold simplify_state in Hs.
    destruct (existsb _ (d_preds st)); [discriminate|].
    inversion Hs; subst. cbn [d_chars].
    apply (ksorted_map_val (map_transition d (empty_states d))). exact Hst. }
  apply (result_map_Forall _ (fun st => ksorted (d_chars st)) (fun st => ksorted (d_chars st))
           Hstep _ _ Er).
  apply Forall_forall. intros st Hin. apply in_map_iff in Hin.
  destruct Hin as ([i st0] & <- & Hin). apply filter_In in Hin. destruct Hin as [Hin _].
  apply in_combine_r in Hin. unfold KF in K. rewrite Forall_forall in K. exact (K st0 Hin).
Qed.

(* chars_nodup holds for every compiled program *)
Theorem compile_chars_nodup : forall benv mg d c,
  compile benv mg d = Ok c -> chars_nodup (c_program c).
Proof.
  intros benv mg d c Hc.
  destruct (compile_structure benv mg d c Hc) as (E & Sh).
  destruct (compile_arts_model benv mg d c Hc) as (a & Hr & _ & _ & Harts).
  assert (Ha : arts_KF a).
  { apply (run_inv benv arts_KF (fun _ => True)
             (fun a t a' P _ St => arts_KF_step benv a t a' P St) d a0 a); auto.
    unfold arts_KF. cbn [a0 da_arts]. constructor. }
  assert (Hrs : Forall (fun ra => KF (ra_dfa ra)) (c_rulesets c)).
  { destruct Harts as [->|(dm & Hdm & ->)]; [exact Ha|].
    constructor; [|constructor]. cbn [ra_dfa]. exact (KF_nfa_to_dfa _ _ Hdm). }
  assert (Hds : Forall (@KF nat) (dfas (c_rulesets c))).
  { unfold dfas. apply Forall_forall. intros d0 Hin. apply in_map_iff in Hin.
    destruct Hin as (ra & <- & Hin). rewrite Forall_forall in Hrs. exact (Hrs ra Hin). }
  pose proof (KF_update_backtracks _ _ (cs_bt _ _ _ Sh) (KF_join _ 0 Hds)) as Kj.
  pose proof (KF_simplify _ _ _ _ (cs_simp _ _ _ Sh) Kj) as Ks.
  intros s. rewrite (cs_prog _ _ _ Sh). cbn [p_states]. apply KF_dget. exact Ks.
Qed.

(* ------------------------------------------------------------------ *)
(* 6. the headline                                                     *)
(* ------------------------------------------------------------------ *)

(* T5: the generated code of a compiled definition behaves as the reference semantics *)
Theorem generated_code_correct_model :
  forall benv mg (width : N -> N) tab_width (T E U : Type) (d : def) c rss (actions : nat -> action T E U) arms,
  benv_wf benv ->
  compile benv mg d = Ok c ->
  def_rulesets d = Ok rss ->
  wf_def benv d = true ->
  def_chars_ok benv rss ->
  acts_distinct d ->
  (forall a v u n, a_switch (actions a v u) = Some n -> n < length (p_switch (c_program c))) ->
  gen_arms (c_program c) = Ok arms ->
  forall whole u with_str,
    Forall (fun ch => is_scalar ch = true) whole ->
    (with_str = false -> RuntimeProofs.text_blind T E U actions) ->
  forall n fuel, enough_fuel U fuel (lexer_new U whole u with_str) ->
  exists r, spec_run benv width tab_width T E U rss actions n (s_init U whole u) r /\
            grun_lexer width tab_width T E U (c_program c) actions arms n fuel (lexer_new U whole u with_str)
              = map (outcome_of T E) r.
Proof.
  intros benv mg width tab_width T E U d c rss actions arms BW Hc Hd Hw Hch Hacts Hsw Hga
         whole u with_str Hsc Htb n fuel Hf.
  destruct (lexer_correct_model benv mg width tab_width T E U d c rss actions BW Hc Hd Hw Hch Hacts Hsw
              whole u with_str Hsc Htb n fuel Hf) as (r & Hspec & Hrun).
  exists r. split; [exact Hspec|]. rewrite <- Hrun.
  apply grun_lexer_correct; [exact (compile_chars_nodup benv mg d c Hc)|exact Hga|].
  rewrite Hrun. intros Hin. apply in_map_iff in Hin. destruct Hin as ([i|] & Ho & _); discriminate.
Qed.

(* ------------------------------------------------------------------ *)
(* 7. the right-context automata of a compiled definition satisfy the  *)
(*    hypotheses of T4 (all but the executable eoi_targets_accepting)  *)
(* ------------------------------------------------------------------ *)

Definition ctxs_KF (ctxs : list ctx_art) : Prop := Forall (fun ca => KF (ca_dfa ca)) ctxs.

Lemma new_right_ctx_KF benv b ctxs re x :
  ctxs_KF ctxs -> new_right_ctx benv b ctxs re = Ok x -> ctxs_KF (fst x).
Proof.
  unfold new_right_ctx. intros K H.
  apply bind_ok in H. destruct H as (n & _ & H).
  apply bind_ok in H. destruct H as (dm & Hdm & H). inversion H; subst. cbn [fst].
  apply Forall_app. split; [exact K|]. constructor; [|constructor]. cbn [ca_dfa].
  exact (KF_nfa_to_dfa _ _ Hdm).
Qed.

Lemma single_rule_KF benv n r b ctxs x :
  ctxs_KF ctxs -> compile_single_rule benv n r b ctxs = Ok x -> ctxs_KF (snd x).
Proof.
  unfold compile_single_rule. intros K H.
  apply bind_ok in H. destruct H as (cc & Hcc & H).
  apply bind_ok in H. destruct H as (n' & _ & H). inversion H; subst. cbn [snd].
  destruct (ru_ctx r) as [re|].
  - apply bind_ok in Hcc. destruct Hcc as (y & Hy & Hcc). inversion Hcc; subst. cbn [fst].
    exact (new_right_ctx_KF _ _ _ _ _ K Hy).
  - inversion Hcc; subst. exact K.
Qed.

Lemma compile_rules_KF benv : forall rules n b ctxs x,
  ctxs_KF ctxs -> compile_rules benv rules n b ctxs = Ok x -> ctxs_KF (snd x).
Proof.
  induction rules as [|[r|v re] rest IH]; intros n b ctxs x K H; cbn [compile_rules] in H.
  - inversion H; subst. exact K.
  - apply bind_ok in H. destruct H as (x1 & Hx1 & H).
    exact (IH _ _ _ _ (single_rule_KF _ _ _ _ _ _ K Hx1) H).
  - destruct (lookup_var v b); [discriminate|]. exact (IH _ _ _ _ K H).
Qed.

Lemma ctxs_KF_step benv a t a' :
  ctxs_KF (da_ctxs a) -> top_step benv a t = Ok a' -> ctxs_KF (da_ctxs a').
Proof.
  intros Hinv H. destruct t as [|[r|v re]|nm rules]; cbn [top_step] in H.
  - destruct (da_errty a); [discriminate|]. inversion H; subst. exact Hinv.
  - destruct (compile_single_rule benv (da_unnamed a) r (da_bindings a) (da_ctxs a)) as [x|tg] eqn:Ex;
      cbn [bind] in H; [|discriminate]. inversion H; subst. cbn [da_ctxs].
    exact (single_rule_KF _ _ _ _ _ _ Hinv Ex).
  - destruct (lookup_var v (da_bindings a)); [discriminate|]. inversion H; subst. exact Hinv.
  - destruct (name_eqb nm name_Init).
    + destruct (compile_rules benv rules nfa_new (da_bindings a) (da_ctxs a)) as [x|tg] eqn:Ex;
        cbn [bind] in H; [|discriminate].
      destruct (nfa_to_dfa_map (fst x)) as [dm|tg]; cbn [bind] in H; [|discriminate].
      destruct (assoc_name nm (da_entries a)); [discriminate|].
      inversion H; subst; clear H. cbn [da_ctxs]. exact (compile_rules_KF _ _ _ _ _ _ Hinv Ex).
    + destruct (da_init a) as [init|]; [|discriminate].
      destruct (compile_rules benv rules nfa_new (da_bindings a) (da_ctxs a)) as [x|tg] eqn:Ex;
        cbn [bind] in H; [|discriminate].
      destruct (nfa_to_dfa_map (fst x)) as [dm|tg]; cbn [bind] in H; [|discriminate].
      unfold add_dfa in H.
      destruct (assoc_name nm (da_entries a)); [discriminate|].
      inversion H; subst; clear H. cbn [da_ctxs]. exact (compile_rules_KF _ _ _ _ _ _ Hinv Ex).
Qed.

Theorem compiled_ctx_hyps : forall benv mg d c rss,
  benv_wf benv ->
  compile benv mg d = Ok c ->
  def_rulesets d = Ok rss ->
  wf_def benv d = true ->
  def_chars_ok benv rss ->
  forall dc, In dc (p_ctxs (c_program c)) ->
    0 < length dc /\
    (forall s, NoDup (map fst (d_chars (dget dc s)))) /\
    (forall s, wf (d_ranges (dget dc s)) = true).
Proof.
  intros benv mg d c rss BW Hc Hd Hw Hch dc Hin.
  destruct (compile_structure benv mg d c Hc) as (E & Sh).
  rewrite (cs_prog _ _ _ Sh) in Hin. cbn [p_ctxs] in Hin.
  apply in_map_iff in Hin. destruct Hin as (ca & <- & Hin).
  destruct (compile_certs_ok benv mg d c rss BW Hc Hd Hw Hch) as [_ CC].
  destruct (CC ca Hin) as (_ & Hl & Hsh).
  destruct (compile_arts_model benv mg d c Hc) as (a & Hr & _ & Ectx & _).
  assert (Ha : ctxs_KF (da_ctxs a)).
  { apply (run_inv benv (fun a => ctxs_KF (da_ctxs a)) (fun _ => True)
             (fun a t a' P _ St => ctxs_KF_step benv a t a' P St) d a0 a); auto.
    unfold ctxs_KF. cbn [a0 da_ctxs]. constructor. }
  rewrite <- Ectx in Ha. unfold ctxs_KF in Ha. rewrite Forall_forall in Ha.
  split; [exact Hl|]. split.
  - intros s. apply KF_dget. exact (Ha ca Hin).
  - intros s. destruct (Nat.lt_ge_cases s (length (ca_dfa ca))) as [Hlt|Hge].
    + exact (sh_ranges_wf _ Hsh s Hlt).
    + unfold dget. rewrite nth_overflow by exact Hge. reflexivity.
Qed.

(* the right-context functions of a compiled definition compute Codegen.ctx_run *)
Theorem generated_ctx_correct_model : forall benv mg d c rss,
  benv_wf benv ->
  compile benv mg d = Ok c ->
  def_rulesets d = Ok rss ->
  wf_def benv d = true ->
  def_chars_ok benv rss ->
  forall dc, In dc (p_ctxs (c_program c)) ->
  eoi_targets_accepting dc = true ->
  forall mg' input,
    (exists fuel, cx_exec fuel (gen_cx mg' dc) 0 input = Some (ctx_run mg' dc 0 input)) /\
    (forall fuel b, cx_exec fuel (gen_cx mg' dc) 0 input = Some b -> ctx_run mg' dc 0 input = b).
Proof.
  intros benv mg d c rss BW Hc Hd Hw Hch dc Hin Heoi mg' input.
  destruct (compiled_ctx_hyps benv mg d c rss BW Hc Hd Hw Hch dc Hin) as (Hl & Hnd & Hwf).
  split.
  - exact (cx_exec_complete mg' dc input Hl Hnd Hwf Heoi).
  - intros fuel b H. exact (cx_exec_sound mg' dc fuel input b Hnd Hwf Heoi H).
Qed.

Print Assumptions exec_gen_state.
Print Assumptions gnext_correct.
Print Assumptions grun_lexer_correct.
Print Assumptions cx_exec_sound.
Print Assumptions cx_exec_complete.
Print Assumptions compile_chars_nodup.
Print Assumptions generated_code_correct_model.
Print Assumptions compiled_ctx_hyps.
Print Assumptions generated_ctx_correct_model.
