(* L3: the NFA built by Nfa.add_re / Nfa.add_regex (the model of regex_to_nfa.rs) accepts
   exactly the reference language Spec.lang of the variable-expanded regex.  No axioms. *)
From LexVerif Require Import Base CharClass RangeMap RangeMapProofs Regex Spec Nfa ClassAlgProofs
     Dfa NfaToDfa NfaSem.
From Coq Require Import List NArith Bool Arith Lia.
Import ListNotations.

(* ------------------------------------------------------------------ *)
(* sets of state indices *)

Lemma set_add_In : forall x y s, In x (set_add y s) <-> x = y \/ In x s.
Proof.
  intros x y s. induction s as [|z t IH]; cbn [set_add].
  - cbn. intuition.
  - destruct (y <? z).
    + cbn. intuition.
    + destruct (y =? z) eqn:E2.
      * apply Nat.eqb_eq in E2. subst. cbn. intuition.
      * cbn [In]. rewrite IH. intuition.
Qed.

Lemma set_union_In : forall x b a, In x (set_union a b) <-> In x a \/ In x b.
Proof.
  intros x b. unfold set_union. induction b as [|y b IH]; intros a; cbn [fold_left].
  - cbn. tauto.
  - rewrite IH, set_add_In. cbn. intuition.
Qed.

Lemma set_mem_In : forall x s, set_mem x s = true <-> In x s.
Proof.
  intros x s. induction s as [|y t IH]; cbn [set_mem In].
  - split; [discriminate|tauto].
  - rewrite orb_true_iff, Nat.eqb_eq, IH. intuition.
Qed.

Lemma set_mem_false : forall x s, set_mem x s = false -> ~ In x s.
Proof. intros x s H I. apply set_mem_In in I. congruence. Qed.

(* ------------------------------------------------------------------ *)
(* association lists *)

Lemma assoc_N_set_get : forall A k (v : A) l k',
  assoc_N k' (assoc_N_set k v l) = if (k' =? k)%N then Some v else assoc_N k' l.
Proof.
  intros A k v l k'. induction l as [|[k0 v0] t IH]; cbn [assoc_N_set assoc_N].
  - reflexivity.
  - destruct (N.ltb_spec k k0).
    + cbn [assoc_N]. reflexivity.
    + destruct (N.eqb_spec k k0).
      * subst. cbn [assoc_N]. destruct (N.eqb_spec k' k0); reflexivity.
      * cbn [assoc_N]. rewrite IH.
        destruct (N.eqb_spec k' k0); destruct (N.eqb_spec k' k); try reflexivity.
        congruence.
Qed.

(* ------------------------------------------------------------------ *)
(* nget / upd / new_state *)

Lemma nget_overflow : forall n s, length n <= s -> nget n s = nstate_empty.
Proof. intros. unfold nget. apply nth_overflow. assumption. Qed.

Lemma nget_new : forall n s, nget (n ++ [nstate_empty]) s = nget n s.
Proof.
  intros n s. unfold nget. destruct (lt_dec s (length n)).
  - rewrite app_nth1 by assumption. reflexivity.
  - rewrite app_nth2 by lia. rewrite (nth_overflow n) by lia.
    destruct (s - length n) as [|[|k]]; reflexivity.
Qed.

Lemma upd_length : forall A k f (l : list A), length (upd k f l) = length l.
Proof.
  intros A k f l. revert k. induction l as [|x t IH]; intros [|k]; cbn; auto.
Qed.

Lemma nth_upd_same : forall A k f (l : list A) d, k < length l -> nth k (upd k f l) d = f (nth k l d).
Proof.
  intros A k f l d. revert k. induction l as [|x t IH]; intros [|k] H; cbn in *; try lia; auto.
  apply IH. lia.
Qed.

Lemma nth_upd_other : forall A k f (l : list A) d m, k <> m -> nth m (upd k f l) d = nth m l d.
Proof.
  intros A k f l d. revert k. induction l as [|x t IH]; intros [|k] [|m] H; cbn; auto; try lia.
Qed.

Lemma nget_upd_same : forall n s f, s < length n -> nget (upd s f n) s = f (nget n s).
Proof. intros. unfold nget. apply nth_upd_same. assumption. Qed.

Lemma nget_upd_other : forall n s f s', s <> s' -> nget (upd s f n) s' = nget n s'.
Proof. intros. unfold nget. apply nth_upd_other. assumption. Qed.

(* ------------------------------------------------------------------ *)
(* edges and paths over an arbitrary edge relation *)

Definition erel := nat -> option sym -> nat -> Prop.

Definition st_edge (st : nstate) (x : option sym) (t : nat) : Prop :=
  match x with
  | None => In t (n_eps st)
  | Some y => In t (n_sym_targets st y)
  end.

Definition edge (n : nfa) : erel := fun s x t => st_edge (nget n s) x t.

Inductive epath (E : erel) : nat -> list sym -> nat -> Prop :=
| EP_refl s : epath E s [] s
| EP_eps s t u w : E s None t -> epath E t w u -> epath E s w u
| EP_sym s t u x w : E s (Some x) t -> epath E t w u -> epath E s (x :: w) u.

Lemma npath_epath : forall n s w u, npath n s w u <-> epath (edge n) s w u.
Proof.
  intros n s w u. split; intros H; induction H.
  - constructor.
  - eapply EP_eps; eauto.
  - eapply EP_sym; eauto.
  - constructor.
  - eapply NP_eps; eauto.
  - eapply NP_sym; eauto.
Qed.

Lemma st_edge_empty : forall x t, ~ st_edge nstate_empty x t.
Proof. intros [[c|]|] t H; cbn in H; assumption. Qed.

Lemma edge_lt : forall n s x t, edge n s x t -> s < length n.
Proof.
  intros n s x t H. destruct (lt_dec s (length n)); [assumption|].
  unfold edge in H. rewrite nget_overflow in H by lia. apply st_edge_empty in H. destruct H.
Qed.

Lemma epath_mono : forall (E E' : erel), (forall s x t, E s x t -> E' s x t) ->
  forall s w u, epath E s w u -> epath E' s w u.
Proof.
  intros E E' M s w u H. induction H.
  - constructor.
  - eapply EP_eps; eauto.
  - eapply EP_sym; eauto.
Qed.

Lemma epath_app : forall E s w1 m w2 u,
  epath E s w1 m -> epath E m w2 u -> epath E s (w1 ++ w2) u.
Proof.
  intros E s w1 m w2 u H1 H2. induction H1; cbn [app].
  - assumption.
  - eapply EP_eps; eauto.
  - eapply EP_sym; eauto.
Qed.

Lemma epath_eps1 : forall (E : erel) s t, E s None t -> epath E s [] t.
Proof. intros. eapply EP_eps; eauto. constructor. Qed.

Lemma epath_sym1 : forall (E : erel) s x t, E s (Some x) t -> epath E s [x] t.
Proof. intros. eapply EP_sym; eauto. constructor. Qed.

(* a set of states closed under E-steps is never left *)
Lemma epath_closed : forall (E : erel) (Q : nat -> Prop),
  (forall s x t, Q s -> E s x t -> Q t) ->
  forall s w u, epath E s w u -> Q s -> Q u.
Proof.
  intros E Q C s w u H. induction H; intros Qs; eauto.
Qed.

(* inside a closed set only the edges leaving its states matter *)
Lemma epath_restrict : forall (E E' : erel) (Q : nat -> Prop),
  (forall s x t, Q s -> E s x t -> Q t) ->
  (forall s x t, Q s -> E s x t -> E' s x t) ->
  forall s w u, epath E s w u -> Q s -> epath E' s w u.
Proof.
  intros E E' Q C M s w u H. induction H; intros Qs.
  - constructor.
  - eapply EP_eps; eauto.
  - eapply EP_sym; eauto.
Qed.

Lemma epath_sink : forall (E : erel) s, (forall x t, ~ E s x t) ->
  forall w u, epath E s w u -> w = [] /\ u = s.
Proof.
  intros E s S w u H. inversion H; subst.
  - auto.
  - exfalso. eapply S; eauto.
  - exfalso. eapply S; eauto.
Qed.

(* a path leaving a region Q whose only exit is [mid] splits at its first visit of [mid] *)
Lemma epath_split : forall (E : erel) (Q : nat -> Prop) mid,
  (forall s x t, Q s -> E s x t -> Q t \/ t = mid) -> ~ Q mid ->
  forall s w u, epath E s w u -> Q s -> ~ Q u ->
  exists w1 w2, w = w1 ++ w2 /\ epath (fun s x t => Q s /\ E s x t) s w1 mid /\ epath E mid w2 u.
Proof.
  intros E Q mid X NM s w u H. induction H; intros Qs NQu.
  - contradiction.
  - destruct (X _ _ _ Qs H) as [Qt| ->].
    + destruct (IHepath Qt NQu) as (w1 & w2 & -> & P1 & P2).
      exists w1, w2. split; [reflexivity|]. split; [|assumption].
      eapply EP_eps; eauto.
    + exists [], w. split; [reflexivity|]. split; [|assumption].
      apply epath_eps1. auto.
  - destruct (X _ _ _ Qs H) as [Qt| ->].
    + destruct (IHepath Qt NQu) as (w1 & w2 & -> & P1 & P2).
      exists (x :: w1), w2. split; [reflexivity|]. split; [|assumption].
      eapply EP_sym; eauto.
    + exists [x], w. split; [reflexivity|]. split; [|assumption].
      apply epath_sym1. auto.
Qed.

Lemma word_ok_app : forall u v, word_ok (u ++ v) <-> word_ok u /\ word_ok v.
Proof. intros. unfold word_ok. apply Forall_app. Qed.

Lemma epath_first : forall (E : erel) s w u, epath E s w u ->
  (s = u /\ w = []) \/
  (exists t, E s None t /\ epath E t w u) \/
  (exists x t w', w = x :: w' /\ E s (Some x) t /\ epath E t w' u).
Proof.
  intros E s w u H. inversion H; subst.
  - left; auto.
  - right; left; eauto.
  - right; right; eauto 6.
Qed.

(* ------------------------------------------------------------------ *)
(* range maps: the targets reached through range pieces *)

Definition rtargets (rs : rmap (list nat)) (c : N) : list nat :=
  flat_map (fun r => if in_range r c then r_val r else []) rs.

Lemma rtargets_in : forall rs c t,
  In t (rtargets rs c) <-> exists r, In r rs /\ in_range r c = true /\ In t (r_val r).
Proof.
  intros rs c t. unfold rtargets. rewrite in_flat_map. split.
  - intros (r & I & H). exists r. destruct (in_range r c); [auto|destruct H].
  - intros (r & I & E & H). exists r. rewrite E. auto.
Qed.

Lemma wf_from_in_lb : forall A (t : rmap A) b r,
  wf_from (Some b) t = true -> In r t -> (b < r_lo r)%N.
Proof.
  intros A t. induction t as [|r1 t IH]; intros b r W I; [destruct I|].
  apply wf_from_cons in W. destruct W as (W1 & W2 & W3). cbn [lb_lt] in W2.
  destruct I as [->|I]; [assumption|].
  specialize (IH _ _ W3 I). lia.
Qed.

Lemma lookup_in_unique : forall A (rs : rmap A) lb r c,
  wf_from lb rs = true -> In r rs -> in_range r c = true -> lookup rs c = Some (r_val r).
Proof.
  intros A rs. induction rs as [|r0 t IH]; intros lb r c W I E; [destruct I|].
  apply wf_from_cons in W. destruct W as (W1 & W2 & W3).
  cbn [lookup]. destruct I as [->|I].
  - rewrite E. reflexivity.
  - pose proof (wf_from_in_lb _ _ _ _ W3 I) as L.
    assert (E0 : in_range r0 c = false).
    { unfold in_range in *. apply andb_true_iff in E. destruct E as [E1 E2].
      apply N.leb_le in E1. apply andb_false_iff. right. apply N.leb_gt. lia. }
    rewrite E0. eapply IH; eauto.
Qed.

Lemma lookup_some_in : forall A (rs : rmap A) c l,
  lookup rs c = Some l -> exists r, In r rs /\ in_range r c = true /\ r_val r = l.
Proof.
  intros A rs c l. induction rs as [|r0 t IH]; cbn [lookup]; intros H; [discriminate|].
  destruct (in_range r0 c) eqn:E.
  - injection H as <-. exists r0. cbn. auto.
  - destruct (IH H) as (r & I & E' & V). exists r. cbn. auto.
Qed.

Lemma rtargets_lookup : forall rs c t, wf rs = true ->
  (In t (rtargets rs c) <-> exists l, lookup rs c = Some l /\ In t l).
Proof.
  intros rs c t W. rewrite rtargets_in. split.
  - intros (r & I & E & H). exists (r_val r). split; [|assumption].
    eapply lookup_in_unique; eauto.
  - intros (l & E & H). destruct (lookup_some_in _ _ _ _ E) as (r & I & E' & <-).
    exists r. auto.
Qed.

Lemma rmap_map_wf_from : forall A B (f : A -> B) (m : rmap A) lb,
  wf_from lb (rmap_map f m) = wf_from lb m.
Proof.
  intros A B f m. induction m as [|r t IH]; intros lb; [reflexivity|].
  cbn [rmap_map map wf_from r_lo r_hi]. fold (rmap_map f t). rewrite IH. reflexivity.
Qed.

Lemma rmap_map_lookup : forall A B (f : A -> B) (m : rmap A) c,
  lookup (rmap_map f m) c = option_map f (lookup m c).
Proof.
  intros A B f m c. induction m as [|r t IH]; [reflexivity|].
  cbn [rmap_map map lookup]. fold (rmap_map f t). unfold in_range at 1. cbn [r_lo r_hi r_val].
  fold (in_range r c). destruct (in_range r c); [reflexivity|apply IH].
Qed.

Lemma insert_ranges_targets : forall rs (m : rmap unit) next rs',
  wf rs = true -> wf m = true ->
  insert_ranges set_union rs (rmap_map (fun _ => [next]) m) = Some rs' ->
  wf rs' = true /\
  forall c t, In t (rtargets rs' c) <-> In t (rtargets rs c) \/ (t = next /\ covered m c = true).
Proof.
  intros rs m next rs' W Wm H.
  assert (Wm' : wf (rmap_map (fun _ : unit => [next]) m) = true).
  { unfold wf. rewrite rmap_map_wf_from. exact Wm. }
  destruct (insert_ranges_correct _ set_union rs _ W Wm') as (rs0 & E & W0 & L).
  rewrite E in H. injection H as <-. split; [exact W0|].
  intros c t. rewrite (rtargets_lookup rs0 c t W0), (rtargets_lookup rs c t W).
  rewrite L, rmap_map_lookup. unfold covered, set_union.
  destruct (lookup rs c) as [a|]; destruct (lookup m c) as [u|]; cbn [option_map fold_left].
  - split.
    + intros (l & E1 & I). injection E1 as <-. apply set_add_In in I.
      destruct I as [I|I]; [right; auto|left; eauto].
    + intros [(l & E1 & I)|[-> _]].
      * injection E1 as <-. eexists; split; [reflexivity|]. apply set_add_In. auto.
      * eexists; split; [reflexivity|]. apply set_add_In. auto.
  - split.
    + intros (l & E1 & I). left. eauto.
    + intros [X|[_ X]]; [assumption|discriminate].
  - split.
    + intros (l & E1 & I). injection E1 as <-. cbn in I. destruct I as [I|[]]. right. auto.
    + intros [(l & E1 & I)|[-> _]]; [discriminate|]. eexists; split; [reflexivity|]. cbn. auto.
  - split.
    + intros (l & E1 & I). discriminate.
    + intros [(l & E1 & I)|[_ X]]; discriminate.
Qed.

Lemma insert_targets : forall rs lo hi next,
  wf rs = true -> (lo <= hi)%N ->
  wf (insert set_union rs lo hi [next]) = true /\
  forall c t, In t (rtargets (insert set_union rs lo hi [next]) c) <->
              In t (rtargets rs c) \/ (t = next /\ (lo <= c <= hi)%N).
Proof.
  intros rs lo hi next W L.
  pose proof (insert_wf _ set_union rs lo hi [next] W L) as W'.
  split; [exact W'|]. intros c t.
  rewrite (rtargets_lookup _ c t W'), (rtargets_lookup rs c t W).
  rewrite (insert_lookup _ set_union rs lo hi [next] c W L). unfold set_union. cbn [fold_left].
  destruct (N.leb_spec lo c); destruct (N.leb_spec c hi); cbn [andb].
  - destruct (lookup rs c) as [a|]; split.
    + intros (l & E1 & I). injection E1 as <-. apply set_add_In in I.
      destruct I as [I|I]; [right; auto|left; eauto].
    + intros [(l & E1 & I)|[-> _]].
      * injection E1 as <-. eexists; split; [reflexivity|]. apply set_add_In. auto.
      * eexists; split; [reflexivity|]. apply set_add_In. auto.
    + intros (l & E1 & I). injection E1 as <-. cbn in I. destruct I as [I|[]]. right. auto.
    + intros [(l & E1 & I)|[-> _]]; [discriminate|]. eexists; split; [reflexivity|]. cbn. auto.
  - split; [intros X; left; exact X|]. intros [X|[_ X]]; [exact X|lia].
  - split; [intros X; left; exact X|]. intros [X|[_ X]]; [exact X|lia].
  - split; [intros X; left; exact X|]. intros [X|[_ X]]; [exact X|lia].
Qed.

(* ------------------------------------------------------------------ *)
(* extension of an automaton by a set of edges *)

Definition nfa_ranges_wf (n : nfa) : Prop := forall s, wf (n_ranges (nget n s)) = true.

Definition ext (n n' : nfa) (A : erel) : Prop :=
  length n <= length n' /\
  (forall s, n_acc (nget n' s) = n_acc (nget n s)) /\
  (nfa_ranges_wf n -> nfa_ranges_wf n') /\
  (forall s x t, edge n' s x t <-> edge n s x t \/ A s x t).

Definition enone : erel := fun _ _ _ => False.
Definition eor (A B : erel) : erel := fun s x t => A s x t \/ B s x t.

Lemma ext_refl : forall n, ext n n enone.
Proof. intros n. unfold ext, enone. repeat split; auto; tauto. Qed.

Lemma ext_new : forall n, ext n (n ++ [nstate_empty]) enone.
Proof.
  intros n. unfold ext, enone, nfa_ranges_wf, edge. rewrite app_length. cbn [length].
  split; [lia|]. split; [intros; rewrite nget_new; reflexivity|].
  split; [intros H s; rewrite nget_new; apply H|].
  intros. rewrite nget_new. tauto.
Qed.

Lemma ext_trans : forall n n1 n2 A1 A2, ext n n1 A1 -> ext n1 n2 A2 -> ext n n2 (eor A1 A2).
Proof.
  intros n n1 n2 A1 A2 (L1 & C1 & W1 & E1) (L2 & C2 & W2 & E2). unfold eor.
  split; [lia|]. split; [intros; rewrite C2; apply C1|]. split; [auto|].
  intros. rewrite E2, E1. tauto.
Qed.

Lemma ext_equiv : forall n n' (A A' : erel),
  (forall s x t, A s x t <-> A' s x t) -> ext n n' A -> ext n n' A'.
Proof.
  intros n n' A A' Q (L & C & W & E). repeat split; auto.
  - intros H. apply E in H. rewrite <- Q. exact H.
  - intros H. apply E. rewrite Q. exact H.
Qed.

Lemma upd_edges : forall n s f (X : option sym -> nat -> Prop),
  s < length n ->
  (forall x t, st_edge (f (nget n s)) x t <-> st_edge (nget n s) x t \/ X x t) ->
  forall s' x t, edge (upd s f n) s' x t <-> edge n s' x t \/ (s' = s /\ X x t).
Proof.
  intros n s f X Ls H s' x t. unfold edge. destruct (Nat.eq_dec s s') as [<-|D].
  - rewrite nget_upd_same by assumption. rewrite H. intuition.
  - rewrite nget_upd_other by assumption. intuition congruence.
Qed.

Lemma ext_upd : forall n s f (X : option sym -> nat -> Prop),
  s < length n ->
  n_acc (f (nget n s)) = n_acc (nget n s) ->
  (wf (n_ranges (nget n s)) = true -> wf (n_ranges (f (nget n s))) = true) ->
  (forall x t, st_edge (f (nget n s)) x t <-> st_edge (nget n s) x t \/ X x t) ->
  ext n (upd s f n) (fun s' x t => s' = s /\ X x t).
Proof.
  intros n s f X Ls Ha Hw He. unfold ext. rewrite upd_length. split; [lia|].
  split.
  { intros s'. destruct (Nat.eq_dec s s') as [<-|D].
    - rewrite nget_upd_same by assumption. assumption.
    - rewrite nget_upd_other by assumption. reflexivity. }
  split.
  { intros W s'. destruct (Nat.eq_dec s s') as [<-|D].
    - rewrite nget_upd_same by assumption. apply Hw, W.
    - rewrite nget_upd_other by assumption. apply W. }
  apply upd_edges; assumption.
Qed.

(* the five kinds of transitions *)

Lemma n_char_targets_in : forall st c t,
  In t (n_char_targets st c) <->
  In t (match assoc_N c (n_chars st) with Some l => l | None => [] end) \/
  In t (rtargets (n_ranges st) c) \/ In t (n_any st).
Proof. intros. unfold n_char_targets. fold (rtargets (n_ranges st) c). rewrite !in_app_iff. tauto. Qed.

Lemma ext_eps : forall n s t n',
  add_empty_transition n s t = Ok n' -> s < length n ->
  length n' = length n /\ ext n n' (fun s' x t' => s' = s /\ x = None /\ t' = t).
Proof.
  intros n s t n' H Ls. unfold add_empty_transition in H.
  destruct (set_mem t (n_eps (nget n s))); [discriminate|]. injection H as <-.
  split; [apply upd_length|].
  apply (ext_upd n s _ (fun x t' => x = None /\ t' = t)); auto.
  intros [y|] t'; cbn [st_edge n_eps].
  - destruct y; cbn; intuition discriminate.
  - rewrite set_add_In. intuition.
Qed.

Lemma ext_char : forall n s c t n',
  add_char_transition n s c t = Ok n' -> s < length n ->
  length n' = length n /\ ext n n' (fun s' x t' => s' = s /\ x = Some (Chr c) /\ t' = t).
Proof.
  intros n s c t n' H Ls. unfold add_char_transition in H.
  destruct (set_mem t _); [discriminate|]. injection H as <-.
  split; [apply upd_length|].
  apply (ext_upd n s _ (fun x t' => x = Some (Chr c) /\ t' = t)); auto.
  intros [y|] t'; cbn [st_edge n_eps]; [|intuition discriminate].
  destruct y as [c'|]; cbn [n_sym_targets n_eoi]; [|intuition discriminate].
  rewrite !n_char_targets_in. cbn [n_chars n_ranges n_any].
  rewrite assoc_N_set_get. destruct (N.eqb_spec c' c) as [->|D].
  - rewrite set_add_In. intuition.
  - intuition. congruence.
Qed.

Lemma ext_any : forall n s t n',
  add_any_transition n s t = Ok n' -> s < length n ->
  length n' = length n /\ ext n n' (fun s' x t' => s' = s /\ (exists c, x = Some (Chr c)) /\ t' = t).
Proof.
  intros n s t n' H Ls. unfold add_any_transition in H.
  destruct (set_mem t _); [discriminate|]. injection H as <-.
  split; [apply upd_length|].
  apply (ext_upd n s _ (fun x t' => (exists c, x = Some (Chr c)) /\ t' = t)); auto.
  intros [y|] t'; cbn [st_edge n_eps].
  2:{ split; [auto|]. intros [?|[(c & ?) _]]; [assumption|discriminate]. }
  destruct y as [c'|]; cbn [n_sym_targets n_eoi].
  2:{ split; [auto|]. intros [?|[(c & ?) _]]; [assumption|discriminate]. }
  rewrite !n_char_targets_in. cbn [n_chars n_ranges n_any]. rewrite set_add_In.
  intuition eauto.
Qed.

Lemma ext_eoi : forall n s t n',
  add_eoi_transition n s t = Ok n' -> s < length n ->
  length n' = length n /\ ext n n' (fun s' x t' => s' = s /\ x = Some Eoi /\ t' = t).
Proof.
  intros n s t n' H Ls. unfold add_eoi_transition in H.
  destruct (set_mem t _); [discriminate|]. injection H as <-.
  split; [apply upd_length|].
  apply (ext_upd n s _ (fun x t' => x = Some Eoi /\ t' = t)); auto.
  intros [y|] t'; cbn [st_edge n_eps]; [|intuition discriminate].
  destruct y as [c'|]; cbn [n_sym_targets n_eoi].
  - rewrite !n_char_targets_in. cbn [n_chars n_ranges n_any]. intuition discriminate.
  - rewrite set_add_In. intuition.
Qed.

Lemma st_edge_ranges : forall st rs' (P : N -> nat -> Prop),
  (forall c t, In t (rtargets rs' c) <-> In t (rtargets (n_ranges st) c) \/ P c t) ->
  forall x t,
    st_edge (mkN (n_chars st) rs' (n_eps st) (n_any st) (n_eoi st) (n_acc st)) x t <->
    st_edge st x t \/ (exists c, x = Some (Chr c) /\ P c t).
Proof.
  intros st rs' P H [y|] t; cbn [st_edge n_eps].
  2:{ split; [auto|]. intros [?|(c & ? & _)]; [assumption|discriminate]. }
  destruct y as [c'|]; cbn [n_sym_targets n_eoi].
  2:{ split; [auto|]. intros [?|(c & ? & _)]; [assumption|discriminate]. }
  rewrite !n_char_targets_in. cbn [n_chars n_ranges n_any]. rewrite H.
  split.
  - intros [?|[[?|?]|?]]; eauto 6.
  - intros [[?|[?|?]]|(c & E & ?)]; auto. injection E as <-. auto.
Qed.

Lemma ext_range : forall n s lo hi t,
  s < length n -> nfa_ranges_wf n -> (lo <= hi)%N ->
  ext n (add_range_transition n s lo hi t)
      (fun s' x t' => s' = s /\ exists c, x = Some (Chr c) /\ (t' = t /\ (lo <= c <= hi)%N)).
Proof.
  intros n s lo hi t Ls W L. unfold add_range_transition.
  destruct (insert_targets (n_ranges (nget n s)) lo hi t (W s) L) as [W' T].
  apply (ext_upd n s _ (fun x t' => exists c, x = Some (Chr c) /\ (t' = t /\ (lo <= c <= hi)%N))); auto.
  apply st_edge_ranges. exact T.
Qed.

Lemma ext_ranges : forall n s m t n',
  add_range_transitions n s m t = Ok n' ->
  s < length n -> nfa_ranges_wf n -> wf m = true ->
  length n' = length n /\
  ext n n' (fun s' x t' => s' = s /\ exists c, x = Some (Chr c) /\ (t' = t /\ covered m c = true)).
Proof.
  intros n s m t n' H Ls W Wm. unfold add_range_transitions in H.
  destruct (insert_ranges _ _ _) as [rs|] eqn:E; [|discriminate]. injection H as <-.
  destruct (insert_ranges_targets _ m t rs (W s) Wm E) as [W' T].
  split; [apply upd_length|].
  apply (ext_upd n s _ (fun x t' => exists c, x = Some (Chr c) /\ (t' = t /\ covered m c = true))); auto.
  apply st_edge_ranges. exact T.
Qed.

(* ------------------------------------------------------------------ *)
(* the specification of one call of add_re *)

Definition pre (n : nfa) (cur cont : nat) : Prop :=
  cur < length n /\ cont < length n /\ cur <> cont /\ nfa_ranges_wf n.

Definition fresh (n n' : nfa) (s : nat) : Prop := length n <= s < length n'.

Definition one (s : nat) (x : option sym) (t : nat) : erel :=
  fun s' x' t' => s' = s /\ x' = x /\ t' = t.

(* [A] is the set of edges added by the call: they leave [cur] or fresh states and enter [cont]
   or fresh states; the words spelled by A-paths from [cur] to [cont] are exactly L; and (when
   the classes are non-empty, NE) every state of the fragment reaches [cont]. *)
Definition spec (NE : Prop) (L : list sym -> Prop) (n : nfa) (cur cont : nat) (n' : nfa) : Prop :=
  exists A : erel,
    ext n n' A /\
    (forall s x t, A s x t -> (s = cur \/ fresh n n' s) /\ (t = cont \/ fresh n n' t)) /\
    (forall w, word_ok w -> (epath A cur w cont <-> L w)) /\
    (NE -> forall s, s = cur \/ fresh n n' s -> exists w, word_ok w /\ epath A s w cont).

Lemma spec_weaken : forall (NE NE' : Prop) (L L' : list sym -> Prop) n cur cont n',
  (NE' -> NE) -> (forall w, word_ok w -> (L w <-> L' w)) ->
  spec NE L n cur cont n' -> spec NE' L' n cur cont n'.
Proof.
  intros NE NE' L L' n cur cont n' HN HL (A & X & R & G & C).
  exists A. split; [exact X|]. split; [exact R|]. split.
  - intros w Ww. rewrite (G w Ww). apply HL. exact Ww.
  - intros N. apply C. auto.
Qed.

Lemma spec_wf : forall NE L n cur cont n',
  pre n cur cont -> spec NE L n cur cont n' -> nfa_ranges_wf n' /\ length n <= length n'.
Proof.
  intros NE L n cur cont n' (_ & _ & _ & W) (A & (Le & _ & W' & _) & _). auto.
Qed.

Ltac rlia := cbv beta in *; unfold fresh, one in *; lia.

(* a leaf: edges cur -x-> cont for the labels x in X *)
Lemma spec_leaf : forall (NE : Prop) (L : list sym -> Prop) n cur cont n' (X : option sym -> Prop),
  pre n cur cont -> length n' = length n ->
  ext n n' (fun s x t => s = cur /\ t = cont /\ X x) ->
  ~ X None ->
  (forall w, word_ok w -> (L w <-> exists y, X (Some y) /\ w = [y])) ->
  (NE -> exists y, sym_ok y /\ X (Some y)) ->
  spec NE L n cur cont n'.
Proof.
  intros NE L n cur cont n' X (Lc & Lk & Dc & W) Ln E XN HL HN.
  exists (fun s x t => s = cur /\ t = cont /\ X x).
  split; [exact E|]. split; [intros s x t (-> & -> & _); auto|]. split.
  - intros w Ww. rewrite (HL w Ww). split.
    + intros P. apply epath_first in P.
      destruct P as [[E1 _]|[(t & (_ & _ & Xn) & _)|(x & t & w' & -> & (_ & -> & Xx) & P)]].
      * congruence.
      * contradiction.
      * apply epath_sink in P; [|intros x' t' (E1 & _); congruence].
        destruct P as [-> _]. eauto.
    + intros (y & Xy & ->). apply epath_sym1. auto.
  - intros N s [->|F]; [|rlia].
    destruct (HN N) as (y & Sy & Xy). exists [y]. split.
    + constructor; [assumption|constructor].
    + apply epath_sym1. auto.
Qed.

(* a single epsilon edge cur -> cont: the only word is [] *)
Lemma spec_eps1 : forall (NE : Prop) n cur cont n',
  pre n cur cont -> add_empty_transition n cur cont = Ok n' ->
  spec NE (fun w => w = []) n cur cont n'.
Proof.
  intros NE n cur cont n' (Lc & Lk & Dc & W) H.
  destruct (ext_eps _ _ _ _ H Lc) as [Ln X].
  exists (one cur None cont). split; [|split; [|split]].
  - eapply ext_equiv; [|exact X]. unfold one. tauto.
  - intros s x t (-> & _ & ->). auto.
  - intros w Ww. split.
    + intros P. apply epath_first in P.
      destruct P as [[E1 _]|[(t & (_ & _ & Et) & P)|(x & t & w' & _ & (_ & Ex & _) & _)]].
      * congruence.
      * subst t. apply epath_sink in P; [tauto|]. intros x t (E1 & _). congruence.
      * discriminate.
    + intros ->. apply epath_eps1. unfold one. auto.
  - intros _ s [->|F]; [|rlia].
    exists []. split; [constructor|]. apply epath_eps1. unfold one. auto.
Qed.

(* language combinators *)
Definition Lcat (L1 L2 : list sym -> Prop) (w : list sym) : Prop :=
  exists u v, w = u ++ v /\ L1 u /\ L2 v.

Inductive Lstar (L : list sym -> Prop) : list sym -> Prop :=
| LS0 : Lstar L []
| LSS u v : L u -> Lstar L v -> Lstar L (u ++ v).

(* ---- concatenation ---- *)
Lemma spec_seq : forall (NE1 NE2 : Prop) L1 L2 n cur cont n2 n',
  pre n cur cont ->
  spec NE1 L1 (n ++ [nstate_empty]) cur (length n) n2 ->
  spec NE2 L2 n2 (length n) cont n' ->
  spec (NE1 /\ NE2) (Lcat L1 L2) n cur cont n'.
Proof.
  intros NE1 NE2 L1 L2 n cur cont n2 n' (Lc & Lk & Dc & W)
         (A1 & X1 & R1 & G1 & C1) (A2 & X2 & R2 & G2 & C2).
  assert (Ln1 : length (n ++ [nstate_empty]) = S (length n)) by (rewrite app_length; cbn; lia).
  pose proof X1 as (Le1 & _). pose proof X2 as (Le2 & _).
  exists (eor A1 A2). split; [|split; [|split]].
  - eapply ext_equiv; [|eapply ext_trans; [eapply ext_trans; [apply ext_new|exact X1]|exact X2]].
    unfold eor, enone. tauto.
  - intros s x t [H|H]; [apply R1 in H|apply R2 in H]; rlia.
  - intros w Ww. split.
    + intros P.
      destruct (epath_split (eor A1 A2)
                  (fun s => s = cur \/ length (n ++ [nstate_empty]) <= s < length n2) (length n))
        with (3 := P) as (w1 & w2 & -> & P1 & P2).
      * intros s x t Q [H|H]; [apply R1 in H|apply R2 in H]; rlia.
      * rlia.
      * left; reflexivity.
      * rlia.
      * apply word_ok_app in Ww. destruct Ww as [Ww1 Ww2].
        exists w1, w2. split; [reflexivity|]. split.
        -- apply G1; [assumption|]. eapply epath_mono; [|exact P1].
           intros s x t [Q [H|H]]; [assumption|]. apply R2 in H. rlia.
        -- apply G2; [assumption|].
           eapply epath_restrict
             with (Q := fun s => s = length n \/ length n2 <= s < length n' \/ s = cont);
             [| |exact P2|left; reflexivity].
           ++ intros s x t Q [H|H]; [apply R1 in H|apply R2 in H]; rlia.
           ++ intros s x t Q [H|H]; [apply R1 in H; rlia|assumption].
    + intros (u & v & -> & H1 & H2). apply word_ok_app in Ww. destruct Ww as [Wu Wv].
      eapply epath_app.
      * eapply epath_mono; [|apply G1; eassumption]. intros; left; assumption.
      * eapply epath_mono; [|apply G2; eassumption]. intros; right; assumption.
  - intros [N1 N2] s Hs.
    assert (Hs' : (s = cur \/ fresh (n ++ [nstate_empty]) n2 s) \/ (s = length n \/ fresh n2 n' s)) by rlia.
    destruct Hs' as [Hs'|Hs'].
    + destruct (C1 N1 s Hs') as (w1 & Ww1 & P1).
      destruct (C2 N2 (length n) (or_introl eq_refl)) as (w2 & Ww2 & P2).
      exists (w1 ++ w2). split; [apply word_ok_app; auto|].
      eapply epath_app.
      * eapply epath_mono; [|exact P1]. intros; left; assumption.
      * eapply epath_mono; [|exact P2]. intros; right; assumption.
    + destruct (C2 N2 s Hs') as (w2 & Ww2 & P2).
      exists w2. split; [assumption|].
      eapply epath_mono; [|exact P2]. intros; right; assumption.
Qed.

Lemma len_new : forall n, length (n ++ [nstate_empty]) = S (length n).
Proof. intros. rewrite app_length. cbn. lia. Qed.

(* ---- option ---- *)
Lemma spec_opt : forall (NE1 : Prop) L1 n cur cont n2 n3 n',
  pre n cur cont ->
  spec NE1 L1 (n ++ [nstate_empty]) (length n) cont n2 ->
  add_empty_transition n2 cur cont = Ok n3 ->
  add_empty_transition n3 cur (length n) = Ok n' ->
  spec NE1 (fun w => w = [] \/ L1 w) n cur cont n'.
Proof.
  intros NE1 L1 n cur cont n2 n3 n' (Lc & Lk & Dc & W) (A1 & X1 & R1 & G1 & C1) H3 H4.
  pose proof (len_new n) as Ln1.
  pose proof X1 as (Le1 & _).
  destruct (ext_eps _ _ _ _ H3) as [Ln3 X3]; [lia|].
  destruct (ext_eps _ _ _ _ H4) as [Ln4 X4]; [lia|].
  set (A := fun s x t => A1 s x t \/ one cur None cont s x t \/ one cur None (length n) s x t).
  assert (Sink : forall x t, ~ A cont x t).
  { intros x t [H|[H|H]]; [apply R1 in H|..]; rlia. }
  exists A. split; [|split; [|split]].
  - eapply ext_equiv;
      [|eapply ext_trans; [eapply ext_trans; [eapply ext_trans; [apply ext_new|exact X1]|exact X3]|exact X4]].
    unfold A, eor, enone, one. tauto.
  - intros s x t [H|[H|H]]; [apply R1 in H|..]; rlia.
  - intros w Ww. split.
    + intros P. apply epath_first in P.
      destruct P as [[E1 _]|[(t & [H|[H|H]] & P)|(x & t & w' & -> & [H|[H|H]] & P)]];
        try (apply R1 in H); try rlia.
      * destruct H as (_ & _ & ->). apply epath_sink in P; [|exact Sink]. left; tauto.
      * destruct H as (_ & _ & ->). right. apply G1; [assumption|].
        eapply epath_restrict with (Q := fun s => s <> cur); [| |exact P|rlia].
        -- intros s x t Q [H|[H|H]]; [apply R1 in H|..]; rlia.
        -- intros s x t Q [H|[H|H]]; [assumption|rlia..].
      * destruct H as (_ & H & _). discriminate.
      * destruct H as (_ & H & _). discriminate.
    + intros [->|H].
      * apply epath_eps1. right; left. unfold one; auto.
      * eapply EP_eps with (t := length n); [right; right; unfold one; auto|].
        eapply epath_mono; [|apply G1; eassumption]. intros; left; assumption.
  - intros N s [->|Hs].
    + exists []. split; [constructor|]. apply epath_eps1. right; left. unfold one; auto.
    + destruct (C1 N s) as (w & Ww & P); [rlia|].
      exists w. split; [assumption|]. eapply epath_mono; [|exact P]. intros; left; assumption.
Qed.

(* ---- alternation ---- *)
Lemma spec_or : forall (NE1 NE2 : Prop) L1 L2 n cur cont n3 n4 n5 n',
  pre n cur cont ->
  spec NE1 L1 ((n ++ [nstate_empty]) ++ [nstate_empty]) (length n) cont n3 ->
  spec NE2 L2 n3 (S (length n)) cont n4 ->
  add_empty_transition n4 cur (length n) = Ok n5 ->
  add_empty_transition n5 cur (S (length n)) = Ok n' ->
  spec (NE1 /\ NE2) (fun w => L1 w \/ L2 w) n cur cont n'.
Proof.
  intros NE1 NE2 L1 L2 n cur cont n3 n4 n5 n' (Lc & Lk & Dc & W)
         (A1 & X1 & R1 & G1 & C1) (A2 & X2 & R2 & G2 & C2) H5 H6.
  pose proof (len_new n) as Ln1. pose proof (len_new (n ++ [nstate_empty])) as Ln2.
  pose proof X1 as (Le1 & _). pose proof X2 as (Le2 & _).
  destruct (ext_eps _ _ _ _ H5) as [Ln5 X5]; [lia|].
  destruct (ext_eps _ _ _ _ H6) as [Ln6 X6]; [lia|].
  set (A := fun s x t => A1 s x t \/ A2 s x t \/ one cur None (length n) s x t
                         \/ one cur None (S (length n)) s x t).
  exists A. split; [|split; [|split]].
  - eapply ext_equiv;
      [|eapply ext_trans; [eapply ext_trans; [eapply ext_trans;
          [eapply ext_trans; [eapply ext_trans; [apply ext_new|apply ext_new]|exact X1]|exact X2]
          |exact X5]|exact X6]].
    unfold A, eor, enone, one. tauto.
  - intros s x t [H|[H|[H|H]]]; [apply R1 in H|apply R2 in H|..]; rlia.
  - intros w Ww. split.
    + intros P. apply epath_first in P.
      destruct P as [[E1 _]|[(t & [H|[H|[H|H]]] & P)|(x & t & w' & -> & [H|[H|[H|H]]] & P)]];
        try (apply R1 in H); try (apply R2 in H); try rlia.
      * destruct H as (_ & _ & ->). left. apply G1; [assumption|].
        eapply epath_restrict
          with (Q := fun s => s = length n \/ fresh ((n ++ [nstate_empty]) ++ [nstate_empty]) n3 s
                             \/ s = cont); [| |exact P|rlia].
        -- intros s x t Q [H|[H|[H|H]]]; [apply R1 in H|apply R2 in H|..]; rlia.
        -- intros s x t Q [H|[H|[H|H]]]; [assumption|apply R2 in H|..]; rlia.
      * destruct H as (_ & _ & ->). right. apply G2; [assumption|].
        eapply epath_restrict
          with (Q := fun s => s = S (length n) \/ fresh n3 n4 s \/ s = cont); [| |exact P|rlia].
        -- intros s x t Q [H|[H|[H|H]]]; [apply R1 in H|apply R2 in H|..]; rlia.
        -- intros s x t Q [H|[H|[H|H]]]; [apply R1 in H|assumption|..]; rlia.
      * destruct H as (_ & H & _). discriminate.
      * destruct H as (_ & H & _). discriminate.
    + intros [H|H].
      * eapply EP_eps with (t := length n); [right; right; left; unfold one; auto|].
        eapply epath_mono; [|apply G1; eassumption]. intros; left; assumption.
      * eapply EP_eps with (t := S (length n)); [right; right; right; unfold one; auto|].
        eapply epath_mono; [|apply G2; eassumption]. intros; right; left; assumption.
  - intros [N1 N2] s Hs.
    assert (Hs' : s = cur \/ (s = length n \/ fresh ((n ++ [nstate_empty]) ++ [nstate_empty]) n3 s)
                  \/ (s = S (length n) \/ fresh n3 n4 s)) by rlia.
    destruct Hs' as [->|[Hs'|Hs']].
    + destruct (C1 N1 (length n) (or_introl eq_refl)) as (w & Ww & P).
      exists w. split; [assumption|].
      eapply EP_eps with (t := length n); [right; right; left; unfold one; auto|].
      eapply epath_mono; [|exact P]. intros; left; assumption.
    + destruct (C1 N1 s Hs') as (w & Ww & P).
      exists w. split; [assumption|]. eapply epath_mono; [|exact P]. intros; left; assumption.
    + destruct (C2 N2 s Hs') as (w & Ww & P).
      exists w. split; [assumption|]. eapply epath_mono; [|exact P]. intros; right; left; assumption.
Qed.

(* ---- iteration ---- *)
Lemma loop_fwd : forall (A A1 : erel) (Q : nat -> Prop) init rc cont (L1 : list sym -> Prop),
  (forall s x t, Q s -> A s x t -> A1 s x t /\ (Q t \/ t = rc)) ->
  (forall x t, A rc x t -> x = None /\ (t = cont \/ t = init)) ->
  (forall x t, ~ A cont x t) ->
  Q init -> ~ Q cont -> rc <> cont ->
  (forall u, word_ok u -> epath A1 init u rc -> L1 u) ->
  forall s w u, epath A s w u -> u = cont -> word_ok w ->
    (Q s -> exists w1 w2, w = w1 ++ w2 /\ epath A1 s w1 rc /\ Lstar L1 w2) /\
    (s = rc -> Lstar L1 w).
Proof.
  intros A A1 Q init rc cont L1 HQ Hrc Sink Qi NQc Drc HL s w u P.
  induction P as [s|s t u w E P IH|s t u x w E P IH]; intros -> Ww.
  - split; [intros; contradiction|intros; congruence].
  - specialize (IH eq_refl Ww). destruct IH as [IH1 IH2]. split.
    + intros Qs. destruct (HQ _ _ _ Qs E) as [E1 [Qt| ->]].
      * destruct (IH1 Qt) as (w1 & w2 & -> & P1 & S2). exists w1, w2.
        split; [reflexivity|]. split; [|assumption]. eapply EP_eps; eauto.
      * exists [], w. split; [reflexivity|]. split; [apply epath_eps1; assumption|auto].
    + intros ->. destruct (Hrc _ _ E) as [_ [->| ->]].
      * apply epath_sink in P; [|exact Sink]. destruct P as [-> _]. constructor.
      * destruct (IH1 Qi) as (w1 & w2 & -> & P1 & S2).
        apply word_ok_app in Ww. destruct Ww as [Ww1 _].
        constructor; [|assumption]. apply HL; assumption.
  - assert (Ww' : word_ok w) by (inversion Ww; assumption).
    specialize (IH eq_refl Ww'). destruct IH as [IH1 IH2]. split.
    + intros Qs. destruct (HQ _ _ _ Qs E) as [E1 [Qt| ->]].
      * destruct (IH1 Qt) as (w1 & w2 & -> & P1 & S2). exists (x :: w1), w2.
        split; [reflexivity|]. split; [|assumption]. eapply EP_sym; eauto.
      * exists [x], w. split; [reflexivity|]. split; [apply epath_sym1; assumption|auto].
    + intros ->. destruct (Hrc _ _ E) as [X _]. discriminate.
Qed.

Lemma loop_bwd : forall (A : erel) init rc cont (L1 : list sym -> Prop),
  (forall u, word_ok u -> L1 u -> epath A init u rc) ->
  A rc None init -> A rc None cont ->
  forall w, Lstar L1 w -> word_ok w -> epath A rc w cont.
Proof.
  intros A init rc cont L1 HL Ei Ec w S. induction S as [|u v Lu S IH]; intros Ww.
  - apply epath_eps1. assumption.
  - apply word_ok_app in Ww. destruct Ww as [Wu Wv].
    eapply EP_eps; [exact Ei|]. eapply epath_app; [apply HL; assumption|auto].
Qed.

Lemma spec_star : forall (NE1 : Prop) L1 n cur cont n3 n4 n5 n6 n',
  pre n cur cont ->
  spec NE1 L1 ((n ++ [nstate_empty]) ++ [nstate_empty]) (length n) (S (length n)) n3 ->
  add_empty_transition n3 cur cont = Ok n4 ->
  add_empty_transition n4 cur (length n) = Ok n5 ->
  add_empty_transition n5 (S (length n)) cont = Ok n6 ->
  add_empty_transition n6 (S (length n)) (length n) = Ok n' ->
  spec NE1 (Lstar L1) n cur cont n'.
Proof.
  intros NE1 L1 n cur cont n3 n4 n5 n6 n' (Lc & Lk & Dc & W)
         (A1 & X1 & R1 & G1 & C1) H4 H5 H6 H7.
  pose proof (len_new n) as Ln1. pose proof (len_new (n ++ [nstate_empty])) as Ln2.
  pose proof X1 as (Le1 & _).
  destruct (ext_eps _ _ _ _ H4) as [Ln4 X4]; [lia|].
  destruct (ext_eps _ _ _ _ H5) as [Ln5 X5]; [lia|].
  destruct (ext_eps _ _ _ _ H6) as [Ln6 X6]; [lia|].
  destruct (ext_eps _ _ _ _ H7) as [Ln7 X7]; [lia|].
  set (n2 := (n ++ [nstate_empty]) ++ [nstate_empty]) in *.
  set (A := fun s x t => A1 s x t \/ one cur None cont s x t \/ one cur None (length n) s x t
                         \/ one (S (length n)) None cont s x t
                         \/ one (S (length n)) None (length n) s x t).
  assert (Sink : forall x t, ~ A cont x t).
  { intros x t [H|[H|[H|[H|H]]]]; [apply R1 in H|..]; rlia. }
  assert (Fwd : forall w, word_ok w -> epath A (length n) w cont -> Lcat L1 (Lstar L1) w).
  { intros w Ww P.
    destruct (loop_fwd A A1 (fun s => s = length n \/ fresh n2 n3 s) (length n) (S (length n)) cont L1)
      with (8 := P) as [F _]; try rlia; auto.
    - intros s x t Q [H|[H|[H|[H|H]]]]; [|rlia..]. split; [assumption|]. apply R1 in H. rlia.
    - intros x t [H|[H|[H|[H|H]]]]; [apply R1 in H; rlia|..];
        destruct H as (? & -> & ->); (split; [reflexivity|lia]).
    - intros u Wu Pu. apply G1; assumption.
    - destruct F as (w1 & w2 & -> & P1 & S2); [rlia|].
      apply word_ok_app in Ww. destruct Ww as [Ww1 _].
      exists w1, w2. split; [reflexivity|]. split; [|assumption]. apply G1; assumption. }
  assert (Bwd : forall w, word_ok w -> Lstar L1 w -> epath A (S (length n)) w cont).
  { intros w Ww S. eapply loop_bwd with (init := length n) (L1 := L1); eauto.
    - intros u Wu Lu. eapply epath_mono; [|apply G1; eassumption]. intros; left; assumption.
    - right; right; right; right. unfold one; auto.
    - right; right; right; left. unfold one; auto. }
  exists A. split; [|split; [|split]].
  - eapply ext_equiv;
      [|eapply ext_trans; [eapply ext_trans; [eapply ext_trans; [eapply ext_trans;
          [eapply ext_trans; [eapply ext_trans; [apply ext_new|apply ext_new]|exact X1]|exact X4]
          |exact X5]|exact X6]|exact X7]].
    unfold A, eor, enone, one. tauto.
  - intros s x t [H|[H|[H|[H|H]]]]; [apply R1 in H|..]; rlia.
  - intros w Ww. split.
    + intros P. apply epath_first in P.
      destruct P as [[E1 _]|[(t & [H|[H|[H|[H|H]]]] & P)|(x & t & w' & -> & [H|[H|[H|[H|H]]]] & P)]];
        try (apply R1 in H); try rlia;
        try (destruct H as (_ & H & _); discriminate).
      * destruct H as (_ & _ & ->). apply epath_sink in P; [|exact Sink].
        destruct P as [-> _]. constructor.
      * destruct H as (_ & _ & ->). destruct (Fwd w Ww P) as (u & v & -> & Lu & Sv).
        constructor; assumption.
    + intros S. inversion S as [|u v Lu Sv]; subst.
      * apply epath_eps1. right; left. unfold one; auto.
      * apply word_ok_app in Ww. destruct Ww as [Wu Wv].
        eapply EP_eps with (t := length n); [right; right; left; unfold one; auto|].
        eapply epath_app; [|apply Bwd; eassumption].
        eapply epath_mono; [|apply G1; eassumption]. intros; left; assumption.
  - intros N s Hs.
    assert (Hs' : s = cur \/ (s = length n \/ fresh n2 n3 s) \/ s = S (length n)) by rlia.
    destruct Hs' as [->|[Hs'| ->]].
    + exists []. split; [constructor|]. apply epath_eps1. right; left. unfold one; auto.
    + destruct (C1 N s Hs') as (w & Ww & P). exists w. split; [assumption|].
      rewrite <- (app_nil_r w). eapply epath_app.
      * eapply epath_mono; [|exact P]. intros; left; assumption.
      * apply epath_eps1. right; right; right; left. unfold one; auto.
    + exists []. split; [constructor|]. apply epath_eps1. right; right; right; left. unfold one; auto.
Qed.

Lemma spec_plus : forall (NE1 : Prop) L1 n cur cont n3 n4 n5 n',
  pre n cur cont ->
  spec NE1 L1 ((n ++ [nstate_empty]) ++ [nstate_empty]) (length n) (S (length n)) n3 ->
  add_empty_transition n3 cur (length n) = Ok n4 ->
  add_empty_transition n4 (S (length n)) cont = Ok n5 ->
  add_empty_transition n5 (S (length n)) (length n) = Ok n' ->
  spec NE1 (Lcat L1 (Lstar L1)) n cur cont n'.
Proof.
  intros NE1 L1 n cur cont n3 n4 n5 n' (Lc & Lk & Dc & W)
         (A1 & X1 & R1 & G1 & C1) H4 H5 H6.
  pose proof (len_new n) as Ln1. pose proof (len_new (n ++ [nstate_empty])) as Ln2.
  pose proof X1 as (Le1 & _).
  destruct (ext_eps _ _ _ _ H4) as [Ln4 X4]; [lia|].
  destruct (ext_eps _ _ _ _ H5) as [Ln5 X5]; [lia|].
  destruct (ext_eps _ _ _ _ H6) as [Ln6 X6]; [lia|].
  set (n2 := (n ++ [nstate_empty]) ++ [nstate_empty]) in *.
  set (A := fun s x t => A1 s x t \/ one cur None (length n) s x t
                         \/ one (S (length n)) None cont s x t
                         \/ one (S (length n)) None (length n) s x t).
  assert (Sink : forall x t, ~ A cont x t).
  { intros x t [H|[H|[H|H]]]; [apply R1 in H|..]; rlia. }
  assert (Fwd : forall w, word_ok w -> epath A (length n) w cont -> Lcat L1 (Lstar L1) w).
  { intros w Ww P.
    destruct (loop_fwd A A1 (fun s => s = length n \/ fresh n2 n3 s) (length n) (S (length n)) cont L1)
      with (8 := P) as [F _]; try rlia; auto.
    - intros s x t Q [H|[H|[H|H]]]; [|rlia..]. split; [assumption|]. apply R1 in H. rlia.
    - intros x t [H|[H|[H|H]]]; [apply R1 in H; rlia|..];
        destruct H as (? & -> & ->); (split; [reflexivity|lia]).
    - intros u Wu Pu. apply G1; assumption.
    - destruct F as (w1 & w2 & -> & P1 & S2); [rlia|].
      apply word_ok_app in Ww. destruct Ww as [Ww1 _].
      exists w1, w2. split; [reflexivity|]. split; [|assumption]. apply G1; assumption. }
  assert (Bwd : forall w, word_ok w -> Lstar L1 w -> epath A (S (length n)) w cont).
  { intros w Ww S. eapply loop_bwd with (init := length n) (L1 := L1); eauto.
    - intros u Wu Lu. eapply epath_mono; [|apply G1; eassumption]. intros; left; assumption.
    - right; right; right. unfold one; auto.
    - right; right; left. unfold one; auto. }
  exists A. split; [|split; [|split]].
  - eapply ext_equiv;
      [|eapply ext_trans; [eapply ext_trans; [eapply ext_trans;
          [eapply ext_trans; [eapply ext_trans; [apply ext_new|apply ext_new]|exact X1]|exact X4]
          |exact X5]|exact X6]].
    unfold A, eor, enone, one. tauto.
  - intros s x t [H|[H|[H|H]]]; [apply R1 in H|..]; rlia.
  - intros w Ww. split.
    + intros P. apply epath_first in P.
      destruct P as [[E1 _]|[(t & [H|[H|[H|H]]] & P)|(x & t & w' & -> & [H|[H|[H|H]]] & P)]];
        try (apply R1 in H); try rlia;
        try (destruct H as (_ & H & _); discriminate).
      destruct H as (_ & _ & ->). apply Fwd; assumption.
    + intros (u & v & -> & Lu & Sv).
      apply word_ok_app in Ww. destruct Ww as [Wu Wv].
      eapply EP_eps with (t := length n); [right; left; unfold one; auto|].
      eapply epath_app; [|apply Bwd; eassumption].
      eapply epath_mono; [|apply G1; eassumption]. intros; left; assumption.
  - intros N s Hs.
    assert (ToRc : forall s, s = length n \/ fresh n2 n3 s ->
                   exists w, word_ok w /\ epath A s w cont).
    { intros s0 Hs0. destruct (C1 N s0 Hs0) as (w & Ww & P). exists w. split; [assumption|].
      rewrite <- (app_nil_r w). eapply epath_app.
      * eapply epath_mono; [|exact P]. intros; left; assumption.
      * apply epath_eps1. right; right; left. unfold one; auto. }
    assert (Hs' : s = cur \/ (s = length n \/ fresh n2 n3 s) \/ s = S (length n)) by rlia.
    destruct Hs' as [->|[Hs'| ->]].
    + destruct (ToRc (length n) (or_introl eq_refl)) as (w & Ww & P).
      exists w. split; [assumption|].
      eapply EP_eps with (t := length n); [right; left; unfold one; auto|]. exact P.
    + apply ToRc. assumption.
    + exists []. split; [constructor|]. apply epath_eps1. right; right; left. unfold one; auto.
Qed.

(* ------------------------------------------------------------------ *)
(* well-formedness of the leaves; non-emptiness of the classes *)

Fixpoint leaves_wf (benv : builtin_env) (r : regex) : bool :=
  match r with
  | RVar _ => false
  | RString _ => true
  | RCharSet l => forallb cor_ok l
  | RStar a | RPlus a | ROpt a => leaves_wf benv a
  | RCat a b | ROr a b => leaves_wf benv a && leaves_wf benv b
  | RDiff a b => is_class benv a && is_class benv b && ranges_ok a && ranges_ok b
  | _ => true
  end.

Fixpoint classes_nonempty (benv : builtin_env) (r : regex) : Prop :=
  match r with
  | RChar _ | RCharSet _ | RBuiltin _ | RAny | RDiff _ _ =>
      exists c, (c <= CHAR_MAX)%N /\ cmem benv r c = true
  | RString s => Forall (fun c => (c <= CHAR_MAX)%N) s
  | RStar a | RPlus a | ROpt a => classes_nonempty benv a
  | RCat a b | ROr a b => classes_nonempty benv a /\ classes_nonempty benv b
  | RVar _ | REoi => True
  end.

Section Thompson.
Variable benv : builtin_env.
Hypothesis BW : benv_wf benv.

(* ---- reference language, by constructor ---- *)

Lemma lang_star_iff : forall r w, lang benv (RStar r) w <-> Lstar (lang benv r) w.
Proof.
  intros r w. split.
  - intros H. remember (RStar r) as r0 eqn:E. revert E.
    induction H; intros E; try discriminate; injection E as ->.
    + constructor.
    + constructor; auto.
  - intros H. induction H; [apply LStar0|apply LStarS; assumption].
Qed.

Lemma lang_plus_iff : forall r w,
  lang benv (RPlus r) w <-> Lcat (lang benv r) (Lstar (lang benv r)) w.
Proof.
  intros r w. split.
  - intros H. inversion H; subst. exists u, v. rewrite <- lang_star_iff. auto.
  - intros (u & v & -> & H1 & H2). apply LPlus; [assumption|]. apply lang_star_iff. assumption.
Qed.

Lemma lang_opt_iff : forall r w, lang benv (ROpt r) w <-> w = [] \/ lang benv r w.
Proof.
  intros r w. split.
  - intros H. inversion H; subst; auto.
  - intros [->|H]; [apply LOpt0|apply LOpt1; assumption].
Qed.

Lemma lang_cat_iff : forall r1 r2 w,
  lang benv (RCat r1 r2) w <-> Lcat (lang benv r1) (lang benv r2) w.
Proof.
  intros r1 r2 w. split.
  - intros H. inversion H; subst. exists u, v. auto.
  - intros (u & v & -> & H1 & H2). apply LCat; assumption.
Qed.

Lemma lang_or_iff : forall r1 r2 w,
  lang benv (ROr r1 r2) w <-> lang benv r1 w \/ lang benv r2 w.
Proof.
  intros r1 r2 w. split.
  - intros H. inversion H; subst; auto.
  - intros [H|H]; [apply LOrL|apply LOrR]; assumption.
Qed.

Lemma lang_string_iff : forall s w, lang benv (RString s) w <-> w = map Chr s.
Proof.
  intros s w. split.
  - intros H. inversion H; subst. reflexivity.
  - intros ->. constructor.
Qed.

(* ---- leaves ---- *)

Lemma spec_char1 : forall n cur cont c n',
  pre n cur cont -> add_char_transition n cur c cont = Ok n' ->
  spec (c <= CHAR_MAX)%N (fun w => w = [Chr c]) n cur cont n'.
Proof.
  intros n cur cont c n' P H. pose proof P as (Lc & _).
  destruct (ext_char _ _ _ _ _ H Lc) as [Ln X].
  apply spec_leaf with (X := fun x => x = Some (Chr c)); auto.
  - eapply ext_equiv; [|exact X]. cbv beta. tauto.
  - discriminate.
  - intros w _. split.
    + intros ->. eauto.
    + intros (y & E & ->). injection E as ->. reflexivity.
  - intros N. exists (Chr c). auto.
Qed.

Lemma spec_class : forall r (P : N -> Prop) n cur cont n',
  pre n cur cont -> length n' = length n ->
  ext n n' (fun s x t => s = cur /\ exists c, x = Some (Chr c) /\ (t = cont /\ P c)) ->
  (forall c, (c <= CHAR_MAX)%N -> (P c <-> cmem benv r c = true)) ->
  (forall w, lang benv r w <-> exists c, w = [Chr c] /\ cmem benv r c = true) ->
  (classes_nonempty benv r -> exists c, (c <= CHAR_MAX)%N /\ cmem benv r c = true) ->
  spec (classes_nonempty benv r) (lang benv r) n cur cont n'.
Proof.
  intros r P n cur cont n' Pre Ln X HP HL HN.
  apply spec_leaf with (X := fun x => exists c, x = Some (Chr c) /\ P c); auto.
  - eapply ext_equiv; [|exact X]. intros s x t. split.
    + intros (-> & c & -> & -> & Pc). eauto.
    + intros (-> & -> & c & -> & Pc). eauto 6.
  - intros (c & E & _). discriminate.
  - intros w Ww. rewrite HL. split.
    + intros (c & -> & M). exists (Chr c). split; [|reflexivity]. exists c. split; [reflexivity|].
      apply HP; [|assumption]. inversion Ww; assumption.
    + intros (y & (c & E & Pc) & ->). injection E as ->. exists c. split; [reflexivity|].
      apply HP; [|assumption]. inversion Ww; assumption.
  - intros N. destruct (HN N) as (c & Lc & M). exists (Chr c). split; [exact Lc|].
    exists c. split; [reflexivity|]. apply HP; assumption.
Qed.

Lemma add_string_spec : forall s n cur cont n',
  pre n cur cont -> add_string n s cur cont = Ok n' ->
  spec (Forall (fun c => (c <= CHAR_MAX)%N) s) (fun w => w = map Chr s) n cur cont n'.
Proof.
  induction s as [|c rest IH]; intros n cur cont n' Pre H.
  { (* the empty literal: one epsilon edge *)
    cbn [add_string] in H. cbn [map]. eapply spec_eps1; eassumption. }
  destruct rest as [|c2 rest].
  - cbn [add_string] in H. eapply spec_weaken; [| |eapply spec_char1; eassumption].
    + intros F. inversion F; assumption.
    + intros w _. cbn. tauto.
  - change (add_string n (c :: c2 :: rest) cur cont) with
      (do n2 <- add_char_transition (n ++ [nstate_empty]) cur c (length n);
       add_string n2 (c2 :: rest) (length n) cont) in H.
    apply bind_ok in H. destruct H as (n2 & H1 & H2).
    pose proof Pre as (Lc & Lk & Dc & W). pose proof (len_new n) as Ln1.
    assert (Pre1 : pre (n ++ [nstate_empty]) cur (length n)).
    { repeat split; try lia. apply ext_new. exact W. }
    pose proof (spec_char1 _ _ _ _ _ Pre1 H1) as S1.
    destruct (spec_wf _ _ _ _ _ _ Pre1 S1) as [W2 Le2].
    assert (Pre2 : pre n2 (length n) cont) by (repeat split; try lia; assumption).
    assert (S2 := IH n2 (length n) cont n' Pre2 H2).
    eapply spec_weaken; [| |eapply spec_seq; eassumption].
    + intros F. inversion F; subst. auto.
    + intros w _. split.
      * intros (u & v & -> & -> & ->). reflexivity.
      * intros ->. exists [Chr c], (map Chr (c2 :: rest)). auto.
Qed.

Lemma add_charset_ext : forall l n seen cur cont n',
  forallb cor_ok l = true -> cur < length n -> nfa_ranges_wf n ->
  (forall c, In c seen -> edge n cur (Some (Chr c)) cont) ->
  add_charset n l seen cur cont = Ok n' ->
  length n' = length n /\
  ext n n' (fun s x t => s = cur /\ exists c, x = Some (Chr c) /\
                          (t = cont /\ existsb (fun i => cor_mem i c) l = true)).
Proof.
  induction l as [|i l IH]; intros n seen cur cont n' K Lc W Seen H.
  - cbn [add_charset] in H. injection H as <-. split; [reflexivity|].
    eapply ext_equiv; [|apply ext_refl]. unfold enone. cbn [existsb].
    intros s x t. split; [tauto|]. intros (_ & c & _ & _ & X). discriminate.
  - cbn [forallb] in K. apply andb_true_iff in K. destruct K as [Ki Kl].
    destruct i as [c|a b']; cbn [add_charset] in H.
    + destruct (existsb (N.eqb c) seen) eqn:Es.
      * destruct (IH _ _ _ _ _ Kl Lc W Seen H) as [Ln X]. split; [exact Ln|].
        apply existsb_exists in Es. destruct Es as (c0 & I0 & E0). apply N.eqb_eq in E0. subst c0.
        destruct X as (Le & Ca & Wf & Ed). repeat split; auto.
        -- intros E. apply Ed in E. destruct E as [E|(-> & c' & -> & -> & M)]; [auto|].
           right. split; [reflexivity|]. exists c'. cbn [existsb]. rewrite M, orb_true_r. auto.
        -- intros [E|(-> & c' & -> & -> & M)]; apply Ed; [auto|].
           cbn [existsb cor_mem] in M. apply orb_true_iff in M. destruct M as [M|M].
           ++ apply N.eqb_eq in M. subst c'. left. apply Seen. exact I0.
           ++ right. eauto 6.
      * apply bind_ok in H. destruct H as (n1 & H1 & H2).
        destruct (ext_char _ _ _ _ _ H1 Lc) as [Ln1 X1].
        pose proof X1 as (_ & _ & Wf1 & Ed1).
        destruct (IH n1 (c :: seen) cur cont n' Kl) as [Ln X]; auto; try lia.
        { intros c0 [<-|I0]; apply Ed1; [right; auto|left; apply Seen; assumption]. }
        split; [lia|]. eapply ext_equiv; [|eapply ext_trans; [exact X1|exact X]].
        unfold eor. intros s x t. cbn [existsb cor_mem]. split.
        -- intros [(-> & -> & ->)|(-> & c' & -> & -> & M)].
           ++ split; [reflexivity|]. exists c. rewrite N.eqb_refl. auto.
           ++ split; [reflexivity|]. exists c'. rewrite M, orb_true_r. auto.
        -- intros (-> & c' & -> & -> & M). apply orb_true_iff in M. destruct M as [M|M].
           ++ apply N.eqb_eq in M. subst c'. left. auto.
           ++ right. eauto 6.
    + cbn [cor_ok] in Ki. apply N.leb_le in Ki.
      pose proof (ext_range n cur a b' cont Lc W Ki) as X1.
      pose proof X1 as (Le1 & _ & Wf1 & Ed1).
      assert (Ln1 : length (add_range_transition n cur a b' cont) = length n)
        by (unfold add_range_transition; apply upd_length).
      destruct (IH (add_range_transition n cur a b' cont) seen cur cont n' Kl) as [Ln X]; auto; try lia.
      { intros c0 I0. apply Ed1. left. apply Seen. assumption. }
      split; [lia|]. eapply ext_equiv; [|eapply ext_trans; [exact X1|exact X]].
      unfold eor. intros s x t. cbn [existsb cor_mem]. split.
      -- intros [(-> & c' & -> & -> & M)|(-> & c' & -> & -> & M)].
         ++ split; [reflexivity|]. exists c'.
            replace ((a <=? c')%N && (c' <=? b')%N) with true; auto.
            symmetry. apply andb_true_iff. split; apply N.leb_le; lia.
         ++ split; [reflexivity|]. exists c'. rewrite M, orb_true_r. auto.
      -- intros (-> & c' & -> & -> & M). apply orb_true_iff in M. destruct M as [M|M].
         ++ apply andb_true_iff in M. destruct M as [M1 M2]. apply N.leb_le in M1, M2.
            left. split; [reflexivity|]. exists c'. auto.
         ++ right. eauto 6.
Qed.

(* ---- one-step unfoldings of add_re ---- *)
Section Unfold.
Variable b : bindings.

Lemma add_re_builtin : forall fuel nm n cur cont,
  add_re benv fuel b (RBuiltin nm) n cur cont =
  match lookup_builtin nm benv with
  | None => Panic TagUnknownBuiltin
  | Some t => add_range_transitions n cur (pairs_to_rmap t) cont
  end.
Proof. destruct fuel; reflexivity. Qed.

Lemma add_re_var : forall fuel v n cur cont,
  add_re benv fuel b (RVar v) n cur cont =
  match lookup_var v b with
  | None => Panic TagUnboundVar
  | Some r' => match fuel with O => Panic TagVarDepth | S f => add_re benv f b r' n cur cont end
  end.
Proof. destruct fuel; reflexivity. Qed.

Lemma add_re_char : forall fuel c n cur cont,
  add_re benv fuel b (RChar c) n cur cont = add_char_transition n cur c cont.
Proof. destruct fuel; reflexivity. Qed.

Lemma add_re_string : forall fuel s n cur cont,
  add_re benv fuel b (RString s) n cur cont = add_string n s cur cont.
Proof. destruct fuel; reflexivity. Qed.

Lemma add_re_charset : forall fuel l n cur cont,
  add_re benv fuel b (RCharSet l) n cur cont = add_charset n l [] cur cont.
Proof. destruct fuel; reflexivity. Qed.

Lemma add_re_any : forall fuel n cur cont,
  add_re benv fuel b RAny n cur cont = add_any_transition n cur cont.
Proof. destruct fuel; reflexivity. Qed.

Lemma add_re_eoi : forall fuel n cur cont,
  add_re benv fuel b REoi n cur cont = add_eoi_transition n cur cont.
Proof. destruct fuel; reflexivity. Qed.

Lemma add_re_diff : forall fuel r1 r2 n cur cont,
  add_re benv fuel b (RDiff r1 r2) n cur cont =
  do m <- regex_to_range_map benv fuel b (RDiff r1 r2); add_range_transitions n cur m cont.
Proof. destruct fuel; reflexivity. Qed.

Lemma add_re_star : forall fuel r1 n cur cont,
  add_re benv fuel b (RStar r1) n cur cont =
  do n3 <- add_re benv fuel b r1 ((n ++ [nstate_empty]) ++ [nstate_empty]) (length n) (S (length n));
  do n4 <- add_empty_transition n3 cur cont;
  do n5 <- add_empty_transition n4 cur (length n);
  do n6 <- add_empty_transition n5 (S (length n)) cont;
  add_empty_transition n6 (S (length n)) (length n).
Proof. intros. rewrite <- (len_new n). destruct fuel; reflexivity. Qed.

Lemma add_re_plus : forall fuel r1 n cur cont,
  add_re benv fuel b (RPlus r1) n cur cont =
  do n3 <- add_re benv fuel b r1 ((n ++ [nstate_empty]) ++ [nstate_empty]) (length n) (S (length n));
  do n4 <- add_empty_transition n3 cur (length n);
  do n5 <- add_empty_transition n4 (S (length n)) cont;
  add_empty_transition n5 (S (length n)) (length n).
Proof. intros. rewrite <- (len_new n). destruct fuel; reflexivity. Qed.

Lemma add_re_opt : forall fuel r1 n cur cont,
  add_re benv fuel b (ROpt r1) n cur cont =
  do n2 <- add_re benv fuel b r1 (n ++ [nstate_empty]) (length n) cont;
  do n3 <- add_empty_transition n2 cur cont;
  add_empty_transition n3 cur (length n).
Proof. destruct fuel; reflexivity. Qed.

Lemma add_re_cat : forall fuel r1 r2 n cur cont,
  add_re benv fuel b (RCat r1 r2) n cur cont =
  do n2 <- add_re benv fuel b r1 (n ++ [nstate_empty]) cur (length n);
  add_re benv fuel b r2 n2 (length n) cont.
Proof. destruct fuel; reflexivity. Qed.

Lemma add_re_or : forall fuel r1 r2 n cur cont,
  add_re benv fuel b (ROr r1 r2) n cur cont =
  do n3 <- add_re benv fuel b r1 ((n ++ [nstate_empty]) ++ [nstate_empty]) (length n) cont;
  do n4 <- add_re benv fuel b r2 n3 (S (length n)) cont;
  do n5 <- add_empty_transition n4 cur (length n);
  add_empty_transition n5 cur (S (length n)).
Proof. intros. rewrite <- (len_new n). destruct fuel; reflexivity. Qed.

(* ---- the induction ---- *)

Definition add_re_ok (fuel : nat) (r : regex) : Prop :=
  forall r' n cur cont n',
    expand fuel b r = Ok r' -> leaves_wf benv r' = true -> pre n cur cont ->
    add_re benv fuel b r n cur cont = Ok n' ->
    spec (classes_nonempty benv r') (lang benv r') n cur cont n'.

Lemma pre_new : forall n cur cont c', pre n cur cont -> c' = cur \/ c' = cont ->
  pre (n ++ [nstate_empty]) (length n) c' /\ pre (n ++ [nstate_empty]) c' (length n).
Proof.
  intros n cur cont c' (Lc & Lk & Dc & W) H. pose proof (len_new n).
  assert (nfa_ranges_wf (n ++ [nstate_empty])) by (apply ext_new; exact W).
  split; repeat split; auto; lia.
Qed.

Lemma pre_new2 : forall n cur cont, pre n cur cont ->
  pre ((n ++ [nstate_empty]) ++ [nstate_empty]) (length n) (S (length n)) /\
  pre ((n ++ [nstate_empty]) ++ [nstate_empty]) (length n) cont.
Proof.
  intros n cur cont (Lc & Lk & Dc & W).
  pose proof (len_new n). pose proof (len_new (n ++ [nstate_empty])).
  assert (nfa_ranges_wf ((n ++ [nstate_empty]) ++ [nstate_empty]))
    by (apply ext_new, ext_new; exact W).
  split; repeat split; auto; lia.
Qed.

Lemma case_char : forall fuel c, add_re_ok fuel (RChar c).
Proof.
  intros fuel c r' n cur cont n' X K Pre H.
  rewrite expand_leaf in X by exact I. injection X as <-. rewrite add_re_char in H.
  pose proof Pre as (Lc & _). destruct (ext_char _ _ _ _ _ H Lc) as [Ln E].
  apply spec_class with (P := fun c' => c' = c); auto.
  - eapply ext_equiv; [|exact E]. intros s x t. split.
    + intros (-> & -> & ->). eauto 6.
    + intros (-> & c' & -> & -> & ->). auto.
  - intros c' _. cbn [cmem]. rewrite N.eqb_eq. tauto.
  - intros w. cbn [cmem]. split.
    + intros L. inversion L; subst. exists c. rewrite N.eqb_refl. auto.
    + intros (c' & -> & M). apply N.eqb_eq in M. subst. constructor.
Qed.

Lemma case_any : forall fuel, add_re_ok fuel RAny.
Proof.
  intros fuel r' n cur cont n' X K Pre H.
  rewrite expand_leaf in X by exact I. injection X as <-. rewrite add_re_any in H.
  pose proof Pre as (Lc & _). destruct (ext_any _ _ _ _ H Lc) as [Ln E].
  apply spec_class with (P := fun c' => True); auto.
  - eapply ext_equiv; [|exact E]. intros s x t. split.
    + intros (-> & (c & ->) & ->). eauto 6.
    + intros (-> & c' & -> & -> & _). eauto.
  - intros c' Lc'. cbn [cmem]. rewrite N.leb_le. tauto.
  - intros w. cbn [cmem]. split.
    + intros L. inversion L; subst. exists c. rewrite N.leb_le. auto.
    + intros (c' & -> & M). apply N.leb_le in M. constructor. assumption.
Qed.

Lemma case_eoi : forall fuel, add_re_ok fuel REoi.
Proof.
  intros fuel r' n cur cont n' X K Pre H.
  rewrite expand_leaf in X by exact I. injection X as <-. rewrite add_re_eoi in H.
  pose proof Pre as (Lc & _). destruct (ext_eoi _ _ _ _ H Lc) as [Ln E].
  apply spec_leaf with (X := fun x => x = Some Eoi); auto.
  - eapply ext_equiv; [|exact E]. cbv beta. tauto.
  - discriminate.
  - intros w _. split.
    + intros L. inversion L; subst. eauto.
    + intros (y & Ey & ->). injection Ey as ->. constructor.
  - intros _. exists Eoi. cbn. auto.
Qed.

Lemma case_string : forall fuel s, add_re_ok fuel (RString s).
Proof.
  intros fuel s r' n cur cont n' X K Pre H.
  rewrite expand_leaf in X by exact I. injection X as <-. rewrite add_re_string in H.
  cbn [leaves_wf] in K.
  eapply spec_weaken; [| |eapply add_string_spec; eassumption].
  - cbn [classes_nonempty]. tauto.
  - intros w _. rewrite lang_string_iff. tauto.
Qed.

Lemma case_charset : forall fuel l, add_re_ok fuel (RCharSet l).
Proof.
  intros fuel l r' n cur cont n' X K Pre H.
  rewrite expand_leaf in X by exact I. injection X as <-. rewrite add_re_charset in H.
  cbn [leaves_wf] in K. pose proof Pre as (Lc & _ & _ & W).
  destruct (add_charset_ext l n [] cur cont n' K Lc W) as [Ln E]; [intros c []|exact H|].
  apply spec_class with (P := fun c => existsb (fun i => cor_mem i c) l = true); auto.
  - intros c _. cbn [cmem]. tauto.
  - intros w. split.
    + intros L. inversion L; subst. eauto.
    + intros (c & -> & M). constructor. assumption.
Qed.

Lemma case_builtin : forall fuel nm, add_re_ok fuel (RBuiltin nm).
Proof.
  intros fuel nm r' n cur cont n' X K Pre H.
  rewrite expand_leaf in X by exact I. injection X as <-. rewrite add_re_builtin in H.
  destruct (lookup_builtin nm benv) as [t|] eqn:Eb; [|discriminate].
  pose proof Pre as (Lc & _ & _ & W).
  destruct (ext_ranges _ _ _ _ _ H Lc W) as [Ln E]; [apply pairs_to_rmap_wf; eapply BW; eassumption|].
  apply spec_class with (P := fun c => covered (pairs_to_rmap t) c = true); auto.
  - intros c _. cbn [cmem]. rewrite Eb, pairs_to_rmap_covered. tauto.
  - intros w. split.
    + intros L. inversion L; subst. eauto.
    + intros (c & -> & M). constructor. assumption.
Qed.

Lemma case_diff : forall fuel r1 r2, add_re_ok fuel (RDiff r1 r2).
Proof.
  intros fuel r1 r2 r' n cur cont n' X K Pre H.
  rewrite add_re_diff in H. apply bind_ok in H. destruct H as (m & Hm & H).
  destruct (r2m_exact benv fuel b _ m BW Hm) as (r'' & X' & IC & PM).
  rewrite X in X'. injection X' as <-.
  rewrite expand_diff in X. apply bind_ok in X. destruct X as (x & _ & X).
  apply bind_ok in X. destruct X as (y & _ & X). injection X as <-.
  cbn [leaves_wf] in K. rewrite !andb_true_iff in K. destruct K as [[[K1 K2] K3] K4].
  destruct PM as [Wm Cm]; [cbn [ranges_ok]; rewrite K3, K4; reflexivity|].
  pose proof Pre as (Lc & _ & _ & W).
  destruct (ext_ranges _ _ _ _ _ H Lc W Wm) as [Ln E].
  apply spec_class with (P := fun c => covered m c = true); auto.
  - intros c _. rewrite Cm. tauto.
  - intros w. split.
    + intros L. inversion L; subst. eauto.
    + intros (c & -> & M). constructor; assumption.
Qed.

Lemma case_star : forall fuel r1, add_re_ok fuel r1 -> add_re_ok fuel (RStar r1).
Proof.
  intros fuel r1 IH r' n cur cont n' X K Pre H.
  rewrite expand_star in X. apply bind_ok in X. destruct X as (x & X1 & X). injection X as <-.
  rewrite add_re_star in H.
  apply bind_ok in H. destruct H as (n3 & H3 & H).
  apply bind_ok in H. destruct H as (n4 & H4 & H).
  apply bind_ok in H. destruct H as (n5 & H5 & H).
  apply bind_ok in H. destruct H as (n6 & H6 & H7).
  cbn [leaves_wf] in K. destruct (pre_new2 _ _ _ Pre) as [Pre2 _].
  pose proof (IH _ _ _ _ _ X1 K Pre2 H3) as S1.
  eapply spec_weaken; [| |eapply spec_star; eassumption].
  - cbn [classes_nonempty]. tauto.
  - intros w _. symmetry. apply lang_star_iff.
Qed.

Lemma case_plus : forall fuel r1, add_re_ok fuel r1 -> add_re_ok fuel (RPlus r1).
Proof.
  intros fuel r1 IH r' n cur cont n' X K Pre H.
  rewrite expand_plus in X. apply bind_ok in X. destruct X as (x & X1 & X). injection X as <-.
  rewrite add_re_plus in H.
  apply bind_ok in H. destruct H as (n3 & H3 & H).
  apply bind_ok in H. destruct H as (n4 & H4 & H).
  apply bind_ok in H. destruct H as (n5 & H5 & H6).
  cbn [leaves_wf] in K. destruct (pre_new2 _ _ _ Pre) as [Pre2 _].
  pose proof (IH _ _ _ _ _ X1 K Pre2 H3) as S1.
  eapply spec_weaken; [| |eapply spec_plus; eassumption].
  - cbn [classes_nonempty]. tauto.
  - intros w _. symmetry. apply lang_plus_iff.
Qed.

Lemma case_opt : forall fuel r1, add_re_ok fuel r1 -> add_re_ok fuel (ROpt r1).
Proof.
  intros fuel r1 IH r' n cur cont n' X K Pre H.
  rewrite expand_opt in X. apply bind_ok in X. destruct X as (x & X1 & X). injection X as <-.
  rewrite add_re_opt in H.
  apply bind_ok in H. destruct H as (n2 & H2 & H).
  apply bind_ok in H. destruct H as (n3 & H3 & H4).
  cbn [leaves_wf] in K. destruct (pre_new _ _ _ cont Pre (or_intror eq_refl)) as [Pre1 _].
  pose proof (IH _ _ _ _ _ X1 K Pre1 H2) as S1.
  eapply spec_weaken; [| |eapply spec_opt; eassumption].
  - cbn [classes_nonempty]. tauto.
  - intros w _. symmetry. apply lang_opt_iff.
Qed.

Lemma case_cat : forall fuel r1 r2,
  add_re_ok fuel r1 -> add_re_ok fuel r2 -> add_re_ok fuel (RCat r1 r2).
Proof.
  intros fuel r1 r2 IH1 IH2 r' n cur cont n' X K Pre H.
  rewrite expand_cat in X. apply bind_ok in X. destruct X as (x & X1 & X).
  apply bind_ok in X. destruct X as (y & X2 & X). injection X as <-.
  rewrite add_re_cat in H. apply bind_ok in H. destruct H as (n2 & H1 & H2).
  cbn [leaves_wf] in K. apply andb_true_iff in K. destruct K as [K1 K2].
  destruct (pre_new _ _ _ cur Pre (or_introl eq_refl)) as [_ Pre1].
  pose proof (IH1 _ _ _ _ _ X1 K1 Pre1 H1) as S1.
  destruct (spec_wf _ _ _ _ _ _ Pre1 S1) as [W2 Le2].
  pose proof Pre as (Lc & Lk & Dc & W). pose proof (len_new n).
  assert (Pre2 : pre n2 (length n) cont) by (repeat split; auto; lia).
  pose proof (IH2 _ _ _ _ _ X2 K2 Pre2 H2) as S2.
  eapply spec_weaken; [| |eapply spec_seq; eassumption].
  - cbn [classes_nonempty]. tauto.
  - intros w _. symmetry. apply lang_cat_iff.
Qed.

Lemma case_or : forall fuel r1 r2,
  add_re_ok fuel r1 -> add_re_ok fuel r2 -> add_re_ok fuel (ROr r1 r2).
Proof.
  intros fuel r1 r2 IH1 IH2 r' n cur cont n' X K Pre H.
  rewrite expand_or in X. apply bind_ok in X. destruct X as (x & X1 & X).
  apply bind_ok in X. destruct X as (y & X2 & X). injection X as <-.
  rewrite add_re_or in H.
  apply bind_ok in H. destruct H as (n3 & H3 & H).
  apply bind_ok in H. destruct H as (n4 & H4 & H).
  apply bind_ok in H. destruct H as (n5 & H5 & H6).
  cbn [leaves_wf] in K. apply andb_true_iff in K. destruct K as [K1 K2].
  destruct (pre_new2 _ _ _ Pre) as [_ Pre1].
  pose proof (IH1 _ _ _ _ _ X1 K1 Pre1 H3) as S1.
  destruct (spec_wf _ _ _ _ _ _ Pre1 S1) as [W3 Le3].
  pose proof Pre as (Lc & Lk & Dc & W).
  pose proof (len_new n). pose proof (len_new (n ++ [nstate_empty])).
  assert (Pre2 : pre n3 (S (length n)) cont) by (repeat split; auto; lia).
  pose proof (IH2 _ _ _ _ _ X2 K2 Pre2 H4) as S2.
  eapply spec_weaken; [| |eapply spec_or; eassumption].
  - cbn [classes_nonempty]. tauto.
  - intros w _. symmetry. apply lang_or_iff.
Qed.

Lemma case_var0 : forall v, add_re_ok 0 (RVar v).
Proof.
  intros v r' n cur cont n' X K Pre H. rewrite add_re_var in H.
  destruct (lookup_var v b); discriminate.
Qed.

Lemma case_varS : forall f v, (forall r, add_re_ok f r) -> add_re_ok (S f) (RVar v).
Proof.
  intros f v IH r' n cur cont n' X K Pre H. rewrite add_re_var in H. rewrite expand_var in X.
  destruct (lookup_var v b) as [r0|]; [|discriminate].
  eapply IH; eassumption.
Qed.

Theorem add_re_spec : forall fuel r, add_re_ok fuel r.
Proof.
  induction fuel as [|f IHf]; induction r;
    auto using case_char, case_any, case_eoi, case_string, case_charset, case_builtin, case_diff,
               case_star, case_plus, case_opt, case_cat, case_or, case_var0, case_varS.
Qed.

End Unfold.

(* ---- NFA::add_regex ---- *)

Lemma msa_new : forall n a n2,
  make_state_accepting (n ++ [nstate_empty]) (length n) a = Ok n2 ->
  length n2 = S (length n) /\
  n_acc (nget n2 (length n)) = Some a /\
  (forall s, s <> length n -> n_acc (nget n2 s) = n_acc (nget n s)) /\
  (nfa_ranges_wf n -> nfa_ranges_wf n2) /\
  (forall s x t, edge n2 s x t <-> edge n s x t).
Proof.
  intros n a n2 H. unfold make_state_accepting in H. pose proof (len_new n) as Ln1.
  rewrite nget_new, nget_overflow in H by lia. cbn [n_acc nstate_empty] in H. injection H as <-.
  split; [rewrite upd_length; exact Ln1|].
  split; [rewrite nget_upd_same by lia; reflexivity|].
  split; [intros s D; rewrite nget_upd_other by auto; rewrite nget_new; reflexivity|].
  split.
  - intros W s. destruct (Nat.eq_dec (length n) s) as [<-|D].
    + rewrite nget_upd_same by lia. cbn [n_ranges]. rewrite nget_new. apply W.
    + rewrite nget_upd_other by auto. rewrite nget_new. apply W.
  - intros s x t.
    rewrite (upd_edges (n ++ [nstate_empty]) (length n) _ (fun _ _ => False)).
    + unfold edge. rewrite nget_new. tauto.
    + lia.
    + intros [[c|]|] t'; cbn; tauto.
Qed.

Lemma add_regex_struct : forall b n re ctx v n' re',
  nfa_ranges_wf n -> 0 < length n ->
  expand_top b re = Ok re' -> leaves_wf benv re' = true ->
  add_regex benv b n re ctx v = Ok n' ->
  exists A : erel,
    length n + 2 <= length n' /\
    nfa_ranges_wf n' /\
    n_acc (nget n' (length n)) = Some (v, ctx) /\
    (forall s, s <> length n -> n_acc (nget n' s) = n_acc (nget n s)) /\
    (forall s x t, edge n' s x t <->
                   edge n s x t \/ one 0 None (S (length n)) s x t \/ A s x t) /\
    (forall s x t, A s x t ->
       (s = S (length n) \/ length n + 2 <= s < length n') /\
       (t = length n \/ length n + 2 <= t < length n')) /\
    (forall w, word_ok w -> (epath A (S (length n)) w (length n) <-> lang benv re' w)) /\
    (classes_nonempty benv re' ->
     forall s, s = S (length n) \/ length n + 2 <= s < length n' ->
     exists w, word_ok w /\ epath A s w (length n)).
Proof.
  intros b n re ctx v n' re' W L0 X K H.
  unfold add_regex, new_state in H.
  apply bind_ok in H. destruct H as (n2 & H2 & H).
  apply bind_ok in H. destruct H as (n4 & H4 & H).
  destruct (msa_new _ _ _ H2) as (Ln2 & Acc2 & AccO & W2 & Ed2).
  pose proof (len_new n2) as Ln3.
  destruct (ext_eps _ _ _ _ H4) as [Ln4 X4]; [lia|].
  pose proof (ext_trans _ _ _ _ _ (ext_new n2) X4) as X24.
  destruct X24 as (_ & Acc4 & W4 & Ed4).
  assert (Pre : pre n4 (length n2) (length n)).
  { repeat split; try lia. auto. }
  destruct (add_re_spec b (length b) re re' n4 (length n2) (length n) n' X K Pre H)
    as (A & (Le & Acc & Wf & Ed) & R & G & C).
  rewrite Ln2 in *. unfold fresh in *.
  assert (E4 : length n4 = length n + 2) by lia. rewrite E4 in *.
  exists A. split; [lia|]. split; [auto|].
  split; [rewrite Acc, Acc4; exact Acc2|].
  split; [intros s D; rewrite Acc, Acc4; apply AccO; exact D|].
  split; [|split; [exact R|split; [exact G|exact C]]].
  intros s x t. rewrite Ed, Ed4, Ed2. unfold eor, enone, one. tauto.
Qed.

End Thompson.

(* ------------------------------------------------------------------ *)
(* the invariant of the NFAs built by the driver *)

Definition nfa_inv (n : nfa) : Prop :=
  0 < length n /\
  nfa_ranges_wf n /\
  n_acc (nget n 0) = None /\
  (forall s x t, edge n s x t -> t < length n /\ t <> 0) /\
  (forall x t, edge n 0 x t -> x = None) /\
  (forall s x t, n_acc (nget n s) <> None -> ~ edge n s x t).

Theorem nfa_inv_new : nfa_inv nfa_new.
Proof.
  unfold nfa_inv, nfa_new. cbn [length]. split; [lia|].
  assert (E : forall s, nget [nstate_empty] s = nstate_empty).
  { intros [|[|s]]; reflexivity. }
  split; [intros s; rewrite E; reflexivity|].
  split; [reflexivity|].
  assert (E' : forall s x t, ~ edge [nstate_empty] s x t).
  { intros s x t H. unfold edge in H. rewrite E in H. apply st_edge_empty in H. exact H. }
  split; [|split].
  - intros s x t H. apply E' in H. destruct H.
  - intros x t H. apply E' in H. destruct H.
  - intros s x t _. apply E'.
Qed.

Theorem add_regex_correct : forall benv b n re ctx v n' re',
  benv_wf benv -> nfa_inv n ->
  expand_top b re = Ok re' -> leaves_wf benv re' = true ->
  add_regex benv b n re ctx v = Ok n' ->
  nfa_inv n' /\
  let acc := length n in
  n_acc (nget n' acc) = Some (v, ctx) /\
  (forall w, word_ok w -> (npath n' 0 w acc <-> lang benv re' w)) /\
  (forall s w, s < length n -> word_ok w -> (npath n' 0 w s <-> npath n 0 w s)) /\
  (forall s, s < length n -> n_acc (nget n' s) = n_acc (nget n s)) /\
  (forall s, length n < s -> s < length n' -> n_acc (nget n' s) = None).
Proof.
  intros benv b n re ctx v n' re' BW (L0 & W & A0 & Tg & Z & AccE) X K H.
  destruct (add_regex_struct benv BW b n re ctx v n' re' W L0 X K H)
    as (A & Le & W' & Acc & AccO & Ed & R & G & _).
  set (O := fun s => s < length n /\ s <> 0).
  set (New := fun s => s = S (length n) \/ length n + 2 <= s < length n' \/ s = length n).
  assert (HO : forall s x t, O s -> edge n' s x t -> O t /\ edge n s x t).
  { intros s x t Os E. apply Ed in E. destruct E as [E|[E|E]].
    - split; [|exact E]. apply Tg in E. exact E.
    - unfold O, one in *. lia.
    - apply R in E. unfold O in *. lia. }
  assert (HN : forall s x t, New s -> edge n' s x t -> New t /\ A s x t).
  { intros s x t Ns E. apply Ed in E. destruct E as [E|[E|E]].
    - apply edge_lt in E. unfold New in *. lia.
    - unfold New, one in *. lia.
    - split; [|exact E]. apply R in E. unfold New in *. lia. }
  assert (Z' : forall x t, edge n' 0 x t ->
                 x = None /\ ((edge n 0 None t /\ O t) \/ t = S (length n))).
  { intros x t E. apply Ed in E. destruct E as [E|[E|E]].
    - pose proof (Z _ _ E) as ->. split; [reflexivity|]. left. split; [exact E|].
      apply Tg in E. exact E.
    - destruct E as (_ & -> & ->). auto.
    - apply R in E. lia. }
  split; [|split; [exact Acc|split; [|split; [|split]]]].
  - (* invariant *)
    split; [lia|]. split; [exact W'|].
    split; [rewrite AccO by lia; exact A0|].
    split; [|split].
    + intros s x t E. apply Ed in E. destruct E as [E|[E|E]].
      * apply Tg in E. lia.
      * unfold one in E. lia.
      * apply R in E. lia.
    + intros x t E. apply Z' in E. tauto.
    + intros s x t NA E. destruct (Nat.eq_dec s (length n)) as [->|D].
      * apply Ed in E. destruct E as [E|[E|E]].
        -- apply edge_lt in E. lia.
        -- unfold one in E. lia.
        -- apply R in E. lia.
      * rewrite AccO in NA by exact D. apply Ed in E. destruct E as [E|[E|E]].
        -- eapply AccE; eauto.
        -- destruct E as (-> & _). congruence.
        -- apply R in E. rewrite nget_overflow in NA by lia. apply NA. reflexivity.
  - (* the new rule *)
    intros w Ww. rewrite npath_epath. split.
    + intros P. apply epath_first in P.
      destruct P as [[E1 _]|[(t & E & P)|(x & t & w' & -> & E & P)]]; [lia| |].
      * apply Z' in E. destruct E as [_ [[_ Ot]| ->]].
        -- exfalso. assert (Q : O (length n)).
           { eapply epath_closed with (E := edge n') (Q := O); [|exact P|exact Ot].
             intros s0 x0 t0 Q0 E0. apply (HO _ _ _ Q0 E0). }
           unfold O in Q. lia.
        -- apply G; [exact Ww|].
           eapply epath_restrict with (Q := New); [| |exact P|unfold New; lia].
           ++ intros s0 x0 t0 Q0 E0. apply (HN _ _ _ Q0 E0).
           ++ intros s0 x0 t0 Q0 E0. apply (HN _ _ _ Q0 E0).
      * apply Z' in E. destruct E as [E _]. discriminate.
    + intros L. eapply EP_eps with (t := S (length n)).
      * apply Ed. right; left. unfold one; auto.
      * eapply epath_mono; [|apply G; eassumption]. intros s x t E. apply Ed. auto.
  - (* older rules *)
    intros s w Ls Ww. rewrite !npath_epath. split.
    + intros P. apply epath_first in P.
      destruct P as [[<- ->]|[(t & E & P)|(x & t & w' & -> & E & P)]]; [constructor| |].
      * apply Z' in E. destruct E as [_ [[E Ot]| ->]].
        -- eapply EP_eps; [exact E|].
           eapply epath_restrict with (Q := O); [| |exact P|exact Ot].
           ++ intros s0 x0 t0 Q0 E0. apply (HO _ _ _ Q0 E0).
           ++ intros s0 x0 t0 Q0 E0. apply (HO _ _ _ Q0 E0).
        -- exfalso. assert (Q : New s).
           { eapply epath_closed with (E := edge n') (Q := New); [|exact P|unfold New; lia].
             intros s0 x0 t0 Q0 E0. apply (HN _ _ _ Q0 E0). }
           unfold New in Q. lia.
      * apply Z' in E. destruct E as [E _]. discriminate.
    + apply epath_mono. intros s0 x t E. apply Ed. auto.
  - intros s Ls. apply AccO. lia.
  - intros s L1 L2. rewrite AccO by lia. rewrite nget_overflow by lia. reflexivity.
Qed.

(* every state created for the rule lies on a path to the rule's accepting state *)
Theorem add_regex_coaccessible : forall benv b n re ctx v n' re',
  benv_wf benv -> nfa_inv n ->
  expand_top b re = Ok re' -> leaves_wf benv re' = true -> classes_nonempty benv re' ->
  add_regex benv b n re ctx v = Ok n' ->
  forall s, length n <= s < length n' -> exists w, word_ok w /\ npath n' s w (length n).
Proof.
  intros benv b n re ctx v n' re' BW (L0 & W & _) X K NE H s Hs.
  destruct (add_regex_struct benv BW b n re ctx v n' re' W L0 X K H)
    as (A & Le & _ & _ & _ & Ed & _ & _ & C).
  destruct (Nat.eq_dec s (length n)) as [->|D].
  - exists []. split; [constructor|constructor].
  - destruct (C NE s) as (w & Ww & P); [lia|].
    exists w. split; [exact Ww|]. apply npath_epath.
    eapply epath_mono; [|exact P]. intros s0 x t E. apply Ed. auto.
Qed.

(* the syntactic "targets in range" condition of NfaSem follows from the invariant *)
Theorem nfa_inv_targets_ok : forall n, nfa_inv n -> nfa_targets_ok n.
Proof.
  intros n (_ & W & _ & Tg & _) s t Ls H.
  assert (E : exists x, edge n s x t); [|destruct E as (x & E); apply Tg in E; tauto].
  unfold edge. destruct H as [H|[H|[H|[(c & l & E & I)|(r & I & J)]]]].
  - exists None. exact H.
  - exists (Some (Chr 0%N)). cbn. apply n_char_targets_in. auto.
  - exists (Some Eoi). exact H.
  - exists (Some (Chr c)). cbn. apply n_char_targets_in. rewrite E. auto.
  - exists (Some (Chr (r_lo r))). cbn. apply n_char_targets_in. right; left.
    apply rtargets_in. exists r. split; [exact I|]. split; [|exact J].
    pose proof (wf_in_nonempty _ _ _ (W s) I) as Lr.
    unfold in_range. apply andb_true_iff. split; apply N.leb_le; lia.
Qed.

(* closed regexes need no expansion *)
Corollary add_regex_correct_closed : forall benv b n re ctx v n',
  benv_wf benv -> nfa_inv n -> closed re = true -> leaves_wf benv re = true ->
  add_regex benv b n re ctx v = Ok n' ->
  nfa_inv n' /\
  let acc := length n in
  n_acc (nget n' acc) = Some (v, ctx) /\
  (forall w, word_ok w -> (npath n' 0 w acc <-> lang benv re w)) /\
  (forall s w, s < length n -> word_ok w -> (npath n' 0 w s <-> npath n 0 w s)) /\
  (forall s, s < length n -> n_acc (nget n' s) = n_acc (nget n s)) /\
  (forall s, length n < s -> s < length n' -> n_acc (nget n' s) = None).
Proof.
  intros benv b n re ctx v n' BW I C K H.
  eapply add_regex_correct; eauto. unfold expand_top. apply expand_closed. exact C.
Qed.

(* frame: the rule's fragment hangs off state 0 by one empty transition to its initial state
   length n + 1; no other old state gains or loses a transition; the accepting state length n
   has no outgoing transition *)
Theorem add_regex_frame : forall benv b n re ctx v n' re',
  benv_wf benv -> nfa_inv n ->
  expand_top b re = Ok re' -> leaves_wf benv re' = true ->
  add_regex benv b n re ctx v = Ok n' ->
  length n + 2 <= length n' /\
  (forall s x t, s < length n -> s <> 0 -> (edge n' s x t <-> edge n s x t)) /\
  (forall x t, edge n' 0 x t <-> edge n 0 x t \/ (x = None /\ t = S (length n))) /\
  (forall x t, ~ edge n' (length n) x t).
Proof.
  intros benv b n re ctx v n' re' BW (L0 & W & _) X K H.
  destruct (add_regex_struct benv BW b n re ctx v n' re' W L0 X K H)
    as (A & Le & _ & _ & _ & Ed & R & _ & _).
  split; [exact Le|]. split; [|split].
  - intros s x t Ls D. rewrite Ed. split; [|auto].
    intros [E|[E|E]]; [exact E|unfold one in E; lia|apply R in E; lia].
  - intros x t. rewrite Ed. split.
    + intros [E|[E|E]]; [auto|unfold one in E; tauto|apply R in E; lia].
    + intros [E|[-> ->]]; [auto|]. right; left. unfold one; auto.
  - intros x t E. apply Ed in E. destruct E as [E|[E|E]].
    + apply edge_lt in E. lia.
    + unfold one in E. lia.
    + apply R in E. lia.
Qed.

Print Assumptions nfa_inv_new.
Print Assumptions add_regex_correct.
Print Assumptions add_regex_correct_closed.
Print Assumptions add_regex_coaccessible.
Print Assumptions add_regex_frame.
Print Assumptions nfa_inv_targets_ok.
