(* Executable matcher for Spec.lang: Brzozowski derivatives over the symbols Chr c / Eoi.
   Used as the oracle in the correspondence check and in the failing-input search;
   SpecExecProofs.v proves it equal to Spec.lang. *)
From LexVerif Require Import Base CharClass Regex Spec.

Inductive dre :=
| DEmpty | DEps
| DCls (r : regex)          (* one character of the class r *)
| DEoi
| DCat (a b : dre) | DOr (a b : dre) | DStar (a : dre).

Definition cor_eqb (x y : cor) : bool :=
  match x, y with
  | CChar a, CChar b => (a =? b)%N
  | CRange a b, CRange c d => (a =? c)%N && (b =? d)%N
  | _, _ => false
  end.

Fixpoint list_eqb {A} (eqb : A -> A -> bool) (a b : list A) : bool :=
  match a, b with
  | [], [] => true
  | x :: a', y :: b' => eqb x y && list_eqb eqb a' b'
  | _, _ => false
  end.

Fixpoint regex_eqb (x y : regex) : bool :=
  match x, y with
  | RBuiltin a, RBuiltin b => name_eqb a b
  | RVar a, RVar b => name_eqb a b
  | RChar a, RChar b => (a =? b)%N
  | RString a, RString b => list_eqb N.eqb a b
  | RCharSet a, RCharSet b => list_eqb cor_eqb a b
  | RStar a, RStar b | RPlus a, RPlus b | ROpt a, ROpt b => regex_eqb a b
  | RCat a1 a2, RCat b1 b2 | ROr a1 a2, ROr b1 b2 | RDiff a1 a2, RDiff b1 b2 =>
      regex_eqb a1 b1 && regex_eqb a2 b2
  | RAny, RAny | REoi, REoi => true
  | _, _ => false
  end.

Fixpoint dre_eqb (x y : dre) : bool :=
  match x, y with
  | DEmpty, DEmpty | DEps, DEps | DEoi, DEoi => true
  | DCls a, DCls b => regex_eqb a b
  | DCat a1 a2, DCat b1 b2 | DOr a1 a2, DOr b1 b2 => dre_eqb a1 b1 && dre_eqb a2 b2
  | DStar a, DStar b => dre_eqb a b
  | _, _ => false
  end.

(* smart constructors *)
Definition dcat (a b : dre) : dre :=
  match a, b with
  | DEmpty, _ | _, DEmpty => DEmpty
  | DEps, _ => b
  | _, DEps => a
  | _, _ => DCat a b
  end.

Definition dor (a b : dre) : dre :=
  match a, b with
  | DEmpty, _ => b
  | _, DEmpty => a
  | _, _ => if dre_eqb a b then a else DOr a b
  end.

Section Exec.
Variable benv : builtin_env.

Fixpoint of_regex (r : regex) : dre :=
  match r with
  | RBuiltin _ | RChar _ | RCharSet _ | RAny => DCls r
  | RDiff a b => if is_class benv a && is_class benv b then DCls r else DEmpty
  | RVar _ => DEmpty
  | RString s => fold_right (fun c acc => DCat (DCls (RChar c)) acc) DEps s
  | RStar a => DStar (of_regex a)
  | RPlus a => DCat (of_regex a) (DStar (of_regex a))
  | ROpt a => DOr DEps (of_regex a)
  | RCat a b => DCat (of_regex a) (of_regex b)
  | ROr a b => DOr (of_regex a) (of_regex b)
  | REoi => DEoi
  end.

Fixpoint nullable (d : dre) : bool :=
  match d with
  | DEmpty | DCls _ | DEoi => false
  | DEps | DStar _ => true
  | DCat a b => nullable a && nullable b
  | DOr a b => nullable a || nullable b
  end.

Fixpoint deriv (s : sym) (d : dre) : dre :=
  match d with
  | DEmpty | DEps => DEmpty
  | DCls r => match s with Chr c => if cmem benv r c then DEps else DEmpty | Eoi => DEmpty end
  | DEoi => match s with Eoi => DEps | Chr _ => DEmpty end
  | DCat a b =>
      if nullable a then dor (dcat (deriv s a) b) (deriv s b) else dcat (deriv s a) b
  | DOr a b => dor (deriv s a) (deriv s b)
  | DStar a => dcat (deriv s a) (DStar a)
  end.

Definition derivs (w : list sym) (d : dre) : dre := fold_left (fun d s => deriv s d) w d.

Definition dmatch (r : regex) (w : list sym) : bool := nullable (derivs w (of_regex r)).

(* ---- emptiness of a class, decided on the breakpoints of its syntax ---- *)
Fixpoint class_points (r : regex) : list N :=
  match r with
  | RChar a => [a; (a + 1)%N]
  | RCharSet l =>
      flat_map (fun x => match x with CChar a => [a; (a + 1)%N] | CRange a b => [a; (b + 1)%N] end) l
  | RAny => [0%N; (CHAR_MAX + 1)%N]
  | RBuiltin n => match lookup_builtin n benv with Some t => breakpoints t | None => [] end
  | ROr a b | RDiff a b => class_points a ++ class_points b
  | _ => []
  end.

Definition class_nonempty (r : regex) : bool :=
  existsb (fun c => cmem benv r c) (0%N :: class_points r).

(* does d denote a non-empty language / contain a non-empty word ? *)
Fixpoint dnonempty (d : dre) : bool :=
  match d with
  | DEmpty => false
  | DEps | DEoi | DStar _ => true
  | DCls r => class_nonempty r
  | DCat a b => dnonempty a && dnonempty b
  | DOr a b => dnonempty a || dnonempty b
  end.

Fixpoint dhasword (d : dre) : bool :=      (* contains a word of length >= 1 *)
  match d with
  | DEmpty | DEps => false
  | DEoi => true
  | DCls r => class_nonempty r
  | DStar a => dhasword a
  | DCat a b => (dhasword a && dnonempty b) || (dnonempty a && dhasword b)
  | DOr a b => dhasword a || dhasword b
  end.

End Exec.
