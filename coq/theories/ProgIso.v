(* Transfer of the correctness theorems along a renaming of automaton states.

   The real implementation numbers the states of its automata differently from the model for some
   definitions (hash-map iteration order).  The program P' built from the implementation's own
   dumped simplified DFA is then isomorphic, not equal, to the model's program P = c_program c.
   This file defines program isomorphism [prog_iso f P P'] (a renaming [f] of the states of the
   simplified DFA, and one renaming per right-context DFA), proves that the scanner facts
   [scan_ok] are transported along it (scan_ok_iso), gives a boolean checker [prog_iso_b] with its
   soundness, and concludes that the interpreter run on P' (impl_program_correct) and the code
   generated for P' (impl_generated_code_correct) produce the reference stream.  No axioms. *)
From Coq Require Import List NArith Bool Arith Lia.
From LexVerif Require Import Base CharClass RangeMap RangeMapProofs CharClassProofs Regex Spec
     SpecExec SpecExecProofs LexSpec Nfa ClassAlgProofs Dfa NfaToDfa NfaSem Codegen
     BacktrackProofs LookupProofs ThompsonProofs SubsetProofs ClosedChecker RulesetSem
     Driver DriverProofs SpecDef Runtime ScanIface RulesetSemProofs ScanOkProofs RuntimeProofs
     NfaToDfaProofs EndToEnd EndToEndModel GenCode GenCodeProofs GenCodeChecks.
Import ListNotations.
Open Scope bool_scope.

(* ------------------------------------------------------------------ *)
(* 1. renaming of transitions and states                               *)
(* ------------------------------------------------------------------ *)

Definition ren_trans (f : nat -> nat) (t : trans) : trans :=
  match t with TGoto n => TGoto (f n) | TAccept a => TAccept a end.

(* st' is st with its transition targets renamed; accepting list and backtrack flag equal.
   d_init and d_preds are NOT compared: scan_ok, Runtime and GenCode never look at them *)
Definition state_iso (f : nat -> nat) (st st' : dstate trans) : Prop :=
  d_chars st' = map (fun p => (fst p, ren_trans f (snd p))) (d_chars st) /\
  d_ranges st' = rmap_map (ren_trans f) (d_ranges st) /\
  d_any st' = option_map (ren_trans f) (d_any st) /\
  d_eoi st' = option_map (ren_trans f) (d_eoi st) /\
  d_acc st' = d_acc st /\ d_bt st' = d_bt st.

(* f is injective on [0, n) *)
Definition inj_on (n : nat) (f : nat -> nat) : Prop :=
  forall a b, a < n -> b < n -> f a = f b -> a = b.

Definition trans_lt (n : nat) (t : trans) : Prop :=
  match t with TGoto s => s < n | TAccept _ => True end.

(* the targets of the character, range and `_` transitions of st are < n *)
Definition targets_lt (n : nat) (st : dstate trans) : Prop :=
  (forall p, In p (d_chars st) -> trans_lt n (snd p)) /\
  (forall r, In r (d_ranges st) -> trans_lt n (r_val r)) /\
  (forall t, d_any st = Some t -> trans_lt n t).

(* ------------------------------------------------------------------ *)
(* 2. character lookup under renaming                                  *)
(* ------------------------------------------------------------------ *)

Section Lookup.
Variable f : nat -> nat.
Variable n : nat.
Hypothesis Hinj : inj_on n f.

Definition renk {A} (g : nat * A) : nat * A := (f (fst g), snd g).

Definition keys_lt {A} (acc : list (nat * A)) : Prop := Forall (fun g => fst g < n) acc.

Lemma assoc_nat_ren {A} (acc : list (nat * A)) t :
  t < n -> keys_lt acc -> assoc_nat (f t) (map renk acc) = assoc_nat t acc.
Proof.
  intros Ht K. induction acc as [|[k v] acc IH]; [reflexivity|].
  inversion K as [|? ? Hk K']; subst. cbn [fst] in Hk.
  cbn [map renk fst snd assoc_nat]. unfold renk at 1. cbn [fst snd assoc_nat].
  destruct (Nat.eqb_spec t k) as [->|Hne].
  - rewrite Nat.eqb_refl. reflexivity.
  - destruct (Nat.eqb_spec (f t) (f k)) as [E|_].
    + exfalso. apply Hne. apply Hinj; assumption.
    + apply IH. exact K'.
Qed.

Lemma assoc_nat_set_ren {A} (acc : list (nat * A)) t v :
  t < n -> keys_lt acc ->
  assoc_nat_set (f t) v (map renk acc) = map renk (assoc_nat_set t v acc).
Proof.
  intros Ht K. induction acc as [|[k w] acc IH]; [reflexivity|].
  inversion K as [|? ? Hk K']; subst. cbn [fst] in Hk.
  cbn [map]. unfold renk at 1. cbn [fst snd assoc_nat_set].
  destruct (Nat.eqb_spec t k) as [->|Hne].
  - rewrite Nat.eqb_refl. reflexivity.
  - destruct (Nat.eqb_spec (f t) (f k)) as [E|_].
    + exfalso. apply Hne. apply Hinj; assumption.
    + cbn [map]. unfold renk at 2. cbn [fst snd]. f_equal. apply IH. exact K'.
Qed.

Lemma assoc_nat_set_keys {A} (acc : list (nat * A)) t v :
  t < n -> keys_lt acc -> keys_lt (assoc_nat_set t v acc).
Proof.
  intros Ht K. induction acc as [|[k w] acc IH].
  - constructor; [exact Ht|constructor].
  - inversion K as [|? ? Hk K']; subst. cbn [assoc_nat_set].
    destruct (t =? k).
    + constructor; [exact Ht|exact K'].
    + constructor; [exact Hk|apply IH; exact K'].
Qed.

(* one step of the fold of group_ranges *)
Definition gr_step (acc : list (nat * pairs)) (r : range trans) : list (nat * pairs) :=
  match range_chars (r_lo r) (r_hi r), r_val r with
  | Some p, TGoto t =>
      match assoc_nat t acc with
      | Some l => assoc_nat_set t (l ++ [p]) acc
      | None => acc ++ [(t, [p])]
      end
  | _, _ => acc
  end.

Lemma group_ranges_fold rs : group_ranges rs = fold_left gr_step rs [].
Proof. reflexivity. Qed.

Lemma gr_step_ren acc r :
  keys_lt acc -> trans_lt n (r_val r) ->
  gr_step (map renk acc) (mkRange (r_lo r) (r_hi r) (ren_trans f (r_val r))) = map renk (gr_step acc r)
  /\ keys_lt (gr_step acc r).
Proof.
  intros K Ht. unfold gr_step. cbn [r_lo r_hi r_val].
  destruct (range_chars (r_lo r) (r_hi r)) as [p|]; [|split; [reflexivity|exact K]].
  destruct (r_val r) as [t|a]; cbn [ren_trans]; [|split; [reflexivity|exact K]].
  cbn [trans_lt] in Ht. rewrite assoc_nat_ren by assumption.
  destruct (assoc_nat t acc) as [l|].
  - split; [apply assoc_nat_set_ren; assumption|apply assoc_nat_set_keys; assumption].
  - split; [rewrite map_app; reflexivity|].
    apply Forall_app. split; [exact K|]. constructor; [exact Ht|constructor].
Qed.

Lemma gr_fold_ren rs : forall acc,
  keys_lt acc -> (forall r, In r rs -> trans_lt n (r_val r)) ->
  fold_left gr_step (rmap_map (ren_trans f) rs) (map renk acc) = map renk (fold_left gr_step rs acc).
Proof.
  induction rs as [|r rs IH]; intros acc K Ht; [reflexivity|].
  unfold rmap_map. cbn [map fold_left]. fold (rmap_map (ren_trans f) rs).
  destruct (gr_step_ren acc r K (Ht r (or_introl eq_refl))) as [E K'].
  rewrite E. apply IH; [exact K'|]. intros r' Hr'. apply Ht. right. exact Hr'.
Qed.

Lemma group_ranges_ren rs :
  (forall r, In r rs -> trans_lt n (r_val r)) ->
  group_ranges (rmap_map (ren_trans f) rs) = map renk (group_ranges rs).
Proof.
  intros Ht. rewrite !group_ranges_fold.
  exact (gr_fold_ren rs [] (Forall_nil _) Ht).
Qed.

Lemma accept_ranges_ren rs : accept_ranges (rmap_map (ren_trans f) rs) = accept_ranges rs.
Proof.
  unfold accept_ranges, rmap_map. induction rs as [|r rs IH]; [reflexivity|].
  cbn [map flat_map r_lo r_hi r_val]. rewrite IH.
  destruct (range_chars (r_lo r) (r_hi r)); [|reflexivity].
  destruct (r_val r); reflexivity.
Qed.

Lemma find_member_ren mg c (l : list (nat * pairs)) :
  find (fun g => compiled_member mg (snd g) c) (map renk l) =
  option_map renk (find (fun g => compiled_member mg (snd g) c) l).
Proof.
  induction l as [|g l IH]; [reflexivity|]. cbn [map find]. unfold renk at 1. cbn [snd].
  destruct (compiled_member mg (snd g) c); [reflexivity|exact IH].
Qed.

Lemma find_range_trans_ren mg rs c :
  (forall r, In r rs -> trans_lt n (r_val r)) ->
  find_range_trans mg (rmap_map (ren_trans f) rs) c = option_map (ren_trans f) (find_range_trans mg rs c).
Proof.
  intros Ht. unfold find_range_trans. rewrite accept_ranges_ren.
  destruct (find (fun g => guard_chain (fst g) c) (accept_ranges rs)); [reflexivity|].
  rewrite group_ranges_ren by exact Ht. rewrite find_member_ren.
  destruct (find (fun g => compiled_member mg (snd g) c) (group_ranges rs)); reflexivity.
Qed.

Lemma lookup_char_iso mg st st' c :
  state_iso f st st' -> (forall r, In r (d_ranges st) -> trans_lt n (r_val r)) ->
  lookup_char mg st' c = option_map (ren_trans f) (lookup_char mg st c).
Proof.
  intros (Hc & Hr & _) Ht. unfold lookup_char. rewrite Hc, Hr, so_assoc_N_map.
  destruct (assoc_N c (d_chars st)); [reflexivity|].
  apply find_range_trans_ren. exact Ht.
Qed.

Lemma trans_of_iso P P' st st' c :
  p_max_guard P' = p_max_guard P ->
  state_iso f st st' -> (forall r, In r (d_ranges st) -> trans_lt n (r_val r)) ->
  trans_of P' st' c = option_map (ren_trans f) (trans_of P st c).
Proof.
  intros Hmg Hiso Ht. unfold trans_of. rewrite Hmg, (lookup_char_iso _ st st' c Hiso Ht).
  destruct (lookup_char (p_max_guard P) st c); [reflexivity|].
  destruct Hiso as (_ & _ & Ha & _). exact Ha.
Qed.

End Lookup.

(* the targets found by the lookups are among the targets of the state *)
Lemma gr_fold_keys n rs : forall acc,
  keys_lt n acc -> (forall r, In r rs -> trans_lt n (r_val r)) -> keys_lt n (fold_left gr_step rs acc).
Proof.
  induction rs as [|r rs IH]; intros acc K Ht; [exact K|].
  cbn [fold_left]. apply IH; [|intros r' Hr'; apply Ht; right; exact Hr'].
  pose proof (Ht r (or_introl eq_refl)) as Hr.
  unfold gr_step. destruct (range_chars (r_lo r) (r_hi r)) as [p|]; [|exact K].
  destruct (r_val r) as [t|a]; [|exact K]. cbn [trans_lt] in Hr.
  destruct (assoc_nat t acc) as [l|].
  - apply assoc_nat_set_keys; assumption.
  - apply Forall_app. split; [exact K|]. constructor; [exact Hr|constructor].
Qed.

Lemma lookup_char_lt n mg st c t :
  targets_lt n st -> lookup_char mg st c = Some t -> trans_lt n t.
Proof.
  intros (Hc & Hr & _) H. unfold lookup_char in H.
  destruct (assoc_N c (d_chars st)) as [t0|] eqn:Ea.
  - inversion H; subst. exact (Hc _ (so_assoc_N_in _ _ _ Ea)).
  - unfold find_range_trans in H.
    destruct (find (fun g => guard_chain (fst g) c) (accept_ranges (d_ranges st))).
    + inversion H; subst. exact I.
    + destruct (find (fun g => compiled_member mg (snd g) c) (group_ranges (d_ranges st))) as [g|] eqn:Ef;
        [|discriminate].
      inversion H; subst. cbn [trans_lt]. apply find_some in Ef. destruct Ef as [Hin _].
      pose proof (gr_fold_keys n (d_ranges st) [] (Forall_nil _) Hr) as K.
      rewrite <- group_ranges_fold in K. unfold keys_lt in K. rewrite Forall_forall in K.
      exact (K g Hin).
Qed.

Lemma trans_of_lt n P st c t :
  targets_lt n st -> trans_of P st c = Some t -> trans_lt n t.
Proof.
  intros Ht H. unfold trans_of in H.
  destruct (lookup_char (p_max_guard P) st c) as [t0|] eqn:El.
  - inversion H; subst. exact (lookup_char_lt n _ st c t Ht El).
  - destruct Ht as (_ & _ & Ha). exact (Ha t H).
Qed.

(* ------------------------------------------------------------------ *)
(* 3. right-context automata                                           *)
(* ------------------------------------------------------------------ *)

Definition ctx_state_iso (g : nat -> nat) (st st' : dstate nat) : Prop :=
  d_chars st' = map (fun p => (fst p, g (snd p))) (d_chars st) /\
  d_ranges st' = rmap_map g (d_ranges st) /\
  d_any st' = option_map g (d_any st) /\
  d_eoi st' = option_map g (d_eoi st) /\
  is_accepting st' = is_accepting st.

Definition ctx_targets_lt (n : nat) (st : dstate nat) : Prop :=
  (forall p, In p (d_chars st) -> snd p < n) /\
  (forall r, In r (d_ranges st) -> r_val r < n) /\
  (forall t, d_any st = Some t -> t < n) /\
  (forall t, d_eoi st = Some t -> t < n).

(* g renames the states of d into those of d'. Every target is a state, so that the clamp
   [Nat.min state (length d - 1)] of ctx_run is the identity on both sides. *)
Record ctx_iso (g : nat -> nat) (d d' : dfa nat) : Prop := {
  ci_len : length d' = length d;
  ci_inj : inj_on (length d) g;
  ci_range : forall s, s < length d -> g s < length d;
  ci_zero : g 0 = 0;
  ci_targets : forall s, s < length d -> ctx_targets_lt (length d) (dget d s);
  ci_state : forall s, s < length d -> ctx_state_iso g (dget d s) (dget d' (g s))
}.

Definition cx_step (acc : list (nat * pairs)) (r : range nat) : list (nat * pairs) :=
  match range_chars (r_lo r) (r_hi r) with
  | None => acc
  | Some p =>
      match assoc_nat (r_val r) acc with
      | Some l => assoc_nat_set (r_val r) (l ++ [p]) acc
      | None => acc ++ [(r_val r, [p])]
      end
  end.

Lemma ctx_lookup_char_fold mg st c :
  ctx_lookup_char mg st c =
  match assoc_N c (d_chars st) with
  | Some t => Some t
  | None => match find (fun g => compiled_member mg (snd g) c) (fold_left cx_step (d_ranges st) []) with
            | Some g => Some (fst g)
            | None => d_any st
            end
  end.
Proof. reflexivity. Qed.

Section Ctx.
Variable g : nat -> nat.
Variable n : nat.
Hypothesis Hinj : inj_on n g.

Lemma cx_step_ren acc r :
  keys_lt n acc -> r_val r < n ->
  cx_step (map (renk g) acc) (mkRange (r_lo r) (r_hi r) (g (r_val r))) = map (renk g) (cx_step acc r)
  /\ keys_lt n (cx_step acc r).
Proof.
  intros K Ht. unfold cx_step. cbn [r_lo r_hi r_val].
  destruct (range_chars (r_lo r) (r_hi r)) as [p|]; [|split; [reflexivity|exact K]].
  rewrite (assoc_nat_ren g n Hinj) by assumption.
  destruct (assoc_nat (r_val r) acc) as [l|].
  - split; [apply (assoc_nat_set_ren g n Hinj); assumption|apply assoc_nat_set_keys; assumption].
  - split; [rewrite map_app; reflexivity|].
    apply Forall_app. split; [exact K|]. constructor; [exact Ht|constructor].
Qed.

Lemma cx_fold_ren rs : forall acc,
  keys_lt n acc -> (forall r, In r rs -> r_val r < n) ->
  fold_left cx_step (rmap_map g rs) (map (renk g) acc) = map (renk g) (fold_left cx_step rs acc)
  /\ keys_lt n (fold_left cx_step rs acc).
Proof.
  induction rs as [|r rs IH]; intros acc K Ht; [split; [reflexivity|exact K]|].
  unfold rmap_map. cbn [map fold_left]. fold (rmap_map g rs).
  destruct (cx_step_ren acc r K (Ht r (or_introl eq_refl))) as [E K'].
  rewrite E. apply IH; [exact K'|]. intros r' Hr'. apply Ht. right. exact Hr'.
Qed.

Lemma ctx_lookup_char_iso mg st st' c :
  ctx_state_iso g st st' -> (forall r, In r (d_ranges st) -> r_val r < n) ->
  ctx_lookup_char mg st' c = option_map g (ctx_lookup_char mg st c).
Proof.
  intros (Hc & Hr & Ha & _) Ht. rewrite !ctx_lookup_char_fold. rewrite Hc, Hr, so_assoc_N_map.
  destruct (assoc_N c (d_chars st)); [reflexivity|].
  destruct (cx_fold_ren (d_ranges st) [] (Forall_nil _) Ht) as [E _]. cbn [map] in E.
  rewrite E, find_member_ren.
  destruct (find (fun g0 => compiled_member mg (snd g0) c) (fold_left cx_step (d_ranges st) []));
    [reflexivity|exact Ha].
Qed.

Lemma ctx_lookup_char_lt mg st c t :
  ctx_targets_lt n st -> ctx_lookup_char mg st c = Some t -> t < n.
Proof.
  intros (Hc & Hr & Ha & _) H. rewrite ctx_lookup_char_fold in H.
  destruct (assoc_N c (d_chars st)) as [t0|] eqn:Ea.
  - inversion H; subst. exact (Hc _ (so_assoc_N_in _ _ _ Ea)).
  - destruct (find (fun g0 => compiled_member mg (snd g0) c) (fold_left cx_step (d_ranges st) []))
      as [g0|] eqn:Ef.
    + inversion H; subst. apply find_some in Ef. destruct Ef as [Hin _].
      destruct (cx_fold_ren (d_ranges st) [] (Forall_nil _) Hr) as [_ K].
      unfold keys_lt in K. rewrite Forall_forall in K. exact (K g0 Hin).
    + exact (Ha t H).
Qed.

End Ctx.

Section CtxRun.
Variable g : nat -> nat.
Variables d d' : dfa nat.
Hypothesis CI : ctx_iso g d d'.

Lemma ctx_clamp s : s < length d -> Nat.min s (length d - 1) = s.
Proof. intros H. apply Nat.min_l. lia. Qed.

Lemma ctx_clamp' s : s < length d -> Nat.min (g s) (length d' - 1) = g s.
Proof.
  intros H. pose proof (ci_range g d d' CI s H). rewrite (ci_len g d d' CI). apply Nat.min_l. lia.
Qed.

Lemma ctx_eoi_chain_iso : forall fuel s, s < length d ->
  ctx_eoi_chain fuel d' (g s) = ctx_eoi_chain fuel d s.
Proof.
  induction fuel as [|fuel IH]; intros s Hs;
    destruct (ci_state g d d' CI s Hs) as (_ & _ & _ & He & Hacc);
    cbn [ctx_eoi_chain]; rewrite (ctx_clamp s Hs), (ctx_clamp' s Hs), Hacc.
  - reflexivity.
  - destruct (is_accepting (dget d s)); [reflexivity|]. rewrite He.
    destruct (d_eoi (dget d s)) as [t|] eqn:Et; [|reflexivity]. cbn [option_map].
    apply IH. destruct (ci_targets g d d' CI s Hs) as (_ & _ & _ & H4). exact (H4 t Et).
Qed.

Lemma ctx_run_iso mg : forall input s, s < length d ->
  ctx_run mg d' (g s) input = ctx_run mg d s input.
Proof.
  induction input as [|c rest IH]; intros s Hs;
    pose proof (ci_state g d d' CI s Hs) as Hst; pose proof Hst as (_ & _ & _ & _ & Hacc);
    cbn [ctx_run]; rewrite (ctx_clamp s Hs), (ctx_clamp' s Hs), Hacc.
  - destruct (is_accepting (dget d s)); [reflexivity|].
    rewrite (ci_len g d d' CI). apply ctx_eoi_chain_iso. exact Hs.
  - destruct (is_accepting (dget d s)); [reflexivity|].
    pose proof (ci_targets g d d' CI s Hs) as Ht.
    rewrite (ctx_lookup_char_iso g (length d) (ci_inj g d d' CI) mg _ _ c Hst (proj1 (proj2 Ht))).
    destruct (ctx_lookup_char mg (dget d s) c) as [t|] eqn:El; [|reflexivity]. cbn [option_map].
    apply IH. exact (ctx_lookup_char_lt g (length d) (ci_inj g d d' CI) mg _ c t Ht El).
Qed.

Lemma ctx_run_iso0 mg input : ctx_run mg d' 0 input = ctx_run mg d 0 input.
Proof.
  destruct (Nat.eq_dec (length d) 0) as [E|E].
  - pose proof (ci_len g d d' CI) as E'. rewrite E in E'.
    apply length_zero_iff_nil in E. apply length_zero_iff_nil in E'. subst. reflexivity.
  - rewrite <- (ci_zero g d d' CI) at 1. apply ctx_run_iso. lia.
Qed.

End CtxRun.

Lemma ctxs_run_iso mg input cs cs' :
  Forall2 (fun d d' => exists g, ctx_iso g d d') cs cs' ->
  forall i, ctx_run mg (nth i cs' []) 0 input = ctx_run mg (nth i cs []) 0 input.
Proof.
  induction 1 as [|d d' cs cs' (g & CI) _ IH]; intros i.
  - destruct i; reflexivity.
  - destruct i as [|i]; cbn [nth]; [exact (ctx_run_iso0 g d d' CI mg input)|apply IH].
Qed.

(* ------------------------------------------------------------------ *)
(* 4. program isomorphism                                              *)
(* ------------------------------------------------------------------ *)

Record prog_iso (f : nat -> nat) (P P' : program) : Prop := {
  pi_len : length (p_states P') = length (p_states P);
  pi_inj : inj_on (length (p_states P)) f;
  pi_range : forall s, s < length (p_states P) -> f s < length (p_states P);
  pi_zero : f 0 = 0;
  (* character, range and `_` transitions of P lead to states of P *)
  pi_targets : forall s, s < length (p_states P) ->
      targets_lt (length (p_states P)) (dget (p_states P) s);
  pi_state : forall s, s < length (p_states P) ->
      state_iso f (dget (p_states P) s) (dget (p_states P') (f s));
  pi_inlined : forall s, s < length (p_states P) ->
      set_mem (f s) (p_inlined P') = set_mem s (p_inlined P);
  pi_dispatch : forall s, s < length (p_states P) ->
      arm_lookup (p_arms P) (renumber (p_inlined P) s) = Some s ->
      arm_lookup (p_arms P') (renumber (p_inlined P') (f s)) = Some (f s);
  pi_arm0 : arm_lookup (p_arms P') 0 = Some 0;
  (* switch tables: entry by entry, the values stored into __state select corresponding arms *)
  pi_switch : Forall2 (fun e e' : name * nat =>
                         forall s, arm_lookup (p_arms P) (snd e) = Some s ->
                                   arm_lookup (p_arms P') (snd e') = Some (f s))
                      (p_switch P) (p_switch P');
  pi_mg : p_max_guard P' = p_max_guard P;
  pi_ctxs : Forall2 (fun d d' => exists g, ctx_iso g d d') (p_ctxs P) (p_ctxs P')
}.

(* ------------------------------------------------------------------ *)
(* 5. the scanner facts are transported                                *)
(* ------------------------------------------------------------------ *)

Section Transfer.
Variable benv : builtin_env.
Variables P P' : program.
Variable rss : list (list crule).
Variable cidx : nat -> option nat.
Variable entry : nat -> nat.
Variable At : nat -> list N -> nat -> Prop.
Variable f : nat -> nat.

Hypothesis PI : prog_iso f P P'.
Hypothesis HAt : forall k p s, At k p s -> s < length (p_states P).
Hypothesis SO : scan_ok benv P rss cidx entry At.

Local Notation NS := (length (p_states P)).
Local Notation stof s := (dget (p_states P) s).
Local Notation stof' s := (dget (p_states P') s).

Definition entry' (k : nat) : nat := f (entry k).
Definition At' (k : nat) (p : list N) (s' : nat) : Prop :=
  exists s, At k p s /\ s < NS /\ s' = f s.

Lemma iso_st s : s < NS -> state_iso f (stof s) (stof' (f s)).
Proof. exact (pi_state f P P' PI s). Qed.

Lemma iso_rt s : s < NS -> forall r, In r (d_ranges (stof s)) -> trans_lt NS (r_val r).
Proof. intros Hs. exact (proj1 (proj2 (pi_targets f P P' PI s Hs))). Qed.

Lemma iso_lookup s c : s < NS ->
  lookup_char (p_max_guard P') (stof' (f s)) c =
  option_map (ren_trans f) (lookup_char (p_max_guard P) (stof s) c).
Proof.
  intros Hs. rewrite (pi_mg f P P' PI).
  exact (lookup_char_iso f NS (pi_inj f P P' PI) _ _ _ c (iso_st s Hs) (iso_rt s Hs)).
Qed.

Lemma iso_trans_of s c : s < NS ->
  trans_of P' (stof' (f s)) c = option_map (ren_trans f) (trans_of P (stof s) c).
Proof.
  intros Hs.
  exact (trans_of_iso f NS (pi_inj f P P' PI) P P' _ _ c (pi_mg f P P' PI) (iso_st s Hs) (iso_rt s Hs)).
Qed.

Lemma iso_entry_lt k : k < length rss -> entry k < NS.
Proof. intros Hk. exact (HAt k [] (entry k) (so_start _ _ _ _ _ _ SO k Hk)). Qed.

Lemma iso_f_zero s : s < NS -> f s = 0 -> s = 0.
Proof.
  intros Hs E. apply (pi_inj f P P' PI); [exact Hs|lia|]. rewrite (pi_zero f P P' PI). exact E.
Qed.

Lemma iso_so_entry0 : entry' 0 = 0.
Proof. unfold entry'. rewrite (so_entry0 _ _ _ _ _ _ SO). exact (pi_zero f P P' PI). Qed.

Lemma iso_so_entry_inj0 k : k < length rss -> entry' k = 0 -> k = 0.
Proof.
  intros Hk E. apply (so_entry_inj0 _ _ _ _ _ _ SO k Hk).
  exact (iso_f_zero _ (iso_entry_lt k Hk) E).
Qed.

Lemma iso_so_start k : k < length rss -> At' k [] (entry' k).
Proof.
  intros Hk. exists (entry k). split; [exact (so_start _ _ _ _ _ _ SO k Hk)|].
  split; [exact (iso_entry_lt k Hk)|reflexivity].
Qed.

Lemma iso_so_start0 : At' 0 [] (entry' 0).
Proof.
  pose proof (so_start0 _ _ _ _ _ _ SO) as H0.
  exists (entry 0). split; [exact H0|]. split; [exact (HAt _ _ _ H0)|reflexivity].
Qed.

Lemma iso_so_switch k : k < length (p_switch P') ->
  k < length rss /\
  exists nm v, nth_error (p_switch P') k = Some (nm, v) /\
               arm_lookup (p_arms P') v = Some (entry' k).
Proof.
  intros Hk. pose proof (pi_switch f P P' PI) as F2.
  rewrite <- (e2e_Forall2_length _ _ _ F2) in Hk.
  destruct (so_switch _ _ _ _ _ _ SO k Hk) as (Hlt & nm & v & Hn & Ha).
  split; [exact Hlt|].
  destruct (e2e_Forall2_nth_error _ _ _ F2 k (nm, v) Hn) as ([nm' v'] & Hn' & R).
  exists nm', v'. split; [exact Hn'|]. exact (R (entry k) Ha).
Qed.

Lemma iso_so_nonzero k p s' : At' k p s' -> p <> [] -> s' <> 0.
Proof.
  intros (s & HA & Hs & ->) Hp E.
  exact (so_nonzero _ _ _ _ _ _ SO k p s HA Hp (iso_f_zero s Hs E)).
Qed.

Lemma iso_so_dispatch k p s' : At' k p s' -> p <> [] ->
  set_mem s' (p_inlined P') = true \/
  arm_lookup (p_arms P') (renumber (p_inlined P') s') = Some s'.
Proof.
  intros (s & HA & Hs & ->) Hp.
  destruct (so_dispatch _ _ _ _ _ _ SO k p s HA Hp) as [H|H].
  - left. rewrite (pi_inlined f P P' PI s Hs). exact H.
  - right. exact (pi_dispatch f P P' PI s Hs H).
Qed.

Lemma iso_so_acc k p s' : At' k p s' -> d_acc (stof' s') = accs_plain benv rss cidx k p.
Proof.
  intros (s & HA & Hs & ->). destruct (iso_st s Hs) as (_ & _ & _ & _ & Hacc & _).
  rewrite Hacc. exact (so_acc _ _ _ _ _ _ SO k p s HA).
Qed.

Lemma iso_so_step_dead k p s' c : At' k p s' -> is_scalar c = true ->
  viable_b benv rss k (p ++ [c]) = false -> trans_of P' (stof' s') c = None.
Proof.
  intros (s & HA & Hs & ->) Hc Hv. rewrite (iso_trans_of s c Hs).
  rewrite (so_step_dead _ _ _ _ _ _ SO k p s c HA Hc Hv). reflexivity.
Qed.

Lemma iso_so_step_goto k p s' c : At' k p s' -> is_scalar c = true ->
  viable_b benv rss k (p ++ [c]) = true -> ext_b benv rss k (p ++ [c]) = true ->
  exists s1', trans_of P' (stof' s') c = Some (TGoto s1') /\ At' k (p ++ [c]) s1'.
Proof.
  intros (s & HA & Hs & ->) Hc Hv He.
  destruct (so_step_goto _ _ _ _ _ _ SO k p s c HA Hc Hv He) as (s1 & Ht & HA1).
  exists (f s1). split.
  - rewrite (iso_trans_of s c Hs), Ht. reflexivity.
  - exists s1. split; [exact HA1|]. split; [exact (HAt _ _ _ HA1)|reflexivity].
Qed.

Lemma iso_so_step_accept k p s' c : At' k p s' -> is_scalar c = true ->
  viable_b benv rss k (p ++ [c]) = true -> ext_b benv rss k (p ++ [c]) = false ->
  trans_of P' (stof' s') c = Some (TAccept (accs_plain benv rss cidx k (p ++ [c]))).
Proof.
  intros (s & HA & Hs & ->) Hc Hv He. rewrite (iso_trans_of s c Hs).
  rewrite (so_step_accept _ _ _ _ _ _ SO k p s c HA Hc Hv He). reflexivity.
Qed.

Lemma iso_so_quirk k p s' c accs : At' k p s' -> is_scalar c = true ->
  lookup_char (p_max_guard P') (stof' s') c = Some (TAccept accs) ->
  match d_any (stof' s') with
  | None => True
  | Some (TAccept accs') => forall a, In a accs' -> In a accs
  | Some (TGoto _) => False
  end.
Proof.
  intros (s & HA & Hs & ->) Hc Hl. rewrite (iso_lookup s c Hs) in Hl.
  assert (Hl0 : lookup_char (p_max_guard P) (stof s) c = Some (TAccept accs)).
  { destruct (lookup_char (p_max_guard P) (stof s) c) as [[t|a]|]; cbn in Hl;
      try discriminate. inversion Hl; subst. reflexivity. }
  pose proof (so_quirk _ _ _ _ _ _ SO k p s c accs HA Hc Hl0) as Q.
  destruct (iso_st s Hs) as (_ & _ & Hany & _). rewrite Hany.
  destruct (d_any (stof s)) as [[t|a]|]; cbn [option_map ren_trans]; exact Q.
Qed.

Lemma iso_so_eoi k p s' : At' k p s' ->
  (d_eoi (stof' s') = None /\ accs_eoi benv rss cidx k p = []) \/
  d_eoi (stof' s') = Some (TAccept (accs_eoi benv rss cidx k p)).
Proof.
  intros (s & HA & Hs & ->). destruct (iso_st s Hs) as (_ & _ & _ & He & _). rewrite He.
  destruct (so_eoi _ _ _ _ _ _ SO k p s HA) as [[H1 H2]|H]; [left|right].
  - rewrite H1. split; [reflexivity|exact H2].
  - rewrite H. reflexivity.
Qed.

Lemma iso_so_bt k p s' p0 q : At' k p s' -> p = p0 ++ q -> q <> [] ->
  accs_plain benv rss cidx k p0 <> [] -> d_bt (stof' s') = true.
Proof.
  intros (s & HA & Hs & ->) Hp Hq Ha. destruct (iso_st s Hs) as (_ & _ & _ & _ & _ & Hbt).
  rewrite Hbt. exact (so_bt _ _ _ _ _ _ SO k p s p0 q HA Hp Hq Ha).
Qed.

Lemma iso_so_ctx_run k r i : In r (rules_of rss k) -> cidx (cr_act r) = Some i ->
  forall rest, Forall (fun c => is_scalar c = true) rest ->
  ctx_run (p_max_guard P') (nth i (p_ctxs P') []) 0 rest = ctx_ok benv (cr_ctx r) rest.
Proof.
  intros Hin Hci rest Hrest. rewrite (pi_mg f P P' PI).
  rewrite (ctxs_run_iso (p_max_guard P) rest _ _ (pi_ctxs f P P' PI) i).
  exact (so_ctx_run _ _ _ _ _ _ SO k r i Hin Hci rest Hrest).
Qed.

Theorem scan_ok_iso_sec : scan_ok benv P' rss cidx entry' At'.
Proof.
  constructor.
  - exact iso_so_entry0.
  - exact iso_so_entry_inj0.
  - exact (pi_arm0 f P P' PI).
  - exact iso_so_start0.
  - exact iso_so_start.
  - exact iso_so_switch.
  - exact iso_so_nonzero.
  - exact iso_so_dispatch.
  - exact (so_not_nullable _ _ _ _ _ _ SO).
  - exact iso_so_acc.
  - exact iso_so_step_dead.
  - exact iso_so_step_goto.
  - exact iso_so_step_accept.
  - exact iso_so_quirk.
  - exact iso_so_eoi.
  - exact iso_so_bt.
  - exact (so_ctx_none _ _ _ _ _ _ SO).
  - exact iso_so_ctx_run.
Qed.

End Transfer.

(* MAIN TRANSFER *)
Theorem scan_ok_iso : forall benv P P' rss cidx entry (At : nat -> list N -> nat -> Prop) f,
  prog_iso f P P' ->
  (forall k p s, At k p s -> s < length (p_states P)) ->
  scan_ok benv P rss cidx entry At ->
  scan_ok benv P' rss cidx (fun k => f (entry k))
          (fun k p s' => exists s, At k p s /\ s < length (p_states P) /\ s' = f s).
Proof.
  intros benv P P' rss cidx entry At f PI HAt SO.
  exact (scan_ok_iso_sec benv P P' rss cidx entry At f PI HAt SO).
Qed.

(* ------------------------------------------------------------------ *)
(* 6. the boolean checker                                              *)
(* ------------------------------------------------------------------ *)

Fixpoint list_eqb {A} (eqb : A -> A -> bool) (a b : list A) : bool :=
  match a, b with
  | [], [] => true
  | x :: a', y :: b' => eqb x y && list_eqb eqb a' b'
  | _, _ => false
  end.

Lemma list_eqb_eq {A} (eqb : A -> A -> bool) :
  (forall x y, eqb x y = true -> x = y) -> forall a b, list_eqb eqb a b = true -> a = b.
Proof.
  intros He. induction a as [|x a IH]; destruct b as [|y b]; cbn [list_eqb]; intros H;
    try discriminate; [reflexivity|].
  apply andb_true_iff in H. destruct H as [H1 H2]. f_equal; [apply He; exact H1|apply IH; exact H2].
Qed.

Definition opt_eqb {A} (eqb : A -> A -> bool) (a b : option A) : bool :=
  match a, b with
  | Some x, Some y => eqb x y
  | None, None => true
  | _, _ => false
  end.

Lemma opt_eqb_eq {A} (eqb : A -> A -> bool) :
  (forall x y, eqb x y = true -> x = y) -> forall a b, opt_eqb eqb a b = true -> a = b.
Proof.
  intros He [x|] [y|] H; cbn in H; try discriminate; [|reflexivity]. f_equal. apply He. exact H.
Qed.

Lemma opt_nat_eqb_eq a b : opt_nat_eqb a b = true -> a = b.
Proof.
  destruct a as [x|], b as [y|]; cbn; intros H; try discriminate; [|reflexivity].
  apply Nat.eqb_eq in H. subst. reflexivity.
Qed.

Lemma nat_eqb_eq x y : (x =? y) = true -> x = y.
Proof. apply Nat.eqb_eq. Qed.

Definition trans_eqb (a b : trans) : bool :=
  match a, b with
  | TGoto x, TGoto y => x =? y
  | TAccept x, TAccept y => acc_list_eqb x y
  | _, _ => false
  end.

Lemma trans_eqb_eq a b : trans_eqb a b = true -> a = b.
Proof.
  destruct a as [x|x], b as [y|y]; cbn [trans_eqb]; intros H; try discriminate.
  - apply Nat.eqb_eq in H. subst. reflexivity.
  - apply acc_list_eqb_eq in H. subst. reflexivity.
Qed.

Definition char_eqb {A} (eqb : A -> A -> bool) (p q : N * A) : bool :=
  (fst p =? fst q)%N && eqb (snd p) (snd q).

Lemma char_eqb_eq {A} (eqb : A -> A -> bool) :
  (forall x y, eqb x y = true -> x = y) -> forall p q, char_eqb eqb p q = true -> p = q.
Proof.
  intros He [c x] [c' y] H. unfold char_eqb in H. cbn [fst snd] in H.
  apply andb_true_iff in H. destruct H as [H1 H2]. apply N.eqb_eq in H1. apply He in H2.
  subst. reflexivity.
Qed.

Definition range_eqb {A} (eqb : A -> A -> bool) (r q : range A) : bool :=
  (r_lo r =? r_lo q)%N && (r_hi r =? r_hi q)%N && eqb (r_val r) (r_val q).

Lemma range_eqb_eq {A} (eqb : A -> A -> bool) :
  (forall x y, eqb x y = true -> x = y) -> forall r q, range_eqb eqb r q = true -> r = q.
Proof.
  intros He [l h v] [l' h' v'] H. unfold range_eqb in H. cbn [r_lo r_hi r_val] in H.
  apply andb_true_iff in H. destruct H as [H H3].
  apply andb_true_iff in H. destruct H as [H1 H2].
  apply N.eqb_eq in H1. apply N.eqb_eq in H2. apply He in H3. subst. reflexivity.
Qed.

Lemma forallb_seq (q : nat -> bool) n : forallb q (seq 0 n) = true -> forall s, s < n -> q s = true.
Proof.
  intros H s Hs. rewrite forallb_forall in H. apply H. apply in_seq. lia.
Qed.

Lemma NoDup_map_inj {A B} (f : A -> B) l :
  NoDup (map f l) -> forall a b, In a l -> In b l -> f a = f b -> a = b.
Proof.
  induction l as [|x l IH]; intros ND a b Ha Hb E; [destruct Ha|].
  cbn [map] in ND. inversion ND as [|? ? Hnin ND']; subst.
  destruct Ha as [->|Ha]; destruct Hb as [->|Hb].
  - reflexivity.
  - exfalso. apply Hnin. rewrite E. apply in_map. exact Hb.
  - exfalso. apply Hnin. rewrite <- E. apply in_map. exact Ha.
  - exact (IH ND' a b Ha Hb E).
Qed.

Definition inj_on_b (n : nat) (f : nat -> nat) : bool := nodup_b (map f (seq 0 n)).

Lemma inj_on_b_sound n f : inj_on_b n f = true -> inj_on n f.
Proof.
  intros H a b Ha Hb E. apply nodup_b_sound in H.
  apply (NoDup_map_inj f (seq 0 n) H); [apply in_seq; lia|apply in_seq; lia|exact E].
Qed.

Fixpoint forall2b {A B} (q : A -> B -> bool) (la : list A) (lb : list B) : bool :=
  match la, lb with
  | [], [] => true
  | a :: la', b :: lb' => q a b && forall2b q la' lb'
  | _, _ => false
  end.

Lemma forall2b_sound {A B} (q : A -> B -> bool) (R : A -> B -> Prop) :
  (forall a b, q a b = true -> R a b) ->
  forall la lb, forall2b q la lb = true -> Forall2 R la lb.
Proof.
  intros HR. induction la as [|a la IH]; destruct lb as [|b lb]; cbn [forall2b]; intros H;
    try discriminate; [constructor|].
  apply andb_true_iff in H. destruct H as [H1 H2]. constructor; [apply HR; exact H1|apply IH; exact H2].
Qed.

(* ---------- states of the simplified DFA ---------- *)

Definition trans_lt_b (n : nat) (t : trans) : bool :=
  match t with TGoto s => s <? n | TAccept _ => true end.

Lemma trans_lt_b_sound n t : trans_lt_b n t = true -> trans_lt n t.
Proof. destruct t; cbn; intros H; [apply Nat.ltb_lt; exact H|exact I]. Qed.

Definition targets_lt_b (n : nat) (st : dstate trans) : bool :=
  forallb (fun p => trans_lt_b n (snd p)) (d_chars st)
  && forallb (fun r => trans_lt_b n (r_val r)) (d_ranges st)
  && match d_any st with Some t => trans_lt_b n t | None => true end.

Lemma targets_lt_b_sound n st : targets_lt_b n st = true -> targets_lt n st.
Proof.
  unfold targets_lt_b. intros H.
  apply andb_true_iff in H. destruct H as [H H3].
  apply andb_true_iff in H. destruct H as [H1 H2].
  rewrite forallb_forall in H1, H2. split; [|split].
  - intros p Hp. apply trans_lt_b_sound. exact (H1 p Hp).
  - intros r Hr. apply trans_lt_b_sound. exact (H2 r Hr).
  - intros t Et. rewrite Et in H3. apply trans_lt_b_sound. exact H3.
Qed.

Definition state_iso_b (f : nat -> nat) (st st' : dstate trans) : bool :=
  list_eqb (char_eqb trans_eqb) (d_chars st')
           (map (fun p => (fst p, ren_trans f (snd p))) (d_chars st))
  && list_eqb (range_eqb trans_eqb) (d_ranges st') (rmap_map (ren_trans f) (d_ranges st))
  && opt_eqb trans_eqb (d_any st') (option_map (ren_trans f) (d_any st))
  && opt_eqb trans_eqb (d_eoi st') (option_map (ren_trans f) (d_eoi st))
  && acc_list_eqb (d_acc st') (d_acc st)
  && Bool.eqb (d_bt st') (d_bt st).

Lemma state_iso_b_sound f st st' : state_iso_b f st st' = true -> state_iso f st st'.
Proof.
  unfold state_iso_b. intros H.
  apply andb_true_iff in H. destruct H as [H H6].
  apply andb_true_iff in H. destruct H as [H H5].
  apply andb_true_iff in H. destruct H as [H H4].
  apply andb_true_iff in H. destruct H as [H H3].
  apply andb_true_iff in H. destruct H as [H1 H2].
  split; [exact (list_eqb_eq _ (char_eqb_eq _ trans_eqb_eq) _ _ H1)|].
  split; [exact (list_eqb_eq _ (range_eqb_eq _ trans_eqb_eq) _ _ H2)|].
  split; [exact (opt_eqb_eq _ trans_eqb_eq _ _ H3)|].
  split; [exact (opt_eqb_eq _ trans_eqb_eq _ _ H4)|].
  split; [exact (acc_list_eqb_eq _ _ H5)|exact (eqb_prop _ _ H6)].
Qed.

(* ---------- right-context automata ---------- *)

Definition ctx_targets_lt_b (n : nat) (st : dstate nat) : bool :=
  forallb (fun p : N * nat => snd p <? n) (d_chars st)
  && forallb (fun r : range nat => r_val r <? n) (d_ranges st)
  && match d_any st with Some t => t <? n | None => true end
  && match d_eoi st with Some t => t <? n | None => true end.

Lemma ctx_targets_lt_b_sound n st : ctx_targets_lt_b n st = true -> ctx_targets_lt n st.
Proof.
  unfold ctx_targets_lt_b. intros H.
  apply andb_true_iff in H. destruct H as [H H4].
  apply andb_true_iff in H. destruct H as [H H3].
  apply andb_true_iff in H. destruct H as [H1 H2].
  rewrite forallb_forall in H1, H2. split; [|split; [|split]].
  - intros p Hp. apply Nat.ltb_lt. exact (H1 p Hp).
  - intros r Hr. apply Nat.ltb_lt. exact (H2 r Hr).
  - intros t Et. rewrite Et in H3. apply Nat.ltb_lt. exact H3.
  - intros t Et. rewrite Et in H4. apply Nat.ltb_lt. exact H4.
Qed.

Definition ctx_state_iso_b (g : nat -> nat) (st st' : dstate nat) : bool :=
  list_eqb (char_eqb Nat.eqb) (d_chars st') (map (fun p => (fst p, g (snd p))) (d_chars st))
  && list_eqb (range_eqb Nat.eqb) (d_ranges st') (rmap_map g (d_ranges st))
  && opt_nat_eqb (d_any st') (option_map g (d_any st))
  && opt_nat_eqb (d_eoi st') (option_map g (d_eoi st))
  && Bool.eqb (is_accepting st') (is_accepting st).

Lemma ctx_state_iso_b_sound g st st' : ctx_state_iso_b g st st' = true -> ctx_state_iso g st st'.
Proof.
  unfold ctx_state_iso_b. intros H.
  apply andb_true_iff in H. destruct H as [H H5].
  apply andb_true_iff in H. destruct H as [H H4].
  apply andb_true_iff in H. destruct H as [H H3].
  apply andb_true_iff in H. destruct H as [H1 H2].
  split; [exact (list_eqb_eq _ (char_eqb_eq _ nat_eqb_eq) _ _ H1)|].
  split; [exact (list_eqb_eq _ (range_eqb_eq _ nat_eqb_eq) _ _ H2)|].
  split; [exact (opt_nat_eqb_eq _ _ H3)|].
  split; [exact (opt_nat_eqb_eq _ _ H4)|exact (eqb_prop _ _ H5)].
Qed.

(* the renaming is given as the list of its values: g s = nth s gl 0 *)
Definition ctx_iso_b (gl : list nat) (d d' : dfa nat) : bool :=
  let g := fun s => nth s gl 0 in
  let n := length d in
  (length d' =? n) && inj_on_b n g && forallb (fun s => g s <? n) (seq 0 n) && (g 0 =? 0)
  && forallb (fun s => ctx_targets_lt_b n (dget d s)
                       && ctx_state_iso_b g (dget d s) (dget d' (g s))) (seq 0 n).

Lemma ctx_iso_b_sound gl d d' :
  ctx_iso_b gl d d' = true -> ctx_iso (fun s => nth s gl 0) d d'.
Proof.
  unfold ctx_iso_b. intros H.
  apply andb_true_iff in H. destruct H as [H H5].
  apply andb_true_iff in H. destruct H as [H H4].
  apply andb_true_iff in H. destruct H as [H H3].
  apply andb_true_iff in H. destruct H as [H1 H2].
  constructor.
  - apply Nat.eqb_eq. exact H1.
  - apply inj_on_b_sound. exact H2.
  - intros s Hs. apply Nat.ltb_lt. exact (forallb_seq _ _ H3 s Hs).
  - apply Nat.eqb_eq. exact H4.
  - intros s Hs. pose proof (forallb_seq _ _ H5 s Hs) as E.
    apply andb_true_iff in E. apply ctx_targets_lt_b_sound. exact (proj1 E).
  - intros s Hs. pose proof (forallb_seq _ _ H5 s Hs) as E.
    apply andb_true_iff in E. apply ctx_state_iso_b_sound. exact (proj2 E).
Qed.

Fixpoint ctxs_iso_b (gl : list (list nat)) (cs cs' : list (dfa nat)) : bool :=
  match gl, cs, cs' with
  | [], [], [] => true
  | g :: gl', d :: cs1, d' :: cs1' => ctx_iso_b g d d' && ctxs_iso_b gl' cs1 cs1'
  | _, _, _ => false
  end.

Lemma ctxs_iso_b_sound : forall gl cs cs', ctxs_iso_b gl cs cs' = true ->
  Forall2 (fun d d' => exists g, ctx_iso g d d') cs cs'.
Proof.
  induction gl as [|g gl IH]; intros [|d cs] [|d' cs'] H; cbn [ctxs_iso_b] in H;
    try discriminate; [constructor|].
  apply andb_true_iff in H. destruct H as [H1 H2].
  constructor; [|apply IH; exact H2].
  exists (fun s => nth s g 0). apply ctx_iso_b_sound. exact H1.
Qed.

(* ---------- programs ---------- *)

(* the renaming of the states of the simplified DFA is [fun s => nth s fl 0]; the renaming of the
   i-th right-context DFA is [fun s => nth s (nth i gl []) 0] *)
Definition prog_iso_b (fl : list nat) (gl : list (list nat)) (P P' : program) : bool :=
  let f := fun s => nth s fl 0 in
  let n := length (p_states P) in
  (length (p_states P') =? n) && inj_on_b n f && forallb (fun s => f s <? n) (seq 0 n) && (f 0 =? 0)
  && forallb (fun s =>
                targets_lt_b n (dget (p_states P) s)
                && state_iso_b f (dget (p_states P) s) (dget (p_states P') (f s))
                && Bool.eqb (set_mem (f s) (p_inlined P')) (set_mem s (p_inlined P))
                && (if opt_nat_eqb (arm_lookup (p_arms P) (renumber (p_inlined P) s)) (Some s)
                    then opt_nat_eqb (arm_lookup (p_arms P') (renumber (p_inlined P') (f s))) (Some (f s))
                    else true))
             (seq 0 n)
  && opt_nat_eqb (arm_lookup (p_arms P') 0) (Some 0)
  && forall2b (fun e e' : name * nat =>
                 match arm_lookup (p_arms P) (snd e) with
                 | Some s => opt_nat_eqb (arm_lookup (p_arms P') (snd e')) (Some (f s))
                 | None => true
                 end) (p_switch P) (p_switch P')
  && (p_max_guard P' =? p_max_guard P)
  && ctxs_iso_b gl (p_ctxs P) (p_ctxs P').

Theorem prog_iso_b_sound : forall fl gl P P',
  prog_iso_b fl gl P P' = true -> prog_iso (fun s => nth s fl 0) P P'.
Proof.
  intros fl gl P P' H. unfold prog_iso_b in H.
  apply andb_true_iff in H. destruct H as [H H9].
  apply andb_true_iff in H. destruct H as [H H8].
  apply andb_true_iff in H. destruct H as [H H7].
  apply andb_true_iff in H. destruct H as [H H6].
  apply andb_true_iff in H. destruct H as [H H5].
  apply andb_true_iff in H. destruct H as [H H4].
  apply andb_true_iff in H. destruct H as [H H3].
  apply andb_true_iff in H. destruct H as [H1 H2].
  assert (St : forall s, s < length (p_states P) ->
            targets_lt_b (length (p_states P)) (dget (p_states P) s) = true /\
            state_iso_b (fun s => nth s fl 0) (dget (p_states P) s)
                        (dget (p_states P') (nth s fl 0)) = true /\
            Bool.eqb (set_mem (nth s fl 0) (p_inlined P')) (set_mem s (p_inlined P)) = true /\
            (if opt_nat_eqb (arm_lookup (p_arms P) (renumber (p_inlined P) s)) (Some s)
             then opt_nat_eqb (arm_lookup (p_arms P') (renumber (p_inlined P') (nth s fl 0)))
                              (Some (nth s fl 0))
             else true) = true).
  { intros s Hs. pose proof (forallb_seq _ _ H5 s Hs) as E. cbn beta in E.
    apply andb_true_iff in E. destruct E as [E E4].
    apply andb_true_iff in E. destruct E as [E E3].
    apply andb_true_iff in E. destruct E as [E1 E2]. repeat split; assumption. }
  constructor.
  - apply Nat.eqb_eq. exact H1.
  - apply inj_on_b_sound. exact H2.
  - intros s Hs. apply Nat.ltb_lt. exact (forallb_seq _ _ H3 s Hs).
  - apply Nat.eqb_eq. exact H4.
  - intros s Hs. apply targets_lt_b_sound. exact (proj1 (St s Hs)).
  - intros s Hs. apply state_iso_b_sound. exact (proj1 (proj2 (St s Hs))).
  - intros s Hs. apply eqb_prop. exact (proj1 (proj2 (proj2 (St s Hs)))).
  - intros s Hs Ha. pose proof (proj2 (proj2 (proj2 (St s Hs)))) as E. rewrite Ha in E.
    cbn [opt_nat_eqb] in E. rewrite Nat.eqb_refl in E. apply opt_nat_eqb_eq. exact E.
  - apply opt_nat_eqb_eq. exact H6.
  - refine (forall2b_sound _ _ _ _ _ H7). intros e e' E s Ha. rewrite Ha in E.
    apply opt_nat_eqb_eq. exact E.
  - apply Nat.eqb_eq. exact H8.
  - exact (ctxs_iso_b_sound gl _ _ H9).
Qed.

(* ------------------------------------------------------------------ *)
(* 7. compiled programs: the states related by c_At are states          *)
(* ------------------------------------------------------------------ *)

Section Compiled.
Variable benv : builtin_env.
Variable mg : nat.
Variable d : def.
Variable c : compiled.
Variable rss : list (list crule).

Hypothesis BW : benv_wf benv.
Hypothesis Hcomp : compile benv mg d = Ok c.
Hypothesis Hdef : def_rulesets d = Ok rss.
Hypothesis Hwf : wf_def benv d = true.
Hypothesis Hchars : def_chars_ok benv rss.
Hypothesis Hcerts : certs_ok c.
Hypothesis Hdistinct : acts_distinct d.

Lemma compiled_At_lt : forall k p s, c_At c k p s -> s < length (p_states (c_program c)).
Proof.
  destruct (compile_def_rulesets benv BW mg d c rss Hcomp Hdef
              (rss_wfP benv d rss Hdef Hwf Hchars) Hdistinct) as (G & ND & GI & F2).
  destruct Hcerts as [CR CC].
  destruct (compile_structure benv mg d c Hcomp) as [E [Hbt Hsimp Hprog Hne Hent]].
  assert (Hsem : forall k, k < length (dfas (c_rulesets c)) ->
            ruleset_sem benv (nth k rss []) (cidx_of G) (nth k (dfas (c_rulesets c)) [])).
  { intros k Hk. unfold dfas in Hk |- *. rewrite map_length in Hk.
    destruct (nth_error (c_rulesets c) k) as [ra|] eqn:En; [|apply nth_error_None in En; lia].
    rewrite (nth_indep _ [] (ra_dfa ra)) by (rewrite map_length; exact Hk).
    rewrite map_nth. rewrite (nth_error_nth _ _ ra En).
    destruct (e2e_Forall2_nth_error _ _ _ F2 k ra En) as (rs & Enr & es & E1 & R & Inc).
    rewrite (nth_error_nth _ _ [] Enr). rewrite <- E1.
    destruct (CR ra (nth_error_In _ _ En)) as (Hc & Hl & Hs).
    apply (ruleset_sem_core benv (ra_nfa ra) es (ra_dfa ra) (ra_map ra) (cidx_of G) R Hc Hl Hs).
    + intros e He.
      assert (Hin : In (e_rule e) (nth k rss [])).
      { rewrite (nth_error_nth _ _ [] Enr), <- E1. apply in_map. exact He. }
      destruct (wf_rules_parts benv d rss Hdef Hwf k _ Hin) as (L & T & _).
      destruct (Hchars k _ Hin) as (K & _). unfold regex_chars_ok in K.
      apply andb_true_iff in K. destruct K as [K _]. auto.
    + intros e He. apply (cidx_of_in G e ND). apply Inc. exact He. }
  intros k p s HA. rewrite Hprog. cbn [p_states]. unfold c_At in HA.
  destruct (At_inv benv (dfas (c_rulesets c)) rss (cidx_of G) (c_joined c) E (c_simplified c)
              (c_entries c) Hsem Hbt Hsimp k p s HA) as (_ & _ & i & _ & _ & _ & _ & Hlt & _).
  exact Hlt.
Qed.

End Compiled.

(* ------------------------------------------------------------------ *)
(* 8. end to end for the implementation's own program                  *)
(* ------------------------------------------------------------------ *)

(* the implementation's program behaves as the reference semantics *)
Theorem impl_program_correct :
  forall benv mg (width : N -> N) tab_width (T E U : Type) (d : def) c rss
         (actions : nat -> action T E U) fl gl P',
  benv_wf benv ->
  compile benv mg d = Ok c ->
  def_rulesets d = Ok rss ->
  wf_def benv d = true ->
  def_chars_ok benv rss ->
  acts_distinct d ->
  prog_iso_b fl gl (c_program c) P' = true ->
  (forall a v u n, a_switch (actions a v u) = Some n -> n < length (p_switch P')) ->
  forall whole u with_str,
    Forall (fun ch => is_scalar ch = true) whole ->
    (with_str = false -> RuntimeProofs.text_blind T E U actions) ->
  forall n fuel, enough_fuel U fuel (lexer_new U whole u with_str) ->
  exists r, spec_run benv width tab_width T E U rss actions n (s_init U whole u) r /\
            run_lexer width tab_width T E U P' actions n fuel (lexer_new U whole u with_str)
              = map (outcome_of T E) r.
Proof.
  intros benv mg width tab_width T E U d c rss actions fl gl P' BW Hc Hd Hw Hch Hdi Hiso Hsw
         whole u with_str Hsc Htb n fuel Hf.
  pose proof (compile_certs_ok benv mg d c rss BW Hc Hd Hw Hch) as Hce.
  destruct (compiled_scan_ok benv mg d c rss BW Hc Hd Hw Hch Hce Hdi) as (cidx & SO).
  pose proof (prog_iso_b_sound fl gl _ _ Hiso) as PI.
  pose proof (scan_ok_iso benv (c_program c) P' rss cidx (c_entry c) (c_At c) _ PI
                (compiled_At_lt benv mg d c rss BW Hc Hd Hw Hch Hce Hdi) SO) as SO'.
  exact (lexer_stream_correct benv width tab_width T E U P' rss cidx _ _ actions SO' Hsw
           whole u with_str n fuel Hsc Htb Hf).
Qed.

(* ... and so does the code generated for it *)
Theorem impl_generated_code_correct :
  forall benv mg (width : N -> N) tab_width (T E U : Type) (d : def) c rss
         (actions : nat -> action T E U) fl gl P' arms,
  benv_wf benv ->
  compile benv mg d = Ok c ->
  def_rulesets d = Ok rss ->
  wf_def benv d = true ->
  def_chars_ok benv rss ->
  acts_distinct d ->
  prog_iso_b fl gl (c_program c) P' = true ->
  (forall a v u n, a_switch (actions a v u) = Some n -> n < length (p_switch P')) ->
  chars_nodup_b P' = true ->
  gen_arms P' = Ok arms ->
  forall whole u with_str,
    Forall (fun ch => is_scalar ch = true) whole ->
    (with_str = false -> RuntimeProofs.text_blind T E U actions) ->
  forall n fuel, enough_fuel U fuel (lexer_new U whole u with_str) ->
  exists r, spec_run benv width tab_width T E U rss actions n (s_init U whole u) r /\
            grun_lexer width tab_width T E U P' actions arms n fuel (lexer_new U whole u with_str)
              = map (outcome_of T E) r.
Proof.
  intros benv mg width tab_width T E U d c rss actions fl gl P' arms BW Hc Hd Hw Hch Hdi Hiso Hsw
         Hnd Hga whole u with_str Hsc Htb n fuel Hf.
  destruct (impl_program_correct benv mg width tab_width T E U d c rss actions fl gl P'
              BW Hc Hd Hw Hch Hdi Hiso Hsw whole u with_str Hsc Htb n fuel Hf) as (r & Hspec & Hrun).
  exists r. split; [exact Hspec|]. rewrite <- Hrun.
  apply grun_lexer_correct; [exact (chars_nodup_b_sound P' Hnd)|exact Hga|].
  rewrite Hrun. intros Hin. apply in_map_iff in Hin. destruct Hin as ([i|] & Ho & _); discriminate.
Qed.

(* ------------------------------------------------------------------ *)
(* 9. the checker is not vacuous                                       *)
(* ------------------------------------------------------------------ *)

From LexVerif.Gen Require Import GenTables GenConsts.
From LexVerif Require Import Instance.

(* the definition of props/C01.v: two rule sets, a right context, a join, a switch target, `$` *)
Definition iso_d_example : def :=
  [TRuleSet name_Init
     [RBRule (mkRule (RChar 97) (Some (RChar 98)) 0);
      RBRule (mkRule (RCat (ROr (RChar 97) (RChar 99)) (RCat (RChar 100) (RChar 101))) None 1);
      RBRule (mkRule (RChar 115) None 2)];
   TRuleSet [82%N]
     [RBRule (mkRule (RPlus (RCharSet [CRange 97 99])) None 3);
      RBRule (mkRule REoi None 4)]].

Definition id_fl (P : program) : list nat := seq 0 (length (p_states P)).
Definition id_gl (P : program) : list (list nat) := map (fun d => seq 0 (length d)) (p_ctxs P).

(* the identity renaming passes *)
Example prog_iso_b_identity_example :
  match compile builtin_table MAX_GUARD_SIZE iso_d_example with
  | Ok c => let P := c_program c in
            prog_iso_b (id_fl P) (id_gl P) P P = true /\
            (3 <=? length (p_states P)) = true /\ length (p_ctxs P) = 1
  | Panic _ => False
  end.
Proof. vm_compute. repeat split; reflexivity. Qed.

(* a program with its states renumbered: state j of the result is state [nth j il 0] of S with
   targets and predecessors renamed by [fun s => nth s fl 0] (il is the inverse of fl) *)
Definition ren_dstate (f : nat -> nat) (st : dstate trans) : dstate trans :=
  mkD (d_init st)
      (map (fun p => (fst p, ren_trans f (snd p))) (d_chars st))
      (rmap_map (ren_trans f) (d_ranges st))
      (option_map (ren_trans f) (d_any st))
      (option_map (ren_trans f) (d_eoi st))
      (d_acc st) (map f (d_preds st)) (d_bt st).

Definition ren_dfa (fl il : list nat) (S : dfa trans) : dfa trans :=
  map (fun j => ren_dstate (fun s => nth s fl 0) (dget S (nth j il 0))) (seq 0 (length S)).

Definition ren_cstate (g : nat -> nat) (st : dstate nat) : dstate nat :=
  mkD (d_init st)
      (map (fun p => (fst p, g (snd p))) (d_chars st))
      (rmap_map g (d_ranges st))
      (option_map g (d_any st)) (option_map g (d_eoi st))
      (d_acc st) (map g (d_preds st)) (d_bt st).

Definition ren_cdfa (gl il : list nat) (d : dfa nat) : dfa nat :=
  map (fun j => ren_cstate (fun s => nth s gl 0) (dget d (nth j il 0))) (seq 0 (length d)).

(* keep state 0, reverse the order of the others (an involution) *)
Definition rev_perm (n : nat) : list nat := match n with O => [] | S m => 0 :: rev (seq 1 m) end.

Definition renumbered (c : compiled) : result program :=
  let P := c_program c in
  let fl := rev_perm (length (p_states P)) in
  make_program (p_max_guard P) (ren_dfa fl fl (c_simplified c))
               (map (fun e => (fst e, nth (snd e) fl 0)) (c_entries c))
               (map (fun d => ren_cdfa (rev_perm (length d)) (rev_perm (length d)) d) (p_ctxs P)).

(* the program rebuilt (inlined states, arms, switch table) from the renumbered automata is
   accepted with the renumbering and rejected with the identity *)
Example prog_iso_b_renumbered_example :
  match compile builtin_table MAX_GUARD_SIZE iso_d_example with
  | Ok c => let P := c_program c in
            match renumbered c with
            | Ok P' => prog_iso_b (rev_perm (length (p_states P)))
                                  (map (fun d => rev_perm (length d)) (p_ctxs P)) P P' = true /\
                       prog_iso_b (id_fl P) (id_gl P) P P' = false
            | Panic _ => False
            end
  | Panic _ => False
  end.
Proof. vm_compute. repeat split; reflexivity. Qed.

Print Assumptions scan_ok_iso.
Print Assumptions prog_iso_b_sound.
Print Assumptions impl_program_correct.
Print Assumptions impl_generated_code_correct.
Print Assumptions prog_iso_b_identity_example.
Print Assumptions prog_iso_b_renumbered_example.
