(* The executable selection of LexSpec.v (rule_best / select / viable, written with
   derivatives) is the textbook maximal-munch selection, stated purely with Spec.lang.
   To trust the reference semantics a reader needs Spec.lang and the short declarative
   definitions of this file (ctx_holds, candidate, le_ke, viable_prefix, extensible). *)
From Coq Require Import List NArith Bool Arith Lia.
From LexVerif Require Import Base CharClass Regex Spec SpecExec SpecExecProofs LexSpec
  ScanIface RuntimeProofs.
Import ListNotations.

(* ---------- list helpers ---------- *)

Lemma find_some_nth {A} (f : A -> bool) : forall l x, find f l = Some x ->
  exists i, nth_error l i = Some x /\ f x = true /\
    forall j y, j < i -> nth_error l j = Some y -> f y = false.
Proof.
  induction l as [|a l IH]; intros x H; cbn in H; [discriminate|].
  destruct (f a) eqn:E.
  - inversion H; subst. exists 0. split; [reflexivity|]. split; [exact E|]. intros; lia.
  - destruct (IH x H) as (i & Hn & Hf & Hm). exists (S i).
    split; [exact Hn|]. split; [exact Hf|].
    intros j y Hj Hy. destruct j as [|j]; cbn in Hy.
    + inversion Hy; subst; exact E.
    + apply (Hm j); [lia|exact Hy].
Qed.

Section Decl.
Variable benv : builtin_env.

(* ==================================================================================== *)
(* Declarative definitions                                                               *)
(* ==================================================================================== *)

(* right context holds on the rest: some prefix of the rest, with end-of-input visible after
   the whole rest, is in the context's language *)
Definition ctx_holds (ctx : option regex) (rest : list N) : Prop :=
  match ctx with
  | None => True
  | Some c => exists q, (exists q', rest = q ++ q') /\
                (lang benv c (map Chr q) \/ (q = rest /\ lang benv c (map Chr q ++ [Eoi])))
  end.

(* rule r matches the first k characters of w (e = through end-of-input), context satisfied *)
Definition candidate (r : crule) (w : list N) (k : nat) (e : bool) : Prop :=
  k <= length w /\
  (if e then k = length w else 1 <= k) /\
  lang benv (cr_re r) (map Chr (firstn k w) ++ (if e then [Eoi] else [])) /\
  ctx_holds (cr_ctx r) (skipn k w).

(* (k, e) ordered lexicographically, false < true *)
Definition le_ke (a b : nat * bool) : Prop :=
  fst a < fst b \/ (fst a = fst b /\ (snd a = true -> snd b = true)).

(* closedness of the rules (what LexSpec assumes of its crules) *)
Definition rule_closed (r : crule) : Prop :=
  closed (cr_re r) = true /\ (forall c, cr_ctx r = Some c -> closed c = true).

(* failure skip: prefixes of w that can be extended (by characters and possibly end-of-input)
   to a word of some rule, contexts ignored *)
Definition viable_prefix (rules : list crule) (p : list N) : Prop :=
  exists r u, In r rules /\ lang benv (cr_re r) (map Chr p ++ u).
Definition extensible (rules : list crule) (p : list N) : Prop :=
  exists r x u, In r rules /\ lang benv (cr_re r) (map Chr p ++ x :: u).

(* ==================================================================================== *)
(* Right contexts                                                                        *)
(* ==================================================================================== *)

Lemma ctx_holds_d_correct : forall rest d,
  ctx_holds_d benv d rest = true <->
  exists q, (exists q', rest = q ++ q') /\
     (dlang benv d (map Chr q) \/ (q = rest /\ dlang benv d (map Chr q ++ [Eoi]))).
Proof.
  induction rest as [|c rest IH]; intro d; cbn [ctx_holds_d]; rewrite orb_true_iff.
  - rewrite !(nullable_correct benv), deriv_correct. split.
    + intros [H|H]; exists []; (split; [exists []; reflexivity|]); [left|right; split; [reflexivity|]];
        exact H.
    + intros (q & (q' & E) & H). symmetry in E. apply app_eq_nil in E as [-> ->]. cbn in H.
      destruct H as [H|[_ H]]; auto.
  - rewrite (nullable_correct benv), IH. split.
    + intros [H | (q & (q' & E) & H)].
      * exists []. split; [exists (c :: rest); reflexivity|]. left; exact H.
      * exists (c :: q). split; [exists q'; cbn; congruence|].
        destruct H as [H | [E2 H]]; [left | right; split; [congruence|]];
          cbn [map app]; apply deriv_correct; exact H.
    + intros (q & (q' & E) & H). destruct q as [|c' q].
      * destruct H as [H | [E2 _]]; [left; exact H | discriminate].
      * cbn in E. injection E as <- E. right. exists q. split; [eauto|].
        destruct H as [H | [E2 H]]; [left | right; split; [congruence|]];
          apply deriv_correct; exact H.
Qed.

Theorem ctx_ok_correct : forall ctx rest, (forall c, ctx = Some c -> closed c = true) ->
  (ctx_ok benv ctx rest = true <-> ctx_holds ctx rest).
Proof.
  intros [c|] rest Hc; cbn [ctx_ok ctx_holds]; [|tauto].
  assert (C : closed c = true) by (apply Hc; reflexivity).
  rewrite ctx_holds_d_correct. split; intros (q & Hq & H); exists q; (split; [exact Hq|]).
  - destruct H as [H|[E H]]; [left|right; split; [exact E|]]; apply of_regex_correct; assumption.
  - destruct H as [H|[E H]]; [left|right; split; [exact E|]]; apply of_regex_correct; assumption.
Qed.

(* ==================================================================================== *)
(* Candidates = the boolean tests plain_ok / eoi_ok of RuntimeProofs                     *)
(* ==================================================================================== *)

Lemma nullable_dafter : forall r p, closed (cr_re r) = true ->
  (nullable (dafter benv p r) = true <-> lang benv (cr_re r) (map Chr p)).
Proof.
  intros r p C. unfold dafter. rewrite derivs_correct. apply of_regex_correct. exact C.
Qed.

Lemma eoi_ok_iff : forall w r, rule_closed r ->
  (eoi_ok benv w r = true <-> candidate r w (length w) true).
Proof.
  intros w r [C Cc]. unfold eoi_ok, candidate.
  rewrite andb_true_iff, (ctx_ok_correct _ _ Cc), firstn_all, skipn_all.
  rewrite (nullable_correct benv), deriv_correct.
  change [Eoi] with ([Eoi] ++ []) at 1. unfold dafter. rewrite dlang_derivs.
  rewrite (of_regex_correct benv _ _ C). cbn [app]. intuition.
Qed.

Lemma plain_ok_iff : forall w r j, rule_closed r -> 1 <= j <= length w ->
  (plain_ok benv w j r = true <-> candidate r w j false).
Proof.
  intros w r j [C Cc] Hj. unfold plain_ok, candidate.
  rewrite andb_true_iff, (ctx_ok_correct _ _ Cc), (nullable_dafter _ _ C), app_nil_r.
  intuition.
Qed.

Lemma candidate_false_range : forall r w k, candidate r w k false -> 1 <= k <= length w.
Proof. intros r w k (H1 & H2 & _). lia. Qed.

Lemma candidate_true_len : forall r w k, candidate r w k true -> k = length w.
Proof. intros r w k (_ & H2 & _). exact H2. Qed.

(* ---------- lastc ---------- *)

Lemma lastc_spec : forall w rs n r j, lastc benv w rs n = Some (r, j) ->
  1 <= j <= n /\ find (plain_ok benv w j) rs = Some r /\
  forall j', j < j' <= n -> find (plain_ok benv w j') rs = None.
Proof.
  intros w rs n; induction n as [|n IH]; intros r j H; cbn [lastc] in H; [discriminate|].
  destruct (find (plain_ok benv w (S n)) rs) as [x|] eqn:Ef.
  - inversion H; subst. split; [lia|]. split; [exact Ef|]. intros; lia.
  - destruct (IH r j H) as (Hb & Hf & Hm). split; [lia|]. split; [exact Hf|].
    intros j' Hj'. destruct (Nat.eq_dec j' (S n)) as [->|Hne]; [exact Ef|]. apply Hm. lia.
Qed.

Lemma lastc_none_inv : forall w rs n, lastc benv w rs n = None ->
  forall j, 1 <= j <= n -> find (plain_ok benv w j) rs = None.
Proof.
  intros w rs n; induction n as [|n IH]; intros H j Hj; [lia|]. cbn [lastc] in H.
  destruct (find (plain_ok benv w (S n)) rs) as [x|] eqn:Ef; [discriminate|].
  destruct (Nat.eq_dec j (S n)) as [->|Hne]; [exact Ef|]. apply IH; [exact H|lia].
Qed.

(* ==================================================================================== *)
(* select = maximal munch, first rule                                                    *)
(* ==================================================================================== *)

(* the selected match is a candidate, is maximal, and its rule is the first among the rules
   that match it *)
Theorem select_some : forall rules w r k e,
  (forall r, In r rules -> rule_closed r) ->
  select benv rules w = Some (r, (k, e)) ->
  exists i, nth_error rules i = Some r /\ candidate r w k e /\
    (forall r' k' e', In r' rules -> candidate r' w k' e' -> le_ke (k', e') (k, e)) /\
    (forall j r', j < i -> nth_error rules j = Some r' -> ~ candidate r' w k e).
Proof.
  intros rules w r k e Hcl H. rewrite select_char in H. unfold sel_fn in H.
  destruct (find (eoi_ok benv w) rules) as [x|] eqn:Ef.
  - (* a rule matches through end-of-input *)
    inversion H; subst x k e; clear H.
    destruct (find_some_nth _ _ _ Ef) as (i & Hn & Hf & Hm).
    assert (Hin : In r rules) by (eapply nth_error_In; exact Hn).
    exists i. split; [exact Hn|]. split; [apply eoi_ok_iff; auto|]. split.
    + intros r' k' e' Hin' (Hk & _). unfold le_ke; cbn [fst snd].
      destruct (Nat.eq_dec k' (length w)); [right; auto | left; lia].
    + intros j r' Hj Hn' Hc. apply eoi_ok_iff in Hc.
      * rewrite (Hm j r' Hj Hn') in Hc. discriminate.
      * apply Hcl. eapply nth_error_In; exact Hn'.
  - (* no rule matches through end-of-input *)
    destruct (lastc benv w rules (length w)) as [[r0 j0]|] eqn:El; [|discriminate].
    cbn [option_map fst snd] in H. inversion H; subst r0 j0 e; clear H.
    destruct (lastc_spec _ _ _ _ _ El) as (Hb & Hfind & Hmax).
    destruct (find_some_nth _ _ _ Hfind) as (i & Hn & Hf & Hm).
    assert (Hin : In r rules) by (eapply nth_error_In; exact Hn).
    exists i. split; [exact Hn|]. split; [apply plain_ok_iff; auto|]. split.
    + intros r' k' e' Hin' Hc. destruct e'.
      * (* impossible: r' would be found by find eoi_ok *)
        exfalso. pose proof (candidate_true_len _ _ _ Hc) as ->.
        apply eoi_ok_iff in Hc; [|auto].
        rewrite (find_none _ _ Ef r' Hin') in Hc. discriminate.
      * pose proof (candidate_false_range _ _ _ Hc) as Hr.
        unfold le_ke; cbn [fst snd].
        destruct (le_lt_dec k' k) as [Hle|Hgt].
        -- destruct (Nat.eq_dec k' k); [right; split; [assumption|discriminate] | left; lia].
        -- exfalso. apply plain_ok_iff in Hc; [|auto|exact Hr].
           rewrite (find_none _ _ (Hmax k' (conj Hgt (proj2 Hr))) r' Hin') in Hc. discriminate.
    + intros j r' Hj Hn' Hc. apply plain_ok_iff in Hc; [|apply Hcl; eapply nth_error_In; exact Hn'|exact Hb].
      rewrite (Hm j r' Hj Hn') in Hc. discriminate.
Qed.

Theorem select_none : forall rules w,
  (forall r, In r rules -> rule_closed r) ->
  select benv rules w = None -> forall r k e, In r rules -> ~ candidate r w k e.
Proof.
  intros rules w Hcl H r k e Hin Hc. rewrite select_char in H. unfold sel_fn in H.
  destruct (find (eoi_ok benv w) rules) as [x|] eqn:Ef; [discriminate|].
  destruct (lastc benv w rules (length w)) as [[r0 j0]|] eqn:El; [discriminate|].
  destruct e.
  - pose proof (candidate_true_len _ _ _ Hc) as ->.
    apply eoi_ok_iff in Hc; [|auto]. rewrite (find_none _ _ Ef r Hin) in Hc. discriminate.
  - pose proof (candidate_false_range _ _ _ Hc) as Hr.
    apply plain_ok_iff in Hc; [|auto|exact Hr].
    rewrite (find_none _ _ (lastc_none_inv _ _ _ El k Hr) r Hin) in Hc. discriminate.
Qed.

(* conversely: if some rule has a candidate, select returns a match *)
Theorem select_complete : forall rules w r k e,
  (forall r, In r rules -> rule_closed r) ->
  In r rules -> candidate r w k e ->
  exists r0 k0 e0, select benv rules w = Some (r0, (k0, e0)).
Proof.
  intros rules w r k e Hcl Hin Hc.
  destruct (select benv rules w) as [[r0 [k0 e0]]|] eqn:E; [eauto|].
  exfalso. exact (select_none _ _ Hcl E r k e Hin Hc).
Qed.

(* longest match *)
Corollary select_longest : forall rules w r k e,
  (forall r, In r rules -> rule_closed r) ->
  select benv rules w = Some (r, (k, e)) ->
  forall r' k' e', In r' rules -> candidate r' w k' e' -> k' <= k.
Proof.
  intros rules w r k e Hcl H r' k' e' Hin Hc.
  destruct (select_some _ _ _ _ _ Hcl H) as (i & _ & _ & Hmax & _).
  destruct (Hmax r' k' e' Hin Hc) as [Hlt|[Heq _]]; cbn [fst snd] in *; lia.
Qed.

(* a match through end-of-input is preferred to the same lexeme without it *)
Corollary select_prefers_eoi : forall rules w r k,
  (forall r, In r rules -> rule_closed r) ->
  select benv rules w = Some (r, (k, false)) ->
  forall r', In r' rules -> ~ candidate r' w k true.
Proof.
  intros rules w r k Hcl H r' Hin Hc.
  destruct (select_some _ _ _ _ _ Hcl H) as (i & _ & _ & Hmax & _).
  destruct (Hmax r' k true Hin Hc) as [Hlt|[_ Himp]]; cbn [fst snd] in *; [lia|].
  specialize (Himp eq_refl). discriminate.
Qed.

(* the rule is the first one: any earlier rule with the same match is excluded *)
Corollary select_first_rule : forall rules w r k e,
  (forall r, In r rules -> rule_closed r) ->
  select benv rules w = Some (r, (k, e)) ->
  exists i, nth_error rules i = Some r /\
    forall j r', j < i -> nth_error rules j = Some r' -> ~ candidate r' w k e.
Proof.
  intros rules w r k e Hcl H.
  destruct (select_some _ _ _ _ _ Hcl H) as (i & Hn & _ & _ & Hfirst). eauto.
Qed.

(* ==================================================================================== *)
(* viable = longest viable prefix                                                        *)
(* ==================================================================================== *)

Lemma vb_iff : forall rules p, (forall r, In r rules -> rule_closed r) ->
  (vb benv rules p = true <-> viable_prefix rules p).
Proof.
  intros rules p Hcl. unfold vb, viable_prefix. rewrite existsb_exists. split.
  - intros (d & Hin & Hd). apply in_map_iff in Hin as (r & <- & Hr).
    apply dnonempty_correct in Hd as (u & Hu). unfold dafter in Hu.
    apply dlang_derivs in Hu. apply of_regex_correct in Hu; [|apply Hcl; exact Hr].
    exists r, u. split; assumption.
  - intros (r & u & Hr & Hu). exists (dafter benv p r). split; [apply in_map; exact Hr|].
    apply dnonempty_correct. exists u. unfold dafter. apply dlang_derivs.
    apply of_regex_correct; [apply Hcl; exact Hr|exact Hu].
Qed.

Lemma eb_iff : forall rules p, (forall r, In r rules -> rule_closed r) ->
  (eb benv rules p = true <-> extensible rules p).
Proof.
  intros rules p Hcl. unfold eb, extensible. rewrite existsb_exists. split.
  - intros (d & Hin & Hd). apply in_map_iff in Hin as (r & <- & Hr).
    apply dhasword_correct in Hd as (u & Hne & Hu). unfold dafter in Hu.
    apply dlang_derivs in Hu. apply of_regex_correct in Hu; [|apply Hcl; exact Hr].
    destruct u as [|x u]; [contradiction|]. exists r, x, u. split; assumption.
  - intros (r & x & u & Hr & Hu). exists (dafter benv p r). split; [apply in_map; exact Hr|].
    apply dhasword_correct. exists (x :: u). split; [discriminate|]. unfold dafter.
    apply dlang_derivs. apply of_regex_correct; [apply Hcl; exact Hr|exact Hu].
Qed.

(* the length kv characterised in RuntimeProofs.viable_char exists *)
Lemma kv_exists : forall rules (w : list N) n, n <= length w ->
  exists kv, kv <= n /\ (kv <> 0 -> vb benv rules (firstn kv w) = true) /\
             (kv < n -> vb benv rules (firstn (S kv) w) = false).
Proof.
  intros rules w n; induction n as [|n IH]; intro Hn.
  - exists 0. split; [lia|]. split; [congruence|lia].
  - destruct (vb benv rules (firstn (S n) w)) eqn:E.
    + exists (S n). split; [lia|]. split; [intros _; exact E|lia].
    + destruct IH as (kv & Hle & Hv & Hnv); [lia|]. exists kv.
      split; [lia|]. split; [exact Hv|]. intro Hlt.
      destruct (Nat.eq_dec kv n) as [->|Hne]; [exact E|]. apply Hnv. lia.
Qed.

Theorem viable_correct : forall rules w k ext,
  (forall r, In r rules -> rule_closed r) ->
  viable benv rules w = (k, ext) ->
  k <= length w /\
  (k = 0 \/ viable_prefix rules (firstn k w)) /\     (* k = 0 also when no rule is viable at all *)
  (forall k', k < k' <= length w -> ~ viable_prefix rules (firstn k' w)) /\
  (ext = true <-> extensible rules (firstn k w)).
Proof.
  intros rules w k ext Hcl H.
  destruct (kv_exists rules w (length w) (le_n _)) as (kv & Hle & Hv & Hnv).
  rewrite (viable_char benv w rules kv Hle Hv Hnv) in H. inversion H; subst kv ext; clear H.
  split; [exact Hle|]. split; [|split].
  - destruct (Nat.eq_dec k 0) as [->|Hne]; [left; reflexivity|right].
    apply vb_iff; auto.
  - intros k' Hk' Hvp. apply vb_iff in Hvp; [|exact Hcl].
    rewrite <- (firstn_skipn (S k) (firstn k' w)), firstn_firstn in Hvp.
    replace (Nat.min (S k) k') with (S k) in Hvp by lia.
    apply vb_prefix in Hvp. rewrite Hnv in Hvp; [discriminate|lia].
  - apply eb_iff. exact Hcl.
Qed.

(* when no rule is viable even on the empty prefix, viable returns (0, false) *)
Corollary viable_none : forall rules w k ext,
  (forall r, In r rules -> rule_closed r) ->
  viable benv rules w = (k, ext) -> ~ viable_prefix rules [] -> k = 0 /\ ext = false.
Proof.
  intros rules w k ext Hcl H Hno.
  destruct (viable_correct _ _ _ _ Hcl H) as (Hle & Hk & Hmax & Hext).
  assert (k = 0) as ->.
  { destruct Hk as [Hk|(r & u & Hr & Hu)]; [exact Hk|]. exfalso. apply Hno.
    exists r, (map Chr (firstn k w) ++ u). split; [exact Hr|exact Hu]. }
  split; [reflexivity|]. destruct ext; [|reflexivity]. exfalso. apply Hno.
  destruct (proj1 Hext eq_refl) as (r & x & u & Hr & Hu). exists r, (x :: u). split; assumption.
Qed.

End Decl.

Print Assumptions ctx_ok_correct.
Print Assumptions select_some.
Print Assumptions select_none.
Print Assumptions select_complete.
Print Assumptions select_longest.
Print Assumptions select_prefers_eoi.
Print Assumptions select_first_rule.
Print Assumptions viable_correct.
Print Assumptions viable_none.
