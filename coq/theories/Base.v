(* Base definitions shared by every model file: code points, locations, results. *)
From Coq Require Export List NArith Bool Arith Lia.
Export ListNotations.
Open Scope bool_scope.

(* ---------- outcomes: every assert!/unwrap/panic!/index of the Rust is explicit ---------- *)

Inductive tag :=
| TagAddCharTransition      (* nfa.rs assert!(not_exists, "add_char_transition") *)
| TagAddEmptyTransition
| TagAddAnyTransition
| TagAddEoiTransition
| TagMakeStateAccepting
| TagUnboundVar
| TagUnknownBuiltin
| TagNotCharSet             (* regex_to_range_map on a non-class operand of # *)
| TagVarDepth               (* variable cycle: the Rust recursion never returns *)
| TagDfaCharTransition      (* dfa.rs add_char_transition assert *)
| TagDfaRanges
| TagDfaAny
| TagDfaEoi
| TagBacktrackVisited       (* assert_eq!(visited.len(), states.len()) *)
| TagSimplifyPred           (* "Predecessor of a state is removed in simplification" *)
| TagSurrogateEndpoint      (* char::try_from(range end point).unwrap() in codegen *)
| TagDupVar | TagDupRuleSet | TagDupErrorType | TagMixedRules | TagFirstNotInit
| TagIndex                  (* out-of-bounds index / impossible state *)
| TagSlice                  (* &input[a..b] not on a char boundary or out of range *)
| TagNoArm                  (* `match self.0.__state` found no arm: cannot happen, wildcard *)
| TagOutOfFuel.             (* model artefact: excluded or bounded by theorems *)

Inductive result (A : Type) : Type :=
| Ok (a : A)
| Panic (t : tag).
Arguments Ok {A} a.
Arguments Panic {A} t.

Definition bind {A B} (r : result A) (f : A -> result B) : result B :=
  match r with Ok a => f a | Panic t => Panic t end.
Notation "'do' x <- r ; k" := (bind r (fun x => k))
  (at level 200, x pattern, r at level 100, k at level 200).

Definition is_ok {A} (r : result A) : bool := match r with Ok _ => true | Panic _ => false end.

(* ---------- code points ---------- *)

Definition CHAR_MAX : N := 0x10FFFF.
Definition SURR_LO : N := 0xD800.
Definition SURR_HI : N := 0xDFFF.

Definition is_scalar (c : N) : bool :=
  (c <? SURR_LO)%N || ((SURR_HI <? c)%N && (c <=? CHAR_MAX)%N).

Definition utf8_len (c : N) : N :=
  if (c <? 0x80)%N then 1 else if (c <? 0x800)%N then 2 else if (c <? 0x10000)%N then 3 else 4.

(* ---------- locations (lexgen_util::Loc) ---------- *)

Record Loc := mkLoc { line : N; col : N; byte_idx : N }.
Definition loc_zero : Loc := mkLoc 0 0 0.

Definition loc_eqb (a b : Loc) : bool :=
  (line a =? line b)%N && (col a =? col b)%N && (byte_idx a =? byte_idx b)%N.

(* ---------- sorted, duplicate-free sets of state indices ---------- *)

Fixpoint set_add (x : nat) (s : list nat) : list nat :=
  match s with
  | [] => [x]
  | y :: t => if x <? y then x :: s else if x =? y then s else y :: set_add x t
  end.

Definition set_union (a b : list nat) : list nat := fold_left (fun acc x => set_add x acc) b a.

Fixpoint set_mem (x : nat) (s : list nat) : bool :=
  match s with [] => false | y :: t => (x =? y) || set_mem x t end.

Fixpoint list_nat_eqb (a b : list nat) : bool :=
  match a, b with
  | [], [] => true
  | x :: a', y :: b' => (x =? y) && list_nat_eqb a' b'
  | _, _ => false
  end.

Definition set_of_list (l : list nat) : list nat := fold_left (fun acc x => set_add x acc) l [].

(* ---------- list helpers ---------- *)

Fixpoint upd {A} (n : nat) (f : A -> A) (l : list A) : list A :=
  match l, n with
  | [], _ => []
  | x :: t, O => f x :: t
  | x :: t, S n' => x :: upd n' f t
  end.

Fixpoint assoc_N {A} (k : N) (l : list (N * A)) : option A :=
  match l with
  | [] => None
  | (k', v) :: t => if (k =? k')%N then Some v else assoc_N k t
  end.

(* insert/replace keeping keys sorted: the canonical stand-in for a hash map keyed by char *)
Fixpoint assoc_N_set {A} (k : N) (v : A) (l : list (N * A)) : list (N * A) :=
  match l with
  | [] => [(k, v)]
  | (k', v') :: t =>
      if (k <? k')%N then (k, v) :: l
      else if (k =? k')%N then (k, v) :: t
      else (k', v') :: assoc_N_set k v t
  end.

(* positive-fuel iteration: runs [step] at most [p] times; inl = still running *)
Fixpoint iter_pos {S R} (p : positive) (step : S -> S + R) (s : S) : S + R :=
  match p with
  | xH => step s
  | xO p' => match iter_pos p' step s with inl s' => iter_pos p' step s' | inr r => inr r end
  | xI p' =>
      match step s with
      | inl s1 => match iter_pos p' step s1 with inl s2 => iter_pos p' step s2 | inr r => inr r end
      | inr r => inr r
      end
  end.
