(* The menu of semantic actions used by the correspondence check: the Rust test programs
   emit these as closures that log what they observe into the user state; here they are
   instances of LexSpec.action. Tokens and custom errors are numbers. *)
From LexVerif Require Import Base CharClass Regex LexSpec.

Record logentry := mkLog {
  lg_act : nat;                    (* semantic action index *)
  lg_start : Loc; lg_end : Loc;    (* match_loc() *)
  lg_peek : option N;              (* peek() *)
  lg_text : option (list N)        (* match_(), None when the lexer reads from an iterator *)
}.

Record ustate := mkU {
  u_log : list logentry;           (* most recent first *)
  u_ctr : N;                       (* number of alternating actions run so far *)
  u_str : bool                     (* the program may call match_() *)
}.

(* what a closure does after logging *)
Inductive abody :=
| BRet (k : N)                     (* lexer.return_(Tok(k)) *)
| BCont                            (* lexer.continue_() *)
| BResetCont                       (* lexer.reset_match(); lexer.continue_() *)
| BResetRet (k : N)                (* lexer.reset_match(); lexer.return_(Tok(k)) *)
| BSwitch (rs : nat)               (* lexer.switch(Rule::rs) *)
| BSwitchRet (rs : nat) (k : N)    (* lexer.switch_and_return(Rule::rs, Tok(k)) *)
| BResetSwitch (rs : nat)          (* lexer.reset_match(); lexer.switch(Rule::rs) *)
| BErr (k : N).                    (* fallible rules only: lexer.return_(Err(k)) *)

Inductive akind :=
| KSkip                            (* `re,` *)
| KSimple (k : N)                  (* `re = Tok(k),` *)
| KInf (b : abody)                 (* `re => |lexer| { log; b }` *)
| KFal (b : abody)                 (* `re =? |lexer| { log; b with Ok(..) }` *)
| KAlt (fallible : bool) (b1 b2 : abody).   (* closure alternating between b1 and b2 *)

Definition body_out (b : abody) (u : ustate) : aout N N ustate :=
  match b with
  | BRet k => mkAOut u false None (AReturn (inl k))
  | BCont => mkAOut u false None AContinue
  | BResetCont => mkAOut u true None AContinue
  | BResetRet k => mkAOut u true None (AReturn (inl k))
  | BSwitch rs => mkAOut u false (Some rs) AContinue
  | BSwitchRet rs k => mkAOut u false (Some rs) (AReturn (inl k))
  | BResetSwitch rs => mkAOut u true (Some rs) AContinue
  | BErr k => mkAOut u false None (AReturn (inr k))
  end.

Definition log_view (aid : nat) (v : view) (u : ustate) : ustate :=
  mkU (mkLog aid (v_start v) (v_end v) (v_peek v) (if u_str u then Some (v_text v) else None)
       :: u_log u) (u_ctr u) (u_str u).

Definition menu_action (aid : nat) (k : akind) : action N N ustate :=
  fun v u =>
    match k with
    | KSkip => mkAOut u true None AContinue
    | KSimple t => mkAOut u false None (AReturn (inl t))
    | KInf b | KFal b => body_out b (log_view aid v u)
    | KAlt _ b1 b2 =>
        let u1 := log_view aid v u in
        let u2 := mkU (u_log u1) (u_ctr u1 + 1) (u_str u1) in
        if N.even (u_ctr u) then body_out b1 u2 else body_out b2 u2
    end.

Definition actions_of (kinds : list akind) : nat -> action N N ustate :=
  fun aid => menu_action aid (nth aid kinds KSkip).
