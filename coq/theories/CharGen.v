(* Model of crates/char_range_gen/src/main.rs generate_char_fn_ranges (C18).
   The loop `for i in 0..=u32::from(char::MAX)` is N.iter over a counter. *)
From LexVerif Require Import Base CharClass.

Record gstate := mkG {
  g_ranges : list (N * N);      (* pushed ranges, most recent first *)
  g_cur : option N;             (* current_range_start *)
  g_last : N                    (* last_char *)
}.

Definition gen_init : gstate := mkG [] None 0.

(* body of the loop for code point i *)
Definition gen_step (f : N -> bool) (st : gstate) (i : N) : gstate :=
  if is_scalar i then                         (* char::try_from(i) is Ok *)
    let st1 :=
      if f i then
        match g_cur st with
        | None => mkG (g_ranges st) (Some i) (g_last st)
        | Some _ => st
        end
      else
        match g_cur st with
        | Some s => mkG ((s, g_last st) :: g_ranges st) None (g_last st)
        | None => st
        end in
    mkG (g_ranges st1) (g_cur st1) i
  else st.                                     (* Err(_) => continue *)

Definition gen_loop (f : N -> bool) (n : N) : N * gstate :=
  N.iter n (fun p => (fst p + 1, gen_step f (snd p) (fst p))%N) (0%N, gen_init).

Definition gen_finish (st : gstate) : list (N * N) :=
  rev (match g_cur st with
       | Some s => (s, g_last st) :: g_ranges st
       | None => g_ranges st
       end).

(* generate_char_fn_ranges, with the upper bound of the loop as a parameter *)
Definition generate_upto (f : N -> bool) (top : N) : list (N * N) :=
  gen_finish (snd (gen_loop f (top + 1))).

Definition generate_char_fn_ranges (f : N -> bool) : list (N * N) :=
  generate_upto f CHAR_MAX.

(* maximal with respect to scalar values: between two consecutive ranges there is a scalar
   value (which then fails the predicate) *)
Fixpoint gaps_have_scalar (t : pairs) : Prop :=
  match t with
  | (a, b) :: (((c, d) :: _) as t') =>
      (exists x, (b < x < c)%N /\ is_scalar x = true) /\ gaps_have_scalar t'
  | _ => True
  end.
