(* Facts about variables and the scoping of `let`, read off the reference reading of a definition
   (Regex.expand, SpecDef.close_rule / close_rules / def_rulesets_go), and their consequence for the
   compiled lexer: definitions that read as the same rule sets behave identically. No axioms. *)
From LexVerif Require Import Base CharClass Regex Spec SpecExec LexSpec Nfa Dfa NfaToDfa NfaSem Codegen
     Runtime ScanIface RulesetSem Driver SpecDef ClassAlgProofs RuntimeProofs EndToEnd EndToEndModel.
From Coq Require Import List NArith Bool Arith Lia.
Import ListNotations.
Open Scope bool_scope.

(* replace every occurrence of the variable v by the regex re *)
Fixpoint subst_var (v : name) (re : regex) (r : regex) : regex :=
  match r with
  | RVar v' => if name_eqb v v' then re else r
  | RStar a => RStar (subst_var v re a)
  | RPlus a => RPlus (subst_var v re a)
  | ROpt a => ROpt (subst_var v re a)
  | RCat a b => RCat (subst_var v re a) (subst_var v re b)
  | ROr a b => ROr (subst_var v re a) (subst_var v re b)
  | RDiff a b => RDiff (subst_var v re a) (subst_var v re b)
  | _ => r
  end.

(* ---------- auxiliary ---------- *)

Lemma name_eqb_eq : forall a b, name_eqb a b = true -> a = b.
Proof.
  induction a as [|x a IH]; destruct b as [|y b]; cbn; intros H; try discriminate; [reflexivity|].
  apply andb_true_iff in H. destruct H as [H1 H2].
  apply N.eqb_eq in H1. rewrite (IH b H2), H1. reflexivity.
Qed.

(* one unfolding step of the nested fixpoint *)
Lemma expand_eq : forall f b r,
  expand f b r =
  match r with
  | RVar v =>
      match lookup_var v b with
      | None => Panic TagUnboundVar
      | Some r' => match f with O => Panic TagVarDepth | S f' => expand f' b r' end
      end
  | RStar r1 => do x <- expand f b r1; Ok (RStar x)
  | RPlus r1 => do x <- expand f b r1; Ok (RPlus x)
  | ROpt r1 => do x <- expand f b r1; Ok (ROpt x)
  | RCat r1 r2 => do x <- expand f b r1; do y <- expand f b r2; Ok (RCat x y)
  | ROr r1 r2 => do x <- expand f b r1; do y <- expand f b r2; Ok (ROr x y)
  | RDiff r1 r2 => do x <- expand f b r1; do y <- expand f b r2; Ok (RDiff x y)
  | _ => Ok r
  end.
Proof. intros f b r. destruct f; destruct r; reflexivity. Qed.

Lemma bind_ok : forall A B (r : result A) (k : A -> result B) y,
  bind r k = Ok y -> exists x, r = Ok x /\ k x = Ok y.
Proof. intros A B [x|t] k y H; cbn in H; [eauto|discriminate]. Qed.

(* a compatible pair of expansions: whatever the first yields, the second yields too *)
Definition ok_le (p q : result regex) : Prop := forall x, p = Ok x -> q = Ok x.

Lemma ok_le_bind1 : forall p q (k : regex -> result regex),
  ok_le p q -> ok_le (bind p k) (bind q k).
Proof.
  intros p q k H x Hx. apply bind_ok in Hx. destruct Hx as (a & Ha & Hk).
  rewrite (H a Ha). exact Hk.
Qed.

Lemma ok_le_bind2 : forall p q p' q' (k : regex -> regex -> result regex),
  ok_le p q -> ok_le p' q' ->
  ok_le (bind p (fun x => bind p' (fun y => k x y))) (bind q (fun x => bind q' (fun y => k x y))).
Proof.
  intros p q p' q' k H H' x Hx. apply bind_ok in Hx. destruct Hx as (a & Ha & Hk).
  apply bind_ok in Hk. destruct Hk as (a' & Ha' & Hk).
  rewrite (H a Ha). cbn. rewrite (H' a' Ha'). exact Hk.
Qed.

(* ---------- 1. fuel monotonicity ---------- *)

Lemma expand_fuel_mono_le : forall f b r, ok_le (expand f b r) (expand (S f) b r).
Proof.
  induction f as [|f IHf]; intros b r.
  - induction r; rewrite (expand_eq 0), (expand_eq 1);
      try (intros x Hx; exact Hx);
      try (apply ok_le_bind1; assumption);
      try (apply (ok_le_bind2 _ _ _ _ (fun x y => Ok (_ x y))); assumption).
    destruct (lookup_var v b); intros x Hx; discriminate.
  - induction r; rewrite (expand_eq (S f)), (expand_eq (S (S f)));
      try (intros x Hx; exact Hx);
      try (apply ok_le_bind1; assumption);
      try (apply (ok_le_bind2 _ _ _ _ (fun x y => Ok (_ x y))); assumption).
    destruct (lookup_var v b) as [r'|]; [apply IHf|intros x Hx; discriminate].
Qed.

Theorem expand_fuel_mono : forall f b r x, expand f b r = Ok x -> expand (S f) b r = Ok x.
Proof. intros f b r x. apply expand_fuel_mono_le. Qed.

(* ---------- 2. a variable and its definition are interchangeable ---------- *)

Lemma expand_subst_var_fuel : forall b v re, lookup_var v b = Some re ->
  forall f r, ok_le (expand f b r) (expand f b (subst_var v re r)).
Proof.
  intros b v re Hl f.
  induction r; cbn [subst_var];
    try (intros x Hx; exact Hx);
    try (rewrite (expand_eq f b (RStar _)), (expand_eq f b (RStar (subst_var _ _ _)));
         apply ok_le_bind1; assumption);
    try (rewrite (expand_eq f b (RPlus _)), (expand_eq f b (RPlus (subst_var _ _ _)));
         apply ok_le_bind1; assumption);
    try (rewrite (expand_eq f b (ROpt _)), (expand_eq f b (ROpt (subst_var _ _ _)));
         apply ok_le_bind1; assumption);
    try (rewrite (expand_eq f b (RCat _ _)), (expand_eq f b (RCat (subst_var _ _ _) _));
         apply (ok_le_bind2 _ _ _ _ (fun x y => Ok (RCat x y))); assumption);
    try (rewrite (expand_eq f b (ROr _ _)), (expand_eq f b (ROr (subst_var _ _ _) _));
         apply (ok_le_bind2 _ _ _ _ (fun x y => Ok (ROr x y))); assumption);
    try (rewrite (expand_eq f b (RDiff _ _)), (expand_eq f b (RDiff (subst_var _ _ _) _));
         apply (ok_le_bind2 _ _ _ _ (fun x y => Ok (RDiff x y))); assumption).
  (* RVar *)
  destruct (name_eqb v v0) eqn:E; [|intros x Hx; exact Hx].
  apply name_eqb_eq in E. subst v0.
  intros x Hx. rewrite expand_eq, Hl in Hx.
  destruct f as [|f]; [discriminate|]. apply expand_fuel_mono. exact Hx.
Qed.

Theorem expand_subst_var : forall b v re r x,
  lookup_var v b = Some re -> expand_top b r = Ok x -> expand_top b (subst_var v re r) = Ok x.
Proof.
  intros b v re r x Hl H. unfold expand_top in *.
  exact (expand_subst_var_fuel b v re Hl (length b) r x H).
Qed.

(* ---------- 3. the same for a whole rule ---------- *)

Theorem close_rule_subst : forall b v re r c,
  lookup_var v b = Some re -> close_rule b r = Ok c ->
  close_rule b (mkRule (subst_var v re (ru_re r))
                       (match ru_ctx r with Some cx => Some (subst_var v re cx) | None => None end)
                       (ru_act r)) = Ok c.
Proof.
  intros b v re [rre rctx ract] c Hl H. unfold close_rule in *. cbn [ru_re ru_ctx ru_act] in *.
  apply bind_ok in H. destruct H as (x & Hx & H).
  apply bind_ok in H. destruct H as (cx & Hcx & H).
  rewrite (expand_subst_var b v re rre x Hl Hx). cbn [bind].
  destruct rctx as [c0|].
  - apply bind_ok in Hcx. destruct Hcx as (c' & Hc' & Hcx).
    rewrite (expand_subst_var b v re c0 c' Hl Hc'). injection Hcx as <-. cbn [bind]. exact H.
  - injection Hcx as <-. cbn [bind]. exact H.
Qed.

(* ---------- 4. scoping ---------- *)

(* (a) a binding inside a rule set is not visible after the rule set: the remaining items are read
       with the bindings that were in scope before it *)
Theorem local_let_not_visible_later : forall nm rules rest b un u named cs,
  def_rulesets_go (TRuleSet nm rules :: rest) b un = Ok (u, (nm, cs) :: named) ->
  close_rules rules b = Ok cs /\ def_rulesets_go rest b un = Ok (u, named).
Proof.
  intros nm rules rest b un u named cs H. cbn [def_rulesets_go] in H.
  apply bind_ok in H. destruct H as (cs' & Hcs & H).
  apply bind_ok in H. destruct H as ([u' named'] & Hgo & H).
  cbn [fst snd] in H. injection H as -> -> ->. split; assumption.
Qed.

(* (b) a top-level binding is visible in everything after it *)
Theorem top_let_visible_later : forall v re rest b un,
  def_rulesets_go (TRob (RBBinding v re) :: rest) b un = def_rulesets_go rest (b ++ [(v, re)]) un.
Proof. reflexivity. Qed.

(* (c) inside a rule set a binding is visible in the rules after it, not before *)
Theorem local_let_visible_after : forall v re rest b,
  close_rules (RBBinding v re :: rest) b = close_rules rest (b ++ [(v, re)]).
Proof. reflexivity. Qed.

Theorem local_rule_sees_only_earlier : forall r rest b c cs,
  close_rules (RBRule r :: rest) b = Ok (c :: cs) -> close_rule b r = Ok c /\ close_rules rest b = Ok cs.
Proof.
  intros r rest b c cs H. cbn [close_rules] in H.
  apply bind_ok in H. destruct H as (c' & Hc & H).
  apply bind_ok in H. destruct H as (cs' & Hcs & H).
  injection H as -> ->. split; assumption.
Qed.

(* ---------- 5. same rule sets, same lexer ---------- *)

Lemma wf_def_of_rulesets : forall benv d1 d2 rss,
  def_rulesets d1 = Ok rss -> def_rulesets d2 = Ok rss -> wf_def benv d1 = true -> wf_def benv d2 = true.
Proof. intros benv d1 d2 rss H1 H2. unfold wf_def. rewrite H1, H2. exact (fun H => H). Qed.

Theorem same_rulesets_same_lexer :
  forall benv mg (width : N -> N) tab_width (T E U : Type) (d1 d2 : def) c1 c2 rss (actions : nat -> action T E U),
  benv_wf benv ->
  compile benv mg d1 = Ok c1 -> compile benv mg d2 = Ok c2 ->
  def_rulesets d1 = Ok rss -> def_rulesets d2 = Ok rss ->
  wf_def benv d1 = true ->
  def_chars_ok benv rss ->
  acts_distinct d1 -> acts_distinct d2 ->
  (forall a v u n, a_switch (actions a v u) = Some n -> n < length (p_switch (c_program c1))) ->
  (forall a v u n, a_switch (actions a v u) = Some n -> n < length (p_switch (c_program c2))) ->
  forall whole u with_str,
    Forall (fun ch => is_scalar ch = true) whole ->
    (with_str = false -> RuntimeProofs.text_blind T E U actions) ->
  forall n fuel,
    enough_fuel U fuel (lexer_new U whole u with_str) ->
    run_lexer width tab_width T E U (c_program c1) actions n fuel (lexer_new U whole u with_str)
    = run_lexer width tab_width T E U (c_program c2) actions n fuel (lexer_new U whole u with_str).
Proof.
  intros benv mg width tab_width T E U d1 d2 c1 c2 rss actions BW Hc1 Hc2 Hd1 Hd2 Hw Hch Ha1 Ha2
         Hs1 Hs2 whole u with_str Hsc Htb n fuel Hf.
  pose proof (wf_def_of_rulesets benv d1 d2 rss Hd1 Hd2 Hw) as Hw2.
  destruct (lexer_correct_model benv mg width tab_width T E U d1 c1 rss actions BW Hc1 Hd1 Hw Hch Ha1 Hs1
              whole u with_str Hsc Htb n fuel Hf) as (r1 & Hr1 & He1).
  destruct (lexer_correct_model benv mg width tab_width T E U d2 c2 rss actions BW Hc2 Hd2 Hw2 Hch Ha2 Hs2
              whole u with_str Hsc Htb n fuel Hf) as (r2 & Hr2 & He2).
  rewrite He1, He2.
  rewrite (spec_run_fun benv width tab_width T E U rss actions n (s_init U whole u) r1 r2 Hr1 Hr2).
  reflexivity.
Qed.

Print Assumptions expand_fuel_mono.
Print Assumptions expand_subst_var.
Print Assumptions close_rule_subst.
Print Assumptions local_let_not_visible_later.
Print Assumptions top_let_visible_later.
Print Assumptions local_let_visible_after.
Print Assumptions local_rule_sees_only_earlier.
Print Assumptions same_rulesets_same_lexer.
