(* The character tests of the generated code (Codegen.lookup_char, Codegen.ctx_lookup_char:
   char arms, then accepting range guards, then ranges grouped by target through range_chars +
   compiled_member) select the same transition as the plain lookup in the state's char map and
   range map, for every scalar value. No axioms. *)
From LexVerif Require Import Base CharClass RangeMap RangeMapProofs CharClassProofs Regex Nfa Dfa
     Codegen BacktrackProofs.
From Coq Require Import List NArith Bool Arith Lia.
Import ListNotations.

(* ------------------------------------------------------------------ *)
(* range_chars                                                         *)
(* ------------------------------------------------------------------ *)

Lemma range_chars_some : forall lo hi lo' hi',
  range_chars lo hi = Some (lo', hi') ->
  (lo <= lo' /\ lo' <= hi' /\ hi' <= hi)%N /\
  (forall c, is_scalar c = true -> ((lo <= c /\ c <= hi) <-> (lo' <= c /\ c <= hi'))%N).
Proof.
  intros lo hi lo' hi'. unfold range_chars, in_surrogates, SURR_LO, SURR_HI, CHAR_MAX.
  intros H.
  assert (Hs : forall c, is_scalar c = true -> (c < 55296 \/ (57343 < c /\ c <= 1114111))%N)
    by (intros c Hc; apply is_scalar_iff; exact Hc).
  destruct (N.leb_spec 55296 lo); destruct (N.leb_spec lo 57343);
  destruct (N.leb_spec 55296 hi); destruct (N.leb_spec hi 57343); cbn [andb] in H;
  match type of H with (if (?a <? ?b)%N then _ else _) = _ =>
    destruct (N.ltb_spec a b); [discriminate|] end;
  match type of H with (if (?a <? ?b)%N || (?c <? ?d)%N then _ else _) = _ =>
    destruct (N.ltb_spec a b); destruct (N.ltb_spec c d); cbn [orb] in H; try discriminate end;
  inversion H; subst; clear H;
  (split; [lia|intros c Hc; specialize (Hs c Hc); lia]).
Qed.

Lemma range_chars_scalar : forall lo hi c,
  is_scalar c = true -> (lo <= c)%N -> (c <= hi)%N -> (hi <= CHAR_MAX)%N ->
  exists p, range_chars lo hi = Some p.
Proof.
  intros lo hi c Hc H1 H2 H3. apply is_scalar_iff in Hc.
  unfold range_chars, in_surrogates, SURR_LO, SURR_HI, CHAR_MAX in *.
  destruct (N.leb_spec 55296 lo); destruct (N.leb_spec lo 57343);
  destruct (N.leb_spec 55296 hi); destruct (N.leb_spec hi 57343); cbn [andb];
  match goal with |- exists _, (if (?a <? ?b)%N then _ else _) = _ =>
    destruct (N.ltb_spec a b); [lia|] end;
  match goal with |- exists _, (if (?a <? ?b)%N || (?c <? ?d)%N then _ else _) = _ =>
    destruct (N.ltb_spec a b); [lia|]; destruct (N.ltb_spec c d); [lia|] end;
  cbn [orb]; eexists; reflexivity.
Qed.

(* ------------------------------------------------------------------ *)
(* lookup in a wf range map is determined by any piece containing c     *)
(* ------------------------------------------------------------------ *)

Lemma lookup_in_wf : forall (A : Type) (rs : rmap A) lb r c,
  wf_from lb rs = true -> In r rs -> in_range r c = true -> lookup rs c = Some (r_val r).
Proof.
  induction rs as [|r0 t IH]; intros lb r c Hwf Hin Hc; [destruct Hin|].
  apply wf_from_cons in Hwf. destruct Hwf as (H1 & H2 & H3).
  cbn [lookup]. destruct Hin as [->|Hin]; [rewrite Hc; reflexivity|].
  destruct (in_range r0 c) eqn:E.
  - exfalso. unfold in_range in E. apply andb_true_iff in E. destruct E as [_ E].
    apply N.leb_le in E.
    assert (covered t c = true) by (apply lookup_some_iff; exists r; split; auto;
      unfold in_range in Hc; apply andb_true_iff in Hc; rewrite !N.leb_le in Hc; lia).
    unfold covered in H. rewrite (lookup_below t (r_hi r0) c H3 E) in H. discriminate.
  - eapply IH; eauto.
Qed.

Lemma lookup_some_in : forall (A : Type) (rs : rmap A) c v,
  lookup rs c = Some v -> exists r, In r rs /\ in_range r c = true /\ r_val r = v.
Proof.
  induction rs as [|r0 t IH]; intros c v H; [discriminate|].
  cbn [lookup] in H. destruct (in_range r0 c) eqn:E.
  - inversion H; subst. exists r0. split; [left; reflexivity|auto].
  - destruct (IH _ _ H) as (r & Hin & Hr). exists r. split; [right; exact Hin|exact Hr].
Qed.

(* ------------------------------------------------------------------ *)
(* grouping pieces by target                                           *)
(* ------------------------------------------------------------------ *)

Definition piece := (nat * (N * N))%type.

Definition grp_step (acc : list (nat * pairs)) (q : piece) : list (nat * pairs) :=
  match assoc_nat (fst q) acc with
  | Some l => assoc_nat_set (fst q) (l ++ [snd q]) acc
  | None => acc ++ [(fst q, [snd q])]
  end.

Definition grp (ps : list piece) : list (nat * pairs) := fold_left grp_step ps [].

Definition proj (t : nat) (ps : list piece) : pairs :=
  map snd (filter (fun q => fst q =? t) ps).

Definition optl (l : pairs) : option pairs := match l with [] => None | _ => Some l end.

Lemma assoc_nat_app {A} k (l1 l2 : list (nat * A)) :
  assoc_nat k (l1 ++ l2) = match assoc_nat k l1 with Some v => Some v | None => assoc_nat k l2 end.
Proof.
  induction l1 as [|[k0 v0] l1 IH]; cbn [app assoc_nat]; [reflexivity|].
  destruct (k =? k0); [reflexivity|exact IH].
Qed.

Lemma proj_snoc t ps q :
  proj t (ps ++ [q]) = proj t ps ++ (if fst q =? t then [snd q] else []).
Proof.
  unfold proj. rewrite filter_app, map_app. cbn [filter].
  destruct (fst q =? t); reflexivity.
Qed.

Definition grp_inv (acc : list (nat * pairs)) (ps : list piece) : Prop :=
  NoDup (map fst acc) /\ forall t, assoc_nat t acc = optl (proj t ps).

Lemma optl_snoc l (p : N * N) : optl (l ++ [p]) = Some (l ++ [p]).
Proof. destruct l; reflexivity. Qed.

Lemma grp_inv_step acc ps q : grp_inv acc ps -> grp_inv (grp_step acc q) (ps ++ [q]).
Proof.
  intros [Hnd Hass]. unfold grp_step.
  destruct (assoc_nat (fst q) acc) as [l|] eqn:E.
  - split.
    + rewrite (keys_set_in _ _ _ _ E). exact Hnd.
    + intros t. rewrite assoc_set_get, proj_snoc.
      destruct (t =? fst q) eqn:Et.
      * apply Nat.eqb_eq in Et. subst t. rewrite Nat.eqb_refl.
        rewrite Hass in E. destruct (proj (fst q) ps) eqn:Ep; [discriminate|].
        cbn [optl] in E. inversion E; subst. reflexivity.
      * rewrite Nat.eqb_sym, Et, app_nil_r. apply Hass.
  - split.
    + rewrite map_app. cbn [map fst]. apply NoDup_snoc; [exact Hnd|].
      apply assoc_none_keys. exact E.
    + intros t. rewrite assoc_nat_app, proj_snoc. cbn [assoc_nat].
      destruct (t =? fst q) eqn:Et.
      * apply Nat.eqb_eq in Et. subst t. rewrite Nat.eqb_refl, E.
        rewrite Hass in E. destruct (proj (fst q) ps); [reflexivity|discriminate].
      * rewrite Nat.eqb_sym, Et, app_nil_r. rewrite Hass.
        destruct (optl (proj t ps)); reflexivity.
Qed.

Lemma grp_inv_fold ps : forall acc ps0,
  grp_inv acc ps0 -> grp_inv (fold_left grp_step ps acc) (ps0 ++ ps).
Proof.
  induction ps as [|q ps IH]; intros acc ps0 H; cbn [fold_left].
  - rewrite app_nil_r. exact H.
  - replace (ps0 ++ q :: ps) with ((ps0 ++ [q]) ++ ps) by (rewrite <- app_assoc; reflexivity).
    apply IH. apply grp_inv_step. exact H.
Qed.

Lemma grp_spec ps : grp_inv (grp ps) ps.
Proof.
  unfold grp. apply (grp_inv_fold ps [] []). split; [constructor|]. intros t; reflexivity.
Qed.

Lemma assoc_nat_in_nodup {A} (l : list (nat * A)) k v :
  NoDup (map fst l) -> In (k, v) l -> assoc_nat k l = Some v.
Proof.
  induction l as [|[k0 v0] l IH]; intros Hnd Hin; [destruct Hin|].
  cbn [map fst] in Hnd. inversion Hnd; subst. cbn [assoc_nat].
  destruct Hin as [Heq|Hin].
  - inversion Heq; subst. rewrite Nat.eqb_refl. reflexivity.
  - destruct (k =? k0) eqn:E.
    + apply Nat.eqb_eq in E. subst k0. exfalso. apply H1.
      apply in_map_iff. exists (k, v). split; [reflexivity|exact Hin].
    + apply IH; assumption.
Qed.

Lemma grp_in ps t l : In (t, l) (grp ps) -> l = proj t ps /\ l <> [].
Proof.
  intros Hin. destruct (grp_spec ps) as [Hnd Hass].
  pose proof (assoc_nat_in_nodup _ _ _ Hnd Hin) as E. rewrite Hass in E.
  destruct (proj t ps) eqn:Ep; [discriminate|]. cbn [optl] in E. inversion E. split; [reflexivity|discriminate].
Qed.

Lemma assoc_nat_some_in {A} (l : list (nat * A)) k v : assoc_nat k l = Some v -> In (k, v) l.
Proof.
  induction l as [|[k0 v0] l IH]; cbn [assoc_nat]; [discriminate|].
  destruct (k =? k0) eqn:E; intros H.
  - apply Nat.eqb_eq in E. inversion H; subst. left; reflexivity.
  - right. apply IH; exact H.
Qed.

Lemma grp_has ps q : In q ps -> In (fst q, proj (fst q) ps) (grp ps) /\ In (snd q) (proj (fst q) ps).
Proof.
  intros Hin. destruct (grp_spec ps) as [Hnd Hass].
  assert (Hp : In (snd q) (proj (fst q) ps)).
  { unfold proj. apply in_map. apply filter_In. split; [exact Hin|apply Nat.eqb_refl]. }
  split; [|exact Hp]. apply assoc_nat_some_in. rewrite Hass.
  destruct (proj (fst q) ps); [destruct Hp|reflexivity].
Qed.

(* ------------------------------------------------------------------ *)
(* pieces selected from a range map                                    *)
(* ------------------------------------------------------------------ *)

Section Select.
Context {T : Type}.
Variable sel : range T -> option piece.
Hypothesis sel_chars : forall r q, sel r = Some q -> range_chars (r_lo r) (r_hi r) = Some (snd q).

Definition pieces (rs : rmap T) : list piece :=
  flat_map (fun r => match sel r with Some q => [q] | None => [] end) rs.

Definition groups (rs : rmap T) : list (nat * pairs) :=
  fold_left (fun acc r => match sel r with Some q => grp_step acc q | None => acc end) rs [].

Lemma groups_eq rs : groups rs = grp (pieces rs).
Proof.
  unfold groups, grp, pieces. generalize (@nil (nat * pairs)).
  induction rs as [|r t IH]; intros acc; cbn [fold_left flat_map]; [reflexivity|].
  rewrite fold_left_app. destruct (sel r); cbn [fold_left]; apply IH.
Qed.

Lemma pairs_wf_from_weaken : forall t lb lb',
  pairs_wf_from lb t = true -> (forall x, lb_lt lb x -> lb_lt lb' x) -> pairs_wf_from lb' t = true.
Proof.
  intros [|[a b] t] lb lb' H W; [reflexivity|]. cbn [pairs_wf_from] in *.
  apply andb_true_iff in H. destruct H as [H H3]. apply andb_true_iff in H. destruct H as [H1 H2].
  rewrite H1, H3. cbn [andb]. rewrite andb_true_r.
  assert (L : lb_lt lb a) by (destruct lb; cbn [lb_lt]; [apply N.ltb_lt; exact H2|exact I]).
  apply W in L. destruct lb'; cbn [lb_lt] in L; [apply N.ltb_lt; exact L|reflexivity].
Qed.

Lemma pieces_wf f : forall rs lb,
  wf_from lb rs = true -> pairs_wf_from lb (map snd (filter f (pieces rs))) = true.
Proof.
  induction rs as [|r t IH]; intros lb H; [reflexivity|].
  apply wf_from_cons in H. destruct H as (H1 & H2 & H3).
  assert (Hrest : pairs_wf_from lb (map snd (filter f (pieces t))) = true).
  { eapply pairs_wf_from_weaken; [apply IH; exact H3|].
    intros x Hx. cbn [lb_lt] in Hx. destruct lb; cbn [lb_lt] in *; [lia|exact I]. }
  unfold pieces in *. cbn [flat_map]. destruct (sel r) as [q|] eqn:E; [|exact Hrest].
  cbn [app filter]. destruct (f q); [|exact Hrest].
  cbn [map]. destruct q as [k [a b]]. cbn [snd pairs_wf_from].
  apply sel_chars in E. cbn [snd] in E. apply range_chars_some in E. destruct E as [(Ea & Eb & Ec) _].
  apply andb_true_iff. split; [apply andb_true_iff; split|].
  - apply N.leb_le. exact Eb.
  - destruct lb; cbn [lb_lt] in H2; [apply N.ltb_lt; lia|reflexivity].
  - eapply pairs_wf_from_weaken; [apply IH; exact H3|].
    intros x Hx. cbn [lb_lt] in *. lia.
Qed.

Lemma in_pieces rs q : In q (pieces rs) <-> exists r, In r rs /\ sel r = Some q.
Proof.
  unfold pieces. rewrite in_flat_map. split.
  - intros (r & Hin & Hq). exists r. split; [exact Hin|].
    destruct (sel r); [destruct Hq as [->|[]]; reflexivity|destruct Hq].
  - intros (r & Hin & Hq). exists r. split; [exact Hin|]. rewrite Hq. left; reflexivity.
Qed.

Lemma sel_in_range r q c : is_scalar c = true -> sel r = Some q ->
  in_pair (snd q) c = in_range r c.
Proof.
  intros Hc E. apply sel_chars in E. destruct (snd q) as [a b] eqn:Eq.
  apply range_chars_some in E. destruct E as [_ E]. specialize (E c Hc).
  apply eq_true_iff_eq. rewrite in_pair_iff. cbn [fst snd].
  unfold in_range. rewrite andb_true_iff, !N.leb_le. symmetry. exact E.
Qed.

(* the test over the grouped pieces *)
Lemma groups_find_some mg rs c g :
  wf rs = true -> is_scalar c = true ->
  find (fun g => compiled_member mg (snd g) c) (groups rs) = Some g ->
  exists r q, In r rs /\ sel r = Some q /\ fst q = fst g /\ in_range r c = true.
Proof.
  intros Hwf Hc Hf. apply find_some in Hf. destruct Hf as [Hin Hm].
  rewrite groups_eq in Hin. destruct g as [t l]. cbn [fst snd] in *.
  apply grp_in in Hin. destruct Hin as [-> _].
  rewrite compiled_member_in_pairs in Hm by (apply pieces_wf; exact Hwf).
  apply in_pairs_iff in Hm. destruct Hm as (p & Hp & Hpc).
  unfold proj in Hp. apply in_map_iff in Hp. destruct Hp as (q & <- & Hq).
  apply filter_In in Hq. destruct Hq as [Hq Ht]. apply Nat.eqb_eq in Ht.
  apply in_pieces in Hq. destruct Hq as (r & Hr & Hs).
  exists r, q. repeat split; auto. rewrite <- (sel_in_range r q c Hc Hs). exact Hpc.
Qed.

Lemma groups_find_none mg rs c :
  wf rs = true -> is_scalar c = true ->
  find (fun g => compiled_member mg (snd g) c) (groups rs) = None ->
  forall r, In r rs -> in_range r c = true -> sel r = None.
Proof.
  intros Hwf Hc Hf r Hr Hrc. destruct (sel r) as [q|] eqn:E; [exfalso|reflexivity].
  assert (Hq : In q (pieces rs)) by (apply in_pieces; exists r; auto).
  apply grp_has in Hq. destruct Hq as [Hg Hp]. rewrite <- groups_eq in Hg.
  pose proof (find_none _ _ Hf _ Hg) as Hm. cbn [snd] in Hm.
  rewrite compiled_member_in_pairs in Hm by (apply pieces_wf; exact Hwf).
  assert (in_pairs (proj (fst q) (pieces rs)) c = true).
  { apply in_pairs_iff. exists (snd q). split; [exact Hp|].
    rewrite (sel_in_range r q c Hc E). exact Hrc. }
  congruence.
Qed.

End Select.

(* ------------------------------------------------------------------ *)
(* right-context functions: ctx_lookup_char                            *)
(* ------------------------------------------------------------------ *)

Definition dfa_char_lookup {T} (st : dstate T) (c : N) : option T :=
  match assoc_N c (d_chars st) with
  | Some t => Some t
  | None => lookup (d_ranges st) c
  end.

Definition sel_ctx (r : range nat) : option piece :=
  match range_chars (r_lo r) (r_hi r) with Some p => Some (r_val r, p) | None => None end.

Lemma sel_ctx_chars : forall r q, sel_ctx r = Some q -> range_chars (r_lo r) (r_hi r) = Some (snd q).
Proof.
  intros r q. unfold sel_ctx. destruct (range_chars (r_lo r) (r_hi r)); [|discriminate].
  intros H; inversion H; reflexivity.
Qed.

Lemma ctx_groups_eq (rs : rmap nat) :
  fold_left (fun acc r =>
               match range_chars (r_lo r) (r_hi r) with
               | None => acc
               | Some p =>
                   match assoc_nat (r_val r) acc with
                   | Some l => assoc_nat_set (r_val r) (l ++ [p]) acc
                   | None => acc ++ [(r_val r, [p])]
                   end
               end) rs [] = groups sel_ctx rs.
Proof.
  unfold groups.
  match goal with |- fold_left ?F rs [] = fold_left ?G rs [] =>
    enough (H : forall acc, fold_left F rs acc = fold_left G rs acc) by apply H end.
  induction rs as [|r t IH]; intros acc; cbn [fold_left]; [reflexivity|].
  rewrite IH. f_equal. unfold sel_ctx, grp_step.
  destruct (range_chars (r_lo r) (r_hi r)); reflexivity.
Qed.

Theorem ctx_lookup_char_correct : forall mg (st : dstate nat) c,
  is_scalar c = true -> wf (d_ranges st) = true ->
  (forall r, In r (d_ranges st) -> (r_hi r <= CHAR_MAX)%N) ->
  ctx_lookup_char mg st c =
  match dfa_char_lookup st c with Some t => Some t | None => d_any st end.
Proof.
  intros mg st c Hc Hwf Hmax. unfold ctx_lookup_char, dfa_char_lookup.
  destruct (assoc_N c (d_chars st)); [reflexivity|].
  rewrite ctx_groups_eq.
  destruct (find _ (groups sel_ctx (d_ranges st))) as [g|] eqn:Ef.
  - destruct (groups_find_some sel_ctx sel_ctx_chars _ _ _ _ Hwf Hc Ef) as (r & q & Hr & Hs & Hq & Hrc).
    rewrite (lookup_in_wf _ _ _ _ _ Hwf Hr Hrc).
    unfold sel_ctx in Hs. destruct (range_chars (r_lo r) (r_hi r)); [|discriminate].
    inversion Hs; subst. cbn [fst] in Hq. rewrite Hq. reflexivity.
  - destruct (lookup (d_ranges st) c) as [v|] eqn:El; [exfalso|reflexivity].
    apply lookup_some_in in El. destruct El as (r & Hr & Hrc & _).
    pose proof (groups_find_none sel_ctx sel_ctx_chars _ _ _ Hwf Hc Ef r Hr Hrc) as Hs.
    unfold sel_ctx in Hs. unfold in_range in Hrc. apply andb_true_iff in Hrc.
    rewrite !N.leb_le in Hrc. destruct Hrc as [L1 L2].
    destruct (range_chars_scalar (r_lo r) (r_hi r) c Hc L1 L2 (Hmax r Hr)) as [p Hp].
    rewrite Hp in Hs. discriminate.
Qed.

(* ------------------------------------------------------------------ *)
(* the main lexer: lookup_char / find_range_trans                      *)
(* ------------------------------------------------------------------ *)

Definition sel_goto (r : range trans) : option piece :=
  match range_chars (r_lo r) (r_hi r), r_val r with
  | Some p, TGoto t => Some (t, p)
  | _, _ => None
  end.

Lemma sel_goto_chars : forall r q, sel_goto r = Some q -> range_chars (r_lo r) (r_hi r) = Some (snd q).
Proof.
  intros r q. unfold sel_goto. destruct (range_chars (r_lo r) (r_hi r)); [|discriminate].
  destruct (r_val r); [|discriminate]. intros H; inversion H; reflexivity.
Qed.

Lemma group_ranges_eq rs : group_ranges rs = groups sel_goto rs.
Proof.
  unfold group_ranges, groups.
  match goal with |- fold_left ?F rs [] = fold_left ?G rs [] =>
    enough (H : forall acc, fold_left F rs acc = fold_left G rs acc) by apply H end.
  induction rs as [|r t IH]; intros acc; cbn [fold_left]; [reflexivity|].
  rewrite IH. f_equal. unfold sel_goto, grp_step.
  destruct (range_chars (r_lo r) (r_hi r)); [|reflexivity]. destruct (r_val r); reflexivity.
Qed.

Theorem find_range_trans_correct : forall mg (rs : rmap trans) c,
  is_scalar c = true -> wf rs = true ->
  (forall r, In r rs -> (r_hi r <= CHAR_MAX)%N) ->
  find_range_trans mg rs c = lookup rs c.
Proof.
  intros mg rs c Hc Hwf Hmax. unfold find_range_trans.
  destruct (find (fun g => guard_chain (fst g) c) (accept_ranges rs)) as [g|] eqn:Ea.
  - apply find_some in Ea. destruct Ea as [Hin Hg].
    unfold accept_ranges in Hin. apply in_flat_map in Hin. destruct Hin as (r & Hr & Hin).
    destruct (range_chars (r_lo r) (r_hi r)) as [[a b]|] eqn:Erc; [|destruct Hin].
    destruct (r_val r) as [t|accs] eqn:Ev; [destruct Hin|]. destruct Hin as [<-|[]].
    cbn [fst snd] in *. rewrite guard_chain_in_pairs in Hg. cbn [in_pairs existsb] in Hg.
    rewrite orb_false_r in Hg. apply range_chars_some in Erc. destruct Erc as [_ Erc].
    apply in_pair_iff in Hg. cbn [fst snd] in Hg. apply (Erc c Hc) in Hg.
    assert (Hrc : in_range r c = true)
      by (unfold in_range; rewrite andb_true_iff, !N.leb_le; exact Hg).
    rewrite (lookup_in_wf _ _ _ _ _ Hwf Hr Hrc), Ev. reflexivity.
  - rewrite group_ranges_eq.
    destruct (find _ (groups sel_goto rs)) as [g|] eqn:Ef.
    + destruct (groups_find_some sel_goto sel_goto_chars _ _ _ _ Hwf Hc Ef)
        as (r & q & Hr & Hs & Hq & Hrc).
      rewrite (lookup_in_wf _ _ _ _ _ Hwf Hr Hrc).
      unfold sel_goto in Hs. destruct (range_chars (r_lo r) (r_hi r)); [|discriminate].
      destruct (r_val r); [|discriminate]. inversion Hs; subst. cbn [fst] in Hq. rewrite Hq.
      reflexivity.
    + destruct (lookup rs c) as [v|] eqn:El; [exfalso|reflexivity].
      apply lookup_some_in in El. destruct El as (r & Hr & Hrc & Hv).
      pose proof (groups_find_none sel_goto sel_goto_chars _ _ _ Hwf Hc Ef r Hr Hrc) as Hs.
      pose proof Hrc as Hrc'. unfold in_range in Hrc'. apply andb_true_iff in Hrc'.
      rewrite !N.leb_le in Hrc'. destruct Hrc' as [L1 L2].
      destruct (range_chars_scalar (r_lo r) (r_hi r) c Hc L1 L2 (Hmax r Hr)) as [[a b] Hp].
      unfold sel_goto in Hs. rewrite Hp in Hs.
      destruct (r_val r) as [t|accs] eqn:Ev; [discriminate|].
      assert (Hin : In ([(a, b)], accs) (accept_ranges rs)).
      { unfold accept_ranges. apply in_flat_map. exists r. split; [exact Hr|].
        rewrite Hp, Ev. left; reflexivity. }
      pose proof (find_none _ _ Ea _ Hin) as Hg. cbn [fst] in Hg.
      rewrite guard_chain_in_pairs in Hg. cbn [in_pairs existsb] in Hg.
      rewrite orb_false_r in Hg. apply range_chars_some in Hp. destruct Hp as [_ Hp].
      assert (in_pair (a, b) c = true) by (apply in_pair_iff; cbn [fst snd]; apply (Hp c Hc); lia).
      congruence.
Qed.

Theorem lookup_char_correct : forall mg (st : dstate trans) c,
  is_scalar c = true -> wf (d_ranges st) = true ->
  (forall r, In r (d_ranges st) -> (r_hi r <= CHAR_MAX)%N) ->
  lookup_char mg st c =
  match assoc_N c (d_chars st) with Some t => Some t | None => lookup (d_ranges st) c end.
Proof.
  intros mg st c Hc Hwf Hmax. unfold lookup_char.
  destruct (assoc_N c (d_chars st)); [reflexivity|].
  apply find_range_trans_correct; assumption.
Qed.

Print Assumptions ctx_lookup_char_correct.
Print Assumptions lookup_char_correct.
