(* Executable side conditions of GenCodeProofs (T1-T4), evaluated by the extracted driver on the automata the
   real macro dumped, with their soundness: character keys strictly increasing (hence pairwise distinct) in every
   state of the program and of every right-context automaton, range maps of the context automata well formed,
   end-of-input transitions of context automata lead to accepting states. *)
From Coq Require Import List NArith Lia Bool.
From LexVerif Require Import Base CharClass RangeMap Regex Nfa Dfa Codegen GenCode GenCodeProofs.
Import ListNotations.

Fixpoint keys_increasing (l : list N) : bool :=
  match l with
  | a :: ((b :: _) as t) => (a <? b)%N && keys_increasing t
  | _ => true
  end.

Lemma keys_increasing_lt : forall l a x, keys_increasing (a :: l) = true -> In x l -> (a < x)%N.
Proof.
  induction l as [|b l IH]; intros a x H I; [destruct I|].
  cbn [keys_increasing] in H. apply andb_true_iff in H. destruct H as [Hab Ht].
  apply N.ltb_lt in Hab. destruct I as [<-|I]; [exact Hab|].
  specialize (IH b x Ht I). lia.
Qed.

Lemma keys_increasing_tail : forall a l, keys_increasing (a :: l) = true -> keys_increasing l = true.
Proof.
  intros a [|b l] H; [reflexivity|]. cbn [keys_increasing] in H. apply andb_true_iff in H. tauto.
Qed.

Lemma keys_increasing_nodup : forall l, keys_increasing l = true -> NoDup l.
Proof.
  induction l as [|a l IH]; intros H; constructor.
  - intros I. pose proof (keys_increasing_lt l a a H I). lia.
  - apply IH. eapply keys_increasing_tail; exact H.
Qed.

Definition state_chars_ok {T} (st : dstate T) : bool := keys_increasing (map fst (d_chars st)).

Definition chars_nodup_b (p : program) : bool := forallb state_chars_ok (p_states p).

Lemma dget_chars_nodup : forall T (d : dfa T) s,
  forallb state_chars_ok d = true -> NoDup (map fst (d_chars (dget d s))).
Proof.
  intros T d s H. unfold dget.
  destruct (Nat.lt_ge_cases s (length d)) as [Hlt|Hge].
  - apply keys_increasing_nodup. rewrite forallb_forall in H. apply H. apply nth_In. exact Hlt.
  - rewrite nth_overflow by exact Hge. constructor.
Qed.

Theorem chars_nodup_b_sound : forall p, chars_nodup_b p = true -> chars_nodup p.
Proof. intros p H s. apply dget_chars_nodup. exact H. Qed.

(* the hypotheses of cx_exec_sound / cx_exec_complete *)
Definition ctx_code_ok_b (d : dfa nat) : bool :=
  (0 <? length d) && forallb state_chars_ok d && forallb (fun st => wf (d_ranges st)) d
  && eoi_targets_accepting d.

Theorem ctx_code_ok_b_sound : forall mg d input,
  ctx_code_ok_b d = true ->
  (exists fuel, cx_exec fuel (gen_cx mg d) 0 input = Some (ctx_run mg d 0 input)) /\
  (forall fuel b, cx_exec fuel (gen_cx mg d) 0 input = Some b -> ctx_run mg d 0 input = b).
Proof.
  intros mg d input H. unfold ctx_code_ok_b in H.
  apply andb_true_iff in H. destruct H as [H He].
  apply andb_true_iff in H. destruct H as [H Hw].
  apply andb_true_iff in H. destruct H as [Hl Hc].
  apply Nat.ltb_lt in Hl.
  assert (Hnd : forall s, NoDup (map fst (d_chars (dget d s)))) by (intros s; apply dget_chars_nodup; exact Hc).
  assert (Hwf : forall s, wf (d_ranges (dget d s)) = true).
  { intros s. unfold dget. destruct (Nat.lt_ge_cases s (length d)) as [Hlt|Hge].
    - rewrite forallb_forall in Hw. apply Hw. apply nth_In. exact Hlt.
    - rewrite nth_overflow by exact Hge. reflexivity. }
  split.
  - exact (cx_exec_complete mg d input Hl Hnd Hwf He).
  - intros fuel b E. exact (cx_exec_sound mg d fuel input b Hnd Hwf He E).
Qed.

Print Assumptions chars_nodup_b_sound.
Print Assumptions ctx_code_ok_b_sound.
