(* C16 (definition level) and C17 (malformed syntax): printing a parsed definition
   ([DefParser.print_def], with or without the optional comma after a rule set) and parsing it
   back with [DefParser.parse_def] yields exactly that definition; some malformed items are
   rejected.

   Side condition: every regex (rule regex, right context, `let` right-hand side) satisfies
   [ParserProofs.eoi_safe'] (the bare-`$` condition of the regex-level round trip).  Nothing
   else is needed: in particular NO condition on variable or rule-set names (the parser only
   inspects the FIRST identifier of an item, so `let let = ..;`, `let rule = ..;`,
   `rule type { .. }` all round-trip), and the fuel of [parse_def] is always sufficient. *)
From LexVerif Require Import Base CharClass Regex Parser ParserProofs Driver DefParser.

Definition prob_ok (x : prob) : bool :=
  match x with
  | PBinding v re => eoi_safe' re
  | PRule r => eoi_safe' (pr_re r) && match pr_ctx r with Some c => eoi_safe' c | None => true end
  end.

Definition ptop_ok (t : ptop) : bool :=
  match t with
  | PErrorType => true
  | PRob x => prob_ok x
  | PRuleSet _ rules => forallb prob_ok rules
  end.

(* ---------- a printed regex starts with an atom token, never with an identifier ---------- *)

Definition head_atom (ts : list tok) : bool :=
  match ts with t :: _ => starts_atom t | [] => false end.

Lemma head_atom_app : forall a b, head_atom a = true -> head_atom (a ++ b) = true.
Proof. intros [|x a] b H; [discriminate|exact H]. Qed.

Lemma print_any_head : forall extra r lv, head_atom (print_any extra lv r) = true.
Proof.
  induction r; intros lv; rewrite print_any_eq; unfold wrapP;
    destruct (_ || _); try reflexivity; simpl; try reflexivity;
    apply head_atom_app; auto.
Qed.

Lemma print_re_head : forall r lv, head_atom (print_re lv r) = true.
Proof. intros. rewrite print_re_any. apply print_any_head. Qed.

Lemma print_re_cons : forall r lv, exists t ts, print_re lv r = t :: ts /\ starts_atom t = true.
Proof.
  intros r lv. pose proof (print_re_head r lv) as H.
  destruct (print_re lv r) as [|t ts]; [discriminate|]. eauto.
Qed.

Theorem print_re_not_ident : forall r lv n ts, print_re lv r <> TIdent n :: ts.
Proof.
  intros r lv n ts E. pose proof (print_re_head r lv) as H. rewrite E in H. discriminate.
Qed.

Theorem print_re_not_other : forall r lv k ts, print_re lv r <> TOther k :: ts.
Proof.
  intros r lv k ts E. pose proof (print_re_head r lv) as H. rewrite E in H. discriminate.
Qed.

(* ---------- regex followed by punctuation ---------- *)

Lemma stops_other : forall k rest, stops (TOther k :: rest).
Proof. intros. simpl. repeat split; try discriminate; intros; discriminate. Qed.

Lemma parse_fuel_app : forall a b, parse_fuel (a ++ b) = 6 * (toks_size a + toks_size b) + 6.
Proof. intros. unfold parse_fuel. rewrite toks_size_app. reflexivity. Qed.

Lemma parse_re_other : forall r k rest fuel, eoi_safe' r = true ->
  parse_fuel (print_re 0 r ++ TOther k :: rest) <= fuel ->
  parse_re fuel 0 (print_re 0 r ++ TOther k :: rest) = Some (r, TOther k :: rest).
Proof. intros. apply roundtrip_min; auto. apply stops_other. Qed.

(* ---------- parse_rob, unfolded ---------- *)

(* what parse_rob does with the result of parse_regex_ctx *)
Definition finish_rule (x : option (regex * option regex * list tok)) : option (prob * list tok) :=
  match x with
  | None => None
  | Some (re, ctx, TOther k :: rest) =>
      if (k =? P_COMMA)%N then Some (PRule (mkPRule re ctx RhsNone), rest)
      else if (k =? P_FATARROW)%N then
        match rest with
        | TOther e :: TOther c :: rest' =>
            if (e =? P_EXPR)%N && (c =? P_COMMA)%N
            then Some (PRule (mkPRule re ctx RhsInfallible), rest') else None
        | _ => None
        end
      else if (k =? P_EQ)%N then
        match rest with
        | TQuestion :: TOther e :: TOther c :: rest' =>
            if (e =? P_EXPR)%N && (c =? P_COMMA)%N
            then Some (PRule (mkPRule re ctx RhsFallible), rest') else None
        | TOther e :: TOther c :: rest' =>
            if (e =? P_EXPR)%N && (c =? P_COMMA)%N
            then Some (PRule (mkPRule re ctx RhsSimple), rest') else None
        | _ => None
        end
      else None
  | Some _ => None
  end.

Lemma parse_rob_nonident : forall fuel t ts, (forall n, t <> TIdent n) ->
  parse_rob fuel (t :: ts) = finish_rule (parse_regex_ctx fuel (t :: ts)).
Proof.
  intros fuel t ts H. destruct t; try reflexivity. exfalso. eapply H. reflexivity.
Qed.

Lemma parse_rob_atom : forall fuel ts, head_atom ts = true ->
  parse_rob fuel ts = finish_rule (parse_regex_ctx fuel ts).
Proof.
  intros fuel [|t ts] H; [discriminate|]. apply parse_rob_nonident.
  intros n ->. discriminate.
Qed.

Lemma parse_rob_let : forall fuel v rest1,
  parse_rob fuel (TIdent kw_let :: TIdent v :: TOther P_EQ :: rest1) =
  match parse_re fuel 0 rest1 with
  | Some (re, TOther k2 :: rest2) => if (k2 =? P_SEMI)%N then Some (PBinding v re, rest2) else None
  | _ => None
  end.
Proof. reflexivity. Qed.

Lemma print_rhs_cons : forall k, exists p ts, print_rhs k = TOther p :: ts /\ p <> P_GT.
Proof. intros []; simpl; eexists; eexists; (split; [reflexivity|discriminate]). Qed.

Lemma parse_regex_ctx_print : forall re ctx k rest fuel,
  eoi_safe' re = true -> match ctx with Some c => eoi_safe' c = true | None => True end ->
  parse_fuel (print_re 0 re ++ (match ctx with Some c => TOther P_GT :: print_re 0 c | None => [] end)
              ++ print_rhs k ++ rest) <= fuel ->
  parse_regex_ctx fuel (print_re 0 re ++ (match ctx with Some c => TOther P_GT :: print_re 0 c | None => [] end)
              ++ print_rhs k ++ rest) = Some (re, ctx, print_rhs k ++ rest).
Proof.
  intros re ctx k rest fuel Hre Hctx Hf. unfold parse_regex_ctx.
  destruct (print_rhs_cons k) as (p & ts & Ek & Hp).
  destruct ctx as [c|].
  - simpl app in *. rewrite parse_re_other by auto.
    change (P_GT =? P_GT)%N with true. cbv iota.
    rewrite Ek in *. simpl app in *.
    rewrite parse_re_other; [reflexivity|auto|].
    rewrite parse_fuel_app in Hf. rewrite toks_size_cons in Hf. unfold parse_fuel. lia.
  - simpl app in *. rewrite Ek in *. simpl app in *. rewrite parse_re_other by auto.
    destruct (p =? P_GT)%N eqn:E; [apply N.eqb_eq in E; contradiction|reflexivity].
Qed.

Lemma finish_rule_print : forall re ctx k rest,
  finish_rule (Some (re, ctx, print_rhs k ++ rest)) = Some (PRule (mkPRule re ctx k), rest).
Proof. intros re ctx [] rest; reflexivity. Qed.

Lemma toks_size_tail_le : forall a b, toks_size b <= toks_size (a ++ b).
Proof. intros. rewrite toks_size_app. lia. Qed.

(* one rule or binding, followed by anything *)
Theorem parse_rob_print : forall x rest fuel, prob_ok x = true ->
  parse_fuel (print_rob x ++ rest) <= fuel ->
  parse_rob fuel (print_rob x ++ rest) = Some (x, rest).
Proof.
  intros [r|v re] rest fuel Hok Hf.
  - destruct r as [re ctx k]. simpl in Hok. apply andb_true_iff in Hok. destruct Hok as [Hre Hctx].
    unfold print_rob in *. simpl pr_re in *. simpl pr_ctx in *. simpl pr_kind in *.
    rewrite <- !app_assoc in *.
    rewrite parse_rob_atom by (apply head_atom_app, print_re_head).
    rewrite parse_regex_ctx_print; auto.
    + apply finish_rule_print.
    + destruct ctx; auto.
  - simpl in Hok. unfold print_rob in *. simpl app in *.
    rewrite parse_rob_let. rewrite <- app_assoc in *. simpl app in *.
    rewrite parse_re_other; [reflexivity|auto|].
    unfold parse_fuel in *. rewrite !toks_size_cons in Hf. lia.
Qed.

Lemma print_rob_length : forall x, 1 <= length (print_rob x).
Proof.
  intros [r|v re]; simpl; [|lia].
  destruct (print_re_cons (pr_re r) 0) as (t & ts & -> & _). simpl. lia.
Qed.

Lemma print_rob_cons : forall x, exists t ts, print_rob x = t :: ts.
Proof.
  intros x. pose proof (print_rob_length x). destruct (print_rob x); simpl in *; [lia|eauto].
Qed.

Lemma parse_robs_cons : forall fuel n t ts,
  parse_robs fuel (S n) (t :: ts) =
  match parse_rob fuel (t :: ts) with
  | Some (x, rest) => option_map (cons x) (parse_robs fuel n rest)
  | None => None
  end.
Proof. reflexivity. Qed.

Lemma parse_robs_nil : forall fuel n, parse_robs fuel n [] = Some [].
Proof. intros fuel []; reflexivity. Qed.

(* the body of a rule set *)
Theorem parse_robs_print : forall rules fuel n, forallb prob_ok rules = true ->
  length rules <= n -> parse_fuel (flat_map print_rob rules) <= fuel ->
  parse_robs fuel n (flat_map print_rob rules) = Some rules.
Proof.
  induction rules as [|x rules IH]; intros fuel n Hok Hn Hf.
  - apply parse_robs_nil.
  - simpl in Hok. apply andb_true_iff in Hok. destruct Hok as [Hx Hok].
    destruct n as [|n]; [simpl in Hn; lia|]. simpl in Hn.
    simpl flat_map in *.
    destruct (print_rob_cons x) as (t & ts & E).
    assert (Hp := parse_rob_print x (flat_map print_rob rules) fuel Hx Hf).
    rewrite E in *. simpl app in *. rewrite parse_robs_cons, Hp.
    rewrite IH; [reflexivity|auto|lia|].
    unfold parse_fuel in *. rewrite toks_size_cons in Hf. fold (toks_size (ts ++ flat_map print_rob rules)) in Hf.
    rewrite toks_size_app in Hf. lia.
Qed.

Lemma flat_map_print_rob_length : forall rules, length rules <= length (flat_map print_rob rules).
Proof.
  induction rules as [|x rules IH]; simpl; [lia|].
  rewrite app_length. pose proof (print_rob_length x). lia.
Qed.

(* ---------- top level ---------- *)

(* total token size of a definition-level token list, brace bodies included *)
Definition dsize (ds : list dtok) : nat :=
  fold_right (fun d acc => match d with DT t => tok_size t | DBrace b => toks_size b end + acc) 0 ds.

Lemma dsize_app : forall a b, dsize (a ++ b) = dsize a + dsize b.
Proof. unfold dsize. induction a as [|x a IH]; intros b; simpl; [reflexivity|]. rewrite IH. lia. Qed.

Lemma dsize_cons : forall d ds,
  dsize (d :: ds) = match d with DT t => tok_size t | DBrace b => toks_size b end + dsize ds.
Proof. reflexivity. Qed.

Lemma dsize_map_DT : forall ts, dsize (map DT ts) = toks_size ts.
Proof. unfold dsize, toks_size. induction ts as [|t ts IH]; simpl; [reflexivity|]. rewrite IH. reflexivity. Qed.

Lemma dsize_flat : forall ds,
  dsize ds = toks_size (flat ds)
             + fold_right (fun d acc => match d with DBrace b => toks_size b | _ => 0 end + acc) 0 ds.
Proof.
  induction ds as [|d ds IH]; [reflexivity|].
  change (dsize (d :: ds)) with (match d with DT t => tok_size t | DBrace b => toks_size b end + dsize ds).
  unfold flat in *. simpl flat_map. simpl fold_right. rewrite toks_size_app, IH.
  destruct d; simpl; unfold toks_size; simpl; lia.
Qed.

Lemma split_brace_app : forall ts ds,
  split_brace (map DT ts ++ ds) = (ts ++ fst (split_brace ds), snd (split_brace ds)).
Proof.
  induction ts as [|t ts IH]; intros ds; simpl.
  - destruct (split_brace ds); reflexivity.
  - rewrite IH. reflexivity.
Qed.

Lemma split_brace_size : forall ds, toks_size (fst (split_brace ds)) <= dsize ds.
Proof.
  induction ds as [|d ds IH]; [simpl; lia|].
  destruct d as [t|b]; simpl.
  - destruct (split_brace ds) as [a o]. simpl in *. unfold dsize in *. simpl.
    fold (toks_size a). lia.
  - unfold toks_size at 1. simpl. lia.
Qed.

Lemma skipn_map_app : forall (ts : list tok) (ds : list dtok), skipn (length ts) (map DT ts ++ ds) = ds.
Proof. induction ts as [|t ts IH]; intros ds; simpl; auto. Qed.

Lemma parse_tops_nil : forall fuel n, parse_tops fuel n [] = Some [].
Proof. intros fuel []; reflexivity. Qed.

Lemma parse_tops_type : forall fuel n rest,
  parse_tops fuel (S n) (map DT [TIdent kw_type; TIdent kw_Error; TOther P_EQ; TOther P_EXPR; TOther P_SEMI] ++ rest)
  = option_map (cons PErrorType) (parse_tops fuel n rest).
Proof. reflexivity. Qed.

Lemma parse_tops_ruleset : forall fuel n nm body rest',
  parse_tops fuel (S n) (DT (TIdent kw_rule) :: DT (TIdent nm) :: DBrace body :: rest') =
  match parse_robs fuel (length body) body with
  | None => None
  | Some rules =>
      let rest'' := match rest' with
                    | DT (TOther k) :: r => if (k =? P_COMMA)%N then r else rest'
                    | _ => rest' end in
      option_map (cons (PRuleSet nm rules)) (parse_tops fuel n rest'')
  end.
Proof. reflexivity. Qed.

Lemma parse_top_rob_S : forall fuel n ds,
  parse_top_rob fuel (S n) ds =
  match parse_rob fuel (fst (split_brace ds)) with
  | None => None
  | Some (x, rest) =>
      option_map (cons (PRob x))
        (parse_tops fuel n (skipn (length (fst (split_brace ds)) - length rest) ds))
  end.
Proof. intros. simpl. destruct (split_brace ds). reflexivity. Qed.

Lemma parse_tops_let : forall fuel n rest,
  parse_tops fuel (S n) (DT (TIdent kw_let) :: rest) = parse_top_rob fuel n (DT (TIdent kw_let) :: rest).
Proof. reflexivity. Qed.

Lemma parse_tops_atom : forall fuel n t rest, starts_atom t = true ->
  parse_tops fuel (S n) (DT t :: rest) = parse_top_rob fuel n (DT t :: rest).
Proof. intros fuel n t rest H. destruct t; try discriminate; reflexivity. Qed.

(* a printed rule or binding starts with `let` or with an atom token *)
Lemma print_rob_head : forall x, exists t ts, print_rob x = t :: ts /\ (t = TIdent kw_let \/ starts_atom t = true).
Proof.
  intros [r|v re]; simpl.
  - destruct (print_re_cons (pr_re r) 0) as (t & ts & -> & H). simpl. eauto.
  - eauto.
Qed.

(* the optional comma after a rule set is never confused with the next item *)
Lemma no_comma_head : forall tc d,
  match print_def tc d with
  | DT (TOther k) :: r => if (k =? P_COMMA)%N then r else print_def tc d
  | _ => print_def tc d
  end = print_def tc d.
Proof.
  intros tc [|t d]; [reflexivity|]. unfold print_def. simpl flat_map.
  destruct t as [|x|nm rules]; try reflexivity.
  simpl print_top. destruct (print_rob_head x) as (t & ts & -> & [->|H]); [reflexivity|].
  destruct t; try discriminate; reflexivity.
Qed.

(* the round trip with explicit fuels: [f] for the regex parser, [n] for top-level items *)
Theorem tops_roundtrip : forall tc d f n, forallb ptop_ok d = true ->
  6 * dsize (print_def tc d) + 6 <= f -> 2 * length d <= n ->
  parse_tops f n (print_def tc d) = Some d.
Proof.
  intros tc. induction d as [|t d IH]; intros f n Hok Hf Hn.
  - apply parse_tops_nil.
  - simpl in Hok. apply andb_true_iff in Hok. destruct Hok as [Ht Hok].
    simpl length in Hn. destruct n as [|n]; [lia|].
    unfold print_def in *. simpl flat_map in *. fold (print_def tc d) in *.
    rewrite dsize_app in Hf.
    destruct t as [|x|nm rules].
    + (* type Error = ..; *)
      unfold print_top. rewrite parse_tops_type. rewrite IH; [reflexivity|auto|lia|lia].
    + (* top-level rule or binding *)
      simpl print_top in *. simpl in Ht. rewrite dsize_map_DT in Hf.
      destruct n as [|n]; [lia|].
      assert (Hstep : parse_tops f (S (S n)) (map DT (print_rob x) ++ print_def tc d)
                      = parse_top_rob f (S n) (map DT (print_rob x) ++ print_def tc d)).
      { destruct (print_rob_head x) as (t & ts & -> & [->|H]); simpl map; simpl app.
        - apply parse_tops_let.
        - apply parse_tops_atom; auto. }
      rewrite Hstep, parse_top_rob_S, split_brace_app. simpl fst.
      pose proof (split_brace_size (print_def tc d)) as Hsz.
      rewrite parse_rob_print; [|auto|rewrite parse_fuel_app; lia].
      rewrite app_length.
      replace (length (print_rob x) + length (fst (split_brace (print_def tc d)))
               - length (fst (split_brace (print_def tc d)))) with (length (print_rob x)) by lia.
      rewrite skipn_map_app. rewrite IH; [reflexivity|auto|lia|lia].
    + (* rule set *)
      simpl print_top in *. simpl in Ht. simpl app. rewrite parse_tops_ruleset.
      assert (Hb : 6 * toks_size (flat_map print_rob rules) + 6 <= f).
      { rewrite !dsize_cons in Hf. lia. }
      rewrite parse_robs_print; [|auto|apply flat_map_print_rob_length|exact Hb].
      cbv zeta.
      assert (Hrest : match (if tc then [DT (TOther P_COMMA)] else []) ++ print_def tc d with
                      | DT (TOther k) :: r =>
                          if (k =? P_COMMA)%N then r
                          else (if tc then [DT (TOther P_COMMA)] else []) ++ print_def tc d
                      | _ => (if tc then [DT (TOther P_COMMA)] else []) ++ print_def tc d
                      end = print_def tc d).
      { destruct tc; [reflexivity|]. apply no_comma_head. }
      rewrite Hrest. rewrite IH; [reflexivity|auto| |lia].
      lia.
Qed.

(* C16 at definition level *)
Theorem def_roundtrip : forall tc d, forallb ptop_ok d = true -> parse_def (print_def tc d) = Some d.
Proof.
  intros tc d Hok. unfold parse_def. apply tops_roundtrip; auto.
  - rewrite dsize_flat. unfold parse_fuel. lia.
  - assert (H : length d <= length (print_def tc d)).
    { clear Hok. induction d as [|t d IH]; [simpl; lia|].
      unfold print_def in *. simpl flat_map. rewrite app_length. simpl length.
      assert (1 <= length (print_top tc t)).
      { destruct t as [|x|nm rules]; simpl; try lia. rewrite map_length. apply print_rob_length. }
      lia. }
    lia.
Qed.

(* ---------- C17: malformed syntax is rejected ---------- *)

(* after the regex of a rule only `,` `=` `=>` `>` are accepted *)
Theorem reject_missing_comma : forall r k rest, eoi_safe' r = true ->
  k <> P_COMMA -> k <> P_EQ -> k <> P_FATARROW -> k <> P_GT ->
  forall fuel, parse_fuel (print_re 0 r ++ TOther k :: rest) <= fuel ->
  parse_rob fuel (print_re 0 r ++ TOther k :: rest) = None.
Proof.
  intros r k rest Hs H1 H2 H3 H4 fuel Hf.
  rewrite parse_rob_atom by (apply head_atom_app, print_re_head).
  unfold parse_regex_ctx. rewrite parse_re_other by auto.
  apply N.eqb_neq in H1, H2, H3, H4. rewrite H4. simpl. rewrite H1, H3, H2. reflexivity.
Qed.

(* an item starting with an identifier other than let / type / rule is rejected *)
Theorem reject_unknown_keyword : forall fuel n kw rest,
  name_eqb kw kw_let = false -> name_eqb kw kw_type = false -> name_eqb kw kw_rule = false ->
  parse_tops fuel (S n) (DT (TIdent kw) :: rest) = None.
Proof. intros fuel n kw rest H1 H2 H3. simpl. rewrite H1, H2, H3. reflexivity. Qed.

(* inside a rule set (and for top-level items reaching parse_rob) only `let` may start an item *)
Theorem reject_unknown_keyword_rob : forall fuel kw rest,
  name_eqb kw kw_let = false -> parse_rob fuel (TIdent kw :: rest) = None.
Proof. intros fuel kw rest H. simpl. rewrite H. reflexivity. Qed.

(* `let` without `=` *)
Theorem reject_let_without_eq : forall fuel v t rest, t <> TOther P_EQ ->
  parse_rob fuel (TIdent kw_let :: TIdent v :: t :: rest) = None.
Proof.
  intros fuel v t rest H. destruct t; try reflexivity.
  destruct (k =? P_EQ)%N eqn:E.
  - apply N.eqb_eq in E. subst. contradiction.
  - change (parse_rob fuel (TIdent kw_let :: TIdent v :: TOther k :: rest))
      with (if (k =? P_EQ)%N then
              match parse_re fuel 0 rest with
              | Some (re, TOther k2 :: rest2) => if (k2 =? P_SEMI)%N then Some (PBinding v re, rest2) else None
              | _ => None
              end else None).
    rewrite E. reflexivity.
Qed.

(* `let v = re` not terminated by `;` *)
Theorem reject_let_without_semi : forall fuel v r k rest, eoi_safe' r = true -> k <> P_SEMI ->
  parse_fuel (print_re 0 r ++ TOther k :: rest) <= fuel ->
  parse_rob fuel (TIdent kw_let :: TIdent v :: TOther P_EQ :: print_re 0 r ++ TOther k :: rest) = None.
Proof.
  intros fuel v r k rest Hs Hk Hf. rewrite parse_rob_let, parse_re_other by auto.
  apply N.eqb_neq in Hk. rewrite Hk. reflexivity.
Qed.

(* a malformed item anywhere in a rule-set body makes the whole body fail *)
Theorem reject_in_body : forall good bad fuel n, forallb prob_ok good = true ->
  parse_fuel (flat_map print_rob good ++ bad) <= fuel ->
  parse_rob fuel bad = None -> bad <> [] ->
  parse_robs fuel n (flat_map print_rob good ++ bad) = None.
Proof.
  induction good as [|x good IH]; intros bad fuel n Hok Hf Hbad Hne.
  - simpl. destruct bad as [|t bad]; [congruence|]. destruct n; [reflexivity|].
    rewrite parse_robs_cons, Hbad. reflexivity.
  - simpl in Hok. apply andb_true_iff in Hok. destruct Hok as [Hx Hok].
    simpl flat_map in *. rewrite <- app_assoc in *.
    assert (Hp := parse_rob_print x (flat_map print_rob good ++ bad) fuel Hx Hf).
    destruct (print_rob_cons x) as (t & ts & E). rewrite E in *. simpl app in *.
    destruct n; [reflexivity|]. rewrite parse_robs_cons, Hp.
    rewrite IH; [reflexivity|auto| |auto|auto].
    unfold parse_fuel in *. rewrite toks_size_cons in Hf.
    fold (toks_size (ts ++ flat_map print_rob good ++ bad)) in Hf.
    rewrite toks_size_app in Hf. lia.
Qed.

(* ---------- executable sanity checks ---------- *)

Module Examples.
  Definition a := RChar 97. Definition b := RChar 98.
  Definition mk re ctx k := PRule (mkPRule re ctx k).
  (* bindings named `rule` / `let`, all four right-hand sides, contexts, a regex ending in `$`,
     `$` alone followed by `=>` *)
  Definition rules1 :=
    [PBinding [120%N] (RStar a); mk a None RhsNone; mk (RCat a b) (Some b) RhsSimple;
     mk (ROr a REoi) None RhsFallible; mk (RVar [120%N]) (Some (RPlus a)) RhsInfallible;
     mk REoi None RhsInfallible; mk (RCat a REoi) None RhsInfallible;
     PBinding kw_rule REoi; PBinding kw_let a].
  Definition d1 :=
    [PErrorType; PRob (PBinding [121%N] (RCat a REoi)); PRuleSet [73%N] rules1;
     PRob (mk a None RhsNone); PRuleSet [74%N] []; PRob (mk (RCat a REoi) None RhsInfallible);
     PRob (mk REoi (Some REoi) RhsNone); PRuleSet kw_let rules1; PRuleSet kw_rule [];
     PRob (PBinding kw_type a)].
  Definition d2 := map PRob rules1.
  Definition d3 := [PRuleSet [73%N] []; PRob (mk a None RhsNone)].
  Example ex1 : parse_def (print_def true d1) = Some d1 /\ parse_def (print_def false d1) = Some d1.
  Proof. split; vm_compute; reflexivity. Qed.
  Example ex2 : parse_def (print_def true d2) = Some d2 /\ parse_def (print_def false d2) = Some d2.
  Proof. split; vm_compute; reflexivity. Qed.
  Example ex3 : parse_def (print_def true d3) = Some d3 /\ parse_def (print_def false d3) = Some d3.
  Proof. split; vm_compute; reflexivity. Qed.
  Example ex4 : parse_def (print_def true []) = Some [].
  Proof. reflexivity. Qed.

  (* the side condition is needed: `let x = $ $v;` reads back as the built-in `$$v` *)
  Definition bad := [PRob (PBinding [120%N] (RCat REoi (RVar [118%N])))].
  Example ex_bad : forallb ptop_ok bad = false /\
    parse_def (print_def false bad) = Some [PRob (PBinding [120%N] (RBuiltin [118%N]))].
  Proof. split; vm_compute; reflexivity. Qed.

  (* rejections on concrete inputs *)
  Example rej1 : parse_def (map DT (print_re 0 a)) = None.                       (* 'a' without `,` *)
  Proof. reflexivity. Qed.
  Example rej2 : parse_def (map DT (print_re 0 a ++ [TOther P_SEMI])) = None.    (* 'a' ; *)
  Proof. reflexivity. Qed.
  Example rej3 : parse_def [DT (TIdent [102%N]); DT (TOther P_COMMA)] = None.    (* f , *)
  Proof. reflexivity. Qed.
  Example rej4 : parse_def [DT (TIdent kw_rule); DT (TIdent [73%N])] = None.     (* rule I  without body *)
  Proof. reflexivity. Qed.
  Example rej5 : parse_def [DT (TIdent kw_rule); DT (TIdent [73%N]); DBrace (print_re 0 a)] = None.
  Proof. reflexivity. Qed.
  Example rej6 : parse_def (map DT [TIdent kw_let; TIdent [120%N]; TChar 97; TOther P_SEMI]) = None.
  Proof. reflexivity. Qed.
End Examples.

Print Assumptions print_re_not_ident.
Print Assumptions parse_rob_print.
Print Assumptions parse_robs_print.
Print Assumptions tops_roundtrip.
Print Assumptions def_roundtrip.
Print Assumptions reject_missing_comma.
Print Assumptions reject_unknown_keyword.
Print Assumptions reject_unknown_keyword_rob.
Print Assumptions reject_let_without_eq.
Print Assumptions reject_let_without_semi.
Print Assumptions reject_in_body.
