(* Model of crates/lexgen/src/dfa.rs (State, DFA, add_dfa), dfa/backtrack.rs, dfa/simplify.rs. *)
From LexVerif Require Import Base CharClass RangeMap Regex Nfa.

Record dstate (T : Type) := mkD {
  d_init : bool;
  d_chars : list (N * T);            (* char_transitions, sorted by char *)
  d_ranges : rmap T;
  d_any : option T;
  d_eoi : option T;
  d_acc : list accval;
  d_preds : list nat;                (* predecessors (set) *)
  d_bt : bool                        (* backtrack *)
}.
Arguments mkD {T}.
Arguments d_init {T}. Arguments d_chars {T}. Arguments d_ranges {T}. Arguments d_any {T}.
Arguments d_eoi {T}. Arguments d_acc {T}. Arguments d_preds {T}. Arguments d_bt {T}.

Definition dstate_empty {T} : dstate T := mkD false [] [] None None [] [] false.
Definition dfa (T : Type) := list (dstate T).
Definition dget {T} (d : dfa T) (s : nat) : dstate T := nth s d dstate_empty.

Definition dfa_new : dfa nat := [mkD true [] [] None None [] [] false].
Definition dfa_new_state (d : dfa nat) : dfa nat * nat := (d ++ [dstate_empty], length d).

Definition has_no_transitions {T} (s : dstate T) : bool :=
  match d_chars s, d_ranges s, d_any s, d_eoi s with
  | [], [], None, None => true
  | _, _, _, _ => false
  end.

Definition add_pred (d : dfa nat) (next pred : nat) : dfa nat :=
  upd next (fun st => mkD (d_init st) (d_chars st) (d_ranges st) (d_any st) (d_eoi st)
                          (d_acc st) (set_add pred (d_preds st)) (d_bt st)) d.

Definition dfa_make_accepting (d : dfa nat) (s : nat) (v : accval) : dfa nat :=
  upd s (fun st => mkD (d_init st) (d_chars st) (d_ranges st) (d_any st) (d_eoi st)
                       (d_acc st ++ [v]) (d_preds st) (d_bt st)) d.

Definition dfa_add_char_transition (d : dfa nat) (s : nat) (c : N) (next : nat) : result (dfa nat) :=
  match assoc_N c (d_chars (dget d s)) with
  | Some _ => Panic TagDfaCharTransition
  | None =>
      Ok (add_pred (upd s (fun st => mkD (d_init st) (assoc_N_set c next (d_chars st)) (d_ranges st)
                                         (d_any st) (d_eoi st) (d_acc st) (d_preds st) (d_bt st)) d)
                   next s)
  end.

Definition dfa_set_range_transitions (d : dfa nat) (s : nat) (rs : rmap nat) : result (dfa nat) :=
  match d_ranges (dget d s) with
  | _ :: _ => Panic TagDfaRanges
  | [] =>
      let d1 := fold_left (fun acc r => add_pred acc (r_val r) s) rs d in
      Ok (upd s (fun st => mkD (d_init st) (d_chars st) rs (d_any st) (d_eoi st)
                               (d_acc st) (d_preds st) (d_bt st)) d1)
  end.

Definition dfa_set_any (d : dfa nat) (s next : nat) : result (dfa nat) :=
  match d_any (dget d s) with
  | Some _ => Panic TagDfaAny
  | None =>
      Ok (add_pred (upd s (fun st => mkD (d_init st) (d_chars st) (d_ranges st) (Some next) (d_eoi st)
                                         (d_acc st) (d_preds st) (d_bt st)) d) next s)
  end.

Definition dfa_set_eoi (d : dfa nat) (s next : nat) : result (dfa nat) :=
  match d_eoi (dget d s) with
  | Some _ => Panic TagDfaEoi
  | None =>
      Ok (add_pred (upd s (fun st => mkD (d_init st) (d_chars st) (d_ranges st) (d_any st) (Some next)
                                         (d_acc st) (d_preds st) (d_bt st)) d) next s)
  end.

(* DFA::add_dfa: append [other] with every index shifted by the current length *)
Definition shift_state (k : nat) (st : dstate nat) : dstate nat :=
  mkD (d_init st)
      (map (fun p => (fst p, snd p + k)) (d_chars st))
      (rmap_map (fun x => x + k) (d_ranges st))
      (option_map (fun x => x + k) (d_any st))
      (option_map (fun x => x + k) (d_eoi st))
      (d_acc st)
      (map (fun x => x + k) (d_preds st))
      (d_bt st).

Definition add_dfa (d other : dfa nat) : dfa nat * nat :=
  (d ++ map (shift_state (length d)) other, length d).

(* ---------------- dfa/backtrack.rs: update_backtracks (monotone work list) ---------------- *)

Definition successors (st : dstate nat) : list nat :=
  map snd (d_chars st) ++ map (@r_val nat) (d_ranges st)
  ++ (match d_any st with Some x => [x] | None => [] end)
  ++ (match d_eoi st with Some x => [x] | None => [] end).

Definition is_accepting {T} (st : dstate T) : bool :=
  match d_acc st with [] => false | _ => true end.

Fixpoint assoc_nat {A} (k : nat) (l : list (nat * A)) : option A :=
  match l with
  | [] => None
  | (k', v) :: t => if k =? k' then Some v else assoc_nat k t
  end.

Fixpoint assoc_nat_set {A} (k : nat) (v : A) (l : list (nat * A)) : list (nat * A) :=
  match l with
  | [] => [(k, v)]
  | (k', v') :: t => if k =? k' then (k, v) :: t else (k', v') :: assoc_nat_set k v t
  end.

Record bt_state := mkBT { bt_work : list (nat * bool); bt_visited : list (nat * bool) }.

(* one iteration of `while let Some((state, backtrack)) = work_list.pop()` *)
Definition bt_step (d : dfa nat) (s : bt_state) : bt_state + list (nat * bool) :=
  match bt_work s with
  | [] => inr (bt_visited s)
  | (st, bt) :: work =>
      let proceed (visited' : list (nat * bool)) :=
        let succ_bt := bt || is_accepting (dget d st) in
        (* pushes in order; the last pushed is popped first *)
        let work' := fold_left (fun w x => (x, succ_bt) :: w) (successors (dget d st)) work in
        inl (mkBT work' visited') in
      match assoc_nat st (bt_visited s) with
      | Some old =>
          if old || negb bt then inl (mkBT work (bt_visited s))
          else proceed (assoc_nat_set st true (bt_visited s))
      | None => proceed (assoc_nat_set st bt (bt_visited s))
      end
  end.

Definition count_edges (d : dfa nat) : nat :=
  fold_left (fun acc st => acc + length (successors st)) d 0.

Definition bt_fuel (d : dfa nat) : positive :=
  Pos.of_succ_nat (2 * (length d + 2 * count_edges d) + 2).

Definition update_backtracks (d : dfa nat) : result (dfa nat) :=
  let inits :=
    rev (map fst (filter (fun p => d_init (snd p)) (combine (seq 0 (length d)) d))) in
  (* work_list = initial states in index order; pop takes the last *)
  match iter_pos (bt_fuel d) (bt_step d) (mkBT (map (fun i => (i, false)) inits) []) with
  | inl _ => Panic TagOutOfFuel
  | inr visited =>
      if negb (length visited =? length d) then Panic TagBacktrackVisited
      else Ok (map (fun p => let st := snd p in
                             mkD (d_init st) (d_chars st) (d_ranges st) (d_any st) (d_eoi st)
                                 (d_acc st) (d_preds st)
                                 (match assoc_nat (fst p) visited with Some b => b | None => false end))
                   (combine (seq 0 (length d)) d))
  end.

(* ---------------- dfa/simplify.rs ---------------- *)

Inductive trans := TGoto (n : nat) | TAccept (accs : list accval).

(* indices of the removed ("empty") states, ascending *)
Definition empty_states (d : dfa nat) : list nat :=
  map fst (filter (fun p => has_no_transitions (snd p) && negb (d_init (snd p)))
                  (combine (seq 0 (length d)) d)).

(* number of removed states with index < t  (the Err(idx)/Ok(idx) of the binary search) *)
Definition removed_below (es : list nat) (t : nat) : nat := length (filter (fun e => e <? t) es).

Definition map_transition (d : dfa nat) (es : list nat) (t : nat) : trans :=
  if set_mem t es then TAccept (d_acc (dget d t)) else TGoto (t - removed_below es t).

Definition simplify_state (d : dfa nat) (es : list nat) (st : dstate nat) : result (dstate trans) :=
  if existsb (fun p => set_mem p es) (d_preds st) then Panic TagSimplifyPred
  else Ok (mkD (d_init st)
               (map (fun p => (fst p, map_transition d es (snd p))) (d_chars st))
               (rmap_map (map_transition d es) (d_ranges st))
               (option_map (map_transition d es) (d_any st))
               (option_map (map_transition d es) (d_eoi st))
               (d_acc st)
               (set_of_list (map (fun p => p - removed_below es p) (d_preds st)))
               (d_bt st)).

Fixpoint result_map {A B} (f : A -> result B) (l : list A) : result (list B) :=
  match l with
  | [] => Ok []
  | x :: t => do y <- f x; do ys <- result_map f t; Ok (y :: ys)
  end.

Definition simplify (d : dfa nat) (entries : list (name * nat))
  : result (dfa trans * list (name * nat)) :=
  let es := empty_states d in
  let entries' := map (fun e => (fst e, snd e - removed_below es (snd e))) entries in
  let kept := map snd (filter (fun p => negb (set_mem (fst p) es)) (combine (seq 0 (length d)) d)) in
  do states <- result_map (simplify_state d es) kept;
  Ok (states, entries').
